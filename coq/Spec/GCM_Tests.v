(* Spec/GCM_Tests.v — TESTS (known-answer vectors and library cross-checks) for
   Spec/GCM.v.  These are point checks, not theorems about all inputs. *)
From Coq Require Import String.
From IMB Require Import Lib.Bytes Spec.Hex Spec.GF128 Spec.AES Spec.GCM.
Local Open Scope N_scope.
Local Open Scope string_scope.

(* ------------------------------------------------------------------ *)
(* McGrew & Viega, "The Galois/Counter Mode of Operation (GCM)",       *)
(* Appendix B, Test Cases 1-18 (the SP 800-38D validation vectors).    *)
(* Includes 8-byte IVs (5, 11, 17) and 60-byte IVs (6, 12, 18).        *)
(* ------------------------------------------------------------------ *)

(* Test Case 1: key 128 bits, IV 12 bytes, AAD 0 bytes, P 0 bytes *)
Example gcm_tc1_enc :
  gcm_enc (hex "00000000000000000000000000000000")
          (hex "000000000000000000000000")
          (hex "")
          (hex "") 16
  = (hex "",
     hex "58e2fccefa7e3061367f1d57a4e7455a").
Proof. vm_compute. reflexivity. Qed.
Example gcm_tc1_dec :
  gcm_dec (hex "00000000000000000000000000000000")
          (hex "000000000000000000000000")
          (hex "")
          (hex "") 16
  = (hex "",
     hex "58e2fccefa7e3061367f1d57a4e7455a").
Proof. vm_compute. reflexivity. Qed.

(* Test Case 2: key 128 bits, IV 12 bytes, AAD 0 bytes, P 16 bytes *)
Example gcm_tc2_enc :
  gcm_enc (hex "00000000000000000000000000000000")
          (hex "000000000000000000000000")
          (hex "")
          (hex "00000000000000000000000000000000") 16
  = (hex "0388dace60b6a392f328c2b971b2fe78",
     hex "ab6e47d42cec13bdf53a67b21257bddf").
Proof. vm_compute. reflexivity. Qed.
Example gcm_tc2_dec :
  gcm_dec (hex "00000000000000000000000000000000")
          (hex "000000000000000000000000")
          (hex "")
          (hex "0388dace60b6a392f328c2b971b2fe78") 16
  = (hex "00000000000000000000000000000000",
     hex "ab6e47d42cec13bdf53a67b21257bddf").
Proof. vm_compute. reflexivity. Qed.

(* Test Case 3: key 128 bits, IV 12 bytes, AAD 0 bytes, P 64 bytes *)
Example gcm_tc3_enc :
  gcm_enc (hex "feffe9928665731c6d6a8f9467308308")
          (hex "cafebabefacedbaddecaf888")
          (hex "")
          (hex "d9313225f88406e5a55909c5aff5269a86a7a9531534f7da2e4c303d8a318a721c3c0c95956809532fcf0e2449a6b525b16aedf5aa0de657ba637b391aafd255") 16
  = (hex "42831ec2217774244b7221b784d0d49ce3aa212f2c02a4e035c17e2329aca12e21d514b25466931c7d8f6a5aac84aa051ba30b396a0aac973d58e091473f5985",
     hex "4d5c2af327cd64a62cf35abd2ba6fab4").
Proof. vm_compute. reflexivity. Qed.
Example gcm_tc3_dec :
  gcm_dec (hex "feffe9928665731c6d6a8f9467308308")
          (hex "cafebabefacedbaddecaf888")
          (hex "")
          (hex "42831ec2217774244b7221b784d0d49ce3aa212f2c02a4e035c17e2329aca12e21d514b25466931c7d8f6a5aac84aa051ba30b396a0aac973d58e091473f5985") 16
  = (hex "d9313225f88406e5a55909c5aff5269a86a7a9531534f7da2e4c303d8a318a721c3c0c95956809532fcf0e2449a6b525b16aedf5aa0de657ba637b391aafd255",
     hex "4d5c2af327cd64a62cf35abd2ba6fab4").
Proof. vm_compute. reflexivity. Qed.

(* Test Case 4: key 128 bits, IV 12 bytes, AAD 20 bytes, P 60 bytes *)
Example gcm_tc4_enc :
  gcm_enc (hex "feffe9928665731c6d6a8f9467308308")
          (hex "cafebabefacedbaddecaf888")
          (hex "feedfacedeadbeeffeedfacedeadbeefabaddad2")
          (hex "d9313225f88406e5a55909c5aff5269a86a7a9531534f7da2e4c303d8a318a721c3c0c95956809532fcf0e2449a6b525b16aedf5aa0de657ba637b39") 16
  = (hex "42831ec2217774244b7221b784d0d49ce3aa212f2c02a4e035c17e2329aca12e21d514b25466931c7d8f6a5aac84aa051ba30b396a0aac973d58e091",
     hex "5bc94fbc3221a5db94fae95ae7121a47").
Proof. vm_compute. reflexivity. Qed.
Example gcm_tc4_dec :
  gcm_dec (hex "feffe9928665731c6d6a8f9467308308")
          (hex "cafebabefacedbaddecaf888")
          (hex "feedfacedeadbeeffeedfacedeadbeefabaddad2")
          (hex "42831ec2217774244b7221b784d0d49ce3aa212f2c02a4e035c17e2329aca12e21d514b25466931c7d8f6a5aac84aa051ba30b396a0aac973d58e091") 16
  = (hex "d9313225f88406e5a55909c5aff5269a86a7a9531534f7da2e4c303d8a318a721c3c0c95956809532fcf0e2449a6b525b16aedf5aa0de657ba637b39",
     hex "5bc94fbc3221a5db94fae95ae7121a47").
Proof. vm_compute. reflexivity. Qed.

(* Test Case 5: key 128 bits, IV 8 bytes, AAD 20 bytes, P 60 bytes *)
Example gcm_tc5_enc :
  gcm_enc (hex "feffe9928665731c6d6a8f9467308308")
          (hex "cafebabefacedbad")
          (hex "feedfacedeadbeeffeedfacedeadbeefabaddad2")
          (hex "d9313225f88406e5a55909c5aff5269a86a7a9531534f7da2e4c303d8a318a721c3c0c95956809532fcf0e2449a6b525b16aedf5aa0de657ba637b39") 16
  = (hex "61353b4c2806934a777ff51fa22a4755699b2a714fcdc6f83766e5f97b6c742373806900e49f24b22b097544d4896b424989b5e1ebac0f07c23f4598",
     hex "3612d2e79e3b0785561be14aaca2fccb").
Proof. vm_compute. reflexivity. Qed.
Example gcm_tc5_dec :
  gcm_dec (hex "feffe9928665731c6d6a8f9467308308")
          (hex "cafebabefacedbad")
          (hex "feedfacedeadbeeffeedfacedeadbeefabaddad2")
          (hex "61353b4c2806934a777ff51fa22a4755699b2a714fcdc6f83766e5f97b6c742373806900e49f24b22b097544d4896b424989b5e1ebac0f07c23f4598") 16
  = (hex "d9313225f88406e5a55909c5aff5269a86a7a9531534f7da2e4c303d8a318a721c3c0c95956809532fcf0e2449a6b525b16aedf5aa0de657ba637b39",
     hex "3612d2e79e3b0785561be14aaca2fccb").
Proof. vm_compute. reflexivity. Qed.

(* Test Case 6: key 128 bits, IV 60 bytes, AAD 20 bytes, P 60 bytes *)
Example gcm_tc6_enc :
  gcm_enc (hex "feffe9928665731c6d6a8f9467308308")
          (hex "9313225df88406e555909c5aff5269aa6a7a9538534f7da1e4c303d2a318a728c3c0c95156809539fcf0e2429a6b525416aedbf5a0de6a57a637b39b")
          (hex "feedfacedeadbeeffeedfacedeadbeefabaddad2")
          (hex "d9313225f88406e5a55909c5aff5269a86a7a9531534f7da2e4c303d8a318a721c3c0c95956809532fcf0e2449a6b525b16aedf5aa0de657ba637b39") 16
  = (hex "8ce24998625615b603a033aca13fb894be9112a5c3a211a8ba262a3cca7e2ca701e4a9a4fba43c90ccdcb281d48c7c6fd62875d2aca417034c34aee5",
     hex "619cc5aefffe0bfa462af43c1699d050").
Proof. vm_compute. reflexivity. Qed.
Example gcm_tc6_dec :
  gcm_dec (hex "feffe9928665731c6d6a8f9467308308")
          (hex "9313225df88406e555909c5aff5269aa6a7a9538534f7da1e4c303d2a318a728c3c0c95156809539fcf0e2429a6b525416aedbf5a0de6a57a637b39b")
          (hex "feedfacedeadbeeffeedfacedeadbeefabaddad2")
          (hex "8ce24998625615b603a033aca13fb894be9112a5c3a211a8ba262a3cca7e2ca701e4a9a4fba43c90ccdcb281d48c7c6fd62875d2aca417034c34aee5") 16
  = (hex "d9313225f88406e5a55909c5aff5269a86a7a9531534f7da2e4c303d8a318a721c3c0c95956809532fcf0e2449a6b525b16aedf5aa0de657ba637b39",
     hex "619cc5aefffe0bfa462af43c1699d050").
Proof. vm_compute. reflexivity. Qed.

(* Test Case 7: key 192 bits, IV 12 bytes, AAD 0 bytes, P 0 bytes *)
Example gcm_tc7_enc :
  gcm_enc (hex "000000000000000000000000000000000000000000000000")
          (hex "000000000000000000000000")
          (hex "")
          (hex "") 16
  = (hex "",
     hex "cd33b28ac773f74ba00ed1f312572435").
Proof. vm_compute. reflexivity. Qed.
Example gcm_tc7_dec :
  gcm_dec (hex "000000000000000000000000000000000000000000000000")
          (hex "000000000000000000000000")
          (hex "")
          (hex "") 16
  = (hex "",
     hex "cd33b28ac773f74ba00ed1f312572435").
Proof. vm_compute. reflexivity. Qed.

(* Test Case 8: key 192 bits, IV 12 bytes, AAD 0 bytes, P 16 bytes *)
Example gcm_tc8_enc :
  gcm_enc (hex "000000000000000000000000000000000000000000000000")
          (hex "000000000000000000000000")
          (hex "")
          (hex "00000000000000000000000000000000") 16
  = (hex "98e7247c07f0fe411c267e4384b0f600",
     hex "2ff58d80033927ab8ef4d4587514f0fb").
Proof. vm_compute. reflexivity. Qed.
Example gcm_tc8_dec :
  gcm_dec (hex "000000000000000000000000000000000000000000000000")
          (hex "000000000000000000000000")
          (hex "")
          (hex "98e7247c07f0fe411c267e4384b0f600") 16
  = (hex "00000000000000000000000000000000",
     hex "2ff58d80033927ab8ef4d4587514f0fb").
Proof. vm_compute. reflexivity. Qed.

(* Test Case 9: key 192 bits, IV 12 bytes, AAD 0 bytes, P 64 bytes *)
Example gcm_tc9_enc :
  gcm_enc (hex "feffe9928665731c6d6a8f9467308308feffe9928665731c")
          (hex "cafebabefacedbaddecaf888")
          (hex "")
          (hex "d9313225f88406e5a55909c5aff5269a86a7a9531534f7da2e4c303d8a318a721c3c0c95956809532fcf0e2449a6b525b16aedf5aa0de657ba637b391aafd255") 16
  = (hex "3980ca0b3c00e841eb06fac4872a2757859e1ceaa6efd984628593b40ca1e19c7d773d00c144c525ac619d18c84a3f4718e2448b2fe324d9ccda2710acade256",
     hex "9924a7c8587336bfb118024db8674a14").
Proof. vm_compute. reflexivity. Qed.
Example gcm_tc9_dec :
  gcm_dec (hex "feffe9928665731c6d6a8f9467308308feffe9928665731c")
          (hex "cafebabefacedbaddecaf888")
          (hex "")
          (hex "3980ca0b3c00e841eb06fac4872a2757859e1ceaa6efd984628593b40ca1e19c7d773d00c144c525ac619d18c84a3f4718e2448b2fe324d9ccda2710acade256") 16
  = (hex "d9313225f88406e5a55909c5aff5269a86a7a9531534f7da2e4c303d8a318a721c3c0c95956809532fcf0e2449a6b525b16aedf5aa0de657ba637b391aafd255",
     hex "9924a7c8587336bfb118024db8674a14").
Proof. vm_compute. reflexivity. Qed.

(* Test Case 10: key 192 bits, IV 12 bytes, AAD 20 bytes, P 60 bytes *)
Example gcm_tc10_enc :
  gcm_enc (hex "feffe9928665731c6d6a8f9467308308feffe9928665731c")
          (hex "cafebabefacedbaddecaf888")
          (hex "feedfacedeadbeeffeedfacedeadbeefabaddad2")
          (hex "d9313225f88406e5a55909c5aff5269a86a7a9531534f7da2e4c303d8a318a721c3c0c95956809532fcf0e2449a6b525b16aedf5aa0de657ba637b39") 16
  = (hex "3980ca0b3c00e841eb06fac4872a2757859e1ceaa6efd984628593b40ca1e19c7d773d00c144c525ac619d18c84a3f4718e2448b2fe324d9ccda2710",
     hex "2519498e80f1478f37ba55bd6d27618c").
Proof. vm_compute. reflexivity. Qed.
Example gcm_tc10_dec :
  gcm_dec (hex "feffe9928665731c6d6a8f9467308308feffe9928665731c")
          (hex "cafebabefacedbaddecaf888")
          (hex "feedfacedeadbeeffeedfacedeadbeefabaddad2")
          (hex "3980ca0b3c00e841eb06fac4872a2757859e1ceaa6efd984628593b40ca1e19c7d773d00c144c525ac619d18c84a3f4718e2448b2fe324d9ccda2710") 16
  = (hex "d9313225f88406e5a55909c5aff5269a86a7a9531534f7da2e4c303d8a318a721c3c0c95956809532fcf0e2449a6b525b16aedf5aa0de657ba637b39",
     hex "2519498e80f1478f37ba55bd6d27618c").
Proof. vm_compute. reflexivity. Qed.

(* Test Case 11: key 192 bits, IV 8 bytes, AAD 20 bytes, P 60 bytes *)
Example gcm_tc11_enc :
  gcm_enc (hex "feffe9928665731c6d6a8f9467308308feffe9928665731c")
          (hex "cafebabefacedbad")
          (hex "feedfacedeadbeeffeedfacedeadbeefabaddad2")
          (hex "d9313225f88406e5a55909c5aff5269a86a7a9531534f7da2e4c303d8a318a721c3c0c95956809532fcf0e2449a6b525b16aedf5aa0de657ba637b39") 16
  = (hex "0f10f599ae14a154ed24b36e25324db8c566632ef2bbb34f8347280fc4507057fddc29df9a471f75c66541d4d4dad1c9e93a19a58e8b473fa0f062f7",
     hex "65dcc57fcf623a24094fcca40d3533f8").
Proof. vm_compute. reflexivity. Qed.
Example gcm_tc11_dec :
  gcm_dec (hex "feffe9928665731c6d6a8f9467308308feffe9928665731c")
          (hex "cafebabefacedbad")
          (hex "feedfacedeadbeeffeedfacedeadbeefabaddad2")
          (hex "0f10f599ae14a154ed24b36e25324db8c566632ef2bbb34f8347280fc4507057fddc29df9a471f75c66541d4d4dad1c9e93a19a58e8b473fa0f062f7") 16
  = (hex "d9313225f88406e5a55909c5aff5269a86a7a9531534f7da2e4c303d8a318a721c3c0c95956809532fcf0e2449a6b525b16aedf5aa0de657ba637b39",
     hex "65dcc57fcf623a24094fcca40d3533f8").
Proof. vm_compute. reflexivity. Qed.

(* Test Case 12: key 192 bits, IV 60 bytes, AAD 20 bytes, P 60 bytes *)
Example gcm_tc12_enc :
  gcm_enc (hex "feffe9928665731c6d6a8f9467308308feffe9928665731c")
          (hex "9313225df88406e555909c5aff5269aa6a7a9538534f7da1e4c303d2a318a728c3c0c95156809539fcf0e2429a6b525416aedbf5a0de6a57a637b39b")
          (hex "feedfacedeadbeeffeedfacedeadbeefabaddad2")
          (hex "d9313225f88406e5a55909c5aff5269a86a7a9531534f7da2e4c303d8a318a721c3c0c95956809532fcf0e2449a6b525b16aedf5aa0de657ba637b39") 16
  = (hex "d27e88681ce3243c4830165a8fdcf9ff1de9a1d8e6b447ef6ef7b79828666e4581e79012af34ddd9e2f037589b292db3e67c036745fa22e7e9b7373b",
     hex "dcf566ff291c25bbb8568fc3d376a6d9").
Proof. vm_compute. reflexivity. Qed.
Example gcm_tc12_dec :
  gcm_dec (hex "feffe9928665731c6d6a8f9467308308feffe9928665731c")
          (hex "9313225df88406e555909c5aff5269aa6a7a9538534f7da1e4c303d2a318a728c3c0c95156809539fcf0e2429a6b525416aedbf5a0de6a57a637b39b")
          (hex "feedfacedeadbeeffeedfacedeadbeefabaddad2")
          (hex "d27e88681ce3243c4830165a8fdcf9ff1de9a1d8e6b447ef6ef7b79828666e4581e79012af34ddd9e2f037589b292db3e67c036745fa22e7e9b7373b") 16
  = (hex "d9313225f88406e5a55909c5aff5269a86a7a9531534f7da2e4c303d8a318a721c3c0c95956809532fcf0e2449a6b525b16aedf5aa0de657ba637b39",
     hex "dcf566ff291c25bbb8568fc3d376a6d9").
Proof. vm_compute. reflexivity. Qed.

(* Test Case 13: key 256 bits, IV 12 bytes, AAD 0 bytes, P 0 bytes *)
Example gcm_tc13_enc :
  gcm_enc (hex "0000000000000000000000000000000000000000000000000000000000000000")
          (hex "000000000000000000000000")
          (hex "")
          (hex "") 16
  = (hex "",
     hex "530f8afbc74536b9a963b4f1c4cb738b").
Proof. vm_compute. reflexivity. Qed.
Example gcm_tc13_dec :
  gcm_dec (hex "0000000000000000000000000000000000000000000000000000000000000000")
          (hex "000000000000000000000000")
          (hex "")
          (hex "") 16
  = (hex "",
     hex "530f8afbc74536b9a963b4f1c4cb738b").
Proof. vm_compute. reflexivity. Qed.

(* Test Case 14: key 256 bits, IV 12 bytes, AAD 0 bytes, P 16 bytes *)
Example gcm_tc14_enc :
  gcm_enc (hex "0000000000000000000000000000000000000000000000000000000000000000")
          (hex "000000000000000000000000")
          (hex "")
          (hex "00000000000000000000000000000000") 16
  = (hex "cea7403d4d606b6e074ec5d3baf39d18",
     hex "d0d1c8a799996bf0265b98b5d48ab919").
Proof. vm_compute. reflexivity. Qed.
Example gcm_tc14_dec :
  gcm_dec (hex "0000000000000000000000000000000000000000000000000000000000000000")
          (hex "000000000000000000000000")
          (hex "")
          (hex "cea7403d4d606b6e074ec5d3baf39d18") 16
  = (hex "00000000000000000000000000000000",
     hex "d0d1c8a799996bf0265b98b5d48ab919").
Proof. vm_compute. reflexivity. Qed.

(* Test Case 15: key 256 bits, IV 12 bytes, AAD 0 bytes, P 64 bytes *)
Example gcm_tc15_enc :
  gcm_enc (hex "feffe9928665731c6d6a8f9467308308feffe9928665731c6d6a8f9467308308")
          (hex "cafebabefacedbaddecaf888")
          (hex "")
          (hex "d9313225f88406e5a55909c5aff5269a86a7a9531534f7da2e4c303d8a318a721c3c0c95956809532fcf0e2449a6b525b16aedf5aa0de657ba637b391aafd255") 16
  = (hex "522dc1f099567d07f47f37a32a84427d643a8cdcbfe5c0c97598a2bd2555d1aa8cb08e48590dbb3da7b08b1056828838c5f61e6393ba7a0abcc9f662898015ad",
     hex "b094dac5d93471bdec1a502270e3cc6c").
Proof. vm_compute. reflexivity. Qed.
Example gcm_tc15_dec :
  gcm_dec (hex "feffe9928665731c6d6a8f9467308308feffe9928665731c6d6a8f9467308308")
          (hex "cafebabefacedbaddecaf888")
          (hex "")
          (hex "522dc1f099567d07f47f37a32a84427d643a8cdcbfe5c0c97598a2bd2555d1aa8cb08e48590dbb3da7b08b1056828838c5f61e6393ba7a0abcc9f662898015ad") 16
  = (hex "d9313225f88406e5a55909c5aff5269a86a7a9531534f7da2e4c303d8a318a721c3c0c95956809532fcf0e2449a6b525b16aedf5aa0de657ba637b391aafd255",
     hex "b094dac5d93471bdec1a502270e3cc6c").
Proof. vm_compute. reflexivity. Qed.

(* Test Case 16: key 256 bits, IV 12 bytes, AAD 20 bytes, P 60 bytes *)
Example gcm_tc16_enc :
  gcm_enc (hex "feffe9928665731c6d6a8f9467308308feffe9928665731c6d6a8f9467308308")
          (hex "cafebabefacedbaddecaf888")
          (hex "feedfacedeadbeeffeedfacedeadbeefabaddad2")
          (hex "d9313225f88406e5a55909c5aff5269a86a7a9531534f7da2e4c303d8a318a721c3c0c95956809532fcf0e2449a6b525b16aedf5aa0de657ba637b39") 16
  = (hex "522dc1f099567d07f47f37a32a84427d643a8cdcbfe5c0c97598a2bd2555d1aa8cb08e48590dbb3da7b08b1056828838c5f61e6393ba7a0abcc9f662",
     hex "76fc6ece0f4e1768cddf8853bb2d551b").
Proof. vm_compute. reflexivity. Qed.
Example gcm_tc16_dec :
  gcm_dec (hex "feffe9928665731c6d6a8f9467308308feffe9928665731c6d6a8f9467308308")
          (hex "cafebabefacedbaddecaf888")
          (hex "feedfacedeadbeeffeedfacedeadbeefabaddad2")
          (hex "522dc1f099567d07f47f37a32a84427d643a8cdcbfe5c0c97598a2bd2555d1aa8cb08e48590dbb3da7b08b1056828838c5f61e6393ba7a0abcc9f662") 16
  = (hex "d9313225f88406e5a55909c5aff5269a86a7a9531534f7da2e4c303d8a318a721c3c0c95956809532fcf0e2449a6b525b16aedf5aa0de657ba637b39",
     hex "76fc6ece0f4e1768cddf8853bb2d551b").
Proof. vm_compute. reflexivity. Qed.

(* Test Case 17: key 256 bits, IV 8 bytes, AAD 20 bytes, P 60 bytes *)
Example gcm_tc17_enc :
  gcm_enc (hex "feffe9928665731c6d6a8f9467308308feffe9928665731c6d6a8f9467308308")
          (hex "cafebabefacedbad")
          (hex "feedfacedeadbeeffeedfacedeadbeefabaddad2")
          (hex "d9313225f88406e5a55909c5aff5269a86a7a9531534f7da2e4c303d8a318a721c3c0c95956809532fcf0e2449a6b525b16aedf5aa0de657ba637b39") 16
  = (hex "c3762df1ca787d32ae47c13bf19844cbaf1ae14d0b976afac52ff7d79bba9de0feb582d33934a4f0954cc2363bc73f7862ac430e64abe499f47c9b1f",
     hex "3a337dbf46a792c45e454913fe2ea8f2").
Proof. vm_compute. reflexivity. Qed.
Example gcm_tc17_dec :
  gcm_dec (hex "feffe9928665731c6d6a8f9467308308feffe9928665731c6d6a8f9467308308")
          (hex "cafebabefacedbad")
          (hex "feedfacedeadbeeffeedfacedeadbeefabaddad2")
          (hex "c3762df1ca787d32ae47c13bf19844cbaf1ae14d0b976afac52ff7d79bba9de0feb582d33934a4f0954cc2363bc73f7862ac430e64abe499f47c9b1f") 16
  = (hex "d9313225f88406e5a55909c5aff5269a86a7a9531534f7da2e4c303d8a318a721c3c0c95956809532fcf0e2449a6b525b16aedf5aa0de657ba637b39",
     hex "3a337dbf46a792c45e454913fe2ea8f2").
Proof. vm_compute. reflexivity. Qed.

(* Test Case 18: key 256 bits, IV 60 bytes, AAD 20 bytes, P 60 bytes *)
Example gcm_tc18_enc :
  gcm_enc (hex "feffe9928665731c6d6a8f9467308308feffe9928665731c6d6a8f9467308308")
          (hex "9313225df88406e555909c5aff5269aa6a7a9538534f7da1e4c303d2a318a728c3c0c95156809539fcf0e2429a6b525416aedbf5a0de6a57a637b39b")
          (hex "feedfacedeadbeeffeedfacedeadbeefabaddad2")
          (hex "d9313225f88406e5a55909c5aff5269a86a7a9531534f7da2e4c303d8a318a721c3c0c95956809532fcf0e2449a6b525b16aedf5aa0de657ba637b39") 16
  = (hex "5a8def2f0c9e53f1f75d7853659e2a20eeb2b22aafde6419a058ab4f6f746bf40fc0c3b780f244452da3ebf1c5d82cdea2418997200ef82e44ae7e3f",
     hex "a44a8266ee1c8eb0c8b5d4cf5ae9f19a").
Proof. vm_compute. reflexivity. Qed.
Example gcm_tc18_dec :
  gcm_dec (hex "feffe9928665731c6d6a8f9467308308feffe9928665731c6d6a8f9467308308")
          (hex "9313225df88406e555909c5aff5269aa6a7a9538534f7da1e4c303d2a318a728c3c0c95156809539fcf0e2429a6b525416aedbf5a0de6a57a637b39b")
          (hex "feedfacedeadbeeffeedfacedeadbeefabaddad2")
          (hex "5a8def2f0c9e53f1f75d7853659e2a20eeb2b22aafde6419a058ab4f6f746bf40fc0c3b780f244452da3ebf1c5d82cdea2418997200ef82e44ae7e3f") 16
  = (hex "d9313225f88406e5a55909c5aff5269a86a7a9531534f7da2e4c303d8a318a721c3c0c95956809532fcf0e2449a6b525b16aedf5aa0de657ba637b39",
     hex "a44a8266ee1c8eb0c8b5d4cf5ae9f19a").
Proof. vm_compute. reflexivity. Qed.

(* J0 derivation, including a 16-byte IV crafted (for the all-zero key, via the
   inverse of H in GF(2^128)) so that J0 ends in ffffffffd: the 32-bit counter
   wraps inside the message.  The library (all three managers) wraps modulo
   2^32 without carrying into the upper 96 bits, as SP 800-38D inc_32 demands. *)
Example gcm_j0_12 :
  gcm_j0 0 (hex "cafebabefacedbaddecaf888") = hex "cafebabefacedbaddecaf88800000001".
Proof. vm_compute. reflexivity. Qed.
Example gcm_j0_crafted :
  let e := aes_enc_rk (aes_key_expand (zeros 16)) in
  gcm_j0 (gcm_hash_subkey e) (hex "368ce383ec72180c47bcda84371b1532")
  = hex "00000000000000000000000ffffffffd".
Proof. vm_compute. reflexivity. Qed.
Example gcm_hash_key_zero : gcm_hash_key (zeros 16) = hex "66e94bd4ef8a2c3b884cfa59ca342b2e".
Proof. vm_compute. reflexivity. Qed.

(* ------------------------------------------------------------------ *)
(* Cross-checks against the real library (libIPSec_MB.so built from    *)
(* /repo), job API (IMB_CIPHER_GCM + IMB_AUTH_AES_GMAC), random inputs. *)
(* Every vector was produced by the sse, avx2 and avx512 managers       *)
(* (init_mb_mgr_sse/_avx2/_avx512); all three agreed, and the decrypt   *)
(* direction returned the plaintext and the same tag.                   *)
(* The subset below covers key 16/24/32 x IV 1/8/12/13/16/60 and every  *)
(* AAD length 0/1/16/17/20/100, text length 0/1/15/16/17/64/255/256/257 *)
(* and tag length 4/8/12/16; the complete cross product (3888 vectors,  *)
(* enc + dec) was checked with the OCaml extraction of gcm_enc/gcm_dec. *)
(* ------------------------------------------------------------------ *)

Example lib_gcm_1_key16_iv1_aad0_len0_tag4 :
  gcm_enc (hex "0b02e536a14ed61ab049b856add63ffc")
          (hex "7d")
          (hex "")
          (hex "") 4
  = (hex "",
     hex "030629f0")
  /\
  gcm_dec (hex "0b02e536a14ed61ab049b856add63ffc")
          (hex "7d")
          (hex "")
          (hex "") 4
  = (hex "",
     hex "030629f0").
Proof. vm_compute. split; reflexivity. Qed.

Example lib_gcm_2_key16_iv1_aad16_len16_tag8 :
  gcm_enc (hex "c54a29d2b6debb248f354019ed4fa0e9")
          (hex "ed")
          (hex "d090e164a980dec11c00c38b4cfa1d6e")
          (hex "3a6df2613ccb8b36a484c05a483e59f1") 8
  = (hex "8e156a7ecc6847301fc2605879057574",
     hex "11cac1966c9ef57c")
  /\
  gcm_dec (hex "c54a29d2b6debb248f354019ed4fa0e9")
          (hex "ed")
          (hex "d090e164a980dec11c00c38b4cfa1d6e")
          (hex "8e156a7ecc6847301fc2605879057574") 8
  = (hex "3a6df2613ccb8b36a484c05a483e59f1",
     hex "11cac1966c9ef57c").
Proof. vm_compute. split; reflexivity. Qed.

Example lib_gcm_3_key16_iv1_aad20_len255_tag12 :
  gcm_enc (hex "9fcdac2de4802190da791438f9ffb2a4")
          (hex "fe")
          (hex "09f66bd1ece208c589544396c5dc4bc153cdb8d5")
          (hex "7488c20807174b7ed26b957aeef38e965a7121c02302fd96fd50e5e227e6f402aedbb93bb85c82664acc56c024b97e97c5ca8d4aab3596a1472c45158c95cf46dc4f4bb9876e063d5b5e33e71db21cedf58e02395687c58bd39a5a15fd58d6b3ce0c36f9d995047f550153c6a1feccf71fc107071e69bab902152bfca53b41cd6e7d1a5e156de04fc800e4b0279ec6218cf85a98b13c15121365b967689cad8c81674250c5e1e6377749aa50b6fed4297d1bc08fa5d486f443733779e358cd19edeb04dcdba027a1ac6db1503823d84ffec2d627e1e5df50559ac7a1fce6f49980df01dcfa5489a6f7ad274e00f9aca8169d30cc0cd2d96b5e4523f0d50c0d") 12
  = (hex "e95f1d783d1cde461040244a992c37ab991ba8dbeeeff93a24d4db537cb8b0399697516595810c5c66fc9e9863bcfc27a2d4796a915bed27d5bb8f45dba6d9b4101622ce1fc1f5dc41e66b1545c944f63ccf20f2d74071172a03e01fd660a0006416fee02a3a7af11365b3910bddc3f8a2eb3573f352dd35ff68724a2b1012c4f2f04e24d05ef7c94066fbb07504cb5594d5a9c3984c26f4a5816d3e5c30ee19d13ebaa14e644b84d2f79e20425f33eccd220b8a8954c190c8dc161ae177d68aee34e6711ad279bac2e7ac99d9b8676e2162f0b87b0df00b361d966e91d0a8104004751af4b29e150f74713d1665d7f1642e53a191c43c380b83a71b35902c",
     hex "0c6929c24f3ebaf936d4e8ec")
  /\
  gcm_dec (hex "9fcdac2de4802190da791438f9ffb2a4")
          (hex "fe")
          (hex "09f66bd1ece208c589544396c5dc4bc153cdb8d5")
          (hex "e95f1d783d1cde461040244a992c37ab991ba8dbeeeff93a24d4db537cb8b0399697516595810c5c66fc9e9863bcfc27a2d4796a915bed27d5bb8f45dba6d9b4101622ce1fc1f5dc41e66b1545c944f63ccf20f2d74071172a03e01fd660a0006416fee02a3a7af11365b3910bddc3f8a2eb3573f352dd35ff68724a2b1012c4f2f04e24d05ef7c94066fbb07504cb5594d5a9c3984c26f4a5816d3e5c30ee19d13ebaa14e644b84d2f79e20425f33eccd220b8a8954c190c8dc161ae177d68aee34e6711ad279bac2e7ac99d9b8676e2162f0b87b0df00b361d966e91d0a8104004751af4b29e150f74713d1665d7f1642e53a191c43c380b83a71b35902c") 12
  = (hex "7488c20807174b7ed26b957aeef38e965a7121c02302fd96fd50e5e227e6f402aedbb93bb85c82664acc56c024b97e97c5ca8d4aab3596a1472c45158c95cf46dc4f4bb9876e063d5b5e33e71db21cedf58e02395687c58bd39a5a15fd58d6b3ce0c36f9d995047f550153c6a1feccf71fc107071e69bab902152bfca53b41cd6e7d1a5e156de04fc800e4b0279ec6218cf85a98b13c15121365b967689cad8c81674250c5e1e6377749aa50b6fed4297d1bc08fa5d486f443733779e358cd19edeb04dcdba027a1ac6db1503823d84ffec2d627e1e5df50559ac7a1fce6f49980df01dcfa5489a6f7ad274e00f9aca8169d30cc0cd2d96b5e4523f0d50c0d",
     hex "0c6929c24f3ebaf936d4e8ec").
Proof. vm_compute. split; reflexivity. Qed.

Example lib_gcm_4_key16_iv8_aad1_len15_tag8 :
  gcm_enc (hex "5a613a6c9e1aef2af27e9ecf09dc21fa")
          (hex "a216992569894ba7")
          (hex "8b")
          (hex "d41cc406ebde2452432aee25dccb32") 8
  = (hex "8e5d5863844137515a2024dbc1eab3",
     hex "a50b9d167b80702b")
  /\
  gcm_dec (hex "5a613a6c9e1aef2af27e9ecf09dc21fa")
          (hex "a216992569894ba7")
          (hex "8b")
          (hex "8e5d5863844137515a2024dbc1eab3") 8
  = (hex "d41cc406ebde2452432aee25dccb32",
     hex "a50b9d167b80702b").
Proof. vm_compute. split; reflexivity. Qed.

Example lib_gcm_5_key16_iv8_aad17_len64_tag12 :
  gcm_enc (hex "7b7697e7acda57298cbdf19e4b56a957")
          (hex "912790fe57263b59")
          (hex "d1259a35ee36ed51bba4865a57914c167f")
          (hex "d87456bec684202a5e3241f0b2eed8543c4b13e3656594bf493bf009c4918a1dc769f4658a417befafcb2a24d95155e74211c130439cef56230b43bb62a4385f") 12
  = (hex "8cbeb45da3f074852984649156a5f573d9372ff04f4315ee6b25766fa2c3f96ee88a21eef1ac62118e8cae78073bf3bdb236e48463bc896add47f72bbc875d90",
     hex "c9dc142962778cf8761948ec")
  /\
  gcm_dec (hex "7b7697e7acda57298cbdf19e4b56a957")
          (hex "912790fe57263b59")
          (hex "d1259a35ee36ed51bba4865a57914c167f")
          (hex "8cbeb45da3f074852984649156a5f573d9372ff04f4315ee6b25766fa2c3f96ee88a21eef1ac62118e8cae78073bf3bdb236e48463bc896add47f72bbc875d90") 12
  = (hex "d87456bec684202a5e3241f0b2eed8543c4b13e3656594bf493bf009c4918a1dc769f4658a417befafcb2a24d95155e74211c130439cef56230b43bb62a4385f",
     hex "c9dc142962778cf8761948ec").
Proof. vm_compute. split; reflexivity. Qed.

Example lib_gcm_6_key16_iv8_aad100_len257_tag16 :
  gcm_enc (hex "88d788e987f3c9a449692a5d3db367a9")
          (hex "98e0b2c10e8a41b4")
          (hex "caf34ee2cf9b810ca96f43d500f2ac9f5746a7a4ad066b537ecf13cd810302923305fab3ea6a13dbd8d2b50218d12b030f2fd36d3399f1f930cbed613c020a63b905e8b2f5a19adf93c21636e448ec5949fb87e5cfc424535242fd269fbeebe8ff141115")
          (hex "10b825e5d7c6f6694e96159d7cc2e1be126468103b2772ad87e53932069c208e04f3edf16b5b8e5bd93eca6f888e08745f5b83c13c7f872b027c31a42c9020183927420e7fdfd9174fa711a7c7bd73154738067ed510b7b43200273b708723a80d8ca7e0a5736d3e2909f3de56ff93c8ee552252b06a2efc2bdbe02c1917f5214c8a2fa13e827cf672b1d444c02e33b6f7d7c93294e75e5e7638ce5d5a6d45b0c546ce679198fc07095e443552cfe7ee1f040272b8d1795a7bc7c8e54cf8042109530279dc336f49f8f1d66144b6670825aea3954163c4f4335a9c2dee3a863c02a7cb6696435925e0745b45586f49d259d46b2c5e7ebd98293befb24c03c3c41e") 16
  = (hex "29cca54b7408484d6e09c7ab9b2326aa7d9256a246469a8a9df36e37a776310d5493a752bf046bcbef67420272bd7b85a344e8afc4822a067b06c2c3e0b47c34ce083eccbf32bbee8c02dc5aadc5956b179fdd9b03cf00da44705ce98f90d5e7f77f6f210e750d82b90fe8a04f4c8eefcb1e5b418c510bc900ea8c9dcfbf8c461edd46fc879a0285d889f0388991632904397a591a5e18aa7aca32c65862261627d170646210e611d5d67702add8a36053c39355791d9ed6c8a08936ab3db77bdb62271d4affd645e43f5f85f34aaafbd079f7326e380eb91ab7b5da59e8258135127cbe54831550c6cc86973656791170bad3a9dd35e924153f9d397b58a38e58",
     hex "17bd40261b5ae545b9223663963aec4b")
  /\
  gcm_dec (hex "88d788e987f3c9a449692a5d3db367a9")
          (hex "98e0b2c10e8a41b4")
          (hex "caf34ee2cf9b810ca96f43d500f2ac9f5746a7a4ad066b537ecf13cd810302923305fab3ea6a13dbd8d2b50218d12b030f2fd36d3399f1f930cbed613c020a63b905e8b2f5a19adf93c21636e448ec5949fb87e5cfc424535242fd269fbeebe8ff141115")
          (hex "29cca54b7408484d6e09c7ab9b2326aa7d9256a246469a8a9df36e37a776310d5493a752bf046bcbef67420272bd7b85a344e8afc4822a067b06c2c3e0b47c34ce083eccbf32bbee8c02dc5aadc5956b179fdd9b03cf00da44705ce98f90d5e7f77f6f210e750d82b90fe8a04f4c8eefcb1e5b418c510bc900ea8c9dcfbf8c461edd46fc879a0285d889f0388991632904397a591a5e18aa7aca32c65862261627d170646210e611d5d67702add8a36053c39355791d9ed6c8a08936ab3db77bdb62271d4affd645e43f5f85f34aaafbd079f7326e380eb91ab7b5da59e8258135127cbe54831550c6cc86973656791170bad3a9dd35e924153f9d397b58a38e58") 16
  = (hex "10b825e5d7c6f6694e96159d7cc2e1be126468103b2772ad87e53932069c208e04f3edf16b5b8e5bd93eca6f888e08745f5b83c13c7f872b027c31a42c9020183927420e7fdfd9174fa711a7c7bd73154738067ed510b7b43200273b708723a80d8ca7e0a5736d3e2909f3de56ff93c8ee552252b06a2efc2bdbe02c1917f5214c8a2fa13e827cf672b1d444c02e33b6f7d7c93294e75e5e7638ce5d5a6d45b0c546ce679198fc07095e443552cfe7ee1f040272b8d1795a7bc7c8e54cf8042109530279dc336f49f8f1d66144b6670825aea3954163c4f4335a9c2dee3a863c02a7cb6696435925e0745b45586f49d259d46b2c5e7ebd98293befb24c03c3c41e",
     hex "17bd40261b5ae545b9223663963aec4b").
Proof. vm_compute. split; reflexivity. Qed.

Example lib_gcm_7_key16_iv12_aad16_len17_tag12 :
  gcm_enc (hex "1415080a4b21a20ba1a39ee1eac481ba")
          (hex "9c7dac3d51d9d8ba3fd560be")
          (hex "9fb54c726bb837db873b4b426668ada8")
          (hex "d5f14f371858206d32ae656cd8cf96b76a") 12
  = (hex "9fc67de720c45bb932324fbe446f34dc1d",
     hex "ee9c4347dfcc7661d29b109d")
  /\
  gcm_dec (hex "1415080a4b21a20ba1a39ee1eac481ba")
          (hex "9c7dac3d51d9d8ba3fd560be")
          (hex "9fb54c726bb837db873b4b426668ada8")
          (hex "9fc67de720c45bb932324fbe446f34dc1d") 12
  = (hex "d5f14f371858206d32ae656cd8cf96b76a",
     hex "ee9c4347dfcc7661d29b109d").
Proof. vm_compute. split; reflexivity. Qed.

Example lib_gcm_8_key16_iv12_aad20_len256_tag16 :
  gcm_enc (hex "f8c0667b62ac85a2c0a9dc09ad666d6a")
          (hex "c10923cc75c8b0a986367d4f")
          (hex "2247651d181a3ccfa520ed34de6ab808dc4a1056")
          (hex "f874dbfee69087f1a0899a7e418968743c8c7e66ed2593c930e71685650e141199e12b9036459a564968757df058b2b816681f4ba942c8499657e6d5d5f9bcc4f05e4e8e657290f7d286646519c6c01b138dcc22954a36aa72205c4c3ca4714f50f4a2b0f1e8892e82cfa5cc72a7c648ee4ed93518b1790a5e40f83570d4a58aeab25f2e596d22bc9a3911246a46d0ae8d686bd68dc886c206f5c07f7919ebe94c2027517589f6db1b93e82ff15f17427eaf803ff8fc4f0ea37e80e4933ff74c15365076e9a8fba0fcee0f3ae549c9ed153789bf5b6b5fffd4ecd9e12fa16dea79cfa173ee9262f84fc3e2d69aabe9640f2da98c5f7690e9f4b66221e45d5a02") 16
  = (hex "0297c721f08b76bc101f240bea95f5c4bcdc6a0d770caf2e20ee396a550e3884879b18107c1ccad00a678c6a06300f9ce527fdb6dd299a0c9bae112effeef762f7bce99bcecbe6239cad9a68597401084c58d6e3f097594f1d22e4aca0983959025143f806772e75f1ca695d25176357b971b1099858c561d8c00e10738433e98fd88f0d37f8cecc17b1dd0b56deac0a99fa4fa9a4ae14502e02b863183a1bede3de72e7fbab73f79060242a9d223f4df61ca9df60563947cc09e752e3654739effd083cff7d8cd21cdb666bac09a8500f56e0f45c2b1e3c5ba54c0e90e15d8c51e3bec157b4809caff34558498fd2ce300b459b30440505d7a9e10c93d62269",
     hex "c904c00614e45788e47e32c70321a938")
  /\
  gcm_dec (hex "f8c0667b62ac85a2c0a9dc09ad666d6a")
          (hex "c10923cc75c8b0a986367d4f")
          (hex "2247651d181a3ccfa520ed34de6ab808dc4a1056")
          (hex "0297c721f08b76bc101f240bea95f5c4bcdc6a0d770caf2e20ee396a550e3884879b18107c1ccad00a678c6a06300f9ce527fdb6dd299a0c9bae112effeef762f7bce99bcecbe6239cad9a68597401084c58d6e3f097594f1d22e4aca0983959025143f806772e75f1ca695d25176357b971b1099858c561d8c00e10738433e98fd88f0d37f8cecc17b1dd0b56deac0a99fa4fa9a4ae14502e02b863183a1bede3de72e7fbab73f79060242a9d223f4df61ca9df60563947cc09e752e3654739effd083cff7d8cd21cdb666bac09a8500f56e0f45c2b1e3c5ba54c0e90e15d8c51e3bec157b4809caff34558498fd2ce300b459b30440505d7a9e10c93d62269") 16
  = (hex "f874dbfee69087f1a0899a7e418968743c8c7e66ed2593c930e71685650e141199e12b9036459a564968757df058b2b816681f4ba942c8499657e6d5d5f9bcc4f05e4e8e657290f7d286646519c6c01b138dcc22954a36aa72205c4c3ca4714f50f4a2b0f1e8892e82cfa5cc72a7c648ee4ed93518b1790a5e40f83570d4a58aeab25f2e596d22bc9a3911246a46d0ae8d686bd68dc886c206f5c07f7919ebe94c2027517589f6db1b93e82ff15f17427eaf803ff8fc4f0ea37e80e4933ff74c15365076e9a8fba0fcee0f3ae549c9ed153789bf5b6b5fffd4ecd9e12fa16dea79cfa173ee9262f84fc3e2d69aabe9640f2da98c5f7690e9f4b66221e45d5a02",
     hex "c904c00614e45788e47e32c70321a938").
Proof. vm_compute. split; reflexivity. Qed.

Example lib_gcm_9_key16_iv12_aad0_len1_tag4 :
  gcm_enc (hex "c57d3325d76a1dfd0fef148872dc0ed8")
          (hex "cbc60dab45a8fb7cbeca287e")
          (hex "")
          (hex "7d") 4
  = (hex "97",
     hex "457bb4dd")
  /\
  gcm_dec (hex "c57d3325d76a1dfd0fef148872dc0ed8")
          (hex "cbc60dab45a8fb7cbeca287e")
          (hex "")
          (hex "97") 4
  = (hex "7d",
     hex "457bb4dd").
Proof. vm_compute. split; reflexivity. Qed.

Example lib_gcm_10_key16_iv13_aad17_len255_tag16 :
  gcm_enc (hex "e7d141a63a0528dcfc62782fe9773334")
          (hex "7a65414dc4d715564ba1724a6c")
          (hex "e0c0f874bca5a2f832bd28e1a8daa817de")
          (hex "4e66cbc8bfee4747d45e0f41f03fb6d7ff8ab43a81f895c4c15e6a52bde73fb4cc465336daee5fc8956498b1aab4d21abc2fa04c52f960e36ae1cf2590a3289ce10709eece0d4693ab565d38b7d0ae3e064bca71c7f561d81c435cf426c78449fa33b1331f2c0d7946b3d7cd76f6f103e0e0b86c1a1703b49903f6b396d8615bf0e61fea5a5eb4176d93bb2b67277136f15a6fe9bbcefb8b179efba2a5f222f3b9e5a4a64503694e99fd4f56ca0b7033741f6e5a3afe3347f176b046ca0fca610e322a9c2cfaaa81be7b5426060c7c9489d82fcf224ae91ec9d66b61ba03781caee90d1d6bc36a9f6ed49c86fc8fa5deb783f087e698c742a48fa7bd7c0946") 16
  = (hex "f52cb259df2c5d2cdbfbe5a8e02acfddc3988496ffa06abd9a496ec966a426534053b7e015ea6d1e34d98f6351d872cd80d889ea938ad6c8ce66a1e1a253b5f47389948c1c273a9511002cba1988488d860c5df7e35cd2593916571cc8ad249faa109d7a6deb55c8b38107c4738aee8a0d4c112804ee815930f4043ef99643fcbbf9f9db7304fa775120244b3a457a6ff2286412355d3dd1b85b6a54add77e6a869398d1682f225a0c97cf0fe4ed22e90216b3d17776128d2a95bc38ba24b7262f2cf9e00c97d48f01cba7fcb7a62d4295db8f8312fdd959be80346ffdf38724afac87bab6c55dfd7ee94fc03a50685f06fd1f4def1a18ed9e96eec807df03",
     hex "338500711b5db04e20f585dd2962ac3f")
  /\
  gcm_dec (hex "e7d141a63a0528dcfc62782fe9773334")
          (hex "7a65414dc4d715564ba1724a6c")
          (hex "e0c0f874bca5a2f832bd28e1a8daa817de")
          (hex "f52cb259df2c5d2cdbfbe5a8e02acfddc3988496ffa06abd9a496ec966a426534053b7e015ea6d1e34d98f6351d872cd80d889ea938ad6c8ce66a1e1a253b5f47389948c1c273a9511002cba1988488d860c5df7e35cd2593916571cc8ad249faa109d7a6deb55c8b38107c4738aee8a0d4c112804ee815930f4043ef99643fcbbf9f9db7304fa775120244b3a457a6ff2286412355d3dd1b85b6a54add77e6a869398d1682f225a0c97cf0fe4ed22e90216b3d17776128d2a95bc38ba24b7262f2cf9e00c97d48f01cba7fcb7a62d4295db8f8312fdd959be80346ffdf38724afac87bab6c55dfd7ee94fc03a50685f06fd1f4def1a18ed9e96eec807df03") 16
  = (hex "4e66cbc8bfee4747d45e0f41f03fb6d7ff8ab43a81f895c4c15e6a52bde73fb4cc465336daee5fc8956498b1aab4d21abc2fa04c52f960e36ae1cf2590a3289ce10709eece0d4693ab565d38b7d0ae3e064bca71c7f561d81c435cf426c78449fa33b1331f2c0d7946b3d7cd76f6f103e0e0b86c1a1703b49903f6b396d8615bf0e61fea5a5eb4176d93bb2b67277136f15a6fe9bbcefb8b179efba2a5f222f3b9e5a4a64503694e99fd4f56ca0b7033741f6e5a3afe3347f176b046ca0fca610e322a9c2cfaaa81be7b5426060c7c9489d82fcf224ae91ec9d66b61ba03781caee90d1d6bc36a9f6ed49c86fc8fa5deb783f087e698c742a48fa7bd7c0946",
     hex "338500711b5db04e20f585dd2962ac3f").
Proof. vm_compute. split; reflexivity. Qed.

Example lib_gcm_11_key16_iv13_aad100_len0_tag4 :
  gcm_enc (hex "fc6657140831d389876776c8cfb68380")
          (hex "e447508a0fe3926c30d44e5221")
          (hex "29c82320f5880c38c28a86b3e1bc1794ed97c52490daad83ee4cea24b7110c776a028f9b2468b39f3f3a8709a2dce8ba7f50a1bf63c612530efc4a6f44d191ff92d385993cff110b03207a2292abe7e94021c817e28008dc370b62fd1c28778e2399a9ec")
          (hex "") 4
  = (hex "",
     hex "aa06f6be")
  /\
  gcm_dec (hex "fc6657140831d389876776c8cfb68380")
          (hex "e447508a0fe3926c30d44e5221")
          (hex "29c82320f5880c38c28a86b3e1bc1794ed97c52490daad83ee4cea24b7110c776a028f9b2468b39f3f3a8709a2dce8ba7f50a1bf63c612530efc4a6f44d191ff92d385993cff110b03207a2292abe7e94021c817e28008dc370b62fd1c28778e2399a9ec")
          (hex "") 4
  = (hex "",
     hex "aa06f6be").
Proof. vm_compute. split; reflexivity. Qed.

Example lib_gcm_12_key16_iv13_aad1_len16_tag8 :
  gcm_enc (hex "41b4457ab8584fc4748bb6a19a404489")
          (hex "21cb0a872764bf7f9e6f040655")
          (hex "eb")
          (hex "e19ee55ef06a89563a030eb95501922e") 8
  = (hex "976224fd82c6341f600bd128099ca905",
     hex "7f01aee2d3f36049")
  /\
  gcm_dec (hex "41b4457ab8584fc4748bb6a19a404489")
          (hex "21cb0a872764bf7f9e6f040655")
          (hex "eb")
          (hex "976224fd82c6341f600bd128099ca905") 8
  = (hex "e19ee55ef06a89563a030eb95501922e",
     hex "7f01aee2d3f36049").
Proof. vm_compute. split; reflexivity. Qed.

Example lib_gcm_13_key16_iv16_aad20_len257_tag4 :
  gcm_enc (hex "ab0a976ee0ea6583c4b17661826dec94")
          (hex "da6fa3ede799db2f2593b572e6534593")
          (hex "1b8c25ecf6cdacaa35e1c29242ba12b91a0743cd")
          (hex "3322f0d4dbf74ef7b83c2972ae2b113c7986d3c7d4ee7f24da02947f126eccaf5ba0bfb033bd2a0e2ad880a9d602a4d25829d745c6e2b7b8c6db59349537d10f93b41555c1c3f23d711e13596e3ee8fc043f6520688137d2d0e36ca44235a27af2e33034047178abf6a6680dbdc77ca46b376929172734e7a573daaf02e29257037d081cc9380fb77cd885497d7e190a649acd0f253c7536ca9cb7928cebad591b5fbbe7a45bfbdd65570c1bec8aec4d0a71e07e8a0980698cd4892c4fa2c9907f281b9cf1eb2debcd94b3e64e35a3121af9d12087134b923c7487d51d8810afd2eebd1b3496932114fc80733cd57a91e4e0164ddda29ad295bd65b453a6e3fcca") 4
  = (hex "0fb4d29ee7db7e76560bb630ccca6e6c6bdf2629d323ab32dbc713807718756d9d9597491c921eacdc454a3cf32f5283e75380133758e607f1f6fe02002dc38102e96b1c0f9cd6c5fea41d17a2fb3367e228fa8b0c9c974346bb3cc3d202c44ccee419f46b2fdae4a0a149283f1f4d750190f22d758ead6a795dd22517ffc5857d43c596a6fdfe97f7ca4a60b28eb2a733027162d5328533247d0a79dc32e1cb0b00c66573241d0bba98bb573ded17244a65804ba1208cd24bab4b926fbbb49dd058ba66d7fd2194e2ee8f5f3d744069936a97c1a197c21ba6699a8bd7d9f3ed166de2b58b9ec8b42b83dca97bb22b44c7b1e5c0878a19dac6e6f59771c50ea025",
     hex "68992d30")
  /\
  gcm_dec (hex "ab0a976ee0ea6583c4b17661826dec94")
          (hex "da6fa3ede799db2f2593b572e6534593")
          (hex "1b8c25ecf6cdacaa35e1c29242ba12b91a0743cd")
          (hex "0fb4d29ee7db7e76560bb630ccca6e6c6bdf2629d323ab32dbc713807718756d9d9597491c921eacdc454a3cf32f5283e75380133758e607f1f6fe02002dc38102e96b1c0f9cd6c5fea41d17a2fb3367e228fa8b0c9c974346bb3cc3d202c44ccee419f46b2fdae4a0a149283f1f4d750190f22d758ead6a795dd22517ffc5857d43c596a6fdfe97f7ca4a60b28eb2a733027162d5328533247d0a79dc32e1cb0b00c66573241d0bba98bb573ded17244a65804ba1208cd24bab4b926fbbb49dd058ba66d7fd2194e2ee8f5f3d744069936a97c1a197c21ba6699a8bd7d9f3ed166de2b58b9ec8b42b83dca97bb22b44c7b1e5c0878a19dac6e6f59771c50ea025") 4
  = (hex "3322f0d4dbf74ef7b83c2972ae2b113c7986d3c7d4ee7f24da02947f126eccaf5ba0bfb033bd2a0e2ad880a9d602a4d25829d745c6e2b7b8c6db59349537d10f93b41555c1c3f23d711e13596e3ee8fc043f6520688137d2d0e36ca44235a27af2e33034047178abf6a6680dbdc77ca46b376929172734e7a573daaf02e29257037d081cc9380fb77cd885497d7e190a649acd0f253c7536ca9cb7928cebad591b5fbbe7a45bfbdd65570c1bec8aec4d0a71e07e8a0980698cd4892c4fa2c9907f281b9cf1eb2debcd94b3e64e35a3121af9d12087134b923c7487d51d8810afd2eebd1b3496932114fc80733cd57a91e4e0164ddda29ad295bd65b453a6e3fcca",
     hex "68992d30").
Proof. vm_compute. split; reflexivity. Qed.

Example lib_gcm_14_key16_iv16_aad0_len15_tag8 :
  gcm_enc (hex "68395096ffe9bf2ea86f1fa68fe006af")
          (hex "f41d7e2a15d92e84ef379da3cb2edc72")
          (hex "")
          (hex "0aac682d493afbe8e3cdccd4d3b80c") 8
  = (hex "8397395bdf9e3deba6c35cee03cf2c",
     hex "8692567b470f194a")
  /\
  gcm_dec (hex "68395096ffe9bf2ea86f1fa68fe006af")
          (hex "f41d7e2a15d92e84ef379da3cb2edc72")
          (hex "")
          (hex "8397395bdf9e3deba6c35cee03cf2c") 8
  = (hex "0aac682d493afbe8e3cdccd4d3b80c",
     hex "8692567b470f194a").
Proof. vm_compute. split; reflexivity. Qed.

Example lib_gcm_15_key16_iv16_aad16_len64_tag12 :
  gcm_enc (hex "0661b3a52219d745421892528fe7831b")
          (hex "ab662274a38e780fa371cf84a9f0ac5e")
          (hex "3f5508849a335d0107ada1f4ebc74a4c")
          (hex "bdd8bd2ffcb25fb2e88b0b82374f7798081652167bcf1459e1768868466c619bc3e90e95334c89dadce0687afa21dc08e27b146f26fd74596a31465e78ebf11f") 12
  = (hex "8d7c1d13d692237eda03e48abacc6e5b949171dcb32eb65062b91230acfcc03044288353a91e35a4999f9fe74af1100ed9123bd58dbf162c9d5ce09239caf760",
     hex "5412bf299013d7cb7a800ff9")
  /\
  gcm_dec (hex "0661b3a52219d745421892528fe7831b")
          (hex "ab662274a38e780fa371cf84a9f0ac5e")
          (hex "3f5508849a335d0107ada1f4ebc74a4c")
          (hex "8d7c1d13d692237eda03e48abacc6e5b949171dcb32eb65062b91230acfcc03044288353a91e35a4999f9fe74af1100ed9123bd58dbf162c9d5ce09239caf760") 12
  = (hex "bdd8bd2ffcb25fb2e88b0b82374f7798081652167bcf1459e1768868466c619bc3e90e95334c89dadce0687afa21dc08e27b146f26fd74596a31465e78ebf11f",
     hex "5412bf299013d7cb7a800ff9").
Proof. vm_compute. split; reflexivity. Qed.

Example lib_gcm_16_key16_iv60_aad100_len1_tag8 :
  gcm_enc (hex "54adb7102f838079294f0fcee1e34954")
          (hex "dadc80bc0efccd15e6e6428b0e4082564052394258fe320e47cd7ac1b2fef5669af0d02689b51d7204adb63977575fff58711be3b1c86a56ef0cc0f8")
          (hex "41120396318ac67caf604a54f2982efb281be1841fb88352fd23612b4ec36304f771fc0b07ffa9e9a0a8c0de491edc6797c6c64ccdf46e48729a922fe3dcaf338dca2741ca79a994c8fac5c21e68102f03135c81b56eb7154ae5dad9a3e11be768616116")
          (hex "c4") 8
  = (hex "73",
     hex "6a30e56863c9abfa")
  /\
  gcm_dec (hex "54adb7102f838079294f0fcee1e34954")
          (hex "dadc80bc0efccd15e6e6428b0e4082564052394258fe320e47cd7ac1b2fef5669af0d02689b51d7204adb63977575fff58711be3b1c86a56ef0cc0f8")
          (hex "41120396318ac67caf604a54f2982efb281be1841fb88352fd23612b4ec36304f771fc0b07ffa9e9a0a8c0de491edc6797c6c64ccdf46e48729a922fe3dcaf338dca2741ca79a994c8fac5c21e68102f03135c81b56eb7154ae5dad9a3e11be768616116")
          (hex "73") 8
  = (hex "c4",
     hex "6a30e56863c9abfa").
Proof. vm_compute. split; reflexivity. Qed.

Example lib_gcm_17_key16_iv60_aad1_len17_tag12 :
  gcm_enc (hex "95285e73b670307158c59cd6979a2628")
          (hex "70750f6c4e137540f930c133b32fa22939410b4d6446c41a6e2fb9d8fdc32f86bd444d2f3830ea99c14bf0439cfd98c9272984d0c66ecb89429207c1")
          (hex "ee")
          (hex "acaec26b3f811a44c062d5b11d7b597461") 12
  = (hex "cdaf0da90018213562407f48841978d92c",
     hex "0584ee0241873d0de7018cf1")
  /\
  gcm_dec (hex "95285e73b670307158c59cd6979a2628")
          (hex "70750f6c4e137540f930c133b32fa22939410b4d6446c41a6e2fb9d8fdc32f86bd444d2f3830ea99c14bf0439cfd98c9272984d0c66ecb89429207c1")
          (hex "ee")
          (hex "cdaf0da90018213562407f48841978d92c") 12
  = (hex "acaec26b3f811a44c062d5b11d7b597461",
     hex "0584ee0241873d0de7018cf1").
Proof. vm_compute. split; reflexivity. Qed.

Example lib_gcm_18_key16_iv60_aad17_len256_tag16 :
  gcm_enc (hex "ecc7e54fb12a03b5301b74472c09679f")
          (hex "f66efdcd848bbb13fcc3526e69a50ebd8c0300dabe684ecc460723f570bacb61a4a13e706b32728af5e5f4ec4b8ceaef2bb472cb93943bc775d16dee")
          (hex "0f1fa6e031f9fe74b33a7fb30adeffef38")
          (hex "7906215115bbc8fa7904dc88656bc43ed748f27293a2f2b1e53c6f20f3bc6af5043626b3b3bf970157ef2dcf0d68062889d00a5bcc65c605d123abb3d8d11fbb440b0e301e051fe1ff8d53b5e481b028e9858d3cac9763236ddeddfbb9d17eb95c84528bcbed141fdbdcde588a2a723022f772d3c45684e990ea91925a64cc2a9ee36ab3368113c9f7227123ee7599544a59b7f78cdcaded2ef6bca53f51f3fe2b496fea723cb553edb7b4267df8b4cd0011f8a13597934073fa070380fec1a441ba8fbd92c07d908cc652673dede64d455d37a380e5489636ff4247d2fe0b77db9e22925080cd4ad5a19adc93b62de3d74fda712b2a3634acb4cd61862cddd4") 16
  = (hex "8524bd90df7b3853af034fb6afe405f1c2f6ea6cc21da20cfffedea732072046555ebe2a9833c9ce7ee5c4132dc481d231396b0beeb5e41d65cf020e9795c22354c315ee82ed89c5cf02a514f69d14235bcec73a851e1aa7a7e3545290a11300fcbb1382276cdb91ab508600f52e0615b21bf684d02105805e32bd7bcdf0a1742a71a2cefd756792041afb5c270b621dca27d989f2b49270dcfdc71afcada1622f69caa41cc95af59d502901f95a9785abf34815d6aed763ec2ff568a39f63a2d38bad353c1240939fb99d382194e837ef64ff89c31d053fea32c6e51876593e36bdf2d17b2776abeecca6539a33b6f79000cc36d59cab0641f27bc311334274",
     hex "2abb0c038caaf60e3e212a7336b14ce2")
  /\
  gcm_dec (hex "ecc7e54fb12a03b5301b74472c09679f")
          (hex "f66efdcd848bbb13fcc3526e69a50ebd8c0300dabe684ecc460723f570bacb61a4a13e706b32728af5e5f4ec4b8ceaef2bb472cb93943bc775d16dee")
          (hex "0f1fa6e031f9fe74b33a7fb30adeffef38")
          (hex "8524bd90df7b3853af034fb6afe405f1c2f6ea6cc21da20cfffedea732072046555ebe2a9833c9ce7ee5c4132dc481d231396b0beeb5e41d65cf020e9795c22354c315ee82ed89c5cf02a514f69d14235bcec73a851e1aa7a7e3545290a11300fcbb1382276cdb91ab508600f52e0615b21bf684d02105805e32bd7bcdf0a1742a71a2cefd756792041afb5c270b621dca27d989f2b49270dcfdc71afcada1622f69caa41cc95af59d502901f95a9785abf34815d6aed763ec2ff568a39f63a2d38bad353c1240939fb99d382194e837ef64ff89c31d053fea32c6e51876593e36bdf2d17b2776abeecca6539a33b6f79000cc36d59cab0641f27bc311334274") 16
  = (hex "7906215115bbc8fa7904dc88656bc43ed748f27293a2f2b1e53c6f20f3bc6af5043626b3b3bf970157ef2dcf0d68062889d00a5bcc65c605d123abb3d8d11fbb440b0e301e051fe1ff8d53b5e481b028e9858d3cac9763236ddeddfbb9d17eb95c84528bcbed141fdbdcde588a2a723022f772d3c45684e990ea91925a64cc2a9ee36ab3368113c9f7227123ee7599544a59b7f78cdcaded2ef6bca53f51f3fe2b496fea723cb553edb7b4267df8b4cd0011f8a13597934073fa070380fec1a441ba8fbd92c07d908cc652673dede64d455d37a380e5489636ff4247d2fe0b77db9e22925080cd4ad5a19adc93b62de3d74fda712b2a3634acb4cd61862cddd4",
     hex "2abb0c038caaf60e3e212a7336b14ce2").
Proof. vm_compute. split; reflexivity. Qed.

Example lib_gcm_19_key24_iv1_aad0_len17_tag12 :
  gcm_enc (hex "89a24f6213d260aeaf32586c77c354011269fcb78dc1ac3e")
          (hex "65")
          (hex "")
          (hex "dc85b0631c307d09248a9c5dcace4542e3") 12
  = (hex "bdc150cf5b38ea2169b8d2fd93a7b2204d",
     hex "6df9784fd581db0d257d731f")
  /\
  gcm_dec (hex "89a24f6213d260aeaf32586c77c354011269fcb78dc1ac3e")
          (hex "65")
          (hex "")
          (hex "bdc150cf5b38ea2169b8d2fd93a7b2204d") 12
  = (hex "dc85b0631c307d09248a9c5dcace4542e3",
     hex "6df9784fd581db0d257d731f").
Proof. vm_compute. split; reflexivity. Qed.

Example lib_gcm_20_key24_iv1_aad16_len256_tag16 :
  gcm_enc (hex "5372be3cc61183262c29f76a0512f22681e31ddf0b90017f")
          (hex "ff")
          (hex "628fe0fe7e42a0ae383a3fb6d4428b82")
          (hex "def81f28802b7c3181678ff5a11b3a755735ba4d3b1fdbc229c0382874fffa416ca95ced7538d6b7cdd7c2cf1969ca8b1f9e9098c7c4908439571825c60c50a4778f797e420cae43aeb9d0c7ba73790d2dac70b96f3bd88707a8a852a819fb03bb4a0ba122d11c2be8f73bd68ab4299cce7112607fdb2ad1aec0b79e590e80a1c5ce71b469605bd2bf27a848ab0e17b5349444bd7be8954373dbe510d4adcd07c0a6ea178d8f489bb0ea1354c123a81cca5846264edb75caa89220976adb6b7953096ae478769ac0df516669cd5f760af098221e009cb4e14bdecad033b9bd6d58fd994feedc502c7a9f54a5574ee3eb8fc2c67e6a2c8fc8af6ad6c35369ae4a") 16
  = (hex "9069f4ec03b6666301b6e0f424b6b18a96cece78d8d1bbc0b80d24cd02e3a544ebce86274bd6eeb941f643bddaaa026ab9023f900273adb8eceb83941d6efcdc367b82080fdb10f8d8825e508465b19d592c752b76f08dbe374eb8d0032849b4452c3a3bae75ae4e616648c3bdf9710a7bf5b4e61b8f39ad7ecd137c2229b00789239ecefe07dfdb3107d964862cee5753ed2aa56f63481c2f3b7e5d8cd27acc456ba7fa71149f0d328c975b11176658ad33fbb5e7ee9f1c7881d13005f853570520a9e71812b297275b95579859bd7e5e59141e09c45630200398f2f675e93e34e43bbf0d7ea1dea6a72e58afc3a299246cce8d4d7cfa5e4eacb91764e684e8",
     hex "b7c546b5cd3b4b3a2ebd52cc8efa193a")
  /\
  gcm_dec (hex "5372be3cc61183262c29f76a0512f22681e31ddf0b90017f")
          (hex "ff")
          (hex "628fe0fe7e42a0ae383a3fb6d4428b82")
          (hex "9069f4ec03b6666301b6e0f424b6b18a96cece78d8d1bbc0b80d24cd02e3a544ebce86274bd6eeb941f643bddaaa026ab9023f900273adb8eceb83941d6efcdc367b82080fdb10f8d8825e508465b19d592c752b76f08dbe374eb8d0032849b4452c3a3bae75ae4e616648c3bdf9710a7bf5b4e61b8f39ad7ecd137c2229b00789239ecefe07dfdb3107d964862cee5753ed2aa56f63481c2f3b7e5d8cd27acc456ba7fa71149f0d328c975b11176658ad33fbb5e7ee9f1c7881d13005f853570520a9e71812b297275b95579859bd7e5e59141e09c45630200398f2f675e93e34e43bbf0d7ea1dea6a72e58afc3a299246cce8d4d7cfa5e4eacb91764e684e8") 16
  = (hex "def81f28802b7c3181678ff5a11b3a755735ba4d3b1fdbc229c0382874fffa416ca95ced7538d6b7cdd7c2cf1969ca8b1f9e9098c7c4908439571825c60c50a4778f797e420cae43aeb9d0c7ba73790d2dac70b96f3bd88707a8a852a819fb03bb4a0ba122d11c2be8f73bd68ab4299cce7112607fdb2ad1aec0b79e590e80a1c5ce71b469605bd2bf27a848ab0e17b5349444bd7be8954373dbe510d4adcd07c0a6ea178d8f489bb0ea1354c123a81cca5846264edb75caa89220976adb6b7953096ae478769ac0df516669cd5f760af098221e009cb4e14bdecad033b9bd6d58fd994feedc502c7a9f54a5574ee3eb8fc2c67e6a2c8fc8af6ad6c35369ae4a",
     hex "b7c546b5cd3b4b3a2ebd52cc8efa193a").
Proof. vm_compute. split; reflexivity. Qed.

Example lib_gcm_21_key24_iv1_aad20_len1_tag4 :
  gcm_enc (hex "00b3c1ce178254f8a0705b7c1eca45c4bdb92b0672adc7b3")
          (hex "73")
          (hex "73a0f6ff76eb27a4f5dab561dcee020a7dbc22e6")
          (hex "80") 4
  = (hex "93",
     hex "df44bd3d")
  /\
  gcm_dec (hex "00b3c1ce178254f8a0705b7c1eca45c4bdb92b0672adc7b3")
          (hex "73")
          (hex "73a0f6ff76eb27a4f5dab561dcee020a7dbc22e6")
          (hex "93") 4
  = (hex "80",
     hex "df44bd3d").
Proof. vm_compute. split; reflexivity. Qed.

Example lib_gcm_22_key24_iv8_aad1_len255_tag16 :
  gcm_enc (hex "fe3ec2ccd5972c483a395ec3e4bb8ee9f617acd7b6c3fcce")
          (hex "f23b439f3fd723e6")
          (hex "ce")
          (hex "f17fb25cba6166f4be2bbc76ee5b170f47b564fc5574e2a6625e2323663047fe4242d946cc29ba34f6dd18eb8a10abd2820f402cf035856ed45e1283681dd0f15d8afbe8c8c3809cb5d5bae544a42f6c95550ffad984da7784f6b8506bb71c5a6ef303fee5865c9fae27bf6d0bba2c624b922d51e78cd6558480328d905d1db00bd58b593f0c337eae1ebf7b4915dd5b7404debfcbe64ba551a743faa65d4af0c41f79199eea9e328279291dc8d357024630ab8a94d61608e1a2e93ea829ba78403d6a26740a4ff02630de6ad8d806bac0301fd7b054b90c8dc5efdfd061a8c4fcea36e5717ca2ce0abefb1812152bd2d0be4c9152a08aa5741f2bae30c8a1") 16
  = (hex "3e2675d469f0e3f01ee965a61ab99ec2c51aba2a9fccc37d26be057c722ed8af131d20d3529ed0af5d4ae30dbed164372d77036a435a6f1a5ba30e5015ae035e7c2ce0b27607cb99d5e4c4feff33e9d8fad4f9d66a50040d61926a7b9330b8304607f9d7a2354f62b8c0351fd59c17fe44e1fe38b3e1f7cf567c98298575e2735c3fdef4819a557d0be73fa6ec893049b91a22559168d4ca2820035825a1cedd1772816f6686465e2b9f67737aa0b1b4ce2072e55bde243706d70029dab1e900ed013213f539c6f9bf8649973da477ecba2ae20fc7154eac906b1f766843b7dcdd08e51c9cec2b04cc7dee67a5c854f7f8fb3f05106df2379abda6a80f4a1a",
     hex "78fa72ac94dc706854e38f01cc270135")
  /\
  gcm_dec (hex "fe3ec2ccd5972c483a395ec3e4bb8ee9f617acd7b6c3fcce")
          (hex "f23b439f3fd723e6")
          (hex "ce")
          (hex "3e2675d469f0e3f01ee965a61ab99ec2c51aba2a9fccc37d26be057c722ed8af131d20d3529ed0af5d4ae30dbed164372d77036a435a6f1a5ba30e5015ae035e7c2ce0b27607cb99d5e4c4feff33e9d8fad4f9d66a50040d61926a7b9330b8304607f9d7a2354f62b8c0351fd59c17fe44e1fe38b3e1f7cf567c98298575e2735c3fdef4819a557d0be73fa6ec893049b91a22559168d4ca2820035825a1cedd1772816f6686465e2b9f67737aa0b1b4ce2072e55bde243706d70029dab1e900ed013213f539c6f9bf8649973da477ecba2ae20fc7154eac906b1f766843b7dcdd08e51c9cec2b04cc7dee67a5c854f7f8fb3f05106df2379abda6a80f4a1a") 16
  = (hex "f17fb25cba6166f4be2bbc76ee5b170f47b564fc5574e2a6625e2323663047fe4242d946cc29ba34f6dd18eb8a10abd2820f402cf035856ed45e1283681dd0f15d8afbe8c8c3809cb5d5bae544a42f6c95550ffad984da7784f6b8506bb71c5a6ef303fee5865c9fae27bf6d0bba2c624b922d51e78cd6558480328d905d1db00bd58b593f0c337eae1ebf7b4915dd5b7404debfcbe64ba551a743faa65d4af0c41f79199eea9e328279291dc8d357024630ab8a94d61608e1a2e93ea829ba78403d6a26740a4ff02630de6ad8d806bac0301fd7b054b90c8dc5efdfd061a8c4fcea36e5717ca2ce0abefb1812152bd2d0be4c9152a08aa5741f2bae30c8a1",
     hex "78fa72ac94dc706854e38f01cc270135").
Proof. vm_compute. split; reflexivity. Qed.

Example lib_gcm_23_key24_iv8_aad17_len0_tag4 :
  gcm_enc (hex "6af777ad3203971c3682ae160d0d98b3e122fd27d859b94f")
          (hex "1f012b5b7e09503e")
          (hex "af15ec509fc9523c23eff98a5188053145")
          (hex "") 4
  = (hex "",
     hex "f282ed4b")
  /\
  gcm_dec (hex "6af777ad3203971c3682ae160d0d98b3e122fd27d859b94f")
          (hex "1f012b5b7e09503e")
          (hex "af15ec509fc9523c23eff98a5188053145")
          (hex "") 4
  = (hex "",
     hex "f282ed4b").
Proof. vm_compute. split; reflexivity. Qed.

Example lib_gcm_24_key24_iv8_aad100_len16_tag8 :
  gcm_enc (hex "d0185081d5f76ebc0d7d711e16c583164d84e5cd9ed517bf")
          (hex "e2b443f0a80eef13")
          (hex "e03bd1e1a1f1e25d44f80c5dd4be8bd484f3de193132fb3e41f835126a0bfbc72311cbe06e601f95580e55245f91c0313548003884b53048c0e62c2ed94318a3c7d7d296fea4cf947a586f8034dff42803d8f14095c2f7dd0a7ee4ab6621bb1866ba1ef4")
          (hex "606a4e44b7bbbfc13a8970d8acc0a03c") 8
  = (hex "a6eddc2f5f97af88d6a96127153f02ed",
     hex "2c79677c3ea7a51c")
  /\
  gcm_dec (hex "d0185081d5f76ebc0d7d711e16c583164d84e5cd9ed517bf")
          (hex "e2b443f0a80eef13")
          (hex "e03bd1e1a1f1e25d44f80c5dd4be8bd484f3de193132fb3e41f835126a0bfbc72311cbe06e601f95580e55245f91c0313548003884b53048c0e62c2ed94318a3c7d7d296fea4cf947a586f8034dff42803d8f14095c2f7dd0a7ee4ab6621bb1866ba1ef4")
          (hex "a6eddc2f5f97af88d6a96127153f02ed") 8
  = (hex "606a4e44b7bbbfc13a8970d8acc0a03c",
     hex "2c79677c3ea7a51c").
Proof. vm_compute. split; reflexivity. Qed.

Example lib_gcm_25_key24_iv12_aad16_len257_tag4 :
  gcm_enc (hex "0e25ed27f18e117291d018554d7e38923e49453254aa9aca")
          (hex "d6c99b6d480e9c270f5677ef")
          (hex "5397596a3f544386a77438bdb1906ca0")
          (hex "f47faba0b35f01197591cd735525a097f60387c2bd8562a20c7a777bf05aaaaf99008d0c407cbef2f94ae94199134d3bca55ab7be6c655e83e26fd44e7825a4e575270ebf67a1d74291d01be32c7cf524bedbdf21dfaf0c1841c7a3d8a7cffcc00031ad3048d4b9e86e1034ed154b2608495a047bab8f3aff8b6cb5b96b7fda9f87897172e2b8e949795027293430a9c73e47e78205050a082554282ab871d68ede0e480dff37e974697f47621efe5a5aff5e0f50e755e7a8be888b04a054fd89636a7b251a170e03b39d08bb7a6b380f5950164c4a378b977f732a361f5d1fa8f8d00c554438a8d1fc8500da40c2294e222d5b0a162ef549a50d951fc15d537b5") 4
  = (hex "4497630e3d0499439df9c50675bd3c4eaba6ed50cf3e48b334e0da6dafaffda9e9f19cb0e2f7ca3a35e9c48fbc1e52a75b69fe14aff978763bf5bd51d61d1ce3bdd6e13d3c354b877ab230fa1ffaf5b99385a34d493382305486e77d25214628f4ef2daafcebfc6c2f5859d93b1cf5b98c2ad8780384178cdbf91905a40fa6fa69f4f8f5041333a52a4f61f99acc656d981f111791c1f62ba2444cfa964add5d3d75dd5d1cbc6e030b9de5461dd110b21d9b821934fb171d7a72630c2f1182e83271db4e8762178aef3282d5ec7e7450caf56c3ba92c2e6705569d240849fd13315e0e6953a5513939511250a6669eb458078568023adba1b3b2c8b99a987cb2d6",
     hex "e0fe4c52")
  /\
  gcm_dec (hex "0e25ed27f18e117291d018554d7e38923e49453254aa9aca")
          (hex "d6c99b6d480e9c270f5677ef")
          (hex "5397596a3f544386a77438bdb1906ca0")
          (hex "4497630e3d0499439df9c50675bd3c4eaba6ed50cf3e48b334e0da6dafaffda9e9f19cb0e2f7ca3a35e9c48fbc1e52a75b69fe14aff978763bf5bd51d61d1ce3bdd6e13d3c354b877ab230fa1ffaf5b99385a34d493382305486e77d25214628f4ef2daafcebfc6c2f5859d93b1cf5b98c2ad8780384178cdbf91905a40fa6fa69f4f8f5041333a52a4f61f99acc656d981f111791c1f62ba2444cfa964add5d3d75dd5d1cbc6e030b9de5461dd110b21d9b821934fb171d7a72630c2f1182e83271db4e8762178aef3282d5ec7e7450caf56c3ba92c2e6705569d240849fd13315e0e6953a5513939511250a6669eb458078568023adba1b3b2c8b99a987cb2d6") 4
  = (hex "f47faba0b35f01197591cd735525a097f60387c2bd8562a20c7a777bf05aaaaf99008d0c407cbef2f94ae94199134d3bca55ab7be6c655e83e26fd44e7825a4e575270ebf67a1d74291d01be32c7cf524bedbdf21dfaf0c1841c7a3d8a7cffcc00031ad3048d4b9e86e1034ed154b2608495a047bab8f3aff8b6cb5b96b7fda9f87897172e2b8e949795027293430a9c73e47e78205050a082554282ab871d68ede0e480dff37e974697f47621efe5a5aff5e0f50e755e7a8be888b04a054fd89636a7b251a170e03b39d08bb7a6b380f5950164c4a378b977f732a361f5d1fa8f8d00c554438a8d1fc8500da40c2294e222d5b0a162ef549a50d951fc15d537b5",
     hex "e0fe4c52").
Proof. vm_compute. split; reflexivity. Qed.

Example lib_gcm_26_key24_iv12_aad20_len15_tag8 :
  gcm_enc (hex "d554eed7aa435dc07981218e57c147ef8d8eeaee6d7e8ff6")
          (hex "080370106637d3eb1c53deeb")
          (hex "2278977188bb9923fd32bfe17dee7bffbf34b5dd")
          (hex "dc939178f47b4c463087f53857d69c") 8
  = (hex "e4db5f4fe7e1f969fe02805de55e0d",
     hex "2a1be9915cb17aed")
  /\
  gcm_dec (hex "d554eed7aa435dc07981218e57c147ef8d8eeaee6d7e8ff6")
          (hex "080370106637d3eb1c53deeb")
          (hex "2278977188bb9923fd32bfe17dee7bffbf34b5dd")
          (hex "e4db5f4fe7e1f969fe02805de55e0d") 8
  = (hex "dc939178f47b4c463087f53857d69c",
     hex "2a1be9915cb17aed").
Proof. vm_compute. split; reflexivity. Qed.

Example lib_gcm_27_key24_iv12_aad0_len64_tag12 :
  gcm_enc (hex "bf83dcde487affd7786b3ee3d0bda52b4fd0e2047a1c54b3")
          (hex "a90b44dab28d20d4ae2c5473")
          (hex "")
          (hex "04f8bb58ab2457fbb695c6db0a9b48591fc471e1588d7a16d9336962a0cadd52eb11f68660f300d0b87df839c1d3212ef47f1d6e6d388c658d6b646045d20e88") 12
  = (hex "ccc32ba648db262c6613d8f63284ab4d3c4a75ff0f41a3415ac44f5b6b7a37ec1c7e9ff3a2acfb5d7157b870e0bf8c33d95114b439e2a2234f58599a2ae60b43",
     hex "e8995a51d63c3553e5371b6b")
  /\
  gcm_dec (hex "bf83dcde487affd7786b3ee3d0bda52b4fd0e2047a1c54b3")
          (hex "a90b44dab28d20d4ae2c5473")
          (hex "")
          (hex "ccc32ba648db262c6613d8f63284ab4d3c4a75ff0f41a3415ac44f5b6b7a37ec1c7e9ff3a2acfb5d7157b870e0bf8c33d95114b439e2a2234f58599a2ae60b43") 12
  = (hex "04f8bb58ab2457fbb695c6db0a9b48591fc471e1588d7a16d9336962a0cadd52eb11f68660f300d0b87df839c1d3212ef47f1d6e6d388c658d6b646045d20e88",
     hex "e8995a51d63c3553e5371b6b").
Proof. vm_compute. split; reflexivity. Qed.

Example lib_gcm_28_key24_iv13_aad17_len1_tag8 :
  gcm_enc (hex "f79a2e311e9bde02882df0e4ebe128f1a30dae1e208dcb3e")
          (hex "0e48adbef2f92b77d61b1b6e14")
          (hex "99ae18cc149175959a5bb090e8528fc731")
          (hex "c1") 8
  = (hex "b2",
     hex "0605dc49019fa61d")
  /\
  gcm_dec (hex "f79a2e311e9bde02882df0e4ebe128f1a30dae1e208dcb3e")
          (hex "0e48adbef2f92b77d61b1b6e14")
          (hex "99ae18cc149175959a5bb090e8528fc731")
          (hex "b2") 8
  = (hex "c1",
     hex "0605dc49019fa61d").
Proof. vm_compute. split; reflexivity. Qed.

Example lib_gcm_29_key24_iv13_aad100_len17_tag12 :
  gcm_enc (hex "da7953f5a347dc36faa46c33ae99d75a60318fb7ae0bb441")
          (hex "0251ec4662cda11e012e83a5dc")
          (hex "493ea9c74f4814593d559afda45cb012588efefb183c9836c43a5dabf8c91a6a0d8c0aa3e324972dad4afd8f139bfd16f7b72c91ffd607924dd013403f57b5d6386f2af28b8adf56e9dfcd2d1271fc0be56af6f39732231dc382a8193fae401a3545bfb7")
          (hex "93287f8db56e9525631ff8074764b32c89") 12
  = (hex "2909985a51988bf82f26ad68370037914a",
     hex "0b3d0ba31ba096eb9341534c")
  /\
  gcm_dec (hex "da7953f5a347dc36faa46c33ae99d75a60318fb7ae0bb441")
          (hex "0251ec4662cda11e012e83a5dc")
          (hex "493ea9c74f4814593d559afda45cb012588efefb183c9836c43a5dabf8c91a6a0d8c0aa3e324972dad4afd8f139bfd16f7b72c91ffd607924dd013403f57b5d6386f2af28b8adf56e9dfcd2d1271fc0be56af6f39732231dc382a8193fae401a3545bfb7")
          (hex "2909985a51988bf82f26ad68370037914a") 12
  = (hex "93287f8db56e9525631ff8074764b32c89",
     hex "0b3d0ba31ba096eb9341534c").
Proof. vm_compute. split; reflexivity. Qed.

Example lib_gcm_30_key24_iv13_aad1_len256_tag16 :
  gcm_enc (hex "eeb1d2679573bf57bec50339020dbfbc30a56ef92fb3ee9f")
          (hex "033e5dc02edadef6a779d62fc1")
          (hex "78")
          (hex "7e5d81721e516ccd204c685198d0ae6b6a4f224674e5e69ebdd38f5e129d30e91e618da9e5e400d5a71bb8d6cc31ef95d2e5c78e4a81a9dd3667d5af4ba626fe979dabf75112a22972bf56462a7fa64730f8c24d12af9a04fcf2489de79a0dd1e5b4972389174e630abc6c51f743a48bf9e8d156c372912e88ffb2925e863fbdeb4a17ea7b8e68a226ba8322424dbd72f5093887c76be4a4afc68fa12444de9a3c82067cbfec387c69cf91334f6e72422f9b622436ff476fac40d2e8496945eaeb63110e65f7d0002ebbba01c40b0a20720c04cf71f8e99039a5a8851d6b45a61cd7249b9cfa9653df6bc77a4a6fffb49f98bee945fac6f180ebd0e7fb418594") 16
  = (hex "e00e468fcbf36966b041c58bc0a807044f54413b2f193f60222fcbf20bc45e53c43436a7a13d9ba9636ba6b31cd989bfadecb1ccbe087cbc6bfda5411ba0a2ece072b719d43bf1826e5c6a593ce4f657ee41961a411d11d8738c36b7005d89b03bf4bc38f32e35c6104a44167c65d40898c000dcc532da5deda3bda61b9a4166e75650f2f15624988672e84c8fc22f6703b0dc18814fbc92af5a7716ee280f284f924ba51b65a2852c8130efbef5d122fba0c58780d5f308f4b586b42e313275da4be19fe15b51758ebd28c10672d31010c2dc0c3f99828ecff00b1d8275c2e001face253e5e39166adac658cc7fd19b8d1984e1107020953ed191dea440c8c1",
     hex "7f74b11ec3cbb58451ea284d1b2ef389")
  /\
  gcm_dec (hex "eeb1d2679573bf57bec50339020dbfbc30a56ef92fb3ee9f")
          (hex "033e5dc02edadef6a779d62fc1")
          (hex "78")
          (hex "e00e468fcbf36966b041c58bc0a807044f54413b2f193f60222fcbf20bc45e53c43436a7a13d9ba9636ba6b31cd989bfadecb1ccbe087cbc6bfda5411ba0a2ece072b719d43bf1826e5c6a593ce4f657ee41961a411d11d8738c36b7005d89b03bf4bc38f32e35c6104a44167c65d40898c000dcc532da5deda3bda61b9a4166e75650f2f15624988672e84c8fc22f6703b0dc18814fbc92af5a7716ee280f284f924ba51b65a2852c8130efbef5d122fba0c58780d5f308f4b586b42e313275da4be19fe15b51758ebd28c10672d31010c2dc0c3f99828ecff00b1d8275c2e001face253e5e39166adac658cc7fd19b8d1984e1107020953ed191dea440c8c1") 16
  = (hex "7e5d81721e516ccd204c685198d0ae6b6a4f224674e5e69ebdd38f5e129d30e91e618da9e5e400d5a71bb8d6cc31ef95d2e5c78e4a81a9dd3667d5af4ba626fe979dabf75112a22972bf56462a7fa64730f8c24d12af9a04fcf2489de79a0dd1e5b4972389174e630abc6c51f743a48bf9e8d156c372912e88ffb2925e863fbdeb4a17ea7b8e68a226ba8322424dbd72f5093887c76be4a4afc68fa12444de9a3c82067cbfec387c69cf91334f6e72422f9b622436ff476fac40d2e8496945eaeb63110e65f7d0002ebbba01c40b0a20720c04cf71f8e99039a5a8851d6b45a61cd7249b9cfa9653df6bc77a4a6fffb49f98bee945fac6f180ebd0e7fb418594",
     hex "7f74b11ec3cbb58451ea284d1b2ef389").
Proof. vm_compute. split; reflexivity. Qed.

Example lib_gcm_31_key24_iv16_aad20_len16_tag12 :
  gcm_enc (hex "1c418301e53d1526fe90464570cf911f95ed51bc37512af4")
          (hex "4bdaf2cf0f55cd9cc36cd461a43ae788")
          (hex "af9035bd2f5c9f7d64a4b2d80182f9f97bc3a60b")
          (hex "3690e578bbb392e74413a48a513bb688") 12
  = (hex "21f498eae0306c7f74df76cafeec9dad",
     hex "0763aead6a462c2a6c6e52b6")
  /\
  gcm_dec (hex "1c418301e53d1526fe90464570cf911f95ed51bc37512af4")
          (hex "4bdaf2cf0f55cd9cc36cd461a43ae788")
          (hex "af9035bd2f5c9f7d64a4b2d80182f9f97bc3a60b")
          (hex "21f498eae0306c7f74df76cafeec9dad") 12
  = (hex "3690e578bbb392e74413a48a513bb688",
     hex "0763aead6a462c2a6c6e52b6").
Proof. vm_compute. split; reflexivity. Qed.

Example lib_gcm_32_key24_iv16_aad0_len255_tag16 :
  gcm_enc (hex "e32671c2a81e03f418fc8e5896b8307f2199dabb3e79b8b4")
          (hex "f52a32841c8c749b07251ea5b5954cd8")
          (hex "")
          (hex "87e4f689a6a5c10609f774cf44e52742fbc271afed1808699812b52c0f635c9b0cc65e30e245cd2c5017e7c019c0215a11ae57eb4df66be4724dd033d3bff9612c88d9758335247f8bd5997118e89cd990d27485be36b6179af7a00e2feb7fb478f132633f03f8d3b6500df184a1fbe0184181bc7f16eba10e81b7b2e08a9266be70e8d58de33ff6379c5c291adc7adfe052e6360dbea07ead690a6b86879827af03411e87ef2c884afb40d1d6836fea406e2d258404c583007a1f33fa76ce093c06bc4246ebd844be9b4618efa31c4420b8c2e9c5defd621ea266e2a18688b9b32c420371b692596363e99cb349aea9781202bc61f6ff3f80d78fc2c142c7") 16
  = (hex "3bd15dc2fcc8b02ded146a66e29217d1f208ede37cafcbd3e554fef863c57ef2bf0a5af28f77d0475ca4148b1d6d7704c47920ba15bb6343526ea5f6097bd3398d2910aef64079fd6f4a5353e73ee45560c03c5764c3e8e2de2a5e26f346151a625b3658e2edbd4b856aa528d37917f597fc6449c45ca1ef6d28234f335af0ea5df51e6a0f0c225e322a5c26c792a8a049873dbc71900a1db64ddbf84697553ea6e7a30ab57f5fdaf8c1f26e446ff416302907ba169f563dbab4e5e0888d3593743774e6f149bf64f3d4eea695edd78f5803aa869874d60829907f4f7509ee2e849969ef47d38b5a2da4c9db4387ff83db1a1b006625ada45ac1e511b4ffbb",
     hex "dacd64744c4f7f0a0b3d7b56c3ed3d6d")
  /\
  gcm_dec (hex "e32671c2a81e03f418fc8e5896b8307f2199dabb3e79b8b4")
          (hex "f52a32841c8c749b07251ea5b5954cd8")
          (hex "")
          (hex "3bd15dc2fcc8b02ded146a66e29217d1f208ede37cafcbd3e554fef863c57ef2bf0a5af28f77d0475ca4148b1d6d7704c47920ba15bb6343526ea5f6097bd3398d2910aef64079fd6f4a5353e73ee45560c03c5764c3e8e2de2a5e26f346151a625b3658e2edbd4b856aa528d37917f597fc6449c45ca1ef6d28234f335af0ea5df51e6a0f0c225e322a5c26c792a8a049873dbc71900a1db64ddbf84697553ea6e7a30ab57f5fdaf8c1f26e446ff416302907ba169f563dbab4e5e0888d3593743774e6f149bf64f3d4eea695edd78f5803aa869874d60829907f4f7509ee2e849969ef47d38b5a2da4c9db4387ff83db1a1b006625ada45ac1e511b4ffbb") 16
  = (hex "87e4f689a6a5c10609f774cf44e52742fbc271afed1808699812b52c0f635c9b0cc65e30e245cd2c5017e7c019c0215a11ae57eb4df66be4724dd033d3bff9612c88d9758335247f8bd5997118e89cd990d27485be36b6179af7a00e2feb7fb478f132633f03f8d3b6500df184a1fbe0184181bc7f16eba10e81b7b2e08a9266be70e8d58de33ff6379c5c291adc7adfe052e6360dbea07ead690a6b86879827af03411e87ef2c884afb40d1d6836fea406e2d258404c583007a1f33fa76ce093c06bc4246ebd844be9b4618efa31c4420b8c2e9c5defd621ea266e2a18688b9b32c420371b692596363e99cb349aea9781202bc61f6ff3f80d78fc2c142c7",
     hex "dacd64744c4f7f0a0b3d7b56c3ed3d6d").
Proof. vm_compute. split; reflexivity. Qed.

Example lib_gcm_33_key24_iv16_aad16_len0_tag4 :
  gcm_enc (hex "94041dd40092248a4bfb8e6622c5a4e430289e479473d5f7")
          (hex "03103d61a71df9369be9b3c98066e8d0")
          (hex "ead6fdf8695dee69ba934754c4bf98cc")
          (hex "") 4
  = (hex "",
     hex "d0bdf36c")
  /\
  gcm_dec (hex "94041dd40092248a4bfb8e6622c5a4e430289e479473d5f7")
          (hex "03103d61a71df9369be9b3c98066e8d0")
          (hex "ead6fdf8695dee69ba934754c4bf98cc")
          (hex "") 4
  = (hex "",
     hex "d0bdf36c").
Proof. vm_compute. split; reflexivity. Qed.

Example lib_gcm_34_key24_iv60_aad100_len64_tag16 :
  gcm_enc (hex "2a8320d7c32d54896b762b34cc2e09f4e1905c91df862000")
          (hex "c28af517be71ef7359093d6809683a3a58bfc3716bc34fd26365c63e2905761cdfd8cdba7eec8fa89fc89f94ec742c2b277f4ec2716eb8bb6c135f00")
          (hex "a67e55e99d1bd671f4afffc36e2d1eb236ce8bf30dd33b0fdb05ca0ff80fc1a62f230a10eaa2f2be8381b57673b3592887ed077af637c103ba8a70deb195be8704e002ab7abaca1ec7d5038d9cf328640b0f54eddfcc8ae894664a1797d64eb26f076a37")
          (hex "e9e8f486414816c0d55039ef6b99f9aad4bc96740ac86fe3e7ee0cf9f7354ed995ddab418347a3e156fc71092ed575f8fe91cb1f64a965047dafeddbe14ea5f5") 16
  = (hex "34484ba04a0e30e64b799dc3a427c6ce4a96b1a41a552f3b2de56dc2895710cd298e68469cfb30555dd186f55bb44a36b4540724bc78b3b1caa2ba7c53cab3b3",
     hex "73f12805df30de09488e20775047e93e")
  /\
  gcm_dec (hex "2a8320d7c32d54896b762b34cc2e09f4e1905c91df862000")
          (hex "c28af517be71ef7359093d6809683a3a58bfc3716bc34fd26365c63e2905761cdfd8cdba7eec8fa89fc89f94ec742c2b277f4ec2716eb8bb6c135f00")
          (hex "a67e55e99d1bd671f4afffc36e2d1eb236ce8bf30dd33b0fdb05ca0ff80fc1a62f230a10eaa2f2be8381b57673b3592887ed077af637c103ba8a70deb195be8704e002ab7abaca1ec7d5038d9cf328640b0f54eddfcc8ae894664a1797d64eb26f076a37")
          (hex "34484ba04a0e30e64b799dc3a427c6ce4a96b1a41a552f3b2de56dc2895710cd298e68469cfb30555dd186f55bb44a36b4540724bc78b3b1caa2ba7c53cab3b3") 16
  = (hex "e9e8f486414816c0d55039ef6b99f9aad4bc96740ac86fe3e7ee0cf9f7354ed995ddab418347a3e156fc71092ed575f8fe91cb1f64a965047dafeddbe14ea5f5",
     hex "73f12805df30de09488e20775047e93e").
Proof. vm_compute. split; reflexivity. Qed.

Example lib_gcm_35_key24_iv60_aad1_len257_tag4 :
  gcm_enc (hex "207513d4d0db338c4d222e684c9b528fd7cbf90317d5fa6e")
          (hex "c598dc0cca0d15caa18b15fe13c796c92cdf42a328bd787ea9234b5031e7338e3105a55a6fc8c42e3f523d0d940b148c6f57265836507bb1518160be")
          (hex "ef")
          (hex "99e8594f132e566d34b24a5adfdfcc2fa34ec9ab87d13e8394fb3779092712f4e26a80fe8cb03421650612c5dfe317f415b3cd623d965d380e38aade79d49118607d0afd334cf8716356c4939b3bfc4bf042906f0874a781951554fa3930dd9562dc4f3af4a947ae0fb501186e08f8abcfe2b7edd14f069d0d4f96ce5d08be4c5f632803330dcee614c0bd0d615b98a2fedc5f22f30f830165cfd4d18fdbffb116c24d6eb8f1247e1ab579a1f38f2a7820138330136780628ba8e4ca6a790292d4667e40cfa864b8f6070ff7c0c7e31c2c55ce279f3c8e5ead2e8dfcbe63350e0c00b8910e5311aec0bd90c9750e59fa4b5231e76d00f140a514e3c29ba35828b5") 4
  = (hex "be8fba40f73c4be58b679223ad68352c29bee5d37a0b10ecb77d0ca261f774bf24ee0ddd4bd9a9c15c7389b7342bbfd053b59e5af20eaba5afbdb0b7e335ebe40b45d0e90a39da2666700600d9639aa655352919b93b44560259a378cd65f7ced5a18005aa2cbdd0f0cd585d7828683cdf68a4973c63d5d82734bd95b5b4cc20e54da8d937eb10a5676b89db453415af2fe9179202897c1d57b636fbcd93f299b4fcd7bef45e1aa3aaba9cd4a35c2572065d22b9329cf310495840e565a8dd51b4fbb0db4d9275cc2687f778e403412e1be7cfa6a369fd23036fc53a19016f506058398d1ba04da5eefe7087ef83e71ffa2072fbaf1ebc2fede46f77b939c4a881",
     hex "b6685aa2")
  /\
  gcm_dec (hex "207513d4d0db338c4d222e684c9b528fd7cbf90317d5fa6e")
          (hex "c598dc0cca0d15caa18b15fe13c796c92cdf42a328bd787ea9234b5031e7338e3105a55a6fc8c42e3f523d0d940b148c6f57265836507bb1518160be")
          (hex "ef")
          (hex "be8fba40f73c4be58b679223ad68352c29bee5d37a0b10ecb77d0ca261f774bf24ee0ddd4bd9a9c15c7389b7342bbfd053b59e5af20eaba5afbdb0b7e335ebe40b45d0e90a39da2666700600d9639aa655352919b93b44560259a378cd65f7ced5a18005aa2cbdd0f0cd585d7828683cdf68a4973c63d5d82734bd95b5b4cc20e54da8d937eb10a5676b89db453415af2fe9179202897c1d57b636fbcd93f299b4fcd7bef45e1aa3aaba9cd4a35c2572065d22b9329cf310495840e565a8dd51b4fbb0db4d9275cc2687f778e403412e1be7cfa6a369fd23036fc53a19016f506058398d1ba04da5eefe7087ef83e71ffa2072fbaf1ebc2fede46f77b939c4a881") 4
  = (hex "99e8594f132e566d34b24a5adfdfcc2fa34ec9ab87d13e8394fb3779092712f4e26a80fe8cb03421650612c5dfe317f415b3cd623d965d380e38aade79d49118607d0afd334cf8716356c4939b3bfc4bf042906f0874a781951554fa3930dd9562dc4f3af4a947ae0fb501186e08f8abcfe2b7edd14f069d0d4f96ce5d08be4c5f632803330dcee614c0bd0d615b98a2fedc5f22f30f830165cfd4d18fdbffb116c24d6eb8f1247e1ab579a1f38f2a7820138330136780628ba8e4ca6a790292d4667e40cfa864b8f6070ff7c0c7e31c2c55ce279f3c8e5ead2e8dfcbe63350e0c00b8910e5311aec0bd90c9750e59fa4b5231e76d00f140a514e3c29ba35828b5",
     hex "b6685aa2").
Proof. vm_compute. split; reflexivity. Qed.

Example lib_gcm_36_key24_iv60_aad17_len15_tag8 :
  gcm_enc (hex "329b7b93c877209f98cb6b0e1a67d18f7e5b097a312a5748")
          (hex "7d382e50288cb534f21feb2b489e66ac7650d4c3b3bfcb8674a5d5bc3157af15897a885a7d86ddbe986afb7d4b7e0df83651640337d48b8ba57288ff")
          (hex "d4b6aca72bc44bdc98739e4d6faf3f1ded")
          (hex "d4de777c477a18d6fde58e6f4e9465") 8
  = (hex "3e94ef6e041edb277af1679125636f",
     hex "8159bbf036fccabe")
  /\
  gcm_dec (hex "329b7b93c877209f98cb6b0e1a67d18f7e5b097a312a5748")
          (hex "7d382e50288cb534f21feb2b489e66ac7650d4c3b3bfcb8674a5d5bc3157af15897a885a7d86ddbe986afb7d4b7e0df83651640337d48b8ba57288ff")
          (hex "d4b6aca72bc44bdc98739e4d6faf3f1ded")
          (hex "3e94ef6e041edb277af1679125636f") 8
  = (hex "d4de777c477a18d6fde58e6f4e9465",
     hex "8159bbf036fccabe").
Proof. vm_compute. split; reflexivity. Qed.

Example lib_gcm_37_key32_iv1_aad0_len257_tag4 :
  gcm_enc (hex "0b9eac0e800473a72633bfa3be4feaac8c93c2ce45c22bf8bdc1f04ce1f19ccd")
          (hex "c0")
          (hex "")
          (hex "0b6b85b45e1ac0e4e980db5ad2bc49cb61097a844a91d67986cd43fb25f737160a7919d70ba28714eed8ffdb6872cbb649e94afa7216436e82701db3e5641b51ce2759f80c3e8865a386af08588155d06ea4273d3847387c442f07ccbf49795b9582f33d16093ee581dc4fe3ab1af022a3bf70105b82f23fa433fa571fe7bedede980f0d1e57c01bf66d53cf7209e55d68c5d6a659e74ec6eeb14117107dcecabffb6b0481e906edac5076139ec5143862fe0d7c5800c08df8266d41761070535d359d69cdac8b4b12b236e60d3d660365d201812e0c1511a9b914bf2f5cb11c4cede0172b61d1bf60eaf1796221c0df781120c5b72666e0a6a6d9946f693ec994") 4
  = (hex "83e9795840c996ed07a61da93a989df206c79d211813faeed3502995cd21c0947e81b34961d4123fb713642e3994e8a114805086e24fccbf59fcc7af6595dbbfd8becfbb75cfbafe0b6ce9f93e38e1b7de060518d609665e81a2508d90db5cc8a79eeb65bd7ac65a0a4600a9eea939a7201e4966333aa30317a5364ce4c0f3696f5e0506fdd8cf6c8b58ce39ae4f76f8a78e8248a29fb8a4d27ad1b7a9e184232da9bfb2e3511982325d42f9e5fd97b1a817863acc1ff0db99e9dff1a3273cf27d4392790a844ade4e4d6df588c1144dd2d96ac13759e1fc9989e4d5a17aa52efada157ac4e1ec5973d9c10c46e452cf942dc843f8f2b3681ac6a9364e2ecdf56f",
     hex "8e9037c8")
  /\
  gcm_dec (hex "0b9eac0e800473a72633bfa3be4feaac8c93c2ce45c22bf8bdc1f04ce1f19ccd")
          (hex "c0")
          (hex "")
          (hex "83e9795840c996ed07a61da93a989df206c79d211813faeed3502995cd21c0947e81b34961d4123fb713642e3994e8a114805086e24fccbf59fcc7af6595dbbfd8becfbb75cfbafe0b6ce9f93e38e1b7de060518d609665e81a2508d90db5cc8a79eeb65bd7ac65a0a4600a9eea939a7201e4966333aa30317a5364ce4c0f3696f5e0506fdd8cf6c8b58ce39ae4f76f8a78e8248a29fb8a4d27ad1b7a9e184232da9bfb2e3511982325d42f9e5fd97b1a817863acc1ff0db99e9dff1a3273cf27d4392790a844ade4e4d6df588c1144dd2d96ac13759e1fc9989e4d5a17aa52efada157ac4e1ec5973d9c10c46e452cf942dc843f8f2b3681ac6a9364e2ecdf56f") 4
  = (hex "0b6b85b45e1ac0e4e980db5ad2bc49cb61097a844a91d67986cd43fb25f737160a7919d70ba28714eed8ffdb6872cbb649e94afa7216436e82701db3e5641b51ce2759f80c3e8865a386af08588155d06ea4273d3847387c442f07ccbf49795b9582f33d16093ee581dc4fe3ab1af022a3bf70105b82f23fa433fa571fe7bedede980f0d1e57c01bf66d53cf7209e55d68c5d6a659e74ec6eeb14117107dcecabffb6b0481e906edac5076139ec5143862fe0d7c5800c08df8266d41761070535d359d69cdac8b4b12b236e60d3d660365d201812e0c1511a9b914bf2f5cb11c4cede0172b61d1bf60eaf1796221c0df781120c5b72666e0a6a6d9946f693ec994",
     hex "8e9037c8").
Proof. vm_compute. split; reflexivity. Qed.

Example lib_gcm_38_key32_iv1_aad16_len15_tag8 :
  gcm_enc (hex "a229980ec6f34ee7b233132637f79bd40c5fe92970fed8d334c24d9a882d84ef")
          (hex "10")
          (hex "f0e48748a37928a58330a66c778230d9")
          (hex "728f16452222ea07e2d009c36fcfa0") 8
  = (hex "948c8a74d73b05cd5543632ac4bbad",
     hex "2aec8cd55c891800")
  /\
  gcm_dec (hex "a229980ec6f34ee7b233132637f79bd40c5fe92970fed8d334c24d9a882d84ef")
          (hex "10")
          (hex "f0e48748a37928a58330a66c778230d9")
          (hex "948c8a74d73b05cd5543632ac4bbad") 8
  = (hex "728f16452222ea07e2d009c36fcfa0",
     hex "2aec8cd55c891800").
Proof. vm_compute. split; reflexivity. Qed.

Example lib_gcm_39_key32_iv1_aad20_len64_tag12 :
  gcm_enc (hex "5e5cd19084e5be713edec2367588ed8c4a46fe881946ee10f2b646916ed05657")
          (hex "9e")
          (hex "08c4403a090baf907e1fb93971c20787c22e65b9")
          (hex "eaa672104d161df0419d748e0c27111e1be50d3f0e7d38818231fed97cf1f68749616635a25d5f7a7d6d0eb33f6d0218a2a9ea57b6085efbd2b3801d51d775cc") 12
  = (hex "6e95c3af5ef9138337eaa2b921aebe36755cce8ae23ed2b1ac093b2f5ba2f8117d4f09af5a9c4ebd7791c26b696340e2e0ece1bc36cf0a279d73a3ad15436c9f",
     hex "ad4b4b01a5251c381285028f")
  /\
  gcm_dec (hex "5e5cd19084e5be713edec2367588ed8c4a46fe881946ee10f2b646916ed05657")
          (hex "9e")
          (hex "08c4403a090baf907e1fb93971c20787c22e65b9")
          (hex "6e95c3af5ef9138337eaa2b921aebe36755cce8ae23ed2b1ac093b2f5ba2f8117d4f09af5a9c4ebd7791c26b696340e2e0ece1bc36cf0a279d73a3ad15436c9f") 12
  = (hex "eaa672104d161df0419d748e0c27111e1be50d3f0e7d38818231fed97cf1f68749616635a25d5f7a7d6d0eb33f6d0218a2a9ea57b6085efbd2b3801d51d775cc",
     hex "ad4b4b01a5251c381285028f").
Proof. vm_compute. split; reflexivity. Qed.

Example lib_gcm_40_key32_iv8_aad1_len1_tag8 :
  gcm_enc (hex "c563ddebeb87b3cfc33abbb32dea6446a362241e43a4994881f94f3b3871381a")
          (hex "715609a1920e873a")
          (hex "4e")
          (hex "35") 8
  = (hex "5d",
     hex "7c2df3e3cb5a1e27")
  /\
  gcm_dec (hex "c563ddebeb87b3cfc33abbb32dea6446a362241e43a4994881f94f3b3871381a")
          (hex "715609a1920e873a")
          (hex "4e")
          (hex "5d") 8
  = (hex "35",
     hex "7c2df3e3cb5a1e27").
Proof. vm_compute. split; reflexivity. Qed.

Example lib_gcm_41_key32_iv8_aad17_len17_tag12 :
  gcm_enc (hex "850788ae0f799e8bc7a9c5611feac574476bdb2553147ed87018f093e51069ac")
          (hex "b4168adbccb35e6e")
          (hex "97f828431051f80201949dcfa6130ceaa0")
          (hex "8d65af5d03045064996bf2011bd8c50703") 12
  = (hex "8ae79902fc6614b333debba9708b56a574",
     hex "b0ff641be4bd82ee382ee597")
  /\
  gcm_dec (hex "850788ae0f799e8bc7a9c5611feac574476bdb2553147ed87018f093e51069ac")
          (hex "b4168adbccb35e6e")
          (hex "97f828431051f80201949dcfa6130ceaa0")
          (hex "8ae79902fc6614b333debba9708b56a574") 12
  = (hex "8d65af5d03045064996bf2011bd8c50703",
     hex "b0ff641be4bd82ee382ee597").
Proof. vm_compute. split; reflexivity. Qed.

Example lib_gcm_42_key32_iv8_aad100_len256_tag16 :
  gcm_enc (hex "34743880b4455227153c53265433448fbd7f7bd6ca5a78b13a7e535b61be5e38")
          (hex "63428d8f2c130042")
          (hex "07aa54734ea7c28c93a281a2c5543dce4cae6579c993173ab58ad9592049348e56bbd384f31bf71df1ae6c2c1a3c8853256630bd4fc1f480c0639c2de716e03425b1386b6d011f3ac161c35258f945664b2781168fec0062b3f5778f6737880e6911492c")
          (hex "6e46c039741bbe199533045cd6e6ac5d4750b871163041fe8791234b41cacf1154faed7427eb20ae09778f377ac1622f267114bf0ab7419dad1937002b8731369efab2ef60686a2809431edc93e067706f20f855d3b9704811d6e54643451bf77b4e9c3a3be4c91d51a5dd397fb349ffff4bd2a33cf5f2c337ac96be9f0037e1583c53101f6c73ce0a881e6c1a89832ab6c3b5859c2d697468c81caf631a02f045d12cfc02d6dcc7b4370102057942077091e52c02a74e7075f458a4b81b57cd9f68b6539b3df3d6b11784afd4dee35c140a652b86462d3cc6a05d333a663894f6604d4c0186b37e09a2352f47c0f0302d13d5f77dc36192055dd03ffc323dcb") 16
  = (hex "ed1bd683cd24d41499d6170dc4bb47180d6c720ce98b8aa9cc0725fb4169897561ad6a9e950b0390137c5d94572695eb56914626b42c7f2f77d7822f6ef6931deda90ba660dc14d7f0168186a6bdd60c99fe97e9e85b6e4b774dad95ff4acb86edafb3ef50280773252b5a51b0dcf05d5ed727497c779464e8ed1fb40011384c4f517798352eb7260ff849d28e2d748e1e5497a413e29b456c44f77cdbec7bac279406b4ef04727d6478ef8cc86012d3e9bf424afba1ac28b464acbcce431e25a39033dfaef1ec24f714cad9ea12573e94747eaeee6af9fa1fbcc0c1aa6f65f09bc4461eb03df0dbd9e35f7b5dbf685c562d4540eeaaaa3b7d488bc3f2b99f70",
     hex "0e02ee9455f2b2f9932288f5fa9f7d57")
  /\
  gcm_dec (hex "34743880b4455227153c53265433448fbd7f7bd6ca5a78b13a7e535b61be5e38")
          (hex "63428d8f2c130042")
          (hex "07aa54734ea7c28c93a281a2c5543dce4cae6579c993173ab58ad9592049348e56bbd384f31bf71df1ae6c2c1a3c8853256630bd4fc1f480c0639c2de716e03425b1386b6d011f3ac161c35258f945664b2781168fec0062b3f5778f6737880e6911492c")
          (hex "ed1bd683cd24d41499d6170dc4bb47180d6c720ce98b8aa9cc0725fb4169897561ad6a9e950b0390137c5d94572695eb56914626b42c7f2f77d7822f6ef6931deda90ba660dc14d7f0168186a6bdd60c99fe97e9e85b6e4b774dad95ff4acb86edafb3ef50280773252b5a51b0dcf05d5ed727497c779464e8ed1fb40011384c4f517798352eb7260ff849d28e2d748e1e5497a413e29b456c44f77cdbec7bac279406b4ef04727d6478ef8cc86012d3e9bf424afba1ac28b464acbcce431e25a39033dfaef1ec24f714cad9ea12573e94747eaeee6af9fa1fbcc0c1aa6f65f09bc4461eb03df0dbd9e35f7b5dbf685c562d4540eeaaaa3b7d488bc3f2b99f70") 16
  = (hex "6e46c039741bbe199533045cd6e6ac5d4750b871163041fe8791234b41cacf1154faed7427eb20ae09778f377ac1622f267114bf0ab7419dad1937002b8731369efab2ef60686a2809431edc93e067706f20f855d3b9704811d6e54643451bf77b4e9c3a3be4c91d51a5dd397fb349ffff4bd2a33cf5f2c337ac96be9f0037e1583c53101f6c73ce0a881e6c1a89832ab6c3b5859c2d697468c81caf631a02f045d12cfc02d6dcc7b4370102057942077091e52c02a74e7075f458a4b81b57cd9f68b6539b3df3d6b11784afd4dee35c140a652b86462d3cc6a05d333a663894f6604d4c0186b37e09a2352f47c0f0302d13d5f77dc36192055dd03ffc323dcb",
     hex "0e02ee9455f2b2f9932288f5fa9f7d57").
Proof. vm_compute. split; reflexivity. Qed.

Example lib_gcm_43_key32_iv12_aad16_len16_tag12 :
  gcm_enc (hex "efa7779d4afdeb3051bc96db94ff704d79fd3765ec01ad64232f17a7fe971954")
          (hex "54eb01990097c4c71f534a57")
          (hex "06e1a16a0d8429b3b8956a84320a1ac2")
          (hex "9df01422e06bb6542377fffd7274a549") 12
  = (hex "263842e619f0f36fdf430c07c214b5c1",
     hex "c7694b9262036d0e6015a729")
  /\
  gcm_dec (hex "efa7779d4afdeb3051bc96db94ff704d79fd3765ec01ad64232f17a7fe971954")
          (hex "54eb01990097c4c71f534a57")
          (hex "06e1a16a0d8429b3b8956a84320a1ac2")
          (hex "263842e619f0f36fdf430c07c214b5c1") 12
  = (hex "9df01422e06bb6542377fffd7274a549",
     hex "c7694b9262036d0e6015a729").
Proof. vm_compute. split; reflexivity. Qed.

Example lib_gcm_44_key32_iv12_aad20_len255_tag16 :
  gcm_enc (hex "4616b67f160988cea4ac1c4e7dc9e7d80b5676cf708e029613924176cceb7414")
          (hex "3ddcaf73949def62e2d443a4")
          (hex "b47330edc365360c4588c08d25dcfdb74ea97c55")
          (hex "feb0baecd3288622d650ee322f448e91a7793e1ce77719847cb8c04a1cd5daed8daf5da22776be31accaac3b85ab07680ffe836b4df00b60914970aa751896c594c230e3d3383620e3678540abbc9c4cdae82678ca9ee902711bcfe6a4fc7422212d4bea05f10b79f0a5ee337c233e5e20f6f8c0343cb6cc6879fb5464f92d5518167ddc3ff070708179a065ff9c56a78dd537bf3cc3f07e95870850a9405da509fd7cdebec8580ebd74c1726623896c77b9a954ea3cb0e38dd5f61a3c68246206d36394aa4aa4b0f7c91baf0a180c8269206f24edbf25fe2e6c41d6b3d12009e3474001145801171cd49f5632c4a6b7c68cacf4fffaa3e4d8e5ec150e5061") 16
  = (hex "a1322f1773f5894fc5ffd1797ac71104c118548018a15964b890a2823500bad85eef14a14ef8f921d537fc00134ad34a5072d58349a6629b49a0362e4580fbe8b0090f33a21311b5a77ba8a6a5d5c5bac12ad046e8ab7c63b4ae56d98a9b9432e18a535ab63ac22adaad78518e384135b6981ca90d9926eb13790c1e2d0a7ff0c40b3b7f3e9d94d2db72c3eec135a0699385031cc426a2e25fd15cfbf706d1c105849a276dc5f3e6151b498cb779e06d13d4e5c4c7c66dc741cf1b6ab2ce0a8eef6f0bb1dca27fe40e590257c4b9ee84595bdf112e5c28f68f4ce61b6d5b793020fb4d881d06ce4c875732e0b490df66343d157662b335b23b56bc10da69ad",
     hex "4a3f49549d7a540fb3f8cb92ac14add3")
  /\
  gcm_dec (hex "4616b67f160988cea4ac1c4e7dc9e7d80b5676cf708e029613924176cceb7414")
          (hex "3ddcaf73949def62e2d443a4")
          (hex "b47330edc365360c4588c08d25dcfdb74ea97c55")
          (hex "a1322f1773f5894fc5ffd1797ac71104c118548018a15964b890a2823500bad85eef14a14ef8f921d537fc00134ad34a5072d58349a6629b49a0362e4580fbe8b0090f33a21311b5a77ba8a6a5d5c5bac12ad046e8ab7c63b4ae56d98a9b9432e18a535ab63ac22adaad78518e384135b6981ca90d9926eb13790c1e2d0a7ff0c40b3b7f3e9d94d2db72c3eec135a0699385031cc426a2e25fd15cfbf706d1c105849a276dc5f3e6151b498cb779e06d13d4e5c4c7c66dc741cf1b6ab2ce0a8eef6f0bb1dca27fe40e590257c4b9ee84595bdf112e5c28f68f4ce61b6d5b793020fb4d881d06ce4c875732e0b490df66343d157662b335b23b56bc10da69ad") 16
  = (hex "feb0baecd3288622d650ee322f448e91a7793e1ce77719847cb8c04a1cd5daed8daf5da22776be31accaac3b85ab07680ffe836b4df00b60914970aa751896c594c230e3d3383620e3678540abbc9c4cdae82678ca9ee902711bcfe6a4fc7422212d4bea05f10b79f0a5ee337c233e5e20f6f8c0343cb6cc6879fb5464f92d5518167ddc3ff070708179a065ff9c56a78dd537bf3cc3f07e95870850a9405da509fd7cdebec8580ebd74c1726623896c77b9a954ea3cb0e38dd5f61a3c68246206d36394aa4aa4b0f7c91baf0a180c8269206f24edbf25fe2e6c41d6b3d12009e3474001145801171cd49f5632c4a6b7c68cacf4fffaa3e4d8e5ec150e5061",
     hex "4a3f49549d7a540fb3f8cb92ac14add3").
Proof. vm_compute. split; reflexivity. Qed.

Example lib_gcm_45_key32_iv12_aad0_len0_tag4 :
  gcm_enc (hex "d6b75a5177e3b04d166995e8a8be8c8d4dfb2b6296c2245ebbdc0486420803bd")
          (hex "433cbf7f26446866e497c37d")
          (hex "")
          (hex "") 4
  = (hex "",
     hex "d3d08161")
  /\
  gcm_dec (hex "d6b75a5177e3b04d166995e8a8be8c8d4dfb2b6296c2245ebbdc0486420803bd")
          (hex "433cbf7f26446866e497c37d")
          (hex "")
          (hex "") 4
  = (hex "",
     hex "d3d08161").
Proof. vm_compute. split; reflexivity. Qed.

Example lib_gcm_46_key32_iv13_aad17_len64_tag16 :
  gcm_enc (hex "71fa20a18c049ae15a71c05c142077eacea401ee732fc47d5d322b85b577f73c")
          (hex "f265bb8c6e3408538aaa196603")
          (hex "f63a147c512619cfe71cacdb96eaa85ba5")
          (hex "fceb6a7cd588b66251524765a8ff759d82c5dcb4a543b458e368508d4bc117145594ef68f6bdb2acf144fcacf7bb6b05cabd96929c5cbde8a051247f4f3dde82") 16
  = (hex "5380480561b8069e05460583e88302b09006466b2a4d839e044bb0733477dfb7942c19a7e0c83e15b80ea0a90e26e3c772abe61520dd5962caf332c19520d2c6",
     hex "b6133c20ad0d10f5e46a5dcfeed80b48")
  /\
  gcm_dec (hex "71fa20a18c049ae15a71c05c142077eacea401ee732fc47d5d322b85b577f73c")
          (hex "f265bb8c6e3408538aaa196603")
          (hex "f63a147c512619cfe71cacdb96eaa85ba5")
          (hex "5380480561b8069e05460583e88302b09006466b2a4d839e044bb0733477dfb7942c19a7e0c83e15b80ea0a90e26e3c772abe61520dd5962caf332c19520d2c6") 16
  = (hex "fceb6a7cd588b66251524765a8ff759d82c5dcb4a543b458e368508d4bc117145594ef68f6bdb2acf144fcacf7bb6b05cabd96929c5cbde8a051247f4f3dde82",
     hex "b6133c20ad0d10f5e46a5dcfeed80b48").
Proof. vm_compute. split; reflexivity. Qed.

Example lib_gcm_47_key32_iv13_aad100_len257_tag4 :
  gcm_enc (hex "f5544dd79303ad40ff12b870cba9b832db180a5db8e725488a1a82d0481443b9")
          (hex "b2e8f04d6ff4be5aaab376d3a6")
          (hex "dace2021e54414b6dc5f6bfd73b85604c6fe669d7f6d20c6321b04b87e274f36c4f58d8893543d1977db1cde13754df0eee674da1a0e07a6611269adda4836ad4bade95d2678253785e847119ccd474500025c76c0203c57f7dec3bc96157e0425323609")
          (hex "09152a03d870fa7eb74d5e3a6dd176cfda4d931009449b1dc755f510ef5953dca99b15d067c360b259bed5d13e74aa6eb4fad17bf5a16da64f1f48b8ecad7f65bd0ce8f589e857fe95365c9585c59807124efd6ecd017b15efd3a2f8e395b9a08e3436c604bd511554e7dfdac0c81c4191cde46322de188fe9d0481c69dfddd9ac0dd7e64589697edd893831b1c0ca862b27113457346c608e74e4efc67c42aa89c63d43516deb3de25f67f49e3ca82cdebbde6c9c64ace1eb0ed645f4a3a5215b92549dca3a40bdb1ff175b4e3592749e0297994cb7885a2a41936f00814289eff8842b4c414e8b5d8f58fd99b7384f02a13641b3cb616f3704ebab1e36440c88") 4
  = (hex "ddbd1ea9f75aeee98503a7d29dbdc28ab10fb1bed06c4bf2260ed3a805174bc89b312ff3580d46f4267eb0d73d0a5e91024931fce6456ca7a3be5206084d8108027beb5f2b4fd7f5e644275368614c0dfb8d2940ef46b6d67a8c0d20b341ce6bd75fbaaab4d3fa2bc9ef73dac6af494c277850808af5b81d1f5d8fa1882a2f8e54a40362d3d04eda9d681a3a93fba2defe671bfbda684b8b42782345a7ba7f96f058c245646fdf3932036a8569ee606156e0f832a4042ee798e3a4e9e3c2eb8dc162dce483084d3f9127d4859c08701adb573a6b99ab9a8bf5252d8936cc06528c93b65f4757315e7435f040dd266d2279105013efddf218c6aa50c6e7e6993eac",
     hex "6bdbe3ac")
  /\
  gcm_dec (hex "f5544dd79303ad40ff12b870cba9b832db180a5db8e725488a1a82d0481443b9")
          (hex "b2e8f04d6ff4be5aaab376d3a6")
          (hex "dace2021e54414b6dc5f6bfd73b85604c6fe669d7f6d20c6321b04b87e274f36c4f58d8893543d1977db1cde13754df0eee674da1a0e07a6611269adda4836ad4bade95d2678253785e847119ccd474500025c76c0203c57f7dec3bc96157e0425323609")
          (hex "ddbd1ea9f75aeee98503a7d29dbdc28ab10fb1bed06c4bf2260ed3a805174bc89b312ff3580d46f4267eb0d73d0a5e91024931fce6456ca7a3be5206084d8108027beb5f2b4fd7f5e644275368614c0dfb8d2940ef46b6d67a8c0d20b341ce6bd75fbaaab4d3fa2bc9ef73dac6af494c277850808af5b81d1f5d8fa1882a2f8e54a40362d3d04eda9d681a3a93fba2defe671bfbda684b8b42782345a7ba7f96f058c245646fdf3932036a8569ee606156e0f832a4042ee798e3a4e9e3c2eb8dc162dce483084d3f9127d4859c08701adb573a6b99ab9a8bf5252d8936cc06528c93b65f4757315e7435f040dd266d2279105013efddf218c6aa50c6e7e6993eac") 4
  = (hex "09152a03d870fa7eb74d5e3a6dd176cfda4d931009449b1dc755f510ef5953dca99b15d067c360b259bed5d13e74aa6eb4fad17bf5a16da64f1f48b8ecad7f65bd0ce8f589e857fe95365c9585c59807124efd6ecd017b15efd3a2f8e395b9a08e3436c604bd511554e7dfdac0c81c4191cde46322de188fe9d0481c69dfddd9ac0dd7e64589697edd893831b1c0ca862b27113457346c608e74e4efc67c42aa89c63d43516deb3de25f67f49e3ca82cdebbde6c9c64ace1eb0ed645f4a3a5215b92549dca3a40bdb1ff175b4e3592749e0297994cb7885a2a41936f00814289eff8842b4c414e8b5d8f58fd99b7384f02a13641b3cb616f3704ebab1e36440c88",
     hex "6bdbe3ac").
Proof. vm_compute. split; reflexivity. Qed.

Example lib_gcm_48_key32_iv13_aad1_len15_tag8 :
  gcm_enc (hex "e4609cd5fcb52068936848061a1f93a54010bf755a726b76923d5bd282e82a91")
          (hex "d18f8c6bf7c23071ba316c454a")
          (hex "0a")
          (hex "12f1fe0577e3b0abfedd920a0f1ab0") 8
  = (hex "cc0b094cfa2a4484946281e426d1ff",
     hex "b125837c9f1e4b17")
  /\
  gcm_dec (hex "e4609cd5fcb52068936848061a1f93a54010bf755a726b76923d5bd282e82a91")
          (hex "d18f8c6bf7c23071ba316c454a")
          (hex "0a")
          (hex "cc0b094cfa2a4484946281e426d1ff") 8
  = (hex "12f1fe0577e3b0abfedd920a0f1ab0",
     hex "b125837c9f1e4b17").
Proof. vm_compute. split; reflexivity. Qed.

Example lib_gcm_49_key32_iv16_aad20_len256_tag4 :
  gcm_enc (hex "d4e4034360bde71f4f3f05a09d2926ed9628c0ffa5db6ca300ac5fab6ed88b83")
          (hex "41cd16e061dddf3177cf67f4506d5d73")
          (hex "0ed4336e07701a8459c17abed66c15305f4e5805")
          (hex "04ed945a46ed91aa5826881e7fd922d49216cc2cd7f66d800053bc07c68c431079da2819b3eb21ebe7c712218b9321fb5e83b13f8016ca49d9eac2da594f7bab613fbae93a65a1c24d3dd507364d3e8396beeb8936899297567c9774a58c88f75b8e3f24a27b91e420bedd34ca36f7e823b25c5d3af14c125da9ecad6a836c4c2ec0939c6faad2d8080bc4db3712bb99014cd76658e8a742d5f7c6c202e5cd526ca0840b0da66b9999a4c78cc1e92bd00c74a149a7ed8d7742a98077fa6695e38c80f0df8f26d931aa74fbbce146a85acd8a3f0e475173cb95524f9eeb048de6ef698253617d6188f48f48f6922ecea3bc1578dce83d07045e70a3cbcd6a3f97") 4
  = (hex "e079a887e8b9a0686630493f1ee0acaf8bb92612b53e03f97fdf600fc8960b93aa405e7ef2c88e3592ef54033be8d6140d3f074999ca9efb64379252a3a7b4770e2f3753ff23a531e597bb670c6bef1074c9fdc04795e21cbf584a08a60d1a86299cbb1d537c35bf3bd692ceda0cd4fa07cb12c77afb06888c1b84cddea69f67ff0024b87c7bee6da74f38bc1c36d8337ccea77f7da06cddaa8467098a9edb7c3301cd0ae36fbef82982dbcd6b8701589f17040193d83380e3c824eab1dd28864fa1d12209ce29d8e811a3ce52299c2bfbafd2abca4bd76ccb69f075d835a21cfdc9b87d53dfcdbfca483bd0a36c991ad9c0fcabd451ec8e174b93da11587190",
     hex "396539c4")
  /\
  gcm_dec (hex "d4e4034360bde71f4f3f05a09d2926ed9628c0ffa5db6ca300ac5fab6ed88b83")
          (hex "41cd16e061dddf3177cf67f4506d5d73")
          (hex "0ed4336e07701a8459c17abed66c15305f4e5805")
          (hex "e079a887e8b9a0686630493f1ee0acaf8bb92612b53e03f97fdf600fc8960b93aa405e7ef2c88e3592ef54033be8d6140d3f074999ca9efb64379252a3a7b4770e2f3753ff23a531e597bb670c6bef1074c9fdc04795e21cbf584a08a60d1a86299cbb1d537c35bf3bd692ceda0cd4fa07cb12c77afb06888c1b84cddea69f67ff0024b87c7bee6da74f38bc1c36d8337ccea77f7da06cddaa8467098a9edb7c3301cd0ae36fbef82982dbcd6b8701589f17040193d83380e3c824eab1dd28864fa1d12209ce29d8e811a3ce52299c2bfbafd2abca4bd76ccb69f075d835a21cfdc9b87d53dfcdbfca483bd0a36c991ad9c0fcabd451ec8e174b93da11587190") 4
  = (hex "04ed945a46ed91aa5826881e7fd922d49216cc2cd7f66d800053bc07c68c431079da2819b3eb21ebe7c712218b9321fb5e83b13f8016ca49d9eac2da594f7bab613fbae93a65a1c24d3dd507364d3e8396beeb8936899297567c9774a58c88f75b8e3f24a27b91e420bedd34ca36f7e823b25c5d3af14c125da9ecad6a836c4c2ec0939c6faad2d8080bc4db3712bb99014cd76658e8a742d5f7c6c202e5cd526ca0840b0da66b9999a4c78cc1e92bd00c74a149a7ed8d7742a98077fa6695e38c80f0df8f26d931aa74fbbce146a85acd8a3f0e475173cb95524f9eeb048de6ef698253617d6188f48f48f6922ecea3bc1578dce83d07045e70a3cbcd6a3f97",
     hex "396539c4").
Proof. vm_compute. split; reflexivity. Qed.

Example lib_gcm_50_key32_iv16_aad0_len1_tag8 :
  gcm_enc (hex "93c44a8b1e35180fde91380fda6b9d11057a58c171149ab7065ea07a4747a688")
          (hex "97e6dceef5a65b97c98aec8176b89058")
          (hex "")
          (hex "c6") 8
  = (hex "58",
     hex "297a84fbaee05de7")
  /\
  gcm_dec (hex "93c44a8b1e35180fde91380fda6b9d11057a58c171149ab7065ea07a4747a688")
          (hex "97e6dceef5a65b97c98aec8176b89058")
          (hex "")
          (hex "58") 8
  = (hex "c6",
     hex "297a84fbaee05de7").
Proof. vm_compute. split; reflexivity. Qed.

Example lib_gcm_51_key32_iv16_aad16_len17_tag12 :
  gcm_enc (hex "35f0c6845051c9dfe19aa46c90225b26ff24ce101e8db9bcdf365936f51c3521")
          (hex "0811e5dec403fb1c6a50e3469093d792")
          (hex "c1fdf41733aa28e4cfda84a860739e51")
          (hex "cef87d94a58720f8a7f393214f37765d3c") 12
  = (hex "36639c8f2206bd2b698440c89373b876fa",
     hex "588e0bba0afa3f9a6ec4e43b")
  /\
  gcm_dec (hex "35f0c6845051c9dfe19aa46c90225b26ff24ce101e8db9bcdf365936f51c3521")
          (hex "0811e5dec403fb1c6a50e3469093d792")
          (hex "c1fdf41733aa28e4cfda84a860739e51")
          (hex "36639c8f2206bd2b698440c89373b876fa") 12
  = (hex "cef87d94a58720f8a7f393214f37765d3c",
     hex "588e0bba0afa3f9a6ec4e43b").
Proof. vm_compute. split; reflexivity. Qed.

Example lib_gcm_52_key32_iv60_aad100_len0_tag8 :
  gcm_enc (hex "91b30b0cc485a4dafcac6ea221eabe2f41be61350379fdd24f55dec1519147f1")
          (hex "11dd3916a3d81406c4431bb9cc24c3affdaab6ae2588db3e4d05a7ae69510aa44aa045476e8d3618724954d5c549a347643516527dccc6ee867073fe")
          (hex "dece8f84dd8f49728d5a6e251af286306a59f2aee3b8b313a74adad1b049e156e18534080fbd73759ea331962ec32a51e756ffb48d29e4a379f702ead498a9e07e7e54723f3038650ded72b2586565302e154e351dbf4cb552b5281036739b2f45019497")
          (hex "") 8
  = (hex "",
     hex "88e6047dd3b94363")
  /\
  gcm_dec (hex "91b30b0cc485a4dafcac6ea221eabe2f41be61350379fdd24f55dec1519147f1")
          (hex "11dd3916a3d81406c4431bb9cc24c3affdaab6ae2588db3e4d05a7ae69510aa44aa045476e8d3618724954d5c549a347643516527dccc6ee867073fe")
          (hex "dece8f84dd8f49728d5a6e251af286306a59f2aee3b8b313a74adad1b049e156e18534080fbd73759ea331962ec32a51e756ffb48d29e4a379f702ead498a9e07e7e54723f3038650ded72b2586565302e154e351dbf4cb552b5281036739b2f45019497")
          (hex "") 8
  = (hex "",
     hex "88e6047dd3b94363").
Proof. vm_compute. split; reflexivity. Qed.

Example lib_gcm_53_key32_iv60_aad1_len16_tag12 :
  gcm_enc (hex "2e9723e424f9189ea51b3daabde037ac34490052818c5ed440e1e08fceceffec")
          (hex "278503c0e4b2dbf5856541bed4fb95fbe63633da1b360ab21ab5b908777a943e41ef8f537e625f1a44b63f16ea990d1747cf3f36bae3da3a06423938")
          (hex "57")
          (hex "41c18849ef5932d94b4ba1baf1734569") 12
  = (hex "46ef60026ff0cf72b09adad917a3a72c",
     hex "7d461e9f2c0f9b16af08a413")
  /\
  gcm_dec (hex "2e9723e424f9189ea51b3daabde037ac34490052818c5ed440e1e08fceceffec")
          (hex "278503c0e4b2dbf5856541bed4fb95fbe63633da1b360ab21ab5b908777a943e41ef8f537e625f1a44b63f16ea990d1747cf3f36bae3da3a06423938")
          (hex "57")
          (hex "46ef60026ff0cf72b09adad917a3a72c") 12
  = (hex "41c18849ef5932d94b4ba1baf1734569",
     hex "7d461e9f2c0f9b16af08a413").
Proof. vm_compute. split; reflexivity. Qed.

Example lib_gcm_54_key32_iv60_aad17_len255_tag16 :
  gcm_enc (hex "d016abf0a10f53c34201d441ea093c71cef751146f936b6e244bd28069f7dcf5")
          (hex "f28c3484fd30863b202614bcc080f02a9b20de0739c42f8d0b9cbef4c2461182bcd8cf11bf4514be090bde56010a2e404b95677ce2827889f4d02229")
          (hex "bb29a3e5a88f8107c4cab597d1b701e27c")
          (hex "b85d029baf51e471183aa903063018d3a4836f85ff87b3ed682abb935bf76fb5be62d9663e951612e1b9afee7628f9dbb1c55920d77388cd995ab30f6adb64e98446878f3cb4ff0a98cdd12ba2dea8fc11b5310979cc742d77029fd92446fb2ee72ebef1e20ad9eb71579340d9d20b931adbb01967e506b173e4f20dde4e42fb0f49db10ba79f705ac6bfb63680e654ee0673208d5ec5dc536a454df9fd51a8c36b2e5abca81c3b3880cab10dc003f987cd5a9830fba0d97708894bfe5565e92f450222d53e5d86ab1fbb30135e9062cd317a286940203633b8b74f54cbed24c1f2eefbbc414a296772a7cadebd3ffc36624a799a41ddd17d7ed45356c90f3") 16
  = (hex "f176f15d475591dc4a47019d72978e2d57513d4ad3502d11323374f4a0631333c9b3494e8cb53fa73f5abeb8fb9d7b73f4aca64e621d3508375d33f21395d8282e6e568e508b5cb5ec00286729edc9ffeba809a84e403580b65e814aeeaaa3db3150b35e4f2e8567850cd17a211a3acd89582379e23dc856ed9682b01b93975eea24b01943b45a277e86ec89c990a858589fd234d09f6a121010134ee75ec9ce7cebb12f6ea79e0f3dc40d103479d24429d3491aa33a7b457c4ccf8bdf8ba2c5f92fc41e058cdca7b2557fc196840c2b6ef0970aa1d7033af7b155e92c67a08807da0b86195dedb2f12b1df4c2791e2994020438ed0b634a7c0d05f238344e",
     hex "4d31ec9607f8fd6ae94191d2d073e8e0")
  /\
  gcm_dec (hex "d016abf0a10f53c34201d441ea093c71cef751146f936b6e244bd28069f7dcf5")
          (hex "f28c3484fd30863b202614bcc080f02a9b20de0739c42f8d0b9cbef4c2461182bcd8cf11bf4514be090bde56010a2e404b95677ce2827889f4d02229")
          (hex "bb29a3e5a88f8107c4cab597d1b701e27c")
          (hex "f176f15d475591dc4a47019d72978e2d57513d4ad3502d11323374f4a0631333c9b3494e8cb53fa73f5abeb8fb9d7b73f4aca64e621d3508375d33f21395d8282e6e568e508b5cb5ec00286729edc9ffeba809a84e403580b65e814aeeaaa3db3150b35e4f2e8567850cd17a211a3acd89582379e23dc856ed9682b01b93975eea24b01943b45a277e86ec89c990a858589fd234d09f6a121010134ee75ec9ce7cebb12f6ea79e0f3dc40d103479d24429d3491aa33a7b457c4ccf8bdf8ba2c5f92fc41e058cdca7b2557fc196840c2b6ef0970aa1d7033af7b155e92c67a08807da0b86195dedb2f12b1df4c2791e2994020438ed0b634a7c0d05f238344e") 16
  = (hex "b85d029baf51e471183aa903063018d3a4836f85ff87b3ed682abb935bf76fb5be62d9663e951612e1b9afee7628f9dbb1c55920d77388cd995ab30f6adb64e98446878f3cb4ff0a98cdd12ba2dea8fc11b5310979cc742d77029fd92446fb2ee72ebef1e20ad9eb71579340d9d20b931adbb01967e506b173e4f20dde4e42fb0f49db10ba79f705ac6bfb63680e654ee0673208d5ec5dc536a454df9fd51a8c36b2e5abca81c3b3880cab10dc003f987cd5a9830fba0d97708894bfe5565e92f450222d53e5d86ab1fbb30135e9062cd317a286940203633b8b74f54cbed24c1f2eefbbc414a296772a7cadebd3ffc36624a799a41ddd17d7ed45356c90f3",
     hex "4d31ec9607f8fd6ae94191d2d073e8e0").
Proof. vm_compute. split; reflexivity. Qed.

(* 32-bit counter wrap-around inside the message (crafted 16-byte IVs, zero key) *)

Example lib_gcm_ctrwrap_1 :
  gcm_enc (hex "00000000000000000000000000000000")
          (hex "431ea78f77875da7d000fd3515cab5d5")
          (hex "01020304")
          (hex "7d556bc86d9a9c82edc1cd6969986c34787fd0c073e7260c564894e02f9ac4ed41") 16
  = (hex "539f65e35dc8d91b88b1bd4fd85a41bbd9ed60b3e37f3bd1a7b2dbea41f69e4ce3",
     hex "cf1a40a72e3f54d077da176b41bbf0fd").
Proof. vm_compute. reflexivity. Qed.

Example lib_gcm_ctrwrap_3 :
  gcm_enc (hex "00000000000000000000000000000000")
          (hex "431ea78f77875da7d000fd3515cab5d5")
          (hex "01020304")
          (hex "f3ded05e6f214442be06d8e66cbeb3fe07b842b791fd4823bdee93b036dd38e73284772d83e535335575ac537be75f419b15c5351810ebaab376fada0fed9ba9db677896bf3b09ade8ba41673983d991e133ca7d9ebb12f2d3b043c096d79782d437ff01e935130d2f64040996a61c81202a8d43dd555726a69eb7a70b7df5f18991b18a9e66e7d0fe734606c31cdad8ce0f9e16a040097f47f80bf361b666ee0b7be5aaa9cdbc35ffd452500c1c5c8ca3276e5ffcd8e849d2ca3ae73b93707726a99b092319e49b7779c84bd37e00bb1362794c5774abcf137c0d522d52213ebf6638464e078c8dce75069b423daf88adc3be9c3c3abd43a03729d1b959a9c550") 16
  = (hex "dd14de755f7301dbdb76a8c0dd7c9e71a62af2c4016555fe4c14dcba58b1624690620567de1fd407ebab857d0534373daf094272d460dd504fa7332fd6aca265981497339edc7a809620c9a63200f386ef2f48e30096e9563efc675e04fe8fcb6e52cd1a04685ba086a6849cbe697d30849870cadbcd3b928e4a3656d6914a5aa16dcc6bdbf6999f791a60f7610416a6c5409eca5934ffefe6acd7fa593ddb452008e317c89564ab4eca3b44a5ac425ba70bd5145be6ef0865cdc9dca5cca2c7664f2ed4202559e982361c0e2673936ca4cb0d7dc343ca84cac8c9d6f8b24704dd898022b4c0b298c081d4afae32209d9d59097a3056d68fa60eb20e23bf4a918d",
     hex "05c32e14c2d4445c58c9cb12234bc1aa").
Proof. vm_compute. reflexivity. Qed.

Example lib_gcm_ctrwrap_6 :
  gcm_enc (hex "00000000000000000000000000000000")
          (hex "50529259833448f277373f1ec85c4891")
          (hex "01020304")
          (hex "95995b9486bc34fa5c2586ab7dbe31a869f59fc341fa538f8e4cdadad73868bd04") 16
  = (hex "87a544de75af997670c3ce199aa18749d99f20a2d8fa3ed5cf2c432b24269ae2bd",
     hex "92e539940d56006bbdf30d64be7f5596").
Proof. vm_compute. reflexivity. Qed.

Example lib_gcm_ctrwrap_8 :
  gcm_enc (hex "00000000000000000000000000000000")
          (hex "50529259833448f277373f1ec85c4891")
          (hex "01020304")
          (hex "349c59b49f3304cb6107d316580161d4a1651115010139d56c931c88d768f0c0e703f0b02292bab39caba068a92c075736ba185f21d48467d97ffa393bf02b7efde1f7f7c7caf7154bfc07f929ddb65e318d1934f1f0cb547a69160b119e2acb4ee57b8af84d6ad37e4240d07e6d5323ea0894a78eb614815059287547fd1ca279762ad518132a1445f75f580340448a8c6b74bbdd37049151a164816f60a90d51c08656b373e69642192fd7e1c2d3091f30415d509b3b8b86fe98ffd4926c324bd109ca31db923651db97a1a456066e37a57e58223a0aa1a166400a5705d724fe400fa681d2d2727593493980c03185ca8f041c5eeab343f74f0121024bcf87eb") 16
  = (hex "26a046fe6c20a9474de19ba4bf1ed735110fae749801548f2df385792476029f5e84765db18ddd6068d832d676becd0ee56a53db95919855683d6f3c4be549b398409162b3dd9448e66a7d9941c1b1913034f7df48139aa012f0718fc1a0f24672ddadb04ca94693de1443c0a733976981ac77510293d35bc8123de752e2b750effca7425d425de3df091e97e51b8c91aad57964dc8c982a2b6c7834b96564f8fefa51c7e1c79864e66dda40811251c8c777fe02cc4a764b4e57ac50cf04285d64c2396a8689d6eef8bf8b197093b617e9f21d69f16b49f17a03fa050da9e432a6ce6af2f9e7e08db7c8260a3a9e4eaefe50d177d604c3b332fe66e5f2a659fee6",
     hex "117171a73119fcc9717ee98dcfa2dcb7").
Proof. vm_compute. reflexivity. Qed.

Example lib_gcm_ctrwrap_11 :
  gcm_enc (hex "00000000000000000000000000000000")
          (hex "368ce383ec72180c47bcda84371b1532")
          (hex "01020304")
          (hex "de40767b64a2eec121925160ad512263d6c0cc15557974a87a0024fb699c69b48f") 16
  = (hex "3925f544d5664f787ba597a15c94ff0ab8bbd268c8b11e7474113e5a1d4bbcdc3b",
     hex "dcc7a2b249921ec915036e07b27e7744").
Proof. vm_compute. reflexivity. Qed.

Example lib_gcm_ctrwrap_13 :
  gcm_enc (hex "00000000000000000000000000000000")
          (hex "368ce383ec72180c47bcda84371b1532")
          (hex "01020304")
          (hex "aee12036e61d051189cd1c60161788b879fc5070e6f28e3de929839eaf24019f036cf4f6099b61283fe20e71218bb48969a446a5c5b1d24d1845f0f69b597ea4154d8ff65a27a54171d28dc1812d28c5a5f4c59478f1815c341daf5aa941242d7ee8260b4445ad6b94fc34a11e3637452bb0c18bc7ec7db4fba47c2ad79a52b5f787fc4fe2edab55c21d227d625612ccff65f8296c5c225c3af926e4c471fb2db5b2828237a3e4a304c0253a426b0762036cc545ba9f628ce08c2569b002e518e6d1a15fc1f278b1dd0c7b494bf290eb38903f462b3285a3c5dde99d4f2ef3635fc75788bb93a2c58efe0c7f693c897d88c93657f1f00b641975eba220ae8a112d") 16
  = (hex "4984a30957d9a4a8d3fadaa1e7d255d117874e0d7b3ae4e1e738993fdbf3d4f7b766591bccc10027fc4578d5aae47d0303b3cb28688bcf4e410159cf6dc7bde292aa32e70b0d7f591895b97c4d6b34e6281fdeb10d65ce99ec5b8535f6a62fc99401448cec50ea0f1e3fa6002c278a8062df8db9372bc5f7db3d1d9eae7c7397bc80cb7fdf3d2fc5c410d2cdceff848d6eeef1c309bf3e019431cc9b19678cbd0ea1bf2b56448a6bee56f4893330fbee83ad7e4e191788f4a62a8429e79ad7a3561953cb42eb665d9cdb0f0faf5fb0f5f87cc2edf6028176cd14ea0c3a864f4badb072bcf76b499ab54ec1d3a374bafe0b0c258b4001c2c522b59751c1217a4169",
     hex "f5ad110ba4b6b9d0b7341ed461051ddd").
Proof. vm_compute. reflexivity. Qed.

(* ------------------------------------------------------------------ *)
(* IMB_AUTH_AES_GMAC_128/192/256 stand-alone jobs (cipher NULL).        *)
(* ------------------------------------------------------------------ *)

Example lib_gmac_1_key16_iv1_len0_tag4 :
  gmac (hex "0b02e536a14ed61ab049b856add63ffc")
       (hex "7d")
       (hex "") 4
  = hex "030629f0".
Proof. vm_compute. reflexivity. Qed.

Example lib_gmac_2_key16_iv1_len17_tag8 :
  gmac (hex "c1dc851907eaf8cad3535632a655cb9c")
       (hex "da")
       (hex "48e9d93ce3a905fe088e029bd80e0c4020") 8
  = hex "d93e1195d8e3400a".
Proof. vm_compute. reflexivity. Qed.

Example lib_gmac_3_key16_iv8_len1_tag8 :
  gmac (hex "33905a93cee357dab287515e9c6e834f")
       (hex "ed742f3b0fcdb8a7")
       (hex "bc") 8
  = hex "58f5e2eef97863fc".
Proof. vm_compute. reflexivity. Qed.

Example lib_gmac_4_key16_iv8_len20_tag12 :
  gmac (hex "5e6d9584e8af88f48204e8bd78eaa70e")
       (hex "5015ab465b29a1e3")
       (hex "023cc44475e46fcac6d692a0b1c46cfb09e2a4ea") 12
  = hex "182df8d3ba349fc1e7d497c5".
Proof. vm_compute. reflexivity. Qed.

Example lib_gmac_5_key16_iv12_len15_tag12 :
  gmac (hex "c499ca25a0e6f10b2ea360521ff9006a")
       (hex "995abea03ea1918f6a94c0a6")
       (hex "e441625e6e9722746610cb904222e2") 12
  = hex "6c903f81897d7af75e56860a".
Proof. vm_compute. reflexivity. Qed.

Example lib_gmac_6_key16_iv12_len100_tag16 :
  gmac (hex "474f1c6624f2de85d4c9dcb65845793c")
       (hex "7bfc98e67e6f9a1b7a1991b9")
       (hex "3c2ee551cc0242f6b98290cd745c51b9e7bfb05115f6164448d989f4f7003e207997e8b4f9a9f4fc87b17c3f1d2eb4fb2ce64e9979535b12fd0755143202fc0c6e0e252f93fb070e462d1e8384adbb10154b7dab9fe1221d92ff2e257063a7bbb33196c7") 16
  = hex "32257310de32154b7674e16278d95df0".
Proof. vm_compute. reflexivity. Qed.

Example lib_gmac_7_key16_iv13_len16_tag16 :
  gmac (hex "1013d83c389f11da07e32bf03e2f3efa")
       (hex "aefba2d58323129360e981dc10")
       (hex "2f9fc599941161dbe01c8557f3f43720") 16
  = hex "8565e50cb156d448a32c1bad147846c0".
Proof. vm_compute. reflexivity. Qed.

Example lib_gmac_8_key16_iv13_len257_tag4 :
  gmac (hex "7fbe91a9642d3b3da3c54a29d2b6debb")
       (hex "248f354019ed4fa0e9edd090e1")
       (hex "64a980dec11c00c38b4cfa1d6e3a6df2613ccb8b36a484c05a483e59f13234ccf326e51fd1f861cf1ea940c3233d38de59c0d9b6e1cb2d03ac74043fb3c46b45391058758ad459ffaea5290bcf3475d2da9456982b451fc6473aca93e8582fa528fbb00bbb2149bbbafcb08efb4d670ba260023d685f5c995211e7f8acc97e50506c529155992515338a6746f94eb7065b09913f5ee8bf53cf81ee2f9ba94a625a6231a237c2b676583db72e755b4a9d26fc3e51f86631420fb5cb5848d9e0865e8af939fc7ba9446649838c1c29edc3524d2f15a38575fc5c628863e112e62072c504602c6434d75fdbbb41c75d7128e6c4eb784e60ab80e2516b77c08669a9f1") 4
  = hex "6d3ce2e2".
Proof. vm_compute. reflexivity. Qed.

Example lib_gmac_9_key16_iv16_len17_tag4 :
  gmac (hex "7e393df6086ac57d988a105649eb8637")
       (hex "837c2765c039ce1298b6b86633430ef7")
       (hex "397fa4ebe79b193934a4ba8b2dcb6b2097") 4
  = hex "c82a8f52".
Proof. vm_compute. reflexivity. Qed.

Example lib_gmac_10_key16_iv16_len0_tag8 :
  gmac (hex "c013664623a90314a18e9c410115bc5a")
       (hex "ad7529091477502491497bcb8ab3dba4")
       (hex "") 8
  = hex "1a80f28bd29d6ac8".
Proof. vm_compute. reflexivity. Qed.

Example lib_gmac_11_key16_iv60_len20_tag8 :
  gmac (hex "014730205ad57128735ec3cde19b9501")
       (hex "035b01d4dae91c04dd246fa94c11b38dba6400e4344177b8029fe2a0585ba11f3af37df0a8f63f61fe92189bcbe9b257538453b9535a86649200d935")
       (hex "710710d488f1e5c7dc0cb270ccd6b66304c324c9") 8
  = hex "d8b8bdf838aae0fc".
Proof. vm_compute. reflexivity. Qed.

Example lib_gmac_12_key16_iv60_len1_tag12 :
  gmac (hex "3b5b3d0fe03f83b18dff84b92debf666")
       (hex "7db80a0d020b44b27b0e667c283af5b06562c77c47ab2f6e842c73f9c9dc187e6089f7d64fdde10f05d0e4e1c9b5b3ca4f1f714f96171563719a1d50")
       (hex "5a") 12
  = hex "82e7d827ddd867bd6be6afd4".
Proof. vm_compute. reflexivity. Qed.

Example lib_gmac_13_key24_iv1_len100_tag12 :
  gmac (hex "cfee8a1944f32e1b29bee17a4fb77c7a42b1a61b7bf3de91")
       (hex "0d")
       (hex "c67060b7634a59cfaedbc60dbd81582dfcb36b3a1e7b60f7802a4b5391ddc29b0656b8f3ba85811245e156719edb90c3900fdcd01a5be1bbfc987d858c05e5eed617bfa10f25717d258f3935b693f182c84b5be3d6f2c642875f49e186bc400f4a912b41") 12
  = hex "ae19bb7ada9c43d24f5bde15".
Proof. vm_compute. reflexivity. Qed.

Example lib_gmac_14_key24_iv1_len15_tag16 :
  gmac (hex "a00bec279a007703044fb4efb185fde72502529d23b16294")
       (hex "bf")
       (hex "9cc584a2a44bc265f78376b43fcbb3") 16
  = hex "6ddcdd549a368ad12ee85476903c632c".
Proof. vm_compute. reflexivity. Qed.

Example lib_gmac_15_key24_iv8_len257_tag16 :
  gmac (hex "2aad093f457e78d17a7c7aaa2017d44c5ce9ae53113876e0")
       (hex "c6d44dc65e216457")
       (hex "f68eaf4a739ef594ea582f175f37017a9c514496846801bff8cf3cf09d27299ade23c6b269dd99845fc9074b233fb3c31be6044441a6900bc305b8420e2dfdbe57cb4d16ac779086d5d03bea641b8e5e3aeac771ae5604cfa3a300f80514cc100e099e62b4a72c9fa1e1005da4388823979c7181adece83bcd263433a0b907c542cf43902648ea41a5c389df16ae5e5881d38c3a61a3a593ae8a465c56e33e0df2e8e8c4ecefb696142ea653da0bab60887707124bfe6f4f152b7227e25865016826f94d14b7eb264ef6a02128605648d1fc806236a1807f74c99e7b7be88b719557c51f7800abb261955e947a0582da648401914951f1eaae17fb7fcc7667836b") 16
  = hex "b38a321e120ca7685234003961bd1b38".
Proof. vm_compute. reflexivity. Qed.

Example lib_gmac_16_key24_iv8_len16_tag4 :
  gmac (hex "664acc56c024b97e97c5ca8d4aab3596a1472c45158c95cf")
       (hex "46dc4f4bb9876e06")
       (hex "3d5b5e33e71db21cedf58e02395687c5") 4
  = hex "7de42fdf".
Proof. vm_compute. reflexivity. Qed.

Example lib_gmac_17_key24_iv12_len0_tag4 :
  gmac (hex "6275027175181aadbb74b4137ca15c8c79a6a2573f729361")
       (hex "f654223304fbd0e49e7a42c0")
       (hex "") 4
  = hex "bfbbc2a5".
Proof. vm_compute. reflexivity. Qed.

Example lib_gmac_18_key24_iv12_len17_tag8 :
  gmac (hex "19d1099e5c2c127bd2c5f296e378e0369323b1fc531cfcd9")
       (hex "db7466ef8b1692c16777e634")
       (hex "a3a82f830ccfeb5da2b714bbd456839be8") 8
  = hex "79697d6ddf1467c5".
Proof. vm_compute. reflexivity. Qed.

Example lib_gmac_19_key24_iv13_len1_tag8 :
  gmac (hex "c48c6a703ae06d4361f6b3819ace933313b7d14eeea20cc4")
       (hex "c30135376d36a4b33a787fa6ad")
       (hex "d9") 8
  = hex "0eb35b98b26bcdfb".
Proof. vm_compute. reflexivity. Qed.

Example lib_gmac_20_key24_iv13_len20_tag12 :
  gmac (hex "91377ac5c09c2febf67efc0f6cc6b772e74668dc44518b73")
       (hex "edd24020a86e4b74100da4393b")
       (hex "88b84836085014965ac958eccf6b3307269e27a6") 12
  = hex "a6d9280c6b25beb16256a268".
Proof. vm_compute. reflexivity. Qed.

Example lib_gmac_21_key24_iv16_len15_tag12 :
  gmac (hex "1a1863af108f80f680d3bee1d2e1ef322b2b067d804020ce")
       (hex "58dcce2e1a8c47113b97a5d8ace67223")
       (hex "0d4c1a0233587907b7c5d631464f18") 12
  = hex "18cb912b3eb9f88137dea0a1".
Proof. vm_compute. reflexivity. Qed.

Example lib_gmac_22_key24_iv16_len100_tag16 :
  gmac (hex "41888825fe94ca558a06af2110d28d651b62000c0e5861f1")
       (hex "9fa9bf5eb4c47473917cf544d0f23dd5")
       (hex "675e789838c25065e4055e9185dc14bf121956837cc3fe69c14d2e6612592e99139fb396a210f0c0c41cf763a36b75421db346f41e52e392dacde9a66f5d10dfce9e62c64162c8506a8547afd4d1836b846d23e72924140502cddb00e8f3413b307fe3f4") 16
  = hex "d0f9022233d20573671965e8585de57e".
Proof. vm_compute. reflexivity. Qed.

Example lib_gmac_23_key24_iv60_len16_tag16 :
  gmac (hex "a81594ecb7273432a2e7f94987d77f192f0d2af64371ccfe")
       (hex "75095e6370007b738700c08a9b2995c3ff9c99a57c5ba7aafb8d9a526ec2f6a2368714e5f195e280bf5eaeb9ea5c5d10f0fb24d06759a7a469ecf602")
       (hex "374010fed10dbb425d23b1daae7fd215") 16
  = hex "ac09016934241d4ab2929c69efd60bbc".
Proof. vm_compute. reflexivity. Qed.

Example lib_gmac_24_key24_iv60_len257_tag4 :
  gmac (hex "764125c10f84a1bb060061a51998a5c9cf0dd10a2736abf9")
       (hex "cc84e1f4be93c818388bbe0c31d80140ce5d90699aad1ebf289dbc695dd365ffd7b75ae5f6012482f5ffc8e1352af515bc30731aa5c285d52451a420")
       (hex "7d666863f0ced96d0f12921d622a78e0b5b08f0f1338c05e4b261eeb0a7ec88f10ddcd5873369ef5d9f173da662aa5a98154125d76a157f070f3516cbedd103e5d2dd9a900cbfb347724774df68673efcc18c73f3e075aeb6dd1c964deb23b544e2372776dd1a04fd412a2322a1c3feabee9a3492b0733210386b89605f8860413c956566f3a0d29e7a13c6dd46739890f589e1cb8de1f539fe525356fbe81077951cfd873ab423cb8202ee91e3af0ad201fbe3efe9e25847cd808f6948a58f76f4384f9b24dba107e45013e0dab0475a3e8fb9eeab6dfbfc255ee3b888ea8b50252a3299178d3c13968a86c03c09db22db2157fadaa12f0a395a97acfac46d170") 4
  = hex "70dc017c".
Proof. vm_compute. reflexivity. Qed.

Example lib_gmac_25_key32_iv1_len17_tag4 :
  gmac (hex "e97f0fb3e5ecc666d8d366810b4f24d41e3716ed277ee506b4597bcf7a6d3815")
       (hex "63")
       (hex "6da8f54a108ae7f895eb9024fd6d8d7bee") 4
  = hex "ce8f3fe2".
Proof. vm_compute. reflexivity. Qed.

Example lib_gmac_26_key32_iv1_len0_tag8 :
  gmac (hex "14281c490118430aa635409ab7f4a42986ad8e9765e933c7d2211096515b1764")
       (hex "3d")
       (hex "") 8
  = hex "8b646672979ea05f".
Proof. vm_compute. reflexivity. Qed.

Example lib_gmac_27_key32_iv8_len20_tag8 :
  gmac (hex "570b89cff708146ca7862974542947ceb2c2819d4e4308db299afe13789562b1")
       (hex "032ce46d158f8b0c")
       (hex "099020e0b3934881d3857b296c90f3621b62dae4") 8
  = hex "8a58fdcfddac545d".
Proof. vm_compute. reflexivity. Qed.

Example lib_gmac_28_key32_iv8_len1_tag12 :
  gmac (hex "527174b88b7a6781040fbc1cf1165897bc560420e216c0ece2a64240fb4aa0c4")
       (hex "1934a8f501bd33f7")
       (hex "ed") 12
  = hex "c954b0799cc37243176b3035".
Proof. vm_compute. reflexivity. Qed.

Example lib_gmac_29_key32_iv12_len100_tag12 :
  gmac (hex "09126521fae5aeb0be2264a95fc0be0af05673b8f6cf7e5a0a551f1d11755881")
       (hex "64e8df1ff24e92a8069588ec")
       (hex "564266679f9098348a14c843ccd35a48d601e47267a2d09781e219d06a789a31f6bded318da2b83a797c7744fea902d3e91992b155c1e6c34d5b1c2fdedb3d96334e7f4f7436710953a002968a6b7b7a2bcaa65da5ed4fff93d061d365e416584ff4cfd1") 12
  = hex "6c9c642d0d85d9d04c9c71ae".
Proof. vm_compute. reflexivity. Qed.

Example lib_gmac_30_key32_iv12_len15_tag16 :
  gmac (hex "f503ae1aceedcc23d40f4f2fae72dee1bb6c550e8f51b742908989e31902aaf7")
       (hex "eeba659c92a766f42e721237")
       (hex "93e1df4df645b7f9255b35a44b7bd9") 16
  = hex "25388ea27ae1fb6b5a8161fe47b8ed8a".
Proof. vm_compute. reflexivity. Qed.

Example lib_gmac_31_key32_iv13_len257_tag16 :
  gmac (hex "bd73c29d5b2f4c9f2780cd4ca3a1fbbf92c581a74edadfa746ccd1ae6a0eec92")
       (hex "11c6d1677fb47026fabc3db4b2")
       (hex "4ead52e07d461bd7a75f1b3062ffdc377ce8fa398ed55a0c6145e21c6ffb5f0dd7d9b9522f68e77af79d0c2ba12594d7856717da1c393fe35f3cb81f1a13a3d37c975f28376b43de2c3b8610b981d2084b5b6c583bf43c350f45956aa869977f0648eb6f81c8654ac20ea2617819beb61d57d91766878612fe65f480dcf92309f747a22e7553314760f086c1d738cb10f5bfdace724734099239a0f8473397535dcb9eb23d7dfe9650f660f7fcf1a8aa95908e8a996de176495c6ccc9390d78584f00e688ba86f9e1b2f090517babfd3f0141140d7eed8a3e71837af2a6cedf2ff7e35d48d2387433ecf122b568f7f3c5275ab72e72624a56a37732ebbd1fb9c0b") 16
  = hex "679b48f2dbab75107e254b17fd4ca7d5".
Proof. vm_compute. reflexivity. Qed.

Example lib_gmac_32_key32_iv13_len16_tag4 :
  gmac (hex "e30f9e10b5ddcccdbf788164a1fade6fbda4b6464f38a8c096f174d23ce83c47")
       (hex "ba6caa0875ca9bb79a27e8bcf2")
       (hex "57be343863476829625888841b79602a") 4
  = hex "8b26c47b".
Proof. vm_compute. reflexivity. Qed.

Example lib_gmac_33_key32_iv16_len0_tag4 :
  gmac (hex "66eaf58dd9aeac53af2b45f38ad06be89690d984b0cd8cf7c938239345416cf0")
       (hex "17110f68bd8c06ad4606f14cb1ea53f6")
       (hex "") 4
  = hex "e85a0652".
Proof. vm_compute. reflexivity. Qed.

Example lib_gmac_34_key32_iv16_len17_tag8 :
  gmac (hex "269e1eeb4207257faabd07dd93d26f4dfcc244591cbcf7dceee6b19f97781b29")
       (hex "d704730c98e7c62f1eca83e9332c9f2b")
       (hex "0584b98ea1ca3ef381493be5dca4e322b3") 8
  = hex "c32d90c6e6ddc064".
Proof. vm_compute. reflexivity. Qed.

Example lib_gmac_35_key32_iv60_len1_tag8 :
  gmac (hex "752f49dc7a2b30c5ba97ba919a90c84efe3d19e005a479eada2cc941d403e539")
       (hex "d05fe2c25ba1c20c80925563f749f8efcc3be1db3f1eed6141d59930eefad5d37fb58d5a515cb381bb9152dfeb625fb1c3d5031ce5d59bf6ebae5d28")
       (hex "3f") 8
  = hex "eb01d89d4f9af0e4".
Proof. vm_compute. reflexivity. Qed.

Example lib_gmac_36_key32_iv60_len20_tag12 :
  gmac (hex "efb09f02c9281340c83a5bec0f9764dc8048541b6bd54d13fe4dc06ff36a18fc")
       (hex "533c808efe481aaedde78173c0b2d836050c936e0a0593d31e19098bdbcdadb1f7efc0acd81432e2b8516298bb0fdd80dac64618a343d23bdeeecfe4")
       (hex "26821b7b2b8de8a8bcea7177cc7c4f6ecf5e2737") 12
  = hex "0681cb7df2fcea1ea0d76f80".
Proof. vm_compute. reflexivity. Qed.

(* ------------------------------------------------------------------ *)
(* IMB_AUTH_GHASH jobs.  Arguments: hash key, init_tag, the 16 bytes    *)
(* that were in auth_tag_output before the job, message, tag length.    *)
(* For tag length < 16 the result DEPENDS on the old content of          *)
(* auth_tag_output[taglen..15] (the library memcpy's only taglen bytes   *)
(* of init_tag and then loads a 16-byte block) -- these vectors fail if  *)
(* old_out is replaced by zeros or by init_tag.                          *)
(* Empty message: output = init_tag prefix, job status COMPLETED, while  *)
(* imb_get_errno reports IMB_ERR_AUTH_LEN (2030) from the direct API.    *)
(* ------------------------------------------------------------------ *)

Example lib_ghash_job_1_len0_tag16 :
  ghash_job (hex "0b02e536a14ed61ab049b856add63ffc") (hex "7d556bc86d9a9c82edc1cd6969986c34")
            (hex "787fd0c073e7260c564894e02f9ac4ed")
            (hex "") 16
  = hex "7d556bc86d9a9c82edc1cd6969986c34".
Proof. vm_compute. reflexivity. Qed.

Example lib_ghash_job_2_len0_tag16 :
  ghash_job (hex "bb85371ff65aebe97b77c3bb76f53906") (hex "53f3ded05e6f214442be06d8e66cbeb3")
            (hex "fe07b842b791fd4823bdee93b036dd38")
            (hex "") 16
  = hex "53f3ded05e6f214442be06d8e66cbeb3".
Proof. vm_compute. reflexivity. Qed.

Example lib_ghash_job_3_len0_tag12 :
  ghash_job (hex "91e133ca7d9ebb12f2d3b043c096d797") (hex "82d437ff01e935130d2f64040996a61c")
            (hex "81202a8d43dd555726a69eb7a70b7df5")
            (hex "") 12
  = hex "82d437ff01e935130d2f6404".
Proof. vm_compute. reflexivity. Qed.

Example lib_ghash_job_4_len0_tag12 :
  ghash_job (hex "f18991b18a9e66e7d0fe734606c31cda") (hex "d8ce0f9e16a040097f47f80bf361b666")
            (hex "ee0b7be5aaa9cdbc35ffd452500c1c5c")
            (hex "") 12
  = hex "d8ce0f9e16a040097f47f80b".
Proof. vm_compute. reflexivity. Qed.

Example lib_ghash_job_5_len0_tag8 :
  ghash_job (hex "8ca3276e5ffcd8e849d2ca3ae73b9370") (hex "7726a99b092319e49b7779c84bd37e00")
            (hex "bb1362794c5774abcf137c0d522d5221")
            (hex "") 8
  = hex "7726a99b092319e4".
Proof. vm_compute. reflexivity. Qed.

Example lib_ghash_job_6_len0_tag8 :
  ghash_job (hex "3ebf6638464e078c8dce75069b423daf") (hex "88adc3be9c3c3abd43a03729d1b959a9")
            (hex "c5506a4104ee85b933bf6533957d6054")
            (hex "") 8
  = hex "88adc3be9c3c3abd".
Proof. vm_compute. reflexivity. Qed.

Example lib_ghash_job_7_len0_tag4 :
  ghash_job (hex "930acb609ca8980aeadfa1f2eec83665") (hex "587ba8550e731be6e9bd3c57eb953d74")
            (hex "cbd9a8570358b90acf065b15c8dedb85")
            (hex "") 4
  = hex "587ba855".
Proof. vm_compute. reflexivity. Qed.

Example lib_ghash_job_8_len0_tag4 :
  ghash_job (hex "2764c1dc851907eaf8cad3535632a655") (hex "cb9cda48e9d93ce3a905fe088e029bd8")
            (hex "0e0c4020ed4a03667f3f6dd3f5a335bc")
            (hex "") 4
  = hex "cb9cda48".
Proof. vm_compute. reflexivity. Qed.

Example lib_ghash_job_9_len0_tag1 :
  ghash_job (hex "dac75cb9a6dbf9ade23e138e717bb11c") (hex "d7e272105ddc1273ea6906a1e7b3cca6")
            (hex "9b0ed4c7828e6a4826b5005d27df3ee4")
            (hex "") 1
  = hex "d7".
Proof. vm_compute. reflexivity. Qed.

Example lib_ghash_job_10_len0_tag1 :
  ghash_job (hex "de98b3c035f98e1d393d5c9421e9306a") (hex "2d1ae0832f92986ba8e51ca08f1a89d8")
            (hex "162429a8b33e810c171604ebac4d6d5b")
            (hex "") 1
  = hex "2d".
Proof. vm_compute. reflexivity. Qed.

Example lib_ghash_job_11_len1_tag16 :
  ghash_job (hex "9630d230dc7167c422e61a05eb6692c2") (hex "274ebdf2bfdae85f12bfabf08b530919")
            (hex "1a7e42d7a8c0a80a990f47cf5972ea09")
            (hex "d5") 16
  = hex "bb67ec8cf14141360e307841e81770cc".
Proof. vm_compute. reflexivity. Qed.

Example lib_ghash_job_12_len1_tag16 :
  ghash_job (hex "d8eb8c46db01bb856419bf0bffb110bd") (hex "a8fe026c3969976a86d03a622f41f333")
            (hex "8bd104269d6fbe147b2bc6fdabf0af7f")
            (hex "cf") 16
  = hex "660e73f9b50b287770d993d8523ddcac".
Proof. vm_compute. reflexivity. Qed.

Example lib_ghash_job_13_len1_tag12 :
  ghash_job (hex "9777e2c1a101af699f684301884f1fb7") (hex "2c84a8087eb494c80aaa049050fd2ccb")
            (hex "6fcb427ee42032e7dba54f2c20ae5f0f")
            (hex "df") 12
  = hex "1f15087cdfb53698bf3bfb49".
Proof. vm_compute. reflexivity. Qed.

Example lib_ghash_job_14_len1_tag8 :
  ghash_job (hex "fb2fc1c1e9f825ba9f2713f33e11f0ba") (hex "367f1e0ada722fe16b7171e695995b94")
            (hex "86bc34fa5c2586ab7dbe31a869f59fc3")
            (hex "41") 8
  = hex "2d3a7774b1ad4241".
Proof. vm_compute. reflexivity. Qed.

Example lib_ghash_job_15_len1_tag4 :
  ghash_job (hex "a1de931c6d503842cd0a485eafe5fefd") (hex "03a5c575065f7e14b1bf8f349c59b49f")
            (hex "3304cb6107d316580161d4a165111501")
            (hex "01") 4
  = hex "1a6dd158".
Proof. vm_compute. reflexivity. Qed.

Example lib_ghash_job_16_len1_tag1 :
  ghash_job (hex "154bfc07f929ddb65e318d1934f1f0cb") (hex "547a69160b119e2acb4ee57b8af84d6a")
            (hex "d37e4240d07e6d5323ea0894a78eb614")
            (hex "81") 1
  = hex "09".
Proof. vm_compute. reflexivity. Qed.

Example lib_ghash_job_17_len15_tag16 :
  ghash_job (hex "192fd7e1c2d3091f30415d509b3b8b86") (hex "fe98ffd4926c324bd109ca31db923651")
            (hex "db97a1a456066e37a57e58223a0aa1a1")
            (hex "66400a5705d724fe400fa681d2d272") 16
  = hex "178bedfa9944e17b9fbd6ee5f49ce2e6".
Proof. vm_compute. reflexivity. Qed.

Example lib_ghash_job_18_len15_tag16 :
  ghash_job (hex "537401f5b0dd232d7d24f627103aa52a") (hex "d910c753f1aa5bdefbb47f6184a02486")
            (hex "4e65401a7ffe4733181fde8a2b6a4849")
            (hex "8750e9a5a9ed545572fe6ea3bea5f9") 16
  = hex "f7d3728213dca5c100f97bb7ef7ace46".
Proof. vm_compute. reflexivity. Qed.

Example lib_ghash_job_19_len15_tag12 :
  ghash_job (hex "1178a835dac2399d950bf4f6c666bf43") (hex "a603e96e786e6b8fec43c8750ddce06c")
            (hex "5a85e0527d7f1a1d51b9200300422d9b")
            (hex "47cac056bf249de8f9e34e13d77c9a") 12
  = hex "851564b6466f1bee8c6930e1".
Proof. vm_compute. reflexivity. Qed.

Example lib_ghash_job_20_len15_tag8 :
  ghash_job (hex "a3576e7557ed10e0e0d9137e3e6d7523") (hex "03dd574904a35e54b9ec25268da8e470")
            (hex "9bbb38f8cf0e7f551fddf0a080cb15cb")
            (hex "e6f1ab706a67c249fa80596dfa7569") 8
  = hex "cad695535043be4a".
Proof. vm_compute. reflexivity. Qed.

Example lib_ghash_job_21_len15_tag4 :
  ghash_job (hex "6b555160a6336022236347512d5dd9ff") (hex "7399df28710b977e6c305a7e69fa2a77")
            (hex "2265c1c8f69c317a2658da936bd77bbb")
            (hex "2c161485e9e47598e82739c7226f76") 4
  = hex "317f6677".
Proof. vm_compute. reflexivity. Qed.

Example lib_ghash_job_22_len15_tag1 :
  ghash_job (hex "2263d6c0cc15557974a87a0024fb699c") (hex "69b48fc20317f5e2575058768e006f50")
            (hex "b9dba4ee294c3639aad73fc185b1d536")
            (hex "b70ca7008061b9edd367a91f4a0c76") 1
  = hex "e3".
Proof. vm_compute. reflexivity. Qed.

Example lib_ghash_job_23_len16_tag16 :
  ghash_job (hex "71218bb48969a446a5c5b1d24d1845f0") (hex "f69b597ea4154d8ff65a27a54171d28d")
            (hex "c1812d28c5a5f4c59478f1815c341daf")
            (hex "5aa941242d7ee8260b4445ad6b94fc34") 16
  = hex "3e7e35f9269a3af2733b05a2ddc10309".
Proof. vm_compute. reflexivity. Qed.

Example lib_ghash_job_24_len16_tag16 :
  ghash_job (hex "3a426b0762036cc545ba9f628ce08c25") (hex "69b002e518e6d1a15fc1f278b1dd0c7b")
            (hex "494bf290eb38903f462b3285a3c5dde9")
            (hex "9d4f2ef3635fc75788bb93a2c58efe0c") 16
  = hex "5039f3416d742f7a61fef4ef3cc143f4".
Proof. vm_compute. reflexivity. Qed.

Example lib_ghash_job_25_len16_tag12 :
  ghash_job (hex "55c1d04542bd5de91ec183abd82fad90") (hex "2c96789d01dfa9f8117a9f38ab9b6687")
            (hex "7c6c040c81777277021e76899ea103db")
            (hex "f92869f8c083eb483082ad03cd7191ff") 12
  = hex "aaf98f8324eaa6f0b3db6176".
Proof. vm_compute. reflexivity. Qed.

Example lib_ghash_job_26_len16_tag8 :
  ghash_job (hex "208bda5b045263890e903ac261c9bc4a") (hex "6b49dea1a7d808ea8d358dbd14e71a3d")
            (hex "b5e0e5e76e03e014aec02ac5c5d77019")
            (hex "e42b3e008971cbcebd8c84d601fbd503") 8
  = hex "a89d2d7b359ec0fe".
Proof. vm_compute. reflexivity. Qed.

Example lib_ghash_job_27_len16_tag4 :
  ghash_job (hex "74a1d57f2f7930b7f767ddcd3c01b2b3") (hex "22a13580ac27a6fbf4f9fa344fee5816")
            (hex "075b6d669c82062cb018e54101ba0a51")
            (hex "3cd713687615de05a39fc8deb0dc91ec") 4
  = hex "d504d9b3".
Proof. vm_compute. reflexivity. Qed.

Example lib_ghash_job_28_len16_tag1 :
  ghash_job (hex "0a6322b60e6664c31e17e833323679ef") (hex "da492e226408faa834c89631e5b530e7")
            (hex "a17163d00b0be448d268094cfb6f4567")
            (hex "213dac82b924c12f49d5e699f31e7dfb") 1
  = hex "c6".
Proof. vm_compute. reflexivity. Qed.

Example lib_ghash_job_29_len17_tag16 :
  ghash_job (hex "4c03d9345639c32d4851c82bfc888da3") (hex "02e590b9d9b89f6771ea18ace6f51ca6")
            (hex "67bb160f5c04d9339e4f99a953881cf0")
            (hex "6afee3337e031f947f4e9cc141fa938062") 16
  = hex "88ab6f1fc12dc6c7c852776bfbc9a86b".
Proof. vm_compute. reflexivity. Qed.

Example lib_ghash_job_30_len17_tag16 :
  ghash_job (hex "91194be3a58f9634f957918b99e15db4") (hex "0bb0df34a672799f2263f24b3ad09c78")
            (hex "7027a75e2933596ec12f6796e97f62dc")
            (hex "77162b739e8c17cb70e67b2f48936ec477") 16
  = hex "6e54642985e343c7523e4ed24d0ce1ea".
Proof. vm_compute. reflexivity. Qed.

Example lib_ghash_job_31_len17_tag12 :
  ghash_job (hex "b9d5a409ecd845100b9860b4edaa4b39") (hex "db025854d797855a504a67b76a4d748b")
            (hex "92f2a3122965b998c157f88254f1aef6")
            (hex "c867d93c05e5d212cce3fcb1ed68fcb15e") 12
  = hex "38dd604828741d47def02634".
Proof. vm_compute. reflexivity. Qed.

Example lib_ghash_job_32_len17_tag12 :
  ghash_job (hex "6d9584e8af88f48204e8bd78eaa70e50") (hex "15ab465b29a1e3023cc44475e46fcac6")
            (hex "d692a0b1c46cfb09e2a4ea355ab65b8d")
            (hex "abffaa608736e44485e9f0b20fe8b970eb") 12
  = hex "0c8452174276a8c9f1a099cb".
Proof. vm_compute. reflexivity. Qed.

Example lib_ghash_job_33_len17_tag8 :
  ghash_job (hex "02d8f1907995d3e007881b39df18d447") (hex "906850ed37decbffb29597b561e76441")
            (hex "385f8f9da21efffb865b67add3352593")
            (hex "8a7bf50c0623b53c0683a57209cd045e84") 8
  = hex "10d3a6effc0e9252".
Proof. vm_compute. reflexivity. Qed.

Example lib_ghash_job_34_len17_tag8 :
  ghash_job (hex "0e5e49657a4ce7c15faf0c7568627066") (hex "8de22aabb5f62f29e47624ff063684e7")
            (hex "87d2694e2bae6d577dc92795eab13d94")
            (hex "33509efec200a8cca372779b615da3325e") 8
  = hex "ec96317dfff713e2".
Proof. vm_compute. reflexivity. Qed.

Example lib_ghash_job_35_len17_tag4 :
  ghash_job (hex "374ebbb3008e1ca67cd8dccad35a558d") (hex "61f3af8d2981ba1946261102908f6999")
            (hex "3d4e15f6c4cb16fa603e528113e79ed3")
            (hex "bd6132a87ead95336110d79d0c3655a6cb") 4
  = hex "248b126e".
Proof. vm_compute. reflexivity. Qed.

Example lib_ghash_job_36_len17_tag4 :
  ghash_job (hex "c63d596bfb834e67d6ebff81b21f3368") (hex "06a6050eb5d13f0786ca172d634b0424")
            (hex "125028b7096650ef0f3ecb05c6fb6d6f")
            (hex "022550ace0cd0459af9391c1c4a65ea6e1") 4
  = hex "6aeee7d3".
Proof. vm_compute. reflexivity. Qed.

Example lib_ghash_job_37_len17_tag1 :
  ghash_job (hex "e1a15cebf56a0833931535389e796b91") (hex "7143a7b09de480c7c60e8c4125496a4c")
            (hex "2dd635b0492712b9f4ca1066869a439a")
            (hex "f1bf02c40a8db98ad7853d1e058cf5b635") 1
  = hex "ba".
Proof. vm_compute. reflexivity. Qed.

Example lib_ghash_job_38_len17_tag1 :
  ghash_job (hex "288943aff94c24f260dced001e9b5719") (hex "1d801588ca3143911feb15dc96ea22ef")
            (hex "9e27e772b5d1e4ed41bc9b35dcb26633")
            (hex "754146714d7d7f467c8cd54cd06127cff2") 1
  = hex "c4".
Proof. vm_compute. reflexivity. Qed.

Example lib_ghash_job_39_len32_tag16 :
  ghash_job (hex "c501f1cd48ecd44665d9c721894505d7") (hex "5fb2bcff5d70781f3fa0fc02d120f176")
            (hex "479dacbe4bb786aff68e7c3e17c1c1f2")
            (hex "19cd6e2c7c398ba0cccf41347e5416b773eac2b3a48aba918009fc21a6968f8e") 16
  = hex "f19361203c5a149a81d4bec8fb11d9cd".
Proof. vm_compute. reflexivity. Qed.

Example lib_ghash_job_40_len32_tag16 :
  ghash_job (hex "2b441c3f8cba5d6ea17b9ae133ac51b7") (hex "94cbc39e9b88868e9fa05886bafb4d59")
            (hex "97289cc5a9ac0d94108c6d4e67da1b36")
            (hex "a587161f1981fb6dde6437082163fe1e5747e6ef536fbfefc35d06027aed5a59") 16
  = hex "b1b7874411ffd9c0e604fb75faf3b9c7".
Proof. vm_compute. reflexivity. Qed.

Example lib_ghash_job_41_len32_tag12 :
  ghash_job (hex "d11dc6f0baa5932dc6f044ff40352344") (hex "59edd0599800c58c240d7eb7188f516b")
            (hex "e0ab46bf98fb272ca714e4b942fcbf29")
            (hex "3d6f51c042199b334d38843b4997c3aea32fa19dad2a5cabc39035c6e27622b1") 12
  = hex "9b00b6ac272ba98a905302b2".
Proof. vm_compute. reflexivity. Qed.

Example lib_ghash_job_42_len32_tag8 :
  ghash_job (hex "dad6dbd8248978b19a4c827c2916b860") (hex "85add59ec1b31bf7c0a5f6dbc28c247e")
            (hex "bf2135dadb8d581fccebe3d9f43ee2ed")
            (hex "9156994af7ae42ace9de426ef148a839061976f276ce13e7591029d189bf4ad2") 8
  = hex "066845804002e81f".
Proof. vm_compute. reflexivity. Qed.

Example lib_ghash_job_43_len32_tag4 :
  ghash_job (hex "3edba2d9c399cd47abb1ceda01e034be") (hex "9d78c357fa7633c97321a9f3d7d8763a")
            (hex "e1a4a54e498a0a217ce400f16ff89708")
            (hex "0e1722ac7dda8ad361787ebb573afc50d32a8fbeceb8b7cfa10a1128a312c1a3") 4
  = hex "b8ac89e3".
Proof. vm_compute. reflexivity. Qed.

Example lib_ghash_job_44_len32_tag1 :
  ghash_job (hex "1087a7df1988c0b9df3e39e4004a3723") (hex "21cdd34c5cddac53180d0f055a493421")
            (hex "fc9ea9dee746d1298cf3c27a27585820")
            (hex "4fe10284cdf984c9573d1096aec4756eb5d53512439eb535f925bcae640217a7") 1
  = hex "cc".
Proof. vm_compute. reflexivity. Qed.

Example lib_ghash_job_45_len33_tag16 :
  ghash_job (hex "3bd06c6116753902b741f6bc525e80da") (hex "7107a36c4fe807021decd1b251a6a8cc")
            (hex "19363b1ce1cf4bf6d4cac13070e9cede")
            (hex "874c1e8bcbaf3ddc5c1024634edc998f57ff9142748567a3aed32fd192828b925d") 16
  = hex "27a85cc7eb27a0c8a7c8082c592c5420".
Proof. vm_compute. reflexivity. Qed.

Example lib_ghash_job_46_len33_tag16 :
  ghash_job (hex "30d3a04089727e6d01bb3451b623f3b1") (hex "b6175a9b1891786008ee4f4ce99b4277")
            (hex "5b1e66ecf72b555bf68e9d5e1559c856")
            (hex "bc41a50cea8f9c9c1efba27d2f6d6865872149f389de96c99e1310dfbc79950b62") 16
  = hex "f5ea8cef7c24572ec8a799b7f73313b9".
Proof. vm_compute. reflexivity. Qed.

Example lib_ghash_job_47_len33_tag12 :
  ghash_job (hex "05f433b88d636e406792742c0ff71555") (hex "36d35440aa0bfee054c749c8df5b8cd4")
            (hex "7e7cf086ecf0c4c1b5678823ad2dd29a")
            (hex "492103687fdac4b645086d0be3e03e987c9c8e425d69e4b29efed4ea99c93b70ac") 12
  = hex "86fb572648b23c109dcf8b9f".
Proof. vm_compute. reflexivity. Qed.

Example lib_ghash_job_48_len33_tag8 :
  ghash_job (hex "7fd8866d6e7138ae81749cd74f2ac4d2") (hex "bad9733c23da8400ee9c282cbb5c4c76")
            (hex "3a2e31c36f7debc82fd05f2c6aefb847")
            (hex "1f44867e5d132e093347513cf2896aba8649239ab83d6887b93314e6fcd90a935c") 8
  = hex "2ca0b238bd867cab".
Proof. vm_compute. reflexivity. Qed.

Example lib_ghash_job_49_len33_tag4 :
  ghash_job (hex "e280db171cc915bd0c04bf6066388c7d") (hex "7cb9b09a296ffad176e4d03a6940d97e")
            (hex "ef43f3b9768d7dfbc65aefab8fa96854")
            (hex "778cbe9cad31cf74c929ffa212eff035cb0e216aa9890629ab8ed7625d23cdd4c7") 4
  = hex "04930820".
Proof. vm_compute. reflexivity. Qed.

Example lib_ghash_job_50_len33_tag1 :
  ghash_job (hex "d8758466c21814f687ee458e59f71db3") (hex "5fdad79316e071e6124fb102e7271b07")
            (hex "6cd53e6f9d84d9d4d994008307306447")
            (hex "c8adeea575df9635c53fbd44a59bbb938daa1b492989cd1c050583d625604e31f7") 1
  = hex "21".
Proof. vm_compute. reflexivity. Qed.

Example lib_ghash_job_51_len100_tag16 :
  ghash_job (hex "19494f3367527b9490cb883754448690") (hex "dcc2856c98ca7de78e7f4bd4da12af87")
            (hex "63e8a543df25ac889f776f407d943716")
            (hex "0916dda756095074b2048bec840ef844540e2c2b284992479bd00d31f03303f67766137ff8003aa1bc95414a3c7bdaf254d4c07b76980dbe460273c11a7060f05cbccffc754ccae7de7b7d2d460c0692f2a5a915c2add6c0b76ecbc1221b26dca75bedc8") 16
  = hex "d5ed93deb589f32c700fbce537990f5d".
Proof. vm_compute. reflexivity. Qed.

Example lib_ghash_job_52_len100_tag16 :
  ghash_job (hex "013369e4b3d71eca5a9d148fd51259a9") (hex "1fb5f92dbdec6eb1d5ad86373c23442f")
            (hex "65eb4d94be9e5b70d1576324e63bec5c")
            (hex "b13fb7d8712dfaffa4f517ac7a115031fa32c23b317d9bfaf428414018581a6f0bd752008f609330a7d7132995673d92f8a970333a84dd8abe4c081b546338981304dc10f995324ca6efd17079dd3ad306756e3a7be9b03406bfdc9e40db7b282b5fd2ef") 16
  = hex "31cdcc75138f3e8e6537507f7a811b32".
Proof. vm_compute. reflexivity. Qed.

Example lib_ghash_job_53_len100_tag12 :
  ghash_job (hex "d8eaec34d64c4d0bf309806f1dccada6") (hex "b55ae7b3c4962a9d84dea3e7e113ab3b")
            (hex "fb8996d5c4272a34a32e31c6ef50fc45")
            (hex "96be2b829f57b97ebc73e99b474f1c6624f2de85d4c9dcb65845793c7bfc98e67e6f9a1b7a1991b93c2ee551cc0242f6b98290cd745c51b9e7bfb05115f6164448d989f4f7003e207997e8b4f9a9f4fc87b17c3f1d2eb4fb2ce64e9979535b12fd075514") 12
  = hex "f7afcffc014d0cc215e77b26".
Proof. vm_compute. reflexivity. Qed.

Example lib_ghash_job_54_len100_tag12 :
  ghash_job (hex "3202fc0c6e0e252f93fb070e462d1e83") (hex "84adbb10154b7dab9fe1221d92ff2e25")
            (hex "7063a7bbb33196c7b78a81c26c2c1b89")
            (hex "a991d53485ce657af4cde42b8bbf0ec86c2e73e8f508d0a75b4b9652aeccd8e88f6aed215f787c65259c6da3fe2f3c0b03a6c17e73b2ea5408a6b58c8ea5a370c65bad16ba8392f9db98f3b23d6086e338d346316fc966509a0fbc75ea678b62935da32d") 12
  = hex "cd9dc8a96e8bcc64755d445c".
Proof. vm_compute. reflexivity. Qed.

Example lib_ghash_job_55_len100_tag8 :
  ghash_job (hex "63fb98288d75752fc413069b09d910e5") (hex "38bdda0846a6dbe0d81a3f6ece68829f")
            (hex "8ce1da15718d9b9ec8049d49d1cc348d")
            (hex "b01efdd94a238fb1b20bee304b39d34976d7f591160225aa3a64a162dc18f8c4d585a83aef4887935e4f99c7a98e5ba7d09b01f558d5f60c9a416b574b1426ad7af1c895ca3230d9c21be194b75ae45ce569f490714c435efc4c190557d5cea341058432") 8
  = hex "c4274805625aa57c".
Proof. vm_compute. reflexivity. Qed.

Example lib_ghash_job_56_len100_tag8 :
  ghash_job (hex "04a9991a8fb34620b64f31334c539467") (hex "fb2fb54bbd65dceab52b78c41626531d")
            (hex "fe873f743b4f0aef16bc36ca5719059b")
            (hex "75ac2a0bf1b576be4a4bb9d15cc1a99edc4c3da66bb08d30e38bb88554b36a4dbd871606c01f3575490e985add72bb35c8d0edcf396810a69d2fa42bab76cf5a3abc0aa75694ec8ef13c41cb4e0fdcf8ea54bc7859d107584185e442d4371115eac7eb48") 8
  = hex "87765f15d8945760".
Proof. vm_compute. reflexivity. Qed.

Example lib_ghash_job_57_len100_tag4 :
  ghash_job (hex "16e6538413dc4d038a2af30d055563a1") (hex "6824d90179bfffc95d80dd7fffb90fc9")
            (hex "d5c7c63e306f2aff84973cbca62bf15a")
            (hex "14322045e6d6357e548e6d9362b03fa2bbf2eb355af6bd61d1e9c6766fc2f8a912dbd7c0bebf82a668cf52001ed1e7ae0ec0c1bd0224a6f682d216f26aed729fe4b82d1a9bd26e64ff8049c93825a42db8b262e5de5ef18cf149210cf4ef7ffa54032c99") 4
  = hex "d90b28bd".
Proof. vm_compute. reflexivity. Qed.

Example lib_ghash_job_58_len100_tag4 :
  ghash_job (hex "71e1d9e08b23167e07d4b1e630ae9c2d") (hex "c57ee53632a6b56d9deb0d8892c4dd3b")
            (hex "4c1b56d0894be87eb1be1ed5608a8d1a")
            (hex "4fe285c657ef5a0e0628cc74728f386af2dd800c57f14b77ee1ecdc2b0887fd8425c9843b3a6c84c0f8daf47ff15781bde3def5b50384536bb05a25ab4f110c7d8b35f1702052afae3eb814ceb5c4eed9af582689129915b0c5550ed25938eae9576f3f0") 4
  = hex "767380ec".
Proof. vm_compute. reflexivity. Qed.

Example lib_ghash_job_59_len100_tag1 :
  ghash_job (hex "b50dce5e06954e587509f5fcd43e4ea1") (hex "f1d29f751ba105db52ff6d49f92eb13f")
            (hex "e2b64bdabab3adc49ab9e469af074b7d")
            (hex "9ba8b86b1a0bdb6ef3118f3bd1b4ceb4a10bbe39da22c75c6ba8511aeaf61b5da5d8c29f353dfd0d48b9adb76c6c88e1d48388070e01fa3789c05fe5c13c12a84ca5a062047f095577b4f05d2eea8bd6f5baa3bd5e10cda58035f4ce37ebfd9fed886a1a") 1
  = hex "03".
Proof. vm_compute. reflexivity. Qed.

Example lib_ghash_job_60_len100_tag1 :
  ghash_job (hex "20d02fd71f75731a61425f7740941e0e") (hex "83917507fa04ba8ce0f205940293ec96")
            (hex "c4c7f7412c17258ac61159fe6d3f033d")
            (hex "b74358e00d597035d5951978bdf82201d7e6917e8b48dc0491d8dff9904f27835652df644639c3bc1b99cb3e1e84897af4eea870f2ab17e5f0992b2171f827c8498d4be8111d7887145a156259c2205102b5881f5c0a677a1e6b4cef2029b163c8f40ac4") 1
  = hex "f5".
Proof. vm_compute. reflexivity. Qed.

Example lib_ghash_job_61_len256_tag16 :
  ghash_job (hex "f21aec2f79dd5aef547f436cf26a7126") (hex "3e1e3e17fc60db01a18feb191bfdcb04")
            (hex "5ebefae52ef5a88bbc235f0868c49fa5")
            (hex "7ac3f31ec4ed7983ac8521d6d39a82542704c099c2c362d324fbddd58ab6131dd826d582f69e408a55b2fc9d59c35cfa4dcc32ac07f0c357ddeb683ee4d0c1915d769b9b209992bf85cf0ebb057745516cd7c3507486aeb8711e40777e367d4323dbc739f1deb3ed60fdd5db95011778448997dbaf352cde188bdc97fc6cc6e69739e113879668e37e9a8a430c3414dedee4dfec8be471dc11579cfe07bf4ffcec0965ccb4c561f11b7280a533ff09c117097598cbf8fee44235450821982e71354977cb7918647601ed98008dbc471aab126a76baf761b440e8865fd0b9b4e7348a0974c1047adac6ecd222b42d345860c3d5c1b1324e9f2a21a04d7f27abb6") 16
  = hex "f8902717bc864da6ad35be445f480cf1".
Proof. vm_compute. reflexivity. Qed.

Example lib_ghash_job_62_len256_tag16 :
  ghash_job (hex "f2b1db2709c92c82255498ce1a3776cc") (hex "7a59f4f0b45b0ca445590f1d02665d44")
            (hex "b4e77d86c203c0e70847cbde30ca73b8")
            (hex "d340f44e704270f36d8d39c68c225db88157cc7593414e1b73bff2acdd08fbf3762da31013d83c389f11da07e32bf03e2f3efaaefba2d58323129360e981dc102f9fc599941161dbe01c8557f3f43720828271898019e6495796e5b48450c6cc022020951bea33e329bfff721e616b45d019a3774277f18bce9fab5d355408ef5b1ed6ddd7ec501e237b6e29f4e1a6fe7c0bc7212550a88ec04b1e06d2485ff4967a91b17a52b9379778c2dfe27829f3ec95486bcb2888fd2f0cae010a1e410d60fb8cbb4cf9797d8c21e0ba51ee20e0d3066f581d9cf006df30bb976b81bb0be5f13c007b19791973898b9a951b0fa59da580613a2d1765200874b055f6e1e2") 16
  = hex "86403e40e24c54908e8982369a3e50a1".
Proof. vm_compute. reflexivity. Qed.

Example lib_ghash_job_63_len256_tag12 :
  ghash_job (hex "a86d691ad8607637289cca4eeddc69f0") (hex "ae06ef6d8453a03dbe7624a38ab8a2b1")
            (hex "80be2727ea5c7d8a57863247e0a928b8")
            (hex "878b5a44304aa3565d53bcd9f88b06e7818ca213ac2ece575770468462fbc7bcd8ea234da960657068d7dfad3ffca3b987bc1902cda507238b0b8850d9f3798460be326ddad156efc8edb87fe233e7dd6bef3e63f4f8062a64ae1644fe4e62f80f47e25e06649172e5dbb8a3a6c18bf2d1cfe8e12d3c5169556d67bfd28118748a5d4b690ba513781cc47d1cf4ace97cdf3e1290e828e157a9d49d7350dbeba49049e656da7d395fdce0ef8c4d9be7d889c72607079d29722fbf30df88e7d4658bd4584efca6a212bb5e67a8512b394e38f4c80206e3b569f28571820a4b8e7a5adae9146bdd0b8aac4d5356af47605608a69491372490fb59c60ec88f01a27d") 12
  = hex "6646af54c56f70a7503ba5bb".
Proof. vm_compute. reflexivity. Qed.

Example lib_ghash_job_64_len256_tag8 :
  ghash_job (hex "a237c2b676583db72e755b4a9d26fc3e") (hex "51f86631420fb5cb5848d9e0865e8af9")
            (hex "39fc7ba9446649838c1c29edc3524d2f")
            (hex "15a38575fc5c628863e112e62072c504602c6434d75fdbbb41c75d7128e6c4eb784e60ab80e2516b77c08669a9f1b50fb4eea6c8566d000562f84acb6b3f8963c4971a79ebf5e4746a1ff8c0687a2fd4f62016dedae1e4d746e72e0904b72f140231fe9cceb1aca4eb7848c476562e20f2298672893e11a2c1a18892cbbf5b6bad216d61f7745e1de25215e3f0c033962eeadb70e281b3ba88e7ff840636dbb18e3fea115707668928ca33ab9577ed2990d49fd21e01bf185c3ae82f4db6dd78678cc1ca44dfdc4d8f432cc06977b43ab402814cc7265413b9bd5fa3128b3efaaa7e48697594cdd82a5c8660533eae0cbce8bc33a9e285247e3e47add4873519") 8
  = hex "fff470bba3db636c".
Proof. vm_compute. reflexivity. Qed.

Example lib_ghash_job_65_len256_tag4 :
  ghash_job (hex "61a839ad69b4beaf9eb5010dd9902276") (hex "15870df659b3ef068a378257ca26302f")
            (hex "e681dba5ad7c583b88d7944960e449fe")
            (hex "376decf5177b2797d0f457659e489cf0d12eda1da4baeb50035bde04dfeb0efa390f6aaea0995431dcc22d9e05a94b6fab03eb751f133ed4f57b5e2f74cdb396137e4fcfb2a18d1dfab3b3d8a3a6a7bfb175fb9e170c2d4b0354794b85395a080e3b675d1d8a40583a8cf993d5941bda88099b3041175c59f11920ec7edf96e9d3c982b6da6bcaa29a9e5faecc97523c779867197f9532f21a9f696a4ae81b126fba5282acebc78383da86ae3f621f60a79dfce034fed6d07a403fe8d7c971309d13941600a72a74c279cfc2a0bc4e56cdda155d16d183a795f54f754ee26e680f054b1a67a8b06d6fbf9292e01f2dcbae9e074fcfff4cd4c7163761ec1e3f0c") 4
  = hex "9c24ce7c".
Proof. vm_compute. reflexivity. Qed.

Example lib_ghash_job_66_len256_tag1 :
  ghash_job (hex "5278ce3f5bc893daac2f8cfbcf8a96cf") (hex "8c557842c701f57829802a13cfbb4cad")
            (hex "8a42897503849d6ba1da6ecc7ef658ac")
            (hex "3679a11826b2cbd741bf198316a840364d42b1715b31f63cf33e416480b5eb2038abc46b322ac10c3c3d0e0e9d141223e2f44bf6a363bab6c4bce42d0e862939482f92dfee9af264c50de5df24ba1ff92b97edca6aca3e71825d53c64b6d3c355d98842f3d2746d9c8f509172d4a8c9607af8fc9d080224c33272d5e1081f7b7d5ee7d2cf57acb5c9a000d077ca87f51ec8a1c846fc370ec478f37f267e6e8b956764b310e5e13a2a0d0de102a535a3e7dcc46ca035fd0bb07a5b6e446ff346e44296de7aeab7aaa30947614379f857c11718ab51d2511e2a31bddc59a02586ead074656911930d039d0c3e017b0ff8bf7e2235ff855f33aa9d5bdcf8c84bf09") 1
  = hex "85".
Proof. vm_compute. reflexivity. Qed.

(* the dependence on old_out, made explicit on one vector *)
Example lib_ghash_job_depends_on_old_out :
  ghash_job (hex "fb2fc1c1e9f825ba9f2713f33e11f0ba") (hex "367f1e0ada722fe16b7171e695995b94")
            (hex "367f1e0ada722fe16b7171e695995b94")
            (hex "41") 8
  <> hex "2d3a7774b1ad4241".
Proof. vm_compute. intro H; discriminate H. Qed.
