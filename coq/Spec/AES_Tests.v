(* Spec/AES_Tests.v — TESTS (known-answer vectors and library comparisons) for
   Spec/AES.v.  These are checks on particular inputs, not theorems.
   Sources: FIPS-197 (sections 4.2, 5.1, Appendix A, B, C) and outputs of the
   real library (IMB_AES_KEYEXP_128/192/256 of libIPSec_MB.so, identical for
   init_mb_mgr_sse/avx2/avx512). *)
From Coq Require Import String.
From IMB Require Import Lib.Bytes Spec.Hex Spec.AES.
Local Open Scope N_scope.
Local Open Scope string_scope.

(* ---- GF(2^8): FIPS-197 section 4.2 / 4.2.1 ---- *)
Example test_xtime_57 : xtime 87 = 174.           (* {57}.{02} = {ae} *)
Proof. vm_compute. reflexivity. Qed.
Example test_xtime_ae : xtime 174 = 71.           (* {ae}.{02} = {47} *)
Proof. vm_compute. reflexivity. Qed.
Example test_gmul_57_83 : gmul 87 131 = 193.      (* {57}.{83} = {c1} *)
Proof. vm_compute. reflexivity. Qed.
Example test_gmul_57_13 : gmul 87 19 = 254.       (* {57}.{13} = {fe} *)
Proof. vm_compute. reflexivity. Qed.
Example test_xtime_is_gmul2 :
  map xtime (map N.of_nat (upto 256)) = map (gmul 2) (map N.of_nat (upto 256)).
Proof. vm_compute. reflexivity. Qed.

(* ---- S-boxes: table shape, trie lookup = nth, inverse, definition by
        GF(2^8) inversion + affine map is checked through the inverse ---- *)
Example test_sbox_len : (length aes_sbox, length aes_inv_sbox) = (256%nat, 256%nat).
Proof. vm_compute. reflexivity. Qed.
Example test_sbox_bytes_ok : bytes_ok aes_sbox && bytes_ok aes_inv_sbox = true.
Proof. vm_compute. reflexivity. Qed.
Example test_sbox_lookup : map sbox (map N.of_nat (upto 256)) = aes_sbox.
Proof. vm_compute. reflexivity. Qed.
Example test_inv_sbox_lookup : map inv_sbox (map N.of_nat (upto 256)) = aes_inv_sbox.
Proof. vm_compute. reflexivity. Qed.
Example test_sbox_lookup_nth :
  forallb (fun i => N.eqb (sbox (N.of_nat i)) (nth i aes_sbox 0)
                    && N.eqb (inv_sbox (N.of_nat i)) (nth i aes_inv_sbox 0))
          (upto 256) = true.
Proof. vm_compute. reflexivity. Qed.
Example test_sbox_inverse :
  map (fun x => inv_sbox (sbox x)) (map N.of_nat (upto 256)) = map N.of_nat (upto 256).
Proof. vm_compute. reflexivity. Qed.
(* S-box(x) = affine(x^-1): check x * inv = 1 where inv = affine^-1(S(x)),
   affine^-1(y) = rotl(y,1) ^ rotl(y,3) ^ rotl(y,6) ^ 5 (FIPS-197 5.1.1 inverted) *)
Definition rotl8 (x n : N) : N := w8 (N.lor (N.shiftl x n) (N.shiftr x (8 - n))).
Definition inv_affine (y : N) : N :=
  N.lxor (N.lxor (rotl8 y 1) (rotl8 y 3)) (N.lxor (rotl8 y 6) 5).
Example test_sbox_algebraic :
  forallb (fun i => let x := N.of_nat i in
                    N.eqb (gmul x (inv_affine (sbox x))) (if N.eqb x 0 then 0 else 1))
          (upto 256) = true.
Proof. vm_compute. reflexivity. Qed.

(* ---- Round steps: FIPS-197 Appendix B, round 1 ---- *)
Example test_sub_bytes :
  sub_bytes (hex "193de3bea0f4e22b9ac68d2ae9f84808") = hex "d42711aee0bf98f1b8b45de51e415230".
Proof. vm_compute. reflexivity. Qed.
Example test_shift_rows :
  shift_rows (hex "d42711aee0bf98f1b8b45de51e415230") = hex "d4bf5d30e0b452aeb84111f11e2798e5".
Proof. vm_compute. reflexivity. Qed.
Example test_mix_columns :
  mix_columns (hex "d4bf5d30e0b452aeb84111f11e2798e5") = hex "046681e5e0cb199a48f8d37a2806264c".
Proof. vm_compute. reflexivity. Qed.
Example test_inv_sub_bytes :
  inv_sub_bytes (hex "d42711aee0bf98f1b8b45de51e415230") = hex "193de3bea0f4e22b9ac68d2ae9f84808".
Proof. vm_compute. reflexivity. Qed.
Example test_inv_shift_rows :
  inv_shift_rows (hex "d4bf5d30e0b452aeb84111f11e2798e5") = hex "d42711aee0bf98f1b8b45de51e415230".
Proof. vm_compute. reflexivity. Qed.
Example test_inv_mix_columns :
  inv_mix_columns (hex "046681e5e0cb199a48f8d37a2806264c") = hex "d4bf5d30e0b452aeb84111f11e2798e5".
Proof. vm_compute. reflexivity. Qed.
(* FIPS-197 Appendix C.1 inverse cipher, round 1: is_row -> is_box, ik_add -> next istart *)
Example test_inv_mix_columns_c1 :
  inv_mix_columns (hex "e9f74eec023020f61bf2ccf2353c21c7") = hex "54d990a16ba09ab596bbf40ea111702f".
Proof. vm_compute. reflexivity. Qed.
(* InvMixColumns matrix {0e 0b 0d 09} against gmul, on one column *)
Example test_inv_mix_columns_gmul :
  inv_mix_columns (hex "dbf201c6130a01c653d401c645e501c6")
  = flat_map (fun c => match c with
      | [a0; a1; a2; a3] =>
        [N.lxor (N.lxor (gmul 14 a0) (gmul 11 a1)) (N.lxor (gmul 13 a2) (gmul 9 a3));
         N.lxor (N.lxor (gmul 9 a0) (gmul 14 a1)) (N.lxor (gmul 11 a2) (gmul 13 a3));
         N.lxor (N.lxor (gmul 13 a0) (gmul 9 a1)) (N.lxor (gmul 14 a2) (gmul 11 a3));
         N.lxor (N.lxor (gmul 11 a0) (gmul 13 a1)) (N.lxor (gmul 9 a2) (gmul 14 a3))]
      | _ => [] end) (chunks 4 (hex "dbf201c6130a01c653d401c645e501c6")).
Proof. vm_compute. reflexivity. Qed.

(* ---- Key expansion: FIPS-197 Appendix A.1, A.2, A.3 ---- *)
Definition kA1 := hex "2b7e151628aed2a6abf7158809cf4f3c".
Definition kA2 := hex "8e73b0f7da0e6452c810f32b809079e562f8ead2522c6b7b".
Definition kA3 := hex "603deb1015ca71be2b73aef0857d77811f352c073b6108d72d9810a30914dff4".
Example test_keyexp_counts :
  (length (aes_key_expand kA1), length (aes_key_expand kA2), length (aes_key_expand kA3),
   length (aes_key_expand (hex "0011")))
  = (11%nat, 13%nat, 15%nat, 0%nat).
Proof. vm_compute. reflexivity. Qed.
Example test_keyexp_sizes :
  forallb (fun k => Nat.eqb (length k) 16 && bytes_ok k)
          (aes_key_expand kA1 ++ aes_key_expand kA2 ++ aes_key_expand kA3) = true.
Proof. vm_compute. reflexivity. Qed.
(* A.1: w4..w7 and w40..w43 *)
Example test_keyexp_128_rk1 :
  nth 1 (aes_key_expand kA1) [] = hex "a0fafe1788542cb123a339392a6c7605".
Proof. vm_compute. reflexivity. Qed.
Example test_keyexp_128_rk10 :
  nth 10 (aes_key_expand kA1) [] = hex "d014f9a8c9ee2589e13f0cc8b6630ca6".
Proof. vm_compute. reflexivity. Qed.
(* A.2: w4..w7 (= key words 4,5 then w6 = fe0c91f7, w7 = 2402f5a5) and w48..w51 *)
Example test_keyexp_192_rk1 :
  nth 1 (aes_key_expand kA2) [] = hex "62f8ead2522c6b7bfe0c91f72402f5a5".
Proof. vm_compute. reflexivity. Qed.
Example test_keyexp_192_rk12 :
  nth 12 (aes_key_expand kA2) [] = hex "e98ba06f448c773c8ecc720401002202".
Proof. vm_compute. reflexivity. Qed.
(* A.3: w8..w11 and w56..w59 *)
Example test_keyexp_256_rk2 :
  nth 2 (aes_key_expand kA3) [] = hex "9ba354118e6925afa51a8b5f2067fcde".
Proof. vm_compute. reflexivity. Qed.
Example test_keyexp_256_rk14 :
  nth 14 (aes_key_expand kA3) [] = hex "fe4890d1e6188d0b046df344706c631e".
Proof. vm_compute. reflexivity. Qed.

(* ---- Cipher: FIPS-197 Appendix B and C.1, C.2, C.3 (encrypt and decrypt) ---- *)
Example test_fips197_B :
  aes_encrypt_block kA1 (hex "3243f6a8885a308d313198a2e0370734")
  = hex "3925841d02dc09fbdc118597196a0b32".
Proof. vm_compute. reflexivity. Qed.
Example test_fips197_B_dec :
  aes_decrypt_block kA1 (hex "3925841d02dc09fbdc118597196a0b32")
  = hex "3243f6a8885a308d313198a2e0370734".
Proof. vm_compute. reflexivity. Qed.

Definition ptC := hex "00112233445566778899aabbccddeeff".
Definition kC1 := hex "000102030405060708090a0b0c0d0e0f".
Definition kC2 := hex "000102030405060708090a0b0c0d0e0f1011121314151617".
Definition kC3 := hex "000102030405060708090a0b0c0d0e0f101112131415161718191a1b1c1d1e1f".
Example test_fips197_C1_enc : aes_encrypt_block kC1 ptC = hex "69c4e0d86a7b0430d8cdb78070b4c55a".
Proof. vm_compute. reflexivity. Qed.
Example test_fips197_C1_dec : aes_decrypt_block kC1 (hex "69c4e0d86a7b0430d8cdb78070b4c55a") = ptC.
Proof. vm_compute. reflexivity. Qed.
Example test_fips197_C2_enc : aes_encrypt_block kC2 ptC = hex "dda97ca4864cdfe06eaf70a0ec0d7191".
Proof. vm_compute. reflexivity. Qed.
Example test_fips197_C2_dec : aes_decrypt_block kC2 (hex "dda97ca4864cdfe06eaf70a0ec0d7191") = ptC.
Proof. vm_compute. reflexivity. Qed.
Example test_fips197_C3_enc : aes_encrypt_block kC3 ptC = hex "8ea2b7ca516745bfeafc49904b496089".
Proof. vm_compute. reflexivity. Qed.
Example test_fips197_C3_dec : aes_decrypt_block kC3 (hex "8ea2b7ca516745bfeafc49904b496089") = ptC.
Proof. vm_compute. reflexivity. Qed.

(* pre-expanded variants agree; equivalent inverse cipher with the dec schedule *)
Example test_rk_variants :
  let rk := aes_key_expand kC2 in
  (aes_enc_rk rk ptC, aes_dec_rk rk (aes_enc_rk rk ptC),
   aes_eqdec_dk (aes_dec_schedule kC2) (aes_enc_rk rk ptC))
  = (hex "dda97ca4864cdfe06eaf70a0ec0d7191", ptC, ptC).
Proof. vm_compute. reflexivity. Qed.
Example test_eqdec_C1 :
  aes_eqdec_dk (aes_dec_schedule kC1) (hex "69c4e0d86a7b0430d8cdb78070b4c55a") = ptC.
Proof. vm_compute. reflexivity. Qed.
Example test_eqdec_C3 :
  aes_eqdec_dk (aes_dec_schedule kC3) (hex "8ea2b7ca516745bfeafc49904b496089") = ptC.
Proof. vm_compute. reflexivity. Qed.
(* FIPS-197 C.1 equivalent inverse cipher: dec round key 1 = InvMixColumns(enc rk 9) *)
Example test_dec_schedule_len :
  map (fun k => length (aes_dec_schedule k)) [kC1; kC2; kC3] = [11%nat; 13%nat; 15%nat].
Proof. vm_compute. reflexivity. Qed.


(* ---- LIBRARY COMPARISON: IMB_AES_KEYEXP_128/192/256(mgr, key, enc_keys, dec_keys)
        for the FIPS-197 Appendix C keys; bytes printed by the C harness described
        in Spec/AES_API.md (same on SSE / AVX2 / AVX512 managers). ---- *)

Example test_lib_keyexp_128_enc :
  concat (aes_key_expand kC1) = hex
       "000102030405060708090a0b0c0d0e0fd6aa74fdd2af72fadaa678f1d6ab76fe
        b692cf0b643dbdf1be9bc5006830b3feb6ff744ed2c2c9bf6c590cbf0469bf41
        47f7f7bc95353e03f96c32bcfd058dfd3caaa3e8a99f9deb50f3af57adf622aa
        5e390f7df7a69296a7553dc10aa31f6b14f9701ae35fe28c440adf4d4ea9c026
        47438735a41c65b9e016baf4aebf7ad2549932d1f08557681093ed9cbe2c974e
        13111d7fe3944a17f307a78b4d2b30c5".
Proof. vm_compute. reflexivity. Qed.
Example test_lib_keyexp_128_dec :
  concat (aes_dec_schedule kC1) = hex
       "13111d7fe3944a17f307a78b4d2b30c513aa29be9c8faff6f770f58000f7bf03
        1362a4638f2586486bff5a76f7874a838d82fc749c47222be4dadc3e9c7810f5
        72e3098d11c5de5f789dfe1578a2cccb2ec410276326d7d26958204a003f32de
        a8a2f5044de2c7f50a7ef79869671294c7c6e391e54032f1479c306d6319e50c
        a0db02992286d160a2dc029c2485d5618c56dff0825dd3f9805ad3fc8659d7fd
        000102030405060708090a0b0c0d0e0f".
Proof. vm_compute. reflexivity. Qed.

Example test_lib_keyexp_192_enc :
  concat (aes_key_expand kC2) = hex
       "000102030405060708090a0b0c0d0e0f10111213141516175846f2f95c43f4fe
        544afef55847f0fa4856e2e95c43f4fe40f949b31cbabd4d48f043b810b7b342
        58e151ab04a2a5557effb5416245080c2ab54bb43a02f8f662e3a95d66410c08
        f501857297448d7ebdf1c6ca87f33e3ce510976183519b6934157c9ea351f1e0
        1ea0372a995309167c439e77ff12051edd7e0e887e2fff68608fc842f9dcc154
        859f5f237a8d5a3dc0c02952beefd63ade601e7827bcdf2ca223800fd8aeda32
        a4970a331a78dc09c418c271e3a41d5d".
Proof. vm_compute. reflexivity. Qed.
Example test_lib_keyexp_192_dec :
  concat (aes_dec_schedule kC2) = hex
       "a4970a331a78dc09c418c271e3a41d5dd6bebd0dc209ea494db073803e021bb9
        8fb999c973b26839c7f9d89d85c68c72f77d6ec1423f54ef5378317f14b75744
        1147659047cf663b9b0ece8dfc0bf1f0dcc1a8b667053f7dcc5c194ab5423a2e
        c6deb0ab791e2364a4055fbe568803abdd1b7cdaf28d5c158a49ab1dbbc497cb
        78c4f708318d3cd69655b701bfc093cf60dcef10299524ce62dbef152f9620cf
        4b4ecbdb4d4dcfda5752d7c74949cbde1a1f181d1e1b1c194742c7d74949cbde
        000102030405060708090a0b0c0d0e0f".
Proof. vm_compute. reflexivity. Qed.

Example test_lib_keyexp_256_enc :
  concat (aes_key_expand kC3) = hex
       "000102030405060708090a0b0c0d0e0f101112131415161718191a1b1c1d1e1f
        a573c29fa176c498a97fce93a572c09c1651a8cd0244beda1a5da4c10640bade
        ae87dff00ff11b68a68ed5fb03fc15676de1f1486fa54f9275f8eb5373b8518d
        c656827fc9a799176f294cec6cd5598b3de23a75524775e727bf9eb45407cf39
        0bdc905fc27b0948ad5245a4c1871c2f45f5a66017b2d387300d4d33640a820a
        7ccff71cbeb4fe5413e6bbf0d261a7dff01afafee7a82979d7a5644ab3afe640
        2541fe719bf500258813bbd55a721c0a4e5a6699a9f24fe07e572baacdf8cdea
        24fc79ccbf0979e9371ac23c6d68de36".
Proof. vm_compute. reflexivity. Qed.
Example test_lib_keyexp_256_dec :
  concat (aes_dec_schedule kC3) = hex
       "24fc79ccbf0979e9371ac23c6d68de3634f1d1ffbfceaa2ffce9e25f2558016e
        5e1648eb384c350a7571b746dc80e684c8a305808b3f7bd043274870d9b1e331
        b5708e13665a7de14d3d824ca9f151c274da7ba3439c7e50c81833a09a96ab41
        3ca69715d32af3f22b67ffade4ccd38ef85fc4f3374605f38b844df0528e98e1
        de69409aef8c64e7f84d0c5fcfab2c23aed55816cf19c100bcc24803d90ad511
        15c668bd31e5247d17c168b837e6207c7fd7850f61cc991673db890365c89d12
        2a2840c924234cc026244cc5202748c41a1f181d1e1b1c191217101516131411
        000102030405060708090a0b0c0d0e0f".
Proof. vm_compute. reflexivity. Qed.

(* random keys (C harness, seed 7) *)

Example test_lib_rand_keyexp128_enc :
  concat (aes_key_expand (hex
       "52f22665a60c12d289185d950ee88136")) = hex
       "52f22665a60c12d289185d950ee88136c8fe23ce6ef2311ce7ea6c89e902edbf
        bdab2bd0d3591acc34b37645ddb19bfa71bf0611a2e61cdd96556a984be4f162
        101eaca2b2f8b07f24addae76f492b853bef3b0a89178b75adba5192c2f37a17
        1635cb2f9f22405a329811c8f06b6bdf294a55a3b66815f984f00431749b6fee
        bde27d310b8a68c88f7a6cf9fbe103175e998d3e5513e5f6da69890f21888a18
        ace720c3f9f4c535239d4c3a0215c622".
Proof. vm_compute. reflexivity. Qed.

Example test_lib_rand_keyexp128_dec :
  concat (aes_dec_schedule (hex
       "52f22665a60c12d289185d950ee88136")) = hex
       "ace720c3f9f4c535239d4c3a0215c62253e268ade496fed976b74fbb0a02d7e4
        a52d43d8b77496749221b1627cb5985f55ac18741259d5ac25552716ee94293d
        ac1fe49047f5cdd8370cf2bacbc10e2b0469d55debea294870f93f62fccdfc91
        caa7761bef83fc159b13162a8c34c3f37a13a41425248a0e7490ea3f1727d5d9
        3b836c395f372e1a51b4603163b73fe67cc63a5b64b442230e834e2b32035fd7
        52f22665a60c12d289185d950ee88136".
Proof. vm_compute. reflexivity. Qed.

Example test_lib_rand_keyexp192_enc :
  concat (aes_key_expand (hex
       "826605a93d2f615d5de457f65e5ea17ee789f519949ded2e")) = hex
       "826605a93d2f615d5de457f65e5ea17ee789f519949ded2edd33348be01c55d6
        bdf80220e3a6a35e042f564790b2bb69e8d9cdeb08c5983db53d9a1d569b3943
        52b46f04c206d46d8391f1ce8b5469f33e69f3ee68f2caad3a46a5a9f84071c4
        8232ed8f0966847c370f77925ffdbd3f65bb18969dfb69529dcbedd194ad69ad
        a3a21e3ffc5fa30099e4bb96041fd2c47d7ef123e9d3988e4a7186b1b62e25b1
        2fca9e272bd54ce33e57e0d2d784785c9df5feed2bdbdb5c0411457b2fc40998
        a256a6c775d2de9be8272076c3fcfb2a".
Proof. vm_compute. reflexivity. Qed.

Example test_lib_rand_keyexp192_dec :
  concat (aes_dec_schedule (hex
       "826605a93d2f615d5de457f65e5ea17ee789f519949ded2e")) = hex
       "a256a6c775d2de9be8272076c3fcfb2a540dc1e3df13c17a59624e5efda92f01
        86718f24a4cb615f0cb5648619c858fe7e174bf3157d3c784dc5991d8b1e0099
        58b8a565c6db99840d6f8fbd22baee7bcbb416392fd561c6fdf859366b6a778b
        464d964f96922ebd33d2d2ee9e633ce1a540fc53adb1ee0f55d72ad8e46177ff
        f866c4d7b1b65d272a68026dd0dfb8f2b196ba8afab7ba9f759f44a108f1125c
        8f28fe3e7d6e56fdf097d68b49d099f08df98076b9474f7b7c04371e4b210015
        826605a93d2f615d5de457f65e5ea17e".
Proof. vm_compute. reflexivity. Qed.

Example test_lib_rand_keyexp256_enc :
  concat (aes_key_expand (hex
       "e4b65eaf2a6b5cfb7d724a14dc067114c07026e2f106a3a15cbfbbf0394a0e54")) = hex
       "e4b65eaf2a6b5cfb7d724a14dc067114c07026e2f106a3a15cbfbbf0394a0e54
        331d7ebd1976224664046852b8021946ac07f2b85d01511901beeae938f4e4bd
        8e7404ba970226fcf3064eae4b0457e81ff5a92342f4f83a434a12d37bbef66e
        24369b9bb334bd674032f3c90b36a42134f0e0de760418e4354e0a374ef0fc59
        a08650b413b2edd353801e1a58b6ba3b5ebe143c28ba0cd81df406ef5304fab6
        42ab1e595119f38a0299ed905a2f57abe0ab4f5ec8114386d5e5456986e1bfdf
        9aa3801dcbba7397c9239e07930cc9ac3c5592cff444d14921a19420a7402bff
        d352964118e8e5d6d1cb7bd142c7b27d".
Proof. vm_compute. reflexivity. Qed.

Example test_lib_rand_keyexp256_dec :
  concat (aes_dec_schedule (hex
       "e4b65eaf2a6b5cfb7d724a14dc067114c07026e2f106a3a15cbfbbf0394a0e54")) = hex
       "d352964118e8e5d6d1cb7bd142c7b27def1129e368321d6f57768a9fc4ec2e35
        73d83a35aed627ca871436d6ae401b0f403d5b7c8723348c3f4497f0939aa4aa
        49965223dd0e1dff29c2111c29542dd9641da514c71e6ff0b867a37cacde335a
        8971e6dc94984fdcf4cc0ce300963cc5b1038ac2a303cae47f79cc8c14b99026
        4877d3fe1de9a9006054433ff45a30267375056312004026dc7a06686bc05caa
        2dd32f95559e7afe7dbdea3f940e73192a94adf261754545ce7a464eb7ba5ac2
        84a908c8784d556b282390c1e9b39926f75bf9214be1e8b7af0f030b79c01c8c
        e4b65eaf2a6b5cfb7d724a14dc067114".
Proof. vm_compute. reflexivity. Qed.
