(* Spec/PON.v — the PON suite IMB_CIPHER_PON_AES_CNTR + IMB_AUTH_PON_CRC_BIP
   (stitched XGEM-frame processing: HEC update, Ethernet CRC32, AES-128-CTR, BIP),
   and the direct HEC API (IMB_HEC_32 / IMB_HEC_64).
   Definitions only; tests in Spec/PON_Tests.v.

   Sources: /repo/lib/sse_t1/pon_by8_sse.asm (macro AES128_CTR_PON),
   /repo/lib/avx2_t1/pon_by8_avx.asm, /repo/lib/avx512_t2/pon_vaes_avx512.asm,
   /repo/lib/include/mb_mgr_job_check.h (cases IMB_CIPHER_PON_AES_CNTR,
   IMB_AUTH_PON_CRC_BIP), /repo/test/kat-app/pon_test.c.

   Job geometry (enforced by is_job_invalid): src points at the 8-byte XGEM
   header, hash_start = 0, cipher_start_src_offset = 8, dst = src + 8 (in-place
   only), msg_len_to_hash = 8 + payload length (multiple of 4, >= 8,
   <= 2^14 + 8), msg_len_to_cipher = payload length (multiple of 4) or 0 for the
   "no cipher" variant (then key and IV are not needed), key 16 bytes (AES-128
   only), IV 16 bytes, auth_tag_output_len = 8.

   The model takes the whole frame [buf] = header(8) ++ payload (payload already
   padded by the caller to a multiple of 4; XGEM pads to 8 in practice) and
   assumes msg_len_to_hash = length buf, msg_len_to_cipher = length buf - 8 (or 0).
   PLI = top 14 bits of the header (big-endian) = payload length in bytes
   without padding.  Precondition: PLI <= 4 or PLI <= length payload
   (IMB_ERR_JOB_PON_PLI otherwise — checked by the library only when
   msg_len_to_cipher >= 4).

   Semantics, encrypt:
     1. header' = header with its 13-bit HEC field recomputed (written back to
        the buffer);
     2. if PLI > 4: crc = Ethernet FCS of payload[0, PLI-4) and the four bytes
        payload[PLI-4, PLI) are overwritten with crc (little-endian);
        if PLI <= 4 no CRC is computed and nothing is written back;
     3. the whole payload (incl. CRC and padding) is AES-128-CTR encrypted with
        the 16-byte IV as initial counter block, incremented as a 128-bit
        big-endian integer per block (no cipher when msg_len_to_cipher = 0);
     4. BIP = XOR of all 4-byte words of header' ++ ciphertext.
   decrypt:
     1. header untouched (HEC neither recomputed nor verified);
     2. BIP = XOR of all 4-byte words of the received header ++ ciphertext;
     3. whole payload decrypted;
     4. if PLI > 4: crc = Ethernet FCS of plaintext[0, PLI-4) (NOT compared with
        plaintext[PLI-4, PLI) — the caller does it).
   auth_tag_output: bytes 0..3 = BIP (byte i = XOR of all frame bytes at offsets
   = i mod 4), bytes 4..7 = crc little-endian when PLI > 4.
   When PLI <= 4 bytes 4..7 are NOT a function of the job inputs: the SSE and
   AVX (by8) code store whatever the callee-saved register r13 held
   ("mov [tmp + 4], DWORD(ethernet_fcs)" with ethernet_fcs never assigned), the
   AVX512-VAES code leaves the four bytes untouched.  The model therefore
   returns only the 4 BIP bytes in that case. *)
From IMB Require Import Lib.Bytes Spec.CRC.
Local Open Scope N_scope.

(* ---------- HEC (G.987.3 XGEM header error control) ---------- *)

(* 13-bit HEC of the [nbits]-bit value v (the header without its HEC field):
   12-bit BCH/CRC remainder, generator x^12+x^10+x^8+x^5+x^4+x^3+1 (0x539),
   init 0, MSB first, followed by one bit making the parity of the complete
   header even. *)
Fixpoint hec_crc12 (nbits : nat) (v reg : N) : N :=
  match nbits with
  | O => reg
  | S k => hec_crc12 k v (crc_bit 12 4095 1337 reg (N.testbit v (N.of_nat k)))
  end.

Definition parity (x : N) : N :=
  (* xor of all bits of a value below 2^64 *)
  let x := N.lxor x (N.shiftr x 32) in
  let x := N.lxor x (N.shiftr x 16) in
  let x := N.lxor x (N.shiftr x 8) in
  let x := N.lxor x (N.shiftr x 4) in
  let x := N.lxor x (N.shiftr x 2) in
  let x := N.lxor x (N.shiftr x 1) in
  N.land x 1.

(* header given as a [8*nbytes]-bit integer; returns it with the low 13 bits replaced *)
Definition hec_update (total_bits : nat) (h : N) : N :=
  let v := N.shiftr h 13 in
  let body := N.lor (N.shiftl v 13) (N.shiftl (hec_crc12 (total_bits - 13) v 0) 1) in
  N.lor body (parity body).

(* IMB_HEC_64(mgr, src): src = 8 header bytes; the returned uint64_t, stored to
   memory (little-endian machine), gives these 8 bytes = updated header in
   wire (big-endian) order.  hec_32 likewise for 4-byte headers. *)
Definition hec_64 (hdr : bytes) : bytes := N_to_be 8 (hec_update 64 (be_to_N (firstn 8 hdr))).
Definition hec_32 (hdr : bytes) : bytes := N_to_be 4 (hec_update 32 (be_to_N (firstn 4 hdr))).

(* ---------- frame helpers ---------- *)

Definition pon_hdr_len : nat := 8.
Definition pon_tag_len : nat := 8.

(* PLI: 14 most significant bits of the header *)
Definition pon_pli (buf : bytes) : N := N.shiftr (be_to_N (firstn 2 buf)) 2.

(* CRC is computed / inserted only when PLI > 4 *)
Definition pon_crc_enabled (buf : bytes) : bool := 4 <? pon_pli buf.
(* number of payload bytes covered by the CRC (PLI - 4) *)
Definition pon_crc_len (buf : bytes) : nat := N.to_nat (pon_pli buf - 4).

(* BIP: XOR of all 4-byte words (last word zero padded if the length is not a
   multiple of 4, which the API does not allow), as 4 bytes in memory order *)
Fixpoint pon_bip_aux (l : bytes) (a b c d : N) : bytes :=
  match l with
  | x0 :: x1 :: x2 :: x3 :: t => pon_bip_aux t (N.lxor a x0) (N.lxor b x1) (N.lxor c x2) (N.lxor d x3)
  | [x0; x1; x2] => [N.lxor a x0; N.lxor b x1; N.lxor c x2; d]
  | [x0; x1] => [N.lxor a x0; N.lxor b x1; c; d]
  | [x0] => [N.lxor a x0; b; c; d]
  | [] => [a; b; c; d]
  end.
Definition pon_bip (frame : bytes) : bytes := pon_bip_aux frame 0 0 0 0.

(* "no cipher" instance of the ctr parameter (msg_len_to_cipher_in_bytes = 0) *)
Definition pon_no_ctr (key iv msg : bytes) : bytes := msg.

(* tag = BIP ++ (CRC if defined) *)
Definition pon_tag (bip : bytes) (crc : option N) : bytes :=
  match crc with Some c => bip ++ le32 c | None => bip end.

(* ---------- the jobs, generic over ctr : key -> iv(16) -> msg -> bytes ---------- *)

(* encrypt: returns (new frame, tag) *)
Definition pon_enc (ctr : bytes -> bytes -> bytes -> bytes) (key iv buf : bytes) : bytes * bytes :=
  let hdr := hec_64 (firstn pon_hdr_len buf) in
  let payload := skipn pon_hdr_len buf in
  let n := pon_crc_len buf in
  let crc := if pon_crc_enabled buf then Some (crc32_ethernet_fcs (firstn n payload)) else None in
  let payload1 := match crc with Some c => splice payload n (le32 c) | None => payload end in
  let out := hdr ++ firstn (length payload) (ctr key iv payload1) in
  (out, pon_tag (pon_bip out) crc).

(* decrypt: returns (new frame, tag) *)
Definition pon_dec (ctr : bytes -> bytes -> bytes -> bytes) (key iv buf : bytes) : bytes * bytes :=
  let hdr := firstn pon_hdr_len buf in
  let payload := skipn pon_hdr_len buf in
  let n := pon_crc_len buf in
  let pt := firstn (length payload) (ctr key iv payload) in
  let crc := if pon_crc_enabled buf then Some (crc32_ethernet_fcs (firstn n pt)) else None in
  (hdr ++ pt, pon_tag (pon_bip buf) crc).

(* frame check a receiver performs after pon_dec when PLI > 4: the CRC carried
   in the plaintext equals the computed one *)
Definition pon_crc_ok (frame tag : bytes) : bool :=
  if pon_crc_enabled frame
  then forallb (fun p => N.eqb (fst p) (snd p))
         (combine (firstn 4 (skipn (pon_hdr_len + pon_crc_len frame) frame)) (skipn 4 tag))
  else true.
