(* Spec/SNOWV_Tests.v — KNOWN-ANSWER TESTS for Spec/SNOWV.v (tests, not theorems).
   Sources: SNOW-V paper (Ekdahl, Johansson, Maximov, Yang, ToSC 2019(3)) appendix
   test vectors: three 128-byte key streams (/repo/test/kat-app/snow_v_test.json.c
   tcId 1-3) and the six SNOW-V-GCM vectors (/repo/test/kat-app/snow_v_aead.json.c);
   the remaining library KATs of snow_v_test.json.c (tcId 4-73); plus samples of
   real-library output through the job API (identical on SSE / AVX2 / AVX512). *)
From IMB Require Import Lib.Bytes Spec.Hex Spec.SNOWV.
From Coq Require Import String.
Local Open Scope N_scope.
Local Open Scope string_scope.

(* ---- paper key stream vectors: 8 blocks (128 bytes) ---- *)
Example snowv_keystream_paper1 :
  snowv_keystream (hex "0000000000000000000000000000000000000000000000000000000000000000") (hex "00000000000000000000000000000000") 8
  = hex "69ca6daf9ae3b72db134a85a837e419dec08aad39d7b0f009b60b28c534300ed84abf594fb08a7f1f3a2df18e617683b481fa378079dcf04db53b5d629a9eb9d031c159dccd0a50c4d5dbf5115d87039c0d03ca1370c19400347a0b4d2e9dbe5cbca608214a26582cf680916b3451321954fdf3084af02f6a8e2481de6bf8279".
Proof. vm_compute. reflexivity. Qed.
Example snowv_keystream_paper2 :
  snowv_keystream (hex "ffffffffffffffffffffffffffffffffffffffffffffffffffffffffffffffff") (hex "ffffffffffffffffffffffffffffffff") 8
  = hex "307609fb101012544bc175e317fb25ff330d0de25af6aad10505b89b1e09a8ecdd4672ccbb98c7f2c4e24af5272836c87cc73a8176b39ce9303b3e764e9be3e748f7651a7c7e813fd52490231e56f7c144e438e77711a6b0bafb60450c62d7d9b9241d1244fcb49da1e52b8013decdd48604fffc62676e703b3ab849cba6ea09".
Proof. vm_compute. reflexivity. Qed.
Example snowv_keystream_paper3 :
  snowv_keystream (hex "505152535455565758595a5b5c5d5e5f0a1a2a3a4a5a6a7a8a9aaabacadaeafa") (hex "0123456789abcdeffedcba9876543210") 8
  = hex "aa81eafb8b8616ce3e5ce2222461c50a6ab4487756de4bd31c904f3d978afe56334f10dddf2b9531769a71050be4385fc2b6192c7a857be8b4fc28b709f08f11f20649e2eef24980f86c4c113641fed2f3f6fa2b91951206b801db15466517a6330adda6b35b265efd722e8677b48bfc15b44118de52d073b0ad0fe7594d6291".
Proof. vm_compute. reflexivity. Qed.

(* ---- library KATs snow_v_test.json.c tcId 4-73 (message lengths 0..9) ---- *)
Example snowv_tc4 : snowv (hex "67c6697351ff4aec29cdbaabf2fbe3467cc254f81be8e78d765a2e63339fc99a") (hex "66320db73158a35a255d051758e95ed4") (hex "") = hex "".
Proof. vm_compute. reflexivity. Qed.
Example snowv_tc5 : snowv (hex "67c6697351ff4aec29cdbaabf2fbe3467cc254f81be8e78d765a2e63339fc99a") (hex "00000000000000000000000000000000") (hex "") = hex "".
Proof. vm_compute. reflexivity. Qed.
Example snowv_tc6 : snowv (hex "67c6697351ff4aec29cdbaabf2fbe3467cc254f81be8e78d765a2e63339fc99a") (hex "ffffffffffffffffffffffffffffffff") (hex "") = hex "".
Proof. vm_compute. reflexivity. Qed.
Example snowv_tc7 : snowv (hex "0000000000000000000000000000000000000000000000000000000000000000") (hex "66320db73158a35a255d051758e95ed4") (hex "") = hex "".
Proof. vm_compute. reflexivity. Qed.
Example snowv_tc8 : snowv (hex "0000000000000000000000000000000000000000000000000000000000000000") (hex "00000000000000000000000000000000") (hex "") = hex "".
Proof. vm_compute. reflexivity. Qed.
Example snowv_tc9 : snowv (hex "ffffffffffffffffffffffffffffffffffffffffffffffffffffffffffffffff") (hex "66320db73158a35a255d051758e95ed4") (hex "") = hex "".
Proof. vm_compute. reflexivity. Qed.
Example snowv_tc10 : snowv (hex "ffffffffffffffffffffffffffffffffffffffffffffffffffffffffffffffff") (hex "ffffffffffffffffffffffffffffffff") (hex "") = hex "".
Proof. vm_compute. reflexivity. Qed.
Example snowv_tc11 : snowv (hex "abb2cdc69bb454110e827441213ddc8770e93ea141e1fc673e017e97eadc6b96") (hex "8f385c2aecb03bfb32af3c54ec18db5c") (hex "89") = hex "12".
Proof. vm_compute. reflexivity. Qed.
Example snowv_tc12 : snowv (hex "abb2cdc69bb454110e827441213ddc8770e93ea141e1fc673e017e97eadc6b96") (hex "00000000000000000000000000000000") (hex "89") = hex "03".
Proof. vm_compute. reflexivity. Qed.
Example snowv_tc13 : snowv (hex "abb2cdc69bb454110e827441213ddc8770e93ea141e1fc673e017e97eadc6b96") (hex "ffffffffffffffffffffffffffffffff") (hex "89") = hex "35".
Proof. vm_compute. reflexivity. Qed.
Example snowv_tc14 : snowv (hex "0000000000000000000000000000000000000000000000000000000000000000") (hex "8f385c2aecb03bfb32af3c54ec18db5c") (hex "89") = hex "0e".
Proof. vm_compute. reflexivity. Qed.
Example snowv_tc15 : snowv (hex "0000000000000000000000000000000000000000000000000000000000000000") (hex "00000000000000000000000000000000") (hex "89") = hex "e0".
Proof. vm_compute. reflexivity. Qed.
Example snowv_tc16 : snowv (hex "ffffffffffffffffffffffffffffffffffffffffffffffffffffffffffffffff") (hex "8f385c2aecb03bfb32af3c54ec18db5c") (hex "89") = hex "2a".
Proof. vm_compute. reflexivity. Qed.
Example snowv_tc17 : snowv (hex "ffffffffffffffffffffffffffffffffffffffffffffffffffffffffffffffff") (hex "ffffffffffffffffffffffffffffffff") (hex "89") = hex "b9".
Proof. vm_compute. reflexivity. Qed.
Example snowv_tc18 : snowv (hex "021afe43fbfaaa3afb29d1e6053c7c9475d8be6189f95cbba8990f95b1ebf1b3") (hex "05eff700e9a13ae5ca0bcbd0484764bd") (hex "d4b6") = hex "46de".
Proof. vm_compute. reflexivity. Qed.
Example snowv_tc19 : snowv (hex "021afe43fbfaaa3afb29d1e6053c7c9475d8be6189f95cbba8990f95b1ebf1b3") (hex "00000000000000000000000000000000") (hex "d4b6") = hex "70e9".
Proof. vm_compute. reflexivity. Qed.
Example snowv_tc20 : snowv (hex "021afe43fbfaaa3afb29d1e6053c7c9475d8be6189f95cbba8990f95b1ebf1b3") (hex "ffffffffffffffffffffffffffffffff") (hex "d4b6") = hex "ab8b".
Proof. vm_compute. reflexivity. Qed.
Example snowv_tc21 : snowv (hex "0000000000000000000000000000000000000000000000000000000000000000") (hex "05eff700e9a13ae5ca0bcbd0484764bd") (hex "d4b6") = hex "bcd6".
Proof. vm_compute. reflexivity. Qed.
Example snowv_tc22 : snowv (hex "0000000000000000000000000000000000000000000000000000000000000000") (hex "00000000000000000000000000000000") (hex "d4b6") = hex "bd7c".
Proof. vm_compute. reflexivity. Qed.
Example snowv_tc23 : snowv (hex "ffffffffffffffffffffffffffffffffffffffffffffffffffffffffffffffff") (hex "05eff700e9a13ae5ca0bcbd0484764bd") (hex "d4b6") = hex "7a47".
Proof. vm_compute. reflexivity. Qed.
Example snowv_tc24 : snowv (hex "ffffffffffffffffffffffffffffffffffffffffffffffffffffffffffffffff") (hex "ffffffffffffffffffffffffffffffff") (hex "d4b6") = hex "e4c0".
Proof. vm_compute. reflexivity. Qed.
Example snowv_tc25 : snowv (hex "1f231ea81c7b64c514735ac55e4b79633b706424119e09dcaad4acf21b10af3b") (hex "33cde3504847155cbb6f2219ba9b7df5") (hex "8367d8") = hex "d3158d".
Proof. vm_compute. reflexivity. Qed.
Example snowv_tc26 : snowv (hex "1f231ea81c7b64c514735ac55e4b79633b706424119e09dcaad4acf21b10af3b") (hex "00000000000000000000000000000000") (hex "8367d8") = hex "8c301f".
Proof. vm_compute. reflexivity. Qed.
Example snowv_tc27 : snowv (hex "1f231ea81c7b64c514735ac55e4b79633b706424119e09dcaad4acf21b10af3b") (hex "ffffffffffffffffffffffffffffffff") (hex "8367d8") = hex "3e437d".
Proof. vm_compute. reflexivity. Qed.
Example snowv_tc28 : snowv (hex "0000000000000000000000000000000000000000000000000000000000000000") (hex "33cde3504847155cbb6f2219ba9b7df5") (hex "8367d8") = hex "6edd4a".
Proof. vm_compute. reflexivity. Qed.
Example snowv_tc29 : snowv (hex "0000000000000000000000000000000000000000000000000000000000000000") (hex "00000000000000000000000000000000") (hex "8367d8") = hex "eaadb5".
Proof. vm_compute. reflexivity. Qed.
Example snowv_tc30 : snowv (hex "ffffffffffffffffffffffffffffffffffffffffffffffffffffffffffffffff") (hex "33cde3504847155cbb6f2219ba9b7df5") (hex "8367d8") = hex "b3d5a1".
Proof. vm_compute. reflexivity. Qed.
Example snowv_tc31 : snowv (hex "ffffffffffffffffffffffffffffffffffffffffffffffffffffffffffffffff") (hex "ffffffffffffffffffffffffffffffff") (hex "8367d8") = hex "b311d1".
Proof. vm_compute. reflexivity. Qed.
Example snowv_tc32 : snowv (hex "0be11a1c7f23f829f8a41b13b5ca4ee8983238e0794d3d34bc5f4e77facb6c05") (hex "ac86212baa1a55a2be70b5733b045cd3") (hex "7709d1a5") = hex "164c52a5".
Proof. vm_compute. reflexivity. Qed.
Example snowv_tc33 : snowv (hex "0be11a1c7f23f829f8a41b13b5ca4ee8983238e0794d3d34bc5f4e77facb6c05") (hex "00000000000000000000000000000000") (hex "7709d1a5") = hex "411ce0e4".
Proof. vm_compute. reflexivity. Qed.
Example snowv_tc34 : snowv (hex "0be11a1c7f23f829f8a41b13b5ca4ee8983238e0794d3d34bc5f4e77facb6c05") (hex "ffffffffffffffffffffffffffffffff") (hex "7709d1a5") = hex "703d33d6".
Proof. vm_compute. reflexivity. Qed.
Example snowv_tc35 : snowv (hex "0000000000000000000000000000000000000000000000000000000000000000") (hex "ac86212baa1a55a2be70b5733b045cd3") (hex "7709d1a5") = hex "aeb67005".
Proof. vm_compute. reflexivity. Qed.
Example snowv_tc36 : snowv (hex "0000000000000000000000000000000000000000000000000000000000000000") (hex "00000000000000000000000000000000") (hex "7709d1a5") = hex "1ec3bc0a".
Proof. vm_compute. reflexivity. Qed.
Example snowv_tc37 : snowv (hex "ffffffffffffffffffffffffffffffffffffffffffffffffffffffffffffffff") (hex "ac86212baa1a55a2be70b5733b045cd3") (hex "7709d1a5") = hex "9619acd2".
Proof. vm_compute. reflexivity. Qed.
Example snowv_tc38 : snowv (hex "ffffffffffffffffffffffffffffffffffffffffffffffffffffffffffffffff") (hex "ffffffffffffffffffffffffffffffff") (hex "7709d1a5") = hex "477fd85e".
Proof. vm_compute. reflexivity. Qed.
Example snowv_tc39 : snowv (hex "3694b3afe2f0e49e4f321549fd824ea90870d4b28a2954489a0abcd50e18a844") (hex "ac5bf38e4cd72d9b0942e506c433afcd") (hex "cd1668baac") = hex "d461947087".
Proof. vm_compute. reflexivity. Qed.
Example snowv_tc40 : snowv (hex "3694b3afe2f0e49e4f321549fd824ea90870d4b28a2954489a0abcd50e18a844") (hex "00000000000000000000000000000000") (hex "cd1668baac") = hex "0a61655374".
Proof. vm_compute. reflexivity. Qed.
Example snowv_tc41 : snowv (hex "3694b3afe2f0e49e4f321549fd824ea90870d4b28a2954489a0abcd50e18a844") (hex "ffffffffffffffffffffffffffffffff") (hex "cd1668baac") = hex "6c1244154d".
Proof. vm_compute. reflexivity. Qed.
Example snowv_tc42 : snowv (hex "0000000000000000000000000000000000000000000000000000000000000000") (hex "ac5bf38e4cd72d9b0942e506c433afcd") (hex "cd1668baac") = hex "0278e0ceed".
Proof. vm_compute. reflexivity. Qed.
Example snowv_tc43 : snowv (hex "0000000000000000000000000000000000000000000000000000000000000000") (hex "00000000000000000000000000000000") (hex "cd1668baac") = hex "a4dc051536".
Proof. vm_compute. reflexivity. Qed.
Example snowv_tc44 : snowv (hex "ffffffffffffffffffffffffffffffffffffffffffffffffffffffffffffffff") (hex "ac5bf38e4cd72d9b0942e506c433afcd") (hex "cd1668baac") = hex "bbce3a6813".
Proof. vm_compute. reflexivity. Qed.
Example snowv_tc45 : snowv (hex "ffffffffffffffffffffffffffffffffffffffffffffffffffffffffffffffff") (hex "ffffffffffffffffffffffffffffffff") (hex "cd1668baac") = hex "fd606141bc".
Proof. vm_compute. reflexivity. Qed.
Example snowv_tc46 : snowv (hex "a3847f2dadd47647de321cec4ac430f62023856cfbb20704f4ec0bb920ba86c3") (hex "3e05f1ecd96733b79950a3e314d3d934") (hex "08cf61c9c380") = hex "cd4a379bc48b".
Proof. vm_compute. reflexivity. Qed.
Example snowv_tc47 : snowv (hex "a3847f2dadd47647de321cec4ac430f62023856cfbb20704f4ec0bb920ba86c3") (hex "00000000000000000000000000000000") (hex "08cf61c9c380") = hex "23469fcd94d4".
Proof. vm_compute. reflexivity. Qed.
Example snowv_tc48 : snowv (hex "a3847f2dadd47647de321cec4ac430f62023856cfbb20704f4ec0bb920ba86c3") (hex "ffffffffffffffffffffffffffffffff") (hex "08cf61c9c380") = hex "baf173a15758".
Proof. vm_compute. reflexivity. Qed.
Example snowv_tc49 : snowv (hex "0000000000000000000000000000000000000000000000000000000000000000") (hex "3e05f1ecd96733b79950a3e314d3d934") (hex "08cf61c9c380") = hex "ed78212b90a3".
Proof. vm_compute. reflexivity. Qed.
Example snowv_tc50 : snowv (hex "0000000000000000000000000000000000000000000000000000000000000000") (hex "00000000000000000000000000000000") (hex "08cf61c9c380") = hex "61050c665963".
Proof. vm_compute. reflexivity. Qed.
Example snowv_tc51 : snowv (hex "ffffffffffffffffffffffffffffffffffffffffffffffffffffffffffffffff") (hex "3e05f1ecd96733b79950a3e314d3d934") (hex "08cf61c9c380") = hex "929ad1315433".
Proof. vm_compute. reflexivity. Qed.
Example snowv_tc52 : snowv (hex "ffffffffffffffffffffffffffffffffffffffffffffffffffffffffffffffff") (hex "ffffffffffffffffffffffffffffffff") (hex "08cf61c9c380") = hex "38b96832d390".
Proof. vm_compute. reflexivity. Qed.
Example snowv_tc53 : snowv (hex "f75ea0f210a8f6059401beb4bc4478fa4969e623d01ada696a7e4c7e5125b348") (hex "84533a94fb319990325744ee9bbce9e5") (hex "0287617c13629e") = hex "bfc89e4ccf933e".
Proof. vm_compute. reflexivity. Qed.
Example snowv_tc54 : snowv (hex "f75ea0f210a8f6059401beb4bc4478fa4969e623d01ada696a7e4c7e5125b348") (hex "00000000000000000000000000000000") (hex "0287617c13629e") = hex "90fb3572f34599".
Proof. vm_compute. reflexivity. Qed.
Example snowv_tc55 : snowv (hex "f75ea0f210a8f6059401beb4bc4478fa4969e623d01ada696a7e4c7e5125b348") (hex "ffffffffffffffffffffffffffffffff") (hex "0287617c13629e") = hex "0cbc6e7c67a749".
Proof. vm_compute. reflexivity. Qed.
Example snowv_tc56 : snowv (hex "0000000000000000000000000000000000000000000000000000000000000000") (hex "84533a94fb319990325744ee9bbce9e5") (hex "0287617c13629e") = hex "d6b0e9b6890cd0".
Proof. vm_compute. reflexivity. Qed.
Example snowv_tc57 : snowv (hex "0000000000000000000000000000000000000000000000000000000000000000") (hex "00000000000000000000000000000000") (hex "0287617c13629e") = hex "6b4d0cd3898129".
Proof. vm_compute. reflexivity. Qed.
Example snowv_tc58 : snowv (hex "ffffffffffffffffffffffffffffffffffffffffffffffffffffffffffffffff") (hex "84533a94fb319990325744ee9bbce9e5") (hex "0287617c13629e") = hex "e2fe73016afe53".
Proof. vm_compute. reflexivity. Qed.
Example snowv_tc59 : snowv (hex "ffffffffffffffffffffffffffffffffffffffffffffffffffffffffffffffff") (hex "ffffffffffffffffffffffffffffffff") (hex "0287617c13629e") = hex "32f1688703728c".
Proof. vm_compute. reflexivity. Qed.
Example snowv_tc60 : snowv (hex "25cf08f5e9e25e5360aad2b2d085fa54d835e8d466826498d9a8877565705a8a") (hex "3f62802944de7ca5894e5759d351adac") (hex "014df000108b67cf") = hex "346caac1a338ad4e".
Proof. vm_compute. reflexivity. Qed.
Example snowv_tc61 : snowv (hex "25cf08f5e9e25e5360aad2b2d085fa54d835e8d466826498d9a8877565705a8a") (hex "00000000000000000000000000000000") (hex "014df000108b67cf") = hex "119b077a3562b771".
Proof. vm_compute. reflexivity. Qed.
Example snowv_tc62 : snowv (hex "25cf08f5e9e25e5360aad2b2d085fa54d835e8d466826498d9a8877565705a8a") (hex "ffffffffffffffffffffffffffffffff") (hex "014df000108b67cf") = hex "6ad5aecf9ab0a79f".
Proof. vm_compute. reflexivity. Qed.
Example snowv_tc63 : snowv (hex "0000000000000000000000000000000000000000000000000000000000000000") (hex "3f62802944de7ca5894e5759d351adac") (hex "014df000108b67cf") = hex "01cb4f841add1e20".
Proof. vm_compute. reflexivity. Qed.
Example snowv_tc64 : snowv (hex "0000000000000000000000000000000000000000000000000000000000000000") (hex "00000000000000000000000000000000") (hex "014df000108b67cf") = hex "68879daf8a68d0e2".
Proof. vm_compute. reflexivity. Qed.
Example snowv_tc65 : snowv (hex "ffffffffffffffffffffffffffffffffffffffffffffffffffffffffffffffff") (hex "3f62802944de7ca5894e5759d351adac") (hex "014df000108b67cf") = hex "a34a7ddcb29dabf3".
Proof. vm_compute. reflexivity. Qed.
Example snowv_tc66 : snowv (hex "ffffffffffffffffffffffffffffffffffffffffffffffffffffffffffffffff") (hex "ffffffffffffffffffffffffffffffff") (hex "014df000108b67cf") = hex "313bf9fb009b759b".
Proof. vm_compute. reflexivity. Qed.
Example snowv_tc67 : snowv (hex "869580ec17e485f18c0c66f17cc07cbb22fce466da610b63af62bc83b4692f3a") (hex "ffaf271693ac071fb86d11342d8def4f") (hex "0dd8fd8b16c2a1a4e3") = hex "cd39b49cdf0c8aae75".
Proof. vm_compute. reflexivity. Qed.
Example snowv_tc68 : snowv (hex "869580ec17e485f18c0c66f17cc07cbb22fce466da610b63af62bc83b4692f3a") (hex "00000000000000000000000000000000") (hex "0dd8fd8b16c2a1a4e3") = hex "09e6db401a5df1bc3a".
Proof. vm_compute. reflexivity. Qed.
Example snowv_tc69 : snowv (hex "869580ec17e485f18c0c66f17cc07cbb22fce466da610b63af62bc83b4692f3a") (hex "ffffffffffffffffffffffffffffffff") (hex "0dd8fd8b16c2a1a4e3") = hex "13db04ccdbd5092ef9".
Proof. vm_compute. reflexivity. Qed.
Example snowv_tc70 : snowv (hex "0000000000000000000000000000000000000000000000000000000000000000") (hex "ffaf271693ac071fb86d11342d8def4f") (hex "0dd8fd8b16c2a1a4e3") = hex "fa27862d1b127d2f8b".
Proof. vm_compute. reflexivity. Qed.
Example snowv_tc71 : snowv (hex "0000000000000000000000000000000000000000000000000000000000000000") (hex "00000000000000000000000000000000") (hex "0dd8fd8b16c2a1a4e3") = hex "641290248c21168952".
Proof. vm_compute. reflexivity. Qed.
Example snowv_tc72 : snowv (hex "ffffffffffffffffffffffffffffffffffffffffffffffffffffffffffffffff") (hex "ffaf271693ac071fb86d11342d8def4f") (hex "0dd8fd8b16c2a1a4e3") = hex "7a8866ab26bcff20b1".
Proof. vm_compute. reflexivity. Qed.
Example snowv_tc73 : snowv (hex "ffffffffffffffffffffffffffffffffffffffffffffffffffffffffffffffff") (hex "ffffffffffffffffffffffffffffffff") (hex "0dd8fd8b16c2a1a4e3") = hex "3daef47006d2b3f0a8".
Proof. vm_compute. reflexivity. Qed.

(* ---- SNOW-V-GCM vectors from the paper (snow_v_aead.json.c) ---- *)
Example snowv_aead_enc_tc1 :
  snowv_aead_enc (hex "0000000000000000000000000000000000000000000000000000000000000000") (hex "00000000000000000000000000000000")
    (hex "") (hex "")
  = (hex "", hex "029a624cdaa4d46cb9a0ef4046956c9f").
Proof. vm_compute. reflexivity. Qed.
Example snowv_aead_dec_tc1 :
  snowv_aead_dec (hex "0000000000000000000000000000000000000000000000000000000000000000") (hex "00000000000000000000000000000000")
    (hex "") (hex "")
  = (hex "", hex "029a624cdaa4d46cb9a0ef4046956c9f").
Proof. vm_compute. reflexivity. Qed.
Example snowv_aead_enc_tc2 :
  snowv_aead_enc (hex "505152535455565758595a5b5c5d5e5f0a1a2a3a4a5a6a7a8a9aaabacadaeafa") (hex "0123456789abcdeffedcba9876543210")
    (hex "") (hex "")
  = (hex "", hex "fc7cac574c49feae6150315b9685424c").
Proof. vm_compute. reflexivity. Qed.
Example snowv_aead_dec_tc2 :
  snowv_aead_dec (hex "505152535455565758595a5b5c5d5e5f0a1a2a3a4a5a6a7a8a9aaabacadaeafa") (hex "0123456789abcdeffedcba9876543210")
    (hex "") (hex "")
  = (hex "", hex "fc7cac574c49feae6150315b9685424c").
Proof. vm_compute. reflexivity. Qed.
Example snowv_aead_enc_tc3 :
  snowv_aead_enc (hex "0000000000000000000000000000000000000000000000000000000000000000") (hex "00000000000000000000000000000000")
    (hex "30313233343536373839616263646566") (hex "")
  = (hex "", hex "5a5aa5fbd635ef1ae129614203e10384").
Proof. vm_compute. reflexivity. Qed.
Example snowv_aead_dec_tc3 :
  snowv_aead_dec (hex "0000000000000000000000000000000000000000000000000000000000000000") (hex "00000000000000000000000000000000")
    (hex "30313233343536373839616263646566") (hex "")
  = (hex "", hex "5a5aa5fbd635ef1ae129614203e10384").
Proof. vm_compute. reflexivity. Qed.
Example snowv_aead_enc_tc4 :
  snowv_aead_enc (hex "505152535455565758595a5b5c5d5e5f0a1a2a3a4a5a6a7a8a9aaabacadaeafa") (hex "0123456789abcdeffedcba9876543210")
    (hex "30313233343536373839616263646566") (hex "")
  = (hex "", hex "250ec8d77a022c087adf08b65adcbb1a").
Proof. vm_compute. reflexivity. Qed.
Example snowv_aead_dec_tc4 :
  snowv_aead_dec (hex "505152535455565758595a5b5c5d5e5f0a1a2a3a4a5a6a7a8a9aaabacadaeafa") (hex "0123456789abcdeffedcba9876543210")
    (hex "30313233343536373839616263646566") (hex "")
  = (hex "", hex "250ec8d77a022c087adf08b65adcbb1a").
Proof. vm_compute. reflexivity. Qed.
Example snowv_aead_enc_tc5 :
  snowv_aead_enc (hex "505152535455565758595a5b5c5d5e5f0a1a2a3a4a5a6a7a8a9aaabacadaeafa") (hex "0123456789abcdeffedcba9876543210")
    (hex "") (hex "30313233343536373839")
  = (hex "dd7e01b2b424a2ef8250", hex "ddfe4e31e7bfe6902331ec5ce319d90d").
Proof. vm_compute. reflexivity. Qed.
Example snowv_aead_dec_tc5 :
  snowv_aead_dec (hex "505152535455565758595a5b5c5d5e5f0a1a2a3a4a5a6a7a8a9aaabacadaeafa") (hex "0123456789abcdeffedcba9876543210")
    (hex "") (hex "dd7e01b2b424a2ef8250")
  = (hex "30313233343536373839", hex "ddfe4e31e7bfe6902331ec5ce319d90d").
Proof. vm_compute. reflexivity. Qed.
Example snowv_aead_enc_tc6 :
  snowv_aead_enc (hex "505152535455565758595a5b5c5d5e5f0a1a2a3a4a5a6a7a8a9aaabacadaeafa") (hex "0123456789abcdeffedcba9876543210")
    (hex "41414420746573742076616c756521") (hex "3031323334353637383961626364656620536e6f77562d41454144206d6f646521")
  = (hex "dd7e01b2b424a2ef82502707e87a32c152b0d01818fd7f12243eb5a15659e91b4c", hex "907ea6a5b73a51de747c3e9ad9ee029b").
Proof. vm_compute. reflexivity. Qed.
Example snowv_aead_dec_tc6 :
  snowv_aead_dec (hex "505152535455565758595a5b5c5d5e5f0a1a2a3a4a5a6a7a8a9aaabacadaeafa") (hex "0123456789abcdeffedcba9876543210")
    (hex "41414420746573742076616c756521") (hex "dd7e01b2b424a2ef82502707e87a32c152b0d01818fd7f12243eb5a15659e91b4c")
  = (hex "3031323334353637383961626364656620536e6f77562d41454144206d6f646521", hex "907ea6a5b73a51de747c3e9ad9ee029b").
Proof. vm_compute. reflexivity. Qed.
Example snowv_aead_dec_verify_ok :
  snowv_aead_dec_verify (hex "505152535455565758595a5b5c5d5e5f0a1a2a3a4a5a6a7a8a9aaabacadaeafa") (hex "0123456789abcdeffedcba9876543210") (hex "41414420746573742076616c756521") (hex "dd7e01b2b424a2ef82502707e87a32c152b0d01818fd7f12243eb5a15659e91b4c") (hex "907ea6a5b73a51de747c3e9ad9ee029b") = Some (hex "3031323334353637383961626364656620536e6f77562d41454144206d6f646521").
Proof. vm_compute. reflexivity. Qed.
Example snowv_aead_dec_verify_bad :
  snowv_aead_dec_verify (hex "505152535455565758595a5b5c5d5e5f0a1a2a3a4a5a6a7a8a9aaabacadaeafa") (hex "0123456789abcdeffedcba9876543210") (hex "41414420746573742076616c756521") (hex "dd7e01b2b424a2ef82502707e87a32c152b0d01818fd7f12243eb5a15659e91b4c") (hex "917ea6a5b73a51de747c3e9ad9ee029b") = None.
Proof. vm_compute. reflexivity. Qed.

(* GF(2^128) sanity: H * 1 = H where "1" is the block 80 00..00 *)
Example gf128_mul_one : gf128_mul (be_to_N (hex "66e94bd4ef8a2c3b884cfa59ca342b2e")) (N.shiftl 1 127)
  = be_to_N (hex "66e94bd4ef8a2c3b884cfa59ca342b2e").
Proof. vm_compute. reflexivity. Qed.
(* GHASH check against NIST GCM test case 2 (H = 66e9..2b2e, C = 0388dace60b6a392f328c2b971b2fe78):
   GHASH = f38cbb1ad69223dcc3457ae5b6b0f885 *)
Example snowv_ghash_gcm_tc2 :
  snowv_ghash (hex "66e94bd4ef8a2c3b884cfa59ca342b2e") [] (hex "0388dace60b6a392f328c2b971b2fe78")
  = hex "f38cbb1ad69223dcc3457ae5b6b0f885".
Proof. vm_compute. reflexivity. Qed.

(* ---- samples of real library output (job API; SSE = AVX2 = AVX512) ---- *)
Example snowv_lib_sample_1 : snowv (hex "76c8b30d3f94776665b1dad28e3b52fd1444ea94d358d42ebbbdb5721d08f87c") (hex "c60ff48a83ec1765663f641bcb6be75b")
  (hex "10")
  = hex "7a".
Proof. vm_compute. reflexivity. Qed.
Example snowv_lib_sample_17 : snowv (hex "85a388d9fe0581d95196d2464bd0e36c4f1309efb2f40bdfede47a141a8a6c0f") (hex "0206b23973f96ff956d88f16a6310f35")
  (hex "01844226fb76752adf4e09b2c701be6f6d")
  = hex "2d15c3aa74bee7f105c9ac46343ad9bc5a".
Proof. vm_compute. reflexivity. Qed.
Example snowv_lib_sample_65 : snowv (hex "aaa3aa4b62fcf0f997d6dc6d81d5bdace66abbc169cd1a11eefce4f4970e3da9") (hex "4a1e0faca9efa96966ad96ebb230658b")
  (hex "fb085b2bd3b68a251b9ac11fe8c2d742f61e91ed3afa1d11ea16e651ddcda0c6a13fa15a568cb03a2d3d8b5ad4099f10253fbb43272940dbee291c68e9be76c165")
  = hex "11b0facd7b3415990499dfb5c4adf9809a01b6b4bb35e8d45af1831b55e91100916f09c3c60b840309d6d8612c4bb641d8f8f609516d24fb3999dd56e6cdc50cc3".
Proof. vm_compute. reflexivity. Qed.
Example snowv_lib_sample_100 : snowv (hex "16b2d38e9c2202ac773131bf97fc9cde3527b8621c56429e36513c3c05e76e1a") (hex "1e593c5d4eb5299969e1ea6f3a81306e")
  (hex "0cc9680172b9a4364245c440a8b761f960b6589af847910258e01d02eaa5d73207e717f9753838bdb30738008feef178f3ffc6e35ea34676ee0ef941462232ed61811d7dcbe48c4f46f3f378ce666fa44fe2d064eb5cda6fe8fcb161aa6a4b9d3b7d66b7")
  = hex "63888ba1bc9946be93f3a9da86f37355f9c89f320041733c4da3bbfcace7cc63b2c964ece8fbcb425ebc4a3a93762ef317257788eea95d54c95b7d283b84f5f137e74bb30a6593618a9710a31bbcfef078f36e0aeae105c1c1afce8b288e18fffd09f112".
Proof. vm_compute. reflexivity. Qed.
Example snowv_aead_enc_lib_aad0_len1 : snowv_aead_enc (hex "3fd4bc6d9dfb14f424c47fb3dfcf7b0895acde9c45fe8066d3d1b6b7cbebd85c") (hex "4dc2949f0e699ac25b9c371da463591d")
  (hex "")
  (hex "92")
  = (hex "d2", hex "2a60fdb0c6afc27cbeb358f26538658f").
Proof. vm_compute. reflexivity. Qed.
Example snowv_aead_dec_lib_aad0_len1 : snowv_aead_dec (hex "b770d7e76233fd86f1c8b99e1f078991633f24bcb4f9d4f5fb8273c640cf2ab6") (hex "3e6644e683de74516bd0e35d83e79dc6")
  (hex "")
  (hex "9a")
  = (hex "27", hex "2d3dc0bdb51c18e6427360ed615cdcaa").
Proof. vm_compute. reflexivity. Qed.
Example snowv_aead_enc_lib_aad1_len0 : snowv_aead_enc (hex "37abf6dfbddeda3ee0488b8ce57ac5bd2c96c69f29dd5d22c61572de51a6a7a4") (hex "e76f45984318935449d00e369eab6b12")
  (hex "2f")
  (hex "")
  = (hex "", hex "fc00739c581bd3d81cef936239e02d18").
Proof. vm_compute. reflexivity. Qed.
Example snowv_aead_dec_lib_aad1_len0 : snowv_aead_dec (hex "3bb0dbad8d811f4a9106d3e07b2600d3f402bd1789bd6d1533dd42e6e206b2d5") (hex "2f79f66209b21274648a827920c6a5af")
  (hex "36")
  (hex "")
  = (hex "", hex "2ddbbe03602170b3057db833ffe7b907").
Proof. vm_compute. reflexivity. Qed.
Example snowv_aead_enc_lib_aad15_len17 : snowv_aead_enc (hex "a8513f33571832e4eb5cd71f7cf0c352320e733d9679b483cc30bf63d5549d7c") (hex "b591b217dfe6e15c2628b3bd4be16125")
  (hex "f370ffee7c9a6c4adc542be691425a")
  (hex "8aee902acbd3db5ba30ad6e96d8f3d9c8b")
  = (hex "2a555b16565eeefa21c98a346fd4a73494", hex "f1d46dbe43aaa486e4a69325e421d73e").
Proof. vm_compute. reflexivity. Qed.
Example snowv_aead_dec_lib_aad15_len17 : snowv_aead_dec (hex "12d11ea67fe998e2934d3d4e9ab4ec1bff0ad11d179f4cf0891984f3bdf40fb5") (hex "6baa2483be8677ee4c23879aff383827")
  (hex "3a316eeec8489859596ec1345b3b6b")
  (hex "8651809db20c627094184579534b3df607")
  = (hex "3689620fa8b2acc0dd98906fa237d7118e", hex "45a40dd5879a303fb30348486ac3afc7").
Proof. vm_compute. reflexivity. Qed.
Example snowv_aead_enc_lib_aad16_len16 : snowv_aead_enc (hex "0afeaaa126bb261944304a7ed0bf10d27a344bb7a7a4a4f083c3b10ad8dfdb1e") (hex "c95f22a5a9bfe48232d8d1286365d402")
  (hex "e599723842cca592a1647bafa3ff57a0")
  (hex "602944610a6035f79cbdca4adee7ad98")
  = (hex "9329435eb3f6cea6bfb5533104681fe4", hex "53a1d795191e2b09bebc6dd2b571845c").
Proof. vm_compute. reflexivity. Qed.
Example snowv_aead_dec_lib_aad16_len16 : snowv_aead_dec (hex "15aaf25c7ab92f62a588d3072888d74f12ae82b818356ba450cce618b859696b") (hex "3d1beebfa2287f8859c38781343cae0d")
  (hex "1e2be6efc8a26b18ad3b729218fa35d8")
  (hex "8895f0423130a99dd4e2f28c601867c6")
  = (hex "036f05552261addf80a50340439643dc", hex "0633614cfee323d44cf8fab97be1de88").
Proof. vm_compute. reflexivity. Qed.
Example snowv_aead_enc_lib_aad17_len15 : snowv_aead_enc (hex "ee39f669537fc76e78a73f3839ae23cd285661ab3b8257a04e10fd3a3972a38b") (hex "e1c7ffff1b9542140b70468f4e82d6eb")
  (hex "7ec0c4509d2025adf450ebd4cd1b6e6542")
  (hex "b2a47a8955e3870a89a876aa2fa122")
  = (hex "aaa301fc676cb3daa0da12bf3ef287", hex "3490262edc3046cfe7d7fdfe917739cd").
Proof. vm_compute. reflexivity. Qed.
Example snowv_aead_dec_lib_aad17_len15 : snowv_aead_dec (hex "e5fd8b309451cab67919251fb1597ba7dc8dc45d99acce4a553eb29240e231a7") (hex "4eb7226e13353d79ed49cb4f4898ddeb")
  (hex "f805c8bdf63cf48a10f977c5a733d8b152")
  (hex "46e810a5a2e4d710f02e6073b63822")
  = (hex "73835d4d9cf69e41b725b1be58beaf", hex "8b04f6bdf03df353d8f3b59ade766d0a").
Proof. vm_compute. reflexivity. Qed.
Example snowv_aead_enc_lib_aad100_len100 : snowv_aead_enc (hex "ba74dcf8cd2e35e8136e6caa800159022c4ee9745fda082b66268f6486ab0724") (hex "da5a4b0b546d84781f7929d6231b8700")
  (hex "1466e01bcd8c1d9555158b334aa31da6795a52a4b69237b122c1253f3ba5a84718d8bc0d24c966b9888da00d5cc8fb924e707ffc8f874b791841bce9d6545b43fc72bf16647db7efcdb6c5933cb1fddab40282df1d36a5427d9f7fe5336ef60b16d2b51b")
  (hex "e5c7268a0a60b51274e70b5520d33b5a2e86b262a2d545880b366989abc37df1792c331f602efa32ecbe23d8eef8dae3e834a2653d9f062ecb21125ac0410a2f8d85a1dbaa6a29edcac30645fc02af51d8f8d902b629c5333b3bd589561c69d6b6500817")
  = (hex "6a476c066fb1bfa84796a6f40bae1c2ef12a102ad450253da5ab455d28a66871a31d503e420a460ca94bd917446c4ee7f8021da4be3335e1398b7b6c7bb2198ac9f4a61fc25456e4034e9f0e84eb52e459c19f5b74f1ceda9a9f5280972ebaf4e8fb48e7", hex "bf240a4fac94fd63c59bd4bb94ff63df").
Proof. vm_compute. reflexivity. Qed.
Example snowv_aead_dec_lib_aad100_len100 : snowv_aead_dec (hex "b23c8d3e2ef6964bf7616228118de19e5b660708c4adc6db7766790129bc0a56") (hex "7981f568aefe9c3e6256898043d67e60")
  (hex "68ebdde65c7f2296b3434da7250f6d0885e0c5b3439b5d691bf8a4feef53ca75cec89d4be3503a3beaf4ded32ad91bb2d37bd32c92f98b68faa2bcf9a1b18f94503eb093f6a9dad5e8ec2bcb9ac670a1a0f15bbb8a48ac47e30902aaf9517082751f42d6")
  (hex "905e11c02b2438da8c57db157595fa7aa6b215d9a22adf490d7fecaea55598e1de25760306d21824272bdd1d5a0a85f0496d836f68c931ecf7680b7b4d3a726ad1b8bb52e6d58c319cf91cfac2775fa0b69ebfe13d622a7d749e4b30e1bfcba96b046b46")
  = (hex "e2d4146d0282d20a89480f48f946124dc4612ab26fe9a9a2aa8910e0b729c64ab81f386096cbca82bfb496df4801e3ae70ec164c6318b9b9d685bc00e699a45c41e24b66b84046e730688a6d4ee5dd4731a172ad96183e273875f595c3cd6e3b85d9aca8", hex "ffd22d3ce9d6d12bd029375c107642a8").
Proof. vm_compute. reflexivity. Qed.
