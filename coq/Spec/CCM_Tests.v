(* Spec/CCM_Tests.v — TESTS (known-answer vectors and library cross-checks) for
   Spec/CCM.v.  These are point checks, not theorems about all inputs. *)
From Coq Require Import String.
From IMB Require Import Lib.Bytes Spec.Hex Spec.AES Spec.CCM.
Local Open Scope N_scope.
Local Open Scope string_scope.

(* ------------------------------------------------------------------ *)
(* RFC 3610 section 8 packet vectors #1..#24 (AES-128; first 8 or 12   *)
(* bytes of each packet are the AAD).  Same data as                    *)
(* /repo/test/kat-app/ccm_test.json.c.                                 *)
(* ------------------------------------------------------------------ *)

(* RFC 3610 Packet Vector #1: nonce 13 B, AAD 8 B, msg 23 B, M = 8 *)
Example ccm_rfc3610_pv1_enc :
  ccm_enc (hex "c0c1c2c3c4c5c6c7c8c9cacbcccdcecf")
          (hex "00000003020100a0a1a2a3a4a5")
          (hex "0001020304050607")
          (hex "08090a0b0c0d0e0f101112131415161718191a1b1c1d1e") 8
  = (hex "588c979a61c663d2f066d0c2c0f989806d5f6b61dac384",
     hex "17e8d12cfdf926e0").
Proof. vm_compute. reflexivity. Qed.
Example ccm_rfc3610_pv1_dec :
  ccm_dec (hex "c0c1c2c3c4c5c6c7c8c9cacbcccdcecf")
          (hex "00000003020100a0a1a2a3a4a5")
          (hex "0001020304050607")
          (hex "588c979a61c663d2f066d0c2c0f989806d5f6b61dac384") 8
  = (hex "08090a0b0c0d0e0f101112131415161718191a1b1c1d1e",
     hex "17e8d12cfdf926e0").
Proof. vm_compute. reflexivity. Qed.

(* RFC 3610 Packet Vector #2: nonce 13 B, AAD 8 B, msg 24 B, M = 8 *)
Example ccm_rfc3610_pv2_enc :
  ccm_enc (hex "c0c1c2c3c4c5c6c7c8c9cacbcccdcecf")
          (hex "00000004030201a0a1a2a3a4a5")
          (hex "0001020304050607")
          (hex "08090a0b0c0d0e0f101112131415161718191a1b1c1d1e1f") 8
  = (hex "72c91a36e135f8cf291ca894085c87e3cc15c439c9e43a3b",
     hex "a091d56e10400916").
Proof. vm_compute. reflexivity. Qed.
Example ccm_rfc3610_pv2_dec :
  ccm_dec (hex "c0c1c2c3c4c5c6c7c8c9cacbcccdcecf")
          (hex "00000004030201a0a1a2a3a4a5")
          (hex "0001020304050607")
          (hex "72c91a36e135f8cf291ca894085c87e3cc15c439c9e43a3b") 8
  = (hex "08090a0b0c0d0e0f101112131415161718191a1b1c1d1e1f",
     hex "a091d56e10400916").
Proof. vm_compute. reflexivity. Qed.

(* RFC 3610 Packet Vector #3: nonce 13 B, AAD 8 B, msg 25 B, M = 8 *)
Example ccm_rfc3610_pv3_enc :
  ccm_enc (hex "c0c1c2c3c4c5c6c7c8c9cacbcccdcecf")
          (hex "00000005040302a0a1a2a3a4a5")
          (hex "0001020304050607")
          (hex "08090a0b0c0d0e0f101112131415161718191a1b1c1d1e1f20") 8
  = (hex "51b1e5f44a197d1da46b0f8e2d282ae871e838bb64da859657",
     hex "4adaa76fbd9fb0c5").
Proof. vm_compute. reflexivity. Qed.
Example ccm_rfc3610_pv3_dec :
  ccm_dec (hex "c0c1c2c3c4c5c6c7c8c9cacbcccdcecf")
          (hex "00000005040302a0a1a2a3a4a5")
          (hex "0001020304050607")
          (hex "51b1e5f44a197d1da46b0f8e2d282ae871e838bb64da859657") 8
  = (hex "08090a0b0c0d0e0f101112131415161718191a1b1c1d1e1f20",
     hex "4adaa76fbd9fb0c5").
Proof. vm_compute. reflexivity. Qed.

(* RFC 3610 Packet Vector #4: nonce 13 B, AAD 12 B, msg 19 B, M = 8 *)
Example ccm_rfc3610_pv4_enc :
  ccm_enc (hex "c0c1c2c3c4c5c6c7c8c9cacbcccdcecf")
          (hex "00000006050403a0a1a2a3a4a5")
          (hex "000102030405060708090a0b")
          (hex "0c0d0e0f101112131415161718191a1b1c1d1e") 8
  = (hex "a28c6865939a9a79faaa5c4c2a9d4a91cdac8c",
     hex "96c861b9c9e61ef1").
Proof. vm_compute. reflexivity. Qed.
Example ccm_rfc3610_pv4_dec :
  ccm_dec (hex "c0c1c2c3c4c5c6c7c8c9cacbcccdcecf")
          (hex "00000006050403a0a1a2a3a4a5")
          (hex "000102030405060708090a0b")
          (hex "a28c6865939a9a79faaa5c4c2a9d4a91cdac8c") 8
  = (hex "0c0d0e0f101112131415161718191a1b1c1d1e",
     hex "96c861b9c9e61ef1").
Proof. vm_compute. reflexivity. Qed.

(* RFC 3610 Packet Vector #5: nonce 13 B, AAD 12 B, msg 20 B, M = 8 *)
Example ccm_rfc3610_pv5_enc :
  ccm_enc (hex "c0c1c2c3c4c5c6c7c8c9cacbcccdcecf")
          (hex "00000007060504a0a1a2a3a4a5")
          (hex "000102030405060708090a0b")
          (hex "0c0d0e0f101112131415161718191a1b1c1d1e1f") 8
  = (hex "dcf1fb7b5d9e23fb9d4e131253658ad86ebdca3e",
     hex "51e83f077d9c2d93").
Proof. vm_compute. reflexivity. Qed.
Example ccm_rfc3610_pv5_dec :
  ccm_dec (hex "c0c1c2c3c4c5c6c7c8c9cacbcccdcecf")
          (hex "00000007060504a0a1a2a3a4a5")
          (hex "000102030405060708090a0b")
          (hex "dcf1fb7b5d9e23fb9d4e131253658ad86ebdca3e") 8
  = (hex "0c0d0e0f101112131415161718191a1b1c1d1e1f",
     hex "51e83f077d9c2d93").
Proof. vm_compute. reflexivity. Qed.

(* RFC 3610 Packet Vector #6: nonce 13 B, AAD 12 B, msg 21 B, M = 8 *)
Example ccm_rfc3610_pv6_enc :
  ccm_enc (hex "c0c1c2c3c4c5c6c7c8c9cacbcccdcecf")
          (hex "00000008070605a0a1a2a3a4a5")
          (hex "000102030405060708090a0b")
          (hex "0c0d0e0f101112131415161718191a1b1c1d1e1f20") 8
  = (hex "6fc1b011f006568b5171a42d953d469b2570a4bd87",
     hex "405a0443ac91cb94").
Proof. vm_compute. reflexivity. Qed.
Example ccm_rfc3610_pv6_dec :
  ccm_dec (hex "c0c1c2c3c4c5c6c7c8c9cacbcccdcecf")
          (hex "00000008070605a0a1a2a3a4a5")
          (hex "000102030405060708090a0b")
          (hex "6fc1b011f006568b5171a42d953d469b2570a4bd87") 8
  = (hex "0c0d0e0f101112131415161718191a1b1c1d1e1f20",
     hex "405a0443ac91cb94").
Proof. vm_compute. reflexivity. Qed.

(* RFC 3610 Packet Vector #7: nonce 13 B, AAD 8 B, msg 23 B, M = 10 *)
Example ccm_rfc3610_pv7_enc :
  ccm_enc (hex "c0c1c2c3c4c5c6c7c8c9cacbcccdcecf")
          (hex "00000009080706a0a1a2a3a4a5")
          (hex "0001020304050607")
          (hex "08090a0b0c0d0e0f101112131415161718191a1b1c1d1e") 10
  = (hex "0135d1b2c95f41d5d1d4fec185d166b8094e999dfed96c",
     hex "048c56602c97acbb7490").
Proof. vm_compute. reflexivity. Qed.
Example ccm_rfc3610_pv7_dec :
  ccm_dec (hex "c0c1c2c3c4c5c6c7c8c9cacbcccdcecf")
          (hex "00000009080706a0a1a2a3a4a5")
          (hex "0001020304050607")
          (hex "0135d1b2c95f41d5d1d4fec185d166b8094e999dfed96c") 10
  = (hex "08090a0b0c0d0e0f101112131415161718191a1b1c1d1e",
     hex "048c56602c97acbb7490").
Proof. vm_compute. reflexivity. Qed.

(* RFC 3610 Packet Vector #8: nonce 13 B, AAD 8 B, msg 24 B, M = 10 *)
Example ccm_rfc3610_pv8_enc :
  ccm_enc (hex "c0c1c2c3c4c5c6c7c8c9cacbcccdcecf")
          (hex "0000000a090807a0a1a2a3a4a5")
          (hex "0001020304050607")
          (hex "08090a0b0c0d0e0f101112131415161718191a1b1c1d1e1f") 10
  = (hex "7b75399ac0831dd2f0bbd75879a2fd8f6cae6b6cd9b7db24",
     hex "c17b4433f434963f34b4").
Proof. vm_compute. reflexivity. Qed.
Example ccm_rfc3610_pv8_dec :
  ccm_dec (hex "c0c1c2c3c4c5c6c7c8c9cacbcccdcecf")
          (hex "0000000a090807a0a1a2a3a4a5")
          (hex "0001020304050607")
          (hex "7b75399ac0831dd2f0bbd75879a2fd8f6cae6b6cd9b7db24") 10
  = (hex "08090a0b0c0d0e0f101112131415161718191a1b1c1d1e1f",
     hex "c17b4433f434963f34b4").
Proof. vm_compute. reflexivity. Qed.

(* RFC 3610 Packet Vector #9: nonce 13 B, AAD 8 B, msg 25 B, M = 10 *)
Example ccm_rfc3610_pv9_enc :
  ccm_enc (hex "c0c1c2c3c4c5c6c7c8c9cacbcccdcecf")
          (hex "0000000b0a0908a0a1a2a3a4a5")
          (hex "0001020304050607")
          (hex "08090a0b0c0d0e0f101112131415161718191a1b1c1d1e1f20") 10
  = (hex "82531a60cc24945a4b8279181ab5c84df21ce7f9b73f42e197",
     hex "ea9c07e56b5eb17e5f4e").
Proof. vm_compute. reflexivity. Qed.
Example ccm_rfc3610_pv9_dec :
  ccm_dec (hex "c0c1c2c3c4c5c6c7c8c9cacbcccdcecf")
          (hex "0000000b0a0908a0a1a2a3a4a5")
          (hex "0001020304050607")
          (hex "82531a60cc24945a4b8279181ab5c84df21ce7f9b73f42e197") 10
  = (hex "08090a0b0c0d0e0f101112131415161718191a1b1c1d1e1f20",
     hex "ea9c07e56b5eb17e5f4e").
Proof. vm_compute. reflexivity. Qed.

(* RFC 3610 Packet Vector #10: nonce 13 B, AAD 12 B, msg 19 B, M = 10 *)
Example ccm_rfc3610_pv10_enc :
  ccm_enc (hex "c0c1c2c3c4c5c6c7c8c9cacbcccdcecf")
          (hex "0000000c0b0a09a0a1a2a3a4a5")
          (hex "000102030405060708090a0b")
          (hex "0c0d0e0f101112131415161718191a1b1c1d1e") 10
  = (hex "07342594157785152b074098330abb141b947b",
     hex "566aa9406b4d999988dd").
Proof. vm_compute. reflexivity. Qed.
Example ccm_rfc3610_pv10_dec :
  ccm_dec (hex "c0c1c2c3c4c5c6c7c8c9cacbcccdcecf")
          (hex "0000000c0b0a09a0a1a2a3a4a5")
          (hex "000102030405060708090a0b")
          (hex "07342594157785152b074098330abb141b947b") 10
  = (hex "0c0d0e0f101112131415161718191a1b1c1d1e",
     hex "566aa9406b4d999988dd").
Proof. vm_compute. reflexivity. Qed.

(* RFC 3610 Packet Vector #11: nonce 13 B, AAD 12 B, msg 20 B, M = 10 *)
Example ccm_rfc3610_pv11_enc :
  ccm_enc (hex "c0c1c2c3c4c5c6c7c8c9cacbcccdcecf")
          (hex "0000000d0c0b0aa0a1a2a3a4a5")
          (hex "000102030405060708090a0b")
          (hex "0c0d0e0f101112131415161718191a1b1c1d1e1f") 10
  = (hex "676bb20380b0e301e8ab79590a396da78b834934",
     hex "f53aa2e9107a8b6c022c").
Proof. vm_compute. reflexivity. Qed.
Example ccm_rfc3610_pv11_dec :
  ccm_dec (hex "c0c1c2c3c4c5c6c7c8c9cacbcccdcecf")
          (hex "0000000d0c0b0aa0a1a2a3a4a5")
          (hex "000102030405060708090a0b")
          (hex "676bb20380b0e301e8ab79590a396da78b834934") 10
  = (hex "0c0d0e0f101112131415161718191a1b1c1d1e1f",
     hex "f53aa2e9107a8b6c022c").
Proof. vm_compute. reflexivity. Qed.

(* RFC 3610 Packet Vector #12: nonce 13 B, AAD 12 B, msg 21 B, M = 10 *)
Example ccm_rfc3610_pv12_enc :
  ccm_enc (hex "c0c1c2c3c4c5c6c7c8c9cacbcccdcecf")
          (hex "0000000e0d0c0ba0a1a2a3a4a5")
          (hex "000102030405060708090a0b")
          (hex "0c0d0e0f101112131415161718191a1b1c1d1e1f20") 10
  = (hex "c0ffa0d6f05bdb67f24d43a4338d2aa4bed7b20e43",
     hex "cd1aa31662e7ad65d6db").
Proof. vm_compute. reflexivity. Qed.
Example ccm_rfc3610_pv12_dec :
  ccm_dec (hex "c0c1c2c3c4c5c6c7c8c9cacbcccdcecf")
          (hex "0000000e0d0c0ba0a1a2a3a4a5")
          (hex "000102030405060708090a0b")
          (hex "c0ffa0d6f05bdb67f24d43a4338d2aa4bed7b20e43") 10
  = (hex "0c0d0e0f101112131415161718191a1b1c1d1e1f20",
     hex "cd1aa31662e7ad65d6db").
Proof. vm_compute. reflexivity. Qed.

(* RFC 3610 Packet Vector #13: nonce 13 B, AAD 8 B, msg 23 B, M = 8 *)
Example ccm_rfc3610_pv13_enc :
  ccm_enc (hex "d7828d13b2b0bdc325a76236df93cc6b")
          (hex "00412b4ea9cdbe3c9696766cfa")
          (hex "0be1a88bace018b1")
          (hex "08e8cf97d820ea258460e96ad9cf5289054d895ceac47c") 8
  = (hex "4cb97f86a2a4689a877947ab8091ef5386a6ffbdd080f8",
     hex "e78cf7cb0cddd7b3").
Proof. vm_compute. reflexivity. Qed.
Example ccm_rfc3610_pv13_dec :
  ccm_dec (hex "d7828d13b2b0bdc325a76236df93cc6b")
          (hex "00412b4ea9cdbe3c9696766cfa")
          (hex "0be1a88bace018b1")
          (hex "4cb97f86a2a4689a877947ab8091ef5386a6ffbdd080f8") 8
  = (hex "08e8cf97d820ea258460e96ad9cf5289054d895ceac47c",
     hex "e78cf7cb0cddd7b3").
Proof. vm_compute. reflexivity. Qed.

(* RFC 3610 Packet Vector #14: nonce 13 B, AAD 8 B, msg 24 B, M = 8 *)
Example ccm_rfc3610_pv14_enc :
  ccm_enc (hex "d7828d13b2b0bdc325a76236df93cc6b")
          (hex "0033568ef7b2633c9696766cfa")
          (hex "63018f76dc8a1bcb")
          (hex "9020ea6f91bdd85afa0039ba4baff9bfb79c7028949cd0ec") 8
  = (hex "4ccb1e7ca981befaa0726c55d378061298c85c92814abc33",
     hex "c52ee81d7d77c08a").
Proof. vm_compute. reflexivity. Qed.
Example ccm_rfc3610_pv14_dec :
  ccm_dec (hex "d7828d13b2b0bdc325a76236df93cc6b")
          (hex "0033568ef7b2633c9696766cfa")
          (hex "63018f76dc8a1bcb")
          (hex "4ccb1e7ca981befaa0726c55d378061298c85c92814abc33") 8
  = (hex "9020ea6f91bdd85afa0039ba4baff9bfb79c7028949cd0ec",
     hex "c52ee81d7d77c08a").
Proof. vm_compute. reflexivity. Qed.

(* RFC 3610 Packet Vector #15: nonce 13 B, AAD 8 B, msg 25 B, M = 8 *)
Example ccm_rfc3610_pv15_enc :
  ccm_enc (hex "d7828d13b2b0bdc325a76236df93cc6b")
          (hex "00103fe41336713c9696766cfa")
          (hex "aa6cfa36cae86b40")
          (hex "b916e0eacc1c00d7dcec68ec0b3bbb1a02de8a2d1aa346132e") 8
  = (hex "b1d23a2220ddc0ac900d9aa03c61fcf4a559a4417767089708",
     hex "a776796edb723506").
Proof. vm_compute. reflexivity. Qed.
Example ccm_rfc3610_pv15_dec :
  ccm_dec (hex "d7828d13b2b0bdc325a76236df93cc6b")
          (hex "00103fe41336713c9696766cfa")
          (hex "aa6cfa36cae86b40")
          (hex "b1d23a2220ddc0ac900d9aa03c61fcf4a559a4417767089708") 8
  = (hex "b916e0eacc1c00d7dcec68ec0b3bbb1a02de8a2d1aa346132e",
     hex "a776796edb723506").
Proof. vm_compute. reflexivity. Qed.

(* RFC 3610 Packet Vector #16: nonce 13 B, AAD 12 B, msg 19 B, M = 8 *)
Example ccm_rfc3610_pv16_enc :
  ccm_enc (hex "d7828d13b2b0bdc325a76236df93cc6b")
          (hex "00764c63b8058e3c9696766cfa")
          (hex "d0d0735c531e1becf049c244")
          (hex "12daac5630efa5396f770ce1a66b21f7b2101c") 8
  = (hex "14d253c3967b70609b7cbb7c49916028324526",
     hex "9a6f49975bcadeaf").
Proof. vm_compute. reflexivity. Qed.
Example ccm_rfc3610_pv16_dec :
  ccm_dec (hex "d7828d13b2b0bdc325a76236df93cc6b")
          (hex "00764c63b8058e3c9696766cfa")
          (hex "d0d0735c531e1becf049c244")
          (hex "14d253c3967b70609b7cbb7c49916028324526") 8
  = (hex "12daac5630efa5396f770ce1a66b21f7b2101c",
     hex "9a6f49975bcadeaf").
Proof. vm_compute. reflexivity. Qed.

(* RFC 3610 Packet Vector #17: nonce 13 B, AAD 12 B, msg 20 B, M = 8 *)
Example ccm_rfc3610_pv17_enc :
  ccm_enc (hex "d7828d13b2b0bdc325a76236df93cc6b")
          (hex "00f8b678094e3b3c9696766cfa")
          (hex "77b60f011c03e1525899bcae")
          (hex "e88b6a46c78d63e52eb8c546efb5de6f75e9cc0d") 8
  = (hex "5545ff1a085ee2efbf52b2e04bee1e2336c73e3f",
     hex "762c0c7744fe7e3c").
Proof. vm_compute. reflexivity. Qed.
Example ccm_rfc3610_pv17_dec :
  ccm_dec (hex "d7828d13b2b0bdc325a76236df93cc6b")
          (hex "00f8b678094e3b3c9696766cfa")
          (hex "77b60f011c03e1525899bcae")
          (hex "5545ff1a085ee2efbf52b2e04bee1e2336c73e3f") 8
  = (hex "e88b6a46c78d63e52eb8c546efb5de6f75e9cc0d",
     hex "762c0c7744fe7e3c").
Proof. vm_compute. reflexivity. Qed.

(* RFC 3610 Packet Vector #18: nonce 13 B, AAD 12 B, msg 21 B, M = 8 *)
Example ccm_rfc3610_pv18_enc :
  ccm_enc (hex "d7828d13b2b0bdc325a76236df93cc6b")
          (hex "00d560912d3f703c9696766cfa")
          (hex "cd9044d2b71fdb8120ea60c0")
          (hex "6435acbafb11a82e2f071d7ca4a5ebd93a803ba87f") 8
  = (hex "009769ecabdf48625594c59251e6035722675e04c8",
     hex "47099e5ae0704551").
Proof. vm_compute. reflexivity. Qed.
Example ccm_rfc3610_pv18_dec :
  ccm_dec (hex "d7828d13b2b0bdc325a76236df93cc6b")
          (hex "00d560912d3f703c9696766cfa")
          (hex "cd9044d2b71fdb8120ea60c0")
          (hex "009769ecabdf48625594c59251e6035722675e04c8") 8
  = (hex "6435acbafb11a82e2f071d7ca4a5ebd93a803ba87f",
     hex "47099e5ae0704551").
Proof. vm_compute. reflexivity. Qed.

(* RFC 3610 Packet Vector #19: nonce 13 B, AAD 8 B, msg 23 B, M = 10 *)
Example ccm_rfc3610_pv19_enc :
  ccm_enc (hex "d7828d13b2b0bdc325a76236df93cc6b")
          (hex "0042fff8f1951c3c9696766cfa")
          (hex "d85bc7e69f944fb8")
          (hex "8a19b950bcf71a018e5e6701c91787659809d67dbedd18") 10
  = (hex "bc218daa947427b6db386a99ac1aef23ade0b52939cb6a",
     hex "637cf9bec2408897c6ba").
Proof. vm_compute. reflexivity. Qed.
Example ccm_rfc3610_pv19_dec :
  ccm_dec (hex "d7828d13b2b0bdc325a76236df93cc6b")
          (hex "0042fff8f1951c3c9696766cfa")
          (hex "d85bc7e69f944fb8")
          (hex "bc218daa947427b6db386a99ac1aef23ade0b52939cb6a") 10
  = (hex "8a19b950bcf71a018e5e6701c91787659809d67dbedd18",
     hex "637cf9bec2408897c6ba").
Proof. vm_compute. reflexivity. Qed.

(* RFC 3610 Packet Vector #20: nonce 13 B, AAD 8 B, msg 24 B, M = 10 *)
Example ccm_rfc3610_pv20_enc :
  ccm_enc (hex "d7828d13b2b0bdc325a76236df93cc6b")
          (hex "00920f40e56cdc3c9696766cfa")
          (hex "74a0ebc9069f5b37")
          (hex "1761433c37c5a35fc1f39f406302eb907c6163be38c98437") 10
  = (hex "5810e6fd25874022e80361a478e3e9cf484ab04f447efff6",
     hex "f0a477cc2fc9bf548944").
Proof. vm_compute. reflexivity. Qed.
Example ccm_rfc3610_pv20_dec :
  ccm_dec (hex "d7828d13b2b0bdc325a76236df93cc6b")
          (hex "00920f40e56cdc3c9696766cfa")
          (hex "74a0ebc9069f5b37")
          (hex "5810e6fd25874022e80361a478e3e9cf484ab04f447efff6") 10
  = (hex "1761433c37c5a35fc1f39f406302eb907c6163be38c98437",
     hex "f0a477cc2fc9bf548944").
Proof. vm_compute. reflexivity. Qed.

(* RFC 3610 Packet Vector #21: nonce 13 B, AAD 8 B, msg 25 B, M = 10 *)
Example ccm_rfc3610_pv21_enc :
  ccm_enc (hex "d7828d13b2b0bdc325a76236df93cc6b")
          (hex "0027ca0c7120bc3c9696766cfa")
          (hex "44a3aa3aae6475ca")
          (hex "a434a8e58500c6e41530538862d686ea9e81301b5ae4226bfa") 10
  = (hex "f2beed7bc5098e83feb5b31608f8e29c38819a89c8e776f154",
     hex "4d4151a4ed3a8b87b9ce").
Proof. vm_compute. reflexivity. Qed.
Example ccm_rfc3610_pv21_dec :
  ccm_dec (hex "d7828d13b2b0bdc325a76236df93cc6b")
          (hex "0027ca0c7120bc3c9696766cfa")
          (hex "44a3aa3aae6475ca")
          (hex "f2beed7bc5098e83feb5b31608f8e29c38819a89c8e776f154") 10
  = (hex "a434a8e58500c6e41530538862d686ea9e81301b5ae4226bfa",
     hex "4d4151a4ed3a8b87b9ce").
Proof. vm_compute. reflexivity. Qed.

(* RFC 3610 Packet Vector #22: nonce 13 B, AAD 12 B, msg 19 B, M = 10 *)
Example ccm_rfc3610_pv22_enc :
  ccm_enc (hex "d7828d13b2b0bdc325a76236df93cc6b")
          (hex "005b8ccbcd9af83c9696766cfa")
          (hex "ec46bb63b02520c33c49fd70")
          (hex "b96b49e21d621741632875db7f6c9243d2d7c2") 10
  = (hex "31d750a09da3ed7fddd49a2032aabf17ec8ebf",
     hex "7d22c8088c666be5c197").
Proof. vm_compute. reflexivity. Qed.
Example ccm_rfc3610_pv22_dec :
  ccm_dec (hex "d7828d13b2b0bdc325a76236df93cc6b")
          (hex "005b8ccbcd9af83c9696766cfa")
          (hex "ec46bb63b02520c33c49fd70")
          (hex "31d750a09da3ed7fddd49a2032aabf17ec8ebf") 10
  = (hex "b96b49e21d621741632875db7f6c9243d2d7c2",
     hex "7d22c8088c666be5c197").
Proof. vm_compute. reflexivity. Qed.

(* RFC 3610 Packet Vector #23: nonce 13 B, AAD 12 B, msg 20 B, M = 10 *)
Example ccm_rfc3610_pv23_enc :
  ccm_enc (hex "d7828d13b2b0bdc325a76236df93cc6b")
          (hex "003ebe94044b9a3c9696766cfa")
          (hex "47a65ac78b3d594227e85e71")
          (hex "e2fcfbb880442c731bf95167c8ffd7895e337076") 10
  = (hex "e882f1dbd38ce3eda7c23f04dd65071eb41342ac",
     hex "df7e00dccec7ae52987d").
Proof. vm_compute. reflexivity. Qed.
Example ccm_rfc3610_pv23_dec :
  ccm_dec (hex "d7828d13b2b0bdc325a76236df93cc6b")
          (hex "003ebe94044b9a3c9696766cfa")
          (hex "47a65ac78b3d594227e85e71")
          (hex "e882f1dbd38ce3eda7c23f04dd65071eb41342ac") 10
  = (hex "e2fcfbb880442c731bf95167c8ffd7895e337076",
     hex "df7e00dccec7ae52987d").
Proof. vm_compute. reflexivity. Qed.

(* RFC 3610 Packet Vector #24: nonce 13 B, AAD 12 B, msg 21 B, M = 10 *)
Example ccm_rfc3610_pv24_enc :
  ccm_enc (hex "d7828d13b2b0bdc325a76236df93cc6b")
          (hex "008d493b30ae8b3c9696766cfa")
          (hex "6e37a6ef546d955d34ab6059")
          (hex "abf21c0b02feb88f856df4a37381bce3cc128517d4") 10
  = (hex "f32905b88a641b04b9c9ffb58cc390900f3da12ab1",
     hex "6dce9e82efa16da62059").
Proof. vm_compute. reflexivity. Qed.
Example ccm_rfc3610_pv24_dec :
  ccm_dec (hex "d7828d13b2b0bdc325a76236df93cc6b")
          (hex "008d493b30ae8b3c9696766cfa")
          (hex "6e37a6ef546d955d34ab6059")
          (hex "f32905b88a641b04b9c9ffb58cc390900f3da12ab1") 10
  = (hex "abf21c0b02feb88f856df4a37381bce3cc128517d4",
     hex "6dce9e82efa16da62059").
Proof. vm_compute. reflexivity. Qed.

(* ------------------------------------------------------------------ *)
(* Cross-checks against the real library (libIPSec_MB.so built from    *)
(* /repo), job API (IMB_CIPHER_CCM + IMB_AUTH_AES_CCM), random inputs.  *)
(* Every vector was produced by the sse, avx2 and avx512 managers; all  *)
(* three agreed and the decrypt direction returned the plaintext and    *)
(* the same tag.  Subset covering key 16/32 x nonce 7..13, AAD          *)
(* 0/1/14/15/16/30/31/46, text 0/1/15/16/17/100/256/1000, tag 4..16;    *)
(* the full cross product (6272 vectors, enc + dec) was checked with    *)
(* the OCaml extraction of ccm_enc/ccm_dec.                             *)
(* ------------------------------------------------------------------ *)

Example lib_ccm_1_key16_nonce7_aad0_len0_tag4 :
  ccm_enc (hex "0b02e536a14ed61ab049b856add63ffc")
          (hex "7d556bc86d9a9c")
          (hex "")
          (hex "") 4
  = (hex "",
     hex "136db351")
  /\
  ccm_dec (hex "0b02e536a14ed61ab049b856add63ffc")
          (hex "7d556bc86d9a9c")
          (hex "")
          (hex "") 4
  = (hex "",
     hex "136db351").
Proof. vm_compute. split; reflexivity. Qed.

Example lib_ccm_2_key16_nonce7_aad15_len100_tag8 :
  ccm_enc (hex "f712678c1165059b4d7355e512b265b0")
          (hex "bf075856e99732")
          (hex "83c0054040d275c5180d6d8140beb5")
          (hex "ba9be03fe2093738ae637022139f0cf9d90c00d76731b4018624ab9cf333c6536387abf3c81f295734c21131ff3c9353a2fc307814691c68a99db8b64ba45353a12907c871bf4c91d4bb17e430ac1307cc01a51aea9373ed4e686b0bbc0f3b6e0e5120ab") 8
  = (hex "447c5adc33c19da0edce92eb2882c9cf60cb5e55e7cb820c4c81e5c55d2421f418fa1313e7ae384ccbcb397b48463a464cfb331c4e3d3c2702027dc6fac49e06c26e747254bf05f8238992ba84e14b6b41eab3344fd32f4aff86b0c07d93a852abad8a42",
     hex "af40a5f271d23891")
  /\
  ccm_dec (hex "f712678c1165059b4d7355e512b265b0")
          (hex "bf075856e99732")
          (hex "83c0054040d275c5180d6d8140beb5")
          (hex "447c5adc33c19da0edce92eb2882c9cf60cb5e55e7cb820c4c81e5c55d2421f418fa1313e7ae384ccbcb397b48463a464cfb331c4e3d3c2702027dc6fac49e06c26e747254bf05f8238992ba84e14b6b41eab3344fd32f4aff86b0c07d93a852abad8a42") 8
  = (hex "ba9be03fe2093738ae637022139f0cf9d90c00d76731b4018624ab9cf333c6536387abf3c81f295734c21131ff3c9353a2fc307814691c68a99db8b64ba45353a12907c871bf4c91d4bb17e430ac1307cc01a51aea9373ed4e686b0bbc0f3b6e0e5120ab",
     hex "af40a5f271d23891").
Proof. vm_compute. split; reflexivity. Qed.

Example lib_ccm_3_key16_nonce7_aad31_len15_tag12 :
  ccm_enc (hex "9302d56f5c3bc65fc7760435532ec634")
          (hex "7431c40767df6e")
          (hex "0e620efa6962b9c0fb733d8b6e4b21f7b95051f935b9dc1c43db2f0100ac35")
          (hex "47e44b9ce85d82951cae7b61329853") 12
  = (hex "60f1deb0634133f7acd24c9c704693",
     hex "65b59433188100a87dc2d763")
  /\
  ccm_dec (hex "9302d56f5c3bc65fc7760435532ec634")
          (hex "7431c40767df6e")
          (hex "0e620efa6962b9c0fb733d8b6e4b21f7b95051f935b9dc1c43db2f0100ac35")
          (hex "60f1deb0634133f7acd24c9c704693") 12
  = (hex "47e44b9ce85d82951cae7b61329853",
     hex "65b59433188100a87dc2d763").
Proof. vm_compute. split; reflexivity. Qed.

Example lib_ccm_4_key16_nonce7_aad1_len0_tag16 :
  ccm_enc (hex "bbc5295f07a70652b7817ae1fa3680b7")
          (hex "7fa941206523ff")
          (hex "c0")
          (hex "") 16
  = (hex "",
     hex "273f3e662fc4e3400f5b84c4c4c28036")
  /\
  ccm_dec (hex "bbc5295f07a70652b7817ae1fa3680b7")
          (hex "7fa941206523ff")
          (hex "c0")
          (hex "") 16
  = (hex "",
     hex "273f3e662fc4e3400f5b84c4c4c28036").
Proof. vm_compute. split; reflexivity. Qed.

Example lib_ccm_5_key16_nonce8_aad1_len16_tag6 :
  ccm_enc (hex "c196b812dea0ff4fd85276039f6e22b3")
          (hex "d2651d28520ab075")
          (hex "f9")
          (hex "5f02305c8b2b41a38e4922bc01991f30") 6
  = (hex "63d2992e33d0657aa6b703512d688141",
     hex "b6d520c8897e")
  /\
  ccm_dec (hex "c196b812dea0ff4fd85276039f6e22b3")
          (hex "d2651d28520ab075")
          (hex "f9")
          (hex "63d2992e33d0657aa6b703512d688141") 6
  = (hex "5f02305c8b2b41a38e4922bc01991f30",
     hex "b6d520c8897e").
Proof. vm_compute. split; reflexivity. Qed.

Example lib_ccm_6_key16_nonce8_aad16_len0_tag10 :
  ccm_enc (hex "c80997b22c057a6c1cc055451383702d")
          (hex "d7e02dae1d5e244b")
          (hex "ebfa8381b6415660ce11d8b2252b7cbe")
          (hex "") 10
  = (hex "",
     hex "d85948fdf4f669d503e6")
  /\
  ccm_dec (hex "c80997b22c057a6c1cc055451383702d")
          (hex "d7e02dae1d5e244b")
          (hex "ebfa8381b6415660ce11d8b2252b7cbe")
          (hex "") 10
  = (hex "",
     hex "d85948fdf4f669d503e6").
Proof. vm_compute. split; reflexivity. Qed.

Example lib_ccm_7_key16_nonce8_aad46_len100_tag14 :
  ccm_enc (hex "c76e0a058912d9f478e0df394923e21a")
          (hex "f043b806cbdd2ed1")
          (hex "a70b98d413775cbe238bac2adb5df304de3caee30adf987d8c15d51778ed1b20269e578263600c12e886056912f5")
          (hex "06eb53507da16b8d3196326845efa770fa041fb94598de5cc9bd38cd2ae4f7002627aef462aa0b559730601c1158ee07e4b8c2290639f6c0fe2222d2be481b4b3db83bf3cd27a0a785fc770f839bc9120d9ba2319314e45ec123ec3e42dee8886ecd8c9b") 14
  = (hex "15d3457c78fb724e6ebd08f44d543b067b77ebf49a6dbf90052d33c5d40a03000060d9fdb7174886f0da8a0d6756c5d8c374cde3a0d809780dd55e8e84a6161f5f2bb2ab8960eba680b52602a8beb4db482103abbd9f062df4d4bc569d9c71ea79fd1be7",
     hex "4f76561171b1aa4e114a1fd7b2e5")
  /\
  ccm_dec (hex "c76e0a058912d9f478e0df394923e21a")
          (hex "f043b806cbdd2ed1")
          (hex "a70b98d413775cbe238bac2adb5df304de3caee30adf987d8c15d51778ed1b20269e578263600c12e886056912f5")
          (hex "15d3457c78fb724e6ebd08f44d543b067b77ebf49a6dbf90052d33c5d40a03000060d9fdb7174886f0da8a0d6756c5d8c374cde3a0d809780dd55e8e84a6161f5f2bb2ab8960eba680b52602a8beb4db482103abbd9f062df4d4bc569d9c71ea79fd1be7") 14
  = (hex "06eb53507da16b8d3196326845efa770fa041fb94598de5cc9bd38cd2ae4f7002627aef462aa0b559730601c1158ee07e4b8c2290639f6c0fe2222d2be481b4b3db83bf3cd27a0a785fc770f839bc9120d9ba2319314e45ec123ec3e42dee8886ecd8c9b",
     hex "4f76561171b1aa4e114a1fd7b2e5").
Proof. vm_compute. split; reflexivity. Qed.

Example lib_ccm_8_key16_nonce8_aad14_len15_tag4 :
  ccm_enc (hex "dc3aaab8ebb11aaa0a5fae0cbd2513d1")
          (hex "d189b00741e94897")
          (hex "592fbfeeac0050a3513039bf2e82")
          (hex "9f66a69659c9150f28eb3e93c83098") 4
  = (hex "7c382cab334ded4a01527d2e6027f1",
     hex "1db41222")
  /\
  ccm_dec (hex "dc3aaab8ebb11aaa0a5fae0cbd2513d1")
          (hex "d189b00741e94897")
          (hex "592fbfeeac0050a3513039bf2e82")
          (hex "7c382cab334ded4a01527d2e6027f1") 4
  = (hex "9f66a69659c9150f28eb3e93c83098",
     hex "1db41222").
Proof. vm_compute. split; reflexivity. Qed.

Example lib_ccm_9_key16_nonce9_aad14_len256_tag8 :
  ccm_enc (hex "cae7f3be82b6d8e3bcc147191a60c9a0")
          (hex "6a8e41875808df8f89")
          (hex "ce5b114b88796c280f72b277384a")
          (hex "32c4b32d9ca0b9b93b4058501a7ec4d83adc1d1ad21524bcbdb93112d7d14dc059276f4e08b4299aa028fd5ecd6e0a35c5b45e7183dcba79ad1f1ff885a64221fc406d8b8df8cb920fdec03f6e126645262c1800db80b570c1772d286a9638fb275ff69a24c27adea643c17d242c157b2050c3958f355548a81471e69c581d78524cd1b33e31c7821af836758c40a9bb824f7f562db40cc20ddd33365afa14cc1bfbb26632409f5bacf13f795fa37ce6b596b220f1dc0635ed328d0148a0caddb67120d619c2737114d6c102435568ae87123987e42c053d5b521074d142acb0ebe083817620570b419950314a8ce2d834ece772cc1565e3801577175af80c5c") 8
  = (hex "19b04b493afa596c747bc37dd9e6c7473886941915f8aa6c75afa6242b084290131aceca7f349e0f7420d215fff8c19e3f01a6c3b6b05cc0cf26d1701a0312a92cc7ded74d5513f7d90b8852aa98e8dd02393e1fcfc1d12144bb5807a3b3cc157dbd338cf1ce65153053cf1618e806d26b71a6cf0b8661373ad6390290a760a8f1f98e564db973f42e94e87ec229379eb96f0a4ebf15440d32506997416379fc631e64eccb58e13083f9f954eff2efcf6a37937952a740a6a7e184f701c7c984639fcf005f58242df9a909f3e8609fc9d73cf268fcb4df41da1e48f0f29a724f12d07c620b7c620c70a89be00a7e89d1514e5409ac05313230633b5690b36531",
     hex "a4861eee18146c16")
  /\
  ccm_dec (hex "cae7f3be82b6d8e3bcc147191a60c9a0")
          (hex "6a8e41875808df8f89")
          (hex "ce5b114b88796c280f72b277384a")
          (hex "19b04b493afa596c747bc37dd9e6c7473886941915f8aa6c75afa6242b084290131aceca7f349e0f7420d215fff8c19e3f01a6c3b6b05cc0cf26d1701a0312a92cc7ded74d5513f7d90b8852aa98e8dd02393e1fcfc1d12144bb5807a3b3cc157dbd338cf1ce65153053cf1618e806d26b71a6cf0b8661373ad6390290a760a8f1f98e564db973f42e94e87ec229379eb96f0a4ebf15440d32506997416379fc631e64eccb58e13083f9f954eff2efcf6a37937952a740a6a7e184f701c7c984639fcf005f58242df9a909f3e8609fc9d73cf268fcb4df41da1e48f0f29a724f12d07c620b7c620c70a89be00a7e89d1514e5409ac05313230633b5690b36531") 8
  = (hex "32c4b32d9ca0b9b93b4058501a7ec4d83adc1d1ad21524bcbdb93112d7d14dc059276f4e08b4299aa028fd5ecd6e0a35c5b45e7183dcba79ad1f1ff885a64221fc406d8b8df8cb920fdec03f6e126645262c1800db80b570c1772d286a9638fb275ff69a24c27adea643c17d242c157b2050c3958f355548a81471e69c581d78524cd1b33e31c7821af836758c40a9bb824f7f562db40cc20ddd33365afa14cc1bfbb26632409f5bacf13f795fa37ce6b596b220f1dc0635ed328d0148a0caddb67120d619c2737114d6c102435568ae87123987e42c053d5b521074d142acb0ebe083817620570b419950314a8ce2d834ece772cc1565e3801577175af80c5c",
     hex "a4861eee18146c16").
Proof. vm_compute. split; reflexivity. Qed.

Example lib_ccm_10_key16_nonce9_aad30_len16_tag12 :
  ccm_enc (hex "54fe4e0d48b7c370223ab194ca5f48e8")
          (hex "0b921f8fd73c0189a3")
          (hex "0e3c543caa0b8a943e8cc8100e77cb2193c1ba06d85174f6cacf9a6aaa30")
          (hex "269121f6ebab8ba64c8ec9929c5e3584") 12
  = (hex "a47f4bd9e675de256ae0b11ae98caf16",
     hex "d1b171a21e739249a661fae7")
  /\
  ccm_dec (hex "54fe4e0d48b7c370223ab194ca5f48e8")
          (hex "0b921f8fd73c0189a3")
          (hex "0e3c543caa0b8a943e8cc8100e77cb2193c1ba06d85174f6cacf9a6aaa30")
          (hex "a47f4bd9e675de256ae0b11ae98caf16") 12
  = (hex "269121f6ebab8ba64c8ec9929c5e3584",
     hex "d1b171a21e739249a661fae7").
Proof. vm_compute. split; reflexivity. Qed.

Example lib_ccm_11_key16_nonce9_aad0_len0_tag16 :
  ccm_enc (hex "adb63977575fff58711be3b1c86a56ef")
          (hex "0cc0f841120396318a")
          (hex "")
          (hex "") 16
  = (hex "",
     hex "16f4e52b073dc654c7dc2637d565ca76")
  /\
  ccm_dec (hex "adb63977575fff58711be3b1c86a56ef")
          (hex "0cc0f841120396318a")
          (hex "")
          (hex "") 16
  = (hex "",
     hex "16f4e52b073dc654c7dc2637d565ca76").
Proof. vm_compute. split; reflexivity. Qed.

Example lib_ccm_12_key16_nonce9_aad15_len100_tag6 :
  ccm_enc (hex "a6d8842d9d88dde8d672969cfda39fef")
          (hex "202758430c4c1409cb")
          (hex "fa39008f0049bdc17f1dfc2bd6fb6d")
          (hex "4607b72f1fa366cc7bef737247a9d61988305c745393af54e60d3fefdb3897d78f744eb5a1a61f43e58fce5e2501a65189247ca4b71aca10d2fe813a8e29744bea7c9f7a0178cc354977f5c53095005ce83756d1b30f425efe7d8d71ed4c171a7a9bac7e") 6
  = (hex "3a2b4e56d6fe938231618e45c20769592992c937a387d55a98a398e705a3451ad3241a45f5252182986e2f2d61849caa41762a3635d4f52702bf6c2c528d99bd6d5989cf9ad70e8dd17eaa5c6611e862a84ef8fceacb6363091fee5f97144b1474dac456",
     hex "8e2a046b8e7b")
  /\
  ccm_dec (hex "a6d8842d9d88dde8d672969cfda39fef")
          (hex "202758430c4c1409cb")
          (hex "fa39008f0049bdc17f1dfc2bd6fb6d")
          (hex "3a2b4e56d6fe938231618e45c20769592992c937a387d55a98a398e705a3451ad3241a45f5252182986e2f2d61849caa41762a3635d4f52702bf6c2c528d99bd6d5989cf9ad70e8dd17eaa5c6611e862a84ef8fceacb6363091fee5f97144b1474dac456") 6
  = (hex "4607b72f1fa366cc7bef737247a9d61988305c745393af54e60d3fefdb3897d78f744eb5a1a61f43e58fce5e2501a65189247ca4b71aca10d2fe813a8e29744bea7c9f7a0178cc354977f5c53095005ce83756d1b30f425efe7d8d71ed4c171a7a9bac7e",
     hex "8e2a046b8e7b").
Proof. vm_compute. split; reflexivity. Qed.

Example lib_ccm_13_key16_nonce10_aad15_len1_tag10 :
  ccm_enc (hex "d71989b7f6aee70634a475f9711023ca")
          (hex "26311bef72834d94006b")
          (hex "679c0e7953fad28cebae631ba8a310")
          (hex "62") 10
  = (hex "9e",
     hex "b8ab94852f76c653622a")
  /\
  ccm_dec (hex "d71989b7f6aee70634a475f9711023ca")
          (hex "26311bef72834d94006b")
          (hex "679c0e7953fad28cebae631ba8a310")
          (hex "9e") 10
  = (hex "62",
     hex "b8ab94852f76c653622a").
Proof. vm_compute. split; reflexivity. Qed.

Example lib_ccm_14_key16_nonce10_aad31_len256_tag14 :
  ccm_enc (hex "ff8c591a3cab314f857facf08aab39f4")
          (hex "a4c177a39c82e85d0cab")
          (hex "a0ed975d23bfd64f1355b69c9a8e2c361f74454bfbdb57c1eda52ae16fe36a")
          (hex "34233fbef1540b4409ef33f49f419ce5a0f6a762c1504ceccb1556be58837de707c379c81e7095ea4b68aea9b85597630a5adbafb8530d86f1f9d5ed3f8870da9b06e31d628b69594968278788c9d9488667f56b3020334e08cd416811608b78840f504653d36142f176713479ea90887666707798393dcfd4045ea4604dcf73a6073001ee7bd19aa1ce6c3553320b54148354ab9694962ecc69f2221600af49d9d3585bb538e356ca38c8a09a773b1e5838ca7ac371d05f1ace7254a6763e530df91e54b154f1f2961f9e21bffeda38670966b7ffe0f4716ed6cd8b7b815c683c6b007f7ec4dedabe0ec3bb85c07a1921fe4483d692a9ed92809e369a1e503f") 14
  = (hex "e630f6a7ba0bf5e636f6bba48de04525fe0d9e9b033a71a3549852b36fe4744914e2648d75acede40d935d9dc6564d661a3f57f78518d18b65d36079e1243ac419280b6e91832f18ff8049587808253d68469c7456ade5b3ceeddb471f7c1d9de4086152b83e88c4a28847e3a4848e8975419ab35ea74bef2172ed56686498d395628aa02300d2597530052790336c410db9d35543faaf2e5a938a1ce3d9a2bffb0cc3fa8bd7b56d110684f96bae12582b512fd50d83759b1c8d05d351049e98fdddc27d1796fe55b1dea75ca02c407198382185d0221917eb740e3ae416227289246e9491655bf46fd13ea2e396b9516f8399694b8ed6d6a29691bb80a2cb0d",
     hex "4dbf1de1970bcd7521216ca985f5")
  /\
  ccm_dec (hex "ff8c591a3cab314f857facf08aab39f4")
          (hex "a4c177a39c82e85d0cab")
          (hex "a0ed975d23bfd64f1355b69c9a8e2c361f74454bfbdb57c1eda52ae16fe36a")
          (hex "e630f6a7ba0bf5e636f6bba48de04525fe0d9e9b033a71a3549852b36fe4744914e2648d75acede40d935d9dc6564d661a3f57f78518d18b65d36079e1243ac419280b6e91832f18ff8049587808253d68469c7456ade5b3ceeddb471f7c1d9de4086152b83e88c4a28847e3a4848e8975419ab35ea74bef2172ed56686498d395628aa02300d2597530052790336c410db9d35543faaf2e5a938a1ce3d9a2bffb0cc3fa8bd7b56d110684f96bae12582b512fd50d83759b1c8d05d351049e98fdddc27d1796fe55b1dea75ca02c407198382185d0221917eb740e3ae416227289246e9491655bf46fd13ea2e396b9516f8399694b8ed6d6a29691bb80a2cb0d") 14
  = (hex "34233fbef1540b4409ef33f49f419ce5a0f6a762c1504ceccb1556be58837de707c379c81e7095ea4b68aea9b85597630a5adbafb8530d86f1f9d5ed3f8870da9b06e31d628b69594968278788c9d9488667f56b3020334e08cd416811608b78840f504653d36142f176713479ea90887666707798393dcfd4045ea4604dcf73a6073001ee7bd19aa1ce6c3553320b54148354ab9694962ecc69f2221600af49d9d3585bb538e356ca38c8a09a773b1e5838ca7ac371d05f1ace7254a6763e530df91e54b154f1f2961f9e21bffeda38670966b7ffe0f4716ed6cd8b7b815c683c6b007f7ec4dedabe0ec3bb85c07a1921fe4483d692a9ed92809e369a1e503f",
     hex "4dbf1de1970bcd7521216ca985f5").
Proof. vm_compute. split; reflexivity. Qed.

Example lib_ccm_15_key16_nonce10_aad1_len16_tag4 :
  ccm_enc (hex "92b8a8e6276ec612ca4519dff0eb354b")
          (hex "aa281504df1becbcf86e")
          (hex "a4")
          (hex "73de42a45fa92716366233e10c72d00b") 4
  = (hex "e704db0053ab294fbbf39f0920e3a927",
     hex "e5d83c0a")
  /\
  ccm_dec (hex "92b8a8e6276ec612ca4519dff0eb354b")
          (hex "aa281504df1becbcf86e")
          (hex "a4")
          (hex "e704db0053ab294fbbf39f0920e3a927") 4
  = (hex "73de42a45fa92716366233e10c72d00b",
     hex "e5d83c0a").
Proof. vm_compute. split; reflexivity. Qed.

Example lib_ccm_16_key16_nonce10_aad16_len0_tag8 :
  ccm_enc (hex "f5641c2d21db5aff1b00dbde3523c01b")
          (hex "e38beffb6e952c27eead")
          (hex "fb84efd8b10674af7ff67bb4d5376a16")
          (hex "") 8
  = (hex "",
     hex "1a0d8b264aa64219")
  /\
  ccm_dec (hex "f5641c2d21db5aff1b00dbde3523c01b")
          (hex "e38beffb6e952c27eead")
          (hex "fb84efd8b10674af7ff67bb4d5376a16")
          (hex "") 8
  = (hex "",
     hex "1a0d8b264aa64219").
Proof. vm_compute. split; reflexivity. Qed.

Example lib_ccm_17_key16_nonce11_aad16_len17_tag12 :
  ccm_enc (hex "6dde7d753d68f2854ee863f9daa21ae9")
          (hex "d81f1516a7eb9cc5fccf88")
          (hex "e89d9c8c1a35f9da7ad8772a86182e0f")
          (hex "0652af8610b721b43c6eb9d83f8559f92b") 12
  = (hex "9c0baccc3db3d1e61c5179b2b77b6dd48f",
     hex "e7c8b7a8b76653ce45a7b0b2")
  /\
  ccm_dec (hex "6dde7d753d68f2854ee863f9daa21ae9")
          (hex "d81f1516a7eb9cc5fccf88")
          (hex "e89d9c8c1a35f9da7ad8772a86182e0f")
          (hex "9c0baccc3db3d1e61c5179b2b77b6dd48f") 12
  = (hex "0652af8610b721b43c6eb9d83f8559f92b",
     hex "e7c8b7a8b76653ce45a7b0b2").
Proof. vm_compute. split; reflexivity. Qed.

Example lib_ccm_18_key16_nonce11_aad46_len1_tag16 :
  ccm_enc (hex "c0852f649f000470b90fd4d7d24e38aa")
          (hex "bfcb8155d4a52e140a8bc7")
          (hex "ab18e3faaa43cdc7e9bd81c0df77c80bd7c22eb7f9aa386dcf883124ae0dd483e9ce301ddf1ceeb5c5cecd5f3974")
          (hex "29") 16
  = (hex "67",
     hex "9b02ee96e8a938db8f1f2efb3e4142a1")
  /\
  ccm_dec (hex "c0852f649f000470b90fd4d7d24e38aa")
          (hex "bfcb8155d4a52e140a8bc7")
          (hex "ab18e3faaa43cdc7e9bd81c0df77c80bd7c22eb7f9aa386dcf883124ae0dd483e9ce301ddf1ceeb5c5cecd5f3974")
          (hex "67") 16
  = (hex "29",
     hex "9b02ee96e8a938db8f1f2efb3e4142a1").
Proof. vm_compute. split; reflexivity. Qed.

Example lib_ccm_19_key16_nonce11_aad14_len256_tag6 :
  ccm_enc (hex "5e4f6b9657c8e8a84d2f1a5561360bc8")
          (hex "dfd8828bde72846c22b0cd")
          (hex "418aeef21d6e5e10eb6ba7b9a718")
          (hex "166a99bbb7889854d4c57c64e3665b5271a293c07a47d03bbda4cca3578302c9479a8332861174260349f4f8ce489436d7305abd955482ab14483142b90a76cae0bdd2f47186c5dd12b3bb4c3a4d458716ee78789c73f5a0e387aeb4174fe8214b0e76a61c7cac0e81fa0bbd2d7698733753ecd123ccff3e0287b7d6962e3bc63c79079eb8ac8e40c244d44638c1aed4e43b0091e22ba5278832f0b2571951086f42637c8ddea8ba6534486fda229b0e5ac15b866bacc3757129858e73445c39f019b22f5fcfc87da08d41b8eb9778758beffb89b3f1fed6f8f631f782a6fa2b9d8b88faaa53c1bec68ab56c0f34f5ac5a16d69cbde19548eee9a7f27079e0a1") 6
  = (hex "f7d55457883bf43c58d218713871e4b418fa41e5eff13d2f7ec0027e46c3d660dbd5bf7a968074023516aca76fa95df0baa056258e8e3610210c418b373332c5c7777528a71d3e825abc81c3d6725fd6f35ed9887da58b2318255d07b9ab5afce37a3185c38e6d69046c1b004b921cf19c449bdedfc15ff99883bef8fcae90df4ccf03935999a06effaa75b311c35ec972c467327e401f019aee6c5a3728661f786bc7d2d386fa516bf1040c7ef78cfa199065117e6dca246d81a569d867a8b43ec67302c824036bb98d3337284cd0dc0af993cb3c87064877053f47e62ab9fb3f4a971d1e16c84e6189d70c9ecde8d4a7844570a8817dc0c870e9980aaca711",
     hex "ffb8c6341446")
  /\
  ccm_dec (hex "5e4f6b9657c8e8a84d2f1a5561360bc8")
          (hex "dfd8828bde72846c22b0cd")
          (hex "418aeef21d6e5e10eb6ba7b9a718")
          (hex "f7d55457883bf43c58d218713871e4b418fa41e5eff13d2f7ec0027e46c3d660dbd5bf7a968074023516aca76fa95df0baa056258e8e3610210c418b373332c5c7777528a71d3e825abc81c3d6725fd6f35ed9887da58b2318255d07b9ab5afce37a3185c38e6d69046c1b004b921cf19c449bdedfc15ff99883bef8fcae90df4ccf03935999a06effaa75b311c35ec972c467327e401f019aee6c5a3728661f786bc7d2d386fa516bf1040c7ef78cfa199065117e6dca246d81a569d867a8b43ec67302c824036bb98d3337284cd0dc0af993cb3c87064877053f47e62ab9fb3f4a971d1e16c84e6189d70c9ecde8d4a7844570a8817dc0c870e9980aaca711") 6
  = (hex "166a99bbb7889854d4c57c64e3665b5271a293c07a47d03bbda4cca3578302c9479a8332861174260349f4f8ce489436d7305abd955482ab14483142b90a76cae0bdd2f47186c5dd12b3bb4c3a4d458716ee78789c73f5a0e387aeb4174fe8214b0e76a61c7cac0e81fa0bbd2d7698733753ecd123ccff3e0287b7d6962e3bc63c79079eb8ac8e40c244d44638c1aed4e43b0091e22ba5278832f0b2571951086f42637c8ddea8ba6534486fda229b0e5ac15b866bacc3757129858e73445c39f019b22f5fcfc87da08d41b8eb9778758beffb89b3f1fed6f8f631f782a6fa2b9d8b88faaa53c1bec68ab56c0f34f5ac5a16d69cbde19548eee9a7f27079e0a1",
     hex "ffb8c6341446").
Proof. vm_compute. split; reflexivity. Qed.

Example lib_ccm_20_key16_nonce11_aad30_len16_tag10 :
  ccm_enc (hex "5aca1c4d02c402339fc3e3f7b2797978")
          (hex "9b3dc488da7736e90df918")
          (hex "9b5689e7600602a10f417dfbf249204623433fb77c885c1c15d1d9a63ddf")
          (hex "992463e4de541c1716778dbfd7923c0e") 10
  = (hex "eac845c9642835014f68cad7a6994a34",
     hex "3bca643326f19e696b6b")
  /\
  ccm_dec (hex "5aca1c4d02c402339fc3e3f7b2797978")
          (hex "9b3dc488da7736e90df918")
          (hex "9b5689e7600602a10f417dfbf249204623433fb77c885c1c15d1d9a63ddf")
          (hex "eac845c9642835014f68cad7a6994a34") 10
  = (hex "992463e4de541c1716778dbfd7923c0e",
     hex "3bca643326f19e696b6b").
Proof. vm_compute. split; reflexivity. Qed.

Example lib_ccm_21_key16_nonce12_aad30_len1000_tag14 :
  ccm_enc (hex "b79534a623c15590d2a5e7705e1fd95c")
          (hex "0590bb15953031c6462e0476")
          (hex "2c4d3344979ef23c819fb27a23b0b487ea0d870200fee6eef0eb9d5d06d1")
          (hex "a25ea67c674db05d8c21d16c9c55cb4ef5f2968db28b2cb3c874481c5efc826071e0483a915fa5ac0f959ccce39ac038a1c97aeb7389c7bb3297ab48517a39fd0b9448fa6c0cfe91a66d43e981e7559004f617e3e24095dca1891ce6950e92a7d0d662a22122e622f232e067bad38d72e3b4bea4e50429fadc8d697f7397d8c8eb946c841e2521f8795dbca242e1b96408f0ac40236e34dc6b357363900904a618079c117d655af819d0c8795b0c4f075e557c8cd77ddbc4a1f3b56859fce4c3e23c9d0337a4f15fb0528881d97eb152aced748f95a31d398880a219fe6df60138d286cf0f4b6a98837d1eaa3fa53691477ea9b9299fc34439a13799370a0761588f963af62901d411c37abb3af3fdd8daf387942278456b3753193f449f0b939ec7b981507742ddab6f8a5f260d6b1f517b5853bcd5f961b7755a7db3aebdf4346a8641a8abb3351ab312eafa0d6a08d9eb1ac507c8405b060968266264802992f1fb43cffae8bd6ab9ef507a53fb61fe84947e937dbf7646ec951fcb8339f1dc56a091164950e5ca9b4e57c1bfca96f2b354de5bd617c734197161e1508245815967604aba2497358a5c4d6fb6dde5b5fe3f9d09bf711a11313d2ef82ed44e50183cf1b48887337f3f4d6945b7574bde0c3cf457f568dd8cf58ff358b8b76d7bc6aab4e971d418687d6df10cd4677821c90e30b647a9abb4c2b85da6d7bad1cd451fb2bc566b50797d23cb12e50c54d1ee0718ba65076fba15af3ac2c3904ad0b320d777776b19c763ddeecade128c671d250b493ad6aba1b5bd13dc676e1d4e2f8df8bfdea3e1b8a37b640f25e79c37f527a982360a6ba35b1c38762105debeba2c16d778cde4dd250c8a7e1adcf72929684421db102dde97fe5b21fc9cc7b2e65a1d5ae898dec285dfebe1a4ab3c3df4a65cc6ca933a6a8351249cc62a149f0887e7e00af05ecc34c4f24fc5b2d7708e18e9303a7cd3960f9234de800a89ef8734707e6128015ac508b3c4169d1794c2276575abd7afb2a29dfeb0335702f040cff14a5b1f27a9f4b5ca119aea2db7941cabdf3263e56b72e154cf099c16a5e6dfb99dbb3a88e9cbd640a142d94706f0a4f247eaee372f6dfc7365a2cafdb8492edb4f7d255efcc00ce3dadbb0177cd3bd56906f3faaaa53ab5cc79eed71e931cf44ab2b8798ee3b0da936c28d91c2ac0a213a4f7fb758bdcc22146a698eaf238cae0afe9abe5833f4f3e63ec662ba0dd9d73a7152e7c3dc5a45ee1a36a6c78b554799da51165a5c35c948cf28a84c7b7fd89e1d92e9afc0d4e05d9a991d33839c844a9d79aee1fad3e6568a930e107e5265eb7bbda48f5b6b09836c463fcefe61524817ea54dd16644ab60d4ccad09be761184801a532daaa853ad733aadeeb48ba74d5e268") 14
  = (hex "58bba72d6c3c4a8e85a1b0208f2e24d7de0035d2a22f1067b0cca961faf7b276d775b96d3bb92c8e4f8b46355ced24a7cdef2111d5da025b13119b27633be83fb7498e41caefe887a52d9f3a64e06a21969838b322cd6a235707582d45966ea3834442370af04b766a47a97babe8d892c275133466d20834b947d77c79cbe150c6efd991a281fc2a3ba7bca5495e7f30a8ff38b54a4a7c3cb8977be0410cfa884ca71a313f5ff796b05cd50e15c6479d47736b97d9068c324adfca34268c3a2e3f61fb4abc72e7751c2e1bb77200a89275aaa4e7d1021e4170282570bf4e3081f5b44eee0082202d0ea77ab9d87f9898f8fedbc223d96c946d753d949307b3134c9f90dfdff716c7d21e4a7767a7c45425d7f3c3e85b6da2094b47acbc6ad1a5533d4a5e926e542db9ea88377ab0fb65a619bbc94354fb053e3d3c5caf3cdaa6bf7dc86b730b894522661c55d1310f356db036ecde67c2db2d72163aac5c7918bf29c537aa563b6f0ac6ff1b1e2d40d68fe2fc6cebaa8060f8520dacdcf62a266be1b5c08a67e19eee135bed0f32ccfe9294b725a77b35d7ed262fdabc987b95f60d63a857d34f803d26906c89c9d4668c7b8d1ea50d7ffa799ca3dfb536625e2f8991554c512bd47b6067f352f86761becd3beb96723f16357c00d7713a9c999a487e99bb8c97ecdecf68720ad27eba76ad3ccbaaf8675100233b451f81956c6ad6be4bd59f82a2be42e769d2424745ee6f0de39de7baa54b0b54409e62a2c075d9f7ee85c4f76ff86343a5b3eec99bc6c198e07954bf1422a056538186020ad084139ff0589ab22f81f0997f3f7304e4c2f9b286bd55400a9d53ce5c1bdb1254c6b380a4c0b8ee2c0c632c584895fe985251b284b428737465749d4aaa9a33f10cb9690d13c779253abd019a86ec9b820caccd22cf4dae9b1a76ce9a4c8a7b7af173e50444a998b41fbff3a17cbb6f1e8be78dd83294a44b456b7854acb5c4b493a8a8cc218553e0bd1a06225a93501a33c8105ed7984c3b585ceacbc2ced3ef6c54171b9fb0b863ffe2f64288b56751a68b7ea67b5b723b7ff307cce58ba35e58f6950b632b15fc24e831da906a6e8be8f9253780b6dd1212182fbac7d7bc703d1223fe0eb2d8a55576b227d5c2a6c2571cab43906beea3509afa5f3ad61f7391f489970f3dc03f89e9099bbf23e64525d24c2eb66b8a99acdc0f4430bf8b97a577633898c99efad827a4c77cc2be6938cd99b8b44e305d83e92b0857962c3d96d7bf4b64bac7314ecd1361f37ab1f663108ac0c49645238ed584cdbb3c8519e77d3f90b33858dc41d253814f396a6463d40531adc80abf6330c6f9001513747062841f458f7b542e95047a66c6c901a0fcfba3c1f185a9e54a55985c11aff00c0d3c5064d943",
     hex "bbb21c1b1ad524dd61ea94d730a0")
  /\
  ccm_dec (hex "b79534a623c15590d2a5e7705e1fd95c")
          (hex "0590bb15953031c6462e0476")
          (hex "2c4d3344979ef23c819fb27a23b0b487ea0d870200fee6eef0eb9d5d06d1")
          (hex "58bba72d6c3c4a8e85a1b0208f2e24d7de0035d2a22f1067b0cca961faf7b276d775b96d3bb92c8e4f8b46355ced24a7cdef2111d5da025b13119b27633be83fb7498e41caefe887a52d9f3a64e06a21969838b322cd6a235707582d45966ea3834442370af04b766a47a97babe8d892c275133466d20834b947d77c79cbe150c6efd991a281fc2a3ba7bca5495e7f30a8ff38b54a4a7c3cb8977be0410cfa884ca71a313f5ff796b05cd50e15c6479d47736b97d9068c324adfca34268c3a2e3f61fb4abc72e7751c2e1bb77200a89275aaa4e7d1021e4170282570bf4e3081f5b44eee0082202d0ea77ab9d87f9898f8fedbc223d96c946d753d949307b3134c9f90dfdff716c7d21e4a7767a7c45425d7f3c3e85b6da2094b47acbc6ad1a5533d4a5e926e542db9ea88377ab0fb65a619bbc94354fb053e3d3c5caf3cdaa6bf7dc86b730b894522661c55d1310f356db036ecde67c2db2d72163aac5c7918bf29c537aa563b6f0ac6ff1b1e2d40d68fe2fc6cebaa8060f8520dacdcf62a266be1b5c08a67e19eee135bed0f32ccfe9294b725a77b35d7ed262fdabc987b95f60d63a857d34f803d26906c89c9d4668c7b8d1ea50d7ffa799ca3dfb536625e2f8991554c512bd47b6067f352f86761becd3beb96723f16357c00d7713a9c999a487e99bb8c97ecdecf68720ad27eba76ad3ccbaaf8675100233b451f81956c6ad6be4bd59f82a2be42e769d2424745ee6f0de39de7baa54b0b54409e62a2c075d9f7ee85c4f76ff86343a5b3eec99bc6c198e07954bf1422a056538186020ad084139ff0589ab22f81f0997f3f7304e4c2f9b286bd55400a9d53ce5c1bdb1254c6b380a4c0b8ee2c0c632c584895fe985251b284b428737465749d4aaa9a33f10cb9690d13c779253abd019a86ec9b820caccd22cf4dae9b1a76ce9a4c8a7b7af173e50444a998b41fbff3a17cbb6f1e8be78dd83294a44b456b7854acb5c4b493a8a8cc218553e0bd1a06225a93501a33c8105ed7984c3b585ceacbc2ced3ef6c54171b9fb0b863ffe2f64288b56751a68b7ea67b5b723b7ff307cce58ba35e58f6950b632b15fc24e831da906a6e8be8f9253780b6dd1212182fbac7d7bc703d1223fe0eb2d8a55576b227d5c2a6c2571cab43906beea3509afa5f3ad61f7391f489970f3dc03f89e9099bbf23e64525d24c2eb66b8a99acdc0f4430bf8b97a577633898c99efad827a4c77cc2be6938cd99b8b44e305d83e92b0857962c3d96d7bf4b64bac7314ecd1361f37ab1f663108ac0c49645238ed584cdbb3c8519e77d3f90b33858dc41d253814f396a6463d40531adc80abf6330c6f9001513747062841f458f7b542e95047a66c6c901a0fcfba3c1f185a9e54a55985c11aff00c0d3c5064d943") 14
  = (hex "a25ea67c674db05d8c21d16c9c55cb4ef5f2968db28b2cb3c874481c5efc826071e0483a915fa5ac0f959ccce39ac038a1c97aeb7389c7bb3297ab48517a39fd0b9448fa6c0cfe91a66d43e981e7559004f617e3e24095dca1891ce6950e92a7d0d662a22122e622f232e067bad38d72e3b4bea4e50429fadc8d697f7397d8c8eb946c841e2521f8795dbca242e1b96408f0ac40236e34dc6b357363900904a618079c117d655af819d0c8795b0c4f075e557c8cd77ddbc4a1f3b56859fce4c3e23c9d0337a4f15fb0528881d97eb152aced748f95a31d398880a219fe6df60138d286cf0f4b6a98837d1eaa3fa53691477ea9b9299fc34439a13799370a0761588f963af62901d411c37abb3af3fdd8daf387942278456b3753193f449f0b939ec7b981507742ddab6f8a5f260d6b1f517b5853bcd5f961b7755a7db3aebdf4346a8641a8abb3351ab312eafa0d6a08d9eb1ac507c8405b060968266264802992f1fb43cffae8bd6ab9ef507a53fb61fe84947e937dbf7646ec951fcb8339f1dc56a091164950e5ca9b4e57c1bfca96f2b354de5bd617c734197161e1508245815967604aba2497358a5c4d6fb6dde5b5fe3f9d09bf711a11313d2ef82ed44e50183cf1b48887337f3f4d6945b7574bde0c3cf457f568dd8cf58ff358b8b76d7bc6aab4e971d418687d6df10cd4677821c90e30b647a9abb4c2b85da6d7bad1cd451fb2bc566b50797d23cb12e50c54d1ee0718ba65076fba15af3ac2c3904ad0b320d777776b19c763ddeecade128c671d250b493ad6aba1b5bd13dc676e1d4e2f8df8bfdea3e1b8a37b640f25e79c37f527a982360a6ba35b1c38762105debeba2c16d778cde4dd250c8a7e1adcf72929684421db102dde97fe5b21fc9cc7b2e65a1d5ae898dec285dfebe1a4ab3c3df4a65cc6ca933a6a8351249cc62a149f0887e7e00af05ecc34c4f24fc5b2d7708e18e9303a7cd3960f9234de800a89ef8734707e6128015ac508b3c4169d1794c2276575abd7afb2a29dfeb0335702f040cff14a5b1f27a9f4b5ca119aea2db7941cabdf3263e56b72e154cf099c16a5e6dfb99dbb3a88e9cbd640a142d94706f0a4f247eaee372f6dfc7365a2cafdb8492edb4f7d255efcc00ce3dadbb0177cd3bd56906f3faaaa53ab5cc79eed71e931cf44ab2b8798ee3b0da936c28d91c2ac0a213a4f7fb758bdcc22146a698eaf238cae0afe9abe5833f4f3e63ec662ba0dd9d73a7152e7c3dc5a45ee1a36a6c78b554799da51165a5c35c948cf28a84c7b7fd89e1d92e9afc0d4e05d9a991d33839c844a9d79aee1fad3e6568a930e107e5265eb7bbda48f5b6b09836c463fcefe61524817ea54dd16644ab60d4ccad09be761184801a532daaa853ad733aadeeb48ba74d5e268",
     hex "bbb21c1b1ad524dd61ea94d730a0").
Proof. vm_compute. split; reflexivity. Qed.

Example lib_ccm_22_key16_nonce12_aad0_len17_tag4 :
  ccm_enc (hex "841ab283fd5baf3efff4a22edc461bbb")
          (hex "1d7f8670bf4e0b1c95eb8c7a")
          (hex "")
          (hex "dfef1216906f27762e1291f50a63980ccd") 4
  = (hex "3451908de56b12fdb02cc5555ad1983151",
     hex "6dc9cedc")
  /\
  ccm_dec (hex "841ab283fd5baf3efff4a22edc461bbb")
          (hex "1d7f8670bf4e0b1c95eb8c7a")
          (hex "")
          (hex "3451908de56b12fdb02cc5555ad1983151") 4
  = (hex "dfef1216906f27762e1291f50a63980ccd",
     hex "6dc9cedc").
Proof. vm_compute. split; reflexivity. Qed.

Example lib_ccm_23_key16_nonce12_aad15_len1_tag8 :
  ccm_enc (hex "b1ec34741c133b54c58c2a2ff992b8f7")
          (hex "693cc2f8f29a319e21e0aab8")
          (hex "dbaf272ceeae0dbbba2c9de4ad8314")
          (hex "57") 8
  = (hex "99",
     hex "e13776d9e23fc85e")
  /\
  ccm_dec (hex "b1ec34741c133b54c58c2a2ff992b8f7")
          (hex "693cc2f8f29a319e21e0aab8")
          (hex "dbaf272ceeae0dbbba2c9de4ad8314")
          (hex "99") 8
  = (hex "57",
     hex "e13776d9e23fc85e").
Proof. vm_compute. split; reflexivity. Qed.

Example lib_ccm_24_key16_nonce12_aad31_len256_tag12 :
  ccm_enc (hex "0e1b29055eee57389a61f1440eeb53b7")
          (hex "09ef956ba526d603fe84c2b1")
          (hex "e05da40fd23badf140b7a622c472bf4701e2714b488dc15961f2a982d92a9e")
          (hex "68c90e65cb770da3a94984581c08876045ea65a39d39ca8b5d7ca8124ca1ada704f6f88f72137ad50be765c5087457dda6e0798905624a3a926a3b3769fbb342a304933124f6cf97c8ab1afc3078a872ec79e1ac05d9091e9523ada9737fa3c6a0415c2315e86cd0fe202a1fc7c899acfee97d8b512df8e6701fa04cd8516fcddc568de81dfbbd00394ac8edc65b3d2d0d98db7e4a6a2461bf4cd21fc3b10ce9f0ee867bf07157d194d95a570f0188ccd3cefd477f4672f150e1a92de772ad444fdcb5b4dba5442ef69a2658faef5de16ada86fa7bb14983d5a0cf90c5d515fadc8cfce96c8f7d5ddddcc07cea8f394e2237bfd78462083f1a741327ddd9f72f") 12
  = (hex "d1ce92f0295c71117127bb97f24cdd04c916cc500371232a6c69efcafa54ccfb5417858b1fcd3ab71f3ee243cf09f238ca8ceeae2c75d0cc29bd703553bf16d570f79c154c144b41e19006886e34458d8a90be9605c049708920ce703b3ac3987af02b2840a347c318b9f16648bd46032270fef06bcf2e0365ea3460f3d40620cbb616f1ddfb336cd069961627bd2a15171c304c5779841ffd4400f1ed84e1924081f65a59e448691a286af10dbbf3aa0ba55ca3a58444aaf3f2d91eea8d6f84c1337364eda52359b3cae32a4cd8ee29f0b51541542e6fa23f1c9d2a6c6139e1ad8728530a934bbbeb3c0f73d2bd72ff8f8b97b13d987b13e136497b43c43e20",
     hex "473f3790a2b0ef558f6e2b36")
  /\
  ccm_dec (hex "0e1b29055eee57389a61f1440eeb53b7")
          (hex "09ef956ba526d603fe84c2b1")
          (hex "e05da40fd23badf140b7a622c472bf4701e2714b488dc15961f2a982d92a9e")
          (hex "d1ce92f0295c71117127bb97f24cdd04c916cc500371232a6c69efcafa54ccfb5417858b1fcd3ab71f3ee243cf09f238ca8ceeae2c75d0cc29bd703553bf16d570f79c154c144b41e19006886e34458d8a90be9605c049708920ce703b3ac3987af02b2840a347c318b9f16648bd46032270fef06bcf2e0365ea3460f3d40620cbb616f1ddfb336cd069961627bd2a15171c304c5779841ffd4400f1ed84e1924081f65a59e448691a286af10dbbf3aa0ba55ca3a58444aaf3f2d91eea8d6f84c1337364eda52359b3cae32a4cd8ee29f0b51541542e6fa23f1c9d2a6c6139e1ad8728530a934bbbeb3c0f73d2bd72ff8f8b97b13d987b13e136497b43c43e20") 12
  = (hex "68c90e65cb770da3a94984581c08876045ea65a39d39ca8b5d7ca8124ca1ada704f6f88f72137ad50be765c5087457dda6e0798905624a3a926a3b3769fbb342a304933124f6cf97c8ab1afc3078a872ec79e1ac05d9091e9523ada9737fa3c6a0415c2315e86cd0fe202a1fc7c899acfee97d8b512df8e6701fa04cd8516fcddc568de81dfbbd00394ac8edc65b3d2d0d98db7e4a6a2461bf4cd21fc3b10ce9f0ee867bf07157d194d95a570f0188ccd3cefd477f4672f150e1a92de772ad444fdcb5b4dba5442ef69a2658faef5de16ada86fa7bb14983d5a0cf90c5d515fadc8cfce96c8f7d5ddddcc07cea8f394e2237bfd78462083f1a741327ddd9f72f",
     hex "473f3790a2b0ef558f6e2b36").
Proof. vm_compute. split; reflexivity. Qed.

Example lib_ccm_25_key16_nonce13_aad31_len15_tag16 :
  ccm_enc (hex "ca16e52bea9482a9f0bff8fdee38cb89")
          (hex "435aa27f48627b788be14eba03")
          (hex "c94c1f60711d53a27b0a6e4e86d0905995bed6208453cc3e34b6d43b7065db")
          (hex "009f2e3beaf3a31703eef3a5d3d8eb") 16
  = (hex "706d3f630a6d987c400f2c683a1f6d",
     hex "e556fbb5a0121251bc0c080b0d0284a0")
  /\
  ccm_dec (hex "ca16e52bea9482a9f0bff8fdee38cb89")
          (hex "435aa27f48627b788be14eba03")
          (hex "c94c1f60711d53a27b0a6e4e86d0905995bed6208453cc3e34b6d43b7065db")
          (hex "706d3f630a6d987c400f2c683a1f6d") 16
  = (hex "009f2e3beaf3a31703eef3a5d3d8eb",
     hex "e556fbb5a0121251bc0c080b0d0284a0").
Proof. vm_compute. split; reflexivity. Qed.

Example lib_ccm_26_key16_nonce13_aad1_len0_tag6 :
  ccm_enc (hex "498c5f90384e173062a5637c53ed05ec")
          (hex "6c8fc967d9ebda865198a200ba")
          (hex "3f")
          (hex "") 6
  = (hex "",
     hex "f71438eee51f")
  /\
  ccm_dec (hex "498c5f90384e173062a5637c53ed05ec")
          (hex "6c8fc967d9ebda865198a200ba")
          (hex "3f")
          (hex "") 6
  = (hex "",
     hex "f71438eee51f").
Proof. vm_compute. split; reflexivity. Qed.

Example lib_ccm_27_key16_nonce13_aad16_len17_tag10 :
  ccm_enc (hex "0f2a9fc238c84f91705b505fb3ba167b")
          (hex "1d3dee0880dbde24dedd0c4c5c")
          (hex "a36fb672406bf1897eb955582dd1d3cb")
          (hex "79bfed18a0a4f696480c2ff48c2e5135ec") 10
  = (hex "ff4a8e69f121e328043cd3bb985bcce2ce",
     hex "b5d347ae19cfdf3badeb")
  /\
  ccm_dec (hex "0f2a9fc238c84f91705b505fb3ba167b")
          (hex "1d3dee0880dbde24dedd0c4c5c")
          (hex "a36fb672406bf1897eb955582dd1d3cb")
          (hex "ff4a8e69f121e328043cd3bb985bcce2ce") 10
  = (hex "79bfed18a0a4f696480c2ff48c2e5135ec",
     hex "b5d347ae19cfdf3badeb").
Proof. vm_compute. split; reflexivity. Qed.

Example lib_ccm_28_key16_nonce13_aad46_len1_tag14 :
  ccm_enc (hex "ecdc74fd9cbe2a1baae54fc903545a89")
          (hex "fa39f2bc51c4c93512e2cbff15")
          (hex "f8a447aea046b51fb06b04e3f3353c2c242c2f3708e8fb3cfb6a5aa6061abd705dff1c540e68f76b5223cfa05f3b")
          (hex "c2") 14
  = (hex "3c",
     hex "61f6123ba32412c339051ead3064")
  /\
  ccm_dec (hex "ecdc74fd9cbe2a1baae54fc903545a89")
          (hex "fa39f2bc51c4c93512e2cbff15")
          (hex "f8a447aea046b51fb06b04e3f3353c2c242c2f3708e8fb3cfb6a5aa6061abd705dff1c540e68f76b5223cfa05f3b")
          (hex "3c") 14
  = (hex "c2",
     hex "61f6123ba32412c339051ead3064").
Proof. vm_compute. split; reflexivity. Qed.

Example lib_ccm_29_key32_nonce7_aad46_len256_tag4 :
  ccm_enc (hex "689afb9bc8d14c36e9e505a9e350eb8a7c041dbdcdff2b2d936c0f8e27b38387")
          (hex "ce7ea3c5b3d9d7")
          (hex "06576ad013f444950687202753c8ea2e4a261513d05f5badf900b95d6f4d6a8c746bfff815bd7c15445566f73a5c")
          (hex "10cba568ee381b06d135680fb1cb1e74db208e0744e936a125e3223b794ce43ef51e748df06e1f9e37325a4f53140d50ca62b736e6ffaab41b1dac50edc25a18693df8fb94718e8ef543ce697217aef04956fec297c75a3993ee8c274aa769921f4de789ef9344e8afaad445120c2a6312ea77f6966ee87f6068d0768d36baedf9b7f167834e65330a33bae907e7c7392a54b6267476bdafa9263934a1c352ba0e304eb65e48d4284c3dc14524a08c4ae42eb20d7e6ddfed029a637ce4809ce9e13a9457933501e5b75d25739adcba62ab8a5ed7281956f0f5e7a7bc3d0bef326f665a122843b9229a83674fa07d19a68e497ea92678b41a425debc7158f010c") 4
  = (hex "aed06bdd5461b42f3f143828776abe2c7c0f6f664bfab555d6a4cd5bba7552afb0c4e979d19f87c35caaed17e8e80ba1fc128ac384bf371200c50d19a2dc822ef86088c330431fe9e190d513c91544bb420cab382f4998dab74fd607eb271be22158835c599563777f1586eccbb27212889e4105f77ce2b2e6b5bc2279d19d5aaccab01b902c854108cc9f70ce36f85488ae10b81ea7fddb6a0309006e4fb0dde3897717cd424bc967d42b8232aa632e26ff9e6821e5b1cefa947e69c351d1d4e5785acaec90a74c802aaa6d2b53d8509149f94430938b8d443398a7931937ebafb97436acf9adbed8ba49b00a69be2394fe4e6667374520221c186dc28fb1bd",
     hex "547754c0")
  /\
  ccm_dec (hex "689afb9bc8d14c36e9e505a9e350eb8a7c041dbdcdff2b2d936c0f8e27b38387")
          (hex "ce7ea3c5b3d9d7")
          (hex "06576ad013f444950687202753c8ea2e4a261513d05f5badf900b95d6f4d6a8c746bfff815bd7c15445566f73a5c")
          (hex "aed06bdd5461b42f3f143828776abe2c7c0f6f664bfab555d6a4cd5bba7552afb0c4e979d19f87c35caaed17e8e80ba1fc128ac384bf371200c50d19a2dc822ef86088c330431fe9e190d513c91544bb420cab382f4998dab74fd607eb271be22158835c599563777f1586eccbb27212889e4105f77ce2b2e6b5bc2279d19d5aaccab01b902c854108cc9f70ce36f85488ae10b81ea7fddb6a0309006e4fb0dde3897717cd424bc967d42b8232aa632e26ff9e6821e5b1cefa947e69c351d1d4e5785acaec90a74c802aaa6d2b53d8509149f94430938b8d443398a7931937ebafb97436acf9adbed8ba49b00a69be2394fe4e6667374520221c186dc28fb1bd") 4
  = (hex "10cba568ee381b06d135680fb1cb1e74db208e0744e936a125e3223b794ce43ef51e748df06e1f9e37325a4f53140d50ca62b736e6ffaab41b1dac50edc25a18693df8fb94718e8ef543ce697217aef04956fec297c75a3993ee8c274aa769921f4de789ef9344e8afaad445120c2a6312ea77f6966ee87f6068d0768d36baedf9b7f167834e65330a33bae907e7c7392a54b6267476bdafa9263934a1c352ba0e304eb65e48d4284c3dc14524a08c4ae42eb20d7e6ddfed029a637ce4809ce9e13a9457933501e5b75d25739adcba62ab8a5ed7281956f0f5e7a7bc3d0bef326f665a122843b9229a83674fa07d19a68e497ea92678b41a425debc7158f010c",
     hex "547754c0").
Proof. vm_compute. split; reflexivity. Qed.

Example lib_ccm_30_key32_nonce7_aad14_len16_tag8 :
  ccm_enc (hex "e4c459cdeb5c8952424b733f7ea7269b8f60225ce07fe13acc7140d0910c24cc")
          (hex "7151847df223e6")
          (hex "4746bf313a958eb1de912a5b9789")
          (hex "da6ffcff40c368fdf19e8b838a3ab6d5") 8
  = (hex "dbb5b101933dabcd838a157041407542",
     hex "7528f68802d5bc0e")
  /\
  ccm_dec (hex "e4c459cdeb5c8952424b733f7ea7269b8f60225ce07fe13acc7140d0910c24cc")
          (hex "7151847df223e6")
          (hex "4746bf313a958eb1de912a5b9789")
          (hex "dbb5b101933dabcd838a157041407542") 8
  = (hex "da6ffcff40c368fdf19e8b838a3ab6d5",
     hex "7528f68802d5bc0e").
Proof. vm_compute. split; reflexivity. Qed.

Example lib_ccm_31_key32_nonce7_aad30_len0_tag12 :
  ccm_enc (hex "633772e7995dbed67aefb085cffe020b847255ee261b444654a3e38135138f67")
          (hex "1bf985a4e3cc1b")
          (hex "6cba6efdc21dced37624b35068abbf801b21de1b18a2a9ae8adbf64d10ae")
          (hex "") 12
  = (hex "",
     hex "3872a82a462452f459513321")
  /\
  ccm_dec (hex "633772e7995dbed67aefb085cffe020b847255ee261b444654a3e38135138f67")
          (hex "1bf985a4e3cc1b")
          (hex "6cba6efdc21dced37624b35068abbf801b21de1b18a2a9ae8adbf64d10ae")
          (hex "") 12
  = (hex "",
     hex "3872a82a462452f459513321").
Proof. vm_compute. split; reflexivity. Qed.

Example lib_ccm_32_key32_nonce7_aad0_len100_tag16 :
  ccm_enc (hex "d2dcde804d389392561de7eae7c435c0f1cc183ddaca7b281c85e1b06941d5a1")
          (hex "2248e7b496e2fc")
          (hex "")
          (hex "e5562106ede652553e895809e3fa8a1d9d5b48e5a0b82e5fb39c9b92da89f85609ef808cc7be66dd536996cf8607cc0b121a1908d5663183f85a5ed148d2baa2b56990aca173a94cdd1d06eb51e71d177dbd5989983d6f492a36c13e94b741f1dac90de2") 16
  = (hex "47de429403bb329aa09cf466ec569d68df683c96d82f7ef47bb61f8814f6ce371765e8dc4c4bff2d96dacca2ea37c116ff9dc4ea44b48ca67fd97b6787a68cbba7385f1194d9be946757b5790faadd9a0ddc82c61d03c87a01c18a79f44ae54dee4ef7a1",
     hex "55a53f57d8788cf70154c0b6ff23cd12")
  /\
  ccm_dec (hex "d2dcde804d389392561de7eae7c435c0f1cc183ddaca7b281c85e1b06941d5a1")
          (hex "2248e7b496e2fc")
          (hex "")
          (hex "47de429403bb329aa09cf466ec569d68df683c96d82f7ef47bb61f8814f6ce371765e8dc4c4bff2d96dacca2ea37c116ff9dc4ea44b48ca67fd97b6787a68cbba7385f1194d9be946757b5790faadd9a0ddc82c61d03c87a01c18a79f44ae54dee4ef7a1") 16
  = (hex "e5562106ede652553e895809e3fa8a1d9d5b48e5a0b82e5fb39c9b92da89f85609ef808cc7be66dd536996cf8607cc0b121a1908d5663183f85a5ed148d2baa2b56990aca173a94cdd1d06eb51e71d177dbd5989983d6f492a36c13e94b741f1dac90de2",
     hex "55a53f57d8788cf70154c0b6ff23cd12").
Proof. vm_compute. split; reflexivity. Qed.

Example lib_ccm_33_key32_nonce8_aad0_len1_tag6 :
  ccm_enc (hex "35706298a8ec2f14ef1b4d07ce670950049b0345fb9cc2d34a2411a96738af90")
          (hex "1b07369b017962f1")
          (hex "")
          (hex "d0") 6
  = (hex "5a",
     hex "d905d74dd379")
  /\
  ccm_dec (hex "35706298a8ec2f14ef1b4d07ce670950049b0345fb9cc2d34a2411a96738af90")
          (hex "1b07369b017962f1")
          (hex "")
          (hex "5a") 6
  = (hex "d0",
     hex "d905d74dd379").
Proof. vm_compute. split; reflexivity. Qed.

Example lib_ccm_34_key32_nonce8_aad15_len256_tag10 :
  ccm_enc (hex "7fc6635ca0edcb8cc40e9800e2fcfc6fc7bf59dea7ea7b171ce330f254e252c0")
          (hex "dc547d4935cb3a60")
          (hex "5464b37bfe7c799dd244395725f2f2")
          (hex "2decff5453513ffeca77da779947db30550bd01273d860ca763ccb01bf0006289b87b98cc51dc17200bdfa68d46e446909b0af623d5c675b2012991732adbf049cd807d3a9d4b7ae882be3db71bffcdb55c00020819fa37808fa3ca65dfe3ca2146d3825680d5a37401fe1da6c4fd7829112f8bf8444530fa0bdd4f2da1ef08cbc8e8ebe5c7685b3e725c723b16c9009efc0c47adf122bc05e4b7b144134129f1f727c038cc76d841a67e0ad5b3ae444af0c01f6fa2ca9c496c8dfde52e6fbe57d96bb2206cbb2311deb3a49254de872d388b50113fd89a28752b40a370dfbfa3e0dd49f5098582edb0d8ec40cfdeb86ceb241a9bdb969e9b400591a39fc110e") 10
  = (hex "a45520f1eed46df25a64c65632878a05ac6d1e5ddfe6bb290795e1cd94f5b1559bd94d9b30fd55a10814dbb4c90c5793a0bf7871513224321b73e09411b20ac70edd994364b596b8fc1081da1fea1a85143be6ea22b79091e12e5ab02fc2042ad8f76ed9c1f39eadfc52b491ddc84c8778dfbdbd9c66daa434cbc266c79e1f9f0359830779609caad151699483f3d0ccbd293a478cbfdc632f76b29a3be83d9ea6417926fa584a800b0e590631261aac70d1954c857191084797ee07be364239f4d70c28213eae25f2b563acb5fd4bafd52c5803c701c20d42324455744720f6eee63fcb6ccfa208e2d89b6dadc686a1b9ff11ad35ddd8e6e2f548cdc1576d4b",
     hex "677ea29632c33275e055")
  /\
  ccm_dec (hex "7fc6635ca0edcb8cc40e9800e2fcfc6fc7bf59dea7ea7b171ce330f254e252c0")
          (hex "dc547d4935cb3a60")
          (hex "5464b37bfe7c799dd244395725f2f2")
          (hex "a45520f1eed46df25a64c65632878a05ac6d1e5ddfe6bb290795e1cd94f5b1559bd94d9b30fd55a10814dbb4c90c5793a0bf7871513224321b73e09411b20ac70edd994364b596b8fc1081da1fea1a85143be6ea22b79091e12e5ab02fc2042ad8f76ed9c1f39eadfc52b491ddc84c8778dfbdbd9c66daa434cbc266c79e1f9f0359830779609caad151699483f3d0ccbd293a478cbfdc632f76b29a3be83d9ea6417926fa584a800b0e590631261aac70d1954c857191084797ee07be364239f4d70c28213eae25f2b563acb5fd4bafd52c5803c701c20d42324455744720f6eee63fcb6ccfa208e2d89b6dadc686a1b9ff11ad35ddd8e6e2f548cdc1576d4b") 10
  = (hex "2decff5453513ffeca77da779947db30550bd01273d860ca763ccb01bf0006289b87b98cc51dc17200bdfa68d46e446909b0af623d5c675b2012991732adbf049cd807d3a9d4b7ae882be3db71bffcdb55c00020819fa37808fa3ca65dfe3ca2146d3825680d5a37401fe1da6c4fd7829112f8bf8444530fa0bdd4f2da1ef08cbc8e8ebe5c7685b3e725c723b16c9009efc0c47adf122bc05e4b7b144134129f1f727c038cc76d841a67e0ad5b3ae444af0c01f6fa2ca9c496c8dfde52e6fbe57d96bb2206cbb2311deb3a49254de872d388b50113fd89a28752b40a370dfbfa3e0dd49f5098582edb0d8ec40cfdeb86ceb241a9bdb969e9b400591a39fc110e",
     hex "677ea29632c33275e055").
Proof. vm_compute. split; reflexivity. Qed.

Example lib_ccm_35_key32_nonce8_aad31_len16_tag14 :
  ccm_enc (hex "8382f3f3134ecc68a40beb2174366005ed8ac9ffe943b85630d7a9115eabb15c")
          (hex "5c74219b70b02f05")
          (hex "01dc74f7b7fe1279763243d55be551e4588ea41ca68a9de111e5afd192c0df")
          (hex "b48e70fffab6b68ec3c851590c9dc0df") 14
  = (hex "fbcaf6180ac29df646ce495c857f5b85",
     hex "ba14be6c7c4bdaa7b79251263687")
  /\
  ccm_dec (hex "8382f3f3134ecc68a40beb2174366005ed8ac9ffe943b85630d7a9115eabb15c")
          (hex "5c74219b70b02f05")
          (hex "01dc74f7b7fe1279763243d55be551e4588ea41ca68a9de111e5afd192c0df")
          (hex "fbcaf6180ac29df646ce495c857f5b85") 14
  = (hex "b48e70fffab6b68ec3c851590c9dc0df",
     hex "ba14be6c7c4bdaa7b79251263687").
Proof. vm_compute. split; reflexivity. Qed.

Example lib_ccm_36_key32_nonce8_aad1_len0_tag4 :
  ccm_enc (hex "5b33c8b6b593332c7f35374cea17c688f563996751dd88b09c0129df989f3f5a")
          (hex "9bf555f42e6dadc9")
          (hex "8b")
          (hex "") 4
  = (hex "",
     hex "fd95b235")
  /\
  ccm_dec (hex "5b33c8b6b593332c7f35374cea17c688f563996751dd88b09c0129df989f3f5a")
          (hex "9bf555f42e6dadc9")
          (hex "8b")
          (hex "") 4
  = (hex "",
     hex "fd95b235").
Proof. vm_compute. split; reflexivity. Qed.

Example lib_ccm_37_key32_nonce9_aad1_len17_tag8 :
  ccm_enc (hex "6c38a1340e3b6d22dbe082145986af9aa9fc16ff51844608953a6e61d8737328")
          (hex "f06848c5be23a3dedd")
          (hex "4c")
          (hex "a5179c383b092b35dfc741b04c700a2934") 8
  = (hex "7351be71fe4a8af46af51ebd977544c8a5",
     hex "4b2296e9c4da6de3")
  /\
  ccm_dec (hex "6c38a1340e3b6d22dbe082145986af9aa9fc16ff51844608953a6e61d8737328")
          (hex "f06848c5be23a3dedd")
          (hex "4c")
          (hex "7351be71fe4a8af46af51ebd977544c8a5") 8
  = (hex "a5179c383b092b35dfc741b04c700a2934",
     hex "4b2296e9c4da6de3").
Proof. vm_compute. split; reflexivity. Qed.

Example lib_ccm_38_key32_nonce9_aad16_len1_tag12 :
  ccm_enc (hex "dbe7fed95961a9fa14de17e5cc87e929e1c63c2865b46f7195bdffd4a93428d4")
          (hex "e831d0276d9df82f4a")
          (hex "6af09869a81817c56dc08934ae3bcef7")
          (hex "dd") 12
  = (hex "f5",
     hex "a73ffd4b99d4f82cb73da471")
  /\
  ccm_dec (hex "dbe7fed95961a9fa14de17e5cc87e929e1c63c2865b46f7195bdffd4a93428d4")
          (hex "e831d0276d9df82f4a")
          (hex "6af09869a81817c56dc08934ae3bcef7")
          (hex "f5") 12
  = (hex "dd",
     hex "a73ffd4b99d4f82cb73da471").
Proof. vm_compute. split; reflexivity. Qed.

Example lib_ccm_39_key32_nonce9_aad46_len256_tag16 :
  ccm_enc (hex "e22e78b9ec0f94b5a6987151a75286ec04ae750b86e7246a65237672e03bd226")
          (hex "809893b57d463f6d33")
          (hex "1659985e4bbdf6284bd18fd382ff6e6ce8f4f7436488da70483e531ac1518c8ad12ac28113d9ff0939c38e617231")
          (hex "399f691be8e79a8e2f2ae3cca9b74ef3c3148319b929da8ee6d6f2cd197b5aa43fdb6e6fdeffff1ba1238a1565223b822160f7dcaeb71fc901b5657fe6b4ff97727fd9defa9f4f259c2a98431d26ce0e932730ff1f674477b0e47807e710b458a9c1052d28f7f89c8402cdecd9eb79949e0f1b2cfde96302ea0aab132da8ff8bf0afb22890b419a2884f4674ab022d34c05a6bbacd2ec5769b7b9796534c3b34771ec78c92f29f3284e1ab0ce71f8f2e995e406a2d1c153f83eb2f1f907bc816118163a4334b504a7ed9da28bc427813d2d96810940681b8b2d3f0b9e768a3b1bfc6a68a7dc36048b00d262f6b75eb654939970dffd571c6b6bb699296528f23") 16
  = (hex "42d4d4ade81dd55ab7d1727cd4eea7a9708332487277a20f06c14edd3d5b85394d834d865858d41351811aaa427287e54d005e596ce8b74d6b4f635239ab0cedeed90b2cdb990c65f12bd3d2185eb82750f0ecf9aed7e6f900bc87fed7c0e527fce3fc61f239210114110c2d9000abc54ef00df197d3d06a5918b9e50c28b7acae6fb78b1a73f996aa1a6eef095507619c57e67305fcb961e59674fc7c91c624f5fe37b1df6186e1dc4399fab223e60e44c1cff64a7a9e4438fe340b8ddde66dfe16a8b9d6e725280590727b0f8e6ac1af79d3a374cc76545fc3dd944a558781a4bb6989e36ea5d40cd37df394a8fcbe183d64bada10febb71c2f80d460b750f",
     hex "00d02ab86a9488e46958eb6f2d06a718")
  /\
  ccm_dec (hex "e22e78b9ec0f94b5a6987151a75286ec04ae750b86e7246a65237672e03bd226")
          (hex "809893b57d463f6d33")
          (hex "1659985e4bbdf6284bd18fd382ff6e6ce8f4f7436488da70483e531ac1518c8ad12ac28113d9ff0939c38e617231")
          (hex "42d4d4ade81dd55ab7d1727cd4eea7a9708332487277a20f06c14edd3d5b85394d834d865858d41351811aaa427287e54d005e596ce8b74d6b4f635239ab0cedeed90b2cdb990c65f12bd3d2185eb82750f0ecf9aed7e6f900bc87fed7c0e527fce3fc61f239210114110c2d9000abc54ef00df197d3d06a5918b9e50c28b7acae6fb78b1a73f996aa1a6eef095507619c57e67305fcb961e59674fc7c91c624f5fe37b1df6186e1dc4399fab223e60e44c1cff64a7a9e4438fe340b8ddde66dfe16a8b9d6e725280590727b0f8e6ac1af79d3a374cc76545fc3dd944a558781a4bb6989e36ea5d40cd37df394a8fcbe183d64bada10febb71c2f80d460b750f") 16
  = (hex "399f691be8e79a8e2f2ae3cca9b74ef3c3148319b929da8ee6d6f2cd197b5aa43fdb6e6fdeffff1ba1238a1565223b822160f7dcaeb71fc901b5657fe6b4ff97727fd9defa9f4f259c2a98431d26ce0e932730ff1f674477b0e47807e710b458a9c1052d28f7f89c8402cdecd9eb79949e0f1b2cfde96302ea0aab132da8ff8bf0afb22890b419a2884f4674ab022d34c05a6bbacd2ec5769b7b9796534c3b34771ec78c92f29f3284e1ab0ce71f8f2e995e406a2d1c153f83eb2f1f907bc816118163a4334b504a7ed9da28bc427813d2d96810940681b8b2d3f0b9e768a3b1bfc6a68a7dc36048b00d262f6b75eb654939970dffd571c6b6bb699296528f23",
     hex "00d02ab86a9488e46958eb6f2d06a718").
Proof. vm_compute. split; reflexivity. Qed.

Example lib_ccm_40_key32_nonce9_aad14_len16_tag6 :
  ccm_enc (hex "8d348948ad177aaa9e8322b22711a4e482a0f52ad63dba0d9a567b6390a07bd7")
          (hex "8c85c230552bc71304")
          (hex "8b2e68fb6517effb40868955fba2")
          (hex "271472bc566068565b00af16162e59c5") 6
  = (hex "12a95fc4599524024abf49627cba12cc",
     hex "cbcaf0ab5fb6")
  /\
  ccm_dec (hex "8d348948ad177aaa9e8322b22711a4e482a0f52ad63dba0d9a567b6390a07bd7")
          (hex "8c85c230552bc71304")
          (hex "8b2e68fb6517effb40868955fba2")
          (hex "12a95fc4599524024abf49627cba12cc") 6
  = (hex "271472bc566068565b00af16162e59c5",
     hex "cbcaf0ab5fb6").
Proof. vm_compute. split; reflexivity. Qed.

Example lib_ccm_41_key32_nonce10_aad14_len1000_tag10 :
  ccm_enc (hex "d0649c8c5eeffd5d7044cee19aa87d3ee5e24dc2747c97a9c2bdc6a35b02a0cc")
          (hex "573f110a53a53de09144")
          (hex "fe39d702d7f2702b8aba91ee960f")
          (hex "2f5714942d6ec601ac030009501d30563473138e3b9c5674ebe252f53591e90e81a3b8ab50513aecd97f0475239e2c1fe85998fb7132b196dec01e1424ffa52a1f619a82e6a4faab8eee35d279b8ec9f20eec836c20390ff99ae9640c8d2e46ddf0a5a4bb41de3aa12cba8d75aa79013a397ac5aef6d5d9f3424cacd557f2a4e856f7aebf9cfbdabe1b1583d571eb7045c25ac8223c944edfc49660cae597cada7c4be2e847563c698692ef35dc98132de01e9c033b5acb21ae0a47d99a4777c956017082cd3dab24726f4ad307094e7019b58cdff0082002e35d42a92512e386a41cc9847b25755aff37d3278882cdd8466b4507eee6d0596d6dfa365d88bfb276700d778cacfdab47483f61dabd4189c1146ec2edfdd8cf6a6317e5b4d208a65253470edabcb59e12feebacb7095c28d1bcee60a58fca77c3d3f2acfbee025033a253a4db07ab89ca30a9d562700fd018781c6b63d9d4f59fbf9d2906cea595650399a0c3b512949a8209800b45a765ffe81efa3f93f6f4044ac143254a81c136ae21f145e06591ff5f2b93a412aa86813cfcb344007583a83a048b41f30eb3afee2cb517a5f8dd3de16ca502ac53909b2889a5ac7e1b74819604a249f2c73a9ede24c5e009154638b0fb1c516906c57fef1f21263c29701174a0c98321ed39334af76b86557ef2cd7a7038516a1ecb266a2ea5a59324f19b6e299928d8509dfe553e15a35c795b6dd665387a23cefb9703c9ea35ecd172b106ebc2bec2d3f52f64f5977744a21830c2ffb48661cf754e4c01dd8ce9762a4b794daae359ee366451499c015deb3978e99d64e94843a1472160ba6b2c77dc33b3d2b28b0e47a20d4f6ba4e178950372991e45cc3dcf5a5e8efa17716a15388d965dd9ddf31d402914d5d5b9b815a7eb8546af568e9ebc796a620f5d76edeec9f768d46f603c449e23b399100612ac3420976f0681a21569526e6bcf0fb3d517ec2610cd817240886230b7c5b85c5f8a7f7b57c9e22b8042c5de581fc2eb4e3a8ef2de2fba2183551c314ddce6815e833233a368792df0c3f14ecdc52078bda8576accd0dbf476577459b5b0517572cfb76230f79de3da49a2e8fe85e8232a0db6ed508952e4bc5d38f76647fa08a03f982967d70dbc4b10d574f588dc4e23d612d22c383eac99b108df9b2a86ea683aad7b4ba4b5a911ad39750d86c5d0fc2d6288e4ab82b387032c9e6d314a16dd5a36f7c8e8b25789f5dabf571e9208f22eb96797322a0efdcf3d17825c5436db9929cd6eed5c9182ae21cc8e593542da73860a7b4e580a6defcc89b00a18c18a68f4981f551560b6c239b8015a554d00811cc74f9e771a4fe154d2522ce6921bf30f050fc1015d15343f5b13e66cbdc3132ea4693a6cf36022f36520f22d3b0") 10
  = (hex "b6a70811d611a25e516c30e1d6992bd5a7913e37285ff0d068d5e329dca0d2451d856d2e5fca0ea5d74b7f8b01ef158dfb0a6034e7be1d5c9535c8b6e5fc9a4a0cc403099a0254a12ccd8f071720d4d0857e6c0515891fdbe0c353c52453a8125dcc57c719d893d897f91df7d9276c643186d1fa165f5433237b11b2428315d1217ac5c58d6f65953d5b690c5c9611a7c9bf81658e3449c679859e72bcf62935e1863173f9f377dbe23530d54b53704b987da5ad38babbfeb85968858c187b060111ca27a591fcd39a5b7b8504c7e246787eea2faa4bf8513ceb7544ce08e440c4ed55c8a36f118f1976f960e5cc46235ac86b55b3c730f39bcaacf23dda17e3b553c2abea9bb508f8a20f9711b31d13e7910742e8acf0020de96473d6f9321dbd62f2f197d372cd3589b729edb0208fd9975959780d1a3ecfb5cd760a00509695b79bf90e62bb5c365b66a5ffbef52501047162df838485bd0c12024746ff8093b4c06ff7e1a0541c880bc2f52b8d062980221753a344d911fc6f775bb662014002555ac781dd1454ec68e90ab5c768d828876a07d8dff10f8927ca821fd5da996ebd7e7252520592286599627f73c71ebe7b4fcdf2a88e2745afa04e4315d746474f6bab3b3db99a30bb1ceb71ba98725cb89711c664cf4738728cc5f2679b2d91e065876193adc1448e689e0f7c48657d14c46acede84771ece6cfd2e08db25280dc56e7d6ced879ef5c68acdf010fb35c9c414588565be5f1b7d9a03e39f3866f967d8543289f37f3b94969a915d1973387e6663e920c9c1f0d90e263407f0308304e51d49f2520f31687d5b4bf234d5022651b2f7be74158e5f9bc02dba24eeaced532d3047c70913dd3dcff3e397693595341ffb33c82f0c3bc2bf4bca80c227cf64406d281bcba5eca3c0462ffe34fcb8b6f4b0a94775d58b9705845a9274a792ea65fb3945d8d6e533b45d574262c5bb2bb70c63ec129f5a39730330378192e5abb63bad8f37f7719a558a89bc31422db135c91e22187485d94c9870ad69ec568a49f5e79c353c1f510d6dcd0d128b98ffe73c12c861f0c8b65a02af668df5ab1616a2bf5e905a441a7d68ad7cb94a11a62518fcfcdd3083a0aeef952269f84ea4ff0dd5f93e75cd82f0f2a85bb8b6ab93273603d4392486508ef085b01224a1ae026dec0e79feb4ea441fa3cac0e30904bc1062e5f27284229da22a09926662d9215cbdb96269a419ba84ea5a77e80457175691335a88139a000afea5d370c079682dfb887721351be1c80b068dfce1d87eda9e56586e5203191c393bab955a0d2f3c46d79c9b826afff7a28eb1d5bccb3045dfee02445d0ad3d7bbf4b82eb23f1c398741404c81c2d010d0524acba3717424ea4c0052ce5d7c0365d7cf208507d1ae8e",
     hex "5746e6e03d1be6ed1ff1")
  /\
  ccm_dec (hex "d0649c8c5eeffd5d7044cee19aa87d3ee5e24dc2747c97a9c2bdc6a35b02a0cc")
          (hex "573f110a53a53de09144")
          (hex "fe39d702d7f2702b8aba91ee960f")
          (hex "b6a70811d611a25e516c30e1d6992bd5a7913e37285ff0d068d5e329dca0d2451d856d2e5fca0ea5d74b7f8b01ef158dfb0a6034e7be1d5c9535c8b6e5fc9a4a0cc403099a0254a12ccd8f071720d4d0857e6c0515891fdbe0c353c52453a8125dcc57c719d893d897f91df7d9276c643186d1fa165f5433237b11b2428315d1217ac5c58d6f65953d5b690c5c9611a7c9bf81658e3449c679859e72bcf62935e1863173f9f377dbe23530d54b53704b987da5ad38babbfeb85968858c187b060111ca27a591fcd39a5b7b8504c7e246787eea2faa4bf8513ceb7544ce08e440c4ed55c8a36f118f1976f960e5cc46235ac86b55b3c730f39bcaacf23dda17e3b553c2abea9bb508f8a20f9711b31d13e7910742e8acf0020de96473d6f9321dbd62f2f197d372cd3589b729edb0208fd9975959780d1a3ecfb5cd760a00509695b79bf90e62bb5c365b66a5ffbef52501047162df838485bd0c12024746ff8093b4c06ff7e1a0541c880bc2f52b8d062980221753a344d911fc6f775bb662014002555ac781dd1454ec68e90ab5c768d828876a07d8dff10f8927ca821fd5da996ebd7e7252520592286599627f73c71ebe7b4fcdf2a88e2745afa04e4315d746474f6bab3b3db99a30bb1ceb71ba98725cb89711c664cf4738728cc5f2679b2d91e065876193adc1448e689e0f7c48657d14c46acede84771ece6cfd2e08db25280dc56e7d6ced879ef5c68acdf010fb35c9c414588565be5f1b7d9a03e39f3866f967d8543289f37f3b94969a915d1973387e6663e920c9c1f0d90e263407f0308304e51d49f2520f31687d5b4bf234d5022651b2f7be74158e5f9bc02dba24eeaced532d3047c70913dd3dcff3e397693595341ffb33c82f0c3bc2bf4bca80c227cf64406d281bcba5eca3c0462ffe34fcb8b6f4b0a94775d58b9705845a9274a792ea65fb3945d8d6e533b45d574262c5bb2bb70c63ec129f5a39730330378192e5abb63bad8f37f7719a558a89bc31422db135c91e22187485d94c9870ad69ec568a49f5e79c353c1f510d6dcd0d128b98ffe73c12c861f0c8b65a02af668df5ab1616a2bf5e905a441a7d68ad7cb94a11a62518fcfcdd3083a0aeef952269f84ea4ff0dd5f93e75cd82f0f2a85bb8b6ab93273603d4392486508ef085b01224a1ae026dec0e79feb4ea441fa3cac0e30904bc1062e5f27284229da22a09926662d9215cbdb96269a419ba84ea5a77e80457175691335a88139a000afea5d370c079682dfb887721351be1c80b068dfce1d87eda9e56586e5203191c393bab955a0d2f3c46d79c9b826afff7a28eb1d5bccb3045dfee02445d0ad3d7bbf4b82eb23f1c398741404c81c2d010d0524acba3717424ea4c0052ce5d7c0365d7cf208507d1ae8e") 10
  = (hex "2f5714942d6ec601ac030009501d30563473138e3b9c5674ebe252f53591e90e81a3b8ab50513aecd97f0475239e2c1fe85998fb7132b196dec01e1424ffa52a1f619a82e6a4faab8eee35d279b8ec9f20eec836c20390ff99ae9640c8d2e46ddf0a5a4bb41de3aa12cba8d75aa79013a397ac5aef6d5d9f3424cacd557f2a4e856f7aebf9cfbdabe1b1583d571eb7045c25ac8223c944edfc49660cae597cada7c4be2e847563c698692ef35dc98132de01e9c033b5acb21ae0a47d99a4777c956017082cd3dab24726f4ad307094e7019b58cdff0082002e35d42a92512e386a41cc9847b25755aff37d3278882cdd8466b4507eee6d0596d6dfa365d88bfb276700d778cacfdab47483f61dabd4189c1146ec2edfdd8cf6a6317e5b4d208a65253470edabcb59e12feebacb7095c28d1bcee60a58fca77c3d3f2acfbee025033a253a4db07ab89ca30a9d562700fd018781c6b63d9d4f59fbf9d2906cea595650399a0c3b512949a8209800b45a765ffe81efa3f93f6f4044ac143254a81c136ae21f145e06591ff5f2b93a412aa86813cfcb344007583a83a048b41f30eb3afee2cb517a5f8dd3de16ca502ac53909b2889a5ac7e1b74819604a249f2c73a9ede24c5e009154638b0fb1c516906c57fef1f21263c29701174a0c98321ed39334af76b86557ef2cd7a7038516a1ecb266a2ea5a59324f19b6e299928d8509dfe553e15a35c795b6dd665387a23cefb9703c9ea35ecd172b106ebc2bec2d3f52f64f5977744a21830c2ffb48661cf754e4c01dd8ce9762a4b794daae359ee366451499c015deb3978e99d64e94843a1472160ba6b2c77dc33b3d2b28b0e47a20d4f6ba4e178950372991e45cc3dcf5a5e8efa17716a15388d965dd9ddf31d402914d5d5b9b815a7eb8546af568e9ebc796a620f5d76edeec9f768d46f603c449e23b399100612ac3420976f0681a21569526e6bcf0fb3d517ec2610cd817240886230b7c5b85c5f8a7f7b57c9e22b8042c5de581fc2eb4e3a8ef2de2fba2183551c314ddce6815e833233a368792df0c3f14ecdc52078bda8576accd0dbf476577459b5b0517572cfb76230f79de3da49a2e8fe85e8232a0db6ed508952e4bc5d38f76647fa08a03f982967d70dbc4b10d574f588dc4e23d612d22c383eac99b108df9b2a86ea683aad7b4ba4b5a911ad39750d86c5d0fc2d6288e4ab82b387032c9e6d314a16dd5a36f7c8e8b25789f5dabf571e9208f22eb96797322a0efdcf3d17825c5436db9929cd6eed5c9182ae21cc8e593542da73860a7b4e580a6defcc89b00a18c18a68f4981f551560b6c239b8015a554d00811cc74f9e771a4fe154d2522ce6921bf30f050fc1015d15343f5b13e66cbdc3132ea4693a6cf36022f36520f22d3b0",
     hex "5746e6e03d1be6ed1ff1").
Proof. vm_compute. split; reflexivity. Qed.

Example lib_ccm_42_key32_nonce10_aad30_len17_tag14 :
  ccm_enc (hex "3d34377579599ea49a68a729a6fdbfe927fbac159a574f20353f841b0782b86a")
          (hex "606508704c826e390701")
          (hex "12e864e39d33f8080c80849f99bd9fe9fa158c56358c5184c25361f004a5")
          (hex "513971a17d29876451b022d82fcebd3a11") 14
  = (hex "4e6479f66621849445125975be8d3c19af",
     hex "b57f7c14557747eed90fef91a48c")
  /\
  ccm_dec (hex "3d34377579599ea49a68a729a6fdbfe927fbac159a574f20353f841b0782b86a")
          (hex "606508704c826e390701")
          (hex "12e864e39d33f8080c80849f99bd9fe9fa158c56358c5184c25361f004a5")
          (hex "4e6479f66621849445125975be8d3c19af") 14
  = (hex "513971a17d29876451b022d82fcebd3a11",
     hex "b57f7c14557747eed90fef91a48c").
Proof. vm_compute. split; reflexivity. Qed.

Example lib_ccm_43_key32_nonce10_aad0_len1_tag4 :
  ccm_enc (hex "39f4710f5531bf2ebe33363a129aaf85802cb457de021ec441b5553a7d63aca3")
          (hex "4cee9e1c00a3c3e1844f")
          (hex "")
          (hex "ab") 4
  = (hex "7d",
     hex "e25f39ec")
  /\
  ccm_dec (hex "39f4710f5531bf2ebe33363a129aaf85802cb457de021ec441b5553a7d63aca3")
          (hex "4cee9e1c00a3c3e1844f")
          (hex "")
          (hex "7d") 4
  = (hex "ab",
     hex "e25f39ec").
Proof. vm_compute. split; reflexivity. Qed.

Example lib_ccm_44_key32_nonce10_aad15_len256_tag8 :
  ccm_enc (hex "d9c2285f1fcacefe63d90945b8949d7329fa089a8182970ba54d62d7d4cc3333")
          (hex "c450894bda24c8daaed9")
          (hex "060d57d21f4a0e9b6ec9ee1799119c")
          (hex "355aeb3a4b880488e2944c451ac0031b92caa670c07f66fc7bc51955df939e403c3a2da3efc4358d563d9e2565b987ff99d04233968c9fc9e37edc179ca4bc145513b430eb141bc07d938f36f7ea0fc973ba942925cfdd11711490f24df1dcdb9c30e7bc3809d016d10803819dabf3ab29ce9a5a661041055e0ba33ffa84c33cac98afb3979b1ab1ba329aff0d824741e02a62b08c56fcd4acb0f26fd9b5beebefa6aa8643fa18bfec2540699e0b7cde8a33b82fb5168a7de3b4eea60a5b95d33554e45c163ade4977fa1f2d262a083d63616acbf5a95f9c127757498bc42f89b4403818b612c55686e21dec488e04cd096ef18e833555d37ffb653decedff5e") 8
  = (hex "ec7508d55b6866ae6a10cc621180a001a3d369a7aab72d8c311c1ac36ba41312b3a18a5c22b542dbc3de2893caf1243d64a66578715d4ecb7fed2af1099a7dffd33bb11cccb5030ebbdb89a5ce5ef8794db58a213792243d0a2c453d0d0eb148215d84ae6191f5f9ed0c4ba46566bf88d1aa6c370766dcd86d0669e9e57b58d10bd6bc11a14454c64db04fd0a6c387cf94c8461d9a5318d9c44d9c7073abd92285f4671e27d1e40a6d1f0305857e72c59d0f383a656018cb01b9224c7f3243879cc7c141b1b56138fb9ffb4145a7e5da167afe184ff473f7e39862e9eccbf7693465bfecf47993a58926d997b7bbec0389d1941c70bef65fd6b2f847b7105aac",
     hex "40d20e8e8bacacd7")
  /\
  ccm_dec (hex "d9c2285f1fcacefe63d90945b8949d7329fa089a8182970ba54d62d7d4cc3333")
          (hex "c450894bda24c8daaed9")
          (hex "060d57d21f4a0e9b6ec9ee1799119c")
          (hex "ec7508d55b6866ae6a10cc621180a001a3d369a7aab72d8c311c1ac36ba41312b3a18a5c22b542dbc3de2893caf1243d64a66578715d4ecb7fed2af1099a7dffd33bb11cccb5030ebbdb89a5ce5ef8794db58a213792243d0a2c453d0d0eb148215d84ae6191f5f9ed0c4ba46566bf88d1aa6c370766dcd86d0669e9e57b58d10bd6bc11a14454c64db04fd0a6c387cf94c8461d9a5318d9c44d9c7073abd92285f4671e27d1e40a6d1f0305857e72c59d0f383a656018cb01b9224c7f3243879cc7c141b1b56138fb9ffb4145a7e5da167afe184ff473f7e39862e9eccbf7693465bfecf47993a58926d997b7bbec0389d1941c70bef65fd6b2f847b7105aac") 8
  = (hex "355aeb3a4b880488e2944c451ac0031b92caa670c07f66fc7bc51955df939e403c3a2da3efc4358d563d9e2565b987ff99d04233968c9fc9e37edc179ca4bc145513b430eb141bc07d938f36f7ea0fc973ba942925cfdd11711490f24df1dcdb9c30e7bc3809d016d10803819dabf3ab29ce9a5a661041055e0ba33ffa84c33cac98afb3979b1ab1ba329aff0d824741e02a62b08c56fcd4acb0f26fd9b5beebefa6aa8643fa18bfec2540699e0b7cde8a33b82fb5168a7de3b4eea60a5b95d33554e45c163ade4977fa1f2d262a083d63616acbf5a95f9c127757498bc42f89b4403818b612c55686e21dec488e04cd096ef18e833555d37ffb653decedff5e",
     hex "40d20e8e8bacacd7").
Proof. vm_compute. split; reflexivity. Qed.

Example lib_ccm_45_key32_nonce11_aad15_len15_tag12 :
  ccm_enc (hex "c4caa15c0f45b2a309065740f5923a1265292c5fc8bd39120a2ecaec615051fc")
          (hex "25aa67a6beb718a8992e7a")
          (hex "254df82e6ad6ac680d08590a867ff8")
          (hex "d9b19afb5e1ac28d81e016d3b64738") 12
  = (hex "84b5655c8a1047e41678ef7b9d7e95",
     hex "c5c50715b51dc79ecffb3c4b")
  /\
  ccm_dec (hex "c4caa15c0f45b2a309065740f5923a1265292c5fc8bd39120a2ecaec615051fc")
          (hex "25aa67a6beb718a8992e7a")
          (hex "254df82e6ad6ac680d08590a867ff8")
          (hex "84b5655c8a1047e41678ef7b9d7e95") 12
  = (hex "d9b19afb5e1ac28d81e016d3b64738",
     hex "c5c50715b51dc79ecffb3c4b").
Proof. vm_compute. split; reflexivity. Qed.

Example lib_ccm_46_key32_nonce11_aad31_len0_tag16 :
  ccm_enc (hex "8efdecd585b23898ebb451aa757e1aab09f19296e503c2b9e8b6bd50bd862faa")
          (hex "708845e224cb78868ac149")
          (hex "114d9f64b9d3bacbb43bcf7346e245a4903fb7d9601925b97c54631713f56e")
          (hex "") 16
  = (hex "",
     hex "daf5d494a027260ac4410a268a2d8a8b")
  /\
  ccm_dec (hex "8efdecd585b23898ebb451aa757e1aab09f19296e503c2b9e8b6bd50bd862faa")
          (hex "708845e224cb78868ac149")
          (hex "114d9f64b9d3bacbb43bcf7346e245a4903fb7d9601925b97c54631713f56e")
          (hex "") 16
  = (hex "",
     hex "daf5d494a027260ac4410a268a2d8a8b").
Proof. vm_compute. split; reflexivity. Qed.

Example lib_ccm_47_key32_nonce11_aad1_len17_tag6 :
  ccm_enc (hex "a4436021722aebc9f9337c1226cde6da05403ef4264e09b22f11ca5674f5d6a5")
          (hex "c4d5409143f798626d4363")
          (hex "62")
          (hex "99a7f46a3c085f11ca27ac90611e088db5") 6
  = (hex "3b5888c4e8ee47d693b24abeb50cb88279",
     hex "8801e38f0c24")
  /\
  ccm_dec (hex "a4436021722aebc9f9337c1226cde6da05403ef4264e09b22f11ca5674f5d6a5")
          (hex "c4d5409143f798626d4363")
          (hex "62")
          (hex "3b5888c4e8ee47d693b24abeb50cb88279") 6
  = (hex "99a7f46a3c085f11ca27ac90611e088db5",
     hex "8801e38f0c24").
Proof. vm_compute. split; reflexivity. Qed.

Example lib_ccm_48_key32_nonce11_aad16_len1_tag10 :
  ccm_enc (hex "381b141afaaa4449a9fe44176cfb6a02ba2384b4a7fa43b6125d19ba7f1627d5")
          (hex "bfc9bb2e5f20c196b26721")
          (hex "131ba3bfb35e70cf5badebc8f38af89e")
          (hex "3d") 10
  = (hex "a2",
     hex "c102b10c63f4bad44032")
  /\
  ccm_dec (hex "381b141afaaa4449a9fe44176cfb6a02ba2384b4a7fa43b6125d19ba7f1627d5")
          (hex "bfc9bb2e5f20c196b26721")
          (hex "131ba3bfb35e70cf5badebc8f38af89e")
          (hex "a2") 10
  = (hex "3d",
     hex "c102b10c63f4bad44032").
Proof. vm_compute. split; reflexivity. Qed.

Example lib_ccm_49_key32_nonce12_aad16_len100_tag14 :
  ccm_enc (hex "5d7899dc41be4a61a4111f5e217e47795e9e0c081ff1c6b8b76375682bafff66")
          (hex "457ab7fb8cb5b4b020d961b4")
          (hex "ad90f8b028218922d0b129d1840edbfb")
          (hex "b1ab8ad0876c5ca4f6ba7b6b265868443f492cda864c539b0c7afbbcddb5d6e29465617efc612d4e42af0f36d5126559372208661a28e24ab2ee71040f3b5a1d1412e9e4632a78414e4c572b9735fc87db355d2731934eb124a21ace454b1b78d537ff3e") 14
  = (hex "5157498a883f026ad5802775443de7ac30a7dfcbe173c6e084532ad2007c4f3335cb3f114938e5ce959fa5868a0614993e7d70031476b4a195f1ca706ad1f27cffddc3fd5010ce7e2dfcd9a1caebb6098efe4f8ce0a2fad48eed9ee96106f110e73ea118",
     hex "01913f0d7571ab259b6dcf994768")
  /\
  ccm_dec (hex "5d7899dc41be4a61a4111f5e217e47795e9e0c081ff1c6b8b76375682bafff66")
          (hex "457ab7fb8cb5b4b020d961b4")
          (hex "ad90f8b028218922d0b129d1840edbfb")
          (hex "5157498a883f026ad5802775443de7ac30a7dfcbe173c6e084532ad2007c4f3335cb3f114938e5ce959fa5868a0614993e7d70031476b4a195f1ca706ad1f27cffddc3fd5010ce7e2dfcd9a1caebb6098efe4f8ce0a2fad48eed9ee96106f110e73ea118") 14
  = (hex "b1ab8ad0876c5ca4f6ba7b6b265868443f492cda864c539b0c7afbbcddb5d6e29465617efc612d4e42af0f36d5126559372208661a28e24ab2ee71040f3b5a1d1412e9e4632a78414e4c572b9735fc87db355d2731934eb124a21ace454b1b78d537ff3e",
     hex "01913f0d7571ab259b6dcf994768").
Proof. vm_compute. split; reflexivity. Qed.

Example lib_ccm_50_key32_nonce12_aad46_len15_tag4 :
  ccm_enc (hex "31fce8705de5d5558303b2c3a7471358f9b68032fa55f6ad5b3a4e0741746c50")
          (hex "ca5d304c33cb3b5b3afb5505")
          (hex "1adb7cc04857fc34689ccf5aeb4a4126bd32bb8922444fcab60674d0cf937b0051befba69eafb9dd4a76fcf553bd")
          (hex "9b8a8443674ec9a675ad81225e7352") 4
  = (hex "903040c86548882669013868e3f43a",
     hex "83e4fb7e")
  /\
  ccm_dec (hex "31fce8705de5d5558303b2c3a7471358f9b68032fa55f6ad5b3a4e0741746c50")
          (hex "ca5d304c33cb3b5b3afb5505")
          (hex "1adb7cc04857fc34689ccf5aeb4a4126bd32bb8922444fcab60674d0cf937b0051befba69eafb9dd4a76fcf553bd")
          (hex "903040c86548882669013868e3f43a") 4
  = (hex "9b8a8443674ec9a675ad81225e7352",
     hex "83e4fb7e").
Proof. vm_compute. split; reflexivity. Qed.

Example lib_ccm_51_key32_nonce12_aad14_len0_tag8 :
  ccm_enc (hex "ad45143a1aeeb07b8ac416407102096e166c25871c1adc590d7bbc7c90866423")
          (hex "ee848cc5d489a477d51cdc3b")
          (hex "fc259c6c3eb294c468e2611c2b38")
          (hex "") 8
  = (hex "",
     hex "f321bd63f1a2fe3e")
  /\
  ccm_dec (hex "ad45143a1aeeb07b8ac416407102096e166c25871c1adc590d7bbc7c90866423")
          (hex "ee848cc5d489a477d51cdc3b")
          (hex "fc259c6c3eb294c468e2611c2b38")
          (hex "") 8
  = (hex "",
     hex "f321bd63f1a2fe3e").
Proof. vm_compute. split; reflexivity. Qed.

Example lib_ccm_52_key32_nonce12_aad30_len17_tag12 :
  ccm_enc (hex "b1d9d1fa2eec61bd23d9aab622340e780859afbd32cf4529b382ca9fccf4a4f7")
          (hex "ae0b8812b95eab54694bb025")
          (hex "d8db051e511c35e49d60cb3a58f5fdd958ed8d5f2e4187bdec88ecd1fb83")
          (hex "d775d1f24aa58d2c13a6b8ad156884aa95") 12
  = (hex "55b1ba8f3307bba86cb6f117fc3b45631b",
     hex "3d6c2ae5b65fd070bf8f684b")
  /\
  ccm_dec (hex "b1d9d1fa2eec61bd23d9aab622340e780859afbd32cf4529b382ca9fccf4a4f7")
          (hex "ae0b8812b95eab54694bb025")
          (hex "d8db051e511c35e49d60cb3a58f5fdd958ed8d5f2e4187bdec88ecd1fb83")
          (hex "55b1ba8f3307bba86cb6f117fc3b45631b") 12
  = (hex "d775d1f24aa58d2c13a6b8ad156884aa95",
     hex "3d6c2ae5b65fd070bf8f684b").
Proof. vm_compute. split; reflexivity. Qed.

Example lib_ccm_53_key32_nonce13_aad30_len0_tag16 :
  ccm_enc (hex "8d2a6697d5a025aa1526bbb96d473aa4b24af55b73a95a3ac777301abe1c5764")
          (hex "4a169aa48d21bc22169cb7d26a")
          (hex "08849c87fc371b958a9728743af0afecf4cbe9a877c6342ae6416cdb9160")
          (hex "") 16
  = (hex "",
     hex "0cade333dd007e957956f57c8cdd6037")
  /\
  ccm_dec (hex "8d2a6697d5a025aa1526bbb96d473aa4b24af55b73a95a3ac777301abe1c5764")
          (hex "4a169aa48d21bc22169cb7d26a")
          (hex "08849c87fc371b958a9728743af0afecf4cbe9a877c6342ae6416cdb9160")
          (hex "") 16
  = (hex "",
     hex "0cade333dd007e957956f57c8cdd6037").
Proof. vm_compute. split; reflexivity. Qed.

Example lib_ccm_54_key32_nonce13_aad0_len100_tag6 :
  ccm_enc (hex "75aa5623428cac59d4fe7e9d63ea15659dbb56c9865cdc94a5e6395ca8f38dc3")
          (hex "03f9cb30cc867089451eb78e1a")
          (hex "")
          (hex "85b44647602bbc8983175c89582af6b857f74d2a2e98d3e5038c61c7a76a6091069851d28afdab8f48498e9e07fbd820afad2c7870d5886c4c62d7b80676a1cdf1dfe9465ca913fcea55c1969f3e58833dc60ae4c3d365a3522b165ae68d972a8bd5c9b4") 6
  = (hex "d5639deb82efb9b6513ef5a07149ce1f8cb90bfcd97d15a0b752753d4cde751907e89807aca4f9ddb5af6753da5aa7a5a6e2a51e5111cab93336f024eeeb2b70873d8b217300140dab5de00f1ccd0dce573fda76dc2e50d5af8e5a2439d2bcf0a62165ef",
     hex "3c68964bb388")
  /\
  ccm_dec (hex "75aa5623428cac59d4fe7e9d63ea15659dbb56c9865cdc94a5e6395ca8f38dc3")
          (hex "03f9cb30cc867089451eb78e1a")
          (hex "")
          (hex "d5639deb82efb9b6513ef5a07149ce1f8cb90bfcd97d15a0b752753d4cde751907e89807aca4f9ddb5af6753da5aa7a5a6e2a51e5111cab93336f024eeeb2b70873d8b217300140dab5de00f1ccd0dce573fda76dc2e50d5af8e5a2439d2bcf0a62165ef") 6
  = (hex "85b44647602bbc8983175c89582af6b857f74d2a2e98d3e5038c61c7a76a6091069851d28afdab8f48498e9e07fbd820afad2c7870d5886c4c62d7b80676a1cdf1dfe9465ca913fcea55c1969f3e58833dc60ae4c3d365a3522b165ae68d972a8bd5c9b4",
     hex "3c68964bb388").
Proof. vm_compute. split; reflexivity. Qed.

Example lib_ccm_55_key32_nonce13_aad15_len15_tag10 :
  ccm_enc (hex "b04ed5923eb635bdd278fb5795da8f1a4a3c7fb307773413a7a4e2ab3635755a")
          (hex "a429283f554b6a3d22b2a0ab1f")
          (hex "571f3ef2f659b1ba38c4aa043b6855")
          (hex "5dac20ccccb9b58079e55ee51adfad") 10
  = (hex "e07e383ced020cd2c2ca94e4cd7a22",
     hex "56d7b210dfe8247e9f61")
  /\
  ccm_dec (hex "b04ed5923eb635bdd278fb5795da8f1a4a3c7fb307773413a7a4e2ab3635755a")
          (hex "a429283f554b6a3d22b2a0ab1f")
          (hex "571f3ef2f659b1ba38c4aa043b6855")
          (hex "e07e383ced020cd2c2ca94e4cd7a22") 10
  = (hex "5dac20ccccb9b58079e55ee51adfad",
     hex "56d7b210dfe8247e9f61").
Proof. vm_compute. split; reflexivity. Qed.

Example lib_ccm_56_key32_nonce13_aad31_len0_tag14 :
  ccm_enc (hex "6cf47fef46e4815cca516f3e8536a11a9e23b18732782afaeabb16fef2385ebf")
          (hex "75469592919634d091264c2a33")
          (hex "173f3b3c4444ff34dbd519419321d162f4cecfd596b163a0e550cb34b8d83a")
          (hex "") 14
  = (hex "",
     hex "25c754f6bfe786666c3dca5ada18")
  /\
  ccm_dec (hex "6cf47fef46e4815cca516f3e8536a11a9e23b18732782afaeabb16fef2385ebf")
          (hex "75469592919634d091264c2a33")
          (hex "173f3b3c4444ff34dbd519419321d162f4cecfd596b163a0e550cb34b8d83a")
          (hex "") 14
  = (hex "",
     hex "25c754f6bfe786666c3dca5ada18").
Proof. vm_compute. split; reflexivity. Qed.
