(* Spec/SNOW3G.v — SNOW 3G (ETSI/SAGE "Specification of the 3GPP Confidentiality and
   Integrity Algorithms UEA2 & UIA2", Document 2: SNOW 3G specification v1.1, Document 1:
   UEA2 and UIA2 specification v2.1), as computed by intel-ipsec-mb jobs
   IMB_CIPHER_SNOW3G_UEA2_BITLEN and IMB_AUTH_SNOW3G_UIA2_BITLEN.
   Executable Gallina definitions only; known-answer tests are in Spec/SNOW3G_Tests.v.

   Conventions: bytes are [list N] (each < 256), 32/64-bit words are [N] reduced with
   [N.land]; word counts are [nat]; bit lengths and bit offsets are [N].  All functions
   are total: missing key/IV/message bytes read as 0.

   The library's key schedule (IMB_SNOW3G_INIT_KEY_SCHED, snow3g_key_schedule_t) is
   opaque; the model takes the raw 16-byte key.  (SNOW3G_INIT_KEY_SCHED in
   /repo/lib/include/snow3g_common.h just stores k3..k0 = the four big-endian words of
   the key.)

   Library-defined behaviour (see Spec/ZUC_SNOW3G_API.md for the list) is marked LIB. *)
From IMB Require Import Lib.Bytes.
Local Open Scope N_scope.

(* ------------------------------------------------------------------------- *)
(** * Byte tables: SR = Rijndael S-box (spec section 3.3 / annex), SQ (section 3.4 / annex).
    SR is the AES S-box; SQ is the low byte of each entry of snow3g_table_S2 in
    /repo/lib/x86_64/snow3g_tables.c. *)
Definition snow3g_SR : list N :=
  [0x63;0x7c;0x77;0x7b;0xf2;0x6b;0x6f;0xc5;0x30;0x01;0x67;0x2b;0xfe;0xd7;0xab;0x76;
   0xca;0x82;0xc9;0x7d;0xfa;0x59;0x47;0xf0;0xad;0xd4;0xa2;0xaf;0x9c;0xa4;0x72;0xc0;
   0xb7;0xfd;0x93;0x26;0x36;0x3f;0xf7;0xcc;0x34;0xa5;0xe5;0xf1;0x71;0xd8;0x31;0x15;
   0x04;0xc7;0x23;0xc3;0x18;0x96;0x05;0x9a;0x07;0x12;0x80;0xe2;0xeb;0x27;0xb2;0x75;
   0x09;0x83;0x2c;0x1a;0x1b;0x6e;0x5a;0xa0;0x52;0x3b;0xd6;0xb3;0x29;0xe3;0x2f;0x84;
   0x53;0xd1;0x00;0xed;0x20;0xfc;0xb1;0x5b;0x6a;0xcb;0xbe;0x39;0x4a;0x4c;0x58;0xcf;
   0xd0;0xef;0xaa;0xfb;0x43;0x4d;0x33;0x85;0x45;0xf9;0x02;0x7f;0x50;0x3c;0x9f;0xa8;
   0x51;0xa3;0x40;0x8f;0x92;0x9d;0x38;0xf5;0xbc;0xb6;0xda;0x21;0x10;0xff;0xf3;0xd2;
   0xcd;0x0c;0x13;0xec;0x5f;0x97;0x44;0x17;0xc4;0xa7;0x7e;0x3d;0x64;0x5d;0x19;0x73;
   0x60;0x81;0x4f;0xdc;0x22;0x2a;0x90;0x88;0x46;0xee;0xb8;0x14;0xde;0x5e;0x0b;0xdb;
   0xe0;0x32;0x3a;0x0a;0x49;0x06;0x24;0x5c;0xc2;0xd3;0xac;0x62;0x91;0x95;0xe4;0x79;
   0xe7;0xc8;0x37;0x6d;0x8d;0xd5;0x4e;0xa9;0x6c;0x56;0xf4;0xea;0x65;0x7a;0xae;0x08;
   0xba;0x78;0x25;0x2e;0x1c;0xa6;0xb4;0xc6;0xe8;0xdd;0x74;0x1f;0x4b;0xbd;0x8b;0x8a;
   0x70;0x3e;0xb5;0x66;0x48;0x03;0xf6;0x0e;0x61;0x35;0x57;0xb9;0x86;0xc1;0x1d;0x9e;
   0xe1;0xf8;0x98;0x11;0x69;0xd9;0x8e;0x94;0x9b;0x1e;0x87;0xe9;0xce;0x55;0x28;0xdf;
   0x8c;0xa1;0x89;0x0d;0xbf;0xe6;0x42;0x68;0x41;0x99;0x2d;0x0f;0xb0;0x54;0xbb;0x16].

Definition snow3g_SQ : list N :=
  [0x25;0x24;0x73;0x67;0xd7;0xae;0x5c;0x30;0xa4;0xee;0x6e;0xcb;0x7d;0xb5;0x82;0xdb;
   0xe4;0x8e;0x48;0x49;0x4f;0x5d;0x6a;0x78;0x70;0x88;0xe8;0x5f;0x5e;0x84;0x65;0xe2;
   0xd8;0xe9;0xcc;0xed;0x40;0x2f;0x11;0x28;0x57;0xd2;0xac;0xe3;0x4a;0x15;0x1b;0xb9;
   0xb2;0x80;0x85;0xa6;0x2e;0x02;0x47;0x29;0x07;0x4b;0x0e;0xc1;0x51;0xaa;0x89;0xd4;
   0xca;0x01;0x46;0xb3;0xef;0xdd;0x44;0x7b;0xc2;0x7f;0xbe;0xc3;0x9f;0x20;0x4c;0x64;
   0x83;0xa2;0x68;0x42;0x13;0xb4;0x41;0xcd;0xba;0xc6;0xbb;0x6d;0x4d;0x71;0x21;0xf4;
   0x8d;0xb0;0xe5;0x93;0xfe;0x8f;0xe6;0xcf;0x43;0x45;0x31;0x22;0x37;0x36;0x96;0xfa;
   0xbc;0x0f;0x08;0x52;0x1d;0x55;0x1a;0xc5;0x4e;0x23;0x69;0x7a;0x92;0xff;0x5b;0x5a;
   0xeb;0x9a;0x1c;0xa9;0xd1;0x7e;0x0d;0xfc;0x50;0x8a;0xb6;0x62;0xf5;0x0a;0xf8;0xdc;
   0x03;0x3c;0x0c;0x39;0xf1;0xb8;0xf3;0x3d;0xf2;0xd5;0x97;0x66;0x81;0x32;0xa0;0x00;
   0x06;0xce;0xf6;0xea;0xb7;0x17;0xf7;0x8c;0x79;0xd6;0xa7;0xbf;0x8b;0x3f;0x1f;0x53;
   0x63;0x75;0x35;0x2c;0x60;0xfd;0x27;0xd3;0x94;0xa5;0x7c;0xa1;0x05;0x58;0x2d;0xbd;
   0xd9;0xc7;0xaf;0x6b;0x54;0x0b;0xe0;0x38;0x04;0xc8;0x9d;0xe7;0x14;0xb1;0x87;0x9c;
   0xdf;0x6f;0xf9;0xda;0x2a;0xc4;0x59;0x16;0x74;0x91;0xab;0x26;0x61;0x76;0x34;0x2b;
   0xad;0x99;0xfb;0x72;0xec;0x33;0x12;0xde;0x98;0x3b;0xc0;0x9b;0x3e;0x18;0x10;0x3a;
   0x56;0xe1;0x77;0xc9;0x1e;0x9e;0x95;0xa3;0x90;0x19;0xa8;0x6c;0x09;0xd0;0xf0;0x86].

(* Table lookup by a binary tree on the bits of the index (least significant first);
   [nth (N.to_nat b) t 0] costs ~12 us under vm_compute.  Agreement with [nth] for all
   b < 256 is checked in Spec/SNOW3G_Tests.v. *)
Inductive snow3g_btree := SLeaf (v : N) | SNode (l r : snow3g_btree).

Fixpoint snow3g_split_eo (l : list N) : list N * list N :=
  match l with
  | a :: b :: t => let (e, o) := snow3g_split_eo t in (a :: e, b :: o)
  | _ => (l, [])
  end.

Fixpoint snow3g_bt_build (depth : nat) (l : list N) : snow3g_btree :=
  match depth with
  | O => SLeaf (hd 0 l)
  | S d => let (e, o) := snow3g_split_eo l in SNode (snow3g_bt_build d e) (snow3g_bt_build d o)
  end.

Fixpoint snow3g_bt_zero (t : snow3g_btree) : N :=
  match t with SLeaf v => v | SNode l _ => snow3g_bt_zero l end.

Fixpoint snow3g_bt_get (t : snow3g_btree) (p : positive) : N :=
  match t with
  | SLeaf v => v
  | SNode l r => match p with
                 | xH => snow3g_bt_zero r
                 | xO p' => snow3g_bt_get l p'
                 | xI p' => snow3g_bt_get r p'
                 end
  end.

Definition snow3g_bt_lookup (t : snow3g_btree) (i : N) : N :=
  match i with N0 => snow3g_bt_zero t | Npos p => snow3g_bt_get t p end.

Definition snow3g_SR_tree : snow3g_btree := Eval vm_compute in snow3g_bt_build 8 snow3g_SR.
Definition snow3g_SQ_tree : snow3g_btree := Eval vm_compute in snow3g_bt_build 8 snow3g_SQ.

(** * MULx, MULxPOW (spec section 3.1) *)
Definition snow3g_MULx (v c : N) : N :=
  if N.testbit v 7 then N.lxor (w8 (N.shiftl v 1)) c else N.shiftl v 1.

Fixpoint snow3g_MULxPOW (v : N) (i : nat) (c : N) : N :=
  match i with O => v | S k => snow3g_MULx (snow3g_MULxPOW v k c) c end.

Definition snow3g_bytes32 (a b c d : N) : N :=
  N.lor (N.lor (N.shiftl a 24) (N.shiftl b 16)) (N.lor (N.shiftl c 8) d).

(** * MULalpha, DIValpha (section 3.4.2 / 3.4.3), as in the standard, and tabulated.
    [snow3g_MULa_tab] / [snow3g_DIVa_tab] equal snow3g_table_A_mul / snow3g_table_A_div of
    /repo/lib/x86_64/snow3g_tables.c (tested in Spec/SNOW3G_Tests.v). *)
Definition snow3g_MULalpha (c : N) : N :=
  snow3g_bytes32 (snow3g_MULxPOW c 23 0xA9) (snow3g_MULxPOW c 245 0xA9)
                 (snow3g_MULxPOW c 48 0xA9) (snow3g_MULxPOW c 239 0xA9).
Definition snow3g_DIValpha (c : N) : N :=
  snow3g_bytes32 (snow3g_MULxPOW c 16 0xA9) (snow3g_MULxPOW c 39 0xA9)
                 (snow3g_MULxPOW c 6 0xA9) (snow3g_MULxPOW c 64 0xA9).

Definition snow3g_MULa_tab : list N :=
  Eval vm_compute in map (fun i => snow3g_MULalpha (N.of_nat i)) (upto 256).
Definition snow3g_DIVa_tab : list N :=
  Eval vm_compute in map (fun i => snow3g_DIValpha (N.of_nat i)) (upto 256).
Definition snow3g_MULa_tree : snow3g_btree := Eval vm_compute in snow3g_bt_build 8 snow3g_MULa_tab.
Definition snow3g_DIVa_tree : snow3g_btree := Eval vm_compute in snow3g_bt_build 8 snow3g_DIVa_tab.

(** * 32-bit S-boxes S1 (SR, 0x1B) and S2 (SQ, 0x69) (sections 3.3, 3.4):
    w = w0 || w1 || w2 || w3 (w0 most significant), b_i = SBOX(w_i),
      r0 = MULx(b0) ^ b1 ^ b2 ^ MULx(b3) ^ b3
      r1 = MULx(b0) ^ b0 ^ MULx(b1) ^ b2 ^ b3
      r2 = b0 ^ MULx(b1) ^ b1 ^ MULx(b2) ^ b3
      r3 = b0 ^ b1 ^ MULx(b2) ^ b2 ^ MULx(b3)                                   *)
Definition snow3g_mix (c b0 b1 b2 b3 : N) : N :=
  let m0 := snow3g_MULx b0 c in
  let m1 := snow3g_MULx b1 c in
  let m2 := snow3g_MULx b2 c in
  let m3 := snow3g_MULx b3 c in
  snow3g_bytes32
    (N.lxor (N.lxor (N.lxor (N.lxor m0 b1) b2) m3) b3)
    (N.lxor (N.lxor (N.lxor (N.lxor m0 b0) m1) b2) b3)
    (N.lxor (N.lxor (N.lxor (N.lxor b0 m1) b1) m2) b3)
    (N.lxor (N.lxor (N.lxor (N.lxor b0 b1) m2) b2) m3).

Definition snow3g_sbox32 (t : snow3g_btree) (c w : N) : N :=
  snow3g_mix c (snow3g_bt_lookup t (N.shiftr w 24))
               (snow3g_bt_lookup t (w8 (N.shiftr w 16)))
               (snow3g_bt_lookup t (w8 (N.shiftr w 8)))
               (snow3g_bt_lookup t (w8 w)).

Definition snow3g_S1 (w : N) : N := snow3g_sbox32 snow3g_SR_tree 0x1B w.
Definition snow3g_S2 (w : N) : N := snow3g_sbox32 snow3g_SQ_tree 0x69 w.

(** * State: LFSR [s0; ...; s15] and FSM registers R1, R2, R3 *)
Record snow3g_state :=
  mk_snow3g_state { snow3g_lfsr : list N; snow3g_r1 : N; snow3g_r2 : N; snow3g_r3 : N }.

(* Clocking the LFSR (section 3.4.4 initialisation mode with F, 3.4.5 keystream mode F = 0):
   v = (s0,1 || s0,2 || s0,3 || 0x00) ^ MULalpha(s0,0) ^ s2 ^ (0x00 || s11,0 || s11,1 || s11,2)
       ^ DIValpha(s11,3) ^ F *)
Definition snow3g_lfsr_step (s : list N) (f : N) : list N :=
  match s with
  | [s0; s1; s2; s3; s4; s5; s6; s7; s8; s9; s10; s11; s12; s13; s14; s15] =>
      let v := N.lxor (N.lxor (N.lxor (N.lxor (N.lxor
                 (N.shiftl (N.land s0 0xFFFFFF) 8)
                 (snow3g_bt_lookup snow3g_MULa_tree (N.shiftr s0 24)))
                 s2)
                 (N.shiftr s11 8))
                 (snow3g_bt_lookup snow3g_DIVa_tree (w8 s11)))
                 f in
      [s1; s2; s3; s4; s5; s6; s7; s8; s9; s10; s11; s12; s13; s14; s15; v]
  | _ => s
  end.

(* Clocking the FSM (section 3.4.6): returns F and the new registers *)
Definition snow3g_fsm_step (st : snow3g_state) : N * N * N * N :=
  match snow3g_lfsr st with
  | [_; _; _; _; _; s5; _; _; _; _; _; _; _; _; _; s15] =>
      let f := N.lxor (add32 s15 (snow3g_r1 st)) (snow3g_r2 st) in
      let r := add32 (snow3g_r2 st) (N.lxor (snow3g_r3 st) s5) in
      (f, r, snow3g_S1 (snow3g_r1 st), snow3g_S2 (snow3g_r2 st))
  | _ => (0, 0, 0, 0)
  end.

Definition snow3g_init_round (st : snow3g_state) : snow3g_state :=
  let '(f, r1, r2, r3) := snow3g_fsm_step st in
  mk_snow3g_state (snow3g_lfsr_step (snow3g_lfsr st) f) r1 r2 r3.

(* keystream-mode clock: output F ^ s0 (s0 before the LFSR is clocked) *)
Definition snow3g_ks_round (st : snow3g_state) : N * snow3g_state :=
  let '(f, r1, r2, r3) := snow3g_fsm_step st in
  (N.lxor f (hd 0 (snow3g_lfsr st)),
   mk_snow3g_state (snow3g_lfsr_step (snow3g_lfsr st) 0) r1 r2 r3).

(** * Initialisation (section 4.1) from the words k0..k3 and IV0..IV3 of the standard *)
Definition snow3g_load (k0 k1 k2 k3 iv0 iv1 iv2 iv3 : N) : list N :=
  let n := not32 in
  [ n k0; n k1; n k2; n k3; k0; k1; k2; k3;
    n k0; N.lxor (n k1) iv3; N.lxor (n k2) iv2; n k3;
    N.lxor k0 iv1; k1; k2; N.lxor k3 iv0 ].

(* 32 initialisation rounds, then the FSM/LFSR are clocked once in keystream mode and the
   output discarded (section 4.2) *)
Definition snow3g_init (s : list N) : snow3g_state :=
  snd (snow3g_ks_round (iter 32 snow3g_init_round (mk_snow3g_state s 0 0 0))).

Fixpoint snow3g_gen (n : nat) (st : snow3g_state) : list N :=
  match n with
  | O => []
  | S k => let '(z, st') := snow3g_ks_round st in z :: snow3g_gen k st'
  end.

(* keystream z1, z2, ... from the eight words of the standard (SNOW 3G test sets) *)
Definition snow3g_keystream_words (k0 k1 k2 k3 iv0 iv1 iv2 iv3 : N) (nwords : nat) : list N :=
  snow3g_gen nwords (snow3g_init (snow3g_load k0 k1 k2 k3 iv0 iv1 iv2 iv3)).

(* Byte convention of UEA2/UIA2 (Document 1, f8: K3 = CK[0..31] ... K0 = CK[96..127],
   IV3 = first four IV bytes ... IV0 = last four) = the library's convention:
   k3 = be32 key[0..3], ..., k0 = be32 key[12..15]; IV3 = be32 iv[0..3], ..., IV0 = be32 iv[12..15] *)
Definition snow3g_word (l : bytes) (i : nat) : N :=
  snow3g_bytes32 (w8 (nth_N l i)) (w8 (nth_N l (i + 1))) (w8 (nth_N l (i + 2))) (w8 (nth_N l (i + 3))).

Definition snow3g_keystream (key iv : bytes) (nwords : nat) : list N :=
  snow3g_keystream_words (snow3g_word key 12) (snow3g_word key 8) (snow3g_word key 4) (snow3g_word key 0)
                         (snow3g_word iv 12) (snow3g_word iv 8) (snow3g_word iv 4) (snow3g_word iv 0)
                         nwords.

Definition snow3g_ks_bytes (ks : list N) : bytes := flat_map be32 ks.

(** * Bit-string helpers (bit i of a byte string is bit 7 - i mod 8 of byte i / 8) *)

(* the byte with its [n] most significant bits set, n <= 8 *)
Definition snow3g_himask (n : N) : N := N.land (N.shiftl 255 (8 - n)) 255.

(* first [n] bits of [l], zero padded to a whole number of bytes *)
Fixpoint snow3g_take_bits (n : N) (l : bytes) : bytes :=
  match l with
  | [] => []
  | b :: t =>
      if n =? 0 then []
      else if 8 <=? n then b :: snow3g_take_bits (n - 8) t
      else [N.land b (snow3g_himask n)]
  end.

(* [n] one bits, left aligned in ceil(n/8) bytes; [fuel] >= ceil(n/8) *)
Fixpoint snow3g_ones (fuel : nat) (n : N) : bytes :=
  match fuel with
  | O => []
  | S f => if n =? 0 then []
           else if 8 <=? n then 255 :: snow3g_ones f (n - 8)
           else [snow3g_himask n]
  end.

(* shift a byte string right by [k] bits (0 <= k <= 7), one byte longer; [carry] = previous byte *)
Fixpoint snow3g_shr_bits (k carry : N) (l : bytes) : bytes :=
  match l with
  | [] => [w8 (N.shiftr (N.shiftl carry 8) k)]
  | b :: t => w8 (N.shiftr (N.lor (N.shiftl carry 8) b) k) :: snow3g_shr_bits k b t
  end.

Fixpoint snow3g_and_bytes (a b : bytes) : bytes :=
  match a, b with x :: a', y :: b' => N.land x y :: snow3g_and_bytes a' b' | _, _ => [] end.

(* replace the bits of [old] selected by [mask] with those of [new]; as long as [mask] *)
Fixpoint snow3g_merge (mask new old : bytes) : bytes :=
  match mask with
  | [] => []
  | m :: mask' =>
      N.lor (N.land (hd 0 new) m) (N.land (hd 0 old) (N.lxor m 255))
        :: snow3g_merge mask' (tl new) (tl old)
  end.

(** * UEA2 (f8), Document 1 section 3: ciphertext = plaintext xor keystream, bit by bit *)

(* The message is the [bitlen] bits of [src] starting at bit [ob] (0 <= ob <= 7); the result
   is [dst] with those same bit positions replaced by message xor keystream.
   LIB (SNOW3G_F8_1_BUFFER_BIT in /repo/lib/include/snow3g_common.h, helpers msg_* in
   /repo/lib/include/wireless_common.h; all managers use this C path when bitlen or offset
   is not a multiple of 8):
   - ob = 0: the last, partial byte is written as (message bits, zero padded) xor the full
     keystream byte: the 8 - bitlen mod 8 trailing bits of that dst byte become keystream
     bits (dst is not preserved there).
   - ob <> 0: all other bits of dst are preserved, except that when (ob + bitlen) mod 8 = 0
     the last byte written is additionally OR-ed with the previous content of that dst byte
     (msg_save_start_end saves msg[i] & mtab_shr[0] = 0xff and msg_restore_start_end ORs it
     back).  With dst = src (in place) this is plaintext-byte OR ciphertext-byte.           *)
Definition snow3g_f8_bits (key iv src dst : bytes) (bitlen ob : N) : bytes :=
  let nwords := N.to_nat (N.shiftr (bitlen + 31) 5) in
  let ks := snow3g_ks_bytes (snow3g_keystream key iv nwords) in
  let nb := N.to_nat (N.shiftr (ob + bitlen + 7) 3) in      (* bytes touched *)
  if ob =? 0 then
    xor_bytes (snow3g_take_bits bitlen src) ks ++ skipn nb dst
  else
    let ones := snow3g_ones nb bitlen in
    let mask := firstn nb (snow3g_shr_bits ob 0 ones) in
    let kss := snow3g_shr_bits ob 0 (snow3g_and_bytes ks ones) in
    let new := snow3g_merge mask (xor_bytes_l (firstn nb src) kss) dst in
    let new := if N.land (ob + bitlen) 7 =? 0
               then firstn (nb - 1) new ++ [N.lor (nth_N new (nb - 1)) (nth_N dst (nb - 1))]
               else new in
    new ++ skipn nb dst.

(* New content of the dst buffer (same length as [dst]) after an
   IMB_CIPHER_SNOW3G_UEA2_BITLEN job with msg_len_to_cipher_in_bits = bitlen,
   cipher_start_offset_in_bits = bitoff, job->src = [src], job->dst = [dst] (previous content).
   LIB:
   - bitlen and bitoff both multiples of 8 (multi-buffer path): the bitlen/8 bytes
     src[bitoff/8 ..] are xored with the keystream and written to dst[0 ..]; dst is NOT
     offset (as for every other cipher mode).
   - otherwise (def_submit_snow3g_uea2_job, /repo/lib/include/snow3g_submit.h): both src and
     dst are offset by bitoff/8 bytes and [snow3g_f8_bits] applies with ob = bitoff mod 8.
   Preconditions for a meaningful result: src and dst at least ceil((bitoff+bitlen)/8) bytes
   (dst at least bitlen/8 in the byte-aligned case); 1 <= bitlen. *)
Definition snow3g_uea2_job (key iv src dst : bytes) (bitlen bitoff : N) : bytes :=
  let base := N.to_nat (N.shiftr bitoff 3) in
  let ob := N.land bitoff 7 in
  if (N.land bitlen 7 =? 0) && (ob =? 0) then
    let n := N.to_nat (N.shiftr bitlen 3) in
    let nwords := N.to_nat (N.shiftr (bitlen + 31) 5) in
    xor_bytes (firstn n (skipn base src)) (snow3g_ks_bytes (snow3g_keystream key iv nwords))
      ++ skipn n dst
  else
    firstn base dst ++ snow3g_f8_bits key iv (skipn base src) (skipn base dst) bitlen ob.

(* The same job with a destination buffer that initially holds zeros (as long as [msg]) *)
Definition snow3g_uea2 (key iv msg : bytes) (bitlen bitoff : N) : bytes :=
  snow3g_uea2_job key iv msg (zeros (length msg)) bitlen bitoff.

(* The same job run in place (job->dst = job->src = [msg]) *)
Definition snow3g_uea2_inplace (key iv msg : bytes) (bitlen bitoff : N) : bytes :=
  snow3g_uea2_job key iv msg msg bitlen bitoff.

(* Pure UEA2 of the standard on whole bytes: msg xor keystream *)
Definition snow3g_f8 (key iv msg : bytes) : bytes :=
  xor_bytes msg (snow3g_ks_bytes (snow3g_keystream key iv (Nat.div (length msg + 3) 4))).

(** * UIA2 (f9), Document 1 section 4 *)
Definition snow3g_MUL64x (v c : N) : N :=
  if N.testbit v 63 then N.lxor (w64 (N.shiftl v 1)) c else N.shiftl v 1.

Fixpoint snow3g_MUL64xPOW (v : N) (i : nat) (c : N) : N :=
  match i with O => v | S k => snow3g_MUL64x (snow3g_MUL64xPOW v k c) c end.

(* MUL64(V, P, c) = xor over the set bits i of P of MUL64xPOW(V, i, c); computed by
   running V through MUL64x while scanning P from bit 0 *)
Fixpoint snow3g_MUL64_loop (fuel : nat) (i v p c acc : N) : N :=
  match fuel with
  | O => acc
  | S f => snow3g_MUL64_loop f (i + 1) (snow3g_MUL64x v c) p c
             (if N.testbit p i then N.lxor acc v else acc)
  end.
Definition snow3g_MUL64 (v p c : N) : N := snow3g_MUL64_loop 64 0 v p c 0.

(* message blocks M_0 .. M_(D-2): the first bitlen bits, zero padded to 64-bit blocks *)
Definition snow3g_msg_blocks (msg : bytes) (bitlen : N) : list N :=
  let m := snow3g_take_bits bitlen msg in
  words_be 8 (m ++ zeros (Nat.modulo (8 - Nat.modulo (length m) 8) 8)).

(* LIB: IMB_AUTH_SNOW3G_UIA2_BITLEN, msg_len_to_hash_in_bits >= 1; message bits beyond bitlen
   in the last byte are ignored; the 4-byte MAC-I is stored big-endian. *)
Definition snow3g_uia2 (key iv msg : bytes) (bitlen : N) : bytes :=
  let z := snow3g_keystream key iv 5 in
  let P := N.lor (N.shiftl (nth_N z 0) 32) (nth_N z 1) in
  let Q := N.lor (N.shiftl (nth_N z 2) 32) (nth_N z 3) in
  let ev := fold_left (fun e m => snow3g_MUL64 (N.lxor e m) P 0x1B) (snow3g_msg_blocks msg bitlen) 0 in
  let ev := snow3g_MUL64 (N.lxor ev (w64 bitlen)) Q 0x1B in
  be32 (N.lxor (N.shiftr ev 32) (nth_N z 4)).

(** * 3GPP IV generators, /repo/lib/x86_64/snow3g_iv.c.  [None] = the C function returns -1.
    COUNT and FRESH are 32-bit words. *)
Definition snow3g_f8_iv_gen (count bearer dir : N) : option bytes :=
  if (32 <=? bearer) || (1 <? dir) then None
  else
    let h := be32 count ++ be32 (N.lor (N.shiftl bearer 27) (N.shiftl dir 26)) in
    Some (h ++ h).

Definition snow3g_f9_iv_gen (count fresh dir : N) : option bytes :=
  if 1 <? dir then None
  else
    Some (be32 count ++ be32 fresh ++
          be32 (N.lxor (w32 count) (N.shiftl dir 31)) ++ be32 (N.lxor (w32 fresh) (N.shiftl dir 15))).
