(* Spec/AESModes_Tests.v — TESTS (known-answer vectors and library comparisons)
   for Spec/AESModes.v.  Checks on particular inputs, not theorems.
   Part 1: NIST SP 800-38A Appendix F vectors (ECB, CBC, CFB128, CTR; AES-128/192/256,
           both directions).
   Part 2: vectors from the repository KAT files (CBCS: test/kat-app/aes_cbcs_test.json.c
           vector 1; DOCSIS: test/kat-app/aes_test.c DK1..DK5).
   Part 3: outputs of the REAL LIBRARY (libIPSec_MB.so, job API) on random inputs, as
           printed by the C harness described in Spec/AES_API.md.  Every line was
           obtained with init_mb_mgr_sse, _avx2 and _avx512 and the three outputs were
           identical (except the "sse-nocheck" CFB ones, see AES_API.md).  The full run
           (1756 comparisons with lengths 1..336 bytes and 874 more with lengths up to
           4112 bytes / 32771 bits) was checked with the same definitions; a
           representative subset is kept here so that the file compiles quickly. *)
From Coq Require Import String.
From IMB Require Import Lib.Bytes Spec.Hex Spec.AES Spec.AESModes.
Local Open Scope N_scope.
Local Open Scope string_scope.

(* ===== Part 1: SP 800-38A ===== *)
Definition k128 := hex "2b7e151628aed2a6abf7158809cf4f3c".
Definition k192 := hex "8e73b0f7da0e6452c810f32b809079e562f8ead2522c6b7b".
Definition k256 := hex "603deb1015ca71be2b73aef0857d77811f352c073b6108d72d9810a30914dff4".
Definition iv38a := hex "000102030405060708090a0b0c0d0e0f".
Definition ctr38a := hex "f0f1f2f3f4f5f6f7f8f9fafbfcfdfeff".
Definition pt38a := hex
      "6bc1bee22e409f96e93d7e117393172aae2d8a571e03ac9c9eb76fac45af8e51
       30c81c46a35ce411e5fbc1191a0a52eff69f2445df4f9b17ad2b417be66c3710".

(* SP 800-38A F.1, AES-128 *)
Example test_38a_ecb128_enc : ecb_enc k128 pt38a = hex
      "3ad77bb40d7a3660a89ecaf32466ef97f5d3d58503b9699de785895a96fdbaaf
       43b1cd7f598ece23881b00e3ed0306887b0c785e27e8ad3f8223207104725dd4".
Proof. vm_compute. reflexivity. Qed.
Example test_38a_ecb128_dec : ecb_dec k128 (hex
      "3ad77bb40d7a3660a89ecaf32466ef97f5d3d58503b9699de785895a96fdbaaf
       43b1cd7f598ece23881b00e3ed0306887b0c785e27e8ad3f8223207104725dd4") = pt38a.
Proof. vm_compute. reflexivity. Qed.

(* SP 800-38A F.1, AES-192 *)
Example test_38a_ecb192_enc : ecb_enc k192 pt38a = hex
      "bd334f1d6e45f25ff712a214571fa5cc974104846d0ad3ad7734ecb3ecee4eef
       ef7afd2270e2e60adce0ba2face6444e9a4b41ba738d6c72fb16691603c18e0e".
Proof. vm_compute. reflexivity. Qed.
Example test_38a_ecb192_dec : ecb_dec k192 (hex
      "bd334f1d6e45f25ff712a214571fa5cc974104846d0ad3ad7734ecb3ecee4eef
       ef7afd2270e2e60adce0ba2face6444e9a4b41ba738d6c72fb16691603c18e0e") = pt38a.
Proof. vm_compute. reflexivity. Qed.

(* SP 800-38A F.1, AES-256 *)
Example test_38a_ecb256_enc : ecb_enc k256 pt38a = hex
      "f3eed1bdb5d2a03c064b5a7e3db181f8591ccb10d410ed26dc5ba74a31362870
       b6ed21b99ca6f4f9f153e7b1beafed1d23304b7a39f9f3ff067d8d8f9e24ecc7".
Proof. vm_compute. reflexivity. Qed.
Example test_38a_ecb256_dec : ecb_dec k256 (hex
      "f3eed1bdb5d2a03c064b5a7e3db181f8591ccb10d410ed26dc5ba74a31362870
       b6ed21b99ca6f4f9f153e7b1beafed1d23304b7a39f9f3ff067d8d8f9e24ecc7") = pt38a.
Proof. vm_compute. reflexivity. Qed.

(* SP 800-38A F.2, AES-128 *)
Example test_38a_cbc128_enc : cbc_enc k128 iv38a pt38a = hex
      "7649abac8119b246cee98e9b12e9197d5086cb9b507219ee95db113a917678b2
       73bed6b8e3c1743b7116e69e222295163ff1caa1681fac09120eca307586e1a7".
Proof. vm_compute. reflexivity. Qed.
Example test_38a_cbc128_dec : cbc_dec k128 iv38a (hex
      "7649abac8119b246cee98e9b12e9197d5086cb9b507219ee95db113a917678b2
       73bed6b8e3c1743b7116e69e222295163ff1caa1681fac09120eca307586e1a7") = pt38a.
Proof. vm_compute. reflexivity. Qed.

(* SP 800-38A F.2, AES-192 *)
Example test_38a_cbc192_enc : cbc_enc k192 iv38a pt38a = hex
      "4f021db243bc633d7178183a9fa071e8b4d9ada9ad7dedf4e5e738763f69145a
       571b242012fb7ae07fa9baac3df102e008b0e27988598881d920a9e64f5615cd".
Proof. vm_compute. reflexivity. Qed.
Example test_38a_cbc192_dec : cbc_dec k192 iv38a (hex
      "4f021db243bc633d7178183a9fa071e8b4d9ada9ad7dedf4e5e738763f69145a
       571b242012fb7ae07fa9baac3df102e008b0e27988598881d920a9e64f5615cd") = pt38a.
Proof. vm_compute. reflexivity. Qed.

(* SP 800-38A F.2, AES-256 *)
Example test_38a_cbc256_enc : cbc_enc k256 iv38a pt38a = hex
      "f58c4c04d6e5f1ba779eabfb5f7bfbd69cfc4e967edb808d679f777bc6702c7d
       39f23369a9d9bacfa530e26304231461b2eb05e2c39be9fcda6c19078c6a9d1b".
Proof. vm_compute. reflexivity. Qed.
Example test_38a_cbc256_dec : cbc_dec k256 iv38a (hex
      "f58c4c04d6e5f1ba779eabfb5f7bfbd69cfc4e967edb808d679f777bc6702c7d
       39f23369a9d9bacfa530e26304231461b2eb05e2c39be9fcda6c19078c6a9d1b") = pt38a.
Proof. vm_compute. reflexivity. Qed.

(* SP 800-38A F.3.13-18, AES-128 *)
Example test_38a_cfb128_enc : cfb_enc k128 iv38a pt38a = hex
      "3b3fd92eb72dad20333449f8e83cfb4ac8a64537a0b3a93fcde3cdad9f1ce58b
       26751f67a3cbb140b1808cf187a4f4dfc04b05357c5d1c0eeac4c66f9ff7f2e6".
Proof. vm_compute. reflexivity. Qed.
Example test_38a_cfb128_dec : cfb_dec k128 iv38a (hex
      "3b3fd92eb72dad20333449f8e83cfb4ac8a64537a0b3a93fcde3cdad9f1ce58b
       26751f67a3cbb140b1808cf187a4f4dfc04b05357c5d1c0eeac4c66f9ff7f2e6") = pt38a.
Proof. vm_compute. reflexivity. Qed.

(* SP 800-38A F.3.13-18, AES-192 *)
Example test_38a_cfb192_enc : cfb_enc k192 iv38a pt38a = hex
      "cdc80d6fddf18cab34c25909c99a417467ce7f7f81173621961a2b70171d3d7a
       2e1e8a1dd59b88b1c8e60fed1efac4c9c05f9f9ca9834fa042ae8fba584b09ff".
Proof. vm_compute. reflexivity. Qed.
Example test_38a_cfb192_dec : cfb_dec k192 iv38a (hex
      "cdc80d6fddf18cab34c25909c99a417467ce7f7f81173621961a2b70171d3d7a
       2e1e8a1dd59b88b1c8e60fed1efac4c9c05f9f9ca9834fa042ae8fba584b09ff") = pt38a.
Proof. vm_compute. reflexivity. Qed.

(* SP 800-38A F.3.13-18, AES-256 *)
Example test_38a_cfb256_enc : cfb_enc k256 iv38a pt38a = hex
      "dc7e84bfda79164b7ecd8486985d386039ffed143b28b1c832113c6331e5407b
       df10132415e54b92a13ed0a8267ae2f975a385741ab9cef82031623d55b1e471".
Proof. vm_compute. reflexivity. Qed.
Example test_38a_cfb256_dec : cfb_dec k256 iv38a (hex
      "dc7e84bfda79164b7ecd8486985d386039ffed143b28b1c832113c6331e5407b
       df10132415e54b92a13ed0a8267ae2f975a385741ab9cef82031623d55b1e471") = pt38a.
Proof. vm_compute. reflexivity. Qed.

(* SP 800-38A F.5, AES-128 *)
Example test_38a_ctr128_enc : ctr k128 ctr38a pt38a = hex
      "874d6191b620e3261bef6864990db6ce9806f66b7970fdff8617187bb9fffdff
       5ae4df3edbd5d35e5b4f09020db03eab1e031dda2fbe03d1792170a0f3009cee".
Proof. vm_compute. reflexivity. Qed.
Example test_38a_ctr128_dec : ctr k128 ctr38a (hex
      "874d6191b620e3261bef6864990db6ce9806f66b7970fdff8617187bb9fffdff
       5ae4df3edbd5d35e5b4f09020db03eab1e031dda2fbe03d1792170a0f3009cee") = pt38a.
Proof. vm_compute. reflexivity. Qed.

(* SP 800-38A F.5, AES-192 *)
Example test_38a_ctr192_enc : ctr k192 ctr38a pt38a = hex
      "1abc932417521ca24f2b0459fe7e6e0b090339ec0aa6faefd5ccc2c6f4ce8e94
       1e36b26bd1ebc670d1bd1d665620abf74f78a7f6d29809585a97daec58c6b050".
Proof. vm_compute. reflexivity. Qed.
Example test_38a_ctr192_dec : ctr k192 ctr38a (hex
      "1abc932417521ca24f2b0459fe7e6e0b090339ec0aa6faefd5ccc2c6f4ce8e94
       1e36b26bd1ebc670d1bd1d665620abf74f78a7f6d29809585a97daec58c6b050") = pt38a.
Proof. vm_compute. reflexivity. Qed.

(* SP 800-38A F.5, AES-256 *)
Example test_38a_ctr256_enc : ctr k256 ctr38a pt38a = hex
      "601ec313775789a5b7a7f504bbf3d228f443e3ca4d62b59aca84e990cacaf5c5
       2b0930daa23de94ce87017ba2d84988ddfc9c58db67aada613c2dd08457941a6".
Proof. vm_compute. reflexivity. Qed.
Example test_38a_ctr256_dec : ctr k256 ctr38a (hex
      "601ec313775789a5b7a7f504bbf3d228f443e3ca4d62b59aca84e990cacaf5c5
       2b0930daa23de94ce87017ba2d84988ddfc9c58db67aada613c2dd08457941a6") = pt38a.
Proof. vm_compute. reflexivity. Qed.

(* the same keystream applies to the 64-bit-counter variant when no 32-bit wrap occurs *)
Example test_38a_ctr128_bits : ctr_bits k128 ctr38a pt38a 512 [] = ctr k128 ctr38a pt38a.
Proof. vm_compute. reflexivity. Qed.
(* CFB128 with a truncated last segment = prefix of the full result *)
Example test_cfb_prefix : cfb_enc k128 iv38a (firstn 37 pt38a) = firstn 37 (cfb_enc k128 iv38a pt38a).
Proof. vm_compute. reflexivity. Qed.

(* ===== Part 2: repository KAT vectors ===== *)
(* /repo/test/kat-app/aes_cbcs_test.json.c, vector 1 (640 bytes): the four SP 800-38A
   plaintext blocks at block positions 0, 10, 20, 30, zero blocks elsewhere; expected
   = the four CBC-AES128 ciphertext blocks at the same positions, zeros elsewhere. *)
Definition spread10 (l : bytes) : bytes :=
  flat_map (fun b => (b ++ zeros 144)%list) (chunks 16 l).
Example test_kat_cbcs_enc :
  cbcs_enc k128 iv38a (spread10 pt38a) = spread10 (cbc_enc k128 iv38a pt38a).
Proof. vm_compute. reflexivity. Qed.
Example test_kat_cbcs_enc_explicit :
  firstn 16 (skipn 480 (cbcs_enc k128 iv38a (spread10 pt38a)))
  = hex "3ff1caa1681fac09120eca307586e1a7".
Proof. vm_compute. reflexivity. Qed.
Example test_kat_cbcs_dec :
  cbcs_dec k128 iv38a (spread10 (cbc_enc k128 iv38a pt38a)) = spread10 pt38a.
Proof. vm_compute. reflexivity. Qed.
(* aes_cbcs_test.c: next_iv must equal the last ciphertext block processed *)
Example test_kat_cbcs_next_iv :
  cbcs_next_iv iv38a (cbcs_enc k128 iv38a (spread10 pt38a))
  = hex "3ff1caa1681fac09120eca307586e1a7".
Proof. vm_compute. reflexivity. Qed.

(* /repo/test/kat-app/aes_test.c docsis_vectors: DK1/DIV1/DP1/DC1 (AES-128, CFB only) *)
Definition dk1 := hex "e6600fd8852ef5abe6600fd8852ef5ab".
Definition div1 := hex "810e528e1c5fda1a810e528e1c5fda1a".
Example test_kat_docsis1_enc : docsis_aes_enc dk1 div1 (hex "00010288ee597e") = hex "fc68a3556037dc".
Proof. vm_compute. reflexivity. Qed.
Example test_kat_docsis1_dec : docsis_aes_dec dk1 div1 (hex "fc68a3556037dc") = hex "00010288ee597e".
Proof. vm_compute. reflexivity. Qed.
(* DK2: AES-128 CBC + CFB, 19 bytes *)
Example test_kat_docsis2_enc :
  docsis_aes_enc dk1 div1 (hex "000102030405060708090a0b0c0d0e91d2d19f")
  = hex "9dd1674bba61101b56756474364f101d44d473".
Proof. vm_compute. reflexivity. Qed.
Example test_kat_docsis2_dec :
  docsis_aes_dec dk1 div1 (hex "9dd1674bba61101b56756474364f101d44d473")
  = hex "000102030405060708090a0b0c0d0e91d2d19f".
Proof. vm_compute. reflexivity. Qed.
(* DK3: AES-128 CBC only (= SP 800-38A F.2.1) *)
Example test_kat_docsis3_enc : docsis_aes_enc k128 iv38a pt38a = cbc_enc k128 iv38a pt38a.
Proof. vm_compute. reflexivity. Qed.
Example test_kat_docsis3_dec :
  docsis_aes_dec k128 iv38a (cbc_enc k128 iv38a pt38a) = pt38a.
Proof. vm_compute. reflexivity. Qed.
(* DK4 / DK5: AES-256 *)
Definition dk4 := hex "e6600fd8852ef5abe6600fd8852ef5abe6600fd8852ef5abe6600fd8852ef5ab".
Example test_kat_docsis4_enc : docsis_aes_enc dk4 div1 (hex "00010288ee597e") = hex "e375f2301f759a".
Proof. vm_compute. reflexivity. Qed.
Example test_kat_docsis4_dec : docsis_aes_dec dk4 div1 (hex "e375f2301f759a") = hex "00010288ee597e".
Proof. vm_compute. reflexivity. Qed.
Example test_kat_docsis5_enc :
  docsis_aes_enc dk4 div1 (hex "000102030405060708090a0b0c0d0e91d2d19f")
  = hex "d128731fb528b518ab51abc8983dd1eee44359".
Proof. vm_compute. reflexivity. Qed.
Example test_kat_docsis5_dec :
  docsis_aes_dec dk4 div1 (hex "d128731fb528b518ab51abc8983dd1eee44359")
  = hex "000102030405060708090a0b0c0d0e91d2d19f".
Proof. vm_compute. reflexivity. Qed.

(* ===== Part 3: comparison with the real library (random inputs) =====
   Naming: lib_<mode><keybits>_<dir>_<length>[_<variant>]; for ctr the suffix gives the
   IV length and IV bytes 8..15; for ctrbit the length is in BITS and "oop" = separate
   random dst buffer (its last byte provides the preserved low bits), "inplace" = dst = src;
   cbcsNNN with NNN = 192/256 use cbcs_*_lib (the library's AES-128-rounds behaviour). *)

Example lib_ecb128_e_176 :
  ecb_enc (hex "d181f7fe73fe446335eaf2ee35139417") (hex
      "3b7fe5e07c64062800f37dae73674dba246a5860501ed7540053c056d6651ef0
       ed32b603e6bd4a405f106463ffde96135cec6dc146da0c471a0dd5a949a2ef26
       3ff8446f825030c55fc8f46de207cfc2a166e9e0f08d8c34b8140ceebb69739d
       c023a4de497c0ce9ed8c202b786a57484c41bdbdf9a74267a73d4d7b8eab641e
       2aa429133580e7cf7f8c3873e855ffc2736d238c313e172c578e17513d5e42cf
       9133e305bfde696269be8635604556c0")
  = hex
      "0e65e19175a16e44c0e077724b502f872d854edc4e7c299d8f135408a87f7161
       46ac709a81934846997e117a4d3ca76e70a28fb43df58413222f44d003b39243
       74a9f8136b835eb18eef546aeaf6ac7f049bd92117ac40046fb5aa0fa8b0926e
       4b306f07939e287921846ae2c95c3e6109c0692ae42610da6aa9a2220e12fd0a
       7c6f83c4f26845262e5d488a96e0426f44f74eb3ec1aa6f02bb3774510ddc334
       311e873050e2b98a6eb0d73a0f19cdab".
Proof. vm_compute. reflexivity. Qed.
Example lib_ecb128_d_336 :
  ecb_dec (hex "ade40377b7e931cc0928edd53813ef9e") (hex
      "73f85652d23b7a1da05d245438bc0e2eb6738de32570de26446b693f27064592
       d64b55cd2a427d1b5174e77b1d27fa830ea1e5c9abec368f7ad5491e41c133f8
       5d6efd42ff3dec3c18634a6ae5290ed5b9fa4b24faa30471ce815782237100ca
       d5f186492f5c6f0ae9683746922e23d72e85c53ab62c329914d416e39bbb7ec2
       462c34239cabb5a0cf31954e330210b1bb8568d7b8ea0e84cf585548d7a3ddf2
       7e170368e9c37a22dfaa443f2f90d4fc5d0929b35f9398db015b85ee72f78412
       1e5bb63ed1d4dde952c7b6de6193c0e50f4adf1bf4bb7e72830687cd8922053e
       f716399e2e2a1a4f408ed1f4070418edb2bd314204d699a39376853db3711a59
       de18b72d0b451f777e9580c2471c1f1f67e2238a973adc3a25ab9276bf652af2
       d304f0a263b16b98d69a860965f8f00dc65c56663dd655b76fd7fb90cdfce952
       d066d88f0d538425f5aeef5a3fde6ca9")
  = hex
      "b7d0ea3cd94ed399c13b33fac97924578af763658f31532440e322330b382690
       92240f7e6c7fdc34b1aa8e9a882867ccc29f1b6d42ed7c2c582edaeaf95caff8
       08964ff1206fcf00086d869dc24a327d393a1c16996712585ca5c36ce507f191
       c32d001664613622630c8bc6ef6d6734979f86255d70b1b901dc2340dac66794
       2f401b6468712e889456e0afc94265a502db301cfdac8d5ff3de6ce517990f50
       460d59bfa8d51bd366fcc095af320ca1c43ce516f19491adcc3b63ebf0afc9d5
       9978b55b21ac235108eda8fb56b2bf34b1e5e5bae5b934f31725a96b721e4aa5
       e914604d6b8f5dd3a3c282bc8115c1c791819e30fb9a4b1ea4c979c01606f7a7
       c56628615a3f7c691f6966bbeebd1fd211fc88a10d32d6d5f0bdccebb43a66b0
       76a28599ed54c28509d95860d2d43efdccc94aa0ddbdefc14e63681c292e7c5d
       cd7c4136a75738ae2c28546e4ff0c4d7".
Proof. vm_compute. reflexivity. Qed.
Example lib_cbc128_e_160 :
  cbc_enc (hex "54a2399ccfc9fcc2da31ce3dd166bdcd") (hex "3a33847e5bbb07fd07ca47784231b19a") (hex
      "f45872ceefb9fc59f4f95d14381a3a783256347b9ffce69cd7007ae8a758cca4
       15d5a91ee863c8b6c0337ae32d6fcaa25516cdf2f8b8657666bef215b9282bfe
       20072697e777cea7259cd398fa79a8ef59278c8c210503ccf8b9a61a86bfef23
       6ffcdf31d3df360740364a803dc39653428b6bd5210fe8bd5ae575a995d0e784
       6bd3eae080218826868204df70c62e9b01c6cc262c24799eb91e8e0f53ae8487")
  = hex
      "20a6bddd6f8e846d09a5eb0bbe59e418b3cb82fa2232ab601cbc0ff81bd50fbc
       73daae835f889df24bb3467218c08a930888d79d56cf2206f6d7780c450d491b
       c7cb0316644fa5be9e8c4e4661070bf57d47fcf891c668661afec4517a962ece
       390dd619de6b2fb58974d4c16ef98a4509eb6153e39b5b3e10ecfd66336d47a4
       d94a70dfbd0c3c5020c702c063bca772a173e5e67d22d30230f67d1e7fb7993b".
Proof. vm_compute. reflexivity. Qed.
Example lib_cbc128_d_336 :
  cbc_dec (hex "ade40377b7e931cc0928edd53813ef9e") (hex "dd5fe3bf23c772f518eded62d705a013") (hex
      "73f85652d23b7a1da05d245438bc0e2eb6738de32570de26446b693f27064592
       d64b55cd2a427d1b5174e77b1d27fa830ea1e5c9abec368f7ad5491e41c133f8
       5d6efd42ff3dec3c18634a6ae5290ed5b9fa4b24faa30471ce815782237100ca
       d5f186492f5c6f0ae9683746922e23d72e85c53ab62c329914d416e39bbb7ec2
       462c34239cabb5a0cf31954e330210b1bb8568d7b8ea0e84cf585548d7a3ddf2
       7e170368e9c37a22dfaa443f2f90d4fc5d0929b35f9398db015b85ee72f78412
       1e5bb63ed1d4dde952c7b6de6193c0e50f4adf1bf4bb7e72830687cd8922053e
       f716399e2e2a1a4f408ed1f4070418edb2bd314204d699a39376853db3711a59
       de18b72d0b451f777e9580c2471c1f1f67e2238a973adc3a25ab9276bf652af2
       d304f0a263b16b98d69a860965f8f00dc65c56663dd655b76fd7fb90cdfce952
       d066d88f0d538425f5aeef5a3fde6ca9")
  = hex
      "6a8f0983fa89a16cd9d6de981e7c8444f90f35375d0a2939e0be0667338428be
       2457829d490f0212f5c1e7a5af2e225e14d44ea068af0137095a3d91e47b557b
       0637aa388b83f98f72b8cf83838b01856454e154665afe6444c68906002eff44
       7ad74b329ec23253ad8ddc44cc1c67fe426e006c722cdeb3e8b4140648e84443
       01c5de5ede5d1c118082f64c52f91b6744f7043f610738ff3ceff9ab249b1fe1
       fd883168103f1557a9a495dd7891d153ba2be67e1857eb8f139127d4df3f1d29
       c4719ce87e3fbb8a09b62d1524453b26afbe5384346de91a45e21fb5138d8a40
       e65ebf569f3423a120c405710837c4f96697a7aed5b05151e447a8341102ef4a
       77db19235ee9e5ca8c1fe3865dcc058bcfe43f8c0677c9a28e284c29f32679af
       1140a6137a6e1ebf2c72ca166db1140f1fcdba02be0c845998f9ee154cd68c50
       0b2017509a816d1943ffaffe820c2d85".
Proof. vm_compute. reflexivity. Qed.
Example lib_ctr128_e_1_iv12_c9bed239 :
  ctr (hex "0012d9078ea5d215808f9e9c98cacc89") (hex "3dccfce33a016490c9bed239") (hex "13")
  = hex "f1".
Proof. vm_compute. reflexivity. Qed.
Example lib_ctr128_d_33_iv12_c9bed239 :
  ctr (hex "a5585f1a7ace10fba428b04e27408ccf") (hex "3dccfce33a016490c9bed239") (hex
      "bbcd190fd692dee50c323f34154140d516437d2e40004cea76395f3ec9e0b969
       1d")
  = hex
      "6ff709f14e9e74071f2f3b926b1918083202d8289424290e87f48cd6cf2c2fd8
       ef".
Proof. vm_compute. reflexivity. Qed.
Example lib_ctr128_e_15_iv16_f933cd0009770c66 :
  ctr (hex "fb0e6241a6169195390f104b0344daee") (hex "a2bdbda5093e18e8f933cd0009770c66") (hex "21eff65a5d8ab82d235ec9bc405e5d")
  = hex "c00add00155d1dd6ede42a2fd2663f".
Proof. vm_compute. reflexivity. Qed.
Example lib_ctr128_e_161_iv16_ee8ea393ffffffff :
  ctr (hex "f0af2c7349105f13a3515ac9ab88264a") (hex "3df0eef538c6ac0bee8ea393ffffffff") (hex
      "0b6c947fb91a22d80c51ab551046ec27b019296768b60eee16de5ae0e008e8ef
       c0f8a37495508281a7ef7ffd65edd6ca4de46790ad88f65858566ede66e63515
       5aeacab930a67a38481c9498c53e1d9f7ca4303da5a2add7387b3b8f4ded54f4
       e4d8dff1ca4764ee75b833ba75a0f37d17c7648732c3d8b24d867c940d30b0a2
       8365cdfab87fbee4437e404899bc0cf8eff3b83f7ede5cea13f28de0c5121e98
       19")
  = hex
      "e3aa50546fa7528f1194ffd8ef133d0d4ce54dafbc29e25e4b4731be5be87a44
       ea5f85fb57e6080e177b8ccef54edc589f2a379cbfb5378adb65f18c16f7c4dc
       83f84018e3c7c4af4f0d1cca27f7c4ad9fd1b3720a218d373ce1c9f9a254e61d
       650b66791cb587dc6ebeaa21e0416abb23129a52d7856b165983ea3b436327e8
       d8e2ce96c3929d7dd25c5f67cd7e5c2d0d6f5aff048b014da227b2891e64aa52
       d1".
Proof. vm_compute. reflexivity. Qed.
Example lib_ctr128_d_255_iv16_c1f41ac2fffffffe :
  ctr (hex "09bb6955f961936e57779fe3f93f777a") (hex "eb69430a2777047ac1f41ac2fffffffe") (hex
      "6ab7d243d92c39cfab2a4cb85ae0cdeb5c86ea667c5cdec62121673c0877dbd9
       e3727c4276adf8eb62334e1123d5eb93cd6d865dba0dd505abd71b6da6efdf0c
       79786d44a489309839fbae83fe6d1dc9aa3c80b10944297d4ecab17821365f4b
       9e31c117fe45d67e30a78f4a9bf28d289856624e3ce5aaf0df0aae99a8f3f5e7
       404493b8d3b8a7e2009c8284d1e733c86406fb41749d8bd698f7d901745de630
       b4d866339d744cd70d277c1a0b7a4c2ad782f82432ed2a945ad57399241ece6b
       28088a004528a53a1dfc7e83d92e04c731181252d606abde3d4de6fc2cdb7de6
       ba30995d10cb0caf2f50f266e6384cb30c41a2b732e4e415ebbcc8abc6e9c7")
  = hex
      "b732e884422d1c8e65f998aa841c1948184a446dccba0efdbb4891ad693257ea
       ec41f27411420d4484d7e8c29bac27d54f6e144169bb6adc384cbfea0b58868a
       af67b3318e0a667827e79c0cb387d4f175aab68554802c2e58cf80816f195e4c
       51730b32d8772cda2549590e6c3891b9232e2be0ccde79471d8694672c46bd6b
       dd6a2c320350fcc62077226eef8e4384a6a4b9f1cbd01c71023edb47dda3fbc3
       bba087b1d372f6924ca507e8e0ec212e39080cbf6e4f097abd1d11f97222ecac
       6e89bab6dda32ae8f7d3744d3a67441cb8317528f6a21881da2dae17bdc9a68b
       ee3d1904e7b7e123cbaeaa769935f6ff8cff0fad936f0c37c64883627e4d39".
Proof. vm_compute. reflexivity. Qed.
Example lib_ctr128_e_300_iv16_ffffffffffffffff :
  ctr (hex "ffaf9817d604a6c069ac7c883dff63b4") (hex "f9e1b5182f24ce87ffffffffffffffff") (hex
      "f58feb429c2cb47f52b2a480e6d713e5f90e2cb40b8e050c6705bdb83d2df17d
       c4f22330c75636e2b6ec0c4dcc2b59cbb0ae119c7f5d62b325326c4bf8f2093a
       f6865754cdd2d0bd95e59e8cf87c715ace8b7b5e527fff6e23a3f373bee32c62
       e3980a54b82ef683c374eb5ab2d6baa9e89bedf05e852c8a61581a3de7a86d42
       fa731beb741d9a3a5ea2b5ba43ab07d5e3f989615306c96d1a014db07e2ddb93
       957476cda078eee05f692f2d8977224e3e9ea83d73682da800e2f87ed7e2a2b7
       8f9d7a02f70afd83f26da528a8daed663bd17e2c918653f5972f950decdb7600
       68948cec008407470789e056de63c10f42e29df326e389a6867badeb1fa7ed71
       96ecffd61732b9dfd1a3fe953c345398e40cb3c61cf99ba64cb8cc1e1aa5b847
       66ef28b54029cc88f201f753")
  = hex
      "53964d0a4e33d766265e4138b8c1d1e9e9930856ff59789fc713f940bf89f2b6
       74c51b45d21147fcd10fc15cc320d725bdbdae0344f75090a16c479fd7a7d62b
       3e29689075d8104f2cad52418e5757c511f8c950b7c2f99c3bfd0e02366b06c3
       90f4ae1a06a522378f73aa3ae2ed9e42b03d8a000d8272560978df1019880e41
       6c2e46caee09a877591fd9aff7b1c16af30f5b907e26d393abd52a4a102e7f56
       b80932f46275a5a2f123e88434e93d2124d14485d9c94be39773ad78e6f8dbb9
       b6c11ff31eb1ab3959723589b20f38e7512700a6774861fbc8b89dfb08430439
       e4979f03638113bd4bcf8fb700c6eaf5d760dad5ae2784ea10b0a8f2551990fa
       22bcadd92984a2ad75bf3e07f5c5d9f8a4297ed2810f0b5a58646479b1515cdb
       ccd2606fc9fae673a63a72e3".
Proof. vm_compute. reflexivity. Qed.
Example lib_ctr128_d_160_iv16_e361eae1fffffff9 :
  ctr (hex "46e62fa21c8ad907eb3d20b45c04e7d9") (hex "299d83521b82c9f4e361eae1fffffff9") (hex
      "dd89fa51fe494d7f11d83f3780fc039940d77990aec327d21f8254ec17231fb2
       1adfcce3e1980a98cd7ed73ca69c4c1cd16614780b1ef45d3820eacfc1b30b95
       186ca5cb25c0aa4bac7c3b667af73662dffda1a7b0d19f2c0f56e29ec7f98335
       97987ebec18d8843473784ce3675016485a9ded1b826358782b495b5940f75e7
       82f4b075e1018402c80bae6d1ebe426950495a377df54b76ff3ebb4f5f89b380")
  = hex
      "fd5684377056c7b0234def9f47c945415094387b81d93a99eaad1f81e60f54b1
       02e4203850cef9ec93236ed983596dbb9806834b08671a199878da826f1c5c1e
       354e5012d609e37c623fa49b4f79465f0d63616f42075fc0cf0f667a9ca41467
       265a1628e38191c9d5db4ff75c1cd19c05ee8a14061a8e6ada4ede8d0f561e4d
       8874e39e88afa9f3051527dbf39bb08d0165a9885985e8f1787697c7e7a4bcdb".
Proof. vm_compute. reflexivity. Qed.
Example lib_ctrbit128_e_3_oop :
  ctr_bits (hex "73b5c276e7996a89b20f26faf337148c") (hex "fb863fc756e075d52abd005ea9c4bd18") (hex "a6") 3 (hex "6c")
  = hex "8c".
Proof. vm_compute. reflexivity. Qed.
Example lib_ctrbit128_d_133_inplace :
  ctr_bits (hex "045ce2620584e172295613dfaac79042") (hex "fb863fc756e075d52abd005ea9c4bd18") (hex "88014ded61616be3e9d58be3dfae8ed256") 133 (hex "88014ded61616be3e9d58be3dfae8ed256")
  = hex "2f5d30cba7dd1fadb927dee71e67a90c26".
Proof. vm_compute. reflexivity. Qed.
Example lib_ctrbit128_e_1277_oop :
  ctr_bits (hex "29c864fdfe099781f586626e2beab196") (hex "fb863fc756e075d52abd005ea9c4bd18") (hex
      "bfa1c7a3c54cfd38efa3b296540b7bab141e697e5b815abbd055115d69a75a91
       5594afa494dbe2b5c4edc58de675ef9897f53d143a52a100a35333efff7894c7
       027c450fa3e1471e9bcc8f97f58d04f7051d476dd26a5f076928d9edf9f8d1eb
       dfe98ae86fc264f117f56c7b031f7929683f03658f8c5f82987fe106e7a55f9e
       923cf634fcaf45e445f82984f5a885e83bd3defde23d493394105fced519f0b7") 1277 (hex
      "e800413c0b4e34e58cc4c12182c6df445c63836179a1d4a293be766f5ed4f5e4
       726d075ae5abfc1bbb385b47a75c1e29273a56c23daa8144b5b9968a6d99d87c
       5aeb2a4bdbcd7e5214fdaeae1075cf156dba922ac38da6e8f44f595a356fc3a3
       f3879f8c26318ec03ac874abe59d3d60f9c3a63a9b0c2c686a26e4eba7c4e9be
       c613ea854f0746d621041f06b3116499313d4bb642b461078e28f7f886aef936")
  = hex
      "05d1f2c2c69156366effbdf05723ab6aa348968081adb249b802556e26f1f3cb
       d699aa598bdddd1af28f7474ec9e82c9a4a142166eb56024bbed16792a6ab632
       3d26b9e921d409a89d1b928759eb5cea3b3e556f6aec67830716168801aab071
       f0f69be22aab1c0b47e49c72dad83984a0db3fde1d4ee019123e13f04b4d4af9
       646a2cfb25dba94ef50436059c02f82ae7c13e20381cfb097328651e99cb0e36".
Proof. vm_compute. reflexivity. Qed.
Example lib_ctrbit128_e_1277_oop_2 :
  ctr_bits (hex "20bbc603963f0d87c801b9a43723fda8") (hex "6a502204675f1f829fee1086ffffffff") (hex
      "b5bec7167f6d27914715cc7be12b5004d39e2086531ec768b4972b67f891a941
       ce36fb3ed6bb98c550a96348da47fc87f6da9e2b51c17df7b7cc291fa0e50cbd
       5192853aeb43d71d885d34b47b3043b8fd8203a170f4465a8c82981f74e203b8
       f69750c970b37365477d46821e3cec76bf0365c0e3d50b2aad1ac65ae3f3b1fe
       20feac5d6f426959bd40ab7677643074e58b8602486b6ff9aacf473e74a4b973") 1277 (hex
      "a6fa87f0a9cc55c5f836fdb7d52aaf280fe45a5346eded6ba24caa179b43ff6d
       84b03b45fbd7433ca4b78e60f40ec419fd08c953a0122374290d5c8c5a1a2eb0
       a59ee58f8c88c2a65f5e6169a4d2274eb7d7b1fa5790eea1cfcfb73774f2903f
       a10afef5a4f842afd83c984773269c597af56411881adaf4e4f4efa4ab7b0342
       d9c7059ee0f0666f78646008c4c5d31bebe84c02ff82605a8c24969928808ae7")
  = hex
      "3d19b73d9149bde7ac90236891164d018e3d90a2531fd687eabc782b183b32fa
       2c7a575782b9c1ad71f7a5a41849c2d9033bb4f4fbc1f421566d4afbbf54a882
       f40eea7825ae99e88a96208648670f2db22ec3e3152d119442c25ad85cf489d6
       18a1f82d4ca515c52befa3c1d603f9793fd0e2fe50b66fc151c1a91c05b299b8
       af6be3dcd043bd68b96e23e9b7931eae636571c0a2718054ec216c3d230719a7".
Proof. vm_compute. reflexivity. Qed.
Example lib_ctrbit128_e_1277_oop_3 :
  ctr_bits (hex "085d51e337467e37687c3917323aa806") (hex "46ab0d4480c4eb00fffffffffffffffe") (hex
      "8f171230e8f50dd94f92300c92e9215c15cc0caf85f50fd295549e66a8588dee
       2754f8c4891506b1b05a0e1455fa74f6d0db9bb3cb3b4a87dd06600ed13841ea
       507a1893d3b9af12a7a95df5798fc38ba4b80da25045ddb5b240fa45602a1bfa
       83f96f1983b6eddfc3e957f79e36adcb52a985adc7552a76550a5d04a52a72e6
       01ac41e9f9e5968a579023b40d48058c98b279509638532ee7b4b32220ec3290") 1277 (hex
      "6780d3982a401aff38976cd1d6243dbca5d96a55a12879a3366969e447d67196
       17d196c9a8e1fdd4126e827f933bb53601a806ce80748fff86f7aab512e03563
       5de851e9fad5d996c37ea2f9d22bcbaf496f5fb9c7b7fed6b24af519b7f9aaf3
       14bbf5028b65694d3da165f31215b204b029ff8c9aabd747d582b0e2177faed4
       3c774e19576e8f06c6e62833b141ea0655262fb3a1052a612a70ffbc610fd2fa")
  = hex
      "c7abf2238994d1b4f734006fc09423ed90766743d0ff1bc3048e44d1879063b3
       8130c4c73ea9095de69bc0d1968ae94df6d8fb67bacd69f9772e0f22de39b868
       d2c9a57d183e586a5037bb85734a29efb2777ae92d7b82d0acc8ebb3f69f8a1b
       e326c08ef5f9958a503e26121b9a7c9787a2c84c58711a6736e52803a17cbe69
       31e67ec6218556f5b842a12b1ad9a578353a7b1ebb90ade07b8653e05249f472".
Proof. vm_compute. reflexivity. Qed.
Example lib_ctrbit128_e_1277_oop_4 :
  ctr_bits (hex "8d2af5920f52e3f76ac249f783a5e5f0") (hex "ffffffffffffffffffffffffffffffff") (hex
      "a5b2bca0ad6d57a8caa0976a23f22b0f1b4c6f22282c92ec1c97c328dd83cf62
       4689b1e75bc362b824c1caed6fba32c7475435468190d9c2ff06844c27ceceb8
       cee91922ae399afb90a11b2ae67e85c0830b389646e4977e3f04aa58c1dff97e
       b94e7eecc08b5ed2f3b761fb465ee97fa7ba277151864c2706d90871ec9a9928
       223a7cf2d7082bc8442e7e526ac5fe2f5fc09bf81bb43952e29e3d77012ec015") 1277 (hex
      "f60f52964b4380ff8105610eacdfd27f0153687481a7d3221187f817545b1723
       61c5100755cb07985322660ca7a8e69c8f41d1a337602bc4d3c3cc7a700dc57e
       0e05d9ca442e720e1607dcfcd9c412f99bd93890730c8e61f57975b91d5e705f
       905c0166ecc5c5e396b6475664155f3dee2236e1ceabdb843d70f480df5ba7f4
       e63679a922a55f5e5ac6f1a48cf8a8c11d636034dac613a612fb59e04a90860b")
  = hex
      "86c988ab54888c1d2fb9b11940eac8a18ac6104f0c490358601cc818b91b61cf
       de13b7170c1883417491a1308c936dcca275298ce53b0edb1b7528787971107f
       8fa8aff74ffc1fcfcf3ac76cd164d6c494d67dbe8fe87a553cf41bbf3e80877a
       ba9a28c0c1b4d9726202a0a2b16290286cb279312202d445628f5891458f6715
       9f2526d3659903ae4cdcf227998f20e225feeb147b4dda531fb594fb5a98929b".
Proof. vm_compute. reflexivity. Qed.
Example lib_ctrbit128_e_1277_oop_5 :
  ctr_bits (hex "8f4815daf3eb741dcd7238aff0173bae") (hex "ae8c1fdd2396ab20ffffffffffffffff") (hex
      "afe9e5b7a1f31beadefdc81aae9e9e800d1b4db355883b4acd3320ac42672c3b
       2c1adf2e09b70beac5c04cf64afa2a7a9b371c4b6d5ea359005470402271092e
       cbef06ad2f6bf4ab0c7970d3b49391e6f8916dc9e2f642a5632efeb86c589a55
       d890e063eab605c35d2af00c5d973ad33fb1d72490e66281303c44863f577d0f
       0eb489e89811bfa68b3ec21f2b55d481360f58199ade1a43d18dcfe7b7e65428") 1277 (hex
      "2e06317039a5a1493c1a90a8c422e29cbfc1538dba15f37ea79015be885a79cf
       03074a11daca788eeb3cdaec7912895c2e4ea729253189c97aa4b211b519ecc5
       e484d78a256871a2b4b16bfb00e696491be506d02beb3a5238b267e3bfb59ac5
       6628602375fb5891e3e1650bbf2e8d7a707d9745c74b790fa9e248f1acd13a31
       4812eef2b1e2a3be4ca9922a4cf33766a43022cd07b1a9b25be6570fa1dce08d")
  = hex
      "f01da92c64be65674c2b49a44e704ac581783381dbcdc9b6cdfe8679085caec6
       d612ba44fb7e5bdcb09198934cf3ae638c60473d1ecb4eb798689e5cd7c637b9
       46457f74e129d34dc522679e1d6887cdb46ae97812159bb2455abaab08f5e9b6
       f3e34dd8f7a4e13827b94ddbfdaed23375ca01f3fabbb8a2576d39ff9e4bf800
       f506b0cc47f93dcbce865f47528da967dd9df4e65da82f67b184a0ef84125fcd".
Proof. vm_compute. reflexivity. Qed.
Example lib_ctrbit128_d_2047_inplace :
  ctr_bits (hex "715a9d47ab2d10276112b36537af664e") (hex "fb863fc756e075d52abd005ea9c4bd18") (hex
      "e3dfa1e97f94d2a4b59989b6ac321fc680774e058087294816979f193476994f
       29550223c011bf80c0f48d4507a8b6ea5cdd8531c235539a17c18d4e2d8ca232
       99afc9e473440ea895a177433686f1e6d12ab34a0e6e7679d49034599f779fd9
       1230e33e81c76c2f93f59eac3b43d1765f52e83bd88cb8c0594ab2680fd0e8fe
       2e4d2d5c9d115741896d605974671cf850568a48662cadd03829824342d2c89d
       491acd42682e7c1de79011bef25a0bed1f061d69809a9923d86482a0236c3aac
       01755e99963070ca548a7e5f0f3488055288876d5f8ec75c71cf1388614aa066
       2f3da22f4778ea677d51f3c02b764e5773a8380c5ecb4b5bc84b4a95d4ead2a0") 2047 (hex
      "e3dfa1e97f94d2a4b59989b6ac321fc680774e058087294816979f193476994f
       29550223c011bf80c0f48d4507a8b6ea5cdd8531c235539a17c18d4e2d8ca232
       99afc9e473440ea895a177433686f1e6d12ab34a0e6e7679d49034599f779fd9
       1230e33e81c76c2f93f59eac3b43d1765f52e83bd88cb8c0594ab2680fd0e8fe
       2e4d2d5c9d115741896d605974671cf850568a48662cadd03829824342d2c89d
       491acd42682e7c1de79011bef25a0bed1f061d69809a9923d86482a0236c3aac
       01755e99963070ca548a7e5f0f3488055288876d5f8ec75c71cf1388614aa066
       2f3da22f4778ea677d51f3c02b764e5773a8380c5ecb4b5bc84b4a95d4ead2a0")
  = hex
      "ad98d5035c796876d9bdb339aa91e9f9dccc1a9bff931f1810fdfd9b1dc8dccb
       2abe7a580f505eb7a5c5151a24fe0f29ac51b52b136d64620665f05ff6bd2137
       43f803da105e4e1de1c9c941868292aeca4e1c416580c871886aca4caccc2cdc
       4760cf6177e8007d7df6d9f1596d94de5afe88e1c39e2e7e6403d2e52525dc70
       5d60a8b3264cbc2382f67f107266be4d39a21ded30032254bdb145b268c18141
       dcb36314abb33abd7c39f356793cd00d3a726cb2cec80bb5393085272c6cf4c9
       9f0a22f69403c16fc7f35b2bceb97acd1ca85a3adac3fc1698c68d344401e898
       40a35547022a5695c985c5c2653c98ea1356626d10252fcc906d1fd0e2c63580".
Proof. vm_compute. reflexivity. Qed.
Example lib_ctrbit128_d_2047_inplace_2 :
  ctr_bits (hex "696637d00959a802749e75547640d8e0") (hex "6a502204675f1f829fee1086ffffffff") (hex
      "2fe7d88f80175d1e641bc98d8b0766543ea9761a96ae643f664e84d27b6ab55a
       48515c2242391260c81d5d0d1b24e672409922dea283e9a075951cbabce75950
       c36bcd9c00105b7bcf21ce1d42e0db6353d98d6a82323e86838339d14b8eff0c
       63ebbaa54fa07f8790441465a8147cd6b813167642db2a3a4e1cdf24cc673e04
       4f4c4176e0d7071dab13f549536ec93e5720546d547c2da870b903fadb1dcdf3
       e52e52a388750a1b244cffe241cebc48d9f8456ad235b764da4731048a54f5da
       e77c4e00079a06ac3b6768bbba27e8054cde9c81773be6273d84a017a500ce66
       c723ca661fbc8de13a8e77331756d5fa4db89a4eb1c4c20092311f654b99e306") 2047 (hex
      "2fe7d88f80175d1e641bc98d8b0766543ea9761a96ae643f664e84d27b6ab55a
       48515c2242391260c81d5d0d1b24e672409922dea283e9a075951cbabce75950
       c36bcd9c00105b7bcf21ce1d42e0db6353d98d6a82323e86838339d14b8eff0c
       63ebbaa54fa07f8790441465a8147cd6b813167642db2a3a4e1cdf24cc673e04
       4f4c4176e0d7071dab13f549536ec93e5720546d547c2da870b903fadb1dcdf3
       e52e52a388750a1b244cffe241cebc48d9f8456ad235b764da4731048a54f5da
       e77c4e00079a06ac3b6768bbba27e8054cde9c81773be6273d84a017a500ce66
       c723ca661fbc8de13a8e77331756d5fa4db89a4eb1c4c20092311f654b99e306")
  = hex
      "f9058dad660d53cc309f3031a2bb5cdc978cd096f3b240cc1ffb426bae269493
       e46e4ca41aa12dcbec26effe2bf99fb02ee7c5acbc9087ee6c320635eadece68
       7c6bfaf5346be4fa321b3c34fc06f3895d6f1eefeb77844b7443e853bc98d755
       c28ff41f628ca42fac43ee08557d9a58f67689f96b2ef6856fdc1d9ae1dd9635
       e9907cef1e495ed8327c6a4b4670c23b6eb8ac3dedc3ba05836b9f4e65128c31
       e396d20103ccba85c33792de9821671f82ef27035dc44abdeeb7699bd7ed121b
       2133c0721dd3ff23c39dcd07c6554837f1eff7832896de0d29e1acd8115a8d16
       94c83cab88b9921f7332f45e81bb25dcb0aeb473690bd338de98fce719692738".
Proof. vm_compute. reflexivity. Qed.
Example lib_ctrbit128_e_256_oop :
  ctr_bits (hex "7ca2cb6d204e47ad6c995283a8ebda60") (hex "fb863fc756e075d52abd005ea9c4bd18") (hex "d22ba2718934a9d04978b3942d66ed10c4d5bd63781c98ce74b3a9f1145e81b9") 256 (hex "69b0e0591587dd8ff2f0f58647374d1427e0cbf8b6cb3a12b34c3f7cc8950fe5")
  = hex "f7b5663ef88c4d86791800ee62d5a4136197e21bb68be0061a48a75ac273e72e".
Proof. vm_compute. reflexivity. Qed.
Example lib_cfb128_e_176 :
  cfb_enc (hex "d181f7fe73fe446335eaf2ee35139417") (hex "24bf8643f35c219ad1a18247e31cb45d") (hex
      "3b7fe5e07c64062800f37dae73674dba246a5860501ed7540053c056d6651ef0
       ed32b603e6bd4a405f106463ffde96135cec6dc146da0c471a0dd5a949a2ef26
       3ff8446f825030c55fc8f46de207cfc2a166e9e0f08d8c34b8140ceebb69739d
       c023a4de497c0ce9ed8c202b786a57484c41bdbdf9a74267a73d4d7b8eab641e
       2aa429133580e7cf7f8c3873e855ffc2736d238c313e172c578e17513d5e42cf
       9133e305bfde696269be8635604556c0")
  = hex
      "f6c220b88d22a0a7415647cfa936db6dc2fcdcc8791d6d4d2be3fca60c183388
       a6d02d291bfc99a19c1904ddbb7ead80e0870609fc3a2bffca33b30db571213e
       ac54975af8546538faef143f4761e846c924729601a4fa24e06a7b6407bd5b0d
       2bfdbf07a7ad048e0142b5f0406164552fd10382a8e9f1f9634619ce99ffd6e4
       3beee9ef6241fa5b75a5d95352c70ed88c7d4091e57718360a90b84f08e16130
       89d20b8ba939f0d9974f7dd24f2b2690".
Proof. vm_compute. reflexivity. Qed.
Example lib_cfb128_d_160 :
  cfb_dec (hex "16470eccb02e6ce51244f004a216cd42") (hex "159bdb381143dc1f740256fe8d6aedea") (hex
      "449f210b86b53df01cf829430c2e33ee4fa04e87c2344a7280ac2d4558cd04fe
       40090304bb818dfa3083793eef721ba8d1a66ea87e8bd5e364f8814eb037fb3a
       5732d5e1b4baa22367fd58fb0dd6210312a0bde1416e290e15aad761de81abf8
       48993eb14b0b752f28447200435df654f8fc8c523e08f7e14f375b2e00556115
       794780a7333f81c6011743d1162466960a64054c4da13b1595f587dac027a8e4")
  = hex
      "9a87418a84afce3ba2e8736fae4511800985594264097934cbec0e6ca514d571
       577ace6cc34c7e763b734172e4e2094eb329bbe2843f96b8335278a74c90ff71
       9410c158f519d496ca6110f42a229925fcadff99478cd0d919a0a2e9b5f4e0d4
       9fea7d0177ebcbd2d4e5f02f9d92d2aa4df5a05e997a959f095b2439834e4764
       4cdbabc4b04dfb172c0e8d86bf6e7f6bcd3dbdcd9a2d68385bd762b9209a8fb2".
Proof. vm_compute. reflexivity. Qed.
Example lib_cfb128_e_33_sse_nocheck :
  cfb_enc (hex "0706c665d6254b5e2ff6a386d8e5edae") (hex "2b1ac8b8d44fbe9d53612fa5d35b513a") (hex
      "5e228deb5ed6d4403d0e0a1b91cda0ebd1ffb467e70cf1377e6c7fbb28fe4c9a
       94")
  = hex
      "9dd7f0cb6f594ff11bd8efa79c1c961c4e757c0c63ee9d73b212f4a9bb36c376
       dd".
Proof. vm_compute. reflexivity. Qed.
Example lib_cfb128_d_161_sse_nocheck :
  cfb_dec (hex "9ec75feb0bb771605d0ab6c04bf8686e") (hex "a59bcf415a3d62d99421ec9e31faf8da") (hex
      "b6945f10aa3454dc1214c1726164866a7fefe6a4c1ca061b979076ef76b3d66f
       6afe792de31070657d2283c0d302ab3bbd33668a0aecae4b8d54c463c5751e17
       38d91392d1031a7f16d9c03790740ed2ae33b6557bdc0e8cb0bf6ad79523ff68
       d10cdfa02552553084fb012ffd8946854316506241a9db4c8e6582e26bae0d4e
       4d3fdd61cd6fdb8a414e33210d3589a65fee76a87db595245deecd573374ebb4
       8e")
  = hex
      "992862f8384919d5e7a2b996a8a75b01e7e3b5c778b0472f9e6d31d994e2f5db
       7df65cfe9da473b027440ccb8a2bda6eda9ee00dd24ed41005371c7fb10922d6
       0eed883073630432b4fe073f4d891d3902247e49d60213f0bf1526ea71177c62
       e3485d21430d95cec973bf2c78d25a3f8dce0044636a9a5c97c33f7a55cffdb6
       834d5f2b36d4d769de6fda80b227f9ca383cc9cbc50b6adfccee442531938e70
       d0".
Proof. vm_compute. reflexivity. Qed.
Example lib_cfb128_e_1_sse_nocheck :
  cfb_enc (hex "87bfd0172b5c515dfa13d34f832c1ca7") (hex "e44bb057d2effd82e3f86ba128864ad0") (hex "82")
  = hex "44".
Proof. vm_compute. reflexivity. Qed.
Example lib_cbcs128_e_336_inplace :
  cbcs_enc (hex "e753c8f12387d458a29503a80235f312") (hex "a74b409b199424da3b2fc67358c82735") (hex
      "e767ca882a9ce4b09bfac817abe6e48cc9a2d64c327eb1368714bdd670abe11d
       8e1e436b3bd323797e8e0e7b77e724b37d3f7f2a8a99dcbc0129d75277b2907f
       aa4bd7775f6d6bfff5ad132ea35ca2a507059c0baebceeff54cffb18827b7cc1
       e5240836b76aa0205618dca85d5779c7868dc5e935486f576c408d0dd34a4a5a
       d37e675580fb45df8158f934a77eca1e543151b64c2096f9a216c8ff0a66b98d
       e2678b920c664c1b010b30d2eb799bc4a80fc980e88b9c609d25a0acb2b098e0
       ae15360aaaa275a0c32c19a92ede096bc619eaeea7035edfd223c94f8fb542dc
       4d2f6b0851056e90a494efe90d7f91850ad31ec6cf6b93b2eb67721103ae6398
       97fef0a8fb2779c5698c1a15a47836e526a0036d0102afab1ffcf7db1637de1f
       21780446b8913e73bbbe2fec0c5dc6bfb6b1db25bac2154ba08eb57f75abeee3
       41e9f60db708020f03e2a6afd19e1463")
  = hex
      "967c62016f46b857a488809e8bf9f117c9a2d64c327eb1368714bdd670abe11d
       8e1e436b3bd323797e8e0e7b77e724b37d3f7f2a8a99dcbc0129d75277b2907f
       aa4bd7775f6d6bfff5ad132ea35ca2a507059c0baebceeff54cffb18827b7cc1
       e5240836b76aa0205618dca85d5779c7868dc5e935486f576c408d0dd34a4a5a
       d37e675580fb45df8158f934a77eca1e543151b64c2096f9a216c8ff0a66b98d
       73e717d42a8feeb15b0f8bb347642f66a80fc980e88b9c609d25a0acb2b098e0
       ae15360aaaa275a0c32c19a92ede096bc619eaeea7035edfd223c94f8fb542dc
       4d2f6b0851056e90a494efe90d7f91850ad31ec6cf6b93b2eb67721103ae6398
       97fef0a8fb2779c5698c1a15a47836e526a0036d0102afab1ffcf7db1637de1f
       21780446b8913e73bbbe2fec0c5dc6bfb6b1db25bac2154ba08eb57f75abeee3
       478acc29ca35550eb83be18b966afef7".
Proof. vm_compute. reflexivity. Qed.
Example lib_cbcs128_e_336_next_iv :
  cbcs_next_iv (hex "a74b409b199424da3b2fc67358c82735") (hex
      "967c62016f46b857a488809e8bf9f117c9a2d64c327eb1368714bdd670abe11d
       8e1e436b3bd323797e8e0e7b77e724b37d3f7f2a8a99dcbc0129d75277b2907f
       aa4bd7775f6d6bfff5ad132ea35ca2a507059c0baebceeff54cffb18827b7cc1
       e5240836b76aa0205618dca85d5779c7868dc5e935486f576c408d0dd34a4a5a
       d37e675580fb45df8158f934a77eca1e543151b64c2096f9a216c8ff0a66b98d
       73e717d42a8feeb15b0f8bb347642f66a80fc980e88b9c609d25a0acb2b098e0
       ae15360aaaa275a0c32c19a92ede096bc619eaeea7035edfd223c94f8fb542dc
       4d2f6b0851056e90a494efe90d7f91850ad31ec6cf6b93b2eb67721103ae6398
       97fef0a8fb2779c5698c1a15a47836e526a0036d0102afab1ffcf7db1637de1f
       21780446b8913e73bbbe2fec0c5dc6bfb6b1db25bac2154ba08eb57f75abeee3
       478acc29ca35550eb83be18b966afef7")
  = hex "478acc29ca35550eb83be18b966afef7".
Proof. vm_compute. reflexivity. Qed.
Example lib_cbcs128_d_336_inplace :
  cbcs_dec (hex "ade40377b7e931cc0928edd53813ef9e") (hex "dd5fe3bf23c772f518eded62d705a013") (hex
      "73f85652d23b7a1da05d245438bc0e2eb6738de32570de26446b693f27064592
       d64b55cd2a427d1b5174e77b1d27fa830ea1e5c9abec368f7ad5491e41c133f8
       5d6efd42ff3dec3c18634a6ae5290ed5b9fa4b24faa30471ce815782237100ca
       d5f186492f5c6f0ae9683746922e23d72e85c53ab62c329914d416e39bbb7ec2
       462c34239cabb5a0cf31954e330210b1bb8568d7b8ea0e84cf585548d7a3ddf2
       7e170368e9c37a22dfaa443f2f90d4fc5d0929b35f9398db015b85ee72f78412
       1e5bb63ed1d4dde952c7b6de6193c0e50f4adf1bf4bb7e72830687cd8922053e
       f716399e2e2a1a4f408ed1f4070418edb2bd314204d699a39376853db3711a59
       de18b72d0b451f777e9580c2471c1f1f67e2238a973adc3a25ab9276bf652af2
       d304f0a263b16b98d69a860965f8f00dc65c56663dd655b76fd7fb90cdfce952
       d066d88f0d538425f5aeef5a3fde6ca9")
  = hex
      "6a8f0983fa89a16cd9d6de981e7c8444b6738de32570de26446b693f27064592
       d64b55cd2a427d1b5174e77b1d27fa830ea1e5c9abec368f7ad5491e41c133f8
       5d6efd42ff3dec3c18634a6ae5290ed5b9fa4b24faa30471ce815782237100ca
       d5f186492f5c6f0ae9683746922e23d72e85c53ab62c329914d416e39bbb7ec2
       462c34239cabb5a0cf31954e330210b1bb8568d7b8ea0e84cf585548d7a3ddf2
       35f50fed7aee61cec6a1e4c1978e028f5d0929b35f9398db015b85ee72f78412
       1e5bb63ed1d4dde952c7b6de6193c0e50f4adf1bf4bb7e72830687cd8922053e
       f716399e2e2a1a4f408ed1f4070418edb2bd314204d699a39376853db3711a59
       de18b72d0b451f777e9580c2471c1f1f67e2238a973adc3a25ab9276bf652af2
       d304f0a263b16b98d69a860965f8f00dc65c56663dd655b76fd7fb90cdfce952
       b36b425e4e94428cf38210516060102b".
Proof. vm_compute. reflexivity. Qed.
Example lib_cbcs128_d_336_next_iv :
  cbcs_next_iv (hex "dd5fe3bf23c772f518eded62d705a013") (hex
      "73f85652d23b7a1da05d245438bc0e2eb6738de32570de26446b693f27064592
       d64b55cd2a427d1b5174e77b1d27fa830ea1e5c9abec368f7ad5491e41c133f8
       5d6efd42ff3dec3c18634a6ae5290ed5b9fa4b24faa30471ce815782237100ca
       d5f186492f5c6f0ae9683746922e23d72e85c53ab62c329914d416e39bbb7ec2
       462c34239cabb5a0cf31954e330210b1bb8568d7b8ea0e84cf585548d7a3ddf2
       7e170368e9c37a22dfaa443f2f90d4fc5d0929b35f9398db015b85ee72f78412
       1e5bb63ed1d4dde952c7b6de6193c0e50f4adf1bf4bb7e72830687cd8922053e
       f716399e2e2a1a4f408ed1f4070418edb2bd314204d699a39376853db3711a59
       de18b72d0b451f777e9580c2471c1f1f67e2238a973adc3a25ab9276bf652af2
       d304f0a263b16b98d69a860965f8f00dc65c56663dd655b76fd7fb90cdfce952
       d066d88f0d538425f5aeef5a3fde6ca9")
  = hex "d066d88f0d538425f5aeef5a3fde6ca9".
Proof. vm_compute. reflexivity. Qed.
Example lib_cbcs128_e_176_oop :
  cbcs_oop (cbcs_enc (hex "d181f7fe73fe446335eaf2ee35139417") (hex "24bf8643f35c219ad1a18247e31cb45d") (hex
      "3b7fe5e07c64062800f37dae73674dba246a5860501ed7540053c056d6651ef0
       ed32b603e6bd4a405f106463ffde96135cec6dc146da0c471a0dd5a949a2ef26
       3ff8446f825030c55fc8f46de207cfc2a166e9e0f08d8c34b8140ceebb69739d
       c023a4de497c0ce9ed8c202b786a57484c41bdbdf9a74267a73d4d7b8eab641e
       2aa429133580e7cf7f8c3873e855ffc2736d238c313e172c578e17513d5e42cf
       9133e305bfde696269be8635604556c0")) (hex
      "0f7f4793f75c20af8087a1cadcd9371745e53f6266a5726ef44fd9d0dff70520
       086cb5c3e5cd79f7967d001264eeededd387da77f8723fc81b39272685f8ae1b
       f1d3b8b3a5d8c3e575158dc60a00c8203b91eb09a5b74df620a04087a26fb2c3
       1c19124c86f19531634239ca990002894dff7547f550a5d6e23e79863c8c3f07
       f569b4a64e0e05317fe2aca56b14413aaa6cec5e3a7e08b256b76b5cae653201
       cc4abdd88111347ef8334fc4d1313b77")
  = hex
      "222f573e72db4c7718d364697f9e9c1d45e53f6266a5726ef44fd9d0dff70520
       086cb5c3e5cd79f7967d001264eeededd387da77f8723fc81b39272685f8ae1b
       f1d3b8b3a5d8c3e575158dc60a00c8203b91eb09a5b74df620a04087a26fb2c3
       1c19124c86f19531634239ca990002894dff7547f550a5d6e23e79863c8c3f07
       f569b4a64e0e05317fe2aca56b14413aaa6cec5e3a7e08b256b76b5cae653201
       b24dd02b59d1851a7195c90a6ff40232".
Proof. vm_compute. reflexivity. Qed.
Example lib_cbcs128_d_160_oop :
  cbcs_oop (cbcs_dec (hex "16470eccb02e6ce51244f004a216cd42") (hex "159bdb381143dc1f740256fe8d6aedea") (hex
      "449f210b86b53df01cf829430c2e33ee4fa04e87c2344a7280ac2d4558cd04fe
       40090304bb818dfa3083793eef721ba8d1a66ea87e8bd5e364f8814eb037fb3a
       5732d5e1b4baa22367fd58fb0dd6210312a0bde1416e290e15aad761de81abf8
       48993eb14b0b752f28447200435df654f8fc8c523e08f7e14f375b2e00556115
       794780a7333f81c6011743d1162466960a64054c4da13b1595f587dac027a8e4")) (hex
      "b7c8e19863c353b8fc7e2648b99ea4250bd3d5b7e483a06dbbb3cf8123e886c0
       8191d5d0cd04d3af95cce4b6aef4b1a43a15070a22a35cf51a60d5738e0ca004
       a088ae3e7d430074cc11bfee80e58917a88610bebc7940cf13d8433cbac1343b
       bda6f9757ed861137ae9af49c40b9da1a4321399255441a6beb14d9f9122037b
       0f7c44f8ac19b137ac7d4ab58449767777c41efee48c334ffa15ef79044a7513")
  = hex
      "dfe2adc4f6804c45354ae3f83575ee330bd3d5b7e483a06dbbb3cf8123e886c0
       8191d5d0cd04d3af95cce4b6aef4b1a43a15070a22a35cf51a60d5738e0ca004
       a088ae3e7d430074cc11bfee80e58917a88610bebc7940cf13d8433cbac1343b
       bda6f9757ed861137ae9af49c40b9da1a4321399255441a6beb14d9f9122037b
       0f7c44f8ac19b137ac7d4ab58449767777c41efee48c334ffa15ef79044a7513".
Proof. vm_compute. reflexivity. Qed.
Example lib_cbcs128_e_16_inplace :
  cbcs_enc (hex "09166f6b113d178d6c0fd3901ff239a1") (hex "a095f20f9395650cf9380b8edb224a6b") (hex "248a1e924e8fd0ae2e1a9492a3305f18")
  = hex "b7eafb21b97a531ac3bd2b4b15c026bf".
Proof. vm_compute. reflexivity. Qed.
Example lib_docsis128_e_0 :
  docsis_aes_enc (hex "9f8fe2767cc4a3e734013e34e75a61e1") (hex "1a1997e020f13370749295eba2afb4e9") []
  = [].
Proof. vm_compute. reflexivity. Qed.
Example lib_docsis128_d_0 :
  docsis_aes_dec (hex "70c21191b9b80ddc782b66a6acdcb6fd") (hex "3db7a678b1e1789b241ee87f996110b3") []
  = [].
Proof. vm_compute. reflexivity. Qed.
Example lib_docsis128_e_1 :
  docsis_aes_enc (hex "87bfd0172b5c515dfa13d34f832c1ca7") (hex "e44bb057d2effd82e3f86ba128864ad0") (hex "82")
  = hex "44".
Proof. vm_compute. reflexivity. Qed.
Example lib_docsis128_d_15 :
  docsis_aes_dec (hex "5931739f62050d38e36595c3f50b700d") (hex "9e3d3f390b28ee96da2c5001e6ddd074") (hex "4d6b9a40f5e37efaf3113ead63acb7")
  = hex "f49748c0588ad9c041b5ece754ec4e".
Proof. vm_compute. reflexivity. Qed.
Example lib_docsis128_e_16 :
  docsis_aes_enc (hex "5b612f01f8e14a658f5c1d5588df6255") (hex "67a610f61f6cd3e9598d3e6330774858") (hex "3c6f0847aa0657ce273db4211732458b")
  = hex "42cdcce654fd75682f11d4d9a159662b".
Proof. vm_compute. reflexivity. Qed.
Example lib_docsis128_d_17 :
  docsis_aes_dec (hex "b6ad0a670a9b296e32c14d2761bd0a8d") (hex "4fa1a3f12d90d63a917fb78541ec6fab") (hex "af9359ef001cd5c3c6a749e60ae0da959b")
  = hex "9886f0835a7392870451545d0f9db28ce6".
Proof. vm_compute. reflexivity. Qed.
Example lib_docsis128_e_161 :
  docsis_aes_enc (hex "1c26f9e90222e94d2680bc5a18c02b76") (hex "ae65176a56a4ebaab765e155fae50895") (hex
      "3c33caa0b003092281983b936eb21aba050cfde45110e01c1ef57cf822866d00
       2d39af8a25a2bc8b80fe1c875ad67ff5eb1359f837daf7f8e239bb1245b42d03
       434411f70b32820c68ca8ef35c440253b00aa7748b488c54b069fbfedfbeb744
       666c518a6b62f92663c262e168cd24e5ffa2013d9b80edfd41b19cba60fd3dd3
       32a91d16d79ec808e8b70c67b18e53afa5718cab5074f8930079bfa5da788257
       97")
  = hex
      "1240df3da26a2908a975f874d304c69d502e8592e5c142d3837179959d0e506c
       fb793e61fc68ae237163dc6dc1ed0668331da50ff425989cc5bfcef7a033fe8a
       1481f9187551e20795e35b04705a3ff0933fefa5eddeb44973997d3294a7a456
       623370f0d94f3737fa3ce467c71cbd9d7b275586343dab4306b979d3511ad466
       0f1caa8673457006d85551aafd9d1a8120c797fe134c747d7a6d44d473a05d1e
       da".
Proof. vm_compute. reflexivity. Qed.
Example lib_docsis128_d_255 :
  docsis_aes_dec (hex "0bff642cbf96a4fb47a0c33d4ac58b06") (hex "6b8cfa68a615cef3ada3617ef6f9b55c") (hex
      "b0e7475229d5937ed30ccb8858e4233384cee00f294ebd852bae4fe80d964cf8
       62c6f75cf6b12f454fe4f179329e52ed70671bae425c645162cbf678441c34ed
       e89f7380d668a328c7e4500b2647c18978a98fd9ab69c01346645cb7ea6587cf
       49d9a11f4273c5030a88d3b2914e5a9af05c43fb3ee211e08c18c09aadd469d5
       ceb61cee4e2aa52df7b9a2beb11ec66764d7f0cabed65766647fce5659dd2fb6
       df2488bc8569abede649223656ae10ec69118000da92aa3c936e673692ba46c9
       d8adc9dad6212638abd9c13d801fe548e608bef8d2eea661e04921a5b4e0b462
       9ce546b611c59a9ad382459b36e7394f185cad91f9e3cd145c05b384121fd6")
  = hex
      "3bf2b340f63f378eb43a5b59a48106ffbdf413592caa09dad27e3b5df93b69ff
       bd8c3c8ff69f72f0a3bd9bf530d77ef99cb55d0b3f4057311762f84612d58ef4
       8b5ac099f4e6196e781440b0a1938a209d1fdf90598d17ecd5f5b1e87e5542af
       8409d1486ffdba3fe2dbc9dde1851e3cd94fc65f2433834be9fa2b36a2d990e3
       81eb8c0f9e4e2c0437020d822e4ac9a63fc6b51f1ad0dd6ec5c32d546658c0c3
       38282e07a09cf635fbed94a29eca563c741a9b647e04766c4eb6fd5b88e11867
       4766981129834b46f7a1e4b05e12c66be98c522047df16084479f84b1f2a5a0f
       383946690445d007f43e5bb1e38735861938dada38015ac8c76ff0ef867e67".
Proof. vm_compute. reflexivity. Qed.
Example lib_docsis128_e_33 :
  docsis_aes_enc (hex "0706c665d6254b5e2ff6a386d8e5edae") (hex "2b1ac8b8d44fbe9d53612fa5d35b513a") (hex
      "5e228deb5ed6d4403d0e0a1b91cda0ebd1ffb467e70cf1377e6c7fbb28fe4c9a
       94")
  = hex
      "8da335643420ba5260079f01b4975aac2d9fe407ac2117e48f46b19ff3254084
       97".
Proof. vm_compute. reflexivity. Qed.
Example lib_ecb192_e_176 :
  ecb_enc (hex "039208a026b238bfc77159140b1d317687c2ef331bc108d1") (hex
      "dff44d079c49db2ce1e14c71466021cce0ce770e19f4776b87f4568566ac974b
       91ea742d49cd84ddf34519bf1f952aac553a3952a24255dc53fc0a64aabb680c
       758b90ac4b927f6350422a3b0ead85b7e7bb391e3c92d94cc516b913d12aaa84
       1dc5f6fce1a3faefc2ebfd51107de9245932c4a36fe4b73b25e0cc293cce0525
       27a1224b43a23c7f1aff88704f0dac809da96141cf2e9e413ad7adf4cc2c8981
       008908f898db38511c9f92373c930c64")
  = hex
      "98f8947a893e3862bc1b14f22241d8f0a0b5bb86cb87cd859b8759c010884859
       c41d943944f6cccb7ce3567ff660f507d86c8f4d8f6e139cf4b8811bc1f5eb5c
       55cde8f68ab44c76140324e8a577ee90b76b75eccba76865555c25902785b4e8
       ee92822c58a208d0aa277c33a204ec64b177623e89e8f9ccab37b072772c71aa
       8a8742f7840e351e23e370b6a91392e2d0018319734d086d193b6e1e380b875b
       9410d5f1903ccb53102ecbdf6d7042cc".
Proof. vm_compute. reflexivity. Qed.
Example lib_ecb192_d_336 :
  ecb_dec (hex "3c0f284edfd3777eed34881b7fd8c45585b036c22d695f28") (hex
      "a8ceebc8a0725e1fbd2774fcfae244a039a6bf12f19deaf4754082f74d74ec9e
       6404d4e07c816e88b67292400ffd09a4aed133b46bf2f21bade8447c5ecf7673
       526653fa753fd27ca1532dddde8fb18af53393764a3d0e00692a6a567fe10288
       b96802516f088f15d8f227fbd02964bdc4ef2fc8a385874f0fd85409eb3af2b2
       a4912aec075747536b89841ba4ced2a1932e17e103aa4a539cbaa73ba8e5e939
       df0dc1247c550188531a32480b8826ff3b3ba4d296add0b380da66e75423cd26
       603dfa6b5415c8afb02756049647b3725335061764b2fb9e20303900eb035a45
       1fd92e03994ce6e77302aa152627e073f9b5629e6e24bb2aeef14a1595a94e90
       1b02099cd59714155e05f71e2245db2093b32592ea5ed7390a26dd179035ebcc
       90a5f4234fd93116bbddff6becafa0a847d3ee7e0835f233fd6be759ae40dc97
       ea8b3ad99016750c5b49c490d1d9bae3")
  = hex
      "78387cee4e0819d3ef1f23c5904de363c91dceea2dd1565409f0178d5ee2c715
       033c31c22c5afd82571be44dc0bfb5b84f6cfc9752cc45b134736b046a4024fe
       b937e0768310601c97af9dd0993f2938aaa20d4d59110eeb8738eedd0f44d263
       6ab36407641d0b53a2f9121d0609c981807f30b6c4ab93490508e0d3137d1256
       610551c2e8c44e645a4cea63f0b1bbf9ef94669414f4914426347833da1943c3
       03c71b304cedc37155b1f2a37a7b83726b39c9c5c4e5e2f25bd76cf2785f3f06
       55d26e02ee5a8c1b4b4cdb588e8d7bd54dee2d85e3fdd13864293b94285bb25b
       81b09d995ce21912a1bb85b3331c4453443240aa294d193e8b6c063fd4a48dbb
       517d558036e60553e94135186a99844b158614520c33e8b4ba9eb5d41db204c0
       cca1695635e996eec37a70c09b300eaac47cc27e54ba10239bff2dc3108d0fb2
       1b0d3c386552f409ad5f883cccc0a817".
Proof. vm_compute. reflexivity. Qed.
Example lib_cbc192_e_160 :
  cbc_enc (hex "ac331f9ec78ed415aa4728bf1486cddeba933c7984728f6b") (hex "2cc29c74836c827b20d933c2728bada0") (hex
      "5bc0001f4cfc63541c19813d71bb78a155ed3a2ef231670b7cc18b1dcbfb7947
       be4417f2e39480e3a90b7877309637f93b034d88aebb7cee7d0246f10a10dce6
       1a64130a6d8cf577ecc5418e0552a03fdf31a47dafe417cacc35bd055177477a
       fba75e5f2437629908c8628969f16e9b9b084f266dcedb9c92ce587bab493737
       47ff0370ed993b7421288263862e666ba26e711a75e6e19463fed269e0a12cec")
  = hex
      "475b19aa1b6433ed607380d3b6e81862097e3ca299e0fa63e325bf944395924d
       0ba70dfdfe8f2aa58dd445d55a6ebac7a2240bd03ced4d00024591f6e0f6ebfe
       224741719f00e01e7c168b749db5bc85b981a6707e707cb655afc86231bccceb
       874c73fc8cbb513cf75473ac7e23545fd970212aa8259fd6db4a91c68e4a4f97
       3dc9dc43dd1bb111b7b0376f042aa47bce2b613069cebf89920f2bbf5f3fc14a".
Proof. vm_compute. reflexivity. Qed.
Example lib_cbc192_d_336 :
  cbc_dec (hex "3c0f284edfd3777eed34881b7fd8c45585b036c22d695f28") (hex "4d541f4e5b89fb4e2faf946f1360ab9a") (hex
      "a8ceebc8a0725e1fbd2774fcfae244a039a6bf12f19deaf4754082f74d74ec9e
       6404d4e07c816e88b67292400ffd09a4aed133b46bf2f21bade8447c5ecf7673
       526653fa753fd27ca1532dddde8fb18af53393764a3d0e00692a6a567fe10288
       b96802516f088f15d8f227fbd02964bdc4ef2fc8a385874f0fd85409eb3af2b2
       a4912aec075747536b89841ba4ced2a1932e17e103aa4a539cbaa73ba8e5e939
       df0dc1247c550188531a32480b8826ff3b3ba4d296add0b380da66e75423cd26
       603dfa6b5415c8afb02756049647b3725335061764b2fb9e20303900eb035a45
       1fd92e03994ce6e77302aa152627e073f9b5629e6e24bb2aeef14a1595a94e90
       1b02099cd59714155e05f71e2245db2093b32592ea5ed7390a26dd179035ebcc
       90a5f4234fd93116bbddff6becafa0a847d3ee7e0835f233fd6be759ae40dc97
       ea8b3ad99016750c5b49c490d1d9bae3")
  = hex
      "356c63a01581e29dc0b0b7aa832d48f961d325228da3084bb4d76371a40083b5
       3a9a8ed0ddc71776225b66ba8dcb59262b6828772e4d2b398201f94465bd2d5a
       17e6d3c2e8e292073a47d9acc7f05f4bf8c45eb72c2edc97266bc300d1cb63e9
       9f80f7712e200553cbd3784b79e8cb09391732e7aba31c5cddfac728c35476eb
       a5ea7e0a4b41c92b5594be6a1b8b494b4b054c7813a3d6174dbdfc287ed79162
       90e90cd14f478922c90b5598d29e6a4bb43408e1b8b0e37a08cd5eba73d719f9
       6ee9cad078f75ca8cb96bdbfdaaeb6f32dd3d7eeb7e81997d40e6d90be1c0129
       d2859b8e3850e28c818bbcb3d81f1e165beb6ea9b001ffd9f86eac2af2836dc8
       a8c8371e58c2be7907b07f0dff30cadb0e841dced9a4fca1e49b42ca3ff7dfe0
       5f124cc4dfb741d7c95cadd70b05e56654d9365d1b6321352022d2a8fc22af1a
       5cded2466d67063a50346f6562807480".
Proof. vm_compute. reflexivity. Qed.
Example lib_ctr192_e_1_iv12_7955b622 :
  ctr (hex "51524a53d77ab27ce449a03f9e8683b3eb8f5460a73db8dd") (hex "1889c94db41c447a7955b622") (hex "1b")
  = hex "24".
Proof. vm_compute. reflexivity. Qed.
Example lib_ctr192_d_33_iv12_7955b622 :
  ctr (hex "6c8d54e108a409fec058307382e90c8586071df64f7524ac") (hex "1889c94db41c447a7955b622") (hex
      "61b02418ab9c4073ae3239ac0b2434f4acedc23249cac4d9bebb589123db2447
       1c")
  = hex
      "c5d39feca5eadd337e8da239deafb4c13c42b8e8f252214bd1a20b9f9d8d8ba0
       c7".
Proof. vm_compute. reflexivity. Qed.
Example lib_ctr192_e_15_iv16_cdefeb74a9187b99 :
  ctr (hex "85e0bf53731f14dd056c06ce8d7829ef2a852bb0270ff489") (hex "a805aaf48f919713cdefeb74a9187b99") (hex "1d939191969aee058bddc98f9bf3b8")
  = hex "f1c651a06faf82ba1ce13b79938bb2".
Proof. vm_compute. reflexivity. Qed.
Example lib_ctr192_e_161_iv16_304f0fadffffffff :
  ctr (hex "a43b623cc9e6d3686f32ed3c88aa06cd653859a155033d23") (hex "93440afec8664d98304f0fadffffffff") (hex
      "ac6971adff2a1597cc743cd0218100363d144bf532e95ecf2e54803e7c822d69
       6fdb6bf60215ac414ac03fd152a21130f68fcc965a130c7ada45074f7c93d7df
       4e18c8e8e6cebd8dee9edbe02fbdcf13af2aee34f50e41a7388c1b131bf4b1eb
       54734d32b49710d7329ace9d7926d1dc6dda84cb5ace9fbe69e67b5a11fbe1f6
       e404386fd2d8f8784626e08ab10b113d8c8714e586bdf544f9b398526f8e07c1
       ac")
  = hex
      "ee644e8923d8269c5cac3be7e073e78d3e6a9d893a5cc51543c0e8c742283ee0
       7674dbc6c5da8c2a3a563e352241ca3522f9795b1d9c8aeb712721a4721d3c69
       afdff7702dafb4975af03a7bad321fc5f8fbca474d2b7341e6d2c2ded95e9422
       ca1279ca3d2b508f648b7fff70b678daa54a62e951591e06be686aea524217c3
       fce846a621a77da7e7735fdde1dedb70fabd6c5ffbbd835cd228d9c51cce4d9a
       9f".
Proof. vm_compute. reflexivity. Qed.
Example lib_ctr192_d_255_iv16_502c3532fffffffe :
  ctr (hex "0e680ca4d257a2c17d82034949c6433784a2ddb74dc5c562") (hex "5b50909148057fa1502c3532fffffffe") (hex
      "42ba640bd02272a87006dd72ab72a859dc47614d422edf97f50b03cd2f354c81
       c6ad0003f5478129f650bd29ba5e7875f0c981b6d9ef215c526b5f5bea7e4804
       c974ad41a5dcac732d4ea10a16ed666c939044784f7e72bfbcef57a06cddc972
       544028b2acd4d2753af6510c357bee133c79a228165059760af645fc370d59a3
       184169fa926149882bfa409a542b48999098585b14e6f121b2e8369abb1bb8f6
       d23a75009e33c80eb31e8d0adc0f89f01afef8f7f3046f2ca1b17db745abba3f
       1c333191ac2bb904464f98bca0262eb4d8543dc8e7ff20a845f88e0932101057
       3c6dc9b5eb59b07071408c7bc26049d434873a0b6878c301b33ad1e5717a92")
  = hex
      "3b0e83277efc49f38a6186e78e21c68c92744d246b05c91677f54691c1dffc5a
       421de062d15308f316e17574930a43277da5b656e52cb42cb8618e2f01b92d2e
       2f866981bb1a8aefb94bcbde762b41991c49119ffd34f9693f6d703f5238c0bb
       94fb98c1351fbacab9b64b9708d81f42c1e556626bd34a39625dee8171afa55f
       7f8df8cfdf7ec21d3e62e0deecbb6117ee35cfdd0c142c97f416e445ce69faa2
       3d70eb0787a313c5411219fa60addb14658984124ffce4f87941316de36b4e1a
       f77f636c980bb2af30e277a638d60809641c761e8bfe6c7b53f9b0e85fe5b78a
       b2c1169e6c08ae5e6fac565ca2fa7dfd2335bf71b18f6c5178fdccc828bd90".
Proof. vm_compute. reflexivity. Qed.
Example lib_ctr192_e_300_iv16_ffffffffffffffff :
  ctr (hex "1500ecc86cb9a69362f3c9129caab5d8a78cd1b242c54cf0") (hex "4fd0d1566704e363ffffffffffffffff") (hex
      "c05b4ea42ef99f5ecbcc810993b60a3ffc59191620516c955bafab804eedcff0
       b9ab1fa18c8cf01c888d07da319efc898cc736260b532b90a981b21972578884
       12d44c51285ac064da0e86e6ee7105b572c94c54cd5024051212fdf22262d4bd
       3e3d876decd0db08b228f75fa3ad49f02c48ee83ba45e72f4b12df5202d30712
       5eec35d81d0cd2f328404bd640206a950bb4bb315370e0235d7b1410fd9ffb72
       a2e6c8ea663810bd1beadb4bbf2d6426a8dbf70c616bb2470108b6459271cbfb
       acd354caf36d56f9276e6d28000cf31a97cfba56d686fa3d0943ea6433d41c49
       e6261bdbedeb436ea41f0a5b2bf03f7c8bb89bfcfbbbe1fbaeeb7fba623a1c92
       bcb01f86f0b88558cc56faf66522377e3b443ea77c333bf0eeccf79c5a40f36a
       43f4eccbdb963a9d7952e5ee")
  = hex
      "e24df155387b81a91444198a3cf4efe30fe1830b17b63e156017c49a0e12667c
       0278e87b2c7d83f605f79c5e2f3a69f895475fc090202d1439e66eff6df9fcc7
       edbc0bc470b39b9941041723918bbfcbb55f57462efa69058dbe1620303a63c1
       3da12776750cc7b400b45197a79bce56d12d69fe082c1ed7a7d4f350f20472ff
       3ba7db8d62684fb02a0e6c9837802d6c9a62bb06721615ea0a409c11ee1aee80
       3f214c276f5acb9bf7acf095a6b2ec07a0315cbd987f239221f4c15dc64d9c79
       0e028e662aed775f38e23287059b010d381993218eb8176219b671d67106538d
       e388eae7b11f5bc53b8cbd915a5d7f97d3e8316914128a66d46f97400bdbf5b9
       fa872c7a37b5267ed9e29276f4bd3f24b5b22457019605e1e20a179bd27240f2
       ca4f13276dfa8544fffb5415".
Proof. vm_compute. reflexivity. Qed.
Example lib_ctr192_d_160_iv16_41f75c3dfffffff9 :
  ctr (hex "113ec114d569b74cefdf92adce4a91f735a0a6d430c6e738") (hex "bc12e64a15afb03a41f75c3dfffffff9") (hex
      "3f02ca30b7d6e23e47aa5b00bcaa3d30e09e5a932b86d54dfdcc13a51387f7df
       2fa45a8f489af4c06dfdcedbc8383685d054ae43e9ea0ef5df511a8a32f89e57
       d2c9232400821851d7891ec5e757c49ad1c56dcdd25115abd2a5da2ff6a8f630
       8c89e45562ab5d3b3618127df6b63cfffb654a313f643edc95e4742a9a6ed486
       9f07659fe713d8767aab4659c6b519ec55ce1347d32087ecda07edd45187b4d0")
  = hex
      "a95fcefd0d1dcf03d3d652ef3390e4a57f2c963c9a2a4136a50d552145d5dd59
       057ccde06b721695c7be91bfb4fbb14a44efbd6db4c98c0918d18dad95a3ea1f
       6ef6187462311897e2317ab7d2554d990dc7e5d4f612065b541b4b2a1a5c7cfb
       8038170ba326fbc0bdde36754fae7451a71b108d23c7d834eaf0c0c1c737b189
       ed44566201883a40b0a272403ea3bbb2334cc4a50dafe9b908593f5a2d91eb04".
Proof. vm_compute. reflexivity. Qed.
Example lib_ctrbit192_e_3_oop :
  ctr_bits (hex "9ac6b560a1aeabad2b43dd7cda598f5664a44be64e7cddce") (hex "3c10c5bb84a62bd7a808c47715485254") (hex "72") 3 (hex "c7")
  = hex "87".
Proof. vm_compute. reflexivity. Qed.
Example lib_ctrbit192_d_133_inplace :
  ctr_bits (hex "85ade3b29f0d51d05574f33a2be4fd930d35d6f9ab2daec1") (hex "3c10c5bb84a62bd7a808c47715485254") (hex "c214d1ff199b95f004f11a5042d9e30352") 133 (hex "c214d1ff199b95f004f11a5042d9e30352")
  = hex "a33a638c3f7b5917229fc43dab855bb10a".
Proof. vm_compute. reflexivity. Qed.
Example lib_ctrbit192_e_1277_oop :
  ctr_bits (hex "c3f6034f82e72131eed833b0d6fb4dcb71ec413d8c134251") (hex "3c10c5bb84a62bd7a808c47715485254") (hex
      "34178786c0dad28f48c4cc65f7c8b971fe9e69c99cd1a4d621104e87914e7e01
       d5a4d9ff5fb605d6c4441309d6a19477e4ceb75732bcd40aaf1d592809751ba3
       229f1a87f021272717b3ec4e24c4e0787a361ad1755ec6d1f30a80ce1251a462
       8c289889051a19f6dc4550f2158c0ac77145e5c279508e39ab06e8951e2e8363
       5e07dd0358d86fde22051444accc8b9ac6b843e0ac3f5be172cbea15e2394561") 1277 (hex
      "608c5a7aad4f22192a792aca09595df827984719af160f7bcb278ddab1fc7bff
       98fde22226d1511bb383d5e86327d51b78491a490977935065b21855710f8ab4
       1f66154aa0a13a5dffeb5beccdacc86484032014507cd344af7dc208c52739aa
       5994d69f60f5e43f8a5201856d3800fab7def0a45c41911b3c625f9edb38a3b6
       76f52ef79fd7c421defdd743f425f97c39b55c1ea41c1adcaee6eb33a96318a6")
  = hex
      "1f84c180989fae5a51ecbbcb41df5fd39a02fda9e1b806fa668b95dfb611a8fd
       3acbc1912d0ac269e87875c423bc53f755419619be808a648ad3807d754f5233
       c2c7df208840137ddc08d9948a686718d4f56d5e1e9acb33afbd4a82d3050d0a
       38727cb9e811d3701b4f946bc4baf0615e01b47847fe8157a8188dfb210004a9
       49e8cb60c15211263f9d108ced6aadbff31ebd177d832f5f15ab548dfbbbeb56".
Proof. vm_compute. reflexivity. Qed.
Example lib_ctrbit192_e_1277_oop_2 :
  ctr_bits (hex "590ebba7505dac53e1525797866fd6953e6fbcf970e75a88") (hex "7c2492cc0e1605669e24ee4affffffff") (hex
      "e85ea40fc9d7494e018914221f515b7284d7fc66201f18ef940fab57fe12d624
       591eda7ead1e991fe1d591584b455d5de30360a86248cb21f4b7dcb161545b6f
       969319e6348798aa421cfe8c640025ef732225293367c8af094148c86cdb4516
       60ac80e1956557f9c1380f5acfc9875b4d9e00e55301393fddc991f97d8853d3
       5ba20f4d4952b1e6ef73d5a75927d7d35277f2189432c8f38c13c5e61b785a88") 1277 (hex
      "d74c9f5b6e3305f8a9562418e4f3a4171fa385a9a23b9fbe99c7746f7f6971c3
       c06ac694a9a72ae55abd5988d966d7544d470312f6c662438aca657696459354
       f83cf735c7e77a8035745f89eeec8c97038b2c8cdebdd4497a0fa8253b012d05
       aec5db9b7fdea6e77e13663bfcfbd41d2de6f2896a2cff50e663c3274b8f3dec
       576bdc931c274643e98bd385b5b58f0ce04a463992e30063ded6accc6250f33f")
  = hex
      "220e83d7f5f6105cab8ce6955be22aa030e15c89c7106ddd9a49359ecc8067ea
       aa76419ebf15889d848a48e18e5456b21ed88c2f4b3401ad5b8a77c993fa97e8
       31509ffa73706ee49379e94e4bc6169fcb2c2502358ee95db71472e7d71b4b54
       9cf43253e41aadc7fa67b6b92b79e83f3ebd3ea63a330d74a83037841a7fe5b1
       aa5852431636d2267f50ea12ea7d7fc472b5b741c8cdf6e73c6404d200f56457".
Proof. vm_compute. reflexivity. Qed.
Example lib_ctrbit192_e_1277_oop_3 :
  ctr_bits (hex "612ba210ef97efff2763bea038f32da1aa8c92070361a515") (hex "b5ff5ce3a1e602aafffffffffffffffe") (hex
      "29e2b91c87c085ec3da5c08e317c49e253492b6515b8df30cab15fd8cab3c58d
       a054d2f41deec215a14888c5765f8b4dced1b9c5d5873fdbb85999edba1d6591
       5e8d7e5e802f8010e9c5cf951bbce15770d3ad23269de39c29913c02aafed548
       4a2ab9f4a8c9b5f18389b19bbf7aad70da2dda015bcdb4d30d09cde626d84678
       a67f048e8219d4898c26aabca1de2e486dcb76e26203516ddfc6b6be66329d8e") 1277 (hex
      "bce5502bb10acf295d50cc787efdce5470652287883df923f52e53db4ba0b62b
       fb557e0ebaf96e05ff267cc1d2c3f47aacef97d459ce931dc50e24b41014a1bd
       a8dc498f99bed1f5daf0ab1937368c874ac114b652e7fbfe23a3b7be50a21dfb
       8c919223d2747e7614d48812b01dfc204038ad3cab615d70b6d4fd0e3db7baab
       ec0462c5657fe96214660d8a7b2686c3d9481c60be0549688b07dbb6d9697489")
  = hex
      "8ebf7cd106781fd6fa551b5d885a5b17905e5add004caf1cdf554071ed52d27b
       88c6e0aca46536a9fb4058d4389c166c3b744b429107d8655d79742f00462145
       6fde8339714f0f6ffe36392d677daeba92e8a94568129166bbd9ad55236f35ca
       04283993a0bcf74c394baeac6e41c52b77c5307d58dd84e1df3a654fb7503c41
       a1a29fdd42dc41778d0af1a4354d2eeb7810fdbfc84ed12e37d29fa02b24a561".
Proof. vm_compute. reflexivity. Qed.
Example lib_ctrbit192_e_1277_oop_4 :
  ctr_bits (hex "d2ed1559ee2164ed1718fa80477b4017ec242195a3865a7b") (hex "ffffffffffffffffffffffffffffffff") (hex
      "a576a455da49680692e717e49838501d537fa8edd874959ff4b7904b94260fc8
       e916c2c57867cf0a8cbfa4abedc8d5363a78f6d428ce8d64acf2a31b20775a8c
       376a961c01956b31fdd9af1d6242bda884d1571887ca21a308d268c2084383f7
       994cce2292af7c47df6a352e47a00d66334c4203e6bad7dfb52e89af79f47107
       5c6b72f45aad7f186fe2b4809f555d7279bd40088b8dbfe1a86b8d454a1b66a5") 1277 (hex
      "794b54e6458f0fc4fa52c7d9054e37932e8b37a7de4707038831e592a024d288
       f2940bdc2aa72b1c071cb6f3a9dbee3f975f83397f34409699d514103a6ee237
       14b7a6459b1c7922a8eb9b516d982e9513705a6d9f52256268db5e7d9b41d18b
       100db1f5009abc2daa5b09a749c848ea32cd10e45582f2169ad92e8511cca62a
       fa8f561fa8eec1b666f51e62dd10780ba5c51b5a0f766769f1aa19429f301e02")
  = hex
      "7eb2e327cc0f797633cd5cd7ce21905537892b63cf6ae31058bb2be4f5642afe
       793dfb3a32dd7de496963148a59f6bcc56b73052fd2aa59eaf123b4b593b7830
       8fb9fae24a8d24889ecae0e5e6bfd41f7abacac47d2c04bf7c8f538885b3a931
       2eb9bfc0f66be2c3949ebdcd29f1d5227de2a145364a2985ca3aebd6cd4dd7fc
       abed36eff85e1cc4450440e51a653af964d0e8a6ab1fc7d5aa027380c7397222".
Proof. vm_compute. reflexivity. Qed.
Example lib_ctrbit192_e_1277_oop_5 :
  ctr_bits (hex "ce3a726a36d3785e9ea8a1d86b119a3d5e6179d78d502b93") (hex "4f5bc7f429b9dcdfffffffffffffffff") (hex
      "4546f94b46f72eb6aa51a5898e727cd68c62db44f51c3fab2b30089e4755b07c
       a0687168ee24aeca4bb24f97a48370e3332bd8e16f91cad83451c82992c90f91
       beea0ba3071e7c1eabed4250b7255498369e9508fcd89240bc7e5e62c2842ff9
       5991aa8cc081cd3581f529a6b7a23caf4fd07a7fa85d376c46f5a2a3844bb691
       bfa2faa214f8dcfb5b16917766d36b65c9bd6685a577bc1a089fb83fb06efcec") 1277 (hex
      "25c9734c01ea9b752af0843d2d50641e1c8ca689f2921a034806e04e0ddbe077
       112785829d97be898b610a53d9a00fab5b5da3c48b29b9d572a7dd43da07ba06
       422ed6c60112292a7a8893675ea5dd74f07912cc4be2ae463f5a5a11b439a222
       05edbdc34f1912e66b07ee3d61a2209ea24afa7241e3a39c6f4e27548282555f
       13943b747ec3074c47a0461f635a381545f89fc59b427f27206a007856d04ecd")
  = hex
      "97b390728242ef3be91b6fe1425b2dcc5e931a565a7a861c0fe4d492b7583174
       1e8be2cde387ea2121160d1f320fa2fd9e5041e45438f1ffcdc2e8eb20e591d5
       f073bee3172ed2ab8b19b9b9c3e4ab2c026f90d62f5041b4237fb7227eb89a8e
       e7c6b58b7b77dddb4a35b3c297a7a73e75456abb3dcb2dc96b78940fbc9d921b
       bce0f2e6c1e9c584d221357d273d1f6d415f23dcc61673423bb26f907a6c580d".
Proof. vm_compute. reflexivity. Qed.
Example lib_ctrbit192_d_2047_inplace :
  ctr_bits (hex "9b2cfd518b56a608b0dd8763802f3798329bc94da7ca0bf6") (hex "3c10c5bb84a62bd7a808c47715485254") (hex
      "7874371fc2f9563837a2d003cd4ef347b671a2889cacbc76ccd8fb97b9fab518
       2da680d60f1b72317107c43b5f244829d9a0c334c51eddf64f75a9d40d1594a1
       8db09d45e2d1fde90478ff5b2d2817fa1d724ed179100b8edd66c86061fd05e7
       ab4534a2ba223472d738ea5dc05e43a1163aed4081be5058a958d00da1c8400f
       13e0c73cefa78f0f5e46a9fd26f0b53b49b78344f8f6f48061c369504cb2e24b
       fa7b12046873f3a19f191672a6d110df34f7e74baf4b9e542b277a3645f9d29c
       c1d09a97199a04d521448bb6c05585c90a48c75d1bac4369a9ff0e3712ad000f
       885b85bb7acef7073106ef11134d5ee69519e0d3a2ddb9366c1c304934f1cff7") 2047 (hex
      "7874371fc2f9563837a2d003cd4ef347b671a2889cacbc76ccd8fb97b9fab518
       2da680d60f1b72317107c43b5f244829d9a0c334c51eddf64f75a9d40d1594a1
       8db09d45e2d1fde90478ff5b2d2817fa1d724ed179100b8edd66c86061fd05e7
       ab4534a2ba223472d738ea5dc05e43a1163aed4081be5058a958d00da1c8400f
       13e0c73cefa78f0f5e46a9fd26f0b53b49b78344f8f6f48061c369504cb2e24b
       fa7b12046873f3a19f191672a6d110df34f7e74baf4b9e542b277a3645f9d29c
       c1d09a97199a04d521448bb6c05585c90a48c75d1bac4369a9ff0e3712ad000f
       885b85bb7acef7073106ef11134d5ee69519e0d3a2ddb9366c1c304934f1cff7")
  = hex
      "2a4ff1dad17a94e8d1fb0342983a29de3c4b20788581956da17a2536913f1dc6
       d992fd62ad45b6691c42f24f3cfb93b5f5771d2f370fbffdd29693810c51c929
       fee16016c021c1c9619f392f60937f2e4822d1932694257a39b41822225cd415
       82e9b8b0558c98c1921f7777f91b09451ece1a97bf56c0f3dc440bcde505f0d2
       e7b9380e008bc4640810b7076ff6a5a05360c2cce2df033677a39347bb0649c1
       c335f2d8f09a017e822ab120de266f0ce3ffa9f8d8066a1a50181a9abb3ed892
       752e0253f5d799286f6dbff2b554d0bc74708ae5fd36f807c56400ae8536da9b
       407c6984ac76882cf2e617f4569baf37554742d25d772b5f1d7de04ad1e204fb".
Proof. vm_compute. reflexivity. Qed.
Example lib_ctrbit192_d_2047_inplace_2 :
  ctr_bits (hex "41f74c8f844dd7c697d8cec0f17e7e89fb7cad6831ee784e") (hex "7c2492cc0e1605669e24ee4affffffff") (hex
      "e384cdde53061777583cfdabe9520f4d50df03c43bbbb064c90070cb5a18395c
       a56a66cc3e70ff673715e17a7f9c033fc6827a896ec743d5c263c4fcca2485a3
       1948b2a5c9a6d0f363549692df4c4335579e4c6d1cd4ade44f51f5858fdeb8de
       eccd8865ad457881ddcc87ae8e0a0f96454135baa4c2473f59645bd4afe41834
       1659cdaee8f1bab39d1dc6337e3b28351d4df4bdc57fbda08e4c2c7b821805ec
       fd948c4fb3fbd104ffd2d4c35fd93d3248e79f20c87709d9ddf873469a5e528d
       9b421fbf1ee4f20fe8973a7ff320a37245551d26240cf6a6e551f68d2546453f
       75dcf866aa22814e8c9bef419470241f49e387a651a407f7dd99758990ff0429") 2047 (hex
      "e384cdde53061777583cfdabe9520f4d50df03c43bbbb064c90070cb5a18395c
       a56a66cc3e70ff673715e17a7f9c033fc6827a896ec743d5c263c4fcca2485a3
       1948b2a5c9a6d0f363549692df4c4335579e4c6d1cd4ade44f51f5858fdeb8de
       eccd8865ad457881ddcc87ae8e0a0f96454135baa4c2473f59645bd4afe41834
       1659cdaee8f1bab39d1dc6337e3b28351d4df4bdc57fbda08e4c2c7b821805ec
       fd948c4fb3fbd104ffd2d4c35fd93d3248e79f20c87709d9ddf873469a5e528d
       9b421fbf1ee4f20fe8973a7ff320a37245551d26240cf6a6e551f68d2546453f
       75dcf866aa22814e8c9bef419470241f49e387a651a407f7dd99758990ff0429")
  = hex
      "407d5786914cd1f47ecae895a05a0d68ab18d5b24a3b13e46c39772f7092cb03
       c4040dc6cc96c94f06e171923c73e06921032baf1a7a53121d6619c3257dbc43
       f7efbbef4dc4110b906d30a785116b3020333d25842c0e75d1a3ae50f3b69c22
       d6f3e209b52c5a281091cc1ac59b0ed4a022edd921c33daed13890c5b2e9ab7e
       1e7675a22321f37eb44c8652d43268c2d3978848d5fcde3f804d8de5d0b513d8
       bb88a1165474e92069c7af363f787dfff936678c966f2aa981aa00445d18f8e3
       fd9b6a686b3835a6f485500f63984de01f4ea341fadc3361accb95318b523ff9
       3bb7924be5629a27fb72b0624a8ef338774c156192fcb935980ea3410d397907".
Proof. vm_compute. reflexivity. Qed.
Example lib_ctrbit192_e_256_oop :
  ctr_bits (hex "6824c63d6b34a284f6d6cbc892d2b851b5835aa80e0ea51e") (hex "3c10c5bb84a62bd7a808c47715485254") (hex "f0d9b7c93c23340f89485ba65414fa64558298500841c3dcf30916a914441104") 256 (hex "8f9cb0edb0003483c667b27585f098c07e6fce84018557e0380ae79a20216a2b")
  = hex "0865cda25dd376a063f0c1e5ed587991f3b0824523e078e1e476b7cc685a1eeb".
Proof. vm_compute. reflexivity. Qed.
Example lib_cfb192_e_176 :
  cfb_enc (hex "039208a026b238bfc77159140b1d317687c2ef331bc108d1") (hex "759ad5b2c6cf625e97adae392b8eee78") (hex
      "dff44d079c49db2ce1e14c71466021cce0ce770e19f4776b87f4568566ac974b
       91ea742d49cd84ddf34519bf1f952aac553a3952a24255dc53fc0a64aabb680c
       758b90ac4b927f6350422a3b0ead85b7e7bb391e3c92d94cc516b913d12aaa84
       1dc5f6fce1a3faefc2ebfd51107de9245932c4a36fe4b73b25e0cc293cce0525
       27a1224b43a23c7f1aff88704f0dac809da96141cf2e9e413ad7adf4cc2c8981
       008908f898db38511c9f92373c930c64")
  = hex
      "99b1e89f45152368fa83c73a62604f589868df1d42a0f13f870312b23cbb49fc
       7eae345dad19ff602cb0e462d75464e8c63cf71664f36e50a9ea6a76492c8271
       fa2349a903ae7a6ceeaa2c2c83c07ae42c19ecdd2b2f80f5f0dbe3c96ad18e7b
       3bdc7fd1fefee1ccae3924a6b3b85eb62b7befcd204c23d5a800f2e9283e0f40
       6a8c63b5c21faf9074cfc3ba95902a059e1edb6ae183028037086c7c8f563991
       2a90ece18d07801fa4816eabb54e45cb".
Proof. vm_compute. reflexivity. Qed.
Example lib_cfb192_d_160 :
  cfb_dec (hex "ad6869632ef03ed76f57b21e85af3ce9630dfb5faa447dc2") (hex "8070f7e5072d25a896a0901e51ccf653") (hex
      "75274506670182b1e1da000f230411d44b55460ae94b67354c3d8a94635be325
       27b295676d679ee1c099826d76fcf9fad64c82f17490e2feecc0dd85a5ceae34
       c3ae9b310602f4f8c6a7cbbf23c688e9ecc96ba1a7bab6e8c0fefd1306945ff4
       21fcb91f4ecc87d93fd1bb3bddacb21a1af934e8c5ff8b58128ba8cf03369f76
       a43987be25a32be07b280cdd5bfa4c250f0955cc72a52ba5d9c82e06f4307d8a")
  = hex
      "6aa20d5acbf890d319874380322785c78b8ca7a8ad18771c1829eab92e89c609
       07a24c0bb705ef4780c7a27940e40a410f7f95a5422ff641d94d52c0c91f030e
       a79e170cd363dd46cd40490a5506911d7daad0fbc9fbb0ef2526f82ba931228c
       92bff89fefa94a25a754cb34ec361bbdc7c95595eeec68a28122c2e268ffb3e4
       aae9727a62ae9f15e4363c94d922f40b19f3c9db09613b7679cdfb4e4a7a79ac".
Proof. vm_compute. reflexivity. Qed.
Example lib_cfb192_e_33_sse_nocheck :
  cfb_enc (hex "d87a343dc2719e0535d88683e62769fdd7b00c093fdcd1e2") (hex "b3664468516e81c1cf907f6f5ebe0698") (hex
      "825d22c9ce86ebd79e7baae917724233af70cb9e21835aa99dd9b77c8e3e5f5a
       86")
  = hex
      "c64c8b5885ba33fd793d34229d00dcc1c98bd848b4953dc58b608404512ee0b8
       05".
Proof. vm_compute. reflexivity. Qed.
Example lib_cfb192_d_161_sse_nocheck :
  cfb_dec (hex "06a736b366e05ba29538856a34182f0301bc2e86c8748d38") (hex "c0ad9b1cecf9e74bf08fe1989183b405") (hex
      "d50361561cc3208069c043bd9d70d7000cf2b638cb9ccac83286536c0d6ca947
       d71ef337bbaed9a4444d19b452686d52fe9e9a140bf1eeb8b48a41832c78f38f
       21557e8df25f6d72fde198c87c2b16420e38b6f00c005dbe50ca6d4b172efc97
       900ed002036ba1b25eb16432c1b2d3903eae8fb990ba8a2e7fe38fcdb1cf8d6c
       d220813ab387045561bfdcb67b9d65522b6d1ac330ac76131576d871286967d3
       4c")
  = hex
      "e74834241a9d50772565e6b72a769899ee8d0c2d80594f9a1095c5599df2f774
       b42c7453dc48b0fdb17946f2a226e369792466853c6ec0c8a5fb3666a4e8979c
       8766dde883cca74699d5f76066a321f5543c69e53aeece680edc1919744c1cdf
       82fe254eebcc91d88a830e4029fdf4c92cc37aac2ed6f485fa2c61663a08e643
       4dbebd50d34e98848528c6bafabb0f5bd4f290f2e3a1053263b44fd4bd0bcf7d
       e9".
Proof. vm_compute. reflexivity. Qed.
Example lib_cfb192_e_1_sse_nocheck :
  cfb_enc (hex "daa8c46bb71b38ed63d16097553c3a1290440de43a338fc4") (hex "a1e99a9c71a2be1fe5a7f3bda34ec737") (hex "45")
  = hex "75".
Proof. vm_compute. reflexivity. Qed.
Example lib_cbcs192_e_336_inplace :
  cbcs_enc_lib (hex "9c6555098ac1cb79efb85a23fce4b268ea8f02ba8bcf943d") (hex "0582f4ae3c471e99098fb5132cf79088") (hex
      "ab5fe91f69dc5cc8c674dcaf5e7f78a1494617ff849b04e496e6c3b773855007
       41766c1c7c5afd096880dfbf7f5884e98b22c5d9a05bf234804aa39958b7aee1
       55fb9621655365a1d3da29842fd431bcf8f782431b062dff7cc95f075bdef278
       0579c760d8d350568ab598022dfc80989d16e249dd0a9320c3993c9f24e893fa
       761e74452ae92027e4f8c58851a79fc3db0fb65eb94ad48f1313435840162cae
       bc62fcb592f67aa8513e5504b391ba96b11987952f2e18d6023ceb5964bdfb90
       316f3e3b612b5e0850460638c473e4a8724e384d7fc4f728e56be4c766aa4ea2
       a64099aba0dae7b06c837335ab157e27c75a6b6475a178bdd4cc8395384ba41a
       5080ec55436e800281dd727eac219dd52ba72544b499f32e43f26c3cefe023ff
       8bcf47aa3dd1a4a7cf8674b7d4d5cf48ee9b061752a5be6bded238431fe370e4
       b1a28267d2ecda58546cf5534765cc36")
  = hex
      "d4e89dad0c278e45efd6a179ac7e9924494617ff849b04e496e6c3b773855007
       41766c1c7c5afd096880dfbf7f5884e98b22c5d9a05bf234804aa39958b7aee1
       55fb9621655365a1d3da29842fd431bcf8f782431b062dff7cc95f075bdef278
       0579c760d8d350568ab598022dfc80989d16e249dd0a9320c3993c9f24e893fa
       761e74452ae92027e4f8c58851a79fc3db0fb65eb94ad48f1313435840162cae
       67cf25a1cf01c1ab2a88724cc73c5d64b11987952f2e18d6023ceb5964bdfb90
       316f3e3b612b5e0850460638c473e4a8724e384d7fc4f728e56be4c766aa4ea2
       a64099aba0dae7b06c837335ab157e27c75a6b6475a178bdd4cc8395384ba41a
       5080ec55436e800281dd727eac219dd52ba72544b499f32e43f26c3cefe023ff
       8bcf47aa3dd1a4a7cf8674b7d4d5cf48ee9b061752a5be6bded238431fe370e4
       6d29f5c6717cef0c3c77ad03d6e72814".
Proof. vm_compute. reflexivity. Qed.
Example lib_cbcs192_e_336_next_iv :
  cbcs_next_iv (hex "0582f4ae3c471e99098fb5132cf79088") (hex
      "d4e89dad0c278e45efd6a179ac7e9924494617ff849b04e496e6c3b773855007
       41766c1c7c5afd096880dfbf7f5884e98b22c5d9a05bf234804aa39958b7aee1
       55fb9621655365a1d3da29842fd431bcf8f782431b062dff7cc95f075bdef278
       0579c760d8d350568ab598022dfc80989d16e249dd0a9320c3993c9f24e893fa
       761e74452ae92027e4f8c58851a79fc3db0fb65eb94ad48f1313435840162cae
       67cf25a1cf01c1ab2a88724cc73c5d64b11987952f2e18d6023ceb5964bdfb90
       316f3e3b612b5e0850460638c473e4a8724e384d7fc4f728e56be4c766aa4ea2
       a64099aba0dae7b06c837335ab157e27c75a6b6475a178bdd4cc8395384ba41a
       5080ec55436e800281dd727eac219dd52ba72544b499f32e43f26c3cefe023ff
       8bcf47aa3dd1a4a7cf8674b7d4d5cf48ee9b061752a5be6bded238431fe370e4
       6d29f5c6717cef0c3c77ad03d6e72814")
  = hex "6d29f5c6717cef0c3c77ad03d6e72814".
Proof. vm_compute. reflexivity. Qed.
Example lib_cbcs192_d_336_inplace :
  cbcs_dec_lib (hex "3c0f284edfd3777eed34881b7fd8c45585b036c22d695f28") (hex "4d541f4e5b89fb4e2faf946f1360ab9a") (hex
      "a8ceebc8a0725e1fbd2774fcfae244a039a6bf12f19deaf4754082f74d74ec9e
       6404d4e07c816e88b67292400ffd09a4aed133b46bf2f21bade8447c5ecf7673
       526653fa753fd27ca1532dddde8fb18af53393764a3d0e00692a6a567fe10288
       b96802516f088f15d8f227fbd02964bdc4ef2fc8a385874f0fd85409eb3af2b2
       a4912aec075747536b89841ba4ced2a1932e17e103aa4a539cbaa73ba8e5e939
       df0dc1247c550188531a32480b8826ff3b3ba4d296add0b380da66e75423cd26
       603dfa6b5415c8afb02756049647b3725335061764b2fb9e20303900eb035a45
       1fd92e03994ce6e77302aa152627e073f9b5629e6e24bb2aeef14a1595a94e90
       1b02099cd59714155e05f71e2245db2093b32592ea5ed7390a26dd179035ebcc
       90a5f4234fd93116bbddff6becafa0a847d3ee7e0835f233fd6be759ae40dc97
       ea8b3ad99016750c5b49c490d1d9bae3")
  = hex
      "b6030c3eb236c06df817393078d74e7b39a6bf12f19deaf4754082f74d74ec9e
       6404d4e07c816e88b67292400ffd09a4aed133b46bf2f21bade8447c5ecf7673
       526653fa753fd27ca1532dddde8fb18af53393764a3d0e00692a6a567fe10288
       b96802516f088f15d8f227fbd02964bdc4ef2fc8a385874f0fd85409eb3af2b2
       a4912aec075747536b89841ba4ced2a1932e17e103aa4a539cbaa73ba8e5e939
       e42c16b6d1203fed6b01ce2e59778e173b3ba4d296add0b380da66e75423cd26
       603dfa6b5415c8afb02756049647b3725335061764b2fb9e20303900eb035a45
       1fd92e03994ce6e77302aa152627e073f9b5629e6e24bb2aeef14a1595a94e90
       1b02099cd59714155e05f71e2245db2093b32592ea5ed7390a26dd179035ebcc
       90a5f4234fd93116bbddff6becafa0a847d3ee7e0835f233fd6be759ae40dc97
       d27432c05097e8f0cb78ed3e09078423".
Proof. vm_compute. reflexivity. Qed.
Example lib_cbcs192_d_336_next_iv :
  cbcs_next_iv (hex "4d541f4e5b89fb4e2faf946f1360ab9a") (hex
      "a8ceebc8a0725e1fbd2774fcfae244a039a6bf12f19deaf4754082f74d74ec9e
       6404d4e07c816e88b67292400ffd09a4aed133b46bf2f21bade8447c5ecf7673
       526653fa753fd27ca1532dddde8fb18af53393764a3d0e00692a6a567fe10288
       b96802516f088f15d8f227fbd02964bdc4ef2fc8a385874f0fd85409eb3af2b2
       a4912aec075747536b89841ba4ced2a1932e17e103aa4a539cbaa73ba8e5e939
       df0dc1247c550188531a32480b8826ff3b3ba4d296add0b380da66e75423cd26
       603dfa6b5415c8afb02756049647b3725335061764b2fb9e20303900eb035a45
       1fd92e03994ce6e77302aa152627e073f9b5629e6e24bb2aeef14a1595a94e90
       1b02099cd59714155e05f71e2245db2093b32592ea5ed7390a26dd179035ebcc
       90a5f4234fd93116bbddff6becafa0a847d3ee7e0835f233fd6be759ae40dc97
       ea8b3ad99016750c5b49c490d1d9bae3")
  = hex "ea8b3ad99016750c5b49c490d1d9bae3".
Proof. vm_compute. reflexivity. Qed.
Example lib_cbcs192_e_176_oop :
  cbcs_oop (cbcs_enc_lib (hex "039208a026b238bfc77159140b1d317687c2ef331bc108d1") (hex "759ad5b2c6cf625e97adae392b8eee78") (hex
      "dff44d079c49db2ce1e14c71466021cce0ce770e19f4776b87f4568566ac974b
       91ea742d49cd84ddf34519bf1f952aac553a3952a24255dc53fc0a64aabb680c
       758b90ac4b927f6350422a3b0ead85b7e7bb391e3c92d94cc516b913d12aaa84
       1dc5f6fce1a3faefc2ebfd51107de9245932c4a36fe4b73b25e0cc293cce0525
       27a1224b43a23c7f1aff88704f0dac809da96141cf2e9e413ad7adf4cc2c8981
       008908f898db38511c9f92373c930c64")) (hex
      "48912a7b4fcabb9316fe68a367f887e6c7b4d0eb88aa37288e9a94b326cae25e
       e393704a81066109c2a5714d39320741a464175efb9f8c75c74c9f66cdfeaeb1
       c475c469db191177bec976a9db50697e65d6bb53346abe7ea37970593a90b724
       114394d2e70a46e571d116de94861cb5a8042231922a7ef16ab3b12a859afabe
       aec7779ae2502ecee583f2f30c62a805e33520948a52c966c16b7389df1caa4d
       9068692ccd094cb1437db4231102318f")
  = hex
      "ade6b884eb6b713c02c1e6b1ca91f9b6c7b4d0eb88aa37288e9a94b326cae25e
       e393704a81066109c2a5714d39320741a464175efb9f8c75c74c9f66cdfeaeb1
       c475c469db191177bec976a9db50697e65d6bb53346abe7ea37970593a90b724
       114394d2e70a46e571d116de94861cb5a8042231922a7ef16ab3b12a859afabe
       aec7779ae2502ecee583f2f30c62a805e33520948a52c966c16b7389df1caa4d
       97f4e8fdd1e029a2c8f4beec22fa36da".
Proof. vm_compute. reflexivity. Qed.
Example lib_cbcs192_d_160_oop :
  cbcs_oop (cbcs_dec_lib (hex "ad6869632ef03ed76f57b21e85af3ce9630dfb5faa447dc2") (hex "8070f7e5072d25a896a0901e51ccf653") (hex
      "75274506670182b1e1da000f230411d44b55460ae94b67354c3d8a94635be325
       27b295676d679ee1c099826d76fcf9fad64c82f17490e2feecc0dd85a5ceae34
       c3ae9b310602f4f8c6a7cbbf23c688e9ecc96ba1a7bab6e8c0fefd1306945ff4
       21fcb91f4ecc87d93fd1bb3bddacb21a1af934e8c5ff8b58128ba8cf03369f76
       a43987be25a32be07b280cdd5bfa4c250f0955cc72a52ba5d9c82e06f4307d8a")) (hex
      "bbb82ef1242bf1df076d17f9a2bbe0a38adb3d61b6977f3538e204a8e4bc84f0
       84239f74a0baf417a320074064712816d8aa190a5c9d681431e39c62191f402f
       ca3c6e312f1e05c70afe40da1abb44ffeccc0c074e2f4706e03bc67e2014b5fb
       cd0877221770d11c3ff042947fbb0fe64c0137250e2c1ebaee447119b926bae7
       3415203d664b7c1341392b83ca247c1782d51e88ea3d9465e00ce532b5ff3a0f")
  = hex
      "b7502339040c4c4a4258e98f2833d22b8adb3d61b6977f3538e204a8e4bc84f0
       84239f74a0baf417a320074064712816d8aa190a5c9d681431e39c62191f402f
       ca3c6e312f1e05c70afe40da1abb44ffeccc0c074e2f4706e03bc67e2014b5fb
       cd0877221770d11c3ff042947fbb0fe64c0137250e2c1ebaee447119b926bae7
       3415203d664b7c1341392b83ca247c1782d51e88ea3d9465e00ce532b5ff3a0f".
Proof. vm_compute. reflexivity. Qed.
Example lib_cbcs192_e_16_inplace :
  cbcs_enc_lib (hex "71a67b55dc44516882f67c49a37c734dc4219834c830bfd7") (hex "635a11575f60e400bc4edcecaa9185c9") (hex "ade196d1d4d122589863e898624868c7")
  = hex "88d6580cce69631c63551b33786a248d".
Proof. vm_compute. reflexivity. Qed.
Example lib_ecb256_e_176 :
  ecb_enc (hex "8a3506f0bdc19714003f8d7349c7bed5796949dbb3aa07c22d16b7c3d499bcb3") (hex
      "8dfeff443fa72d2cdd214f72073c95766133a86e5b1ecb0961660fe6d50a82aa
       f4862af18a2a57ce320bd43290f7a931bf4848159533f4dae1d4a61b769751f3
       44aa57f695f02d4402905f00249792f97018d59ea24d21a8c491c37308deee7f
       7a0359181419ef316308588f03507007153c373453d2cd166bc5118a20d58419
       e9de4f0f0a9b952ae9df25e99a9d699dfa6d6708da46c7f29810306b7e4080c9
       fb9e063e9ee7e8f7847ad6bede5fa8a3")
  = hex
      "8f89f277428bb741b7bc7da47b8b9677f4628431bb7015dfd4b5182a1a1584f5
       2ef1624dc2fc2130bcca3132b96f58ac58a13de3bb940c3489138d014726b346
       2a6ed800d70d52462d42a77dae526a16b02867c5fe0bb4dc3add95276e8d6e5a
       03a23887050056df3e5bf0661aa6988cb37ece8ed66e01089864f60d967091e0
       ce2af23ff192cc592ac3aafb5e158caff2fb61f7c999cc025cb8e386bc15069f
       a9f6aec8dac7557ad38425a8766954e3".
Proof. vm_compute. reflexivity. Qed.
Example lib_ecb256_d_336 :
  ecb_dec (hex "7de7c62ce5e1d80f85020bbc9c6945d1de98f0c92a2083cee7145a12a0e00944") (hex
      "613689ab3a75fd585c2f5774816431d813f1f8351de08adfd905acd0d355b4da
       2bc9ec27da16082f44d2db81730afc23ddf9b93b994f479e8e61e0018155d1c2
       931ece0e331477d6acfde72d2999e6b49bfeda855d3db99edb3db345fb6d2000
       d46dc64ab07815420324a9a3ec420ef3d7b290dc0562e7b5ffcd8635a0dc09df
       28ec2b5340989cc9fa3e98efac6a24f9e543000ef67d0bcbf1f3f116f3bd45c7
       519f65fa991c2fc82aa479d423d9e0b56b6a3c21ea1b6f0e38e78dd235887d86
       761681238fda3e37446167ece31821dfbbb6505e09c061b1d7b72df3a2ade374
       1924b62b56d87618b1db055adb83df691c28aac3429ecce776833f60ea5bb589
       3f10dc7d53230f1b6381561db3d97cd86ec49c6b1907862b6875686448720381
       c88794b3a5b70af0edbc68115fcf51690c82393e789d082184c20eac2fd46f96
       18f9af562e790b894efe80b3ca5e49b9")
  = hex
      "32c7675bb85eef7a1cbcda9932151279d871b8bf5208e6789bc23344a934f80d
       3aa8494d149327fc3ac1d3c5aa247af67ea0771b68540e275e443fdb7ed6ec34
       60f3ec6120aa4d5bfc2326bd48687df3601bfcfbb51dd5aada54a91788019cf6
       543e56dd61028677e259f593a634d20f23512218041eb3a955cbe44c86eb3a0d
       1c3ec03c47f399f7d75322d584b03cd6406517a1d8a983710ad4e1e0b673ff1a
       a13cf73d087cf0c0295f10dc746f4f4689d2e175ed4622d13325d7b6ac809573
       2bb1254d48072c867c0b2a60e8b663ccd29775b6f5c083ee4f004c80a7923aad
       cae9186ab7da8f256ff636dcff58b4ee2613e30223ba64d331f57ce89948fccd
       d6b849a70e6e023467e113ff7e5fb9fa39a628413f91266d9bfe3501bf6eef98
       ba4edd9d07efb8c2f53404341a8c9f75b69fe6b90b243a4a026610dd8d43e076
       58bc518094be124de80dd0eef63c301c".
Proof. vm_compute. reflexivity. Qed.
Example lib_cbc256_e_160 :
  cbc_enc (hex "61a303dffd85c77377609bad16cc0965d46fdf1f8fb15f4659300c3ab9579d26") (hex "d167aa0b311ed7a9ba6d83ece0ae88eb") (hex
      "3fdac9c709dbab981afd33dbfba51bae6a9384bc3b8d250272d7ddd4c6ff33c4
       d8d890175ee0b4be5d04683d5a373ed0f53cbaba3d0a92aa865042220fd4cbe3
       bee983d0a623697c865d63fa0689110e8efa1f864d7553059afa6c4a402fe90f
       facc6888d0358980047a0da1e9d6268de4cce1a48d114680aa3162930110437d
       3d22c3ccee2d02332b1e04f541c71003c0b00520a3bbdb3b3bd560d31fc9386f")
  = hex
      "f3b767191a504e41cb7da5d6169bde43e61861cee3bafc1977ad3624a76fd8b5
       6382c03d2bec6db1adecb2b7a22c58037c19f3244f2acb39fd1dc5cee1483177
       ca3b517e56982278ebd1c15894fab9bc31568ac169cc897ffe3ae6f912e81b0c
       6f5dfe37a1aff4c5af8f5458e9291eb25218c63908e4245c21409821e0715b41
       7350e21682d34ee147ac102c655320f6cad79a5c66914088b9a09f9d9297c8a9".
Proof. vm_compute. reflexivity. Qed.
Example lib_cbc256_d_336 :
  cbc_dec (hex "7de7c62ce5e1d80f85020bbc9c6945d1de98f0c92a2083cee7145a12a0e00944") (hex "1e6647ffb2c0927f52bcb66af59d5024") (hex
      "613689ab3a75fd585c2f5774816431d813f1f8351de08adfd905acd0d355b4da
       2bc9ec27da16082f44d2db81730afc23ddf9b93b994f479e8e61e0018155d1c2
       931ece0e331477d6acfde72d2999e6b49bfeda855d3db99edb3db345fb6d2000
       d46dc64ab07815420324a9a3ec420ef3d7b290dc0562e7b5ffcd8635a0dc09df
       28ec2b5340989cc9fa3e98efac6a24f9e543000ef67d0bcbf1f3f116f3bd45c7
       519f65fa991c2fc82aa479d423d9e0b56b6a3c21ea1b6f0e38e78dd235887d86
       761681238fda3e37446167ece31821dfbbb6505e09c061b1d7b72df3a2ade374
       1924b62b56d87618b1db055adb83df691c28aac3429ecce776833f60ea5bb589
       3f10dc7d53230f1b6381561db3d97cd86ec49c6b1907862b6875686448720381
       c88794b3a5b70af0edbc68115fcf51690c82393e789d082184c20eac2fd46f96
       18f9af562e790b894efe80b3ca5e49b9")
  = hex
      "2ca120a40a9e7d054e006cf3c788425db9473114687d1b20c7ed64302850c9d5
       2959b1780973ad23e3c47f157971ce2c55699b3cb24206081a96e45a0ddc1017
       bd0a555ab9e50ac57242c6bcc93dac31f30532f58609a27c76a94e3aa1987a42
       cfc08c583c3f3fe9396446d65d59f20ff73ce452b466a6eb56ef4def6aa934fe
       cb8c50e042917e42289ea4e0246c350968893cf298311fb8f0ea790f1a19dbe3
       447ff733fe01fb0bd8ace1ca87d20a81d84d848f745a0d191981ae628f5975c6
       40db196ca21c438844eca7b2dd3e1e4aa481f4957a1abdd90b612b6c448a1b72
       715f4834be1aee94b8411b2f5df5579a3f375529756212cb802e79b242cb23a4
       ca90e3644cf0ced311622c9f94040c7306b6f43c6cb22976f87f631c0cb79340
       d48a41f61ee83ee99d416c5052fe9cf47e18720aae9330baefda78ccd28cb11f
       543e68beec231a6c6ccfde42d9e85f8a".
Proof. vm_compute. reflexivity. Qed.
Example lib_ctr256_e_1_iv12_55149c78 :
  ctr (hex "0aa1715ebec65474332e47a2018cf5bb87b67385314ad05cd7e83722a9dfcdbf") (hex "fbba57ac882bf5c755149c78") (hex "d4")
  = hex "95".
Proof. vm_compute. reflexivity. Qed.
Example lib_ctr256_d_33_iv12_55149c78 :
  ctr (hex "79446c7dcf317fa8aa5ea1619326224b358be7c858607b903d9dbb784aa0cd14") (hex "fbba57ac882bf5c755149c78") (hex
      "4b1a0eded30886c97807102613d20c195e921d09b71886de7c23dcb8a79960b7
       02")
  = hex
      "0fd635d2e274737ca8a65188909af59f139c2f344669cab147889c9cead14d50
       44".
Proof. vm_compute. reflexivity. Qed.
Example lib_ctr256_e_15_iv16_ff2f25d738e214a1 :
  ctr (hex "42b1c2ccc6aae2975a1636e6a78e72c02c32201cf323f06665ccf7eb5e625b87") (hex "6d411306caa1b497ff2f25d738e214a1") (hex "7aade7ae65188819b5e6c44376901e")
  = hex "82935f4b0af1e98f0ec1b4c86932d6".
Proof. vm_compute. reflexivity. Qed.
Example lib_ctr256_e_161_iv16_1aa504fdffffffff :
  ctr (hex "c68c73a7598925028dd176bb45807951bf1a56ecc42973b9c12e738a0aa83cc8") (hex "a03d060efd3348a61aa504fdffffffff") (hex
      "51fb1e5e8f846a2f56d27fb42e60b96a4666b066db85b482bdd48f5d88389e50
       9da57277d354ab424885bff5b87d0714d5d59bf866e1152ea2c0256a79d11a33
       81d4f027b803138c890cb06584e4b9565ec45d346ce75d028bdd0dcb19e09fcc
       748cf5f7ff244d6568c542d5cb5dc340d3b3dce3a09a05d0edf8adf5ac1936c7
       debd1b26a02cc304f82c920212925e217cc3312e194a7e36a4204d49c7b542bd
       3c")
  = hex
      "2c717cd53c21cee9b6f5a63c5be3d369e960631a9fb79120ef5069126d5f2031
       3f5ba48a85f9d91450fc2c7abd561a5855c468f95fbdded0f7f3240f8c1c95d3
       56ad2631f1bfbff29b62530a56da38dba5510136684beaf7791f8d18aab701bd
       dfe5d03f5fb4befaadecb8d6e2310e7fa9ebff50a5cdd5356ca355858a9c71e2
       90553832b1b6ea9faaea7a29fd43cfa65633c0d6ca38aa4075dd74578d23ab3f
       c1".
Proof. vm_compute. reflexivity. Qed.
Example lib_ctr256_d_255_iv16_a2d3f907fffffffe :
  ctr (hex "07b9aa2d200fd25bc4c33084b2c1193c2edca7ab3fc306502078a432445f215b") (hex "5c40330d8ba30723a2d3f907fffffffe") (hex
      "ade4b5eb51f4373d6cd1612a0b265795d8ff0bb8093941dac70865a76678215d
       b19f793006398eff0eb152ee0561b6dda1536881b50bebd57a15e0a1d72b5e50
       f7cc16c2dfc5c671d02037d429d1be24386c1654dcb1c702d1ffcbcf2782fd39
       d231b0bae0ff1ec36948874743cfba4a38e64be1f922141fa023ebb9b0ff1116
       4f85d92052c66f146774f995db1507e27c520135b8efa4091ae5937ad177ce45
       a23b5de8449e53be1b8f048bb99c82f0c46fb0d471f0d1c70561b0950af1cd57
       a3ccc57cdec8eb2e85bef18bcb2788a9f08ea04d7d793d742fbe21c6c3227eb2
       8af43a64bba0acc833007fdd4cb4512668b5c6eddd870fb5823da944456479")
  = hex
      "1b0d96d89f2f1653af26dd8ea5c1f3dc27370e0d4e12fbd90c737fe6ecdead91
       72e0ed2a7213d7820b9f0737c29c1883f642feb13457747c15b71736b97a2e0a
       cacb4830ec128776ec4043faeab58497c37bb0fdd39b00a02b4875b7abd151d1
       b2bb2f123a92a994a13810aaafca3ca198ae5b03fa192c7376e2cd556832e012
       7f7c3056a589228a6f29fac5ecb89665bd9a1f11888cdf4b85739d2d3686cab7
       f0413d92f2ab2dd62e6f9bc1c8ec301cf741b5af2f76c7cf235ea8e07ca19ae9
       f2779ee56ac71433beb172c2561cbf726ee5ddf0677302ce9fafba33f4be1ae0
       400e0f322ccfb9e71d7d16b936b212af688d248ec73bb2a7cf99628b3b01f9".
Proof. vm_compute. reflexivity. Qed.
Example lib_ctr256_e_300_iv16_ffffffffffffffff :
  ctr (hex "d27d23660cf440dbc2389205b46427a4faef03f7f2206ce9ab35f3ee7727e556") (hex "50775f92877c04cfffffffffffffffff") (hex
      "29a21f1d94a73645410bad033c3923387c8a72f30898556519a6b6703a2d0ac0
       dc9eb2653095eb9374673fe535e78f203741985bece87ca5438d4662556e1252
       17cd8da2427d8e8ac039ef11e31e75244eb433e20d3abf474d93dae35affdf92
       e288027f47fa525df8df74731c5f89b4937c3a000a060b69648dac6b674c1165
       dd6998e963ec162834b976eb99347460689406a4f81c6be74f3616e8477ffb95
       9ee684e5e0b1cb6e20f3cce251772961e783f4fe6a871bd6fcc3bee3868b372d
       8e224620d5509fa621696ca66fccbe93cbfde7d69ea25b8813774a8c31f8efca
       f3f825a2d042bf4bc6bc060120a7117ede8fa031b3230496458ef3c95a5bd540
       9b898083603c82721c82956715a8a4fdbc47616d0ad2653e11c7b9debd8b3e6d
       f08cea11e3c361f519022fb0")
  = hex
      "3d44ba8971df848b491e9d9a8deaf0233960daa58f9b825e552539dacb184917
       aa755c4baca35d46bc766287b9c72a5b157fc310763bda7ae0e393f2f3a7f545
       5d3ca5c13c555a12b31cb9dd48da030a2dcf5272ec7ad875888997b3c5b4d9e2
       56eaa680b7ccfd1a30a668916d69e2ead364cee2cbaa35a49b36224d1b1978fb
       dd505e3f49e30a92369e1f4930482ea4384283c260559ccac80dc12f6e87124b
       b7226a8c27d1ed807ccffa71028d6b9d9e2316dc8fbac22a36d49612b2952dd5
       b1ae2aaae50106e01d175302938c09f680eb3425d4771d16a1f3f9da51a84643
       92f9b37237ee8ac252ef28790b453e63ee59b7e626bdbd3662f78e4f110d495e
       5afda6a0be1089a13d3509b9f651688bfe3e4e5af441fec0760d47b058d9a9a2
       2b541ab1f0c945506238273b".
Proof. vm_compute. reflexivity. Qed.
Example lib_ctr256_d_160_iv16_6d520a45fffffff9 :
  ctr (hex "b399a91e751540803c6c4b1bf11ea0ea679c7998503854d6debe45160036b1f9") (hex "9662a180fd17fb8a6d520a45fffffff9") (hex
      "28b02b9b51831c43070afec9891ab10426f04808ef0a0c760734441ae203338e
       32279b457dabf54ce9100ce346c1d9bb935fdfa093ce880c079fa4019b8e414a
       1137a2835936b1ca9ad8f1dd8753c0ff3657da71f4ad9114f5441ef3fdd7ebbe
       0208af859fb32def295135bf3789e2cdaa8e8555fbc5edf705e4243e554cfe7f
       d7718b091cddf410b3301e10c8662b9d2ac5bc7bd9772ff9e4cf6f8ca969c131")
  = hex
      "fccc95ce7aa7a72688bd198354fe243fee141c89a4331d468556a3d10af5d739
       ce07a627db2372ec80c56dc7a39605769f84bbb5f8f71b80c5779696aceec6c8
       52343518eebbce8222ee7068c62b6130f2765c714f1e6446de891b6b47652cc2
       16c28916648f898c2d56dc23d668aa8751126f07b3c6365d91444407a4e6238a
       c5073cd52164378b00ec9efc4a64fca431682b3fd3ef6693a65de537622ab865".
Proof. vm_compute. reflexivity. Qed.
Example lib_ctrbit256_e_3_oop :
  ctr_bits (hex "1da44fec8a274c36e32bf149f89bad8474c4add88fa4f6b21b55f582d55c778a") (hex "720391679582eadeeae8fed5929f3792") (hex "38") 3 (hex "96")
  = hex "96".
Proof. vm_compute. reflexivity. Qed.
Example lib_ctrbit256_d_133_inplace :
  ctr_bits (hex "a25d273d6b4e6fef811e33950dd426fae5eba0bc9f9aa9fa5154054c5c6f38b8") (hex "720391679582eadeeae8fed5929f3792") (hex "b6e6137121302f353632d895ade1377b09") 133 (hex "b6e6137121302f353632d895ade1377b09")
  = hex "3b58517f45b4f4387b61aebf6e79fe1701".
Proof. vm_compute. reflexivity. Qed.
Example lib_ctrbit256_e_1277_oop :
  ctr_bits (hex "60a8fc93bc4a0db0dbf3f0640517b976d307fd0fb7902acd699744f26eb81952") (hex "720391679582eadeeae8fed5929f3792") (hex
      "c271c8448e85f9f1b66503a91d6d09cc99746e7c67584f8b921915c87ee25c97
       624e47f963fb05488d911d281b2c413822a94f1b6a4fabed9fe9a7fdde3142b8
       2fc9d800d95c6f374029d0f818e8da173d1d8a70da69f80b9738c3f6f17131d8
       be43580c4e2280ecc18b6a589dad689a8af430fd3a0071f8df6d3cdadcb07042
       225b3577080411a4acd8c33911a2ca7b8f1b985feac3c92d364fbead655f4c92") 1277 (hex
      "a62a249df6428681635e12e8dce93bb711ea36d0311b48bb98253b494dc4ad5b
       070c364d9d42ec267f723ea44d9daccd72b652618a912fc35094eb683b8c9f02
       c1f6e39eac869390bc432fd869a784cfa52c66be01a9af05326aa2f19e5ef9fe
       b118e8b7a11671dc21350484be9a6ac05d9907a9526b23fa588d84bc653fccb2
       241a300bc19c60ed168d4d57473c6fb303988fab7b12c7d38f2583b0c7c4c255")
  = hex
      "4d81c96bec010a9e59ca320d0e551d3deef777db44c553a62d5a7b39587c9fa8
       d00d64b31915ba0a956bc11a5582fd03deb0f77a5c9f938a34ba586833208437
       444b83792ba1f1822c3f41b7081ce8706fbf72a21bb066c3a12ebc696026536f
       5c7555ddc253ec7944ddffb4eb9583605e0b89b7bf536559535f9becbaad8c59
       14f6101b2ba65671b33b31cc9d0f6a9ed2584be0f3d4288c7f695fbee3370155".
Proof. vm_compute. reflexivity. Qed.
Example lib_ctrbit256_e_1277_oop_2 :
  ctr_bits (hex "c9670ccfb3df1334b20a2052411216233ef943c0805cce2b2dc945e2b36e9c9d") (hex "ca2d918535e413caddb7a3d7ffffffff") (hex
      "f8a198cd3a1a2a6cead3ac95115d148d448d8f5465301bfe569e77cc569e1eeb
       35f95f51b14101df365a63c266f0a533c6cf788bb0a24ff40f59979b52536f48
       804be520c7e6c7c03879420a181b1088e433ba875d7ceed14640afb98e701c4c
       b9df7a379d8f7a9e4780cfcea7871e9cd8d72bc55a4b9d81fbde312c4ea1a71c
       8fe64a15587d4dd4ed146dfc8c74c6b5a90896b61daf0ba9d79cb72ea870c293") 1277 (hex
      "12492a7d0e9d1fdcfc8a04211861d98f8a0547ebd9bf0bbe6f3cfe3789e7eaca
       c0d1b369518bf0168a5ca9c152c95964c853254a94ef67159de1442f119d19bf
       8503733c904119c8de23c8ca196a848b4c8155b5c9e4d1b57540df898edb8973
       fcfb7bb5447f4be05703a1963873bcbe1b4ac8eccec4810e95e1fd324940b992
       f8302b4370166d6ceebdb5f6e65fb7c0afef7de0df0b14dc48d88c063ce33e3e")
  = hex
      "488d40c4ea458bf2f9594b2999fb6bb1c28d051dcfaa39a959113908a11b01aa
       7e35c352f49c36f6c285135b3ac4e563f22a4d361960c108e70be7eba7779188
       f46b06f8028f19c64e256f31af87451a37bf0cc8c88c753dcabc06eb01cec038
       eefbcf26f120edd7f31dc82505e02d1cca7d45393dd2b2cca342dbc101592a3b
       0a3108d5342a6d9c618861f137c80753ab6334db6cbdf86e05d17d3e748a9f26".
Proof. vm_compute. reflexivity. Qed.
Example lib_ctrbit256_e_1277_oop_3 :
  ctr_bits (hex "34ac6e2be92a16ecd3b564bd160e458cb03fcf6009932145477954282246590d") (hex "6405b4e89d0613e6fffffffffffffffe") (hex
      "95b989c1d27e27997db3665c522db1a54da224ae735e74557d540e729d05f88e
       083eb65a031e9bb6630b59458e0bdd58654482fa35e1505c0782d85aa895ae94
       657d760d6ea891ff713092a52426541261dfcd7d1233ed2fc52309ade2dbcf8a
       30e9f69c209a8cad4be01ba0abc90636fcb368d9070f115eae12fe3904b88390
       c287989138a56c0bb531d8804142e6f55c394344ceff39e5dca582b63d47a3a5") 1277 (hex
      "0fb2dcb1eb9c7936d3b6d83e4bd9fec0b96420cd92f301d2153dea28e679980d
       2b050944088fcb3c47a0d4726ac123c85fb77d604601439700ce032a57c995df
       895c7b5e9524a6381f7b63b6c816446caf3fb6f93f653f67bbeff19486076df1
       45f49515272ea2c2346e41afe968b2fda963ae4830e2729b04d878cc73cc910d
       2111b385d6f1bcb4b5c289c39c77760878a2142c9f39f8e75ba58cb1feb9efcb")
  = hex
      "e6776ea9608807a6e1ea7800df0b30908a136a18445200860a6c4dc88003523a
       f5e4cf485fcfaa5126105352f275fda9544a4c783b8cd41514c2ef439aa0929d
       cbb6a48d88a12637e0eafa1055588dc2269dc14a6d864659cbe90988829cba42
       3c7fd98ca75cdbcb3a30feead9ddef6e435b28058ec434cc15a42f979023ccca
       98c131bda7647bc839fdbbc55cf2c69ac25151b184770dddd76b99465dbcad6b".
Proof. vm_compute. reflexivity. Qed.
Example lib_ctrbit256_e_1277_oop_4 :
  ctr_bits (hex "66766512ec2a326ed1c61d2a80d8b0e4e91831149c9fa479f56cdfac8024d66d") (hex "ffffffffffffffffffffffffffffffff") (hex
      "bb8f73ed4e6228c430956c011f3a4dab823531149f5ee386fdbc028608028d9b
       26f39a496a189d124f769033571ada62fee14f43bb732a7aa93ade7a9703a05f
       57c9c00f7a9dd24bd74709bebbbbe66fbc602916231898e8010670dc73a5cd48
       25f86c9300c3e561831315b9449a0b87e5c92d099d4e020127d8b879091bee62
       9737e92ada5e2f0c158ead4c50deaef6ce88f24c4476556618528d96f0e276d3") 1277 (hex
      "eeff3272949c16231ac9ad5d0e4a4c76cdbd59bf1c45379ed20c932adaf8baa6
       d076507800da98929d487e7cebb6d7f875afb7a0c0607d6f842eabd5e5a28655
       8955da365b063b98dda35eaddcc72ddc5df2391d3f99ba9a6cd52aec5498f65b
       87e122d03cf08538d11cf2f81e98aea62810d2ba69f406587e301b059d78cbb6
       54fada340423cfb8d50cb01fa887a36072b96b936b7fd6bf01107b1a0c7bb35f")
  = hex
      "fb42ee949ff7861919ddf25cd3b82b5cf57cafaaa9b31a2514cbf3521b4357bf
       5423d38557f8147e60bb8ffa20ba0563269b9a32317f7207cd0ec311d6f207e9
       bea4c763e5bea446a8819b54c24b518dd67fa88e7d96bbbfadc9457b63b3c2d6
       da369ddd7d687192033eb5c4d9f5e73e4b8845922d057f9996929f5f1970023d
       5338548ecd782fd4f63a5464d2f9ef08cb1749a06af579015d30663fb8d8f56f".
Proof. vm_compute. reflexivity. Qed.
Example lib_ctrbit256_e_1277_oop_5 :
  ctr_bits (hex "35afac08312a7110aaa04a6c10da2bc6048065a17545c05047999941ee2606fe") (hex "7062da22ecae8b81ffffffffffffffff") (hex
      "87edd56f2c7e9eebd4142f5abc1681bc3d296864dfbd227e0da96de419a831e1
       518628202a06c9397511e1788f9b68407b9e07a540b24bdd3725bfdb09148204
       362da861e2d8df890279707625e9af5872b04e97f9dd3f32dab9dfba6c70d4dd
       c01156b25a096560c87a0f20f911dee853bee43c2c54df158a8b9d76ec338526
       e76d691a651a3ed79c807d48567f5bc5f69f5bcf27189ccc780023d016d0ac65") 1277 (hex
      "a921731503eab27ed1b613e5bf8bcfdd0025aa3233238a6557030db9c0c66eb1
       724c1329a8c24a6edb38449312978ae36b1b29be27fdd71f8107106547101dd0
       f3926a729c8b76dbf0bb66a726625653d7bb82c5665d7a0d07182671781236ec
       199c05b2d9da2b795cca8787364b57ac35ac48fe4d87b0c92d7e2241f906edd4
       a81c8b3b0e6ddba2fcf48944c1b49b1cf287f0645caa69a2ab69bc9072d8ff9e")
  = hex
      "0b96c403d2662764dbcfdaa26304acb3f658996016241951986142c56257a840
       85792679373ab23103fafffa59e46fede63f56ea1826c963e2f9888004002905
       d9e451adbc24401631d320855384fc6ab63c9cfed9093e678d8701bd6ed38b89
       bc0897be108f897d9ecca99bc745fee789e4221f3dcd87c2638a7d1ef0342ef9
       e456f678425fa820d79a7e7f50b22b51741aa23ac6bb9f9bb26ec5a2b89cecee".
Proof. vm_compute. reflexivity. Qed.
Example lib_ctrbit256_d_2047_inplace :
  ctr_bits (hex "1649a85ed96258da245cb4ca5ae074f3af46e0bfedfb4887e66ba0b4b16d0256") (hex "720391679582eadeeae8fed5929f3792") (hex
      "a1f513c7bd1cbc363804d428d242f66cb37d52eb3df88491237b577cf68fa188
       46ac370f4bfb15cdc148338715d37e5be816e1ba21f8d7402cd907d281d203a0
       8994802efb075dcfcd6afeb08497d090d2506b4a91f0707a866aaa120a71a392
       cf7847dc857038b284b92bf1d33c415ab67308839513b866dbf7d29b5484bb79
       a3195c9838505518d0ac29fd8f045f33af79f2b44b66c74887d0afc208e4936a
       0b5db8675199d0c0db887eeb5b3ca6773ea9edb8a05189c4d3cf0baa242978ad
       5be7c473c1f981a2214b35091a7f3f3e4efdeb68bcb9dd84746644a145cfe702
       0dc7c8474c4b8382377597249e190cc2b5642362776f1005257d6e94292e98fa") 2047 (hex
      "a1f513c7bd1cbc363804d428d242f66cb37d52eb3df88491237b577cf68fa188
       46ac370f4bfb15cdc148338715d37e5be816e1ba21f8d7402cd907d281d203a0
       8994802efb075dcfcd6afeb08497d090d2506b4a91f0707a866aaa120a71a392
       cf7847dc857038b284b92bf1d33c415ab67308839513b866dbf7d29b5484bb79
       a3195c9838505518d0ac29fd8f045f33af79f2b44b66c74887d0afc208e4936a
       0b5db8675199d0c0db887eeb5b3ca6773ea9edb8a05189c4d3cf0baa242978ad
       5be7c473c1f981a2214b35091a7f3f3e4efdeb68bcb9dd84746644a145cfe702
       0dc7c8474c4b8382377597249e190cc2b5642362776f1005257d6e94292e98fa")
  = hex
      "fb7c83436701f71648be0f2cab3193d1a97265292e1d0ab340e94d6c361300b6
       74e8774154c3456ea1a5a6b2a8bf2165d09b458acd0647b4783dcb618da41e24
       999790d12ccc11414a2439d85ea8350796b2c289f4637478a1fa977d6caab1e3
       1ca10073b515ca588be60bc7e50d745b4e6a525b6f1d77b50a001ffbc5bd4403
       6b7b913c41f4fbc2d6347ee34ac3a9ada445f5f6b7939135ab8b4c1cfb01ec31
       dfc34b494234b2faec5a86a3c9e7d2f4bf3da0dc8e378c87b3d6c3b08d6875f4
       fa2caf60411051307c1dd54b29729f6647cc495c34c231bca9fadcbc9cdb61f7
       67358f6e25e31003b3e3b6873d975ff8c8e5293f7a7d55fcdbe5f2bade20d24c".
Proof. vm_compute. reflexivity. Qed.
Example lib_ctrbit256_d_2047_inplace_2 :
  ctr_bits (hex "0bf193273388febcf98549d50b01d78426e52ab350baca034fc9c1b9ba2176ce") (hex "ca2d918535e413caddb7a3d7ffffffff") (hex
      "5df3af7545c7d67cb9d44df07ee5d9c506405ba621b15f6a50b819fca04669b6
       4810994bf27d9073a7f8b0361f929d1b98a9592223d52686e4cf6c4462d78b53
       557e1d225b8b6874c16cecfdf65e3c360dc8296d18c88b16dd750106af9d93ee
       76d7e6ea990570ba5c9e1bb86eb831ff1c0bcde8c030e3d125a35e5e03f7f243
       ca81469ad7508bd564317c3e270ac6bd666f1f68fbe53f257486c11c2b42889a
       ffb7139c4d020fb57954bf73691a680d651e0eee2061c1e9ac65491edf8be65b
       61bf38c89c14a8599bacf637da551ed9dacd756221efed785794d0882a4c71f4
       2aa3b501273c92615dff53c28536585334267a932d0fa60b0e40ee13f82d7fdd") 2047 (hex
      "5df3af7545c7d67cb9d44df07ee5d9c506405ba621b15f6a50b819fca04669b6
       4810994bf27d9073a7f8b0361f929d1b98a9592223d52686e4cf6c4462d78b53
       557e1d225b8b6874c16cecfdf65e3c360dc8296d18c88b16dd750106af9d93ee
       76d7e6ea990570ba5c9e1bb86eb831ff1c0bcde8c030e3d125a35e5e03f7f243
       ca81469ad7508bd564317c3e270ac6bd666f1f68fbe53f257486c11c2b42889a
       ffb7139c4d020fb57954bf73691a680d651e0eee2061c1e9ac65491edf8be65b
       61bf38c89c14a8599bacf637da551ed9dacd756221efed785794d0882a4c71f4
       2aa3b501273c92615dff53c28536585334267a932d0fa60b0e40ee13f82d7fdd")
  = hex
      "c02ec2ce68f92b819797ffbc95487a51ae11513e727f53afe48780c7148937cc
       446d94f84e983cfb88d191a6660a3978b796a352fd4a03e7d1ea7aa3f860a4c9
       d56aba4d852dabf77efabcb3d363b637bf3352f30e6ea5f6f8cdd3863c422d57
       4edf2de72bd62a0894ec840185926da6d15e850d2f5f8bc8f33582672d926a1a
       d26154bd053f69c3824c6cef002869c311fe5d54949592d1eca4b59f539ca480
       329a41711fa7d032cab0b2355cf13bf47eb55aafbcb640a7118a026e1fccc516
       c4b3eb6125f5f799b95d1f9e05da384fecd6dde16c63f81e4c95ef8ebf4f1fb6
       fe7ede5ae9a1bd29375570f6adf3f86877759f0df5507bf65d01490851803ee3".
Proof. vm_compute. reflexivity. Qed.
Example lib_ctrbit256_e_256_oop :
  ctr_bits (hex "b4aa3a1b069034a346ad0cc232ced4af420c4b74948ef0ec73f72038168e6f8e") (hex "720391679582eadeeae8fed5929f3792") (hex "e89d076c6c61f4cafd1c939460d7cd69dad61042f2a3cbdd75734403b51d5be9") 256 (hex "f44a29f083682468be8d77afad8c20109ef8f53d4ac87a1a2572c9f1897b2a04")
  = hex "cb5fedb6d6a1a7f302b2bcae88172a1e75ae9263c76dc97dbe964ef3dd05b81d".
Proof. vm_compute. reflexivity. Qed.
Example lib_cfb256_e_176 :
  cfb_enc (hex "8a3506f0bdc19714003f8d7349c7bed5796949dbb3aa07c22d16b7c3d499bcb3") (hex "1a2169c989b4f1dfe767b59b49e95633") (hex
      "8dfeff443fa72d2cdd214f72073c95766133a86e5b1ecb0961660fe6d50a82aa
       f4862af18a2a57ce320bd43290f7a931bf4848159533f4dae1d4a61b769751f3
       44aa57f695f02d4402905f00249792f97018d59ea24d21a8c491c37308deee7f
       7a0359181419ef316308588f03507007153c373453d2cd166bc5118a20d58419
       e9de4f0f0a9b952ae9df25e99a9d699dfa6d6708da46c7f29810306b7e4080c9
       fb9e063e9ee7e8f7847ad6bede5fa8a3")
  = hex
      "04d2c9b80df19668630a9e06e619a5d9a6a9eb37bda3589772df67dd33c4fa75
       15af1dcd1a63dde97ea163b2f4084b5fd5aeb4fcca4fdc5578d8c41d2e96b025
       8fa67d455710a94be685888781e6ac86d9148c36431fe68389b5ead5aa21a2ca
       53c62ec8ac8732a5dff99d28f1767b004750f040b3a63621efce9110008815fe
       c29ed0784726c052610feb743583fdae6522be5ec9622ecdcb97fd04a69d0b92
       2f9ce8677cc94792b82f6c89d918bf7a".
Proof. vm_compute. reflexivity. Qed.
Example lib_cfb256_d_160 :
  cfb_dec (hex "2e833ed635953c0cd1862eebc3fbc57ee5c0599b9820dcfa89974c6d045769ac") (hex "7fb512999c317ed64e8de34e38e5718a") (hex
      "cb338e216447431e07a011dd68269dcf61274702ffdd5404e96e828bca4d2ea1
       715ac5be2e27320a98309c281beafccbfe60f13dbe4c75368c45205d4318d338
       ad11e34d3be9bb44c750aa3541fbaf5e16e2703f91d64fa7755ce8b811582984
       4205989865c3ec0c02ae5246b6c0c6763d2c135e33f114c47afdde3f5ed15ea1
       c39a06087588056382b75edc1a455c258c76aa3456cc7e8b9fa41d71c3b3b7c6")
  = hex
      "b079af36149d003c078c285b83a3a16fa6bf452f040971a13652e759b46ba4fb
       6937b86016905673769b85d48666dd12e925546241d7a9fce65b16bd68fe2157
       fd118c7b7a77a76b46a9c6dd55355252dbafbafcac2b42d66ffb2ca80c6ccd2b
       e7ebcc62a8bf67e5fd0d578334318286ed6b17a0d811b0dba16ee79de6cd5979
       e54b9695113500a40d0281614ef35531a7a607240241312fe7658f1a77c35d7f".
Proof. vm_compute. reflexivity. Qed.
Example lib_cfb256_e_33_sse_nocheck :
  cfb_enc (hex "f2bde5416b1bed5e24ffcb3e36217d2e64e854fe373d1ebe65722d11ca45058b") (hex "4ccb5998290d3580af2915f6bd167f9b") (hex
      "f3f9f01645a1d702592bdf5a3d818f752941e458d6ad8ca7e5b3021e7c8b14b6
       7f")
  = hex
      "7b9afa4964a8353680ec70a7aa3c7493b8a6829b56fc0ec24b94865d09b882bc
       72".
Proof. vm_compute. reflexivity. Qed.
Example lib_cfb256_d_161_sse_nocheck :
  cfb_dec (hex "5a4a89ae0c6841af2421922ee234813eaf9f891c1f916a3c0780210aee966973") (hex "49e0faa740af4096d5fb2bddc632f3a3") (hex
      "7fb92d80a2907dbc0091ec1b60fcdf6f00218cd56a06923a5c77840fa3a27b33
       58fc7370fb61c6248a79f7458bf44f94e168fcda8038b8dea1aca307978adab0
       786664db4eb87c8caf4efda11972b25fa9653ec018c73dde24977fc018065118
       f38dafd16379ccb8ba6d7c4d24b1a6ee1619836fb4e09166a4f903f8040f66c4
       50e2554d75bc66ae286995a1896f3dc83c58bcae967bc5a08b6e97c5100825c1
       39")
  = hex
      "c68af09bdfdb006521454cea1b1a75d72cc996d0e0b5ea56fdc5f5cd7a1fbe01
       3fda008a1bf6fb18f7f9a3e4204c523dd0fe43f9086db4ad57f18a26babd41c0
       9c712db595538b300c9ef031084c3b51696415587e5641799364e6d7a1952ffe
       8ba3cfcc21d8740435530436a2ed4e24e6f9cb424755cb98805a2e15d9d40b27
       361e78bc0d6f4f58b6a7e1b2ca889e0f2b755b77b1d89a215ff8f3e470d35c08
       d1".
Proof. vm_compute. reflexivity. Qed.
Example lib_cfb256_e_1_sse_nocheck :
  cfb_enc (hex "7d56c34bfeb66623b75478785b3c3b1cef99814e55a4be64c0c3ad7807909504") (hex "16335cd29f774e49751c9c5ef5d7b2db") (hex "13")
  = hex "70".
Proof. vm_compute. reflexivity. Qed.
Example lib_cbcs256_e_336_inplace :
  cbcs_enc_lib (hex "14cb0f95ad2c3e7ef89d60246e9efcab4893a94aa246ba23d2f59f671111daf4") (hex "674cb5fde8c05d74242d2db11bb072df") (hex
      "03364e63afeb929c62f8badfa9b23940dfdc9f33628d468867c521cae02b6ca3
       d48b7544fb5d967edbfd95cf872c05edd267f3c82a3215d3655ff5ce6784a400
       86ae1fe3a7bf79557c3540ddb5f4000c7088a1a6c030355c083fa0769922ce37
       9cabab02d33055362aa5fdad120625b957d44daaad5a6e62a4abfb55285c6a0c
       7c5ebc356ad031555aeb47af596869f95b4bee665c16ef6d3f5a34e67b0b5f0f
       a4d444757dcea797db3abab0a860b0f8275cddb1c149317ff98a802a7cf10841
       b9828f334c941a96b9ad31fb064ddeec1dfcfbe46483379ea86859da5e2cef83
       ddfdd0db757b9efaed1a70cac62261cfcdc16eb50dd1fcb13e52bf054bdfa64d
       3f561e1f2db411f8f10fab20ce5e2c6f0437027c62e33fad9053f5d66e0bde76
       8fa70692def868041f11b349950d29557b7fa2689d36ad7c10892ce35fca363f
       4c50ab06d1cdc107c1d0ab1c50d41635")
  = hex
      "9586b32c7306defa487fe23e2764e874dfdc9f33628d468867c521cae02b6ca3
       d48b7544fb5d967edbfd95cf872c05edd267f3c82a3215d3655ff5ce6784a400
       86ae1fe3a7bf79557c3540ddb5f4000c7088a1a6c030355c083fa0769922ce37
       9cabab02d33055362aa5fdad120625b957d44daaad5a6e62a4abfb55285c6a0c
       7c5ebc356ad031555aeb47af596869f95b4bee665c16ef6d3f5a34e67b0b5f0f
       9b01d2d724a9aa5fc48484202d201d1a275cddb1c149317ff98a802a7cf10841
       b9828f334c941a96b9ad31fb064ddeec1dfcfbe46483379ea86859da5e2cef83
       ddfdd0db757b9efaed1a70cac62261cfcdc16eb50dd1fcb13e52bf054bdfa64d
       3f561e1f2db411f8f10fab20ce5e2c6f0437027c62e33fad9053f5d66e0bde76
       8fa70692def868041f11b349950d29557b7fa2689d36ad7c10892ce35fca363f
       d866fac15464b0769f53e61daa7df089".
Proof. vm_compute. reflexivity. Qed.
Example lib_cbcs256_e_336_next_iv :
  cbcs_next_iv (hex "674cb5fde8c05d74242d2db11bb072df") (hex
      "9586b32c7306defa487fe23e2764e874dfdc9f33628d468867c521cae02b6ca3
       d48b7544fb5d967edbfd95cf872c05edd267f3c82a3215d3655ff5ce6784a400
       86ae1fe3a7bf79557c3540ddb5f4000c7088a1a6c030355c083fa0769922ce37
       9cabab02d33055362aa5fdad120625b957d44daaad5a6e62a4abfb55285c6a0c
       7c5ebc356ad031555aeb47af596869f95b4bee665c16ef6d3f5a34e67b0b5f0f
       9b01d2d724a9aa5fc48484202d201d1a275cddb1c149317ff98a802a7cf10841
       b9828f334c941a96b9ad31fb064ddeec1dfcfbe46483379ea86859da5e2cef83
       ddfdd0db757b9efaed1a70cac62261cfcdc16eb50dd1fcb13e52bf054bdfa64d
       3f561e1f2db411f8f10fab20ce5e2c6f0437027c62e33fad9053f5d66e0bde76
       8fa70692def868041f11b349950d29557b7fa2689d36ad7c10892ce35fca363f
       d866fac15464b0769f53e61daa7df089")
  = hex "d866fac15464b0769f53e61daa7df089".
Proof. vm_compute. reflexivity. Qed.
Example lib_cbcs256_d_336_inplace :
  cbcs_dec_lib (hex "7de7c62ce5e1d80f85020bbc9c6945d1de98f0c92a2083cee7145a12a0e00944") (hex "1e6647ffb2c0927f52bcb66af59d5024") (hex
      "613689ab3a75fd585c2f5774816431d813f1f8351de08adfd905acd0d355b4da
       2bc9ec27da16082f44d2db81730afc23ddf9b93b994f479e8e61e0018155d1c2
       931ece0e331477d6acfde72d2999e6b49bfeda855d3db99edb3db345fb6d2000
       d46dc64ab07815420324a9a3ec420ef3d7b290dc0562e7b5ffcd8635a0dc09df
       28ec2b5340989cc9fa3e98efac6a24f9e543000ef67d0bcbf1f3f116f3bd45c7
       519f65fa991c2fc82aa479d423d9e0b56b6a3c21ea1b6f0e38e78dd235887d86
       761681238fda3e37446167ece31821dfbbb6505e09c061b1d7b72df3a2ade374
       1924b62b56d87618b1db055adb83df691c28aac3429ecce776833f60ea5bb589
       3f10dc7d53230f1b6381561db3d97cd86ec49c6b1907862b6875686448720381
       c88794b3a5b70af0edbc68115fcf51690c82393e789d082184c20eac2fd46f96
       18f9af562e790b894efe80b3ca5e49b9")
  = hex
      "06357c4120d5dca0f126f46fd075dcdd13f1f8351de08adfd905acd0d355b4da
       2bc9ec27da16082f44d2db81730afc23ddf9b93b994f479e8e61e0018155d1c2
       931ece0e331477d6acfde72d2999e6b49bfeda855d3db99edb3db345fb6d2000
       d46dc64ab07815420324a9a3ec420ef3d7b290dc0562e7b5ffcd8635a0dc09df
       28ec2b5340989cc9fa3e98efac6a24f9e543000ef67d0bcbf1f3f116f3bd45c7
       8fc460923cf9f7be82c43b4d9f3805536b6a3c21ea1b6f0e38e78dd235887d86
       761681238fda3e37446167ece31821dfbbb6505e09c061b1d7b72df3a2ade374
       1924b62b56d87618b1db055adb83df691c28aac3429ecce776833f60ea5bb589
       3f10dc7d53230f1b6381561db3d97cd86ec49c6b1907862b6875686448720381
       c88794b3a5b70af0edbc68115fcf51690c82393e789d082184c20eac2fd46f96
       9b162b94d525be38d5dec56b75085691".
Proof. vm_compute. reflexivity. Qed.
Example lib_cbcs256_d_336_next_iv :
  cbcs_next_iv (hex "1e6647ffb2c0927f52bcb66af59d5024") (hex
      "613689ab3a75fd585c2f5774816431d813f1f8351de08adfd905acd0d355b4da
       2bc9ec27da16082f44d2db81730afc23ddf9b93b994f479e8e61e0018155d1c2
       931ece0e331477d6acfde72d2999e6b49bfeda855d3db99edb3db345fb6d2000
       d46dc64ab07815420324a9a3ec420ef3d7b290dc0562e7b5ffcd8635a0dc09df
       28ec2b5340989cc9fa3e98efac6a24f9e543000ef67d0bcbf1f3f116f3bd45c7
       519f65fa991c2fc82aa479d423d9e0b56b6a3c21ea1b6f0e38e78dd235887d86
       761681238fda3e37446167ece31821dfbbb6505e09c061b1d7b72df3a2ade374
       1924b62b56d87618b1db055adb83df691c28aac3429ecce776833f60ea5bb589
       3f10dc7d53230f1b6381561db3d97cd86ec49c6b1907862b6875686448720381
       c88794b3a5b70af0edbc68115fcf51690c82393e789d082184c20eac2fd46f96
       18f9af562e790b894efe80b3ca5e49b9")
  = hex "18f9af562e790b894efe80b3ca5e49b9".
Proof. vm_compute. reflexivity. Qed.
Example lib_cbcs256_e_176_oop :
  cbcs_oop (cbcs_enc_lib (hex "8a3506f0bdc19714003f8d7349c7bed5796949dbb3aa07c22d16b7c3d499bcb3") (hex "1a2169c989b4f1dfe767b59b49e95633") (hex
      "8dfeff443fa72d2cdd214f72073c95766133a86e5b1ecb0961660fe6d50a82aa
       f4862af18a2a57ce320bd43290f7a931bf4848159533f4dae1d4a61b769751f3
       44aa57f695f02d4402905f00249792f97018d59ea24d21a8c491c37308deee7f
       7a0359181419ef316308588f03507007153c373453d2cd166bc5118a20d58419
       e9de4f0f0a9b952ae9df25e99a9d699dfa6d6708da46c7f29810306b7e4080c9
       fb9e063e9ee7e8f7847ad6bede5fa8a3")) (hex
      "30cfac9e2b0a6c3fd11618a2d13054f666c0d2859051dafd27e161b9a0365e79
       0ada16588d9bd7249281029b64746603f4a25cc2965d7d9bc624d55e19726048
       f5343d373ce2d45e842996f15109de1181c31e033687a61d673d04f51f8cf87c
       0aa55a23ebf1c8c28820267cf97f8fa4f368b6694e37b1dac6573271022264fb
       d4be4bbb1663a253716b0109728ee5a5ce73b3875b338307582a694a2466885e
       b261165b4dbb41f205b66b7ae72be47e")
  = hex
      "77efb928d3b235381bb67c4c7835fad666c0d2859051dafd27e161b9a0365e79
       0ada16588d9bd7249281029b64746603f4a25cc2965d7d9bc624d55e19726048
       f5343d373ce2d45e842996f15109de1181c31e033687a61d673d04f51f8cf87c
       0aa55a23ebf1c8c28820267cf97f8fa4f368b6694e37b1dac6573271022264fb
       d4be4bbb1663a253716b0109728ee5a5ce73b3875b338307582a694a2466885e
       8592c7cf8b37143b5f18417f61873565".
Proof. vm_compute. reflexivity. Qed.
Example lib_cbcs256_d_160_oop :
  cbcs_oop (cbcs_dec_lib (hex "2e833ed635953c0cd1862eebc3fbc57ee5c0599b9820dcfa89974c6d045769ac") (hex "7fb512999c317ed64e8de34e38e5718a") (hex
      "cb338e216447431e07a011dd68269dcf61274702ffdd5404e96e828bca4d2ea1
       715ac5be2e27320a98309c281beafccbfe60f13dbe4c75368c45205d4318d338
       ad11e34d3be9bb44c750aa3541fbaf5e16e2703f91d64fa7755ce8b811582984
       4205989865c3ec0c02ae5246b6c0c6763d2c135e33f114c47afdde3f5ed15ea1
       c39a06087588056382b75edc1a455c258c76aa3456cc7e8b9fa41d71c3b3b7c6")) (hex
      "352ddf683e27a76475913d3ada0e1301b0df917a6b45a7d2662264f65216b8d3
       8440f137055458f57d7fc18c7c2f72dc87ea93db5706ee820418d7b1d75ba71b
       77550f905f9952e6d51e244d619d180718e3dc329c4315c2c64fc23f35944c0c
       3e697b892a2296e29f87201059e6d7276644b512bf137a5dc0a31df1f8a4a2f9
       014b585e5c72e7e5477e3289f8cc4c7b6723c62d9226792a88859afb3de0e538")
  = hex
      "c2e05222729c3564c33cb5131a425603b0df917a6b45a7d2662264f65216b8d3
       8440f137055458f57d7fc18c7c2f72dc87ea93db5706ee820418d7b1d75ba71b
       77550f905f9952e6d51e244d619d180718e3dc329c4315c2c64fc23f35944c0c
       3e697b892a2296e29f87201059e6d7276644b512bf137a5dc0a31df1f8a4a2f9
       014b585e5c72e7e5477e3289f8cc4c7b6723c62d9226792a88859afb3de0e538".
Proof. vm_compute. reflexivity. Qed.
Example lib_cbcs256_e_16_inplace :
  cbcs_enc_lib (hex "44811e3693cde980a44ae3e13b929bdcff74741bdc38e38256976c42ce8c13db") (hex "75ec2df94173a95a9851f6ab3dfb6e77") (hex "cdcfe0d5a8c5648bf48a8c20957229b2")
  = hex "8a059840eb25ad8e2e74ca8999770acb".
Proof. vm_compute. reflexivity. Qed.
Example lib_docsis256_e_0 :
  docsis_aes_enc (hex "c5889bf12839f24e11cb733be0ffcda04441ad1dbb7c99dab4497bfe0e45350c") (hex "f633a4745deb1351747283ece157970b") []
  = [].
Proof. vm_compute. reflexivity. Qed.
Example lib_docsis256_d_0 :
  docsis_aes_dec (hex "af5acba6308213cc3d8176e08719a418ca5a90a479ce7e3d156575cbb6b025ba") (hex "755299d80605dd000e1849bb500a7724") []
  = [].
Proof. vm_compute. reflexivity. Qed.
Example lib_docsis256_e_1 :
  docsis_aes_enc (hex "7d56c34bfeb66623b75478785b3c3b1cef99814e55a4be64c0c3ad7807909504") (hex "16335cd29f774e49751c9c5ef5d7b2db") (hex "13")
  = hex "70".
Proof. vm_compute. reflexivity. Qed.
Example lib_docsis256_d_15 :
  docsis_aes_dec (hex "d314f4c8b8097044b189e384db86eaf8e6aa1bcdf2372deb010220e9970b5932") (hex "3f3004906e74e84ca8c75c42ce3a0aeb") (hex "6545c0faa87012c84f2e6194629c83")
  = hex "8329c898fc4c34f6859c941cbc1cd0".
Proof. vm_compute. reflexivity. Qed.
Example lib_docsis256_e_16 :
  docsis_aes_enc (hex "0b4307915ca701365cd0a5f7b2afb902207a7dacf7484cd0eefcef49a4ba9929") (hex "0e1c593ffed9f3770eb0be1f9ef25421") (hex "a82822fefe768832c00d2a9a6a4a3336")
  = hex "b5e69d4593db19eaae8687c59072c635".
Proof. vm_compute. reflexivity. Qed.
Example lib_docsis256_d_17 :
  docsis_aes_dec (hex "7d43d79c948eb65357eabe335c36c4060e78184fae1a24515e31bd9ee0205684") (hex "f6d2a99f14905216d9f77d5d21e42f27") (hex "32ec643db650bee0ff12c4c99bd20518fc")
  = hex "849c74b6e627ef0a86733c0b9f07bece1d".
Proof. vm_compute. reflexivity. Qed.
Example lib_docsis256_e_161 :
  docsis_aes_enc (hex "2859bf694231b709c74081127e2d198bb3f0b616bedcd257f20e832899006ba8") (hex "9c178c1df39cd2ca7410ddb12eeb70a2") (hex
      "d6723f7d80a07d831a10db206b0d3d2c3866f51375cab73e1aba94c7fe29a2d9
       8b4c386634ac071864ea11a0f27d2fddd8abd85b936bc0746e6b8f62538df4dd
       adf5470331e64b591f91be5bc6df373fda897edb97eb5a4a2af697793a32c642
       132107cd6a6092521f77e867969b52b8dcf3f1aaff01b7e375b18ea361306c4c
       ec4d3a7c4add1968fb8f87504eb9766073a6a1d054f60a184bfc221a919dd0d2
       8e")
  = hex
      "049c9166f34d9eefa212d94ca9afe41ce9b06f1e6ded66b51ee6a0e0219798b2
       63e1498da93a0d88807af93e02f3d9d23dd5101649e6eccc76b33bcc3bc4a55b
       72e7c5fa66c3fed86cf04ba089d5e5e1b73c94f066e041adfbd773850cc0687e
       bd2738c35da652a712c924592fa4f4b292f164a1db0fc84de24cf06fa568bb9a
       abcea56d456706bf646435e516a1d8f1bc8155f9aa51b5955db8120608b50584
       76".
Proof. vm_compute. reflexivity. Qed.
Example lib_docsis256_d_255 :
  docsis_aes_dec (hex "9f4aa37e92ab65629b6155bbf1311b5d946e71f39ca71f303613cddf8c46340e") (hex "06a7c271a12174aa6706cde96598fce2") (hex
      "2cc27baa1ecacf02ef87011ae735b30ea52e1fadd9199c64d19df159a7e1d302
       03637092253205637cc4678676299c8c9ccd2de428e5f2e2f5f65b921da6f63e
       f86c088b6b0b77b302a708dd87f3a78d2c0aa173035147cbf9d9e86f63f83c54
       4ebd608046984c9f312cee4ed2bb4bd55549cd960b46f020ba3fb766cee22e6e
       7dc6419ae99178413442377809265341d710207acd26ce29f36d996ecd2209ba
       8761b28b521e13c492229fb88d82908fe95b90c3f976e26ccb5cde162422a5b2
       a25d8ee1f3764770784fce856bb5c89e8b9004ecdd73d7da61970bb1e6fc6ad3
       dda06736114e75331f082b1f2f211f22aa25f736ad7009283d1b9c4c844196")
  = hex
      "ffd7016698804c563337387d1058cc13f7700e98e95f17a67c8827c3f21a3c89
       6da2a871dbfbe0c61af4fc8fd8992896218faea9021637bce639fecff911d8f1
       92bf4fe71f04ddcb45c745255a1d7798a52f166b913500cd4dd0567b64eb9264
       2ac2e4b52c79b42ceee25389690157c3aaa84186495b5731746e0f8ca2764811
       6b3d670c5d04e9ef81c64e5079ef91749bf577746007b755e9d6377338b8640f
       b7fb6bfe722a85321ce43bd7a5e87c1f34b774b790aea08fbb53786cdec5f3f1
       c7409af035c365c4727715f1794cf5756e4bf62f97cb6029830c1262a23a85c3
       a8c24aefc4bfc9a36b7f5aeb765ba721215cf3f6ccff57d89453096459eb57".
Proof. vm_compute. reflexivity. Qed.
Example lib_docsis256_e_33 :
  docsis_aes_enc (hex "f2bde5416b1bed5e24ffcb3e36217d2e64e854fe373d1ebe65722d11ca45058b") (hex "4ccb5998290d3580af2915f6bd167f9b") (hex
      "f3f9f01645a1d702592bdf5a3d818f752941e458d6ad8ca7e5b3021e7c8b14b6
       7f")
  = hex
      "8bc7d5752b8ef8e96395e6499227e2b2d56f69d1ab71ea5e36afffb2a2f60e2d
       4d".
Proof. vm_compute. reflexivity. Qed.
