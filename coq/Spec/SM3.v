(* Spec/SM3.v — SM3 hash (GB/T 32905-2016, = GM/T 0004-2012).  Definitions only.
   State = 8 words < 2^32; block = 64 bytes parsed big-endian; padding identical
   to SHA-256 (0x80, zeros, 64-bit big-endian bit length); the feed-forward is
   XOR (not addition).  Generic plumbing comes from Spec/SHA.v. *)
From IMB Require Import Lib.Bytes Spec.SHA.
Local Open Scope N_scope.

Definition sm3_init : list N :=
  [0x7380166f; 0x4914b2b9; 0x172442d7; 0xda8a0600; 0xa96f30bc; 0x163138aa; 0xe38dee4d; 0xb0fb0e4e].

(* T_j <<< (j mod 32), with T_j = 79cc4519 for j < 16 and 7a879d8a for j >= 16
   (GB/T 32905 §4.2, §5.3.3), as literal constants; the defining formula is
   checked in Spec/SM3_Tests.v (test_sm3_T_formula). *)
Definition sm3_T_lo : list N :=
  [0x79cc4519; 0xf3988a32; 0xe7311465; 0xce6228cb; 0x9cc45197; 0x3988a32f; 0x7311465e; 0xe6228cbc;
   0xcc451979; 0x988a32f3; 0x311465e7; 0x6228cbce; 0xc451979c; 0x88a32f39; 0x11465e73; 0x228cbce6].
Definition sm3_T_hi : list N :=
  [0x9d8a7a87; 0x3b14f50f; 0x7629ea1e; 0xec53d43c; 0xd8a7a879; 0xb14f50f3; 0x629ea1e7; 0xc53d43ce;
   0x8a7a879d; 0x14f50f3b; 0x29ea1e76; 0x53d43cec; 0xa7a879d8; 0x4f50f3b1; 0x9ea1e762; 0x3d43cec5;
   0x7a879d8a; 0xf50f3b14; 0xea1e7629; 0xd43cec53; 0xa879d8a7; 0x50f3b14f; 0xa1e7629e; 0x43cec53d;
   0x879d8a7a; 0x0f3b14f5; 0x1e7629ea; 0x3cec53d4; 0x79d8a7a8; 0xf3b14f50; 0xe7629ea1; 0xcec53d43;
   0x9d8a7a87; 0x3b14f50f; 0x7629ea1e; 0xec53d43c; 0xd8a7a879; 0xb14f50f3; 0x629ea1e7; 0xc53d43ce;
   0x8a7a879d; 0x14f50f3b; 0x29ea1e76; 0x53d43cec; 0xa7a879d8; 0x4f50f3b1; 0x9ea1e762; 0x3d43cec5].

Definition sm3_FF0 (x y z : N) : N := N.lxor x (N.lxor y z).
Definition sm3_FF1 (x y z : N) : N := N.lor (N.land x y) (N.lor (N.land x z) (N.land y z)).
Definition sm3_GG0 (x y z : N) : N := N.lxor x (N.lxor y z).
Definition sm3_GG1 (x y z : N) : N := N.lor (N.land x y) (N.land (not32 x) z).
Definition sm3_P0 (x : N) : N := N.lxor x (N.lxor (rotl32 x 9) (rotl32 x 17)).
Definition sm3_P1 (x : N) : N := N.lxor x (N.lxor (rotl32 x 15) (rotl32 x 23)).

(* message expansion; [rw] = W_{j-1} :: W_{j-2} :: ... (newest first) *)
Fixpoint sm3_sched (n : nat) (rw : list N) : list N :=
  match n with
  | O => rw
  | S k =>
      match rw with
      | _ :: _ :: w3 :: _ :: _ :: w6 :: _ :: _ :: w9 :: _ :: _ :: _ :: w13 :: _ :: _ :: w16 :: _ =>
          sm3_sched k
            (N.lxor (sm3_P1 (N.lxor w16 (N.lxor w9 (rotl32 w3 15))))
                    (N.lxor (rotl32 w13 7) w6) :: rw)
      | _ => rw
      end
  end.
(* W_0 .. W_67 *)
Definition sm3_W (block : bytes) : list N := rev (sm3_sched 52 (rev (be32s block))).

(* rounds driven by the T list; [ws] = W_j ..., [ws4] = W_{j+4} ... (W'_j = W_j xor W_{j+4}) *)
Fixpoint sm3_rounds (ff gg : N -> N -> N -> N) (ts ws ws4 : list N) (s : st8)
  : list N * list N * st8 :=
  match ts with
  | [] => (ws, ws4, s)
  | t :: ts' =>
      match ws, ws4 with
      | w :: ws', w4 :: ws4' =>
          let '(a, b, c, d, e, f, g, h) := s in
          let a12 := rotl32 a 12 in
          let ss1 := rotl32 (w32 (a12 + e + t)) 7 in
          let ss2 := N.lxor ss1 a12 in
          let tt1 := w32 (ff a b c + d + ss2 + N.lxor w w4) in
          let tt2 := w32 (gg e f g + h + ss1 + w) in
          sm3_rounds ff gg ts' ws' ws4'
            (tt1, a, rotl32 b 9, c, sm3_P0 tt2, e, rotl32 f 19, g)
      | _, _ => (ws, ws4, s)
      end
  end.

Definition sm3_compress (st : list N) (block : bytes) : list N :=
  match st with
  | [a; b; c; d; e; f; g; h] =>
      let W := sm3_W block in
      let '(ws, ws4, s1) :=
        sm3_rounds sm3_FF0 sm3_GG0 sm3_T_lo W (skipn 4 W) (a, b, c, d, e, f, g, h) in
      let '(_, _, s2) := sm3_rounds sm3_FF1 sm3_GG1 sm3_T_hi ws ws4 s1 in
      let '(a', b', c', d', e', f', g', h') := s2 in
      [N.lxor a a'; N.lxor b b'; N.lxor c c'; N.lxor d d';
       N.lxor e e'; N.lxor f f'; N.lxor g g'; N.lxor h h']
  | _ => st
  end.

Definition sm3_pad (total : nat) (data : bytes) : bytes := md_pad 64 8 true total data.
Definition sm3_blocks (st : list N) (data : bytes) : list N := md_blocks 64 sm3_compress st data.
Definition sm3_digest_of_state (st : list N) : bytes := ser_be32 st.
Definition sm3 (msg : bytes) : bytes :=
  sm3_digest_of_state (sm3_blocks sm3_init (sm3_pad (length msg) msg)).

(* md_hash instance.  sm3_one_block_sse (the routine imb_hmac_ipad_opad uses for
   IMB_AUTH_HMAC_SM3, /repo/lib/x86_64/hmac_ipad_opad.c:150,179) stores the 8
   state words as native little-endian uint32 (NOT the big-endian digest
   layout), and the HMAC-SM3 job reads them back the same way; validated
   against the library on the sse/avx2/avx512 managers. *)
Definition H_SM3 : md_hash :=
  MkMdHash 64 32 sm3_init sm3_compress sm3_pad sm3_digest_of_state ser_le32 le32s true.

(* LIBRARY-DEFINED (suspected bug): tag written by IMB_AUTH_SM3 / IMB_AUTH_HMAC_SM3
   jobs for auth_tag_output_len_in_bytes = t, given the full 32-byte digest d.
   The job checker accepts any 1 <= t <= 32.  For 16 < t < 32 the SSE kernels
   (/repo/lib/sse_t1/sm3_base_msg_sse.asm:246-254 and sm3_base_hmac_sse.asm:
   297-305, used by the sse, avx2 and avx512 managers) execute
   "movdqa xmm1, xmm0" where "movdqa xmm0, xmm1" was intended, so bytes
   16..t-1 of the tag repeat digest bytes 0..t-17 instead of digest bytes
   16..t-1.  Observed on all three managers.  For t <= 16 and t = 32 the tag
   is [firstn t d] as expected. *)
Definition sm3_lib_tag (t : nat) (d : bytes) : bytes :=
  if Nat.ltb 16 t && Nat.ltb t 32
  then firstn 16 d ++ firstn (t - 16) d
  else firstn t d.
