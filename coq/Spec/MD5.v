(* Spec/MD5.v — MD5 (RFC 1321).  Definitions only.
   State = [A; B; C; D] (words < 2^32); block = 64 bytes parsed little-endian;
   padding = 0x80, zeros, 64-bit little-endian bit length.
   Generic plumbing ([md_pad], [md_blocks], [md_hash]) comes from Spec/SHA.v. *)
From IMB Require Import Lib.Bytes Spec.SHA.
Local Open Scope N_scope.

Definition md5_init : list N := [0x67452301; 0xefcdab89; 0x98badcfe; 0x10325476].

(* T[i] = floor(2^32 * |sin i|), RFC 1321 §3.4, split per round *)
Definition md5_K1 : list N :=
  [0xd76aa478; 0xe8c7b756; 0x242070db; 0xc1bdceee; 0xf57c0faf; 0x4787c62a; 0xa8304613; 0xfd469501;
   0x698098d8; 0x8b44f7af; 0xffff5bb1; 0x895cd7be; 0x6b901122; 0xfd987193; 0xa679438e; 0x49b40821].
Definition md5_K2 : list N :=
  [0xf61e2562; 0xc040b340; 0x265e5a51; 0xe9b6c7aa; 0xd62f105d; 0x02441453; 0xd8a1e681; 0xe7d3fbc8;
   0x21e1cde6; 0xc33707d6; 0xf4d50d87; 0x455a14ed; 0xa9e3e905; 0xfcefa3f8; 0x676f02d9; 0x8d2a4c8a].
Definition md5_K3 : list N :=
  [0xfffa3942; 0x8771f681; 0x6d9d6122; 0xfde5380c; 0xa4beea44; 0x4bdecfa9; 0xf6bb4b60; 0xbebfbc70;
   0x289b7ec6; 0xeaa127fa; 0xd4ef3085; 0x04881d05; 0xd9d4d039; 0xe6db99e5; 0x1fa27cf8; 0xc4ac5665].
Definition md5_K4 : list N :=
  [0xf4292244; 0x432aff97; 0xab9423a7; 0xfc93a039; 0x655b59c3; 0x8f0ccc92; 0xffeff47d; 0x85845dd1;
   0x6fa87e4f; 0xfe2ce6e0; 0xa3014314; 0x4e0811a1; 0xf7537e82; 0xbd3af235; 0x2ad7d2bb; 0xeb86d391].
Definition md5_K : list N := md5_K1 ++ md5_K2 ++ md5_K3 ++ md5_K4.

(* per-round left-rotation amounts *)
Definition md5_S1 : list N := [7; 12; 17; 22; 7; 12; 17; 22; 7; 12; 17; 22; 7; 12; 17; 22].
Definition md5_S2 : list N := [5; 9; 14; 20; 5; 9; 14; 20; 5; 9; 14; 20; 5; 9; 14; 20].
Definition md5_S3 : list N := [4; 11; 16; 23; 4; 11; 16; 23; 4; 11; 16; 23; 4; 11; 16; 23].
Definition md5_S4 : list N := [6; 10; 15; 21; 6; 10; 15; 21; 6; 10; 15; 21; 6; 10; 15; 21].

(* message word index used at each step: i, (5i+1) mod 16, (3i+5) mod 16, 7i mod 16 *)
Definition md5_G1 : list nat := [0; 1; 2; 3; 4; 5; 6; 7; 8; 9; 10; 11; 12; 13; 14; 15]%nat.
Definition md5_G2 : list nat := [1; 6; 11; 0; 5; 10; 15; 4; 9; 14; 3; 8; 13; 2; 7; 12]%nat.
Definition md5_G3 : list nat := [5; 8; 11; 14; 1; 4; 7; 10; 13; 0; 3; 6; 9; 12; 15; 2]%nat.
Definition md5_G4 : list nat := [0; 7; 14; 5; 12; 3; 10; 1; 8; 15; 6; 13; 4; 11; 2; 9]%nat.

Definition md5_F (x y z : N) : N := N.lor (N.land x y) (N.land (not32 x) z).
Definition md5_G (x y z : N) : N := N.lor (N.land x z) (N.land y (not32 z)).
Definition md5_H (x y z : N) : N := N.lxor x (N.lxor y z).
Definition md5_I (x y z : N) : N := N.lxor y (N.lor x (not32 z)).

Definition st4 : Type := (N * N * N * N)%type.

(* 16 steps: a = b + ((a + f(b,c,d) + X[g] + T[i]) <<< s), then rotate (a,b,c,d) *)
Fixpoint md5_rounds (f : N -> N -> N -> N) (M : list N)
         (ks ss : list N) (gs : list nat) (s : st4) : st4 :=
  match ks, ss, gs with
  | k :: ks', sh :: ss', g :: gs' =>
      let '(a, b, c, d) := s in
      md5_rounds f M ks' ss' gs'
        (d, add32 b (rotl32 (w32 (a + f b c d + k + nth g M 0)) sh), b, c)
  | _, _, _ => s
  end.

Definition md5_compress (st : list N) (block : bytes) : list N :=
  match st with
  | [a; b; c; d] =>
      let M := le32s block in
      let s1 := md5_rounds md5_F M md5_K1 md5_S1 md5_G1 (a, b, c, d) in
      let s2 := md5_rounds md5_G M md5_K2 md5_S2 md5_G2 s1 in
      let s3 := md5_rounds md5_H M md5_K3 md5_S3 md5_G3 s2 in
      let '(a', b', c', d') := md5_rounds md5_I M md5_K4 md5_S4 md5_G4 s3 in
      [add32 a a'; add32 b b'; add32 c c'; add32 d d']
  | _ => st
  end.

Definition md5_pad (total : nat) (data : bytes) : bytes := md_pad 64 8 false total data.
Definition md5_blocks (st : list N) (data : bytes) : list N := md_blocks 64 md5_compress st data.
Definition md5_digest_of_state (st : list N) : bytes := ser_le32 st.
Definition md5 (msg : bytes) : bytes :=
  md5_digest_of_state (md5_blocks md5_init (md5_pad (length msg) msg)).

(* md_hash instance.  IMB_MD5_ONE_BLOCK writes A,B,C,D little-endian (identical
   to the digest layout).  imb_hmac_ipad_opad() refuses MD5 keys longer than 64
   bytes with IMB_ERR_KEY_LEN (/repo/lib/x86_64/hmac_ipad_opad.c:82-92), hence
   [md_ipad_long_key := false]. *)
Definition H_MD5 : md_hash :=
  MkMdHash 64 16 md5_init md5_compress md5_pad md5_digest_of_state ser_le32 le32s false.
