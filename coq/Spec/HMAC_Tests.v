(* Spec/HMAC_Tests.v — KNOWN-ANSWER TESTS (not theorems about all inputs) for Spec/HMAC.v.
   Vectors: RFC 2202 (HMAC-MD5, HMAC-SHA-1, cases 1-7), RFC 4231 (HMAC-SHA-224/256/
   384/512, cases 1-7; case 5 is published truncated to 128 bits, tested both as
   the published 16 bytes and as the full digest), GM/T 0042-2015 D.3 HMAC-SM3
   vector from /repo/test/kat-app/hmac_sm3.json.c, and LIBRARY-DERIVED
   ipad/opad state buffers produced by imb_hmac_ipad_opad() for key = 0x0b * 20. *)
From Coq Require Import String.
From IMB Require Import Lib.Bytes Spec.Hex Spec.SHA Spec.MD5 Spec.SM3 Spec.HMAC.
Local Open Scope N_scope.

Definition k_0b (n : nat) : bytes := repeat 0x0b n.
Definition k_aa (n : nat) : bytes := repeat 0xaa n.
Definition k_0c (n : nat) : bytes := repeat 0x0c n.
Definition k_jefe : bytes := ascii_bytes "Jefe".
Definition k_seq25 : bytes := hex "0102030405060708090a0b0c0d0e0f10111213141516171819".
Definition d_hi : bytes := ascii_bytes "Hi There".
Definition d_jefe : bytes := ascii_bytes "what do ya want for nothing?".
Definition d_dd50 : bytes := repeat 0xdd 50.
Definition d_cd50 : bytes := repeat 0xcd 50.
Definition d_trunc : bytes := ascii_bytes "Test With Truncation".
Definition d_2202_6 : bytes := ascii_bytes "Test Using Larger Than Block-Size Key - Hash Key First".
Definition d_2202_7 : bytes :=
  ascii_bytes "Test Using Larger Than Block-Size Key and Larger Than One Block-Size Data".
Definition d_4231_7 : bytes :=
  ascii_bytes ("This is a test using a larger than block-size key and a larger than "
    ++ "block-size data. The key needs to be hashed before being used by the HMAC algorithm.").

(* ---- RFC 2202 HMAC-MD5 ---- *)
Example test_rfc2202_hmac_md5_1 : hmac_md5 (k_0b 16) d_hi = hex "9294727a3638bb1c13f48ef8158bfc9d".
Proof. vm_compute. reflexivity. Qed.
Example test_rfc2202_hmac_md5_2 : hmac_md5 (k_jefe) d_jefe = hex "750c783e6ab0b503eaa86e310a5db738".
Proof. vm_compute. reflexivity. Qed.
Example test_rfc2202_hmac_md5_3 : hmac_md5 (k_aa 16) d_dd50 = hex "56be34521d144c88dbb8c733f0e8b3f6".
Proof. vm_compute. reflexivity. Qed.
Example test_rfc2202_hmac_md5_4 : hmac_md5 (k_seq25) d_cd50 = hex "697eaf0aca3a3aea3a75164746ffaa79".
Proof. vm_compute. reflexivity. Qed.
Example test_rfc2202_hmac_md5_5 : hmac_md5 (k_0c 16) d_trunc = hex "56461ef2342edc00f9bab995690efd4c".
Proof. vm_compute. reflexivity. Qed.
Example test_rfc2202_hmac_md5_6 : hmac_md5 (k_aa 80) d_2202_6 = hex "6b1ab7fe4bd7bf8f0b62e6ce61b9d0cd".
Proof. vm_compute. reflexivity. Qed.
Example test_rfc2202_hmac_md5_7 : hmac_md5 (k_aa 80) d_2202_7 = hex "6f630fad67cda0ee1fb1f562db3aa53e".
Proof. vm_compute. reflexivity. Qed.

(* ---- RFC 2202 HMAC-SHA1 ---- *)
Example test_rfc2202_hmac_sha1_1 : hmac_sha1 (k_0b 20) d_hi = hex "b617318655057264e28bc0b6fb378c8ef146be00".
Proof. vm_compute. reflexivity. Qed.
Example test_rfc2202_hmac_sha1_2 : hmac_sha1 (k_jefe) d_jefe = hex "effcdf6ae5eb2fa2d27416d5f184df9c259a7c79".
Proof. vm_compute. reflexivity. Qed.
Example test_rfc2202_hmac_sha1_3 : hmac_sha1 (k_aa 20) d_dd50 = hex "125d7342b9ac11cd91a39af48aa17b4f63f175d3".
Proof. vm_compute. reflexivity. Qed.
Example test_rfc2202_hmac_sha1_4 : hmac_sha1 (k_seq25) d_cd50 = hex "4c9007f4026250c6bc8414f9bf50c86c2d7235da".
Proof. vm_compute. reflexivity. Qed.
Example test_rfc2202_hmac_sha1_5 : hmac_sha1 (k_0c 20) d_trunc = hex "4c1a03424b55e07fe7f27be1d58bb9324a9a5a04".
Proof. vm_compute. reflexivity. Qed.
Example test_rfc2202_hmac_sha1_6 : hmac_sha1 (k_aa 80) d_2202_6 = hex "aa4ae5e15272d00e95705637ce8a3b55ed402112".
Proof. vm_compute. reflexivity. Qed.
Example test_rfc2202_hmac_sha1_7 : hmac_sha1 (k_aa 80) d_2202_7 = hex "e8e99d0f45237d786d6bbaa7965c7808bbff1a91".
Proof. vm_compute. reflexivity. Qed.

(* RFC 2202 case 5 published 96-bit truncations *)
Example test_rfc2202_hmac_md5_5_96 : firstn 12 (hmac_md5 (k_0c 16) d_trunc) = hex "56461ef2342edc00f9bab995".
Proof. vm_compute. reflexivity. Qed.
Example test_rfc2202_hmac_sha1_5_96 : firstn 12 (hmac_sha1 (k_0c 20) d_trunc) = hex "4c1a03424b55e07fe7f27be1".
Proof. vm_compute. reflexivity. Qed.

(* ---- RFC 4231 HMAC-SHA224 ---- *)
Example test_rfc4231_hmac_sha224_1 : hmac_sha224 (k_0b 20) d_hi = hex "896fb1128abbdf196832107cd49df33f47b4b1169912ba4f53684b22".
Proof. vm_compute. reflexivity. Qed.
Example test_rfc4231_hmac_sha224_2 : hmac_sha224 (k_jefe) d_jefe = hex "a30e01098bc6dbbf45690f3a7e9e6d0f8bbea2a39e6148008fd05e44".
Proof. vm_compute. reflexivity. Qed.
Example test_rfc4231_hmac_sha224_3 : hmac_sha224 (k_aa 20) d_dd50 = hex "7fb3cb3588c6c1f6ffa9694d7d6ad2649365b0c1f65d69d1ec8333ea".
Proof. vm_compute. reflexivity. Qed.
Example test_rfc4231_hmac_sha224_4 : hmac_sha224 (k_seq25) d_cd50 = hex "6c11506874013cac6a2abc1bb382627cec6a90d86efc012de7afec5a".
Proof. vm_compute. reflexivity. Qed.
Example test_rfc4231_hmac_sha224_5_128 : firstn 16 (hmac_sha224 (k_0c 20) d_trunc) = hex "0e2aea68a90c8d37c988bcdb9fca6fa8".
Proof. vm_compute. reflexivity. Qed.
(* full digest of case 5: not in the RFC, cross-checked with Python hmac *)
Example test_rfc4231_hmac_sha224_5 : hmac_sha224 (k_0c 20) d_trunc = hex "0e2aea68a90c8d37c988bcdb9fca6fa8099cd857c7ec4a1815cac54c".
Proof. vm_compute. reflexivity. Qed.
Example test_rfc4231_hmac_sha224_6 : hmac_sha224 (k_aa 131) d_2202_6 = hex "95e9a0db962095adaebe9b2d6f0dbce2d499f112f2d2b7273fa6870e".
Proof. vm_compute. reflexivity. Qed.
Example test_rfc4231_hmac_sha224_7 : hmac_sha224 (k_aa 131) d_4231_7 = hex "3a854166ac5d9f023f54d517d0b39dbd946770db9c2b95c9f6f565d1".
Proof. vm_compute. reflexivity. Qed.

(* ---- RFC 4231 HMAC-SHA256 ---- *)
Example test_rfc4231_hmac_sha256_1 : hmac_sha256 (k_0b 20) d_hi = hex "b0344c61d8db38535ca8afceaf0bf12b881dc200c9833da726e9376c2e32cff7".
Proof. vm_compute. reflexivity. Qed.
Example test_rfc4231_hmac_sha256_2 : hmac_sha256 (k_jefe) d_jefe = hex "5bdcc146bf60754e6a042426089575c75a003f089d2739839dec58b964ec3843".
Proof. vm_compute. reflexivity. Qed.
Example test_rfc4231_hmac_sha256_3 : hmac_sha256 (k_aa 20) d_dd50 = hex "773ea91e36800e46854db8ebd09181a72959098b3ef8c122d9635514ced565fe".
Proof. vm_compute. reflexivity. Qed.
Example test_rfc4231_hmac_sha256_4 : hmac_sha256 (k_seq25) d_cd50 = hex "82558a389a443c0ea4cc819899f2083a85f0faa3e578f8077a2e3ff46729665b".
Proof. vm_compute. reflexivity. Qed.
Example test_rfc4231_hmac_sha256_5_128 : firstn 16 (hmac_sha256 (k_0c 20) d_trunc) = hex "a3b6167473100ee06e0c796c2955552b".
Proof. vm_compute. reflexivity. Qed.
(* full digest of case 5: not in the RFC, cross-checked with Python hmac *)
Example test_rfc4231_hmac_sha256_5 : hmac_sha256 (k_0c 20) d_trunc = hex "a3b6167473100ee06e0c796c2955552bfa6f7c0a6a8aef8b93f860aab0cd20c5".
Proof. vm_compute. reflexivity. Qed.
Example test_rfc4231_hmac_sha256_6 : hmac_sha256 (k_aa 131) d_2202_6 = hex "60e431591ee0b67f0d8a26aacbf5b77f8e0bc6213728c5140546040f0ee37f54".
Proof. vm_compute. reflexivity. Qed.
Example test_rfc4231_hmac_sha256_7 : hmac_sha256 (k_aa 131) d_4231_7 = hex "9b09ffa71b942fcb27635fbcd5b0e944bfdc63644f0713938a7f51535c3a35e2".
Proof. vm_compute. reflexivity. Qed.

(* ---- RFC 4231 HMAC-SHA384 ---- *)
Example test_rfc4231_hmac_sha384_1 : hmac_sha384 (k_0b 20) d_hi = hex ("afd03944d84895626b0825f4ab46907f15f9dadbe4101ec682aa034c7cebc59c"
         ++ "faea9ea9076ede7f4af152e8b2fa9cb6").
Proof. vm_compute. reflexivity. Qed.
Example test_rfc4231_hmac_sha384_2 : hmac_sha384 (k_jefe) d_jefe = hex ("af45d2e376484031617f78d2b58a6b1b9c7ef464f5a01b47e42ec3736322445e"
         ++ "8e2240ca5e69e2c78b3239ecfab21649").
Proof. vm_compute. reflexivity. Qed.
Example test_rfc4231_hmac_sha384_3 : hmac_sha384 (k_aa 20) d_dd50 = hex ("88062608d3e6ad8a0aa2ace014c8a86f0aa635d947ac9febe83ef4e55966144b"
         ++ "2a5ab39dc13814b94e3ab6e101a34f27").
Proof. vm_compute. reflexivity. Qed.
Example test_rfc4231_hmac_sha384_4 : hmac_sha384 (k_seq25) d_cd50 = hex ("3e8a69b7783c25851933ab6290af6ca77a9981480850009cc5577c6e1f573b4e"
         ++ "6801dd23c4a7d679ccf8a386c674cffb").
Proof. vm_compute. reflexivity. Qed.
Example test_rfc4231_hmac_sha384_5_128 : firstn 16 (hmac_sha384 (k_0c 20) d_trunc) = hex "3abf34c3503b2a23a46efc619baef897".
Proof. vm_compute. reflexivity. Qed.
(* full digest of case 5: not in the RFC, cross-checked with Python hmac *)
Example test_rfc4231_hmac_sha384_5 : hmac_sha384 (k_0c 20) d_trunc = hex ("3abf34c3503b2a23a46efc619baef897f4c8e42c934ce55ccbae9740fcbc1af4"
         ++ "ca62269e2a37cd88ba926341efe4aeea").
Proof. vm_compute. reflexivity. Qed.
Example test_rfc4231_hmac_sha384_6 : hmac_sha384 (k_aa 131) d_2202_6 = hex ("4ece084485813e9088d2c63a041bc5b44f9ef1012a2b588f3cd11f05033ac4c6"
         ++ "0c2ef6ab4030fe8296248df163f44952").
Proof. vm_compute. reflexivity. Qed.
Example test_rfc4231_hmac_sha384_7 : hmac_sha384 (k_aa 131) d_4231_7 = hex ("6617178e941f020d351e2f254e8fd32c602420feb0b8fb9adccebb82461e99c5"
         ++ "a678cc31e799176d3860e6110c46523e").
Proof. vm_compute. reflexivity. Qed.

(* ---- RFC 4231 HMAC-SHA512 ---- *)
Example test_rfc4231_hmac_sha512_1 : hmac_sha512 (k_0b 20) d_hi = hex ("87aa7cdea5ef619d4ff0b4241a1d6cb02379f4e2ce4ec2787ad0b30545e17cde"
         ++ "daa833b7d6b8a702038b274eaea3f4e4be9d914eeb61f1702e696c203a126854").
Proof. vm_compute. reflexivity. Qed.
Example test_rfc4231_hmac_sha512_2 : hmac_sha512 (k_jefe) d_jefe = hex ("164b7a7bfcf819e2e395fbe73b56e0a387bd64222e831fd610270cd7ea250554"
         ++ "9758bf75c05a994a6d034f65f8f0e6fdcaeab1a34d4a6b4b636e070a38bce737").
Proof. vm_compute. reflexivity. Qed.
Example test_rfc4231_hmac_sha512_3 : hmac_sha512 (k_aa 20) d_dd50 = hex ("fa73b0089d56a284efb0f0756c890be9b1b5dbdd8ee81a3655f83e33b2279d39"
         ++ "bf3e848279a722c806b485a47e67c807b946a337bee8942674278859e13292fb").
Proof. vm_compute. reflexivity. Qed.
Example test_rfc4231_hmac_sha512_4 : hmac_sha512 (k_seq25) d_cd50 = hex ("b0ba465637458c6990e5a8c5f61d4af7e576d97ff94b872de76f8050361ee3db"
         ++ "a91ca5c11aa25eb4d679275cc5788063a5f19741120c4f2de2adebeb10a298dd").
Proof. vm_compute. reflexivity. Qed.
Example test_rfc4231_hmac_sha512_5_128 : firstn 16 (hmac_sha512 (k_0c 20) d_trunc) = hex "415fad6271580a531d4179bc891d87a6".
Proof. vm_compute. reflexivity. Qed.
(* full digest of case 5: not in the RFC, cross-checked with Python hmac *)
Example test_rfc4231_hmac_sha512_5 : hmac_sha512 (k_0c 20) d_trunc = hex ("415fad6271580a531d4179bc891d87a650188707922a4fbb36663a1eb16da008"
         ++ "711c5b50ddd0fc235084eb9d3364a1454fb2ef67cd1d29fe6773068ea266e96b").
Proof. vm_compute. reflexivity. Qed.
Example test_rfc4231_hmac_sha512_6 : hmac_sha512 (k_aa 131) d_2202_6 = hex ("80b24263c7c1a3ebb71493c1dd7be8b49b46d1f41b4aeec1121b013783f8f352"
         ++ "6b56d037e05f2598bd0fd2215d6a1e5295e64f73f63f0aec8b915a985d786598").
Proof. vm_compute. reflexivity. Qed.
Example test_rfc4231_hmac_sha512_7 : hmac_sha512 (k_aa 131) d_4231_7 = hex ("e37b6a775dc87dbaa4dfa9f96e5e3ffddebd71f8867289865df5a32d20cdc944"
         ++ "b6022cac3c4982b10d5eeb55c3e4de15134676fb6de0446065c97440fa8c6a58").
Proof. vm_compute. reflexivity. Qed.

(* ---- HMAC-SM3: GM/T 0042-2015 D.3 via /repo/test/kat-app/hmac_sm3.json.c ---- *)
Definition k_sm3 : bytes :=
  hex "0102030405060708090a0b0c0d0e0f101112131415161718191a1b1c1d1e1f202122232425".
Example test_hmac_sm3_gmt0042 :
  hmac_sm3 k_sm3 d_cd50 = hex "220bf579ded555393f0159f66c99877822a3ecf610d1552154b41d44b94db3ae".
Proof. vm_compute. reflexivity. Qed.

(* ---- record-based variants agree on the vectors above ---- *)
Example test_hmac_md_sha256 : hmac_md H_SHA256 (k_aa 131) d_4231_7 = hmac_sha256 (k_aa 131) d_4231_7.
Proof. vm_compute. reflexivity. Qed.
Example test_hmac_lib_sha1 : hmac_lib H_SHA1 (k_aa 80) d_2202_7 = Some (hmac_sha1 (k_aa 80) d_2202_7).
Proof. vm_compute. reflexivity. Qed.
Example test_hmac_lib_sha224 : hmac_lib H_SHA224 (k_aa 131) d_4231_7 = Some (hmac_sha224 (k_aa 131) d_4231_7).
Proof. vm_compute. reflexivity. Qed.
Example test_hmac_lib_sha384 : hmac_lib H_SHA384 (k_aa 131) d_4231_7 = Some (hmac_sha384 (k_aa 131) d_4231_7).
Proof. vm_compute. reflexivity. Qed.
Example test_hmac_lib_sha512 : hmac_lib H_SHA512 k_jefe d_jefe = Some (hmac_sha512 k_jefe d_jefe).
Proof. vm_compute. reflexivity. Qed.
Example test_hmac_lib_md5 : hmac_lib H_MD5 k_jefe d_jefe = Some (hmac_md5 k_jefe d_jefe).
Proof. vm_compute. reflexivity. Qed.
Example test_hmac_lib_sm3 : hmac_lib H_SM3 k_sm3 d_cd50 = Some (hmac_sm3 k_sm3 d_cd50).
Proof. vm_compute. reflexivity. Qed.

(* imb_hmac_ipad_opad refuses HMAC-MD5 keys longer than 64 bytes; 64 is fine *)
Example test_ipad_md5_long_key :
  (hmac_ipad_state H_MD5 (k_aa 65), hmac_opad_state H_MD5 (k_aa 65), hmac_lib H_MD5 (k_aa 80) d_2202_6)
  = (None, None, None).
Proof. vm_compute. reflexivity. Qed.
Example test_ipad_md5_64_key : hmac_lib H_MD5 (k_aa 64) d_hi = Some (hmac_md5 (k_aa 64) d_hi).
Proof. vm_compute. reflexivity. Qed.

(* ---- LIBRARY-DERIVED: buffers written by imb_hmac_ipad_opad(key = 0x0b * 20) ---- *)
Example test_lib_ipad_sha1 :
  hmac_ipad_state H_SHA1 (k_0b 20)
  = Some (hex "2a664c06b0d16eccb09afa6c7f132f04eb70a5ce").
Proof. vm_compute. reflexivity. Qed.
Example test_lib_opad_sha1 :
  hmac_opad_state H_SHA1 (k_0b 20)
  = Some (hex "cccc2ad6b3986a7e025b01dfe0c385d8cb84d19b").
Proof. vm_compute. reflexivity. Qed.
Example test_lib_ipad_sha224 :
  hmac_ipad_state H_SHA224 (k_0b 20)
  = Some (hex "07c0c4fea59f475dbbe956c445d538b48f2ad900ba3603c5c01584a4039bc763").
Proof. vm_compute. reflexivity. Qed.
Example test_lib_opad_sha224 :
  hmac_opad_state H_SHA224 (k_0b 20)
  = Some (hex "42351b409b8204e5cd9fffa6331fe6bb8d4e07f1887ab7bab18ba43c629aee12").
Proof. vm_compute. reflexivity. Qed.
Example test_lib_ipad_sha256 :
  hmac_ipad_state H_SHA256 (k_0b 20)
  = Some (hex "0418b22bf95bb9238c25e8b454e6b5fa1e92f211ee78eb4ffee590983680b764").
Proof. vm_compute. reflexivity. Qed.
Example test_lib_opad_sha256 :
  hmac_opad_state H_SHA256 (k_0b 20)
  = Some (hex "9f73e727832556d9e266d656e80d815f8a4f5eecb84f3d55ba20ff3c404b2310").
Proof. vm_compute. reflexivity. Qed.
Example test_lib_ipad_sha384 :
  hmac_ipad_state H_SHA384 (k_0b 20)
  = Some (hex ("309c69cde80f52e80e75b3d428c3d9835db25183bf62751b56d09458c66f2a76"
         ++ "df3031cdd1c92161a66f820376d07dc659cc9ac91805aa86034f0dd7c833d593")).
Proof. vm_compute. reflexivity. Qed.
Example test_lib_opad_sha384 :
  hmac_opad_state H_SHA384 (k_0b 20)
  = Some (hex ("75ec3f6d9ea592b2473d42ef041f573a5e29bb9ce854413161c132fb2e191643"
         ++ "625068f28ead18eed5e1716ea6a207837520fd31b53fcfdb0652ef8d06f42854")).
Proof. vm_compute. reflexivity. Qed.
Example test_lib_ipad_sha512 :
  hmac_ipad_state H_SHA512 (k_0b 20)
  = Some (hex ("0ebfea2ed70968f46649c33ac5507d49d17acd355017b87ba1b0169309cf0de1"
         ++ "e3533b8bc94a2790a4586e021d6eee30d465f22352073900a3a784f4c6772518")).
Proof. vm_compute. reflexivity. Qed.
Example test_lib_opad_sha512 :
  hmac_opad_state H_SHA512 (k_0b 20)
  = Some (hex ("87b29b545803975e1c77c8263ef79ade6cfbfc3d4d7da4d566cb455be7cb753d"
         ++ "cbc860b6ebe0b7993b841b848d4b7d5549f7a1ba3dad747b7ab4d2eba7af8b58")).
Proof. vm_compute. reflexivity. Qed.
Example test_lib_ipad_md5 :
  hmac_ipad_state H_MD5 (k_0b 20)
  = Some (hex "2a2f009efb9c79d21be7dbe864eac8a9").
Proof. vm_compute. reflexivity. Qed.
Example test_lib_opad_md5 :
  hmac_opad_state H_MD5 (k_0b 20)
  = Some (hex "c2c2a39bd81c6bbd74334b4dbdbd21f0").
Proof. vm_compute. reflexivity. Qed.
Example test_lib_ipad_sm3 :
  hmac_ipad_state H_SM3 (k_0b 20)
  = Some (hex "403d1a6b70356c1920b392102a29ece322bd68650e5061460f0b112948f39a62").
Proof. vm_compute. reflexivity. Qed.
Example test_lib_opad_sm3 :
  hmac_opad_state H_SM3 (k_0b 20)
  = Some (hex "56492e7bee1455ad01f14eda1a2ea30a3bfdd7eb45b792f14ee6fd1510537535").
Proof. vm_compute. reflexivity. Qed.

(* the job reads only the first md_state_bytes of each buffer *)
Example test_state_bytes :
  map md_state_bytes [H_SHA1; H_SHA224; H_SHA256; H_SHA384; H_SHA512; H_MD5; H_SM3]
  = [20; 32; 32; 64; 64; 16; 32]%nat.
Proof. vm_compute. reflexivity. Qed.
