(* Spec/SM4.v — SM4 block cipher (GB/T 32907-2016) and the ECB / CBC / CTR modes
   as computed by intel-ipsec-mb jobs IMB_CIPHER_SM4_ECB / SM4_CBC / SM4_CNTR,
   plus the IMB_SM4_KEYEXP round-key buffer layout.  Definitions only.

   Words are 32-bit N; a 16-byte block / key is read as 4 big-endian words.
   FK and CK are literally present in /repo/lib/sse_t1/sm4_sse.asm (SM4_FK,
   SM4_CK).  The S-box is not a literal table in /repo (the library computes it
   with AES-NI affine tricks); the table below is the GB/T 32907-2016 table
   (first row d6 90 e9 fe cc e1 3d b7 16 b6 14 c2 28 fb 2c 05) and was
   cross-checked entry by entry against the library's key expansion. *)
From IMB Require Import Lib.Bytes.
Local Open Scope N_scope.

(* S-box as printed in the standard: 16 rows (high nibble of the input) of
   16 columns (low nibble). *)
Definition sm4_sbox : list (list N) :=
  [[214; 144; 233; 254; 204; 225;  61; 183;  22; 182;  20; 194;  40; 251;  44;   5];
   [43; 103; 154; 118;  42; 190;   4; 195; 170;  68;  19;  38;  73; 134;   6; 153];
   [156;  66;  80; 244; 145; 239; 152; 122;  51;  84;  11;  67; 237; 207; 172;  98];
   [228; 179;  28; 169; 201;   8; 232; 149; 128; 223; 148; 250; 117; 143;  63; 166];
   [71;   7; 167; 252; 243; 115;  23; 186; 131;  89;  60;  25; 230; 133;  79; 168];
   [104; 107; 129; 178; 113; 100; 218; 139; 248; 235;  15;  75; 112;  86; 157;  53];
   [30;  36;  14;  94;  99;  88; 209; 162;  37;  34; 124;  59;   1;  33; 120; 135];
   [212;   0;  70;  87; 159; 211;  39;  82;  76;  54;   2; 231; 160; 196; 200; 158];
   [234; 191; 138; 210;  64; 199;  56; 181; 163; 247; 242; 206; 249;  97;  21; 161];
   [224; 174;  93; 164; 155;  52;  26;  85; 173; 147;  50;  48; 245; 140; 177; 227];
   [29; 246; 226;  46; 130; 102; 202;  96; 192;  41;  35; 171;  13;  83;  78; 111];
   [213; 219;  55;  69; 222; 253; 142;  47;   3; 255; 106; 114; 109; 108;  91;  81];
   [141;  27; 175; 146; 187; 221; 188; 127;  17; 217;  92;  65;  31;  16;  90; 216];
   [10; 193;  49; 136; 165; 205; 123; 189;  45; 116; 208;  18; 184; 229; 180; 176];
   [137; 105; 151;  74;  12; 150; 119; 126; 101; 185; 241;   9; 197; 110; 198; 132];
   [24; 240; 125; 236;  58; 220;  77;  32; 121; 238;  95;  62; 215; 203;  57;  72]].

Definition sm4_S (b : N) : N :=
  nth (N.to_nat (N.land b 15)) (nth (N.to_nat (N.land (N.shiftr b 4) 15)) sm4_sbox []) 0.

(* tau: S-box on each of the 4 bytes of a 32-bit word *)
Definition sm4_tau (a : N) : N :=
  N.lor (N.lor (N.shiftl (sm4_S (N.shiftr a 24)) 24) (N.shiftl (sm4_S (N.shiftr a 16)) 16))
        (N.lor (N.shiftl (sm4_S (N.shiftr a 8)) 8) (sm4_S a)).

(* linear maps L (rounds) and L' (key expansion) *)
Definition sm4_L (b : N) : N :=
  N.lxor (N.lxor (N.lxor b (rotl32 b 2)) (N.lxor (rotl32 b 10) (rotl32 b 18))) (rotl32 b 24).
Definition sm4_L' (b : N) : N :=
  N.lxor (N.lxor b (rotl32 b 13)) (rotl32 b 23).

Definition sm4_T  (a : N) : N := sm4_L  (sm4_tau a).
Definition sm4_T' (a : N) : N := sm4_L' (sm4_tau a).

Definition sm4_FK : list N := [0xA3B1BAC6; 0x56AA3350; 0x677D9197; 0xB27022DC].

Definition sm4_CK : list N :=
  [0x00070E15; 0x1C232A31; 0x383F464D; 0x545B6269;
   0x70777E85; 0x8C939AA1; 0xA8AFB6BD; 0xC4CBD2D9;
   0xE0E7EEF5; 0xFC030A11; 0x181F262D; 0x343B4249;
   0x50575E65; 0x6C737A81; 0x888F969D; 0xA4ABB2B9;
   0xC0C7CED5; 0xDCE3EAF1; 0xF8FF060D; 0x141B2229;
   0x30373E45; 0x4C535A61; 0x686F767D; 0x848B9299;
   0xA0A7AEB5; 0xBCC3CAD1; 0xD8DFE6ED; 0xF4FB0209;
   0x10171E25; 0x2C333A41; 0x484F565D; 0x646B7279].

(* ------------------------------------------------------------------------- *)
(* Key expansion: rk_i = K_{i+4} = K_i xor T'(K_{i+1} xor K_{i+2} xor K_{i+3} xor CK_i) *)
(* ------------------------------------------------------------------------- *)
Fixpoint sm4_ke_rounds (cks : list N) (k0 k1 k2 k3 : N) : list N :=
  match cks with
  | [] => []
  | ck :: t =>
      let rk := N.lxor k0 (sm4_T' (N.lxor (N.lxor k1 k2) (N.lxor k3 ck))) in
      rk :: sm4_ke_rounds t k1 k2 k3 rk
  end.

(* the i-th big-endian 32-bit word of a byte string (0 beyond the end) *)
Definition word_be_at (l : bytes) (i : nat) : N := be_to_N (firstn 4 (skipn (4 * i) l)).

(* key : 16 bytes -> 32 round keys rk_0 .. rk_31 *)
Definition sm4_key_expand (key : bytes) : list N :=
  sm4_ke_rounds sm4_CK
    (N.lxor (w32 (word_be_at key 0)) (nth_N sm4_FK 0))
    (N.lxor (w32 (word_be_at key 1)) (nth_N sm4_FK 1))
    (N.lxor (w32 (word_be_at key 2)) (nth_N sm4_FK 2))
    (N.lxor (w32 (word_be_at key 3)) (nth_N sm4_FK 3)).

(* ------------------------------------------------------------------------- *)
(* Block cipher: 32 rounds X_{i+4} = X_i xor T(X_{i+1} xor X_{i+2} xor X_{i+3} xor rk_i), *)
(* output (X35, X34, X33, X32).  Decryption = same with reversed round keys. *)
(* ------------------------------------------------------------------------- *)
Definition sm4_round (x : N * N * N * N) (rk : N) : N * N * N * N :=
  let '(x0, x1, x2, x3) := x in
  (x1, x2, x3, N.lxor x0 (sm4_T (N.lxor (N.lxor x1 x2) (N.lxor x3 rk)))).

Definition sm4_rounds (rks : list N) (x : N * N * N * N) : N * N * N * N :=
  fold_left sm4_round rks x.

(* 16-byte block under an explicit round-key list *)
Definition sm4_crypt_rk (rks : list N) (blk : bytes) : bytes :=
  let '(a, b, c, d) :=
    sm4_rounds rks (w32 (word_be_at blk 0), w32 (word_be_at blk 1),
                    w32 (word_be_at blk 2), w32 (word_be_at blk 3)) in
  be32 d ++ be32 c ++ be32 b ++ be32 a.

Definition sm4_encrypt_block (key blk : bytes) : bytes :=
  sm4_crypt_rk (sm4_key_expand key) blk.
Definition sm4_decrypt_block (key blk : bytes) : bytes :=
  sm4_crypt_rk (rev (sm4_key_expand key)) blk.

(* ------------------------------------------------------------------------- *)
(* Modes (own small definitions, nothing shared with AES).                   *)
(* The message is cut with [chunks 16]; only the last chunk can be short.    *)
(* ------------------------------------------------------------------------- *)

(* ECB / CBC: the library kernels are called with len & ~15
   (SUBMIT_JOB_SM4_ECB_*/SM4_CBC_* in /repo/lib/include/mb_mgr_job_api.h) and
   the job checker rejects lengths that are 0 or not a multiple of 16
   (/repo/lib/include/mb_mgr_job_check.h), so a short trailing chunk is dropped. *)
Fixpoint sm4_ecb_chunks (rks : list N) (cs : list bytes) : bytes :=
  match cs with
  | [] => []
  | c :: t => if Nat.eqb (length c) 16
              then sm4_crypt_rk rks c ++ sm4_ecb_chunks rks t
              else []
  end.

Definition sm4_ecb_enc (key msg : bytes) : bytes :=
  sm4_ecb_chunks (sm4_key_expand key) (chunks 16 msg).
Definition sm4_ecb_dec (key msg : bytes) : bytes :=
  sm4_ecb_chunks (rev (sm4_key_expand key)) (chunks 16 msg).

Fixpoint sm4_cbc_enc_chunks (rks : list N) (iv : bytes) (cs : list bytes) : bytes :=
  match cs with
  | [] => []
  | c :: t => if Nat.eqb (length c) 16
              then let y := sm4_crypt_rk rks (xor_bytes c iv) in
                   y ++ sm4_cbc_enc_chunks rks y t
              else []
  end.

(* [drks] = reversed round keys *)
Fixpoint sm4_cbc_dec_chunks (drks : list N) (iv : bytes) (cs : list bytes) : bytes :=
  match cs with
  | [] => []
  | c :: t => if Nat.eqb (length c) 16
              then xor_bytes (sm4_crypt_rk drks c) iv ++ sm4_cbc_dec_chunks drks c t
              else []
  end.

(* IMB_CIPHER_SM4_CBC: key, iv : 16 bytes; length msg a non-zero multiple of 16 *)
Definition sm4_cbc_enc (key iv msg : bytes) : bytes :=
  sm4_cbc_enc_chunks (sm4_key_expand key) iv (chunks 16 msg).
Definition sm4_cbc_dec (key iv msg : bytes) : bytes :=
  sm4_cbc_dec_chunks (rev (sm4_key_expand key)) iv (chunks 16 msg).

(* IMB_CIPHER_SM4_CNTR (sm4_ctr_sse in /repo/lib/sse_t1/sm4_sse.asm; used by
   every manager that can be built here): any length >= 1, the last block may
   be partial.  IV of 16 bytes: used verbatim as the first counter block.  IV of
   12 bytes (nonce || ESP IV): the counter block is IV || 00 00 00 01.
   Between blocks only the LAST 4 BYTES are incremented, as a big-endian 32-bit
   counter that wraps modulo 2^32 without carry into byte 11
   (pshufb byteswap / paddd ddq_add_1 / pshufb byteswap). *)
Definition sm4_ctr_init (iv : bytes) : bytes * N :=
  if Nat.eqb (length iv) 16
  then (firstn 12 iv, be_to_N (skipn 12 iv))
  else (firstn 12 iv, 1).

Fixpoint sm4_ctr_chunks (rks : list N) (nonce : bytes) (ctr : N) (cs : list bytes) : bytes :=
  match cs with
  | [] => []
  | c :: t => xor_bytes c (sm4_crypt_rk rks (nonce ++ be32 ctr))
              ++ sm4_ctr_chunks rks nonce (add32 ctr 1) t
  end.

(* encryption and decryption are the same function *)
Definition sm4_ctr (key iv msg : bytes) : bytes :=
  let '(nonce, ctr) := sm4_ctr_init iv in
  sm4_ctr_chunks (sm4_key_expand key) nonce ctr (chunks 16 msg).

(* ------------------------------------------------------------------------- *)
(* IMB_SM4_KEYEXP(mgr, key, enc, dec) (sm4_set_key_sse): two buffers of       *)
(* 32 x uint32_t in NATIVE (little-endian) byte order:                        *)
(*   enc[i] = rk_i,  dec[i] = rk_{31-i}.                                      *)
(* Returned as the two 128-byte memory images (enc, dec).                     *)
(* ------------------------------------------------------------------------- *)
Definition sm4_keyexp_lib (key : bytes) : bytes * bytes :=
  let rks := sm4_key_expand key in
  (flat_map le32 rks, flat_map le32 (rev rks)).
