(* Spec/Poly1305.v — Poly1305 one-time authenticator (RFC 8439 §2.5) and the
   IMB_AUTH_POLY1305 job.  Definitions only; tests in Spec/Poly1305_Tests.v.

   Arithmetic is on N modulo p = 2^130 - 5 (the accumulator is kept fully
   reduced after each block; the library keeps a partially reduced value in
   three 64-bit limbs, the final tag is the same).

   Library-defined behaviour (see CHACHA_CRC_API.md):
   * IMB_AUTH_POLY1305: key = job->u.POLY1305._key, 32 raw bytes (r || s),
     message = src[hash_start .. hash_start+msg_len_to_hash), tag length must
     be exactly 16 (/repo/lib/include/mb_mgr_job_check.h, case IMB_AUTH_POLY1305;
     auth_tag_len_ipsec[] = 16).  msg_len_to_hash = 0 is accepted and yields
     tag = s. *)
From IMB Require Import Lib.Bytes.
Local Open Scope N_scope.

(* p = 2^130 - 5 *)
Definition poly_p : N := 1361129467683753853853498429727072845819.

(* r &= 0x0ffffffc0ffffffc0ffffffc0fffffff (RFC 8439 §2.5.1) *)
Definition poly_clamp_mask : N := 21267647620597763993911028882763415551.
Definition poly_clamp_r (r : N) : N := N.land r poly_clamp_mask.

(* r and s from the 32-byte one-time key: r = clamp(le(key[0..16))), s = le(key[16..32)) *)
Definition poly_key_r (key : bytes) : N := poly_clamp_r (le_to_N (firstn 16 key)).
Definition poly_key_s (key : bytes) : N := le_to_N (firstn 16 (skipn 16 key)).

(* One block step: acc' = ((acc + n) * r) mod p where n = le(blk) + 2^k is the
   block (at most 16 bytes, read little-endian) with the pad bit appended:
   - full = true : pad bit at 2^128 whatever the block length, i.e. the block
     is first zero padded to 16 bytes (used for whole 16-byte blocks, and for
     the zero padded last AAD / ciphertext block of the AEAD construction);
   - full = false: pad bit at 2^(8*length blk) (RFC 8439 §2.5.1 treatment of a
     short final block of plain Poly1305).
   For a 16-byte block both choices coincide. [r] is expected already clamped. *)
Definition poly_block_n (blk : bytes) (full : bool) : N :=
  let b := firstn 16 blk in
  le_to_N b + N.shiftl 1 (if full then 128 else 8 * N.of_nat (length b)).

Definition poly_block_acc (acc r : N) (blk : bytes) (full : bool) : N :=
  ((acc + poly_block_n blk full) * r) mod poly_p.

(* absorb a list of blocks *)
Fixpoint poly_blocks (acc r : N) (bs : list bytes) (full : bool) : N :=
  match bs with
  | [] => acc
  | b :: t => poly_blocks (poly_block_acc acc r b full) r t full
  end.

(* absorb a byte string split into 16-byte blocks (last one may be short and is
   handled according to [full]); the empty string leaves acc unchanged *)
Definition poly_update (acc r : N) (msg : bytes) (full : bool) : N :=
  poly_blocks acc r (chunks 16 msg) full.

(* tag = (acc + s) mod 2^128, 16 bytes little-endian *)
Definition poly_finish (acc s : N) : bytes := N_to_le 16 (acc + s).

(* RFC 8439 §2.5: poly1305_mac key(32) msg : 16 bytes *)
Definition poly1305_mac (key msg : bytes) : bytes :=
  poly_finish (poly_update 0 (poly_key_r key) msg false) (poly_key_s key).

(* IMB_AUTH_POLY1305 job: auth_tag_output[0..16) *)
Definition poly1305_job_tag_len : nat := 16.
Definition poly1305_job (key msg : bytes) : bytes := poly1305_mac key msg.
