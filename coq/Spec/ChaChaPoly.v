(* Spec/ChaChaPoly.v — AEAD_CHACHA20_POLY1305 (RFC 8439 §2.6, §2.8) as computed by
   an IMB_CIPHER_CHACHA20_POLY1305 + IMB_AUTH_CHACHA20_POLY1305 job.
   Definitions only; tests in Spec/ChaChaPoly_Tests.v.

   Library-defined behaviour (see CHACHA_CRC_API.md; source
   /repo/lib/x86_64/chacha20_poly1305.c, aead_chacha20_poly1305()):
   * key 32 bytes (enc_keys, raw), iv_len_in_bytes must be 12, tag length must be
     16 (auth_tag_len_ipsec[]), msg_len_to_cipher may be 0.
   * Poly1305 one-time key = first 32 bytes of the ChaCha20 block with counter 0;
     the text is ciphered with counters 1,2,...
   * encrypt: tag over aad and the produced ciphertext (job->dst);
     decrypt: tag over aad and the given ciphertext (job->src + hash offset), then
     decrypt.  The library does NOT compare tags on decrypt; it writes the
     computed tag to auth_tag_output and the caller compares.
   * The model below takes msg_len_to_hash = msg_len_to_cipher and
     hash_start = cipher_start (the only meaningful use; the library hashes
     msg_len_to_hash bytes whatever msg_len_to_cipher is). *)
From IMB Require Import Lib.Bytes Spec.ChaCha20 Spec.Poly1305.
Local Open Scope N_scope.

(* RFC 8439 §2.6: one-time Poly1305 key = first 32 bytes of block 0 *)
Definition poly1305_key_gen (key nonce : bytes) : bytes :=
  firstn 32 (chacha20_block key 0 nonce).

(* zero padding up to the next multiple of 16 (nothing if already aligned) *)
Definition pad16 (l : bytes) : bytes :=
  zeros (N.to_nat (N.land (16 - N.land (N.of_nat (length l)) 15) 15)).

(* RFC 8439 §2.8 mac_data = aad | pad16 | ct | pad16 | le64 |aad| | le64 |ct| *)
Definition chachapoly_mac_data (aad ct : bytes) : bytes :=
  aad ++ (pad16 aad ++ (ct ++ (pad16 ct ++
    (le64 (N.of_nat (length aad)) ++ le64 (N.of_nat (length ct)))))).

Definition chachapoly_tag (key nonce aad ct : bytes) : bytes :=
  poly1305_mac (poly1305_key_gen key nonce) (chachapoly_mac_data aad ct).

(* The same tag through the incremental pieces (zero padded blocks = pad bit at
   2^128); this is how the library (poly1305_aead_update) and a streaming /
   SGL model proceed.  chachapoly_tag_inc = chachapoly_tag (checked on vectors
   in the tests). *)
Definition chachapoly_tag_inc (key nonce aad ct : bytes) : bytes :=
  let otk := poly1305_key_gen key nonce in
  let r := poly_key_r otk in
  let acc := poly_update 0 r aad true in
  let acc := poly_update acc r ct true in
  let acc := poly_block_acc acc r
               (le64 (N.of_nat (length aad)) ++ le64 (N.of_nat (length ct))) true in
  poly_finish acc (poly_key_s otk).

(* (ciphertext, 16-byte tag) *)
Definition chachapoly_enc (key nonce aad pt : bytes) : bytes * bytes :=
  let ct := chacha20 key nonce 1 pt in
  (ct, chachapoly_tag key nonce aad ct).

(* (plaintext, 16-byte tag computed over the received ciphertext); the caller
   compares the tag (truncate with firstn if a shorter tag is used elsewhere) *)
Definition chachapoly_dec (key nonce aad ct : bytes) : bytes * bytes :=
  (chacha20 key nonce 1 ct, chachapoly_tag key nonce aad ct).
