(* Spec/KeyPrep.v — the key-preparation helpers of intel-ipsec-mb (property C11): what each helper
   writes into its output buffers, byte for byte, as a function of the raw key.  Definitions only
   (proofs: Proofs/KeyPrepProofs.v).  The algorithm specifications come from the Spec files; this
   file adds the LIBRARY-side formulations where the code takes a route of its own (CMAC doubling
   on two 64-bit halves, HMAC pad block assembled in a 128-byte scratch buffer, GHASH key-power
   tables per architecture, IV generators written with 32-bit stores), so that Proofs/KeyPrepProofs.v
   can show both formulations equal for every input.

   Helper                                   model (bytes written)
   IMB_AES_KEYEXP_128/192/256               kp_aes_keyexp          (enc_keys, dec_keys)
   IMB_AES_CMAC_SUBKEY_GEN_128/256          kp_cmac_subkeys        (K1, K2)
   IMB_AES_XCBC_KEYEXP                      kp_xcbc_keyexp         (k1_exp 176 B, K2, K3)
   imb_hmac_ipad_opad                       kp_hmac_ipad_opad      option (ipad state, opad state)
   IMB_SHAxxx_ONE_BLOCK / IMB_MD5_ONE_BLOCK kp_one_block
   IMB_AES128/192/256_GCM_PRE, _PRECOMP     kp_gcm_pre layout      (expanded keys, hash-key table)
   IMB_GHASH_PRE                            kp_ghash_table layout
   IMB_DES_KEYSCHED                         kp_des_keysched        128 B
   IMB_SM4_KEYEXP                           kp_sm4_keyexp          (enc 128 B, dec 128 B)
   IMB_KASUMI_INIT_F8/F9_KEY_SCHED          kp_kasumi_f8/f9_sched  256 B (sk16 then msk16)
   IMB_SNOW3G_INIT_KEY_SCHED                kp_snow3g_sched        16 B
   zuc/snow3g/kasumi *_iv_gen               kp_*_iv_gen            option bytes (None = returns -1) *)
From IMB Require Import Lib.Bytes Spec.AES Spec.CMAC Spec.SHA Spec.MD5 Spec.SM3 Spec.HMAC
                        Spec.GF128 Spec.GCM Spec.DES Spec.SM4 Spec.KASUMI Spec.SNOW3G Spec.ZUC.
Local Open Scope N_scope.

(* ------------------------------------------------------------------------------------------ *)
(* AES key expansion (lib/x86_64/aes_keyexp_128/192/256.asm)                                    *)
(* ------------------------------------------------------------------------------------------ *)
Definition kp_aes_keyexp (key : bytes) : bytes * bytes :=
  (concat (aes_key_expand key), concat (aes_dec_schedule key)).

(* ------------------------------------------------------------------------------------------ *)
(* CMAC sub-keys (lib/x86_64/aes_cmac_subkey_gen.asm): the block is byte-swapped into a 128-bit  *)
(* register, each 64-bit half is shifted left by one (psllq), bit 63 of the low half is carried  *)
(* into bit 64 (por xmm_bit64), and if bit 127 was set const_Rb = 0x87 is xored in.              *)
(* ------------------------------------------------------------------------------------------ *)
Definition cmac_dbl_lib_N (x : N) : N :=
  let hi := N.shiftr x 64 in
  let lo := w64 x in
  let hi1 := w64 (N.shiftl hi 1) in                       (* psllq: per 64-bit lane *)
  let lo1 := w64 (N.shiftl lo 1) in
  let hi2 := if N.testbit lo 63 then N.lor hi1 1 else hi1 in  (* carry bit -> xmm_bit64 *)
  let y := N.lor (N.shiftl hi2 64) lo1 in
  if N.testbit hi 63 then N.lxor y 135 else y.           (* bit 127 -> xor const_Rb *)

Definition cmac_dbl_lib (b : bytes) : bytes := N_to_be 16 (cmac_dbl_lib_N (be_to_N b)).

Definition kp_cmac_subkeys (key : bytes) : bytes * bytes :=
  let l := aes_enc_rk (aes_key_expand key) (zeros 16) in
  let k1 := cmac_dbl_lib l in
  (k1, cmac_dbl_lib k1).

(* ------------------------------------------------------------------------------------------ *)
(* XCBC (lib/x86_64/aes_xcbc_expand_key.c)                                                      *)
(* ------------------------------------------------------------------------------------------ *)
Definition kp_xcbc_keyexp (key : bytes) : bytes * bytes * bytes :=
  let '(k1e, k2, k3) := xcbc_keys key in (concat k1e, k2, k3).

(* ------------------------------------------------------------------------------------------ *)
(* HMAC ipad/opad (lib/x86_64/hmac_ipad_opad.c), statement by statement:                        *)
(*   local_key_len = key_len <= BLOCK ? key_len : DIGEST_SIZE   (MD5: key_len > 64 -> error)     *)
(*   key[] = local_key_len == key_len ? pkey : HASH(pkey)                                        *)
(*   memset(buf, pad, 128); for (i < local_key_len) buf[i] ^= key[i]; ONE_BLOCK(buf, out)        *)
(* ------------------------------------------------------------------------------------------ *)
Definition kp_hmac_local_len (X : md_hash) (klen : nat) : nat :=
  if Nat.leb klen (md_block X) then klen else md_dlen X.

Definition kp_hmac_keybuf (X : md_hash) (key : bytes) : bytes :=
  if Nat.eqb (kp_hmac_local_len X (length key)) (length key) then key else md_full X key.

(* the 128-byte scratch buffer after the xor loop *)
Definition kp_hmac_buf (X : md_hash) (pad : N) (key : bytes) : bytes :=
  let k := firstn (kp_hmac_local_len X (length key)) (kp_hmac_keybuf X key) in
  xor_bytes_l (repeat pad 128) k.

(* the block the one-block hash reads *)
Definition kp_hmac_block (X : md_hash) (pad : N) (key : bytes) : bytes :=
  firstn (md_block X) (kp_hmac_buf X pad key).

Definition kp_one_block (X : md_hash) (block : bytes) : bytes :=
  md_ser X (md_compress X (md_init X) block).

Definition kp_hmac_refused (X : md_hash) (key : bytes) : bool :=
  Nat.ltb (md_block X) (length key) && negb (md_ipad_long_key X).

Definition kp_hmac_ipad_opad (X : md_hash) (key : bytes) : option (bytes * bytes) :=
  if kp_hmac_refused X key then None
  else Some (kp_one_block X (kp_hmac_block X 0x36 key), kp_one_block X (kp_hmac_block X 0x5c key)).

(* the seven algorithms imb_hmac_ipad_opad accepts *)
Definition hmac_hashes : list md_hash := [H_SHA1; H_SHA224; H_SHA256; H_SHA384; H_SHA512; H_MD5; H_SM3].

(* ------------------------------------------------------------------------------------------ *)
(* GCM / GHASH key pre-computation (lib/include/gcm_*.inc, struct gcm_key_data).                *)
(* expanded_keys[0 .. 16*(Nr+1)) = AES encryption round keys; from offset 240 the table of hash  *)
(* key powers, every entry a 16-byte little-endian image of a 128-bit register holding           *)
(*   HK_i = (H^i << 1) mod poly                                                                  *)
(* where the register value of a block is be_to_N of its bytes (pshufb SHUF_MASK), << 1 mod     *)
(* poly is a 128-bit left shift with 0xC2000000000000000000000000000001 xored in when bit 127   *)
(* falls out (multiplication by x^-1 in the GCM bit order), and H^i is the GF(2^128) power.      *)
(* Karatsuba entries (SSE):  HK_i_k = (hi64 xor lo64) in both halves.                            *)
(* x-POLY entries (AVX2/AVX512):  HKK_i = clmul(lo64(HK_i), 0xC200000000000000) xor swap64(HK_i). *)
(* Layouts (union ghash_keys; which arch stores which entries, in which order):                  *)
(*   L_SSE          sse t1/t2/t3        HK_8..HK_1, then HK_1_k..HK_8_k                (16 entries) *)
(*   L_AVX2         avx2 t1, avx512 t1  HK_8, HKK_8, HK_7, HKK_7, ..., HK_1, HKK_1     (16 entries) *)
(*   L_VAES_AVX2    avx2 t2 (VAES)      HK_16..HK_1, then HKK_16..HKK_1                (32 entries) *)
(*   L_VAES_AVX512  avx512 t2 (VAES)    HK_32..HK_1, then HKK_32..HKK_1                (64 entries) *)
(* ------------------------------------------------------------------------------------------ *)
Definition ghash_poly : N := 0xC2000000000000000000000000000001.

Definition ghash_shl1 (x : N) : N :=
  let y := w128 (N.shiftl x 1) in
  if N.testbit x 127 then N.lxor y ghash_poly else y.

(* carry-less 64 x 64 -> 128 bit multiplication (pclmulqdq) *)
Fixpoint clmul_loop (n : nat) (a b acc : N) : N :=
  match n with
  | O => acc
  | S k => clmul_loop k (N.div2 a) (N.double b) (if N.odd a then N.lxor acc b else acc)
  end.
Definition clmul64 (a b : N) : N := clmul_loop 64 (w64 a) (w64 b) 0.

(* H^1 .. H^n as GCM field elements (be_to_N convention of Spec/GF128.v) *)
Fixpoint gf_powers (n : nat) (h cur : N) : list N :=
  match n with
  | O => []
  | S k => cur :: gf_powers k h (gf128_mul cur h)
  end.

Definition hk_entry (p : N) : bytes := N_to_le 16 (ghash_shl1 p).
Definition hk_k_entry (p : N) : bytes :=
  let s := ghash_shl1 p in
  let x := N.lxor (N.shiftr s 64) (w64 s) in
  N_to_le 16 (N.lor (N.shiftl x 64) x).
Definition hkk_entry (p : N) : bytes :=
  let s := ghash_shl1 p in
  let lo := w64 s in
  let hi := N.shiftr s 64 in
  N_to_le 16 (N.lxor (clmul64 lo 0xC200000000000000) (N.lor (N.shiftl lo 64) hi)).

Inductive ghash_layout := L_SSE | L_AVX2 | L_VAES_AVX2 | L_VAES_AVX512.

(* the table as written from offset 240 of struct gcm_key_data, given H (16 bytes) *)
Definition kp_ghash_table (lay : ghash_layout) (h : bytes) : bytes :=
  let hn := be_to_N h in
  match lay with
  | L_SSE =>
      let ps := gf_powers 8 hn hn in
      flat_map hk_entry (rev ps) ++ flat_map hk_k_entry ps
  | L_AVX2 =>
      let ps := gf_powers 8 hn hn in
      flat_map (fun p => hk_entry p ++ hkk_entry p) (rev ps)
  | L_VAES_AVX2 =>
      let ps := gf_powers 16 hn hn in
      flat_map hk_entry (rev ps) ++ flat_map hkk_entry (rev ps)
  | L_VAES_AVX512 =>
      let ps := gf_powers 32 hn hn in
      flat_map hk_entry (rev ps) ++ flat_map hkk_entry (rev ps)
  end.

(* IMB_AESxxx_GCM_PRE: (first 16*(Nr+1) bytes of expanded_keys, table at offset 240) *)
Definition kp_gcm_pre (lay : ghash_layout) (key : bytes) : bytes * bytes :=
  (concat (aes_key_expand key), kp_ghash_table lay (gcm_hash_key key)).

(* ------------------------------------------------------------------------------------------ *)
(* DES, SM4, KASUMI, SNOW3G                                                                      *)
(* ------------------------------------------------------------------------------------------ *)
Definition kp_des_keysched (key : bytes) : bytes := des_key_schedule_lib key.

Definition kp_sm4_keyexp (key : bytes) : bytes * bytes := sm4_keyexp_lib key.

(* kasumi_key_sched_t { uint16_t sk16[64]; uint16_t msk16[64]; } in host (little-endian) order *)
Definition le16 (x : N) : bytes := N_to_le 2 x.
Definition kp_kasumi_f8_sched (key : bytes) : bytes :=
  let '(sk, msk) := kasumi_f8_key_sched key in flat_map le16 sk ++ flat_map le16 msk.
Definition kp_kasumi_f9_sched (key : bytes) : bytes :=
  let '(sk, msk) := kasumi_f9_key_sched key in flat_map le16 sk ++ flat_map le16 msk.

(* snow3g_key_schedule_t { uint32_t k[4]; }: k[3] = BSWAP32(key32[0]) ... k[0] = BSWAP32(key32[3])
   (lib/include/snow3g_common.h SNOW3G_INIT_KEY_SCHED), each stored little-endian *)
Definition bswap32 (x : N) : N :=
  N.lor (N.lor (N.shiftl (N.land x 0xff) 24) (N.shiftl (N.land x 0xff00) 8))
        (N.lor (N.land (N.shiftr x 8) 0xff00) (N.land (N.shiftr x 24) 0xff)).
Definition kp_snow3g_sched (key : bytes) : bytes :=
  let w i := le_to_N (firstn 4 (skipn (4 * i) key)) in
  le32 (bswap32 (w 3%nat)) ++ le32 (bswap32 (w 2%nat)) ++ le32 (bswap32 (w 1%nat)) ++ le32 (bswap32 (w 0%nat)).

(* ------------------------------------------------------------------------------------------ *)
(* 3GPP IV generators (lib/x86_64/zuc_iv.c, snow3g_iv.c, kasumi_iv.c), as the C code writes them: *)
(* 32-bit little-endian stores of bswap4(...), byte stores, memcpy, xor of single bytes.          *)
(* count/fresh are uint32_t, bearer/dir uint8_t: arguments are reduced accordingly.               *)
(* ------------------------------------------------------------------------------------------ *)
Definition store32 (x : N) : bytes := le32 (w32 x).

Definition set_nth (l : bytes) (i : nat) (v : N) : bytes := firstn i l ++ v :: skipn (S i) l.

Definition kp_zuc_eea3_iv_gen (count bearer dir : N) : option bytes :=
  if (32 <=? bearer) || (1 <? dir) then None
  else
    let iv0_3 := store32 (bswap32 (w32 count)) in                          (* iv32[0] = bswap4(count) *)
    let iv4 := w8 (N.shiftl bearer 3 + N.shiftl dir 2) in                   (* iv[4] *)
    let half := iv0_3 ++ [iv4; 0; 0; 0] in                                  (* memset(&iv[5], 0, 3) *)
    Some (half ++ half).                                                    (* memcpy(&iv[8], &iv[0], 8) *)

Definition kp_zuc_eia3_iv_gen (count bearer dir : N) : option bytes :=
  if (32 <=? bearer) || (1 <? dir) then None
  else
    let iv0_3 := store32 (bswap32 (w32 count)) in
    let iv4 := w8 (N.shiftl bearer 3) in
    let half := iv0_3 ++ [iv4; 0; 0; 0] in
    let iv := half ++ half in
    let d := w8 (N.shiftl dir 7) in
    let iv := set_nth iv 8 (N.lxor (nth 8 iv 0) d) in                        (* iv[8] ^= dir << 7 *)
    Some (set_nth iv 14 (N.lxor (nth 14 iv 0) d)).                           (* iv[14] ^= dir << 7 *)

Definition kp_snow3g_f8_iv_gen (count bearer dir : N) : option bytes :=
  if (32 <=? bearer) || (1 <? dir) then None
  else
    let w3 := store32 (bswap32 (w32 (N.lor (N.shiftl bearer 27) (N.shiftl dir 26)))) in
    let w2 := store32 (bswap32 (w32 count)) in
    (* iv32[1] = iv32[3]; iv32[0] = iv32[2] *)
    Some (w2 ++ w3 ++ w2 ++ w3).

Definition kp_snow3g_f9_iv_gen (count fresh dir : N) : option bytes :=
  if 1 <? dir then None
  else
    let b15 := if dir =? 0 then 0 else N.shiftl 1 15 in
    let b31 := if dir =? 0 then 0 else N.shiftl 1 31 in
    Some (store32 (bswap32 (w32 count)) ++ store32 (bswap32 (w32 fresh)) ++
          store32 (bswap32 (N.lxor (w32 count) b31)) ++ store32 (bswap32 (N.lxor (w32 fresh) b15))).

Definition kp_kasumi_f8_iv_gen (count bearer dir : N) : option bytes :=
  if (32 <=? bearer) || (1 <? dir) then None
  else Some (store32 (bswap32 (w32 count)) ++ [w8 (N.shiftl bearer 3 + N.shiftl dir 2); 0; 0; 0]).

Definition kp_kasumi_f9_iv_gen (count fresh : N) : bytes :=
  store32 (bswap32 (w32 count)) ++ store32 (bswap32 (w32 fresh)).

(* ------------------------------------------------------------------------------------------ *)
(* DES key-bit selection, symbolically: which FIPS key bit (1..64) each bit of each round subkey  *)
(* is.  PC-1 gives C0 (bits 1..28) and D0 (29..56) as key-bit numbers; round n rotates both      *)
(* halves left by the accumulated shift; PC-2 selects 48 of the 56 positions.                    *)
(* ------------------------------------------------------------------------------------------ *)
Definition rotl_list {A} (n : nat) (l : list A) : list A := skipn n l ++ firstn n l.

Fixpoint des_sel_rounds (shifts : list N) (c d : list nat) : list (list nat) :=
  match shifts with
  | [] => []
  | s :: t =>
      let c' := rotl_list (N.to_nat s) c in
      let d' := rotl_list (N.to_nat s) d in
      map (fun p => nth (p - 1) (c' ++ d') 0%nat) des_PC2_tbl :: des_sel_rounds t c' d'
  end.

(* 16 lists of 48 key-bit numbers: des_key_sel[n][j] = FIPS key bit feeding FIPS bit j+1 of K_{n+1} *)
Definition des_key_sel : list (list nat) :=
  des_sel_rounds des_shifts (firstn 28 des_PC1_tbl) (skipn 28 des_PC1_tbl).

(* FIPS bit t (1-based, MSB first) of a w-bit word *)
Definition fips_bit (w : nat) (x : N) (t : nat) : bool := N.testbit x (N.of_nat (w - t)).

(* number whose bits, MSB first, are the given list *)
Definition bits_to_N (l : list bool) : N :=
  fold_left (fun acc (b : bool) => if b then N.succ_double acc else N.double acc) l 0.

Definition des_key_schedule_sel (k : N) : list N :=
  map (fun sel => bits_to_N (map (fips_bit 64 k) sel)) des_key_sel.
