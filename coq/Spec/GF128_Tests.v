(* Spec/GF128_Tests.v — TESTS for Spec/GF128.v (GF(2^128) multiplication in GCM
   bit order, GHASH).  Point checks, not theorems about all inputs. *)
From Coq Require Import String.
From IMB Require Import Lib.Bytes Spec.Hex Spec.GF128.
Local Open Scope N_scope.
Local Open Scope string_scope.

Definition hN (s : string) : N := be_to_N (hex s).

(* constant R = 11100001 || 0^120 *)
Example gf128_R_value : gf128_R = hN "e1000000000000000000000000000000".
Proof. vm_compute. reflexivity. Qed.

(* The multiplicative identity is the block 80 00 .. 00 (coefficient of alpha^0
   is the leftmost bit). *)
Example gf128_one_left :
  gf128_mul (hN "80000000000000000000000000000000") (hN "66e94bd4ef8a2c3b884cfa59ca342b2e")
  = hN "66e94bd4ef8a2c3b884cfa59ca342b2e".
Proof. vm_compute. reflexivity. Qed.
Example gf128_one_right :
  gf128_mul (hN "0388dace60b6a392f328c2b971b2fe78") (hN "80000000000000000000000000000000")
  = hN "0388dace60b6a392f328c2b971b2fe78".
Proof. vm_compute. reflexivity. Qed.
(* alpha * alpha^127 = alpha^128 = R *)
Example gf128_reduction :
  gf128_mul (hN "40000000000000000000000000000000") (hN "00000000000000000000000000000001")
  = gf128_R.
Proof. vm_compute. reflexivity. Qed.

(* McGrew-Viega Test Case 2 intermediate: X_1 = C_1 * H *)
Example gf128_mv_tc2_X1 :
  gf128_mul (hN "0388dace60b6a392f328c2b971b2fe78") (hN "66e94bd4ef8a2c3b884cfa59ca342b2e")
  = hN "5e2ec746917062882c85b0685353deb7".
Proof. vm_compute. reflexivity. Qed.
(* ... and GHASH(H, {}, C) of the same test case *)
Example ghash_mv_tc2 :
  ghash (hex "66e94bd4ef8a2c3b884cfa59ca342b2e")
        (hex "0388dace60b6a392f328c2b971b2fe78 00000000000000000000000000000080")
  = hex "f38cbb1ad69223dcc3457ae5b6b0f885".
Proof. vm_compute. reflexivity. Qed.
(* Test Case 3: GHASH(H, {}, C) with H = b83b533708bf535d0aa6e52980d53b78 *)
Example ghash_mv_tc3 :
  ghash (hex "b83b533708bf535d0aa6e52980d53b78")
        (hex "42831ec2217774244b7221b784d0d49ce3aa212f2c02a4e035c17e2329aca12e
              21d514b25466931c7d8f6a5aac84aa051ba30b396a0aac973d58e091473f5985
              00000000000000000000000000000200")
  = hex "7f1b32b81b820d02614f8895ac1d4eac".
Proof. vm_compute. reflexivity. Qed.

(* the fast Horner loop and the literal SP 800-38D Algorithm 1 agree, and the
   product is commutative, on sample operands *)
Example gf128_fast_vs_ref :
  let xs := [hN "0388dace60b6a392f328c2b971b2fe78"; hN "66e94bd4ef8a2c3b884cfa59ca342b2e";
             hN "ffffffffffffffffffffffffffffffff"; hN "00000000000000000000000000000001";
             hN "80000000000000000000000000000000"; 0; hN "b83b533708bf535d0aa6e52980d53b78"] in
  forallb (fun x => forallb (fun y => N.eqb (gf128_mul x y) (gf128_mul_ref x y) && N.eqb (gf128_mul x y) (gf128_mul y x)) xs) xs
  = true.
Proof. vm_compute. reflexivity. Qed.

(* padding rule: a trailing partial block is zero-padded *)
Example ghash_pad :
  ghash (hex "66e94bd4ef8a2c3b884cfa59ca342b2e") (hex "0102030405")
  = ghash (hex "66e94bd4ef8a2c3b884cfa59ca342b2e") (hex "01020304050000000000000000000000").
Proof. vm_compute. reflexivity. Qed.

(* /repo/test/kat-app/ghash_test.json.c (IMB_GHASH with a zero initial tag;
   tag shorter than 16 = firstn) *)

Example ghash_repo_vec1 :
  firstn 16 (ghash (hex "a1f6258c877d5fcd8964484538bfc92c")
        (hex "000102030405060708090a0b0c0d0e0f"))
  = hex "9ee5a51fbe28a1153ef196f50bbf03ca".
Proof. vm_compute. reflexivity. Qed.

Example ghash_repo_vec2 :
  firstn 12 (ghash (hex "1f0a6dcc67b1872298227791dda19b6a")
        (hex "000102030405060708090a0b0c0d0e0f101112131415161718191a1b1c1d1e1f"))
  = hex "b540da44a38c9c2b958e4b0b".
Proof. vm_compute. reflexivity. Qed.

Example ghash_repo_vec3 :
  firstn 16 (ghash (hex "1f0a6dcc67b1872298227791dda19b6a")
        (hex "05"))
  = hex "e6ce47b5fbf2ef3751f15753ad564fed".
Proof. vm_compute. reflexivity. Qed.

Example ghash_repo_vec4 :
  firstn 16 (ghash (hex "1f0f8a3aca642edeb1df8a529a2976ee")
        (hex "9bb5929fa7aa83fd0cd1833a8ed54dda6aafa1c7a1323ad4929a2c83c6279259289011de194ed516ef4f72eb7918d5b1c522401492a2"))
  = hex "8ba53f5fd70e557c30d4f2e11a4ff8c7".
Proof. vm_compute. reflexivity. Qed.
