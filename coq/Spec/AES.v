(* Spec/AES.v — AES block cipher (FIPS-197), executable Gallina specification.
   Definitions only.  Conventions: see Spec/README_AGENTS.md.

   A state / block / round key is a [bytes] of length 16 in the byte order of
   the input block, i.e. FIPS-197 column-major order: byte index r + 4*c holds
   state element s[r,c].

   Library ties (checked in Spec/AES_Tests.v against libIPSec_MB.so):
   - [aes_key_expand k]   = the Nr+1 round keys IMB_AES_KEYEXP_{128,192,256}
                            writes to enc_keys (16 bytes each, contiguous);
   - [aes_dec_schedule k] = what it writes to dec_keys
                            (/repo/lib/x86_64/aes_keyexp_{128,192,256}.asm:
                             dec[0] = enc[Nr], dec[i] = AESIMC(enc[Nr-i]),
                             dec[Nr] = enc[0]).                              *)
From IMB Require Import Lib.Bytes.
Local Open Scope N_scope.

(* ------------------------------------------------------------------------- *)
(* GF(2^8) arithmetic, polynomial x^8 + x^4 + x^3 + x + 1 (FIPS-197 4.2)       *)
(* ------------------------------------------------------------------------- *)

(* multiplication by x ({02}).  For a < 256 the result is < 256:
   2a if a < 128, else 2a xor 0x11b.  (Inputs >= 256 are not reduced.) *)
Definition xtime (a : N) : N :=
  let d := N.shiftl a 1 in
  match N.land d 256 with 0 => d | _ => N.lxor d 283 end.

(* general multiplication, shift-and-add over the 8 bits of [b] *)
Fixpoint gmul_fuel (fuel : nat) (a b acc : N) : N :=
  match fuel with
  | O => acc
  | S f => gmul_fuel f (xtime a) (N.shiftr b 1)
             (if N.testbit b 0 then N.lxor acc a else acc)
  end.
Definition gmul (a b : N) : N := gmul_fuel 8%nat (w8 a) (w8 b) 0.

(* ------------------------------------------------------------------------- *)
(* S-boxes (FIPS-197 Figure 7 and Figure 14)                                  *)
(* ------------------------------------------------------------------------- *)

Definition aes_sbox : list N :=
  [99; 124; 119; 123; 242; 107; 111; 197;  48;   1; 103;  43; 254; 215; 171; 118;
   202; 130; 201; 125; 250;  89;  71; 240; 173; 212; 162; 175; 156; 164; 114; 192;
   183; 253; 147;  38;  54;  63; 247; 204;  52; 165; 229; 241; 113; 216;  49;  21;
     4; 199;  35; 195;  24; 150;   5; 154;   7;  18; 128; 226; 235;  39; 178; 117;
     9; 131;  44;  26;  27; 110;  90; 160;  82;  59; 214; 179;  41; 227;  47; 132;
    83; 209;   0; 237;  32; 252; 177;  91; 106; 203; 190;  57;  74;  76;  88; 207;
   208; 239; 170; 251;  67;  77;  51; 133;  69; 249;   2; 127;  80;  60; 159; 168;
    81; 163;  64; 143; 146; 157;  56; 245; 188; 182; 218;  33;  16; 255; 243; 210;
   205;  12;  19; 236;  95; 151;  68;  23; 196; 167; 126;  61; 100;  93;  25; 115;
    96; 129;  79; 220;  34;  42; 144; 136;  70; 238; 184;  20; 222;  94;  11; 219;
   224;  50;  58;  10;  73;   6;  36;  92; 194; 211; 172;  98; 145; 149; 228; 121;
   231; 200;  55; 109; 141; 213;  78; 169; 108;  86; 244; 234; 101; 122; 174;   8;
   186; 120;  37;  46;  28; 166; 180; 198; 232; 221; 116;  31;  75; 189; 139; 138;
   112;  62; 181; 102;  72;   3; 246;  14;  97;  53;  87; 185; 134; 193;  29; 158;
   225; 248; 152;  17; 105; 217; 142; 148; 155;  30; 135; 233; 206;  85;  40; 223;
   140; 161; 137;  13; 191; 230;  66; 104;  65; 153;  45;  15; 176;  84; 187;  22].

Definition aes_inv_sbox : list N :=
  [82;   9; 106; 213;  48;  54; 165;  56; 191;  64; 163; 158; 129; 243; 215; 251;
   124; 227;  57; 130; 155;  47; 255; 135;  52; 142;  67;  68; 196; 222; 233; 203;
    84; 123; 148;  50; 166; 194;  35;  61; 238;  76; 149;  11;  66; 250; 195;  78;
     8;  46; 161; 102;  40; 217;  36; 178; 118;  91; 162;  73; 109; 139; 209;  37;
   114; 248; 246; 100; 134; 104; 152;  22; 212; 164;  92; 204;  93; 101; 182; 146;
   108; 112;  72;  80; 253; 237; 185; 218;  94;  21;  70;  87; 167; 141; 157; 132;
   144; 216; 171;   0; 140; 188; 211;  10; 247; 228;  88;   5; 184; 179;  69;   6;
   208;  44;  30; 143; 202;  63;  15;   2; 193; 175; 189;   3;   1;  19; 138; 107;
    58; 145;  17;  65;  79; 103; 220; 234; 151; 242; 207; 206; 240; 180; 230; 115;
   150; 172; 116;  34; 231; 173;  53; 133; 226; 249;  55; 232;  28; 117; 223; 110;
    71; 241;  26; 113;  29;  41; 197; 137; 111; 183;  98;  14; 170;  24; 190;  27;
   252;  86;  62;  75; 198; 210; 121;  32; 154; 219; 192; 254; 120; 205;  90; 244;
    31; 221; 168;  51; 136;   7; 199;  49; 177;  18;  16;  89;  39; 128; 236;  95;
    96;  81; 127; 169;  25; 181;  74;  13;  45; 229; 122; 159; 147; 201; 156; 239;
   160; 224;  59;  77; 174;  42; 245; 176; 200; 235; 187;  60; 131;  83; 153;  97;
    23;  43;   4; 126; 186; 119; 214;  38; 225; 105;  20;  99;  85;  33;  12; 125].

(* Table lookup through a binary trie indexed by the bits of the byte, least
   significant bit first: 8 steps per lookup instead of walking up to 255 list
   cells.  For a table [t] of 256 entries
       tbl_get (tbl_build 8 t) b = nth (b mod 256) t 0
   (checked exhaustively for both S-boxes in AES_Tests.v).  The trees are
   closed constants: vm_compute and extracted OCaml build them once. *)
Inductive tbl_tree : Type :=
| TLeaf (v : N)
| TNode (even odd : tbl_tree).

Fixpoint tbl_evens (l : list N) : list N :=
  match l with a :: _ :: t => a :: tbl_evens t | _ => l end.
Fixpoint tbl_odds (l : list N) : list N :=
  match l with _ :: b :: t => b :: tbl_odds t | _ => [] end.
(* [l] has 2^depth entries *)
Fixpoint tbl_build (depth : nat) (l : list N) : tbl_tree :=
  match depth with
  | O => TLeaf (hd 0 l)
  | S d => TNode (tbl_build d (tbl_evens l)) (tbl_build d (tbl_odds l))
  end.

Fixpoint tbl_get0 (t : tbl_tree) : N :=
  match t with TLeaf v => v | TNode l _ => tbl_get0 l end.
Fixpoint tbl_getp (t : tbl_tree) (p : positive) : N :=
  match t with
  | TLeaf v => v
  | TNode l r =>
    match p with
    | xH => tbl_get0 r
    | xO q => tbl_getp l q
    | xI q => tbl_getp r q
    end
  end.
Definition tbl_get (t : tbl_tree) (b : N) : N :=
  match b with 0 => tbl_get0 t | Npos p => tbl_getp t p end.

Definition aes_sbox_tree : tbl_tree := tbl_build 8 aes_sbox.
Definition aes_inv_sbox_tree : tbl_tree := tbl_build 8 aes_inv_sbox.

(* SubBytes / InvSubBytes on one byte *)
Definition sbox (b : N) : N := tbl_get aes_sbox_tree b.
Definition inv_sbox (b : N) : N := tbl_get aes_inv_sbox_tree b.

(* ------------------------------------------------------------------------- *)
(* Round transformations on a 16-byte state (FIPS-197 5.1, 5.3)               *)
(* States of any other length are returned unchanged by the permutation /    *)
(* column steps (total functions; only length 16 is meaningful).             *)
(* ------------------------------------------------------------------------- *)

Definition sub_bytes (s : bytes) : bytes := map sbox s.
Definition inv_sub_bytes (s : bytes) : bytes := map inv_sbox s.

Definition shift_rows (s : bytes) : bytes :=
  match s with
  | [s0; s1; s2; s3; s4; s5; s6; s7; s8; s9; s10; s11; s12; s13; s14; s15] =>
    [s0; s5; s10; s15; s4; s9; s14; s3; s8; s13; s2; s7; s12; s1; s6; s11]
  | _ => s
  end.

Definition inv_shift_rows (s : bytes) : bytes :=
  match s with
  | [s0; s1; s2; s3; s4; s5; s6; s7; s8; s9; s10; s11; s12; s13; s14; s15] =>
    [s0; s13; s10; s7; s4; s1; s14; s11; s8; s5; s2; s15; s12; s9; s6; s3]
  | _ => s
  end.

(* one column [a0;a1;a2;a3] -> {02 03 01 01 / 01 02 03 01 / 01 01 02 03 / 03 01 01 02} *)
Definition mix_column (a0 a1 a2 a3 : N) (tl : bytes) : bytes :=
  let t := N.lxor (N.lxor a0 a1) (N.lxor a2 a3) in
  N.lxor a0 (N.lxor t (xtime (N.lxor a0 a1))) ::
  N.lxor a1 (N.lxor t (xtime (N.lxor a1 a2))) ::
  N.lxor a2 (N.lxor t (xtime (N.lxor a2 a3))) ::
  N.lxor a3 (N.lxor t (xtime (N.lxor a3 a0))) :: tl.

Definition mix_columns (s : bytes) : bytes :=
  match s with
  | [s0; s1; s2; s3; s4; s5; s6; s7; s8; s9; s10; s11; s12; s13; s14; s15] =>
    mix_column s0 s1 s2 s3 (mix_column s4 s5 s6 s7
      (mix_column s8 s9 s10 s11 (mix_column s12 s13 s14 s15 [])))
  | _ => s
  end.

(* one column -> {0e 0b 0d 09 / 09 0e 0b 0d / 0d 09 0e 0b / 0b 0d 09 0e} *)
Definition inv_mix_column (a0 a1 a2 a3 : N) (tl : bytes) : bytes :=
  (* u = {04}(a0+a2), v = {04}(a1+a3): pre-conditioning, then plain MixColumn *)
  let u := xtime (xtime (N.lxor a0 a2)) in
  let v := xtime (xtime (N.lxor a1 a3)) in
  mix_column (N.lxor a0 u) (N.lxor a1 v) (N.lxor a2 u) (N.lxor a3 v) tl.

Definition inv_mix_columns (s : bytes) : bytes :=
  match s with
  | [s0; s1; s2; s3; s4; s5; s6; s7; s8; s9; s10; s11; s12; s13; s14; s15] =>
    inv_mix_column s0 s1 s2 s3 (inv_mix_column s4 s5 s6 s7
      (inv_mix_column s8 s9 s10 s11 (inv_mix_column s12 s13 s14 s15 [])))
  | _ => s
  end.

(* AddRoundKey *)
Definition add_round_key (s k : bytes) : bytes := xor_bytes s k.

(* ------------------------------------------------------------------------- *)
(* Key expansion (FIPS-197 5.2)                                               *)
(* ------------------------------------------------------------------------- *)

(* words are 4-byte lists [b0;b1;b2;b3] in memory order *)
Definition rot_word (w : bytes) : bytes :=
  match w with [b0; b1; b2; b3] => [b1; b2; b3; b0] | _ => w end.
Definition sub_word (w : bytes) : bytes := map sbox w.
Definition xor_rcon (w : bytes) (rc : N) : bytes :=
  match w with b0 :: t => N.lxor b0 rc :: t | [] => [] end.

(* [prev] = words W[i-1], W[i-2], ... (most recent first); produces [n] more
   words starting at index [i]; [pos] = i mod Nk, [rc] = current Rcon byte. *)
Fixpoint key_expand_loop (n : nat) (nk pos : nat) (rc : N) (prev : list bytes)
  : list bytes :=
  match n with
  | O => prev
  | S n' =>
    let temp := hd [] prev in
    let back := nth (nk - 1)%nat prev [] in          (* W[i-Nk] *)
    let '(temp', rc') :=
      if Nat.eqb pos 0%nat then (xor_rcon (sub_word (rot_word temp)) rc, xtime rc)
      else if andb (Nat.ltb 6%nat nk) (Nat.eqb pos 4%nat) then (sub_word temp, rc)
      else (temp, rc) in
    let w := xor_bytes back temp' in
    let pos' := if Nat.eqb (S pos) nk then O else S pos in
    key_expand_loop n' nk pos' rc' (w :: prev)
  end.

(* group 4-byte words four at a time into 16-byte round keys *)
Fixpoint group_round_keys (fuel : nat) (ws : list bytes) : list bytes :=
  match fuel with
  | O => []
  | S f =>
    match ws with
    | w0 :: w1 :: w2 :: w3 :: t => (w0 ++ w1 ++ w2 ++ w3) :: group_round_keys f t
    | _ => []
    end
  end.

(* number of rounds Nr for a key of [klen] bytes; 0 for an invalid length *)
Definition aes_rounds (klen : nat) : nat :=
  (if Nat.eqb klen 16 then 10 else if Nat.eqb klen 24 then 12
   else if Nat.eqb klen 32 then 14 else 0)%nat.

(* raw key (16/24/32 bytes) -> Nr+1 round keys of 16 bytes each.
   Any other key length gives [] (then the block functions below are the
   identity); the library rejects such keys (IMB_ERR_JOB_KEY_LEN). *)
Definition aes_key_expand (key : bytes) : list bytes :=
  let klen := length key in
  let nr := aes_rounds klen in
  match nr with
  | O => []
  | _ =>
    let nk := Nat.div klen 4%nat in
    let total := (4 * (nr + 1))%nat in
    let ws := key_expand_loop (total - nk)%nat nk 0%nat 1 (rev (chunks 4%nat key)) in
    group_round_keys (nr + 1)%nat (rev ws)
  end.

(* ------------------------------------------------------------------------- *)
(* Cipher and inverse cipher with pre-expanded round keys                     *)
(* ------------------------------------------------------------------------- *)

(* rounds 1..Nr given the remaining round keys k1..kNr *)
Fixpoint aes_enc_rounds (rks : list bytes) (s : bytes) : bytes :=
  match rks with
  | [] => s
  | [klast] => add_round_key (shift_rows (sub_bytes s)) klast
  | k :: rest =>
    aes_enc_rounds rest (add_round_key (mix_columns (shift_rows (sub_bytes s))) k)
  end.

(* Cipher(in, w) of FIPS-197 Figure 5; [rks] = round keys 0..Nr *)
Definition aes_enc_rk (rks : list bytes) (blk : bytes) : bytes :=
  match rks with
  | [] => blk
  | k0 :: rest => aes_enc_rounds rest (add_round_key blk k0)
  end.

(* InvCipher of FIPS-197 Figure 12; [rrks] = encryption round keys in
   REVERSE order kNr, ..., k0 *)
Fixpoint aes_dec_rounds (rrks : list bytes) (s : bytes) : bytes :=
  match rrks with
  | [] => s
  | [k0] => add_round_key (inv_sub_bytes (inv_shift_rows s)) k0
  | k :: rest =>
    aes_dec_rounds rest
      (inv_mix_columns (add_round_key (inv_sub_bytes (inv_shift_rows s)) k))
  end.

Definition aes_dec_rrk (rrks : list bytes) (blk : bytes) : bytes :=
  match rrks with
  | [] => blk
  | kn :: rest => aes_dec_rounds rest (add_round_key blk kn)
  end.

(* straightforward inverse cipher; takes the ENCRYPTION round keys 0..Nr *)
Definition aes_dec_rk (rks : list bytes) : bytes -> bytes :=
  let rrks := rev rks in fun blk => aes_dec_rrk rrks blk.

(* ------------------------------------------------------------------------- *)
(* Equivalent inverse cipher (FIPS-197 5.3.5) and the library's dec_keys      *)
(* ------------------------------------------------------------------------- *)

(* InvMixColumns on all but the last element *)
Fixpoint imc_middle (l : list bytes) : list bytes :=
  match l with
  | [] => []
  | [k0] => [k0]
  | k :: t => inv_mix_columns k :: imc_middle t
  end.

(* dec[0] = enc[Nr]; dec[i] = InvMixColumns(enc[Nr-i]), 0<i<Nr; dec[Nr] = enc[0] *)
Definition aes_dec_schedule_rk (rks : list bytes) : list bytes :=
  match rev rks with
  | [] => []
  | kn :: t => kn :: imc_middle t
  end.
Definition aes_dec_schedule (key : bytes) : list bytes :=
  aes_dec_schedule_rk (aes_key_expand key).

(* EqInvCipher of FIPS-197 Figure 15 = what AESDEC/AESDECLAST compute with
   dec_keys: [dks] = aes_dec_schedule key *)
Fixpoint aes_eqdec_rounds (dks : list bytes) (s : bytes) : bytes :=
  match dks with
  | [] => s
  | [klast] => add_round_key (inv_sub_bytes (inv_shift_rows s)) klast
  | k :: rest =>
    aes_eqdec_rounds rest
      (add_round_key (inv_mix_columns (inv_sub_bytes (inv_shift_rows s))) k)
  end.
Definition aes_eqdec_dk (dks : list bytes) (blk : bytes) : bytes :=
  match dks with
  | [] => blk
  | k0 :: rest => aes_eqdec_rounds rest (add_round_key blk k0)
  end.

(* ------------------------------------------------------------------------- *)
(* Single-block API with raw key                                              *)
(* ------------------------------------------------------------------------- *)

Definition aes_encrypt_block (key blk : bytes) : bytes :=
  aes_enc_rk (aes_key_expand key) blk.
Definition aes_decrypt_block (key blk : bytes) : bytes :=
  aes_dec_rk (aes_key_expand key) blk.
