(* Spec/GF128.v — GF(2^128) arithmetic in the GCM bit order and GHASH
   (NIST SP 800-38D, sections 6.3 and 6.4).  Definitions only.

   Representation.  A 16-byte block b0..b15 is represented by the natural
   number  be_to_N [b0;..;b15]  (big-endian).  SP 800-38D numbers the bits of a
   block x_0 .. x_127 from the left, i.e. x_i is integer bit (127 - i), and the
   block stands for the polynomial  sum_i x_i * alpha^i .  Hence
     - integer bit 127 (msb of byte 0) is the coefficient of alpha^0,
     - integer bit 0   (lsb of byte 15) is the coefficient of alpha^127,
     - multiplying by alpha is a right shift by one, and if the bit shifted
       out (integer bit 0, coefficient of alpha^127) was set, the result is
       reduced by xoring R = 11100001 || 0^120  (alpha^128 = 1+alpha+alpha^2+alpha^7). *)
From IMB Require Import Lib.Bytes.
Local Open Scope N_scope.

(* R = 0xE1 << 120 *)
Definition gf128_R : N := 299076299051606071403356588563077529600.

(* x * alpha *)
Definition gf128_mul_alpha (z : N) : N :=
  if N.odd z then N.lxor (N.div2 z) gf128_R else N.div2 z.

(* Horner evaluation of  sum_i x_i alpha^i * y , starting from the highest
   power (x_127 = integer bit 0 of x) and finishing with x_0 (integer bit 127):
   z := z*alpha + x_i*y.  Exactly [n] = 128 steps; each step inspects the low
   bit of x and halves it, so no [N.testbit] at a variable position is needed. *)
Fixpoint gf128_mul_loop (n : nat) (x y z : N) : N :=
  match n with
  | O => z
  | S k =>
      let z1 := gf128_mul_alpha z in
      let z2 := if N.odd x then N.lxor z1 y else z1 in
      gf128_mul_loop k (N.div2 x) y z2
  end.

(* Product in GF(2^128) of two blocks given as big-endian integers.  Inputs are
   reduced to 128 bits; result < 2^128. *)
Definition gf128_mul (x y : N) : N := gf128_mul_loop 128 (w128 x) (w128 y) 0.

(* Reference (slow, literal transcription of SP 800-38D Algorithm 1) kept for
   cross-checking in GF128_Tests.v:  Z=0, V=Y; for i=0..127: if x_i then Z^=V;
   V := V*alpha. *)
Fixpoint gf128_mul_ref_loop (n : nat) (i : N) (x v z : N) : N :=
  match n with
  | O => z
  | S k =>
      let z' := if N.testbit x (127 - i) then N.lxor z v else z in
      gf128_mul_ref_loop k (i + 1) x (gf128_mul_alpha v) z'
  end.
Definition gf128_mul_ref (x y : N) : N := gf128_mul_ref_loop 128 0 (w128 x) (w128 y) 0.

(* ---------- GHASH ---------- *)

(* One GHASH step: Y' = (Y xor X) * H, X a block of at most 16 bytes which is
   zero-padded on the right to 16 bytes. *)
Definition ghash_step (h y : N) (blk : bytes) : N :=
  gf128_mul (N.lxor y (be_to_N (pad_right 16 blk))) h.

Definition ghash_fold (h y0 : N) (blks : list bytes) : N :=
  fold_left (ghash_step h) blks y0.

(* GHASH continued from the intermediate value y0 over [data]; the last block,
   if shorter than 16 bytes, is zero-padded (this is how every use of GHASH
   inside GCM pads A and C, and how the library's CALC_AAD_HASH treats a
   trailing partial block, /repo/lib/include/gcm_sse.inc). *)
Definition ghash_from (h y0 : N) (data : bytes) : N :=
  ghash_fold h y0 (chunks 16 data).

(* GHASH_H(data) of SP 800-38D 6.4 for data whose length is a multiple of 16
   (other lengths: trailing block zero-padded, see above). *)
Definition ghash_gen (h : N) (data : bytes) : N := ghash_from h 0 data.

(* Byte-level wrapper: [hkey] is the 16-byte hash subkey H, [data] any length
   (zero-padded to a multiple of 16).  Result is 16 bytes. *)
Definition ghash (hkey data : bytes) : bytes :=
  N_to_be 16 (ghash_gen (be_to_N (firstn 16 hkey)) data).

(* Same, starting from a 16-byte intermediate tag [y0]. *)
Definition ghash_update (hkey y0 data : bytes) : bytes :=
  N_to_be 16 (ghash_from (be_to_N (firstn 16 hkey)) (be_to_N (pad_right 16 (firstn 16 y0))) data).

(* 64-bit big-endian bit-length block  [len(A)]_64 || [len(C)]_64  (lengths in bytes). *)
Definition gcm_len_block (alen clen : nat) : bytes :=
  be64 (8 * N.of_nat alen) ++ be64 (8 * N.of_nat clen).
