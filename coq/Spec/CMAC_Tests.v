(* Spec/CMAC_Tests.v — TESTS (known-answer vectors and library cross-checks) for
   Spec/CMAC.v (AES-CMAC, CMAC bit-length variant, AES-XCBC-MAC-96).
   These are point checks, not theorems about all inputs. *)
From Coq Require Import String.
From IMB Require Import Lib.Bytes Spec.Hex Spec.AES Spec.CMAC.
Local Open Scope N_scope.
Local Open Scope string_scope.

(* ------------------------------------------------------------------ *)
(* RFC 4493 section 4 (= SP 800-38B D.1), AES-128                       *)
(* ------------------------------------------------------------------ *)
Definition rfc4493_key := hex "2b7e151628aed2a6abf7158809cf4f3c".
Definition rfc4493_msg64 := hex
  "6bc1bee22e409f96e93d7e117393172a ae2d8a571e03ac9c9eb76fac45af8e51
   30c81c46a35ce411e5fbc1191a0a52ef f69f2445df4f9b17ad2b417be66c3710".

Example rfc4493_subkeys :
  cmac_subkeys rfc4493_key = (hex "fbeed618357133667c85e08f7236a8de",
                              hex "f7ddac306ae266ccf90bc11ee46d513b").
Proof. vm_compute. reflexivity. Qed.
Example rfc4493_ex1_len0 :
  cmac rfc4493_key [] = hex "bb1d6929e95937287fa37d129b756746".
Proof. vm_compute. reflexivity. Qed.
Example rfc4493_ex2_len16 :
  cmac rfc4493_key (firstn 16 rfc4493_msg64) = hex "070a16b46b4d4144f79bdd9dd04a287c".
Proof. vm_compute. reflexivity. Qed.
Example rfc4493_ex3_len40 :
  cmac rfc4493_key (firstn 40 rfc4493_msg64) = hex "dfa66747de9ae63030ca32611497c827".
Proof. vm_compute. reflexivity. Qed.
Example rfc4493_ex4_len64 :
  cmac rfc4493_key rfc4493_msg64 = hex "51f0bebf7e3b9d92fc49741779363cfe".
Proof. vm_compute. reflexivity. Qed.
(* the bit-length entry point agrees on whole-byte lengths *)
Example rfc4493_ex3_bits :
  cmac_bits rfc4493_key rfc4493_msg64 320 = hex "dfa66747de9ae63030ca32611497c827".
Proof. vm_compute. reflexivity. Qed.

(* ------------------------------------------------------------------ *)
(* SP 800-38B D.3, AES-256 (IMB_AUTH_AES_CMAC_256)                      *)
(* ------------------------------------------------------------------ *)
Definition sp80038b_key256 := hex
  "603deb1015ca71be2b73aef0857d7781 1f352c073b6108d72d9810a30914dff4".
Example sp80038b_256_subkeys :
  cmac_subkeys sp80038b_key256 = (hex "cad1ed03299eedac2e9a99808621502f",
                                  hex "95a3da06533ddb585d3533010c42a0d9").
Proof. vm_compute. reflexivity. Qed.

Example sp80038b_256_ex1_len0 :
  firstn 16 (cmac (hex "603deb1015ca71be2b73aef0857d77811f352c073b6108d72d9810a30914dff4")
        (hex ""))
  = hex "028962f61b7bf89efc6b551f4667d983".
Proof. vm_compute. reflexivity. Qed.

Example sp80038b_256_ex2_len16 :
  firstn 16 (cmac (hex "603deb1015ca71be2b73aef0857d77811f352c073b6108d72d9810a30914dff4")
        (hex "6bc1bee22e409f96e93d7e117393172a"))
  = hex "28a7023f452e8f82bd4bf28d8c37c35c".
Proof. vm_compute. reflexivity. Qed.

Example sp80038b_256_ex3_len20 :
  firstn 16 (cmac (hex "603deb1015ca71be2b73aef0857d77811f352c073b6108d72d9810a30914dff4")
        (hex "6bc1bee22e409f96e93d7e117393172aae2d8a57"))
  = hex "156727dc0878944a023c1fe03bad6d93".
Proof. vm_compute. reflexivity. Qed.

Example sp80038b_256_ex4_len64 :
  firstn 16 (cmac (hex "603deb1015ca71be2b73aef0857d77811f352c073b6108d72d9810a30914dff4")
        (hex "6bc1bee22e409f96e93d7e117393172aae2d8a571e03ac9c9eb76fac45af8e5130c81c46a35ce411e5fbc1191a0a52eff69f2445df4f9b17ad2b417be66c3710"))
  = hex "e1992190549f6ed5696a2c056c315410".
Proof. vm_compute. reflexivity. Qed.

(* ------------------------------------------------------------------ *)
(* 3GPP TS 33.401 Annex C.2 (128-EIA2) test sets 1-8: CMAC over a       *)
(* message whose length is given in bits, 32-bit MAC-I.                 *)
(* Data as in /repo/test/kat-app/cmac_test.json.c (cmac_3gpp_test_json) *)
(* ------------------------------------------------------------------ *)

Example eia2_test_set_1_bits122 :
  firstn 4 (cmac_bits (hex "2bd6459f82c5b300952c49104881ff48")
        (hex "38a6f056c00000003332346263393840") 122)
  = hex "118c6eb8".
Proof. vm_compute. reflexivity. Qed.

Example eia2_test_set_2_bits128 :
  firstn 4 (cmac_bits (hex "d3c5d592327fb11c4035c6680af8c6d1")
        (hex "398a59b4d4000000484583d5afe082ae") 128)
  = hex "b93787e6".
Proof. vm_compute. reflexivity. Qed.

Example eia2_test_set_3_bits318 :
  firstn 4 (cmac_bits (hex "7e5e94431e11d73828d739cc6ced4573")
        (hex "36af6144c4000000b3d3c9170a4e1632f60f861013d22d84b726b6a278d802d1eeaf1321ba5929dc") 318)
  = hex "1f60b01d".
Proof. vm_compute. reflexivity. Qed.

Example eia2_test_set_4_bits575 :
  firstn 4 (cmac_bits (hex "d3419be821087acd02123a9248033359")
        (hex "c7590ea9b8000000bbb057038809496bcff86d6fbc8ce5b135a06b166054f2d565be8ace75dc851e0bcdd8f07141c495872fb5d8c0c66a8b6da556663e4e461205d84580bee5bc7e") 575)
  = hex "6846a2f0".
Proof. vm_compute. reflexivity. Qed.

Example eia2_test_set_5_bits832 :
  firstn 4 (cmac_bits (hex "83fd23a244a74cf358da3019f1722635")
        (hex "36af61447c00000035c68716633c66fb750c266865d53c11ea05b1e9fa49c8398d48e1efa5909d3947902837f5ae96d5a05bc8d61ca8dbef1b13a4b4abfe4fb1006045b674bb54729304c382be53a5af05556176f6eaa2ef1d05e4b083181ee674cda5a485f74d7a") 832)
  = hex "e657e182".
Proof. vm_compute. reflexivity. Qed.

Example eia2_test_set_6_bits447 :
  firstn 4 (cmac_bits (hex "6832a65cff4473621ebdd4ba26a921fe")
        (hex "36af6144c0000000d3c53839626820717765667620323837636240981ba6824c1bfb1ab485472029b71d808ce33e2cc3c0b5fc1f3de8a6dc") 447)
  = hex "f0668c1e".
Proof. vm_compute. reflexivity. Qed.

Example eia2_test_set_7_bits2622 :
  firstn 4 (cmac_bits (hex "5d0a80d8134ae19677824b671e838af4")
        (hex "7827fab22c00000070dedf2dc42c5cbd3a96f8a0b11418b3608d5733604a2cd36aabc70ce3193bb5153be2d3c06dfdb2d16e9c357158be6a41d6b861e491db3fbfeb518efcf048d7d58953730ff30c9ec470ffcd663dc34201c36addc0111c35b38afee7cfdb582e3731f8b4baa8d1a89c06e81199a9716227be344efcb436ddd0f096c064c3b5e2c399993fc77394f9e09720a811850ef23b2ee05d9e6173609d86e1c0c18ea51a012a00bb413b9cb8188a703cd6bae31cc67b34b1b00019e6a2b2a690f02671fe7c9ef8dec0094e533763478d58d2c5f5b827a0148c5948a96931acf84f465a64e62ce74007e991e37ea823fa0fb21923b79905b733b631e6c7d6860a3831ac351a9c730c52ff72d9d308eedbab21fde143a0ea17e23edc1f74cbb3638a2033aaa15464eaa733385dbbeb6fd73509b857e6a419dca1d8907af977fbac4dfa35ec") 2622)
  = hex "f4cc8fa3".
Proof. vm_compute. reflexivity. Qed.

Example eia2_test_set_8_bits16512 :
  firstn 4 (cmac_bits (hex "b3120ffdb2cf6af4e73eaf2ef4ebec69")
        (hex "296f393c5c00000000000000000000000101010101010101e0958045f3a0bba4e3968346f0a3b8a7c02a018ae640765226b987c913e6cbf083570016cf83efbc61c082513e21561a427c009d28c298eface78ed6d56c2d4505ad032e9c04dc60e73a81696da665c6c48603a57b45ab33221585e68ee3169187fb0239528632dd656c807ea3248b7b46d002b2b5c7458eb85b9ce95879e0340859055e3b0abbc3eace8719caa80265c97205d5dc4bcc902fe1839629ed71328a0f0449f588557e6898860e042aecd84b2404c212c9222da5bf8a89ef6797870cf50771a60f66a2ee62853657addf04cdde07fa414e11f12b4d81b9b4e8ac538ea30666688d881f6c348421992f31b94f8806ed8fccff4c9123b89642527ad613b109bf75167485f1268bf884b4cd23d29a0934925703d634098f7767f1be7491e708a8bb949a3873708aef4a36239e50cc08235cd5ed6bbe578668a17b58c1171d0b90e813a9e4f58a89d719b11042d6360b1b0f52deb730a58d58faf46315954b0a872691475977dc88c0d733feff54600a0cc1d0300aaaeb94572c6e95b01ae90de04f1dce47f87e8fa7bebf77e1dbc20d6ba85cb9143d518b285dfa04b698bf0cf7819f20fa7a288eb0703d995c59940c7c66de57a9b70f82379b70e2031e450fcfd2181326fcd28d8823baaa80df6e0f443559647539fd8907c0ffd9d79c130ed81c9afd9b7e848c9fed38443d5d380e53fbdb8ac8c3d3f06876054f122461107de92fea09c6f6923a188d53afe54a10f60e6e9d5a03d996b5fbc820f8a637116a27ad04b444a0932dd60fbd12671c11e1c0ec73e789879faa3d42c64d20cd1252742a3768c25a901585888ecee1e612d9936b403b0775949a66cdfd99a29b1345baa8d9d5400c91024b0a607363b013ce5de9ae869d3b8d95b0570b3c2d391422d32450cbcfae96652286e96dec1214a9346527980a8192eac1c39a3aaf6f15351da6be764df89772ec0407d06e4415befae7c92580df9bf507497c8f2995160d4e218daacb02944abf83340ce8be1686a960faf90e2d90c55cc6475babc3171a80a363174954955d7101dab16ae8179167e21444b443a9eaaa7c91de36d118c39d389f8dd4469a846c9a262bf7fa18487a79e8de11699e0b8fdf557cb48719d453ba713056109b93a218c89675ac195fb4fb06639b3797144955b3c9327d1aec003d42ecd0ea98abf19ffb4af3561a67e77c35bf15c59c2412da881db02b1bfbcebfac5152bc99bc3f1d15f771001b7029fedb028f8b852bc4407eb83f891c9ca733254fdd1e9edb56919ce9fea21c174072521c18319a54b5d4efbebddf1d8b69b1cbf25f489fcc981372547cf41d008ef0bca1926f934b735e090b3b251eb33a36f82ed9b29cf4cb944188fa0e1e38dd778f7d1c9d987b28d132dfb9731fa4f4b416935be49de30516af3578581f2f13f561c0663361941eab249a4bc123f8d15cd711a956a1bf20fe6eb78aea2373361da0426c79a530c3bb1de0c99722ef1fde39ac2b00a0a8ee7c800a08bc2264f89f4effe627ac2f0531fb554f6d21d74c590a70adfaa390bdfbb3d68e46215cab187d2368d5a71f5ebec081cd3b20c082dbe4cd2faca28773795d6b0c10204b659a939ef29bbe1088243624429927a7eb576dd3a00ea5e01af5d47583b2272c0c161a806521a16ff9b0a722c0cf26b025d5836e2258a4f7d4773ac801e4263bc294f43def7fa8703f3a4197463525887652b0b2a4a2a7cf87f00914871e25039113c7e1618da34064b57a43c463249fb8d05e0f26f4a6d84972e7a9054824145f91295cdbe39a6f920facc659712b46a54ba295bbe6a90154e91b33985a2bcd420ad5c67ec9ad8eb7ac6864db272a516bc94c2839b0a8169a6bf58e1a0c2ada8c883b7bf497a49171268ed15ddd2969384e7ff4bf4aab2ec9ecc6529cf629e2df0f08a77a65afa12aa9b505df8b287ef6cc91493d1caa39076e28ef1ea028f5118de61ae02bb6aefc3343a050292f199f401857b2bead5e6ee2a1f191022f9278016f047791a9d18da7d2a6d27f2e0e51c2f6ea30e8ac49a0604f4c13542e85b68381b9fdcfa0ce4b2d341354852d360245c536b612af71f3e77c9095ae2dbde504b265733dabfe10a20fc7d6d32c21ccc72b8b3444ae663d65922d17f82caa2b865cd88913d291a65899026ea1328439723c198c36b0c3c8d085bfaf8a320fde334b4a4919b44c2b95f6e8ecf73393f7f0d2a40e60b1d406526b022ddc331810b1a5f7c347bd53ed1f105d6a0d30aba477e178889ab2ec55d558deab2630204336962b4db5b663b6902b89e85b31bc6af50fc50accb3fb9b57b663297031378db47896d7fbaf6c600add2c67f936db037986db856eb49cf2db3f7da6d23650e438f1884041b013119e4c2ae5af37cccdfb68660738b58b3c59d1c0248437472aba1f35ca1fb90cd714aa9f635534f49e7c5bba81c2b6b36fdee21ca27e347f793d2ce944edb23c8c9b914be10335e350feb5070394b7a4a15c0ca120283568b7bfc254fe838b137a2147ce7c113a3a4d65499d9e86b87dbcc7f03bbd3a3ab1aa243ece5ba9bcf25f82836cfe473b2d83e7a7201cd0b96a72451e863f6c3ba664a6d073d1f7b5ed990865d978bd3815d06094fc9a2aba5221c22d5ab996389e3721e3af5f05beddc2875e0dfaeb39021ee27a41187cbb45ef40c3e73bc03989f9a30d12c54ba7d2141da8a875493e65776ef35f97debc2286cc4af9b4623eee902f840c52f1b8ad658939aef71f3f72b9ec1de21588bd35484ea44436343ff95ead6ab1d8afb1b2a303df1b71e53c4aea6b2e3e9372be0d1bc99798b0ce3cc10d2a596d565dba82f88ce4cff3b33d5d24e9c0831124bf1ad54b792532983dd6c3a8b7d0") 16512)
  = hex "ebd5ccb0".
Proof. vm_compute. reflexivity. Qed.

(* ------------------------------------------------------------------ *)
(* RFC 3566 section 4.6 test cases 1-7 (AES-XCBC-MAC, full 16 bytes;    *)
(* AES-XCBC-MAC-96 is firstn 12)                                        *)
(* ------------------------------------------------------------------ *)
Definition rfc3566_key := hex "000102030405060708090a0b0c0d0e0f".
Fixpoint count_up (n : nat) (from : N) : bytes :=
  match n with O => [] | S k => from :: count_up k (from + 1) end.

Example rfc3566_tc1_len0 :
  xcbc rfc3566_key (count_up 0 0) = hex "75f0251d528ac01c4573dfd584d79f29"
  /\ firstn 12 (xcbc rfc3566_key (count_up 0 0)) = hex "75f0251d528ac01c4573dfd5".
Proof. vm_compute. split; reflexivity. Qed.

Example rfc3566_tc2_len3 :
  xcbc rfc3566_key (count_up 3 0) = hex "5b376580ae2f19afe7219ceef172756f"
  /\ firstn 12 (xcbc rfc3566_key (count_up 3 0)) = hex "5b376580ae2f19afe7219cee".
Proof. vm_compute. split; reflexivity. Qed.

Example rfc3566_tc3_len16 :
  xcbc rfc3566_key (count_up 16 0) = hex "d2a246fa349b68a79998a4394ff7a263"
  /\ firstn 12 (xcbc rfc3566_key (count_up 16 0)) = hex "d2a246fa349b68a79998a439".
Proof. vm_compute. split; reflexivity. Qed.

Example rfc3566_tc4_len20 :
  xcbc rfc3566_key (count_up 20 0) = hex "47f51b4564966215b8985c63055ed308"
  /\ firstn 12 (xcbc rfc3566_key (count_up 20 0)) = hex "47f51b4564966215b8985c63".
Proof. vm_compute. split; reflexivity. Qed.

Example rfc3566_tc5_len32 :
  xcbc rfc3566_key (count_up 32 0) = hex "f54f0ec8d2b9f3d36807734bd5283fd4"
  /\ firstn 12 (xcbc rfc3566_key (count_up 32 0)) = hex "f54f0ec8d2b9f3d36807734b".
Proof. vm_compute. split; reflexivity. Qed.

Example rfc3566_tc6_len34 :
  xcbc rfc3566_key (count_up 34 0) = hex "becbb3bccdb518a30677d5481fb6b4d8"
  /\ firstn 12 (xcbc rfc3566_key (count_up 34 0)) = hex "becbb3bccdb518a30677d548".
Proof. vm_compute. split; reflexivity. Qed.

Example rfc3566_tc7_len1000 :
  xcbc rfc3566_key (zeros 1000) = hex "f0dafee895db30253761103b5d84528f".
Proof. vm_compute. reflexivity. Qed.

(* ------------------------------------------------------------------ *)
(* Cross-checks against the real library (libIPSec_MB.so built from    *)
(* /repo), job API, random inputs.  Each vector was produced by the     *)
(* sse, avx2 and avx512 managers (init_mb_mgr_sse/_avx2/_avx512) and    *)
(* all three agreed.                                                    *)
(* ------------------------------------------------------------------ *)

(* IMB_AES_CMAC_SUBKEY_GEN_128/256 + IMB_AUTH_AES_CMAC / _CMAC_256;
   tag lengths 16, 12, 4, 1 = firstn *)

Example lib_cmac_1_key16_len0_tag16 :
  cmac_subkeys (hex "0b02e536a14ed61ab049b856add63ffc") = (hex "64234cf0e80d7665657b161c3717d7dd", hex "c84699e1d01aeccacaf62c386e2fafba")
  /\ firstn 16 (cmac (hex "0b02e536a14ed61ab049b856add63ffc")
        (hex ""))
     = hex "6ce88ef8e2d9c1142192114fa7e35539".
Proof. vm_compute. split; reflexivity. Qed.

Example lib_cmac_2_key16_len1_tag12 :
  cmac_subkeys (hex "35355b2dc8f4718623a771b764ce50bb") = (hex "f551b0d2af9fbb67e2991930a0df1c88", hex "eaa361a55f3f76cfc532326141be3997")
  /\ firstn 12 (cmac (hex "35355b2dc8f4718623a771b764ce50bb")
        (hex "85"))
     = hex "e71ed3db2c2dc4f6bc1d6a22".
Proof. vm_compute. split; reflexivity. Qed.

Example lib_cmac_3_key16_len15_tag4 :
  cmac_subkeys (hex "33ca7d9ebb12f2d3b043c096d79782d4") = (hex "7d6a2e01cf442310bc7eef5272b64ccd", hex "fad45c039e88462178fddea4e56c999a")
  /\ firstn 4 (cmac (hex "33ca7d9ebb12f2d3b043c096d79782d4")
        (hex "37ff01e935130d2f64040996a61c81"))
     = hex "1d3a9a35".
Proof. vm_compute. split; reflexivity. Qed.

Example lib_cmac_4_key16_len16_tag1 :
  cmac_subkeys (hex "88adc3be9c3c3abd43a03729d1b959a9") = (hex "ceea54b2f3274ef89a5dfb048d566630", hex "9dd4a965e64e9df134bbf6091aaccce7")
  /\ firstn 1 (cmac (hex "88adc3be9c3c3abd43a03729d1b959a9")
        (hex "c5506a4104ee85b933bf6533957d6054"))
     = hex "72".
Proof. vm_compute. split; reflexivity. Qed.

Example lib_cmac_5_key16_len17_tag16 :
  cmac_subkeys (hex "930acb609ca8980aeadfa1f2eec83665") = (hex "78aa15741a98d47948512ff9839a0e32", hex "f1542ae83531a8f290a25ff307341c64")
  /\ firstn 16 (cmac (hex "930acb609ca8980aeadfa1f2eec83665")
        (hex "587ba8550e731be6e9bd3c57eb953d74cb"))
     = hex "2fe6f226a5a81439aba0b8f0802c1253".
Proof. vm_compute. split; reflexivity. Qed.

Example lib_cmac_6_key16_len32_tag12 :
  cmac_subkeys (hex "b33e810c171604ebac4d6d5b9630d230") = (hex "ddc27611c09bf1cf86d03f7572520d7a", hex "bb84ec238137e39f0da07eeae4a41a73")
  /\ firstn 12 (cmac (hex "b33e810c171604ebac4d6d5b9630d230")
        (hex "dc7167c422e61a05eb6692c2274ebdf2bfdae85f12bfabf08b5309191a7e42d7"))
     = hex "754d9392294d3a4bdfbd4951".
Proof. vm_compute. split; reflexivity. Qed.

Example lib_cmac_7_key16_len33_tag4 :
  cmac_subkeys (hex "427ee42032e7dba54f2c20ae5f0fdf44") = (hex "f1dc9a5abbf070f012ea4d4b4f774c2c", hex "e3b934b577e0e1e025d49a969eee98df")
  /\ firstn 4 (cmac (hex "427ee42032e7dba54f2c20ae5f0fdf44")
        (hex "0c9556f632ec194f83de1b9f6052764e916475c71b4f53f0de7967646e1a654a01"))
     = hex "e96834dc".
Proof. vm_compute. split; reflexivity. Qed.

Example lib_cmac_8_key16_len100_tag1 :
  cmac_subkeys (hex "501b7a13966c1d0fbcd291049b71ee9a") = (hex "0f77c00d2da8db3b032888b1215e3b11", hex "1eef801a5b51b6760651116242bc7622")
  /\ firstn 1 (cmac (hex "501b7a13966c1d0fbcd291049b71ee9a")
        (hex "e8cc2ad0557a43c4d6790d6549a07a203d3dbf45c5c3537401f5b0dd232d7d24f627103aa52ad910c753f1aa5bdefbb47f6184a024864e65401a7ffe4733181fde8a2b6a48498750e9a5a9ed545572fe6ea3bea5f9355208078ee91b10a7f2bcf0d355c3"))
     = hex "af".
Proof. vm_compute. split; reflexivity. Qed.

Example lib_cmac_9_key16_len255_tag16 :
  cmac_subkeys (hex "ad7e504978523ceaa30e2104b51f54ed") = (hex "f0530772de0dc7af32f698294057b228", hex "e0a60ee5bc1b8f5e65ed305280af64d7")
  /\ firstn 16 (cmac (hex "ad7e504978523ceaa30e2104b51f54ed")
        (hex "02718bf06909a651e17004d40e2d6b2ce1e559727f8f9747ee3492e686a434a01178a835dac2399d950bf4f6c666bf43a603e96e786e6b8fec43c8750ddce06c5a85e0527d7f1a1d51b9200300422d9b47cac056bf249de8f9e34e13d77c9aea66a945bff69af5c47068204dbcf6997dc703a6022a2305ea53745a107dcc3a2afb2862350bc3fd3efcf6a950f776072b427cea9bddf189a207abac7e22d0a3576e7557ed10e0e0d9137e3e6d752303dd574904a35e54b9ec25268da8e4709bbb38f8cf0e7f551fddf0a080cb15cbe6f1ab706a67c249fa80596dfa7569f83dff11ef54f4dd41186f9e5828b3a1004ccd49fb078cd4241fef5a1ab55f6b0ebd"))
     = hex "a38d6741672d89d68bdfdb8b35a655d7".
Proof. vm_compute. split; reflexivity. Qed.

Example lib_cmac_10_key16_len256_tag12 :
  cmac_subkeys (hex "5c04d9339e4f99a953881cf06afee333") = (hex "29ff1d5cadf4f32090cf1ec8471eb998", hex "53fe3ab95be9e641219e3d908e3d7330")
  /\ firstn 12 (cmac (hex "5c04d9339e4f99a953881cf06afee333")
        (hex "7e031f947f4e9cc141fa938062fa50d70a2e9e1b02012276352950438386ec82fb5d3183a338c088d4cfbfd2246741d67c7bdcba63dd1927f1a74063c95a57ef06a6f16a3c4513ee82bd44ba500f91194be3a58f9634f957918b99e15db40bb0df34a672799f2263f24b3ad09c787027a75e2933596ec12f6796e97f62dc77162b739e8c17cb70e67b2f48936ec477a74481fffeccbbe96b9f62a08d5e519da7205673dbd2d13ad0859a2415520d0491768aaab8c5cd7f9b63c0dee5d05c2b05644587268ad6375cc3dac2b16f6681c8b9d5a409ecd845100b9860b4edaa4b39db025854d797855a504a67b76a4d748b92f2a3122965b998c157f88254f1aef6"))
     = hex "cc85fcb0ff6ebd1d4e9d437f".
Proof. vm_compute. split; reflexivity. Qed.

Example lib_cmac_11_key32_len0_tag4 :
  cmac_subkeys (hex "042062a1fc76be767722c17a9241baba8c8cf5b26fb0e8d12b441c3f8cba5d6e") = (hex "a57f3f1b0fa439bad87393852e7bf4dd", hex "4afe7e361f487375b0e7270a5cf7e93d")
  /\ firstn 4 (cmac (hex "042062a1fc76be767722c17a9241baba8c8cf5b26fb0e8d12b441c3f8cba5d6e")
        (hex ""))
     = hex "32c33126".
Proof. vm_compute. split; reflexivity. Qed.

Example lib_cmac_12_key32_len1_tag1 :
  cmac_subkeys (hex "38ef17bc4a229c22af8ae1027c5b7e64be68213f21d11dc6f0baa5932dc6f044") = (hex "6b6bc51ec398c533517e40140d5a0ce2", hex "d6d78a3d87318a66a2fc80281ab419c4")
  /\ firstn 1 (cmac (hex "38ef17bc4a229c22af8ae1027c5b7e64be68213f21d11dc6f0baa5932dc6f044")
        (hex "ff"))
     = hex "83".
Proof. vm_compute. split; reflexivity. Qed.

Example lib_cmac_13_key32_len15_tag16 :
  cmac_subkeys (hex "4035234459edd0599800c58c240d7eb7188f516be0ab46bf98fb272ca714e4b9") = (hex "559cddc35975fc5444716244ca1c2334", hex "ab39bb86b2ebf8a888e2c48994384668")
  /\ firstn 16 (cmac (hex "4035234459edd0599800c58c240d7eb7188f516be0ab46bf98fb272ca714e4b9")
        (hex "42fcbf293d6f51c042199b334d3884"))
     = hex "95d0cd144d8f43ba66a22b402481973a".
Proof. vm_compute. split; reflexivity. Qed.

Example lib_cmac_14_key32_len16_tag12 :
  cmac_subkeys (hex "b0368970f1d9dd176706d6486857fc48046bc4b669c93de049f3ca27285f16e2") = (hex "96b5264134d8053971a03cf9d90d416d", hex "2d6a4c8269b00a72e34079f3b21a825d")
  /\ firstn 12 (cmac (hex "b0368970f1d9dd176706d6486857fc48046bc4b669c93de049f3ca27285f16e2")
        (hex "3c8c141413a8049f770e4d08aaddaa44"))
     = hex "47792bba1a6ecb1e3426ce2f".
Proof. vm_compute. split; reflexivity. Qed.

Example lib_cmac_15_key32_len17_tag4 :
  cmac_subkeys (hex "39e4004a372321cdd34c5cddac53180d0f055a493421fc9ea9dee746d1298cf3") = (hex "c19dde932dfecf2a9c434e3365f5f59b", hex "833bbd265bfd9e5538869c66cbebebb1")
  /\ firstn 4 (cmac (hex "39e4004a372321cdd34c5cddac53180d0f055a493421fc9ea9dee746d1298cf3")
        (hex "c27a275858204fe10284cdf984c9573d10"))
     = hex "fcffaf64".
Proof. vm_compute. split; reflexivity. Qed.

Example lib_cmac_16_key32_len32_tag1 :
  cmac_subkeys (hex "5342ea16b130ab091695f86de24de344594d6b855ba430d3a04089727e6d01bb") = (hex "1e3aa74f13b12a2c38a2986598fd13db", hex "3c754e9e27625458714530cb31fa27b6")
  /\ firstn 1 (cmac (hex "5342ea16b130ab091695f86de24de344594d6b855ba430d3a04089727e6d01bb")
        (hex "3451b623f3b1b6175a9b1891786008ee4f4ce99b42775b1e66ecf72b555bf68e"))
     = hex "31".
Proof. vm_compute. split; reflexivity. Qed.

Example lib_cmac_17_key32_len33_tag16 :
  cmac_subkeys (hex "9d5e1559c856bc41a50cea8f9c9c1efba27d2f6d6865872149f389de96c99e13") = (hex "f91da1d7d18710b70f7f3b3c787a947d", hex "f23b43afa30e216e1efe7678f0f5287d")
  /\ firstn 16 (cmac (hex "9d5e1559c856bc41a50cea8f9c9c1efba27d2f6d6865872149f389de96c99e13")
        (hex "10dfbc79950b62a477d8d0f18d610c934e299915cabbccda32b0a96286486afce8"))
     = hex "33aeb42711d34812f37caf1ba7b19000".
Proof. vm_compute. split; reflexivity. Qed.

Example lib_cmac_18_key32_len100_tag12 :
  cmac_subkeys (hex "15d460923476a0f28463c499ca25a0e6f10b2ea360521ff9006a995abea03ea1") = (hex "39a5a34775cf8d571f4e9ba65578e704", hex "734b468eeb9f1aae3e9d374caaf1ce08")
  /\ firstn 12 (cmac (hex "15d460923476a0f28463c499ca25a0e6f10b2ea360521ff9006a995abea03ea1")
        (hex "918f6a94c0a6e441625e6e9722746610cb904222e280db171cc915bd0c04bf6066388c7d7cb9b09a296ffad176e4d03a6940d97eef43f3b9768d7dfbc65aefab8fa96854778cbe9cad31cf74c929ffa212eff035cb0e216aa9890629ab8ed7625d23cdd4"))
     = hex "7de0982d11321b763c89a459".
Proof. vm_compute. split; reflexivity. Qed.

Example lib_cmac_19_key32_len255_tag4 :
  cmac_subkeys (hex "ec34d64c4d0bf309806f1dccada6b55ae7b3c4962a9d84dea3e7e113ab3bfb89") = (hex "2dbfb6c572c4da523c5ea0c4beef936d", hex "5b7f6d8ae589b4a478bd41897ddf26da")
  /\ firstn 4 (cmac (hex "ec34d64c4d0bf309806f1dccada6b55ae7b3c4962a9d84dea3e7e113ab3bfb89")
        (hex "96d5c4272a34a32e31c6ef50fc4596be2b829f57b97ebc73e99b474f1c6624f2de85d4c9dcb65845793c7bfc98e67e6f9a1b7a1991b93c2ee551cc0242f6b98290cd745c51b9e7bfb05115f6164448d989f4f7003e207997e8b4f9a9f4fc87b17c3f1d2eb4fb2ce64e9979535b12fd0755143202fc0c6e0e252f93fb070e462d1e8384adbb10154b7dab9fe1221d92ff2e257063a7bbb33196c7b78a81c26c2c1b89a991d53485ce657af4cde42b8bbf0ec86c2e73e8f508d0a75b4b9652aeccd8e88f6aed215f787c65259c6da3fe2f3c0b03a6c17e73b2ea5408a6b58c8ea5a370c65bad16ba8392f9db98f3b23d6086e338d346316fc966509a0fbc75ea"))
     = hex "472136bc".
Proof. vm_compute. split; reflexivity. Qed.

Example lib_cmac_20_key32_len256_tag1 :
  cmac_subkeys (hex "ab126a76baf761b440e8865fd0b9b4e7348a0974c1047adac6ecd222b42d3458") = (hex "52ef6e77920b59aff080acf01d282563", hex "a5dedcef2416b35fe10159e03a504ac6")
  /\ firstn 1 (cmac (hex "ab126a76baf761b440e8865fd0b9b4e7348a0974c1047adac6ecd222b42d3458")
        (hex "60c3d5c1b1324e9f2a21a04d7f27abb663f1ab9ddf8c35fafba80707e910734704256af79dd323966fd492c09c0c62ee31905318b08a9f2b73bc92a7aec16ab8b69550f613d8a408ca2dba94330448b0dfd14a14ab8657a808541abaeb6180f6a14361887fccccdb73412d61c8b0f9676d36467b1023a0a5569b67a90406d8b9413306fee32e9b36b83e57c055a494ae35882ab639eeea1eb87e29603ed6b9101ce94c0069a6a80bb3641b7773d744914b70d17fcfbb3b76ef5eb29375e27c98db09ea9214d807dc418e132162a87254b47d703274f82e5968ad1bb1685dae32eecb3ef85aa689e8a818d2ba1cc3500b7e82496f66d5c93a4ba11edde157c99d"))
     = hex "cd".
Proof. vm_compute. split; reflexivity. Qed.

(* IMB_AUTH_AES_CMAC_BITLEN.  The message buffers contain random garbage in the
   unused low bits of the last byte (every second vector has ALL unused bits
   set): the library masks them, and so does cmac_bits. *)

Example lib_cmac_bits_1_bits0_tag16 :
  firstn 16 (cmac_bits (hex "d30fb43a417690a00abe806a5ea73c86")
        (hex "") 0)
  = hex "c5bb68d705aceba7fb38e02d669ea510".
Proof. vm_compute. reflexivity. Qed.

Example lib_cmac_bits_2_bits0_tag16 :
  firstn 16 (cmac_bits (hex "9eebd78f3b04e8ea6223a4613975926c")
        (hex "") 0)
  = hex "746d9d5b6cc74837fb85e3cfd8e4102e".
Proof. vm_compute. reflexivity. Qed.

Example lib_cmac_bits_3_bits0_tag4 :
  firstn 4 (cmac_bits (hex "f13230486c0b898061f9e14bef2cb0a1")
        (hex "") 0)
  = hex "b0b6dda3".
Proof. vm_compute. reflexivity. Qed.

Example lib_cmac_bits_4_bits1_tag16 :
  firstn 16 (cmac_bits (hex "e14ce876847ae8f27d703d4075f2b1db")
        (hex "27") 1)
  = hex "85fc11774af0dae15b02af360448428e".
Proof. vm_compute. reflexivity. Qed.

Example lib_cmac_bits_5_bits1_tag16 :
  firstn 16 (cmac_bits (hex "c92c82255498ce1a3776cc7a59f4f0b4")
        (hex "7f") 1)
  = hex "7b6d7dbf80e62c4ed85f23421f3d2abd".
Proof. vm_compute. reflexivity. Qed.

Example lib_cmac_bits_6_bits1_tag4 :
  firstn 4 (cmac_bits (hex "a445590f1d02665d44b4e77d86c203c0")
        (hex "e7") 1)
  = hex "cc66fdeb".
Proof. vm_compute. reflexivity. Qed.

Example lib_cmac_bits_7_bits7_tag16 :
  firstn 16 (cmac_bits (hex "47cbde30ca73b8d340f44e704270f36d")
        (hex "8d") 7)
  = hex "a9d0a54bbfd8265a32fcab98dfe4e338".
Proof. vm_compute. reflexivity. Qed.

Example lib_cmac_bits_8_bits7_tag16 :
  firstn 16 (cmac_bits (hex "c68c225db88157cc7593414e1b73bff2")
        (hex "ad") 7)
  = hex "1ef437d4cb38a95457795b1d7780a5b7".
Proof. vm_compute. reflexivity. Qed.

Example lib_cmac_bits_9_bits8_tag16 :
  firstn 16 (cmac_bits (hex "3e2f3efaaefba2d58323129360e981dc")
        (hex "10") 8)
  = hex "3c5a01319b9a371b827ec4a95a7e0f0f".
Proof. vm_compute. reflexivity. Qed.

Example lib_cmac_bits_10_bits8_tag16 :
  firstn 16 (cmac_bits (hex "9fc599941161dbe01c8557f3f4372082")
        (hex "82") 8)
  = hex "e14d674c16061a0506da127a3057a5bb".
Proof. vm_compute. reflexivity. Qed.

Example lib_cmac_bits_11_bits9_tag16 :
  firstn 16 (cmac_bits (hex "ea33e329bfff721e616b45d019a37742")
        (hex "77f1") 9)
  = hex "70f8de94275a52ad177eee86ffcfaa64".
Proof. vm_compute. reflexivity. Qed.

Example lib_cmac_bits_12_bits9_tag16 :
  firstn 16 (cmac_bits (hex "ce9fab5d355408ef5b1ed6ddd7ec501e")
        (hex "237f") 9)
  = hex "ff4b0d75ac461f9b9b2e9aadd11f1fe2".
Proof. vm_compute. reflexivity. Qed.

Example lib_cmac_bits_13_bits15_tag16 :
  firstn 16 (cmac_bits (hex "5ff4967a91b17a52b9379778c2dfe278")
        (hex "29f3") 15)
  = hex "08dec79402d6a726e02e1989d67d108c".
Proof. vm_compute. reflexivity. Qed.

Example lib_cmac_bits_14_bits15_tag16 :
  firstn 16 (cmac_bits (hex "95486bcb2888fd2f0cae010a1e410d60")
        (hex "fb8d") 15)
  = hex "889eb229fbd47c6239f39a06a792cee4".
Proof. vm_compute. reflexivity. Qed.

Example lib_cmac_bits_15_bits120_tag16 :
  firstn 16 (cmac_bits (hex "06df30bb976b81bb0be5f13c007b1979")
        (hex "1973898b9a951b0fa59da580613a2d") 120)
  = hex "1cd2f9ab9203a837c38011ba22c3ba17".
Proof. vm_compute. reflexivity. Qed.

Example lib_cmac_bits_16_bits120_tag16 :
  firstn 16 (cmac_bits (hex "65200874b055f6e1e2a2e6f890d09e51")
        (hex "b1f7f4508395f98d4ceba01f9fcea3") 120)
  = hex "40b1bdbb8a90ec379328b884bf5f2bb5".
Proof. vm_compute. reflexivity. Qed.

Example lib_cmac_bits_17_bits121_tag16 :
  firstn 16 (cmac_bits (hex "c6537086343e9204d835fc3668f66e39")
        (hex "b99d15fbc6d9e41166316783b51d666d") 121)
  = hex "db6c36d3d88ca61c537a3fa4c3cc1a7d".
Proof. vm_compute. reflexivity. Qed.

Example lib_cmac_bits_18_bits121_tag16 :
  firstn 16 (cmac_bits (hex "b1728f864db27a2d02383b82dc4d291b")
        (hex "2ea981210dbeac63b57c0d3a7dd27aff") 121)
  = hex "ee503a10d61553be28167f40f68942fd".
Proof. vm_compute. reflexivity. Qed.

Example lib_cmac_bits_19_bits127_tag16 :
  firstn 16 (cmac_bits (hex "0f491c680235319c109d29b091f225ac")
        (hex "76c99d529ebfcfa39cea1fe02241bcb7") 127)
  = hex "fff1424742a1e1b392044c5575e5f1d1".
Proof. vm_compute. reflexivity. Qed.

Example lib_cmac_bits_20_bits127_tag16 :
  firstn 16 (cmac_bits (hex "68b32c3c86d1be035dd352c1d628d740")
        (hex "ec80440e40e602dc4ddcba31dc057985") 127)
  = hex "8a8236bfed593dd34a5e8ac655bfb8d7".
Proof. vm_compute. reflexivity. Qed.

Example lib_cmac_bits_21_bits127_tag4 :
  firstn 4 (cmac_bits (hex "2dcff270b12546994d9cf873b4bc6b82")
        (hex "eb6f93e266a92028f4e88a373fc2464a") 127)
  = hex "3c24e126".
Proof. vm_compute. reflexivity. Qed.

Example lib_cmac_bits_22_bits128_tag16 :
  firstn 16 (cmac_bits (hex "c88cb44181d11392dc33d024b19f3bf1")
        (hex "71c33bf89453c398b8dc8e56c4860b71") 128)
  = hex "42449d8e85e1b75c2d3e788682389b8b".
Proof. vm_compute. reflexivity. Qed.

Example lib_cmac_bits_23_bits128_tag16 :
  firstn 16 (cmac_bits (hex "d7af7561128e2e4db01232610552546e")
        (hex "f5fca86d691ad8607637289cca4eeddc") 128)
  = hex "383b2a25aeffa3bf08a8b079f4a2295e".
Proof. vm_compute. reflexivity. Qed.

Example lib_cmac_bits_24_bits129_tag16 :
  firstn 16 (cmac_bits (hex "878b5a44304aa3565d53bcd9f88b06e7")
        (hex "818ca213ac2ece575770468462fbc7bcd8") 129)
  = hex "779f27f1f5a7d078f3d95c07c55ac4b7".
Proof. vm_compute. reflexivity. Qed.

Example lib_cmac_bits_25_bits129_tag16 :
  firstn 16 (cmac_bits (hex "234da960657068d7dfad3ffca3b987bc")
        (hex "1902cda507238b0b8850d9f3798460be7f") 129)
  = hex "832ef34ecf6bf99cbcb5ac3ccd744e6f".
Proof. vm_compute. reflexivity. Qed.

Example lib_cmac_bits_26_bits135_tag16 :
  firstn 16 (cmac_bits (hex "9172e5dbb8a3a6c18bf2d1cfe8e12d3c")
        (hex "5169556d67bfd28118748a5d4b690ba513") 135)
  = hex "4da4084e24b7fca823dcbe999ae39a09".
Proof. vm_compute. reflexivity. Qed.

Example lib_cmac_bits_27_bits135_tag16 :
  firstn 16 (cmac_bits (hex "1cc47d1cf4ace97cdf3e1290e828e157")
        (hex "a9d49d7350dbeba49049e656da7d395fdd") 135)
  = hex "aff2ef44470886fa37323082a4a8d23b".
Proof. vm_compute. reflexivity. Qed.

Example lib_cmac_bits_28_bits136_tag16 :
  firstn 16 (cmac_bits (hex "512b394e38f4c80206e3b569f2857182")
        (hex "0a4b8e7a5adae9146bdd0b8aac4d5356af") 136)
  = hex "98544892e51f91fbc7a726af96011c16".
Proof. vm_compute. reflexivity. Qed.

Example lib_cmac_bits_29_bits136_tag16 :
  firstn 16 (cmac_bits (hex "605608a69491372490fb59c60ec88f01")
        (hex "a27d0ae45c173bdceeaae007eed62f68c4") 136)
  = hex "7dc0adc35a78b718191c5d319d5a8aee".
Proof. vm_compute. reflexivity. Qed.

Example lib_cmac_bits_30_bits255_tag16 :
  firstn 16 (cmac_bits (hex "ea17e640ed144c08760d700d061f1861")
        (hex "0935beb3ef035202d36328ad9dc1c7af0a31b1e0196c1b6c99dbebd503433c70") 255)
  = hex "7ef56b4643101f486ee47017276b64d3".
Proof. vm_compute. reflexivity. Qed.

Example lib_cmac_bits_31_bits255_tag16 :
  firstn 16 (cmac_bits (hex "d84581a6c4da9d9d96015eaac17fbe91")
        (hex "a9642d3b3da3c54a29d2b6debb248f354019ed4fa0e9edd090e164a980dec11d") 255)
  = hex "ead0c07efafc2a6162f79750cebabb30".
Proof. vm_compute. reflexivity. Qed.

Example lib_cmac_bits_32_bits256_tag16 :
  firstn 16 (cmac_bits (hex "ac74043fb3c46b45391058758ad459ff")
        (hex "aea5290bcf3475d2da9456982b451fc6473aca93e8582fa528fbb00bbb2149bb") 256)
  = hex "6706cce86547aac24f37eb6a3fcbaef6".
Proof. vm_compute. reflexivity. Qed.

Example lib_cmac_bits_33_bits256_tag16 :
  firstn 16 (cmac_bits (hex "fcb08efb4d670ba260023d685f5c9952")
        (hex "11e7f8acc97e50506c529155992515338a6746f94eb7065b09913f5ee8bf53cf") 256)
  = hex "935595146382d3df9f96c4e83a4bf857".
Proof. vm_compute. reflexivity. Qed.

Example lib_cmac_bits_34_bits257_tag16 :
  firstn 16 (cmac_bits (hex "8c1c29edc3524d2f15a38575fc5c6288")
        (hex "63e112e62072c504602c6434d75fdbbb41c75d7128e6c4eb784e60ab80e2516b77") 257)
  = hex "048f12bd6e1edfc3d6ad7d077644ebbf".
Proof. vm_compute. reflexivity. Qed.

Example lib_cmac_bits_35_bits257_tag16 :
  firstn 16 (cmac_bits (hex "8669a9f1b50fb4eea6c8566d000562f8")
        (hex "4acb6b3f8963c4971a79ebf5e4746a1ff8c0687a2fd4f62016dedae1e4d746e77f") 257)
  = hex "0b5bb85603d65b7d02e4ad944de2d505".
Proof. vm_compute. reflexivity. Qed.

Example lib_cmac_bits_36_bits1000_tag16 :
  firstn 16 (cmac_bits (hex "33962eeadb70e281b3ba88e7ff840636")
        (hex "dbb18e3fea115707668928ca33ab9577ed2990d49fd21e01bf185c3ae82f4db6dd78678cc1ca44dfdc4d8f432cc06977b43ab402814cc7265413b9bd5fa3128b3efaaa7e48697594cdd82a5c8660533eae0cbce8bc33a9e285247e3e47add487351968dd6a78d70f539df3079d16804dc4e4c323210a89a7708763817e") 1000)
  = hex "a8cbf981c7cb4a35c8c2f028c72a6f6d".
Proof. vm_compute. reflexivity. Qed.

Example lib_cmac_bits_37_bits1000_tag16 :
  firstn 16 (cmac_bits (hex "e84bfa9cb9c9d6c7c18eef5f1d156c94")
        (hex "ef100bd21bf252cdb7d482748461ee52cc56f1cf30ae64d515a3c596ae6bcbf4e40f20cbe46f85e4909525b638a4f763037451deb8d93b60d70264e976c63c33a05e135b91927b1c75071075bd670a3b847e4e922714276dfecb5493a730902d166d91cfde1aaf97267c0707c02c2011428a3300eb301c996679b44a78") 1000)
  = hex "e1f31388e2656c44b53a5aa3d1f5fc08".
Proof. vm_compute. reflexivity. Qed.

Example lib_cmac_bits_38_bits1000_tag4 :
  firstn 4 (cmac_bits (hex "7e43138d34e4d043422a2f6cb1c1ced3")
        (hex "efc611998937004504739ca6d9965b497c22a5c27456b4039ac7aae6544b74caace3de48b043f6e74940390fe5c6ea17a721eeee94d6db5ffd7a7b14b10a8c9e4ab40bfa647e1e6fcc4256dad21e16f61bfe3f109055001484d889364b873b5e91af1a3fa45508589fc771b02190cc6fdec0ee3918ea61a839ad69b4be") 1000)
  = hex "7a52be4f".
Proof. vm_compute. reflexivity. Qed.

Example lib_cmac_bits_39_bits1023_tag16 :
  firstn 16 (cmac_bits (hex "9eb5010dd990227615870df659b3ef06")
        (hex "8a378257ca26302fe681dba5ad7c583b88d7944960e449fe376decf5177b2797d0f457659e489cf0d12eda1da4baeb50035bde04dfeb0efa390f6aaea0995431dcc22d9e05a94b6fab03eb751f133ed4f57b5e2f74cdb396137e4fcfb2a18d1dfab3b3d8a3a6a7bfb175fb9e170c2d4b0354794b85395a080e3b675d1d8a4058") 1023)
  = hex "f63d4f30496e9dfb88807a07e9509ec2".
Proof. vm_compute. reflexivity. Qed.

Example lib_cmac_bits_40_bits1023_tag16 :
  firstn 16 (cmac_bits (hex "8cf993d5941bda88099b3041175c59f1")
        (hex "1920ec7edf96e9d3c982b6da6bcaa29a9e5faecc97523c779867197f9532f21a9f696a4ae81b126fba5282acebc78383da86ae3f621f60a79dfce034fed6d07a403fe8d7c971309d13941600a72a74c279cfc2a0bc4e56cdda155d16d183a795f54f754ee26e680f054b1a67a8b06d6fbf9292e01f2dcbae9e074fcfff4cd4c7") 1023)
  = hex "14cc0d80773f398dbce93c8c005b9dd9".
Proof. vm_compute. reflexivity. Qed.

Example lib_cmac_bits_41_bits1024_tag16 :
  firstn 16 (cmac_bits (hex "53414048f8e5e6f74c6c7322babf441b")
        (hex "d69e01c6b363f65bf36115faf7de59ac5ebe6ccdc73066f36e3beb9bc5c433813ba216874d20396a7c7fb9ef3a601e7dcdc7742faffeb97860a15489c8dbfff007b0b2de5017e45c0fc54e5ac18f79e838becb75c9511079b4c5d5e0a132af6774c04fc9eb1aefb109c0ae58b8a756d43af1df0a08cd150dd09d0b4ded2e998b") 1024)
  = hex "30a5d8b62bee0ef105a208f1f9388e49".
Proof. vm_compute. reflexivity. Qed.

Example lib_cmac_bits_42_bits1024_tag16 :
  firstn 16 (cmac_bits (hex "4780863de73f6aabcf8b5c9a73e1df39")
        (hex "91eca1525278ce3f5bc893daac2f8cfbcf8a96cf8c557842c701f57829802a13cfbb4cad8a42897503849d6ba1da6ecc7ef658ac3679a11826b2cbd741bf198316a840364d42b1715b31f63cf33e416480b5eb2038abc46b322ac10c3c3d0e0e9d141223e2f44bf6a363bab6c4bce42d0e862939482f92dfee9af264c50de5df") 1024)
  = hex "9be30637654454b5a6faa8e165f7de6f".
Proof. vm_compute. reflexivity. Qed.

Example lib_cmac_bits_43_bits1025_tag16 :
  firstn 16 (cmac_bits (hex "586ead074656911930d039d0c3e017b0")
        (hex "ff8bf7e2235ff855f33aa9d5bdcf8c84bf09c8d79cc30f3265f47e567204f1ea32f640bdc59c470c66d455f24a1f1e37a267771ac893b4db7c2e0e86290e369d3c114aaf44557a5f90321e678940aac714a1da7ca8e763dacb227e393df6086ac57d988a105649eb8637837c2765c039ce1298b6b86633430ef7397fa4ebe79b19") 1025)
  = hex "a15077edf79a8f83e281e18aebf03dc7".
Proof. vm_compute. reflexivity. Qed.

Example lib_cmac_bits_44_bits1025_tag16 :
  firstn 16 (cmac_bits (hex "34a4ba8b2dcb6b2097e88b203502b3fa")
        (hex "11f7f648b412f30001c7b26f5525a32b36d4e0d548a6d80f05dfc6dd0183bc4595ddad86bbd0a2774859285db295db1d77fda1b0a6ab25c75fe7182da294d806ba95fd2c1ffbef82c79cbb40735c0e7fe337d1432c2e870f699388d5bcd2d66c8bc684c696694f9cb93b9be6300a1cdf057135fc9b3f3004f1c69db1fceea8117f") 1025)
  = hex "f7c866bb50e2f72a0cfef92fcaf27c10".
Proof. vm_compute. reflexivity. Qed.

(* IMB_AES_XCBC_KEYEXP + IMB_AUTH_AES_XCBC (12-byte tag; the library rejects
   any other tag length with IMB_ERR_JOB_AUTH_TAG_LEN; message length 0 is accepted). *)

Example lib_xcbc_1_len0 :
  xcbc_keys (hex "0b02e536a14ed61ab049b856add63ffc")
  = (chunks 16 (hex "e7abff63b470dd5377ce0ae3a2fad1d6cb9509597fe5d40a082bdee9aad10f3ff7e37cf58806a8ff802d76162afc79294355d910cb5371ef4b7e07f961827ed058a6a9ff93f5d810d88bdfe9b909a1394994bba9da6163b902eabc50bbe31d6978304243a25121faa0bb9daa1b5880c352fd6cecf0ac4d165017d0bc4b4f507f56aebe5fa602f349f61523f5bd5a738af321c0255523336ca33610991e6c631395dabd57c0f98e3b63cf9ea27da3fdb1"),
     hex "07f38fd9725dfb96fbbdc3176d5ea168", hex "afe060ee13f196806113669f2246c0af")
  /\ firstn 12 (xcbc (hex "0b02e536a14ed61ab049b856add63ffc")
        (hex ""))
     = hex "e0de6c7b93c0a18cc97a0127".
Proof. vm_compute. split; reflexivity. Qed.

Example lib_xcbc_2_len1 :
  xcbc_keys (hex "633279d2fa78fb9c9e87ffc2adb31833")
  = (chunks 16 (hex "4d4d3edcd1202b068f72dc2e6ce004e6adbfb08c7c9f9b8af3ed47a49f0d434278a59c57043a07ddf7d7407968da033b2bde7e122fe479cfd83339b6b0e93a8d3d5e23f512ba5a3aca89638c7a605901fd955f2fef2f051525a666995fc63f9869e019e086cf1cf5a3697a6cfcaf45f4508ea650d641baa57528c0c98987853dc71981f711583b526470fb9bedf77ea6b4eaa5a2a5b29ef0c1c2656b2c351bcd144518d3b1f786237035e3485c00f885"),
     hex "423e64575add4b5382ff2b08e51e83f0", hex "3151c284fc39799a0271efba0e6dad6a")
  /\ firstn 12 (xcbc (hex "633279d2fa78fb9c9e87ffc2adb31833")
        (hex "d9"))
     = hex "bf3f5f0a29d5352e64dbf73f".
Proof. vm_compute. split; reflexivity. Qed.

Example lib_xcbc_3_len15 :
  xcbc_keys (hex "b791fd4823bdee93b036dd38e7328477")
  = (chunks 16 (hex "ffd5d26067e8a2471f6c304667471bd05e7aa2e5399200a226fe30e441b92b340a8bba663319bac415e78a20545ea11456b9404665a0fa82704770a22419d1b68a870e70ef27f4f29f608450bb7955e62c7b809ac35c74685c3cf038e745a5de627d9d0ea121e966fd1d195e1a58bc80481850ace939b9ca1424a0940e7c1c14d884aa0731bd13cd2599b3592be5af4d1afd49f62b405a3b0ed9e962253c462fc7a75cc9ece706f2e23eef90c702a9bf"),
     hex "015c87b255ef4d35ead1489edefc636d", hex "1804a7655e8abcd98e2fedfdcb79690e")
  /\ firstn 12 (xcbc (hex "b791fd4823bdee93b036dd38e7328477")
        (hex "2d83e535335575ac537be75f419b15"))
     = hex "7a8a5afdd1f6a745c9585e5a".
Proof. vm_compute. split; reflexivity. Qed.

Example lib_xcbc_4_len16 :
  xcbc_keys (hex "d8ce0f9e16a040097f47f80bf361b666")
  = (chunks 16 (hex "6111e70855ce7a54822433a84854fbd7401ee95a15d0930e97f4a0a6dfa05b71a2274ac4b7f7d9ca2003796cffa3221dacb4eed21b4337183b404e74c4e36c69b5e417ceaea720d695e76ea2510402cb5793081ff93428c96cd3466b3dd744a07988e83880bcc0f1ec6f869ad1b8c23a55ad6806d511a8f7397e2e6de8c6ec576163339db4729b6a8d0cb50765ca59500ea860d0badafbba37d64ebd521c17eda45835d01e82ce6a295480d77b48973a"),
     hex "67934aa630eca1836585fa286066e32e", hex "6304ac8822a38d3c3342dca882f6d903")
  /\ firstn 12 (xcbc (hex "d8ce0f9e16a040097f47f80bf361b666")
        (hex "ee0b7be5aaa9cdbc35ffd452500c1c5c"))
     = hex "6a25263a323d274a1417b899".
Proof. vm_compute. split; reflexivity. Qed.

Example lib_xcbc_5_len17 :
  xcbc_keys (hex "930acb609ca8980aeadfa1f2eec83665")
  = (chunks 16 (hex "176f2096531f9de927b640c237ddfc5ed7df780c84c0e5e5a376a52794ab5979b714ce2e33d42bcb90a28eec0409d795b21ae4dc81cecf17116c41fb1565966ef78a7b857644b4926728f569724d63070471bec572350a57151dff3e67509c3977afac40059aa6171087592977d7c510390966b53c93c0a22c14998b5bc35c9b9743728cabd0b22e87c42ba5dc07773e49b6c00ae266722465a25981b9a52ebf7987c85c9be1ba78fe43e3f947e6cd46"),
     hex "df54a4558d31ce69692827bc896be028", hex "886f629a7e9a2a3c26597c3b6937d91d")
  /\ firstn 12 (xcbc (hex "930acb609ca8980aeadfa1f2eec83665")
        (hex "587ba8550e731be6e9bd3c57eb953d74cb"))
     = hex "e4f366043228e1496ab2e43b".
Proof. vm_compute. split; reflexivity. Qed.

Example lib_xcbc_6_len32 :
  xcbc_keys (hex "828e6a4826b5005d27df3ee4de98b3c0")
  = (chunks 16 (hex "62635f1e292c0fe8641bad071773c070ecd90eeec5f50106a1eeac01b69d6c71b089ada0757caca6d49200a7620f6cd6c2d95b0ab7a5f7ac6337f70b01389bddcdcd9a767a686dda195f9ad11867010c58b164db22d909013b8693d023e192dc80fee2fda227ebfc99a1782cba40eaf0c9796e096b5e85f5f2fffdd948bf17294189cb5b2ad74eaed828b3779097a45ed2c0933bf817dd95203f6ee2b0a8cabc26b4f6dcdea32b49fe9c45ab4e348f17"),
     hex "40d6cdc4a9ad13799197336cbb9fd0cf", hex "f6418e6815d66d8590cd3d1c555b3b5f")
  /\ firstn 12 (xcbc (hex "828e6a4826b5005d27df3ee4de98b3c0")
        (hex "35f98e1d393d5c9421e9306a2d1ae0832f92986ba8e51ca08f1a89d8162429a8"))
     = hex "63a5122c2803d953f82133bc".
Proof. vm_compute. split; reflexivity. Qed.

Example lib_xcbc_7_len33 :
  xcbc_keys (hex "04269d6fbe147b2bc6fdabf0af7fcf81")
  = (chunks 16 (hex "2f88231a811cef109ac97781df699f43d7533984564fd694cc86a11513ef3e560ae188f95cae5e6d9028ff7883c7c12ec899b9159437e778041f180087d8d92ea1ac8802359b6f7a3184777ab65cae54fb48a84cced3c736ff57b04c490b1e18f03a05773ee9c241c1be720d88b56c15656a5cb35b839ef29a3decff128880ea21a7db7a7a244588e019a977f291299dbb0285f3c126c07b213f690cd3ae4091690b0495a82dc4ee8912ade25abced73"),
     hex "c276b8e36596d6df8c45330fb5a7ef9d", hex "1155558d6cca80312cd566a2b1d0aee8")
  /\ firstn 12 (xcbc (hex "04269d6fbe147b2bc6fdabf0af7fcf81")
        (hex "d2556ef33ffb00579e804ba09556cd669382b5d3cce99dcf64e738c0dff331345a"))
     = hex "5a5e7030573ffde81b446e29".
Proof. vm_compute. split; reflexivity. Qed.

Example lib_xcbc_8_len100 :
  xcbc_keys (hex "34fa5c2586ab7dbe31a869f59fc341fa")
  = (chunks 16 (hex "1f76b9a11b3b646635ed16306871ac3bbde75be4a6dc3f82933129b2fb408589b670fceb10acc369839deadb78dd6f5273d8fc5763743f3ee0e9d5e59834bab7632c551100586a2fe0b1bfca7885057de447aaade41fc08204ae7f487c2b7a35359d3cbdd182fc3fd52c8377a907f942b004106e6186ec51b4aa6f261dad9664a59453cac412bf9b70b8d0bd6d1546d9e7ce66f623dcd96d536409d03e714f09724a67445196be2902f2b7f93c83f8f0"),
     hex "60d4264295a0df473e04ffae5db1fb65", hex "41328f6d3ad98cc54edd16b7c6e90134")
  /\ firstn 12 (xcbc (hex "34fa5c2586ab7dbe31a869f59fc341fa")
        (hex "538f8e4cdadad73868bd045d370c5573cf470a26ef1acb8f941323341ea102ae311938be814f315632db60d50bcf1cb6a1de931c6d503842cd0a485eafe5fefd03a5c575065f7e14b1bf8f349c59b49f3304cb6107d316580161d4a1651115010139d56c"))
     = hex "8e3b64e0fed706c4637cd6ed".
Proof. vm_compute. split; reflexivity. Qed.

Example lib_xcbc_9_len255 :
  xcbc_keys (hex "ad7e504978523ceaa30e2104b51f54ed")
  = (chunks 16 (hex "362ef8f8fda5c68d23ad0ffb297dfb83c821145d3584d2d01629dd2b3f5426a8ead6d628df5204f8c97bd9d3f62fff7bfbc0f76a2492f392ede92a411bc6d53a47c377c5635184578eb8ae16957e7b2ca4e206efc7b382b8490b2caedc75578219b91569de0a97d19701bb7f4b74ecfdcb7741da157dd60b827c6d74c90881897b7be6076e06300cec7a5d782572dcf120fd47384efb7734a2812a4c87f3f6bd1bbf3d2f55444a1bf7c56057703696ea"),
     hex "0577159a8dfb4904e99a1918d0fde8ab", hex "fea40b10d275c1ad8d3145f7af73b122")
  /\ firstn 12 (xcbc (hex "ad7e504978523ceaa30e2104b51f54ed")
        (hex "02718bf06909a651e17004d40e2d6b2ce1e559727f8f9747ee3492e686a434a01178a835dac2399d950bf4f6c666bf43a603e96e786e6b8fec43c8750ddce06c5a85e0527d7f1a1d51b9200300422d9b47cac056bf249de8f9e34e13d77c9aea66a945bff69af5c47068204dbcf6997dc703a6022a2305ea53745a107dcc3a2afb2862350bc3fd3efcf6a950f776072b427cea9bddf189a207abac7e22d0a3576e7557ed10e0e0d9137e3e6d752303dd574904a35e54b9ec25268da8e4709bbb38f8cf0e7f551fddf0a080cb15cbe6f1ab706a67c249fa80596dfa7569f83dff11ef54f4dd41186f9e5828b3a1004ccd49fb078cd4241fef5a1ab55f6b0ebd"))
     = hex "1a9e06daf679821dcde5f570".
Proof. vm_compute. split; reflexivity. Qed.

Example lib_xcbc_10_len256 :
  xcbc_keys (hex "ac27a6fbf4f9fa344fee5816075b6d66")
  = (chunks 16 (hex "806c240dc519b161412fb994cc70af41d015a746150c16275423afb3985300f23f762e002a7a38277e599794e60a97665cfe1d8e768425a908ddb23deed7255b5ac124a62c45010f2498b332ca4f9669ce51ddd2e214dcddc68c6fef0cc3f986c0c8992c22dc45f1e4502a1ee893d3985caedfb77e729a469a22b05872b163c0145565f76a27ffb1f0054fe982b42c298224c0e4e8033f55180670bc9ab25c95836eea5c6b6dd509736ba5b5e9d9f920"),
     hex "c41a87f21133e507ba57e058a50f7ec6", hex "a09c095dbd22dbd1ad391d57e5ecd7e1")
  /\ firstn 12 (xcbc (hex "ac27a6fbf4f9fa344fee5816075b6d66")
        (hex "9c82062cb018e54101ba0a513cd713687615de05a39fc8deb0dc91ec59450503f5ff0d32cd4fb17066de1640fd2eeb70c56fb85999355611eb3bcea5c2c08485fab7021eb3b1257fa48718975d8be3a8267dc874cfeddb03369f56c20a6322b60e6664c31e17e833323679efda492e226408faa834c89631e5b530e7a17163d00b0be448d268094cfb6f4567213dac82b924c12f49d5e699f31e7dfb6fe0993124ab69db5395e28d2e3fc73f42d017e4e47ba1da2e8aabc854eb73a1a4df8f210d1d6d27f338c4d102f047aa610b2c228284d8675d96304c769e2a434c03d9345639c32d4851c82bfc888da302e590b9d9b89f6771ea18ace6f51ca667bb160f"))
     = hex "1c6221cfc96e9abc02ca4b92".
Proof. vm_compute. split; reflexivity. Qed.
