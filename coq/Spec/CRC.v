(* Spec/CRC.v — generic bitwise CRC (Rocksoft/Williams parameter model) and the
   twelve CRC functions of intel-ipsec-mb exactly as its direct API
   (IMB_CRC32_ETHERNET_FCS(mgr, src, len) ...) and its hash-only jobs
   (IMB_AUTH_CRC32_ETHERNET_FCS ...) compute them, plus the DOCSIS CRC32
   (IMB_AUTH_DOCSIS_CRC32 combined with IMB_CIPHER_DOCSIS_SEC_BPI).
   Definitions only; tests in Spec/CRC_Tests.v.

   Parameters: /repo/test/kat-app/crc_test.c (reference implementations),
   /repo/lib/x86_64/crc32_const.asm, crc32_refl_const.asm (polynomials in the
   "64->32 reduction" constants), /repo/lib/sse_t1/crc32_*_sse.asm,
   ethernet_fcs_sse.asm, crc16_x25_sse.asm (init / final xor / final shift).
   All confirmed against the real library (sse, avx2, avx512 managers).

   NOTE (library-defined): IMB_CRC32_SCTP is NOT the CRC32c of RFC 4960/3309
   (reflected, init/xorout 0xffffffff); the library computes the plain
   MSB-first CRC with polynomial 0x1EDC6F41, init 0, no final xor. *)
From IMB Require Import Lib.Bytes.
Local Open Scope N_scope.

(* ---------- generic bitwise CRC ---------- *)

(* shift one message bit into a [width]-bit register (MSB-first form) *)
Definition crc_bit (width mask poly : N) (reg : N) (bit : bool) : N :=
  let top := N.testbit reg (width - 1) in
  let reg' := N.land (N.shiftl reg 1) mask in
  if xorb top bit then N.lxor reg' poly else reg'.

(* one message byte; refin = true feeds the least significant bit first *)
Definition crc_byte (width mask poly : N) (refin : bool) (reg : N) (b : N) : N :=
  let f i r := crc_bit width mask poly r (N.testbit b i) in
  if refin
  then f 7 (f 6 (f 5 (f 4 (f 3 (f 2 (f 1 (f 0 reg)))))))
  else f 0 (f 1 (f 2 (f 3 (f 4 (f 5 (f 6 (f 7 reg))))))).

(* reverse the low [n] bits of x *)
Fixpoint reflect_aux (n : nat) (x acc : N) : N :=
  match n with
  | O => acc
  | S k => reflect_aux k (N.shiftr x 1) (N.lor (N.shiftl acc 1) (N.land x 1))
  end.
Definition reflect_bits (n : nat) (x : N) : N := reflect_aux n x 0.

(* crc_gen width poly init xorout refin refout msg, width >= 1.
   poly without the top x^width term, init = initial register contents (in the
   MSB-first convention, as in the Rocksoft model / "CRC catalogue"). *)
Definition crc_gen (width : nat) (poly init xorout : N) (refin refout : bool)
                   (msg : bytes) : N :=
  let w := N.of_nat width in
  let mask := N.ones w in
  let reg := fold_left (crc_byte w mask (N.land poly mask) refin) msg (N.land init mask) in
  N.lxor (if refout then reflect_bits width reg else reg) (N.land xorout mask).

(* ---------- the library's functions (return value of the direct API, a uint32_t) ---------- *)

(* CRC-32/ISO-HDLC: poly 0x04C11DB7 init 0xFFFFFFFF refin refout xorout 0xFFFFFFFF *)
Definition crc32_ethernet_fcs : bytes -> N := crc_gen 32 79764919 4294967295 4294967295 true true.
(* CRC-16/IBM-SDLC (X.25): poly 0x1021 init 0xFFFF refin refout xorout 0xFFFF *)
Definition crc16_x25 : bytes -> N := crc_gen 16 4129 65535 65535 true true.
(* poly 0x1EDC6F41, init 0, not reflected, no xorout (see NOTE above) *)
Definition crc32_sctp : bytes -> N := crc_gen 32 517762881 0 0 false false.
(* 3GPP TS 36.212 CRC24A poly 0x864CFB / CRC24B poly 0x800063, init 0 *)
Definition crc24_lte_a : bytes -> N := crc_gen 24 8801531 0 0 false false.
Definition crc24_lte_b : bytes -> N := crc_gen 24 8388707 0 0 false false.
(* 3GPP TS 25.435/25.427 framing protocol: CRC16 0x8005, CRC11 0x307, CRC7 0x45; init 0 *)
Definition crc16_fp_data : bytes -> N := crc_gen 16 32773 0 0 false false.
Definition crc11_fp_header : bytes -> N := crc_gen 11 775 0 0 false false.
Definition crc7_fp_header : bytes -> N := crc_gen 7 69 0 0 false false.
(* 3GPP TS 25.415 IuUP: CRC10 0x233, CRC6 0x2F; init 0 *)
Definition crc10_iuup_data : bytes -> N := crc_gen 10 563 0 0 false false.
Definition crc6_iuup_header : bytes -> N := crc_gen 6 47 0 0 false false.
(* IEEE 802.16 OFDMA: CRC-32/BZIP2 (0x04C11DB7 init/xorout 0xFFFFFFFF, not reflected), HCS CRC8 0x07 init 0 *)
Definition crc32_wimax_ofdma_data : bytes -> N := crc_gen 32 79764919 4294967295 4294967295 false false.
Definition crc8_wimax_ofdma_hcs : bytes -> N := crc_gen 8 7 0 0 false false.

(* ---------- hash jobs ---------- *)

Inductive crc_alg : Type :=
| CRC32_ETHERNET_FCS | CRC32_SCTP | CRC32_WIMAX_OFDMA_DATA | CRC24_LTE_A | CRC24_LTE_B
| CRC16_X25 | CRC16_FP_DATA | CRC11_FP_HEADER | CRC10_IUUP_DATA | CRC8_WIMAX_OFDMA_HCS
| CRC7_FP_HEADER | CRC6_IUUP_HEADER.

Definition crc_fn (a : crc_alg) : bytes -> N :=
  match a with
  | CRC32_ETHERNET_FCS => crc32_ethernet_fcs
  | CRC32_SCTP => crc32_sctp
  | CRC32_WIMAX_OFDMA_DATA => crc32_wimax_ofdma_data
  | CRC24_LTE_A => crc24_lte_a
  | CRC24_LTE_B => crc24_lte_b
  | CRC16_X25 => crc16_x25
  | CRC16_FP_DATA => crc16_fp_data
  | CRC11_FP_HEADER => crc11_fp_header
  | CRC10_IUUP_DATA => crc10_iuup_data
  | CRC8_WIMAX_OFDMA_HCS => crc8_wimax_ofdma_hcs
  | CRC7_FP_HEADER => crc7_fp_header
  | CRC6_IUUP_HEADER => crc6_iuup_header
  end.

(* IMB_AUTH_CRC* job (cipher NULL): auth_tag_output_len_in_bytes must be 4 for
   every CRC width; the CRC macro in /repo/lib/include/mb_mgr_job_api.h does
   *(uint32_t * ) auth_tag_output = IMB_CRCxx(state, src + hash_start, msg_len_to_hash)
   i.e. the value zero-extended to 32 bits, stored little-endian.
   msg_len_to_hash = 0 is accepted. *)
Definition crc_job_tag (a : crc_alg) (msg : bytes) : bytes := le32 (crc_fn a msg).

(* ---------- DOCSIS CRC32 (IMB_CIPHER_DOCSIS_SEC_BPI + IMB_AUTH_DOCSIS_CRC32) ---------- *)

(* replace the bytes of buf at [off, off + length data) by data (buf is expected
   to be at least off + length data long) *)
Definition splice (buf : bytes) (off : nat) (data : bytes) : bytes :=
  firstn off buf ++ data ++ skipn (off + length data) buf.

Definition slice (buf : bytes) (off len : nat) : bytes := firstn len (skipn off buf).

Definition docsis_crc32 (msg : bytes) : N := crc32_ethernet_fcs msg.

(* The CRC is computed only if msg_len_to_hash >= 14 (IMB_DOCSIS_CRC32_MIN_ETH_PDU_SIZE,
   /repo/lib/include/docsis_common.h).  For msg_len_to_hash < 14 no CRC is
   inserted in the frame (all implementations agree), and the content of
   auth_tag_output is NOT a function of the job inputs: the SSE/AVX2 managers
   leave it untouched, the AVX512 (VAES) manager overwrites it (encrypt: with
   the lane's stale CRC state, 0 on a fresh manager; decrypt without cipher:
   with the CRC of the short region) — /repo/lib/avx512_t2/aes_docsis_enc_vaes_avx512.asm
   ("_no_partial_block_cipher: copy CRC value into auth tag" is unconditional),
   aes_docsis_dec_vaes_avx512.asm (no length test).  Modelled as None. *)
Definition docsis_crc_min_len : nat := 14.
Definition docsis_crc_enabled (hash_len : nat) : bool := Nat.leb docsis_crc_min_len hash_len.

(* Frame geometry for which all implementations agree (and the only one used by
   DOCSIS and by the library's own vectors): either nothing is ciphered, or no
   CRC is requested, or the ciphered region starts at least 12 bytes (DA+SA)
   into the hashed region and ends exactly with the 4 CRC bytes that follow the
   hashed region.  is_job_invalid only enforces ciph_off >= hash_off + 12 and
   ciph_len + 8 <= hash_len (when both lengths are non zero); for accepted jobs
   outside this predicate the AVX512 (VAES) implementation computes the CRC over
   [hash_off, ciph_off + ciph_len - 4) and puts it at ciph_off + ciph_len - 4
   whenever ciph_len >= 32 (encrypt) / whenever ciph_len > 0 (decrypt), i.e. it
   disagrees with the SSE/AVX2 implementations (which follow the definitions
   below for every geometry). *)
Definition docsis_geometry_std (hash_off hash_len ciph_off ciph_len : nat) : bool :=
  Nat.eqb ciph_len 0 || negb (docsis_crc_enabled hash_len) ||
  (Nat.leb (hash_off + 12) ciph_off && Nat.eqb (ciph_off + ciph_len) (hash_off + hash_len + 4)).

(* what is_job_invalid checks for IMB_AUTH_DOCSIS_CRC32 lengths / offsets *)
Definition docsis_job_geometry_accepted (hash_off hash_len ciph_off ciph_len : nat) : bool :=
  Nat.eqb ciph_len 0 || Nat.eqb hash_len 0 ||
  (Nat.leb (ciph_len + 8) hash_len && Nat.leb (hash_off + 12) ciph_off).

(* encrypt direction, step 1: CRC over buf[hash_off, hash_off+hash_len) written
   little-endian into buf[hash_off+hash_len, +4) (the 4 bytes right after the
   hashed region, inside the source buffer) *)
Definition docsis_crc_insert (buf : bytes) (hash_off hash_len : nat) : bytes :=
  if docsis_crc_enabled hash_len
  then splice buf (hash_off + hash_len) (le32 (docsis_crc32 (slice buf hash_off hash_len)))
  else buf.

(* value written to auth_tag_output (4 bytes, CRC little-endian) — None when
   hash_len < 14: unspecified (see above) *)
Definition docsis_crc_tag (buf : bytes) (hash_off hash_len : nat) : option bytes :=
  if docsis_crc_enabled hash_len
  then Some (le32 (docsis_crc32 (slice buf hash_off hash_len)))
  else None.

(* in-place ciphering of buf[ciph_off, ciph_off+ciph_len) with [f] *)
Definition docsis_cipher_region (f : bytes -> bytes) (buf : bytes) (ciph_off ciph_len : nat) : bytes :=
  splice buf ciph_off (firstn ciph_len (f (slice buf ciph_off ciph_len))).

(* Whole job, generic over the DOCSIS BPI cipher (AES-CBC on whole blocks +
   CFB residual termination), [bpi_enc key iv msg] / [bpi_dec key iv msg]
   returning length msg bytes.  In-place operation (dst = src + ciph_off), the
   frame is [buf].  Job constraints (mb_mgr_job_check.h): docsis_job_geometry_accepted,
   encrypt must use IMB_ORDER_HASH_CIPHER and decrypt IMB_ORDER_CIPHER_HASH,
   tag length 4, IV 16 bytes, key 16 or 32 bytes.  The result is common to all
   implementations when docsis_geometry_std holds.
   Result: (new buffer, tag written to auth_tag_output if any).
   encrypt: CRC over plaintext, inserted, then region ciphered;
   decrypt: region deciphered, then CRC computed over the result (the CRC bytes
   following the hashed region are NOT compared by the library). *)
Definition docsis_crc_enc (bpi_enc : bytes -> bytes -> bytes -> bytes) (key iv buf : bytes)
           (hash_off hash_len ciph_off ciph_len : nat) : bytes * option bytes :=
  let buf1 := docsis_crc_insert buf hash_off hash_len in
  (docsis_cipher_region (bpi_enc key iv) buf1 ciph_off ciph_len,
   docsis_crc_tag buf hash_off hash_len).

Definition docsis_crc_dec (bpi_dec : bytes -> bytes -> bytes -> bytes) (key iv buf : bytes)
           (hash_off hash_len ciph_off ciph_len : nat) : bytes * option bytes :=
  let buf1 := docsis_cipher_region (bpi_dec key iv) buf ciph_off ciph_len in
  (buf1, docsis_crc_tag buf1 hash_off hash_len).
