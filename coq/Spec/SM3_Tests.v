(* Spec/SM3_Tests.v — KNOWN-ANSWER TESTS (not theorems about all inputs) for Spec/SM3.v.
   Vectors: GB/T 32905-2016 appendix A (examples 1 and 2), and the first
   generated vector of /repo/test/kat-app/sm3_test.json.c. *)
From Coq Require Import String.
From IMB Require Import Lib.Bytes Spec.Hex Spec.SHA Spec.SM3.
Local Open Scope N_scope.

(* A.1: "abc" *)
Example test_sm3_abc :
  sm3 (ascii_bytes "abc") = hex "66c7f0f462eeedd9d1f2d46bdc10e4e24167c4875cf2f7a2297da02b8f4ba8e0".
Proof. vm_compute. reflexivity. Qed.

(* A.2: "abcd" x 16 (64 bytes, two blocks after padding) *)
Example test_sm3_abcd16 :
  sm3 (ascii_bytes "abcdabcdabcdabcdabcdabcdabcdabcdabcdabcdabcdabcdabcdabcdabcdabcd")
  = hex "debe9ff92275b8a138604889c18e5a4d6fdb70e5387e5765293dcba39c0c5732".
Proof. vm_compute. reflexivity. Qed.

(* A.1 intermediate value: state after the (single) block of "abc" *)
Example test_sm3_abc_state :
  sm3_compress sm3_init (sm3_pad 3 (ascii_bytes "abc"))
  = [0x66c7f0f4; 0x62eeedd9; 0xd1f2d46b; 0xdc10e4e2; 0x4167c487; 0x5cf2f7a2; 0x297da02b; 0x8f4ba8e0].
Proof. vm_compute. reflexivity. Qed.

(* A.1 message expansion: W_16, W_18, W_19 of the padded "abc" block *)
Example test_sm3_abc_W :
  let W := sm3_W (sm3_pad 3 (ascii_bytes "abc")) in
  (length W, nth 16 W 0, nth 18 W 0, nth 19 W 0) = (68%nat, 0x9092e200, 0x000c0606, 0x719c70ed).
Proof. vm_compute. reflexivity. Qed.

(* /repo/test/kat-app/sm3_test.json.c, vector 1 (56 bytes) *)
Example test_sm3_kat1 :
  sm3 (hex ("21f22741f17be73b74084066d15f0f9ed6cf29d325c1e9ce6e61e7f47ccf2ce7"
            ++ "2204b507835af33eb107a271314a658c76bd53ff7fbd0308"))
  = hex "7ad685e59099d6eb116e3e6e39083f4436f2021a890e93b91a3b8d1dbd50b64b".
Proof. vm_compute. reflexivity. Qed.

(* the literal tables are T_j <<< (j mod 32) *)
Example test_sm3_T_formula :
  sm3_T_lo ++ sm3_T_hi
  = map (fun j => rotl32 (if Nat.ltb j 16 then 0x79cc4519 else 0x7a879d8a)
                         (N.of_nat (Nat.modulo j 32))) (upto 64).
Proof. vm_compute. reflexivity. Qed.

(* prefix-block form *)
Example test_sm3_split :
  md_finish H_SM3 (sm3_blocks sm3_init (zeros 64)) 67 (ascii_bytes "abc")
  = sm3 (zeros 64 ++ ascii_bytes "abc").
Proof. vm_compute. reflexivity. Qed.

(* LIBRARY-DERIVED: tag written by an IMB_AUTH_SM3 job with
   auth_tag_output_len_in_bytes = 20 (sse/avx2/avx512 managers agree); bytes
   16..19 repeat bytes 0..3, see the comment at [sm3_lib_tag] in Spec/SM3.v. *)
Definition m_lib100 : bytes :=
  hex ("75cd254b84e2eaf2a68120674334b26e4be2995473767ff1cc75998d1eabcedb9739656eca98c3710b6efa89a43b2f146e3b"
       ++ "1a47c51424caf617e8dc823a1a1ce60a1687c941a33eafbba02896f3b08a2d4f181f71d3644df1158581ff767bdb9408cb99").
Example test_sm3_lib_tag_20 :
  sm3_lib_tag 20 (sm3 m_lib100) = hex "f31cc4e14717d5b40692c44405b94ed8f31cc4e1".
Proof. vm_compute. reflexivity. Qed.
Example test_sm3_lib_tag_20_differs_from_firstn :
  firstn 16 (sm3_lib_tag 20 (sm3 m_lib100)) = firstn 16 (sm3 m_lib100) /\
  skipn 16 (sm3_lib_tag 20 (sm3 m_lib100)) = firstn 4 (sm3 m_lib100).
Proof. vm_compute. split; reflexivity. Qed.
Example test_sm3_lib_tag_edges :
  (sm3_lib_tag 16 (sm3 m_lib100), sm3_lib_tag 32 (sm3 m_lib100), sm3_lib_tag 1 (sm3 m_lib100))
  = (firstn 16 (sm3 m_lib100), sm3 m_lib100, firstn 1 (sm3 m_lib100)).
Proof. vm_compute. reflexivity. Qed.
