(* Mgr/Ooo.v — the generic out-of-order (multi-buffer) lane scheduler of intel-ipsec-mb, as the
   submit/flush routines implement it (lib/include/mb_mgr_aes_cbc_enc_submit_sse.inc /
   ..._flush_sse.inc and the ~40 managers of the same shape):

   submit: pop a lane from the unused-lanes stack, load the job, lens[lane] := units(job);
           if lanes remain free return NULL; otherwise find the minimum length (lowest index on
           ties, as phminposuw), subtract it from every lane, run the lane kernel for that many
           units on ALL lanes, complete the minimum lane and push it back.
   flush:  empty -> NULL; else pick the HIGHEST-index occupied lane as donor, copy its arguments
           into every empty lane and OR 0xFFFF into their lengths, then as above.

   The lane kernel is abstract: [init j] is the lane state loaded for job j, [step s n] processes
   n units on one lane.  Definitions only; proofs are in Proofs/OooProofs.v. *)
From Coq Require Import ZArith List Bool.
Import ListNotations.
Local Open Scope Z_scope.

Section Ooo.
Variable J : Type.            (* job identity *)
Variable St : Type.           (* per-lane kernel state (pointers, IV/chaining value, digest, ...) *)
Variable init : J -> St.
Variable units : J -> Z.      (* length in the manager's unit: bytes or blocks *)
Variable step : St -> Z -> St.
Variable L : nat.             (* number of lanes *)

Definition SENT : Z := 65535.  (* 0xFFFF: length of an idle lane during flush *)

Record ooo := mko {
  unused : list nat;           (* the unused_lanes nibble/byte stack, top first *)
  lens : nat -> Z;
  job : nat -> option J;       (* job_in_lane *)
  ls : nat -> St
}.

Definition upd {A} (f : nat -> A) (k : nat) (v : A) : nat -> A := fun i => if Nat.eqb i k then v else f i.

(* index of the minimum of lens over lanes 0..n-1; the lowest index wins ties (phminposuw) *)
Fixpoint argmin (f : nat -> Z) (n : nat) : nat :=
  match n with
  | O => O
  | S k => match k with
           | O => O
           | _ => let m := argmin f k in if f k <? f m then k else m
           end
  end.

(* subtract m from every lane and run the kernel for m units on every lane *)
Definition process (o : ooo) (m : Z) : ooo :=
  mko (unused o) (fun l => lens o l - m) (job o) (fun l => step (ls o l) m).

Definition complete (o : ooo) (idx : nat) : ooo * option (J * St) :=
  match job o idx with
  | None => (o, None)      (* never happens under the invariant *)
  | Some j => (mko (idx :: unused o) (lens o) (upd (job o) idx None) (ls o), Some (j, ls o idx))
  end.

Definition run_min (o : ooo) : ooo * option (J * St) :=
  let idx := argmin (lens o) L in
  complete (process o (lens o idx)) idx.

Definition submit (o : ooo) (j : J) : ooo * option (J * St) :=
  match unused o with
  | [] => (o, None)        (* caller error: no free lane; never happens under the invariant *)
  | l :: rest =>
      let o1 := mko rest (upd (lens o) l (units j)) (upd (job o) l (Some j)) (upd (ls o) l (init j)) in
      match rest with
      | _ :: _ => (o1, None)
      | [] => run_min o1
      end
  end.

(* highest-index occupied lane among 0..n-1 *)
Fixpoint donor (jb : nat -> option J) (n : nat) : option nat :=
  match n with
  | O => None
  | S k => match jb k with Some _ => Some k | None => donor jb k end
  end.

Definition pad (o : ooo) (d : nat) : ooo :=
  mko (unused o)
      (fun l => match job o l with None => SENT | Some _ => lens o l end)
      (job o)
      (fun l => match job o l with None => ls o d | Some _ => ls o l end).

Definition flush (o : ooo) : ooo * option (J * St) :=
  match donor (job o) L with
  | None => (o, None)
  | Some d => run_min (pad o d)
  end.

Inductive oop := OSubmit (j : J) | OFlush.
Definition ostep (o : ooo) (p : oop) : ooo * option (J * St) :=
  match p with OSubmit j => submit o j | OFlush => flush o end.

Variable s0 : St.             (* content of a never-used lane *)
(* ooo_mgr_*_reset: lane 0 on top of the stack (0xF3210...), all lengths 0xFFFF *)
Definition reset : ooo := mko (seq 0 L) (fun _ => SENT) (fun _ => None) (fun _ => s0).

Fixpoint orun (o : ooo) (ps : list oop) : ooo * list (option (J * St)) :=
  match ps with
  | [] => (o, [])
  | p :: t => let '(o1, r) := ostep o p in let '(o2, rs) := orun o1 t in (o2, r :: rs)
  end.
End Ooo.

Arguments unused {J St} _.
Arguments lens {J St} _ _.
Arguments job {J St} _ _.
Arguments ls {J St} _ _.
Arguments mko {J St} _ _ _ _.
Arguments OSubmit {J} _.
Arguments OFlush {J}.
