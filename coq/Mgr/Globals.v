(* Mgr/Globals.v — everything the managers of one process share (property C17).
   Definitions only; proofs are in Proofs/GlobalsProofs.v.

   world = globals x (manager id -> manager state), where globals is EXACTLY
     - the mirror `imb_errno` (lib/x86_64/error.c),
     - the cached CPUID leaves cpuid_1_0 / cpuid_7_0 / cpuid_7_1 (lib/x86_64/cpu_feature.c),
     - the atomic `counter` of imb_set_session() (lib/x86_64/cipher_suite_id.c).
   That nothing else in the library is writable at run time is not an assumption: it is the
   obligation GlobalsProofs.writable_globals_are_modelled over Gen/GenGlobals.v (every symbol of
   every writable, non-RELRO section of the rebuilt .so).

   Calls are atomic at the granularity of this model (each manager is used by one thread at a
   time, as the documentation requires; what a call does to the globals is a single write of
   the mirror cell, an atomic fetch-add, or the CPUID cache refresh treated separately at word
   granularity in [crun]).  A list of (manager, call) pairs therefore stands for a
   single-threaded interleaving and for a sequentially consistent multi-threaded schedule alike. *)
From Coq Require Import String.
From Coq Require Import ZArith List Bool.
From IMB Require Import Gen.GenConsts Gen.GenGlobals Gen.GenStrerror Mgr.Ring Mgr.Errno.
Import ListNotations.
Local Open Scope Z_scope.

(* ---- the modelled set, by symbol name and size ---- *)
Local Open Scope string_scope.
Definition modelled_globals : list (string * Z) :=
  [ ("imb_errno", 4%Z); ("cpuid_1_0", 16%Z); ("cpuid_7_0", 16%Z); ("cpuid_7_1", 16%Z);
    ("counter.0", 8%Z) (* gcc's name for the function-static of imb_set_session *) ;
    ("imb_set_session.counter", 8%Z) (* clang's name for the same object *) ].
(* symbols the toolchain puts into .data/.bss of every shared object *)
Definition toolchain_symbols : list string :=
  [ "completed.0"; "__dso_handle"; "__TMC_END__"; "__bss_start"; "_edata"; "_end"; "__data_start"; "data_start" ].
(* exported, writable for the dynamic linker's sake, never written by the library *)
Definition never_written : list string := [ "imb_version_str" ].
(* who may write the modelled symbols other than the mirror *)
Definition allowed_writers : list (string * list string) :=
  [ ("cpuid_1_0", ["cpu_feature_detect"]); ("cpuid_7_0", ["cpu_feature_detect"]); ("cpuid_7_1", ["cpu_feature_detect"]);
    ("counter.0", ["imb_set_session"]); ("imb_set_session.counter", ["imb_set_session"]) ].
Local Close Scope string_scope.

Definition mem_str (s : string) (l : list string) : bool := existsb (String.eqb s) l.
Fixpoint assoc_str {A} (s : string) (l : list (string * A)) : option A :=
  match l with [] => None | (k, v) :: t => if String.eqb s k then Some v else assoc_str s t end.
Definition subset_str (a b : list string) : bool := forallb (fun x => mem_str x b) a.

Definition sym_ok (g : gsym) : bool :=
  match assoc_str (gs_name g) modelled_globals with
  | Some sz =>
      (gs_size g =? sz) &&
      match assoc_str (gs_name g) allowed_writers with
      | Some ws => subset_str (gs_stores g ++ gs_addr_taken g) ws
      | None => true   (* the mirror: written by every entry point *)
      end
  | None =>
      (mem_str (gs_name g) toolchain_symbols && (gs_size g <=? 8))
      || (mem_str (gs_name g) never_written &&
          match gs_stores g, gs_addr_taken g, version_str_source_writes with [], [], [] => true | _, _, _ => false end)
  end.

(* an unnamed gap in a writable section can only be alignment padding *)
Definition gap_ok (g : string * Z * Z) : bool := snd g <? 16.

Definition has_sym (n : string) : bool := existsb (fun g => String.eqb (gs_name g) n) writable_syms.

(* ---- the world ---- *)
Record globals := mkglob {
  g_errno : Z -> Z;     (* mirror cell(s): a single cell when process-wide, one per thread when thread-local *)
  g_cpuid : list Z;     (* the 12 cached dwords: cpuid_1_0, cpuid_7_0, cpuid_7_1 *)
  g_counter : Z         (* imb_set_session's counter, uint64_t *)
}.

Record mstate := mkms { m_ring : st; m_feat : Z }.
Record world := mkworld { glob : globals; mgrs : nat -> mstate }.

Inductive wop :=
| WRing (o : op)              (* a job- or burst-API call *)
| WDirect (calls : ecalls)    (* any other API function reached through the manager: its imb_set_errno calls *)
| WSetSession                 (* imb_set_session(mgr, job) on a valid template *)
| WInit                       (* init_mb_mgr_<arch>(mgr): CPU feature detection + reset *)
| WGetErrno.                  (* imb_get_errno(mgr) *)

(* what the caller observes; every output carries the manager's error FIELD after the call *)
Inductive wout :=
| ORing (r : out) (field : Z)
| ODirect (field : Z)
| OSession (id : Z) (field : Z)
| OInit (features : Z) (field : Z)
| OErrno (e : Z).

(* the two observations that go through shared state *)
Definition erase (o : wout) : wout :=
  match o with
  | OSession _ f => OSession 0 f
  | OErrno _ => OErrno 0
  | o => o
  end.

Section World.
Variable SZ NJ MAXB : Z.
Variable cell_of : nat -> Z.          (* which mirror cell a manager's calls hit: constant when the mirror is
                                         process-wide, the calling thread when it is thread-local *)
Variable cpu : list Z.                (* what the CPUID instruction answers on this machine: a constant *)
Variable feat_of : list Z -> Z.       (* decoding of the leaves into IMB_FEATURE_* bits (feat_tab) *)
Variable sess : Z -> Z.               (* session id as a function of the counter value (CRC32 of the template + counter) *)
Variable ring0 : st.                  (* the ring as init leaves it (the power-up self test has used it) *)

Definition upd_cell (c : Z) (v : Z) (f : Z -> Z) : Z -> Z := fun x => if x =? c then v else f x.
Definition upd_mgr (i : nat) (m : mstate) (f : nat -> mstate) : nat -> mstate :=
  fun x => if Nat.eqb x i then m else f x.

Definition emem_of (w : world) (i : nat) : emem :=
  mkem (errno (m_ring (mgrs w i))) (g_errno (glob w) (cell_of i)).

Definition put_emem (w : world) (i : nat) (ring : st) (feat : Z) (m : emem) (cp : list Z) (ctr : Z) : world :=
  mkworld (mkglob (upd_cell (cell_of i) (e_glob m) (g_errno (glob w))) cp ctr)
          (upd_mgr i (mkms (set_errno (e_field m) ring) feat) (mgrs w)).

Definition M64 : Z := 2 ^ 64.

Definition wstep (w : world) (i : nat) (o : wop) : world * wout :=
  let g := glob w in
  let ms := mgrs w i in
  match o with
  | WRing op =>
      let '(s', r) := step SZ NJ MAXB (m_ring ms) op in
      (* every imb_set_errno(state, e) of the call writes field and mirror; the last one wins *)
      (put_emem w i s' (m_feat ms) (mkem (errno s') (errno s')) (g_cpuid g) (g_counter g), ORing r (errno s'))
  | WDirect calls =>
      let m := run_ecalls calls (emem_of w i) in
      (put_emem w i (m_ring ms) (m_feat ms) m (g_cpuid g) (g_counter g), ODirect (e_field m))
  | WSetSession =>
      (* imb_set_errno(state, 0); counter fetch-add; the CRC helper resets the mirror *)
      let m := run_ecalls [(true, 0); (false, 0)] (emem_of w i) in
      (put_emem w i (m_ring ms) (m_feat ms) m (g_cpuid g) ((g_counter g + 1) mod M64),
       OSession (sess (g_counter g)) (e_field m))
  | WInit =>
      (* cpu_feature_detect(): CPUID -> cache, then the features are decoded FROM the cache *)
      let cache := cpu in
      let m := run_ecalls [(true, 0)] (emem_of w i) in
      (put_emem w i ring0 (feat_of cache) m cache (g_counter g), OInit (feat_of cache) (e_field m))
  | WGetErrno => (w, OErrno (imb_get_errno true (emem_of w i)))
  end.

Fixpoint wrun (w : world) (l : list (nat * wop)) : world * list (nat * wout) :=
  match l with
  | [] => (w, [])
  | (i, o) :: t =>
      let '(w1, r) := wstep w i o in
      let '(w2, rs) := wrun w1 t in (w2, (i, r) :: rs)
  end.

Definition only (i : nat) {A} (l : list (nat * A)) : list (nat * A) := filter (fun x => Nat.eqb (fst x) i) l.

(* does the call write the mirror? *)
Definition writes_mirror (o : wop) : bool :=
  match o with WGetErrno => false | WDirect [] => false | _ => true end.

Definition get_errno (w : world) (i : nat) : Z := imb_get_errno true (emem_of w i).

End World.

(* ---- the CPUID cache at word granularity, under real concurrency ----
   cpu_feature_detect() stores the 12 words and then reads them back.  Events of any number of
   threads, arbitrarily interleaved: CW t k = thread t stores word k (always the CPU's answer),
   CR t k = thread t loads word k. *)
Inductive cev := CW (t k : nat) | CR (t k : nat).

Section Cpuid.
Variable cpuw : nat -> Z.    (* the CPU's answer, word by word *)

Fixpoint crun (mem : nat -> Z) (evs : list cev) : list (nat * nat * Z) :=
  match evs with
  | [] => []
  | CW t k :: r => crun (fun x => if Nat.eqb x k then cpuw k else mem x) r
  | CR t k :: r => (t, k, mem k) :: crun mem r
  end.

(* program order of each thread: a word is read only after the same thread stored it *)
Fixpoint reads_follow_own_writes (seen : list (nat * nat)) (evs : list cev) : bool :=
  match evs with
  | [] => true
  | CW t k :: r => reads_follow_own_writes ((t, k) :: seen) r
  | CR t k :: r => existsb (fun p => Nat.eqb (fst p) t && Nat.eqb (snd p) k) seen && reads_follow_own_writes seen r
  end.
End Cpuid.
