(* Mgr/OooSched.v — the generic scheduler instantiated for scheduling-state correspondence:
   a job is (id, units); the lane state just counts processed units.  Extracted and replayed
   against the lens / unused_lanes / job_in_lane fields of real managers (harness/k2_ooo.c). *)
From Coq Require Import ZArith List.
From IMB Require Import Mgr.Ooo.
Import ListNotations.
Local Open Scope Z_scope.

Definition sjob : Type := Z * Z.   (* id, units *)
Definition s_init (j : sjob) : Z := 0.
Definition s_units (j : sjob) : Z := snd j.
Definition s_step (s : Z) (n : Z) : Z := s + n.

Definition s_reset (L : nat) : ooo sjob Z := reset sjob Z L 0.
Definition s_submit (L : nat) (o : ooo sjob Z) (j : sjob) := submit sjob Z s_init s_units s_step L o j.
Definition s_flush (L : nat) (o : ooo sjob Z) := flush sjob Z s_step L o.
Definition s_unused (o : ooo sjob Z) : list nat := unused o.
Definition s_lens (o : ooo sjob Z) (l : nat) : Z := lens o l.
Definition s_job (o : ooo sjob Z) (l : nat) : option sjob := job o l.
