(* Mgr/SelfTest.v — model of the power-up self-test (lib/x86_64/self_test.c) and of the
   init_mb_mgr_* epilogue that turns its result into IMB_ERR_SELFTEST.  Definitions only
   (proofs: Proofs/SelfTestProofs.v).

   What is modelled, line by line of self_test.c:
   - make_callback(): the application callback is a state machine [step : S -> event -> S * bool]
     ([S] = whatever cb_arg points to, the bool = "returned non-zero").  Its result is used only in
     the CORRUPT phase; a NULL callback behaves like the machine that always returns 1 and sees
     nothing ([null_step]).
   - self_test_cipher()/_hash()/_aead_gcm()/_aead_ccm(): [vec_pre] = the size/key-size checks
     that return 0 BEFORE the CORRUPT callback; then the CORRUPT callback; answer 0 flips bit 0 of
     byte 0 of the input buffer of the FIRST submitted job only; [kat_spec] = all the memcmp()
     checks, with the library's result replaced by the Spec/ functions (AES modes, 3DES, SHA, HMAC,
     CMAC, GMAC, GCM, CCM) applied to the vectors of Gen/GenSelfTest.v.
   - self_test_ciphers()/_hashes()/_aead(): START(type, descr); r = test; r == 0 -> ret = 0, FAIL
     else PASS; the two loops of self_test_aead() share one [ret].
   - self_test_exec(): ret = 1; if (!group()) ret = 0 for each group in call order.
   - self_test(): features |= SELF_TEST; features &= ~SELF_TEST_PASS; if (ret) features |= PASS.
   - init_mb_mgr_{sse,avx2,avx512}(): <arch>_internal() succeeded (errno 0, features = CPU
     features), then if (!self_test()) errno = IMB_ERR_SELFTEST; init_mb_mgr_auto() delegates.
   The group structure, the type strings, the tables and the job directions come from the
   generated file; the loop bodies are transcribed by hand and tied to the library by
   harness/k20_selftest.c (checks/c20.py). *)
From Coq Require Import NArith List String Bool Arith.
From IMB Require Import Lib.Bytes Mgr.SelfTestVec Gen.GenSelfTest.
From IMB Require Import Spec.AES Spec.AESModes Spec.DES Spec.SHA Spec.HMAC Spec.CMAC Spec.GCM Spec.CCM.
Import ListNotations.
Local Open Scope nat_scope.

(* ------------------------------------------------------------------------------------------ *)
(* 1. Events seen by the callback: IMB_SELF_TEST_CALLBACK_DATA {phase, type, descr}            *)

Inductive event :=
| EvStart (type descr : string)   (* phase "START", type and descr set *)
| EvCorrupt                       (* phase "CORRUPT", type = descr = NULL *)
| EvPass                          (* phase "PASS", NULL, NULL *)
| EvFail.                         (* phase "FAIL", NULL, NULL *)

Definition event_phase (e : event) : string :=
  match e with
  | EvStart _ _ => gen_PHASE_START | EvCorrupt => gen_PHASE_CORRUPT
  | EvPass => gen_PHASE_PASS | EvFail => gen_PHASE_FAIL
  end.

(* ------------------------------------------------------------------------------------------ *)
(* 2. Vectors                                                                                  *)

Inductive vec :=
| VCipher (v : cipher_vec) | VHash (v : hash_vec) | VGcm (v : aead_vec) | VCcm (v : aead_vec).

Definition vec_descr (v : vec) : string :=
  match v with
  | VCipher c => cv_descr c | VHash h => hv_descr h | VGcm a => av_descr a | VCcm a => av_descr a
  end.

(* one announced self-test: the type string of its loop and the vector *)
Record item := { it_type : string; it_vec : vec }.

Definition table_vecs (t : table_id) (f : vecfn_id) : list vec :=
  match t, f with
  | T_cipher_vectors, F_self_test_cipher => map VCipher gen_cipher_vectors
  | T_hash_vectors, F_self_test_hash => map VHash gen_hash_vectors
  | T_aead_gcm_vectors, F_self_test_aead_gcm => map VGcm gen_aead_gcm_vectors
  | T_aead_ccm_vectors, F_self_test_aead_ccm => map VCcm gen_aead_ccm_vectors
  | _, _ => []          (* rejected by the translator *)
  end.

Definition loop_items (l : table_id * string * vecfn_id) : list item :=
  let '(t, ty, f) := l in map (fun v => {| it_type := ty; it_vec := v |}) (table_vecs t f).

(* self_test_exec -> groups -> loops -> items, exactly as generated from the C *)
Definition st_groups : list (list (list item)) :=
  map (fun g => map loop_items (snd g)) gen_groups.

Definition all_items : list item := concat (concat st_groups).

(* ------------------------------------------------------------------------------------------ *)
(* 3. KAT outcome of one vector, predicted with the specifications                             *)

Fixpoint bytes_eqb (a b : bytes) : bool :=
  match a, b with
  | [], [] => true
  | x :: a', y :: b' => N.eqb x y && bytes_eqb a' b'
  | _, _ => false
  end.

(* memcmp(buf, expected, n) == 0 where [buf] was zero-filled and then received [out] *)
Definition buf_eq (n : nat) (out expected : bytes) : bool :=
  (n <=? length expected) && bytes_eqb (firstn n (out ++ zeros n)) (firstn n expected).

(* `buf[0] ^= 1` on a zero-filled buffer holding the message: with an empty message the flipped
   byte is outside the processed length *)
Definition corrupt_first (m : bytes) : bytes :=
  match m with [] => [] | x :: t => N.lxor x 1 :: t end.
Definition maybe_corrupt (c : bool) (m : bytes) : bytes := if c then corrupt_first m else m.

(* --- ciphers --- *)
Definition cipher_run (d : direction) (m : cmode) (key iv msg : bytes) : bytes :=
  match m, d with
  | CM_CBC, D_ENC => cbc_enc key iv msg
  | CM_CBC, D_DEC => cbc_dec key iv msg
  | CM_CNTR, _ => ctr key iv msg
  | CM_ECB, D_ENC => ecb_enc key msg
  | CM_ECB, D_DEC => ecb_dec key msg
  | CM_CFB, D_ENC => cfb_enc key iv msg
  | CM_CFB, D_DEC => cfb_dec key iv msg
  | CM_DES3, D_ENC => des3_cbc_enc (firstn 8 key) (firstn 8 (skipn 8 key)) (firstn 8 (skipn 16 key)) iv msg
  | CM_DES3, D_DEC => des3_cbc_dec (firstn 8 key) (firstn 8 (skipn 8 key)) (firstn 8 (skipn 16 key)) iv msg
  | CM_GCM, _ | CM_CCM, _ => []
  end.

Definition cipher_pre (v : cipher_vec) : bool :=
  (cv_pt_size v <=? 256) &&
  match cv_mode v with
  | CM_DES3 => cv_key_size v =? 24
  | _ => (cv_key_size v =? 16) || (cv_key_size v =? 24) || (cv_key_size v =? 32)
  end.

(* one job + its memcmp; [c]: the input buffer of this job was corrupted *)
Definition cipher_job_ok (v : cipher_vec) (d : direction) (c : bool) : bool :=
  let n := cv_pt_size v in
  let key := firstn (cv_key_size v) (cv_key v) in
  let iv := firstn (cv_iv_size v) (cv_iv v) in
  let pt := firstn n (cv_pt v) in
  let ct := firstn n (cv_ct v) in
  match d with
  | D_ENC => buf_eq n (cipher_run D_ENC (cv_mode v) key iv (maybe_corrupt c pt)) (cv_ct v)
  | D_DEC => buf_eq n (cipher_run D_DEC (cv_mode v) key iv (maybe_corrupt c ct)) (cv_pt v)
  end.

(* jobs in submission order; only the first one can be corrupted *)
Fixpoint jobs_ok (job_ok : direction -> bool -> bool) (dirs : list direction) (c : bool) : bool :=
  match dirs with
  | [] => true
  | d :: t => job_ok d c && jobs_ok job_ok t false
  end.

Definition cipher_kat (v : cipher_vec) (c : bool) : bool :=
  jobs_ok (cipher_job_ok v) gen_dirs_self_test_cipher c.

(* --- hashes --- *)
Definition hash_key_bytes (v : hash_vec) : bytes :=
  match hv_mode v with
  | HM_CMAC128 | HM_GMAC128 => firstn 16 (hv_key v)     (* IMB_AES_KEYEXP_128 / IMB_AES128_GCM_PRE *)
  | HM_GMAC192 => firstn 24 (hv_key v)
  | HM_CMAC256 | HM_GMAC256 => firstn 32 (hv_key v)
  | _ => firstn (hv_key_size v) (hv_key v)
  end.

Definition hash_tag (m : hmode) (key iv msg : bytes) (taglen : nat) : bytes :=
  match m with
  | HM_SHA1 => firstn taglen (sha1 msg)
  | HM_SHA224 => firstn taglen (sha224 msg)
  | HM_SHA256 => firstn taglen (sha256 msg)
  | HM_SHA384 => firstn taglen (sha384 msg)
  | HM_SHA512 => firstn taglen (sha512 msg)
  | HM_HMAC_SHA1 => firstn taglen (hmac_sha1 key msg)
  | HM_HMAC_SHA224 => firstn taglen (hmac_sha224 key msg)
  | HM_HMAC_SHA256 => firstn taglen (hmac_sha256 key msg)
  | HM_HMAC_SHA384 => firstn taglen (hmac_sha384 key msg)
  | HM_HMAC_SHA512 => firstn taglen (hmac_sha512 key msg)
  | HM_CMAC128 | HM_CMAC256 => firstn taglen (cmac key msg)
  | HM_GMAC128 | HM_GMAC192 | HM_GMAC256 => gmac key iv msg taglen
  | HM_GCM_TAG | HM_CCM_TAG => []
  end.

(* the "direct API" re-check (IMB_SHAxxx(), IMB_AESxxx_GMAC_INIT/UPDATE/FINALIZE) on v->message *)
Definition hash_has_direct (m : hmode) : bool :=
  match m with
  | HM_SHA1 | HM_SHA224 | HM_SHA256 | HM_SHA384 | HM_SHA512 | HM_GMAC128 | HM_GMAC192 | HM_GMAC256 => true
  | _ => false
  end.

Definition hash_pre (v : hash_vec) : bool :=
  (hv_tag_size v <=? 128) && (hv_msg_size v <=? 256).     (* sizeof(scratch), sizeof(msg) *)

Definition hash_job_ok (v : hash_vec) (c : bool) : bool :=
  let msg := firstn (hv_msg_size v) (hv_msg v) in
  let iv := firstn (hv_iv_size v) (hv_iv v) in
  buf_eq (hv_tag_size v) (hash_tag (hv_mode v) (hash_key_bytes v) iv (maybe_corrupt c msg) (hv_tag_size v)) (hv_tag v).

Definition hash_kat (v : hash_vec) (c : bool) : bool :=
  jobs_ok (fun _ => hash_job_ok v) gen_dirs_self_test_hash c &&
  (if hash_has_direct (hv_mode v) then hash_job_ok v false else true).

(* --- AEAD --- *)
Definition aead_pre (ccm : bool) (v : aead_vec) : bool :=
  (av_tag_size v <=? 16) && (av_pt_size v <=? 128) &&
  ((av_key_size v =? 16) || (if ccm then false else av_key_size v =? 24) || (av_key_size v =? 32)).

Definition aead_run (ccm : bool) (d : direction) (key iv aad msg : bytes) (taglen : nat) : bytes * bytes :=
  match ccm, d with
  | false, D_ENC => gcm_enc key iv aad msg taglen
  | false, D_DEC => gcm_dec key iv aad msg taglen
  | true, D_ENC => ccm_enc key iv aad msg taglen
  | true, D_DEC => ccm_dec key iv aad msg taglen
  end.

Definition aead_job_ok (ccm : bool) (v : aead_vec) (d : direction) (c : bool) : bool :=
  let n := av_pt_size v in
  let key := firstn (av_key_size v) (av_key v) in
  let iv := firstn (av_iv_size v) (av_iv v) in
  let aad := firstn (av_aad_size v) (av_aad v) in
  let inp := match d with D_ENC => firstn n (av_pt v) | D_DEC => firstn n (av_ct v) end in
  let expd := match d with D_ENC => av_ct v | D_DEC => av_pt v end in
  let '(text, tag) := aead_run ccm d key iv aad (maybe_corrupt c inp) (av_tag_size v) in
  buf_eq (av_tag_size v) tag (av_tag v) && buf_eq n text expd.

Definition gcm_kat (v : aead_vec) (c : bool) : bool :=
  jobs_ok (aead_job_ok false v) gen_dirs_self_test_aead_gcm c &&
  (* direct API: INIT_VAR_IV / ENC_UPDATE / ENC_FINALIZE, then the DEC triple, on the table data *)
  aead_job_ok false v D_ENC false && aead_job_ok false v D_DEC false.

Definition ccm_kat (v : aead_vec) (c : bool) : bool :=
  jobs_ok (aead_job_ok true v) gen_dirs_self_test_aead_ccm c.

Definition vec_pre (v : vec) : bool :=
  match v with
  | VCipher c => cipher_pre c | VHash h => hash_pre h
  | VGcm a => aead_pre false a | VCcm a => aead_pre true a
  end.

(* [kat_spec v c]: return value of self_test_<x>(p_mgr, v) after the pre-checks, [c] = the CORRUPT
   callback returned 0 *)
Definition kat_spec (v : vec) (c : bool) : bool :=
  match v with
  | VCipher x => cipher_kat x c | VHash h => hash_kat h c
  | VGcm a => gcm_kat a c | VCcm a => ccm_kat a c
  end.

(* table sanity the model relies on: sizes are within the arrays, modes belong to the table *)
Definition cipher_wf (v : cipher_vec) : bool :=
  (cv_key_size v <=? length (cv_key v)) && (cv_pt_size v <=? length (cv_pt v)) &&
  (cv_pt_size v <=? length (cv_ct v)) &&
  match cv_mode v with
  | CM_ECB => true
  | CM_GCM | CM_CCM => false
  | _ => cv_iv_size v <=? length (cv_iv v)
  end.
Definition hash_wf (v : hash_vec) : bool :=
  (length (hash_key_bytes v) =? match hv_mode v with
                                | HM_CMAC128 | HM_GMAC128 => 16 | HM_GMAC192 => 24
                                | HM_CMAC256 | HM_GMAC256 => 32 | _ => hv_key_size v end) &&
  (hv_msg_size v <=? length (hv_msg v)) && (hv_tag_size v <=? length (hv_tag v)) &&
  (hv_iv_size v <=? length (hv_iv v)) &&
  match hv_mode v with HM_GCM_TAG | HM_CCM_TAG => false | _ => true end.
Definition aead_wf (ccm : bool) (v : aead_vec) : bool :=
  (av_key_size v <=? length (av_key v)) && (av_iv_size v <=? length (av_iv v)) &&
  (av_aad_size v <=? length (av_aad v)) && (av_pt_size v <=? length (av_pt v)) &&
  (av_pt_size v <=? length (av_ct v)) && (av_tag_size v <=? length (av_tag v)) &&
  match ccm, av_mode v, av_hash v with
  | false, CM_GCM, HM_GCM_TAG => true
  | true, CM_CCM, HM_CCM_TAG => true
  | _, _, _ => false
  end.
Definition vec_wf (v : vec) : bool :=
  match v with
  | VCipher c => cipher_wf c | VHash h => hash_wf h
  | VGcm a => aead_wf false a | VCcm a => aead_wf true a
  end.

(* ------------------------------------------------------------------------------------------ *)
(* 4. Control logic, generic in the callback and in the KAT outcome                            *)

Section Control.
  Variable S : Type.
  Variable step : S -> event -> S * bool.
  Variable pre : vec -> bool.
  Variable kat : vec -> bool -> bool.

  (* result of running a piece of the self-test: callback state, C return value, calls made to
     make_callback in order, and (ghost) for each vector whether its input was corrupted *)
  Definition run := (S * bool * list event * list bool)%type.

  (* one loop iteration: START; r = self_test_<x>(v) [pre-checks; CORRUPT; checks]; FAIL / PASS *)
  Definition run_item (s : S) (it : item) : S * bool * list event * bool :=
    let e0 := EvStart (it_type it) (vec_descr (it_vec it)) in
    let s1 := fst (step s e0) in
    if pre (it_vec it) then
      let (s2, a) := step s1 EvCorrupt in
      let r := kat (it_vec it) (negb a) in
      let e := if r then EvPass else EvFail in
      (fst (step s2 e), r, [e0; EvCorrupt; e], negb a)
    else
      (fst (step s1 EvFail), false, [e0; EvFail], false).

  (* for (i...) { ...; if (r == 0) ret = 0; } *)
  Fixpoint run_loop (s : S) (ret : bool) (its : list item) : run :=
    match its with
    | [] => (s, ret, [], [])
    | it :: t =>
        let '(s1, r, ev1, c) := run_item s it in
        let '(s2, ret2, ev2, cs) := run_loop s1 (if r then ret else false) t in
        (s2, ret2, ev1 ++ ev2, c :: cs)
    end.

  (* a group function: int ret = 1; loop; loop; return ret *)
  Fixpoint run_loops (s : S) (ret : bool) (loops : list (list item)) : run :=
    match loops with
    | [] => (s, ret, [], [])
    | l :: t =>
        let '(s1, ret1, ev1, c1) := run_loop s ret l in
        let '(s2, ret2, ev2, c2) := run_loops s1 ret1 t in
        (s2, ret2, ev1 ++ ev2, c1 ++ c2)
    end.
  Definition run_group (s : S) (loops : list (list item)) : run := run_loops s true loops.

  (* self_test_exec: int ret = 1; if (!group(p_mgr)) ret = 0; ... return ret *)
  Fixpoint run_exec (s : S) (ret : bool) (groups : list (list (list item))) : run :=
    match groups with
    | [] => (s, ret, [], [])
    | g :: t =>
        let '(s1, r, ev1, c1) := run_group s g in
        let '(s2, ret2, ev2, c2) := run_exec s1 (if negb r then false else ret) t in
        (s2, ret2, ev1 ++ ev2, c1 ++ c2)
    end.

  Record st_result := {
    sr_state : S;            (* callback state afterwards *)
    sr_ret : bool;           (* return value of self_test() *)
    sr_features : N;
    sr_errno : N;
    sr_events : list event;
    sr_corrupted : list bool }.

  (* self_test(p_mgr) on a manager whose features word is [f] *)
  Definition self_test (groups : list (list (list item))) (s : S) (f : N) : S * bool * N * list event * list bool :=
    let f1 := N.lor f gen_FEATURE_SELF_TEST in
    let f2 := N.ldiff f1 gen_FEATURE_SELF_TEST_PASS in
    let '(s1, r, ev, cs) := run_exec s true groups in
    let ret := if negb r then false else true in
    let f3 := if ret then N.lor f2 gen_FEATURE_SELF_TEST_PASS else f2 in
    (s1, ret, f3, ev, cs).
End Control.
Arguments sr_state {S}. Arguments sr_ret {S}. Arguments sr_features {S}. Arguments sr_errno {S}.
Arguments sr_events {S}. Arguments sr_corrupted {S}.

(* the four public init functions; the first three end with
     if (!self_test(state)) imb_set_errno(state, IMB_ERR_SELFTEST);
   and init_mb_mgr_auto() calls exactly one of them after resetting errno *)
Inductive init_fn := Init_sse | Init_avx2 | Init_avx512 | Init_auto.

Section Init.
  Variable S : Type.
  Variable step : S -> event -> S * bool.
  Variable pre : vec -> bool.
  Variable kat : vec -> bool -> bool.

  (* [cpu] = features word left by init_mb_mgr_<arch>_internal() (which also reset errno to 0);
     the path where the internal init refuses the CPU is outside this model *)
  Definition init_gen (groups : list (list (list item))) (fn : init_fn) (cpu : N) (s : S) : st_result S :=
    let '(s1, ret, f, ev, cs) := self_test S step pre kat groups s cpu in
    {| sr_state := s1; sr_ret := ret; sr_features := f;
       sr_errno := if negb ret then gen_ERR_SELFTEST else 0%N;
       sr_events := ev; sr_corrupted := cs |}.
End Init.

(* the instantiated model: generated tables, specification-predicted outcomes *)
Definition init_model (S : Type) (step : S -> event -> S * bool) (fn : init_fn) (cpu : N) (s : S) : st_result S :=
  init_gen S step vec_pre kat_spec st_groups fn cpu s.

(* ------------------------------------------------------------------------------------------ *)
(* 5. Particular callbacks                                                                     *)

(* p_mgr->self_test_cb_fn == NULL: make_callback() returns 1 and calls nothing *)
Definition null_step (s : unit) (e : event) : unit * bool := (tt, true).

(* the harness callback: corrupt exactly the vectors whose ordinal (0-based count of START
   events seen before this one) is in [X] *)
Definition set_step (X : list nat) (n : nat) (e : event) : nat * bool :=
  match e with
  | EvStart _ _ => (Datatypes.S n, true)
  | EvCorrupt => (n, negb (existsb (Nat.eqb (pred n)) X))
  | _ => (n, true)
  end.

Definition predict (X : list nat) (fn : init_fn) (cpu : N) : st_result nat :=
  init_model nat (set_step X) fn cpu 0.

(* same selection, but answering 0 outside the CORRUPT phase (the library ignores it there) *)
Definition set_step0 (X : list nat) (n : nat) (e : event) : nat * bool :=
  (fst (set_step X n e), match e with EvCorrupt => snd (set_step X n e) | _ => false end).
Definition predict0 (X : list nat) (fn : init_fn) (cpu : N) : st_result nat :=
  init_model nat (set_step0 X) fn cpu 0.
Definition predict_nocb (fn : init_fn) (cpu : N) : st_result unit :=
  init_model unit null_step fn cpu tt.

(* callback-side view of an event stream: the answers a machine gives to the CORRUPT events *)
Section Replay.
  Variable S : Type.
  Variable step : S -> event -> S * bool.
  Fixpoint corrupt_answers (s : S) (evs : list event) : list bool :=
    match evs with
    | [] => []
    | e :: t =>
        let (s', a) := step s e in
        match e with
        | EvCorrupt => a :: corrupt_answers s' t
        | _ => corrupt_answers s' t
        end
    end.
  Fixpoint final_state (s : S) (evs : list event) : S :=
    match evs with [] => s | e :: t => final_state (fst (step s e)) t end.
End Replay.

(* what the callback is told about item [it] when its input was / was not corrupted and the
   library behaves like the specification *)
Definition item_events (it : item) (c : bool) : list event :=
  [EvStart (it_type it) (vec_descr (it_vec it)); EvCorrupt; if c then EvFail else EvPass].

Fixpoint expected_events (its : list item) (cs : list bool) : list event :=
  match its, cs with
  | it :: t, c :: ct => item_events it c ++ expected_events t ct
  | _, _ => []
  end.

(* ------------------------------------------------------------------------------------------ *)
(* 6. The documented list (README.md, section "Self-Test"), transcribed by hand                *)

Local Open Scope string_scope.

Definition readme_documented : list (string * string) := [
  ("KAT_AEAD", "AES-GCM"); ("KAT_AEAD", "AES-CCM");
  ("KAT_Cipher", "AES-CBC"); ("KAT_Cipher", "AES-CTR"); ("KAT_Cipher", "AES-ECB");
  ("KAT_Cipher", "AES-CFB"); ("KAT_Cipher", "TDES-EDE-CBC");
  ("KAT_Auth", "AES-GMAC"); ("KAT_Auth", "AES-CMAC");
  ("KAT_Auth", "SHA1"); ("KAT_Auth", "SHA224"); ("KAT_Auth", "SHA256"); ("KAT_Auth", "SHA384");
  ("KAT_Auth", "SHA512");
  ("KAT_Auth", "HMAC-SHA1"); ("KAT_Auth", "HMAC-SHA224"); ("KAT_Auth", "HMAC-SHA256");
  ("KAT_Auth", "HMAC-SHA384"); ("KAT_Auth", "HMAC-SHA512") ].

(* description announced by the code -> family name used by the README:
   the AES key size is dropped ("AES128-CBC" -> "AES-CBC") and "SHA2-nnn" is written "SHAnnn" *)
Definition drop_prefix (n : nat) (s : string) : string := substring n (String.length s - n) s.
Definition descr_family (d : string) : string :=
  if prefix "AES128-" d || prefix "AES192-" d || prefix "AES256-" d then "AES" ++ drop_prefix 6 d
  else if prefix "SHA2-" d then "SHA" ++ drop_prefix 5 d
  else if prefix "HMAC-SHA2-" d then "HMAC-SHA" ++ drop_prefix 10 d
  else d.

Definition announced : list (string * string) :=
  map (fun it => (it_type it, vec_descr (it_vec it))) all_items.
Definition announced_families : list (string * string) :=
  map (fun p => (fst p, descr_family (snd p))) announced.
