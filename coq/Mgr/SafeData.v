(* C13 -- SAFE_DATA storage model of the out-of-order (multi-buffer) managers.

   An out-of-order manager (lib/include/ipsec_ooo_mgr.h, MB_MGR_*_OOO) is an array of lanes.  A
   lane holds a pointer to the job it works for (job_in_lane[i], NULL when free) and a set of
   per-lane fields that receive data derived from that job: args.IV, args.keys, args.key_tab,
   digest rows, ldata[i].extra_block / outer_block, init_blocks, scratch, ZUC / SNOW3G LFSR and FSM
   state, keystream words, DOCSIS crc_init ...

   What the submit_* / flush_* assembly does to those fields is described, per field, by six
   booleans (record [fspec]); a manager family is the list of its fields.  The abstract machine
   below executes submits and flushes on such a family for ARBITRARY choices of lanes (the real
   scheduler picks the lane from unused_lanes and the completed lane by minimum length; every
   choice it can make is one of the choices quantified over here).

     submit j into free lane l      : the fields with [w_submit] receive data of job j
       ... and completes lane c     : (optional) the kernel runs, job_in_lane[c] := NULL, the fields with
                                      [c_submit] are zeroed in lane c       (%ifdef SAFE_DATA block
                                      before "return:" of the submit routine)
     flush, good lane g, returns c  : every lane WITHOUT a job first receives a copy of / data
                                      derived from the good lane in the fields with [t_flush]
                                      ("copy good_lane to empty lanes"; kernels that run on all
                                      lanes), lane c is completed, then the SAFE_DATA block zeroes
                                      the fields with [c_flush_ret] in lane c and the fields with
                                      [c_flush_null] in every lane whose job_in_lane is NULL.

   Kernels work on all lanes at once; where that turns the zeroed field of a job-less lane into
   garbage ([k_junk], e.g. SNOW3G-UEA2 clocking a zero LFSR/FSM) the field becomes [Junk]:
   something that is a function of no job at all.

   Field contents are abstract: [Zero] is the reset image written by ooo_mgr_*_reset() for the
   byte ranges modelled (all ranges are all-zero after reset, the 0x80 / length padding constants
   of the HMAC blocks lie outside of them), [Data j] is "something computed from job j".

   Definitions only; the proofs are in Proofs/SafeDataProofs.v, the family tables transcribed
   from the assembly in Mgr/SafeDataInst.v. *)
From Coq Require Import List Bool Arith String.
Import ListNotations.

Inductive fval : Type :=
| Zero : fval            (* the reset image *)
| Junk : fval            (* job-independent garbage: what a kernel computes when it clocks a zeroed lane *)
| Data : nat -> fval.    (* something computed from job j *)

Record fspec : Type := mk_fspec {
  f_name       : string;
  w_submit     : bool;  (* submit stores data of the new job in this field of its lane *)
  t_flush      : bool;  (* flush taints this field of job-less lanes with data of the good lane *)
  c_submit     : bool;  (* SAFE_DATA: zeroed in the returned lane when submit completes a job *)
  c_flush_ret  : bool;  (* SAFE_DATA: zeroed in the returned lane when flush completes a job *)
  c_flush_null : bool;  (* SAFE_DATA: zeroed in every lane without a job at the end of flush *)
  k_junk       : bool;  (* the kernel processes ALL lanes: in a lane without a job it turns the zeroed field
                           into job-independent garbage (SNOW3G-UEA2 clocks the zero LFSR/FSM) *)
  claim        : bool   (* sensitive: claimed to hold its reset image (or, with k_junk, nothing derived
                           from any job) in every lane without a job *)
}.

Definition family := list fspec.

Record lane : Type := mk_lane {
  l_job : option nat;
  l_fld : list fval
}.

Definition state := list lane.

Definition is_free (ln : lane) : bool :=
  match l_job ln with None => true | Some _ => false end.

Definition reset_lane (fam : family) : lane := mk_lane None (map (fun _ => Zero) fam).
Definition reset_state (fam : family) (n : nat) : state := repeat (reset_lane fam) n.

(* write [v] into the fields selected by [sel] *)
Fixpoint upd (fam : family) (sel : fspec -> bool) (v : fval) (vals : list fval) : list fval :=
  match fam, vals with
  | f :: fam', x :: vals' => (if sel f then v else x) :: upd fam' sel v vals'
  | _, _ => vals
  end.

Fixpoint set_nth {A} (l : list A) (n : nat) (x : A) : list A :=
  match l, n with
  | [], _ => []
  | _ :: t, O => x :: t
  | h :: t, S n' => h :: set_nth t n' x
  end.

Inductive op : Type :=
| Submit (j l : nat) (c : option nat)   (* job j goes to lane l; lane c (if any) is completed *)
| Flush (g c : nat).                     (* good lane g is copied to job-less lanes; lane c is completed *)

Definition taint_null (fam : family) (jg : nat) (s : state) : state :=
  map (fun ln => if is_free ln then mk_lane None (upd fam t_flush (Data jg) (l_fld ln)) else ln) s.

(* a kernel pass over a lane without a job: zeroed k_junk fields become garbage (data that a flush
   copied there stays data) *)
Fixpoint junk (fam : family) (vals : list fval) : list fval :=
  match fam, vals with
  | f :: fam', x :: vals' =>
      (if k_junk f then match x with Data j => Data j | _ => Junk end else x) :: junk fam' vals'
  | _, _ => vals
  end.

Definition junk_null (fam : family) (s : state) : state :=
  map (fun ln => if is_free ln then mk_lane None (junk fam (l_fld ln)) else ln) s.

Definition clear_null (fam : family) (s : state) : state :=
  map (fun ln => if is_free ln then mk_lane None (upd fam c_flush_null Zero (l_fld ln)) else ln) s.

Definition step (fam : family) (s : state) (o : op) : option state :=
  match o with
  | Submit j l oc =>
      match nth_error s l with
      | Some ln =>
          if is_free ln then
            let s1 := set_nth s l (mk_lane (Some j) (upd fam w_submit (Data j) (l_fld ln))) in
            match oc with
            | None => Some s1
            | Some c =>
                (* the kernel runs (on all lanes) until lane c is done *)
                let s2 := junk_null fam s1 in
                match nth_error s2 c with
                | Some lc =>
                    if is_free lc then None
                    else Some (set_nth s2 c (mk_lane None (upd fam c_submit Zero (l_fld lc))))
                | None => None
                end
            end
          else None
      | None => None
      end
  | Flush g c =>
      match nth_error s g, nth_error s c with
      | Some lg, Some lc =>
          match l_job lg, l_job lc with
          | Some jg, Some _ =>
              let s1 := junk_null fam (taint_null fam jg s) in
              let s2 := set_nth s1 c (mk_lane None (upd fam c_flush_ret Zero (l_fld lc))) in
              Some (clear_null fam s2)
          | _, _ => None
          end
      | _, _ => None
      end
  end.

Fixpoint run (fam : family) (s : state) (ops : list op) : option state :=
  match ops with
  | [] => Some s
  | o :: ops' => match step fam s o with
                 | Some s' => run fam s' ops'
                 | None => None
                 end
  end.

(* every claimed field holds the reset image (or job-independent garbage where the kernel clocks
   zeroed lanes) *)
Fixpoint clean (fam : family) (vals : list fval) : Prop :=
  match fam, vals with
  | [], [] => True
  | f :: fam', v :: vals' =>
      (claim f = true -> v = Zero \/ (k_junk f = true /\ v = Junk)) /\ clean fam' vals'
  | _, _ => False
  end.

(* every claimed field holds the reset image or data of job j *)
Fixpoint owned (fam : family) (j : nat) (vals : list fval) : Prop :=
  match fam, vals with
  | [], [] => True
  | f :: fam', v :: vals' => (claim f = true -> v = Zero \/ v = Junk \/ v = Data j) /\ owned fam' j vals'
  | _, _ => False
  end.

Definition lane_inv (fam : family) (ln : lane) : Prop :=
  match l_job ln with
  | None => clean fam (l_fld ln)
  | Some j => owned fam j (l_fld ln)
  end.

Definition inv (fam : family) (s : state) : Prop := Forall (lane_inv fam) s.

Definition idle (s : state) : Prop := forall ln, In ln s -> l_job ln = None.

(* The obligation on a family: whatever is claimed is cleared on both completion paths.  On the
   flush path either all job-less lanes are cleared, or the field is never copied to job-less
   lanes and the returned lane is cleared. *)
Definition fspec_ok (f : fspec) : bool :=
  implb (claim f)
        (c_submit f && (c_flush_null f || (negb (t_flush f) && c_flush_ret f))).

Definition family_ok (fam : family) : bool := forallb fspec_ok fam.

(* executable versions, used by the examples and by the per-instance checks *)
Definition fval_is_zero (v : fval) : bool := match v with Zero => true | _ => false end.
Definition fval_is_junk (v : fval) : bool := match v with Junk => true | _ => false end.

Fixpoint cleanb (fam : family) (vals : list fval) : bool :=
  match fam, vals with
  | [], [] => true
  | f :: fam', v :: vals' =>
      implb (claim f) (fval_is_zero v || (k_junk f && fval_is_junk v)) && cleanb fam' vals'
  | _, _ => false
  end.

Definition idleb (s : state) : bool := forallb is_free s.
