(* Mgr/JobView.v -- hand-written.  The part of (IMB_JOB, memory) that the parameter checker
   `is_job_invalid` (lib/include/mb_mgr_job_check.h) can observe.  Definitions only.

   A [job_view] has one field per 8- or 4-byte STORAGE SLOT of the 216-byte IMB_JOB descriptor that
   the checker reads (unions are represented once, by their storage: `src`/`sgl_io_segs` are the
   same slot, so are `dst`/`num_sgl_io_segs`, the `_in_bytes`/`_in_bits` lengths, and the three
   words of the hash-specific union `u`), plus the memory the checker reads THROUGH pointers:
     - the three key-schedule pointers of a 3DES key array (enc_keys[0..2], dec_keys[0..2]),
     - the 64-bit PON XGEM header word at src + hash_start_src_offset_in_bytes (little-endian load),
     - the SGL segment array sgl_io_segs[0 .. num_sgl_io_segs-1].
   Integers and pointers are [N]; a pointer is its address, 0 = NULL.  The translator T2
   (translators/t2_validate.py) maps every C member path to a slot by offsetof/sizeof and refuses
   paths that do not hit a slot below exactly.

   The same field order is the line format of the case files read by ocaml/validate_driver.ml and
   harness/k12_validate.c. *)
From Coq Require Import NArith List Bool.
From IMB Require Import Lib.Bytes Gen.GenEnums.
Import ListNotations.
Local Open Scope N_scope.

(* one struct IMB_SGL_IOV (in, out, len) as read from memory *)
Record sgl_seg := mk_seg { seg_in : N; seg_out : N; seg_len : N }.

Record job_view := mk_job_view {
  (* offset, C member(s) *)
  jv_enc_keys : N;                 (*   0 enc_keys *)
  jv_dec_keys : N;                 (*   8 dec_keys *)
  jv_key_len_in_bytes : N;         (*  16 key_len_in_bytes (uint64_t) *)
  jv_src : N;                      (*  24 src | sgl_io_segs *)
  jv_dst : N;                      (*  32 dst | num_sgl_io_segs *)
  jv_cipher_start_src_offset : N;  (*  40 cipher_start_src_offset_in_bytes | _in_bits | cipher_start_offset_in_bits *)
  jv_msg_len_to_cipher : N;        (*  48 msg_len_to_cipher_in_bytes | _in_bits *)
  jv_hash_start_src_offset : N;    (*  56 hash_start_src_offset_in_bytes *)
  jv_msg_len_to_hash : N;          (*  64 msg_len_to_hash_in_bytes | _in_bits *)
  jv_iv : N;                       (*  72 iv *)
  jv_iv_len_in_bytes : N;          (*  80 iv_len_in_bytes *)
  jv_auth_tag_output : N;          (*  88 auth_tag_output *)
  jv_auth_tag_output_len : N;      (*  96 auth_tag_output_len_in_bytes *)
  jv_u0 : N;                       (* 104 u.<alg>.<first 8-byte member> *)
  jv_u1 : N;                       (* 112 u.<alg>.<second> *)
  jv_u2 : N;                       (* 120 u.<alg>.<third> *)
  jv_cipher_mode : N;              (* 132 cipher_mode      (enum, 4 bytes) *)
  jv_cipher_direction : N;         (* 136 cipher_direction (enum, 4 bytes) *)
  jv_hash_alg : N;                 (* 140 hash_alg         (enum, 4 bytes) *)
  jv_chain_order : N;              (* 144 chain_order      (enum, 4 bytes) *)
  jv_cipher_func : N;              (* 168 cipher_func *)
  jv_hash_func : N;                (* 176 hash_func *)
  jv_sgl_state : N;                (* 184 sgl_state        (enum, 4 bytes) *)
  jv_next_iv : N;                  (* 192 cipher_fields.CBCS.next_iv *)
  (* ---- memory seen through pointers (filled by the harness from real memory) ---- *)
  jv_enc_ks0 : N; jv_enc_ks1 : N; jv_enc_ks2 : N;   (* enc_keys viewed as array of 3 pointers: entries 0..2 *)
  jv_dec_ks0 : N; jv_dec_ks1 : N; jv_dec_ks2 : N;   (* dec_keys viewed as array of 3 pointers: entries 0..2 *)
  jv_mem_xgem_hdr : N;             (* 64-bit load from src + hash_start_src_offset_in_bytes *)
  jv_sgl_segs : list sgl_seg       (* sgl_io_segs[0 ..] *)
}.

(* ---- documented member names that share a slot (used by the catalogue) ---- *)
Definition jv_sgl_io_segs (j : job_view) := jv_src j.
Definition jv_num_sgl_io_segs (j : job_view) := jv_dst j.

(* ---- C arithmetic used by the generated image ---- *)
Definition sub64 (a b : N) : N := w64 (a + 18446744073709551616 - w64 b).  (* uint64_t a - b *)
Definition mul64 (a b : N) : N := w64 (a * b).
Definition sub32 (a b : N) : N := w32 (a + 4294967296 - w32 b).  (* int a - b, two's complement image *)
Definition shl64 (a b : N) : N := w64 (N.shiftl a b).
Definition shl32 (a b : N) : N := w32 (N.shiftl a b).   (* unsigned int a << b *)
Definition sub32u (a b : N) : N := w32 (a + 4294967296 - w32 b).  (* unsigned int a - b *)
Definition mul32 (a b : N) : N := w32 (a * b).

(* __builtin_bswap64 *)
Definition bswap64 (x : N) : N :=
  N.lor (N.shiftl (N.land x 255) 56)
 (N.lor (N.shiftl (N.land (N.shiftr x 8) 255) 48)
 (N.lor (N.shiftl (N.land (N.shiftr x 16) 255) 40)
 (N.lor (N.shiftl (N.land (N.shiftr x 24) 255) 32)
 (N.lor (N.shiftl (N.land (N.shiftr x 32) 255) 24)
 (N.lor (N.shiftl (N.land (N.shiftr x 40) 255) 16)
 (N.lor (N.shiftl (N.land (N.shiftr x 48) 255) 8)
        (N.land (N.shiftr x 56) 255))))))).

(* constant array lookup; the translator checks statically that every index is in range *)
Fixpoint nth_N_aux (l : list N) (i : nat) : N :=
  match l, i with
  | [], _ => 0
  | x :: _, O => x
  | _ :: t, S k => nth_N_aux t k
  end.
Definition nth_N (l : list N) (i : N) : N := nth_N_aux l (N.to_nat i).

(* statement sequencing: [Some e] = the C function returned non-zero after imb_set_errno(e);
   [None] = the statement completed normally (fell through / break) *)
Definition oseq (a b : option N) : option N :=
  match a with Some e => Some e | None => b end.

(* result of a loop that runs past the end of the memory view: never produced for a view that
   satisfies [sgl_view_ok] below; deliberately not a valid errno *)
Definition ERR_MODEL_VIEW_EXHAUSTED : N := 4294967295.

(* ---- well-formedness: field widths + the memory view really is the memory ---- *)
Definition u64_ok (x : N) : bool := x <? 18446744073709551616.
Definition u32_ok (x : N) : bool := x <? 4294967296.

Definition seg_ok (s : sgl_seg) : bool :=
  u64_ok (seg_in s) && u64_ok (seg_out s) && u64_ok (seg_len s).

Definition widths_ok (j : job_view) : bool :=
  u64_ok (jv_enc_keys j) && u64_ok (jv_dec_keys j) && u64_ok (jv_key_len_in_bytes j) &&
  u64_ok (jv_src j) && u64_ok (jv_dst j) && u64_ok (jv_cipher_start_src_offset j) &&
  u64_ok (jv_msg_len_to_cipher j) && u64_ok (jv_hash_start_src_offset j) &&
  u64_ok (jv_msg_len_to_hash j) && u64_ok (jv_iv j) && u64_ok (jv_iv_len_in_bytes j) &&
  u64_ok (jv_auth_tag_output j) && u64_ok (jv_auth_tag_output_len j) &&
  u64_ok (jv_u0 j) && u64_ok (jv_u1 j) && u64_ok (jv_u2 j) &&
  u32_ok (jv_cipher_mode j) && u32_ok (jv_cipher_direction j) && u32_ok (jv_hash_alg j) &&
  u32_ok (jv_chain_order j) && u64_ok (jv_cipher_func j) && u64_ok (jv_hash_func j) &&
  u32_ok (jv_sgl_state j) && u64_ok (jv_next_iv j) &&
  u64_ok (jv_enc_ks0 j) && u64_ok (jv_enc_ks1 j) && u64_ok (jv_enc_ks2 j) &&
  u64_ok (jv_dec_ks0 j) && u64_ok (jv_dec_ks1 j) && u64_ok (jv_dec_ks2 j) &&
  u64_ok (jv_mem_xgem_hdr j) && forallb seg_ok (jv_sgl_segs j).

(* The segment list is the array the descriptor points to: it has exactly num_sgl_io_segs
   entries and the array lies inside the 64-bit address space (a C object cannot wrap). *)
Definition sgl_view_ok (j : job_view) : bool :=
  (N.of_nat (length (jv_sgl_segs j)) =? jv_num_sgl_io_segs j) &&
  (jv_sgl_io_segs j + 24 * jv_num_sgl_io_segs j <? 18446744073709551616).

(* The checker walks the segment array only for the two SGL cipher modes in state IMB_SGL_ALL;
   only then is [jv_sgl_segs] required to mirror memory. *)
Definition uses_sgl_array (j : job_view) : bool :=
  ((jv_cipher_mode j =? IMB_CIPHER_GCM_SGL) || (jv_cipher_mode j =? IMB_CIPHER_CHACHA20_POLY1305_SGL)) &&
  (jv_sgl_state j =? IMB_SGL_ALL).

Definition well_formed (j : job_view) : bool :=
  widths_ok j && implb (uses_sgl_array j) (sgl_view_ok j).

(* ---- the checked asynchronous burst submission (submit_burst_and_check, run_check = 1) ----
   What the burst-level checks can observe: the array pointer (NULL or not), n_jobs, the free space
   in the job ring, and per array entry: whether the pointer is NULL, whether it is the ring slot
   expected at that position (jobs[i] == JOBS(state, job_offset), job_offset advancing from
   state->next_job -- the ring arithmetic itself belongs to C05), the descriptor it points to and
   the two suite_id words stored in it (offsets 200 and 204; written by imb_set_session()). *)
Record burst_entry := mk_burst_entry {
  be_null : bool;          (* jobs[i] == NULL *)
  be_in_order : bool;      (* jobs[i] == JOBS(state, job_offset) *)
  be_job : job_view;       (* the job descriptor jobs[i] points to *)
  be_suite0 : N;           (* jobs[i]->suite_id[0] *)
  be_suite1 : N            (* jobs[i]->suite_id[1] *)
}.
Record burst_view := mk_burst_view {
  bv_jobs_null : bool;     (* jobs == NULL *)
  bv_n_jobs : N;           (* n_jobs (uint32_t) *)
  bv_queue_space : N;      (* queue_sz_remaining(state) (uint32_t) *)
  bv_entries : list burst_entry   (* jobs[0 .. n_jobs-1] *)
}.
(* verdict of the checked burst submission: accepted (all jobs are then dispatched), or rejected
   with an error code; [Some i] = jobs[i] is marked IMB_STATUS_INVALID_ARGS and moved to jobs[0],
   [None] = whole-burst error, no job is marked *)
Inductive burst_verdict := BurstAccept | BurstReject (errno : N) (invalid_job : option N).

Definition burst_well_formed (b : burst_view) : bool :=
  (N.of_nat (length (bv_entries b)) =? bv_n_jobs b) && u32_ok (bv_n_jobs b) && u32_ok (bv_queue_space b) &&
  forallb (fun e => well_formed (be_job e) && u32_ok (be_suite0 e) && u32_ok (be_suite1 e)) (bv_entries b).
