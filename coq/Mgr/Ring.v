(* Mgr/Ring.v — the in-order job ring of intel-ipsec-mb, as written in
   lib/include/mb_mgr_code.h (JOBS, ADV_JOBS, get_queue_sz, queue_sz),
   lib/include/mb_mgr_job_api.h (submit_job_and_check, FLUSH_JOB, GET_COMPLETED_JOB,
   GET_NEXT_JOB, QUEUE_SIZE) and lib/include/mb_mgr_burst_async.h (ADV_N_JOBS,
   get_queue_sz_end, queue_sz_remaining, GET_NEXT_BURST, submit_burst_and_check,
   FLUSH_BURST).  Definitions only (no proofs): this file is extracted to OCaml
   and run against the real library (correspondence K2).

   State is what the C keeps: [earliest_job] and [next_job] as BYTE OFFSETS into
   jobs[] (earliest = -1 when empty), the status word and the user payload of
   every slot (keyed by byte offset), and the manager's error code.

   The out-of-order managers behind submit_new_job()/complete_job() are not
   modelled here: each operation carries the set [D] of slots whose status
   becomes IMB_STATUS_COMPLETED while the call runs (an oracle).  What the ring
   needs from that oracle is the contract [op_ok] below; Mgr/Ooo.v proves that
   contract for the modelled lane schedulers, and the K2 harness checks it on
   every observed call of the real library. *)
From Coq Require Import ZArith List Bool.
From IMB Require Import Gen.GenConsts.
Import ListNotations.
Local Open Scope Z_scope.

(* status and error codes: regenerated from the header on every run (T0) *)
Definition ST_PROC : Z := IMB_STATUS_BEING_PROCESSED.
Definition ST_COMPLETED : Z := IMB_STATUS_COMPLETED.
Definition ST_INVALID : Z := IMB_STATUS_INVALID_ARGS.

Definition E_NULL_BURST : Z := IMB_ERR_NULL_BURST.
Definition E_BURST_SIZE : Z := IMB_ERR_BURST_SIZE.
Definition E_BURST_OOO : Z := IMB_ERR_BURST_OOO.
Definition E_QUEUE_SPACE : Z := IMB_ERR_QUEUE_SPACE.
Definition E_NULL_JOB : Z := IMB_ERR_NULL_JOB.
Definition E_BURST_SUITE_ID : Z := IMB_ERR_BURST_SUITE_ID.

Record st := mkst {
  earliest : Z;          (* byte offset of the oldest job not yet handed back; -1 = empty *)
  next : Z;              (* byte offset of the next slot to fill *)
  stat : Z -> Z;         (* slot offset -> IMB_STATUS *)
  cont : Z -> Z;         (* slot offset -> caller payload (job id) *)
  errno : Z
}.

Section Ring.
Variable SZ : Z.     (* sizeof(IMB_JOB) *)
Variable NJ : Z.     (* IMB_MAX_JOBS *)
Variable MAXB : Z.   (* IMB_MAX_BURST_SIZE *)

Definition LIM : Z := NJ * SZ.

Definition init : st := mkst (-1) 0 (fun _ => ST_PROC) (fun _ => 0) 0.

Definition set_earliest v s := mkst v (next s) (stat s) (cont s) (errno s).
Definition set_next v s := mkst (earliest s) v (stat s) (cont s) (errno s).
Definition set_errno v s := mkst (earliest s) (next s) (stat s) (cont s) v.
Definition set_stat o v s :=
  mkst (earliest s) (next s) (fun z => if z =? o then v else stat s z) (cont s) (errno s).
Definition set_cont o v s :=
  mkst (earliest s) (next s) (stat s) (fun z => if z =? o then v else cont s z) (errno s).

Definition memz (z : Z) (l : list Z) : bool := existsb (Z.eqb z) l.

(* oracle effect: every slot in D that is still being processed becomes COMPLETED *)
Definition complete_set (D : list Z) (s : st) : st :=
  mkst (earliest s) (next s)
       (fun z => if memz z D && (stat s z <? ST_COMPLETED) then ST_COMPLETED else stat s z)
       (cont s) (errno s).

Definition is_done (s : st) (o : Z) : bool := ST_COMPLETED <=? stat s o.

(* ADV_JOBS *)
Definition adv (p : Z) : Z := let p' := p + SZ in if p' >=? LIM then 0 else p'.
(* ADV_N_JOBS *)
Definition adv_n (p k : Z) : Z := let p' := p + SZ * k in if p' >=? LIM then p' - LIM else p'.

(* get_queue_sz: int division (truncating) then & (IMB_MAX_JOBS - 1) *)
Definition get_queue_sz (s : st) : Z := Z.land (Z.quot (next s - earliest s) SZ) (NJ - 1).
Definition queue_sz (s : st) : Z :=
  if earliest s <? 0 then 0
  else let q := get_queue_sz s in if q =? 0 then NJ else q.
Definition queue_sz_end (off : Z) : Z := NJ - off / SZ.
Definition queue_sz_remaining (s : st) : Z := NJ - queue_sz s.

(* a returned job as the caller sees it: slot, payload, status *)
Definition job_view (s : st) (o : Z) : Z * Z * Z := (o, cont s o, stat s o).

Inductive out :=
| OJob (j : option (Z * Z * Z))
| ONum (n : Z)
| OSlots (l : list Z)                 (* GET_NEXT_BURST: slots offered *)
| OJobs (n : Z) (l : list (Z * Z * Z)) (* burst submit/flush: count and jobs returned *)
| OReject (mark : option (Z * Z * Z)).  (* checked burst refused as a whole: returns 0; jobs[0] = offender *)

(* ---- job API ---- *)

Definition get_next (s : st) : st * out :=
  let s := set_errno 0 s in (s, OSlots [next s]).

(* submit_job_and_check.  [verdict] = result of is_job_invalid (Some errno = invalid);
   [id] = what the caller wrote into the slot; [D] = oracle. *)
(* Every function that hands back a job WITHOUT looking at its status (because
   complete_job()/complete_burst_job() ran first) also returns a flag telling whether the
   oracle honoured that obligation; [op_ok] collects these flags. *)
Definition submit_tail (jobret : option Z) (s : st) : st * out * bool :=
  if earliest s <? 0 then
    (* state was previously empty *)
    let s := match jobret with None => set_earliest (next s) s | Some _ => s end in
    let s := set_next (adv (next s)) s in
    (s, OJob (option_map (job_view s) jobret), true)
  else
    let s := set_next (adv (next s)) s in
    if earliest s =? next s then
      (* full: complete_job(earliest) ran (part of D) *)
      let j := earliest s in
      let s := set_earliest (adv j) s in
      (s, OJob (Some (job_view s j)), is_done s j)
    else
      let j := earliest s in
      if negb (is_done s j) then (s, OJob None, true)
      else let s := set_earliest (adv j) s in (s, OJob (Some (job_view s j)), true).

Definition submit (check : bool) (verdict : option Z) (id : Z) (D : list Z) (s : st) : st * out * bool :=
  let s := set_errno 0 s in
  let j := next s in
  let s := set_cont j id s in
  match (if check then verdict else None) with
  | Some e =>
      (* a rejected job still takes its slot: when that slot was the last free one, complete_job(earliest) runs
         as for an accepted job, hence the oracle applies on this path too (the rejected slot keeps INVALID) *)
      submit_tail (Some j) (set_stat j ST_INVALID (complete_set D (set_errno e s)))
  | None =>
      let s := complete_set D (set_stat j ST_PROC s) in
      submit_tail (if is_done s j then Some j else None) s
  end.

Definition flush (D : list Z) (s : st) : st * out * bool :=
  let s := set_errno 0 s in
  if earliest s <? 0 then (s, OJob None, true)
  else
    let j := earliest s in
    let s := complete_set D s in
    let s := set_earliest (adv j) s in
    let s := if earliest s =? next s then set_earliest (-1) s else s in
    (s, OJob (Some (job_view s j)), is_done s j).

Definition get_completed (s : st) : st * out :=
  let s := set_errno 0 s in
  if earliest s <? 0 then (s, OJob None)
  else
    let j := earliest s in
    if negb (is_done s j) then (s, OJob None)
    else
      let s := set_earliest (adv j) s in
      let s := if earliest s =? next s then set_earliest (-1) s else s in
      (s, OJob (Some (job_view s j))).

Definition queue_size (s : st) : st * out :=
  let s := set_errno 0 s in (s, ONum (queue_sz s)).

(* ---- burst API ---- *)

Fixpoint consecutive (n : nat) (o : Z) : list Z :=
  match n with O => [] | S k => o :: consecutive k (o + SZ) end.

(* GET_NEXT_BURST; [jobs_null] = the caller passed a NULL array *)
Definition get_next_burst (jobs_null : bool) (n_req : Z) (s : st) : st * out :=
  let s := set_errno 0 s in
  if jobs_null then (set_errno E_NULL_BURST s, OSlots [])
  else if n_req >? MAXB then (set_errno E_BURST_SIZE s, OSlots [])
  else
    let n_ret := Z.min (queue_sz_remaining s) n_req in
    let num := queue_sz_end (next s) in
    if num <? n_ret then
      (s, OSlots (consecutive (Z.to_nat num) (next s) ++ consecutive (Z.to_nat (n_ret - num)) 0))
    else (s, OSlots (consecutive (Z.to_nat n_ret) (next s))).

(* scan: number of consecutive completed slots from [o], at most [cnt] *)
Fixpoint scan (s : st) (cnt : nat) (o : Z) : nat :=
  match cnt with
  | O => O
  | S k => if is_done s o then S (scan s k (o + SZ)) else O
  end.

(* FLUSH_BURST body after the NULL check; D applied up front (all complete_burst_job calls) *)
Fixpoint fb_loop (n : nat) (s : st) (acc : list Z) : st * list Z :=
  match n with
  | O => (s, rev acc)
  | S k => let j := earliest s in fb_loop k (set_earliest (adv j) s) (j :: acc)
  end.

Definition flush_burst_body (max_jobs : Z) (D : list Z) (s : st) : st * out * bool :=
  let max_ret := queue_sz s in
  if max_ret =? 0 then (s, OJobs 0 [], true)
  else
    let max_ret := Z.min max_ret max_jobs in
    let s := complete_set D s in
    let '(s, l) := fb_loop (Z.to_nat max_ret) s [] in
    let s := if earliest s =? next s then set_next 0 (set_earliest (-1) s) else s in
    (s, OJobs (Z.of_nat (length l)) (map (job_view s) l), forallb (is_done s) l).

Definition flush_burst (jobs_null : bool) (max_jobs : Z) (D : list Z) (s : st) : st * out * bool :=
  let s := set_errno 0 s in
  if jobs_null then (set_errno E_NULL_BURST s, OJobs 0 [], true)
  else flush_burst_body max_jobs D s.

(* what the checked path looks at, per job of the burst *)
Record bjob := mkbjob {
  bj_ptr : option Z;       (* None = NULL pointer; Some o = points at ring slot offset o;
                              a pointer outside the ring is encoded as Some (-2) *)
  bj_verdict : option Z;   (* is_job_invalid: Some errno = invalid *)
  bj_suite_ok : bool;      (* suite_id equals set_cipher_suite_id() *)
  bj_id : Z                (* payload *)
}.

Inductive burst_check := BOk | BErr (e : option Z) (* errno set by this function, if any *)
                                    (mark : option (Z * Z)) (* job given INVALID_ARGS: pointer, payload *).

Fixpoint burst_validate (jobs : list bjob) (off : Z) : burst_check :=
  match jobs with
  | [] => BOk
  | b :: t =>
      match bj_ptr b with
      | None => BErr (Some E_NULL_JOB) None
      | Some p =>
          if negb (p =? off) then BErr (Some E_BURST_OOO) (Some (p, bj_id b))
          else match bj_verdict b with
               | Some e => BErr (Some e) (Some (p, bj_id b))
               | None => if negb (bj_suite_ok b) then BErr (Some E_BURST_SUITE_ID) (Some (p, bj_id b))
                         else burst_validate t (adv off)
               end
      end
  end.

(* submit_burst_and_check, in three parts.  [jobs] = None models a NULL array (then [n_jobs]
   is the count given). *)

(* part 1: the checked entry point's argument validation; Some = refused *)
Definition burst_pre (check : bool) (n_jobs : Z) (jobs : option (list bjob)) (s : st) : option (st * out) :=
  if check then
    match jobs with
    | None => Some (set_errno E_NULL_BURST s, OReject None)
    | Some js =>
        if n_jobs >? MAXB then Some (set_errno E_BURST_SIZE s, OReject None)
        else if queue_sz_remaining s <? n_jobs then Some (set_errno E_QUEUE_SPACE s, OReject None)
        else match burst_validate js (next s) with
             | BOk => None
             | BErr e mark =>
                 let s := match e with Some e => set_errno e s | None => s end in
                 (* jobs[i]->status = INVALID_ARGS; jobs[0] = jobs[i].  When jobs[i] is not a ring
                    slot (p < 0) the write lands in the caller's own object. *)
                 let s := match mark with
                          | Some (p, _) => if (0 <=? p) then set_stat p ST_INVALID s else s
                          | None => s end in
                 Some (s, OReject (option_map (fun m => if 0 <=? fst m then job_view s (fst m)
                                                        else (fst m, snd m, ST_INVALID)) mark))
             end
    end
  else None.

(* part 2: every job of the burst: payload written by the caller, status BEING_PROCESSED *)
Fixpoint burst_fill (js : list bjob) (o : Z) (s : st) : st :=
  match js with
  | [] => s
  | b :: t => burst_fill t (adv o) (set_stat o ST_PROC (set_cont o (bj_id b) s))
  end.

(* part 3: after the submit loop (oracle D applied): advance next_job, two-pass return loop,
   empty / full handling *)
Definition burst_post (n_jobs : Z) (D2 : list Z) (s : st) : st * out * bool :=
  let s := set_next (adv_n (next s) n_jobs) s in
  let num1 := Z.min (queue_sz_end (earliest s)) n_jobs in
  let r1 := Z.of_nat (scan s (Z.to_nat num1) (earliest s)) in
  let n_ret :=
    if r1 <? num1 then r1
    else if r1 <? n_jobs then r1 + Z.of_nat (scan s (Z.to_nat (n_jobs - num1)) 0)
    else r1 in
  let first := consecutive (Z.to_nat (Z.min n_ret num1)) (earliest s) in
  let second := consecutive (Z.to_nat (n_ret - num1)) 0 in
  let rl := first ++ second in
  let s := set_earliest (adv_n (earliest s) n_ret) s in
  if earliest s =? next s then
    if negb (n_ret =? 0) then
      let s := set_next 0 (set_earliest (-1) s) in
      (s, OJobs n_ret (map (job_view s) rl), true)
    else
      (* wrapped around: queue full, earliest still processing *)
      flush_burst_body n_jobs D2 (set_errno 0 s)
  else (s, OJobs n_ret (map (job_view s) rl), true).

Definition submit_burst (check : bool) (n_jobs : Z) (jobs : option (list bjob)) (D D2 : list Z) (s : st)
  : st * out * bool :=
  let s := set_errno 0 s in
  match burst_pre check n_jobs jobs s with
  | Some r => (r, true)
  | None =>
      let js := match jobs with Some js => js | None => [] end in
      let s := if earliest s <? 0 then set_earliest (next s) s else s in
      let s := burst_fill js (next s) s in
      let s := complete_set D s in
      burst_post n_jobs D2 s
  end.

(* ---- operations, one per API call ---- *)
Inductive op :=
| GetNext
| Submit (check : bool) (verdict : option Z) (id : Z) (D : list Z)
| Flush (D : list Z)
| GetCompleted
| QueueSize
| GetNextBurst (jobs_null : bool) (n_req : Z)
| SubmitBurst (check : bool) (n_jobs : Z) (jobs : option (list bjob)) (D D2 : list Z)
| FlushBurst (jobs_null : bool) (max_jobs : Z) (D : list Z).

Definition step3 (s : st) (o : op) : st * out * bool :=
  match o with
  | GetNext => (get_next s, true)
  | Submit c v id D => submit c v id D s
  | Flush D => flush D s
  | GetCompleted => (get_completed s, true)
  | QueueSize => (queue_size s, true)
  | GetNextBurst jn n => (get_next_burst jn n s, true)
  | SubmitBurst c n js D D2 => submit_burst c n js D D2 s
  | FlushBurst jn m D => flush_burst jn m D s
  end.
Definition step (s : st) (o : op) : st * out := fst (step3 s o).

Fixpoint run (s : st) (ops : list op) : st * list out :=
  match ops with
  | [] => (s, [])
  | o :: t => let '(s1, r) := step s o in let '(s2, rs) := run s1 t in (s2, r :: rs)
  end.

(* ---- oracle and caller contract ---- *)
(* (1) the oracle completes what complete_job()/complete_burst_job() is asked to complete
       (flag computed by step3);
   (2) the no-check burst entry point trusts its caller: non-NULL array of the ring's next
       slots in order, and enough room; counts are non-negative (uint32_t). *)
Definition op_ok (s : st) (o : op) : bool :=
  snd (step3 s o) &&
  match o with
  | SubmitBurst c n js D D2 =>
      (0 <=? n) &&
      match js with
      | None => c
      | Some l =>
          (* the array holds n_jobs entries (not looked at when the checked call refuses the size) *)
          ((c && (n >? MAXB)) || (Z.of_nat (length l) =? n)) &&
          (c || ((n <=? queue_sz_remaining s) &&
                 match burst_validate (map (fun b => mkbjob (bj_ptr b) None true (bj_id b)) l) (next s)
                 with BOk => true | _ => false end))
      end
  | GetNextBurst _ n => 0 <=? n
  | FlushBurst _ m _ => 0 <=? m
  | _ => true
  end.

Fixpoint ops_ok (s : st) (ops : list op) : bool :=
  match ops with
  | [] => true
  | o :: t => op_ok s o && ops_ok (fst (step s o)) t
  end.

End Ring.
