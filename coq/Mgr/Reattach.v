(* placeholder, being written *)
