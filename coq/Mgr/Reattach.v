(* Mgr/Reattach.v — imb_set_pointers_mb_mgr(mem_ptr, flags, reset_mgr) of lib/x86_64/alloc.c
   (property C16: re-attaching to a manager block without resetting it).  Definitions only.

   The statement list [set_pointers_steps], the switch on used_arch, ooo_mgr_table and the
   alignment constants are regenerated from alloc.c on every run (Gen/GenReset.v).

   Address spaces are not modelled: OOO images are keyed by IMB_MGR field, which presumes what the
   property presumes — the block is mapped at the same address, so the recomputed pointers denote
   the same memory.  What a pointer cached inside manager memory would do after the library moved
   is outside this model (see [ptr_class] and the K5 harness). *)
From Coq Require Import NArith ZArith List String Bool.
From IMB Require Import Gen.GenConsts Gen.GenLayout Gen.GenReset Mgr.Ring Mgr.Reset.
Import ListNotations.
Local Open Scope N_scope.

(* cumulative aligned sizes: byte offset of every OOO manager inside the block *)
Fixpoint cum_offsets (l : list ooo_entry) (off : N) : list (string * N) :=
  match l with
  | [] => []
  | e :: t => (oe_field e, off) :: cum_offsets t (off + oe_asize e)
  end.

Definition ooo_offsets : list (string * N) := cum_offsets ooo_mgr_table first_ooo_off.

Definition ptr_offset (field : string) : option N :=
  option_map snd (find (fun p => String.eqb (fst p) field) ooo_offsets).

Definition total_ooo_size : N := fold_left (fun a e => a + oe_asize e) ooo_mgr_table 0.
(* imb_get_mb_mgr_size() *)
Definition mb_mgr_size : N := SIZEOF_IMB_MGR_N + total_ooo_size + mgr_size_slack.

Definition zeroed : mgr := mkmgr zero_ring 0 0 0 0 None (fun _ => 0) (fun _ => zero_img).

Definition sp_run (cpu flags base : N) (reset : bool) (s : mgr) (st : sp_step) : mgr :=
  match st with
  | SpIfReset cases =>
      if reset then zeroed        (* memset(mem_ptr, 0, mem_size) *)
      else match find (fun c => fst (fst c) =? m_arch s) cases with
           | Some (_, name, k) =>
               match find_arch name with
               | Some a => arch_init_run cpu a (negb (k =? 0)) s     (* init_mb_mgr_<arch>_internal(ptr, k) *)
               | None => s
               end
           | None => s              (* default: break *)
           end
  | SpErrno0 => mgr_errno 0%Z s
  | SpFlags => with_flags flags s
  | SpFeatures => with_features (feature_adjust flags cpu) s
  | SpPtrs => with_ptrs (fun f => match ptr_offset f with Some o => base + o | None => m_ptrs s f end) s
  | SpRoadBlocks =>
      with_ooo (fun f => match table_entry f with
                         | Some e => run_prims (store_prims (oe_rb_off e) 8 0 OOO_ROAD_BLOCK) (m_ooo s f)
                         | None => m_ooo s f
                         end) s
  end.

Definition set_pointers (cpu flags base : N) (reset : bool) (s : mgr) : mgr :=
  fold_left (sp_run cpu flags base reset) set_pointers_steps s.

(* imb_set_pointers_mb_mgr(ptr, flags, 0) on a block that holds a live manager *)
Definition reattach (cpu flags base : N) (s : mgr) : mgr := set_pointers cpu flags base false s.
(* alloc_mb_mgr(flags): imb_set_pointers_mb_mgr(fresh memory, flags, 1) *)
Definition alloc (cpu flags base : N) (garbage : mgr) : mgr := set_pointers cpu flags base true garbage.

(* arch id handled by a case of the switch -> the arch_init it calls *)
Definition switch_cases : list (N * string * N) :=
  flat_map (fun st => match st with SpIfReset cs => cs | _ => [] end) set_pointers_steps.

(* ------------------------------------------------------------------ pointer provenance *)
(* Classification of every pointer-typed field of the OOO manager structs (Gen/GenLayout.v) by what
   it points to while a job is parked: memory the caller owns (message, key schedules, IV), or the
   manager block itself (IMB_JOB slots of jobs[]).  Nothing may point into the library image: a
   re-attaching process has the library at another address.  By field name, from reading the
   submit/flush routines; the K5 harness checks the classification on live managers at every
   crash point (every non-NULL pointer leaf must lie inside the shared region). *)
Inductive pclass := PCaller | PManager | PLibrary.

Definition ptr_class (stype path : string) : option pclass :=
  if existsb (String.eqb path) ["args.in"; "args.out"; "args.keys"; "args.iv"; "args.data_ptr"; "args.last_in"; "args.last_out"]%string
  then Some PCaller
  else if existsb (String.eqb path) ["job_in_lane"; "ldata[].job_in_lane"]%string then Some PManager
  else None.

Definition leaf_ptr_ok (stype : string) (l : leaf) : bool :=
  match l_kind l with
  | KPtr => match ptr_class stype (l_path l) with Some PCaller | Some PManager => true | _ => false end
  | KFnPtr => false
  | _ => true
  end.

(* function-pointer fields of IMB_MGR that init does not own *)
Definition user_fnptrs : list string := ["self_test_cb_fn"%string].
