(* Mgr/Reset.v — what initialising a manager does (property C15).  Definitions only.

   Sources modelled (structure regenerated into Gen/GenReset.v by translators/t7_reset.py on every
   run, so the model follows the code):
     lib/x86_64/ooo_mgr_reset.c      ooo_mgr_*_reset()  -> [reset_prims] : byte writes on the struct image
     lib/<v>/mb_mgr_<v>.c            reset_ooo_mgrs(), init_mb_mgr_<v>_internal(state, reset_mgrs)
     lib/<a>_t1/mb_mgr_<a>.c         init_mb_mgr_<a>_internal() (tier ladder), init_mb_mgr_<a>() (+ self test)
     lib/x86_64/cpu_feature.c        cpu_feature_adjust()
   A manager state [mgr] = the in-order ring of Mgr/Ring.v (earliest_job, next_job, slot status and
   payload, imb_errno) + flags / features / used_arch / used_arch_type + which variant's handlers
   are bound + the OOO pointers + the byte image of every OOO manager.

   Byte images are functions offset -> byte: reset functions only WRITE (memset / stores of
   constants or of num_lanes), which is what makes the result independent of the prior content. *)
From Coq Require Import NArith ZArith List String Bool.
From IMB Require Import Gen.GenConsts Gen.GenLayout Gen.GenReset Mgr.Ring.
Import ListNotations.
Local Open Scope N_scope.

(* ------------------------------------------------------------------ byte images *)
Definition img := N -> N.
Definition zero_img : img := fun _ => 0.

Definition in_range (off len a : N) : bool := (off <=? a) && (a <? off + len).

(* one primitive write: [len] bytes of value [b] from [off] *)
Inductive prim := PFill (off len b : N).

Definition apply_prim (p : prim) (f : img) : img :=
  match p with PFill off len b => fun a => if in_range off len a then b else f a end.

Definition run_prims (ps : list prim) (f : img) : img := fold_left (fun f p => apply_prim p f) ps f.

(* byte [k] of the little-endian representation of [v] *)
Definition byte_of (v k : N) : N := N.land (N.shiftr v (8 * k)) 255.

Fixpoint store_prims (off : N) (w : nat) (k : N) (v : N) : list prim :=
  match w with
  | O => []
  | S w' => PFill (off + k) 1 (byte_of v k) :: store_prims off w' (k + 1) v
  end.

Definition nseq (n : N) : list N := map N.of_nat (seq 0 (N.to_nat n)).

Definition rval_of (v : rval) (lanes : N) : N := match v with VConst n => n | VLanes => lanes end.

(* statement of ooo_mgr_reset.c -> primitive writes, for a given lane count and loop index *)
Fixpoint stmt_prims (lanes : N) (s : rstmt) (i : N) {struct s} : list prim :=
  let list_prims := (fix go (l : list rstmt) (i : N) {struct l} : list prim :=
                       match l with [] => [] | s :: t => stmt_prims lanes s i ++ go t i end) in
  match s with
  | RMemset _ off len b => [PFill off len b]
  | RStore _ off stride w v => store_prims (off + i * stride) (N.to_nat w) 0 (rval_of v lanes)
  | RFor body => flat_map (fun i => list_prims body i) (nseq lanes)
  | RIf k th el => if lanes =? k then list_prims th i else list_prims el i
  end.

Definition body_prims (lanes : N) (body : list rstmt) : list prim :=
  flat_map (fun s => stmt_prims lanes s 0) body.

Definition find_reset_fn (name : string) : option reset_fn :=
  find (fun r => String.eqb (rf_name r) name) reset_fns.

(* ooo_mgr_<x>_reset(p, lanes) as primitive writes; an unknown name writes nothing (ruled out by
   [reset_fns_exist] in Proofs/ResetProofs.v) *)
Definition reset_prims (fn : string) (lanes : N) : list prim :=
  match find_reset_fn fn with Some r => body_prims lanes (rf_body r) | None => [] end.

Definition reset_image (fn : string) (lanes : N) (f : img) : img := run_prims (reset_prims fn lanes) f.

(* little-endian read of [w] bytes *)
Fixpoint read_le (f : img) (off : N) (w : nat) : N :=
  match w with O => 0 | S w' => f off + 256 * read_le f (off + 1) w' end.

(* ------------------------------------------------------------------ lane stacks (unused_lanes) *)
(* [unused_lanes] is a stack of lane numbers, [width] bits each (4 or 8), lowest digit on top.
   After reset it must list 0 .. lanes-1 in order; what follows is either nothing, or one
   all-ones terminator digit. *)
Fixpoint digits (width : N) (n : nat) (c : N) : list N :=
  match n with O => [] | S n' => N.land c (2 ^ width - 1) :: digits width n' (N.shiftr c width) end.

Definition valid_stack (width lanes c : N) : bool :=
  forallb (fun p => fst p =? snd p) (combine (digits width (N.to_nat lanes) c) (nseq lanes)) &&
  (let rest := N.shiftr c (width * lanes) in (rest =? 0) || (rest =? 2 ^ width - 1)) &&
  (width * lanes <=? 64) && (lanes <=? 2 ^ width).

Definition table_entry (field : string) : option ooo_entry :=
  find (fun e => String.eqb (oe_field e) field) ooo_mgr_table.

Definition layout_of (stype : string) : option rlayout :=
  find (fun r => String.eqb (r_name r) stype) ooo_layouts.

Definition leaf_of (stype path : string) : option leaf :=
  match layout_of stype with
  | Some r => find (fun l => String.eqb (l_path l) path) (r_leaves r)
  | None => None
  end.

(* the value of [unused_lanes] right after ooo_mgr_<fn>_reset(p, lanes), from the image *)
Definition unused_lanes_after (fn : string) (lanes : N) : option N :=
  match find_reset_fn fn with
  | Some r => match leaf_of (rf_struct r) "unused_lanes" with
              | Some l => Some (read_le (reset_image fn lanes zero_img) (l_off l) (N.to_nat (l_esz l)))
              | None => None
              end
  | None => None
  end.

(* ------------------------------------------------------------------ manager state *)
Record mgr := mkmgr {
  m_ring : Ring.st;             (* earliest_job, next_job, jobs[].status / payload, imb_errno *)
  m_flags : N;
  m_features : N;
  m_arch : N;                   (* used_arch *)
  m_arch_type : N;              (* used_arch_type *)
  m_bound : option string;      (* variant whose handlers are installed in the function-pointer fields *)
  m_ptrs : string -> N;         (* OOO manager pointers, by IMB_MGR field *)
  m_ooo : string -> img         (* byte image of each OOO manager *)
}.

Definition with_ring r (s : mgr) := mkmgr r (m_flags s) (m_features s) (m_arch s) (m_arch_type s) (m_bound s) (m_ptrs s) (m_ooo s).
Definition with_flags v (s : mgr) := mkmgr (m_ring s) v (m_features s) (m_arch s) (m_arch_type s) (m_bound s) (m_ptrs s) (m_ooo s).
Definition with_features v (s : mgr) := mkmgr (m_ring s) (m_flags s) v (m_arch s) (m_arch_type s) (m_bound s) (m_ptrs s) (m_ooo s).
Definition with_arch a t (s : mgr) := mkmgr (m_ring s) (m_flags s) (m_features s) a t (m_bound s) (m_ptrs s) (m_ooo s).
Definition with_bound b (s : mgr) := mkmgr (m_ring s) (m_flags s) (m_features s) (m_arch s) (m_arch_type s) b (m_ptrs s) (m_ooo s).
Definition with_ptrs p (s : mgr) := mkmgr (m_ring s) (m_flags s) (m_features s) (m_arch s) (m_arch_type s) (m_bound s) p (m_ooo s).
Definition with_ooo o (s : mgr) := mkmgr (m_ring s) (m_flags s) (m_features s) (m_arch s) (m_arch_type s) (m_bound s) (m_ptrs s) o.

Definition mgr_errno (e : Z) (s : mgr) : mgr := with_ring (set_errno e (m_ring s)) s.

(* cpu_feature_adjust(flags, detected) *)
Definition feature_adjust (flags cpu : N) : N :=
  fold_left (fun f r => if N.land flags (fst r) =? 0 then f else N.ldiff f (snd r)) feature_adjust_rules cpu.

Definition has_flags (features mask : N) : bool := N.land features mask =? mask.

(* reset_ooo_mgrs(state) of a variant: each call rewrites one manager's image *)
Definition reset_ooo_mgrs (v : variant) (o : string -> img) : string -> img :=
  fold_left (fun o c => let '(field, fn, lanes) := c in
                        fun f => if String.eqb f field then reset_image fn lanes (o f) else o f)
            (v_resets v) o.

(* the assignments under `if (reset_mgrs)`: state->next_job = 0; state->earliest_job = -1 *)
Definition ring_assign (r : Ring.st) (a : string * Z) : Ring.st :=
  if String.eqb (fst a) "next_job" then set_next (snd a) r
  else if String.eqb (fst a) "earliest_job" then set_earliest (snd a) r
  else r.

(* init_mb_mgr_<variant>_internal(state, reset_mgrs) *)
Definition tier_init (v : variant) (reset : bool) (s : mgr) : mgr :=
  if negb (has_flags (m_features s) (v_req v)) then mgr_errno (Z.of_N IMB_ERR_MISSING_CPUFLAGS_INIT_MGR) s
  else
    let s := with_arch (v_arch v) (v_arch_type v) s in
    let s := if reset then
               let s := if v_calls_reset_ooo v then with_ooo (reset_ooo_mgrs v (m_ooo s)) s else s in
               with_ring (fold_left ring_assign (v_ring_reset v) (m_ring s)) s
             else s in
    with_bound (Some (v_name v)) s.

Definition find_variant (name : string) : option variant :=
  find (fun v => String.eqb (v_name v) name) variants.

(* the tier ladder: first (mask, variant) whose mask is contained in features, else the default *)
Definition select_tier (a : arch_init) (features : N) : string :=
  match find (fun p => has_flags features (fst p)) (ai_ladder a) with
  | Some p => snd p
  | None => ai_default a
  end.

(* init_mb_mgr_<arch>_internal(state, reset_mgrs); [cpu] = cpu_feature_detect() *)
Definition arch_step_run (cpu : N) (a : arch_init) (reset : bool) (s : mgr) (st : arch_step) : mgr :=
  match st with
  | AErrno0 => mgr_errno 0%Z s
  | AFeatures => with_features (feature_adjust (m_flags s) cpu) s
  | ALadder => match find_variant (select_tier a (m_features s)) with
               | Some v => tier_init v reset s
               | None => s
               end
  end.

Definition arch_init_run (cpu : N) (a : arch_init) (reset : bool) (s : mgr) : mgr :=
  if negb (has_flags (m_features s) (ai_req a)) then mgr_errno (Z.of_N IMB_ERR_MISSING_CPUFLAGS_INIT_MGR) s
  else fold_left (arch_step_run cpu a reset) (ai_steps a) s.

Definition find_arch (name : string) : option arch_init :=
  find (fun a => String.eqb (ai_name a) name) arch_inits.

(* the variant a (cpu, flags) pair ends up with under init_mb_mgr_<arch> *)
Definition variant_for (cpu flags : N) (a : arch_init) : string := select_tier a (feature_adjust flags cpu).

(* init_mb_mgr_<arch>(state): internal init with reset, then the power-up self test, which drives
   jobs through the very same manager (so next_job is not 0 afterwards).  The self test is a
   parameter here: C20 models it; C15 only needs that it is a function of the state. *)
Definition init_public (selftest : mgr -> mgr) (cpu : N) (a : arch_init) (s : mgr) : mgr :=
  let s1 := arch_init_run cpu a true s in
  if ai_guard a && negb (errno (m_ring s1) =? 0)%Z then s1    (* nothing was set up: keep the error, skip the self test *)
  else selftest s1.

(* ------------------------------------------------------------------ scheduling state *)
Definition agree_on (P : N -> bool) (f g : img) : Prop := forall a, P a = true -> f a = g a.

Definition reset_fields (v : variant) : list string := map (fun c => fst (fst c)) (v_resets v).

Definition rb_off_of (field : string) : N :=
  match table_entry field with Some e => oe_rb_off e | None => 0 end.

(* Two states have the same scheduling state for variant [v]: same ring indices and error code,
   same architecture / features / flags / bound handlers, and the same image of every manager
   the variant resets, up to its road block.  NOT compared: jobs[] (caller-filled slots),
   managers the variant never touches, the bytes from the road block on (constant pattern +
   padding), and the OOO pointers (a function of the block address only, see Mgr/Reattach.v). *)
Definition sched_eq (v : variant) (s1 s2 : mgr) : Prop :=
  earliest (m_ring s1) = earliest (m_ring s2) /\
  next (m_ring s1) = next (m_ring s2) /\
  errno (m_ring s1) = errno (m_ring s2) /\
  m_flags s1 = m_flags s2 /\ m_features s1 = m_features s2 /\
  m_arch s1 = m_arch s2 /\ m_arch_type s1 = m_arch_type s2 /\ m_bound s1 = m_bound s2 /\
  forall field, In field (reset_fields v) ->
    agree_on (in_range 0 (rb_off_of field)) (m_ooo s1 field) (m_ooo s2 field).

(* a freshly allocated block: imb_set_pointers_mb_mgr(mem, flags, reset_mgr = 1) zeroes everything,
   then stores flags / features (pointers: Mgr/Reattach.v) *)
Definition zero_ring : Ring.st := mkst 0%Z 0%Z (fun _ => 0%Z) (fun _ => 0%Z) 0%Z.
Definition fresh_alloc (cpu flags : N) : mgr :=
  mkmgr zero_ring flags (feature_adjust flags cpu) 0 0 None (fun _ => 0) (fun _ => zero_img).
