(* Mgr/Select.v — variant selection at manager initialisation, as written in
   lib/x86_64/alloc.c (alloc_mb_mgr: features := cpu_feature_adjust(flags, cpu_feature_detect())),
   lib/x86_64/cpu_feature.c (cpu_feature_adjust), lib/sse_t1/mb_mgr_sse.c, lib/avx2_t1/mb_mgr_avx2.c,
   lib/avx512_t1/mb_mgr_avx512.c (the init_mb_mgr_ARCH_internal and init_mb_mgr_ARCH functions) and
   lib/x86_64/mb_mgr_auto.c.  Masks come from the current header (Gen/GenConsts.v).
   [detect] is the CPUID oracle (cpu_feature_detect()).  Definitions only. *)
From Coq Require Import ZArith Bool.
From IMB Require Import Gen.GenConsts.
Local Open Scope Z_scope.

Inductive variant := SSE_T1 | SSE_T2 | SSE_T3 | AVX2_T1 | AVX2_T2 | AVX2_T3 | AVX2_T4 | AVX512_T1 | AVX512_T2.

Definition required (v : variant) : Z :=
  match v with
  | SSE_T1 => IMB_CPUFLAGS_SSE | SSE_T2 => IMB_CPUFLAGS_SSE_T2 | SSE_T3 => IMB_CPUFLAGS_SSE_T3
  | AVX2_T1 => IMB_CPUFLAGS_AVX2 | AVX2_T2 => IMB_CPUFLAGS_AVX2_T2 | AVX2_T3 => IMB_CPUFLAGS_AVX2_T3
  | AVX2_T4 => IMB_CPUFLAGS_AVX2_T4
  | AVX512_T1 => IMB_CPUFLAGS_AVX512 | AVX512_T2 => IMB_CPUFLAGS_AVX512_T2
  end.

(* (features & MASK) == MASK *)
Definition has (f m : Z) : bool := Z.land f m =? m.

Definition adjust (flags feat : Z) : Z :=
  let feat := if Z.land flags IMB_FLAG_SHANI_OFF =? 0 then feat else Z.land feat (Z.lnot IMB_FEATURE_SHANI) in
  if Z.land flags IMB_FLAG_GFNI_OFF =? 0 then feat else Z.land feat (Z.lnot IMB_FEATURE_GFNI).

Record mgr := mkmgr {
  m_flags : Z;
  m_features : Z;
  m_variant : option variant;      (* whose handlers are installed *)
  m_errno : Z;
  m_selftests : nat                (* how many times the power-up self test ran on this manager *)
}.

Definition alloc (detect flags : Z) : mgr := mkmgr flags (adjust flags detect) None 0 0.

(* compile-time presence of the optional AVX2 variants (-DAVX_IFMA, -DSMX_NI) *)
Section Build.
Variable have_avx2_t3 have_avx2_t4 : bool.
Variable detect : Z.

Definition fail_missing (s : mgr) : mgr :=
  mkmgr (m_flags s) (m_features s) (m_variant s) IMB_ERR_MISSING_CPUFLAGS_INIT_MGR (m_selftests s).

Definition install (s : mgr) (f : Z) (v : variant) : mgr := mkmgr (m_flags s) f (Some v) 0 (m_selftests s).

Definition init_sse_internal (s : mgr) : mgr :=
  if negb (has (m_features s) IMB_CPUFLAGS_SSE) then fail_missing s
  else let f := adjust (m_flags s) detect in
       install s f (if has f IMB_CPUFLAGS_SSE_T3 then SSE_T3 else if has f IMB_CPUFLAGS_SSE_T2 then SSE_T2 else SSE_T1).

Definition init_avx2_internal (s : mgr) : mgr :=
  if negb (has (m_features s) IMB_CPUFLAGS_AVX2) then fail_missing s
  else let f := adjust (m_flags s) detect in
       install s f (if have_avx2_t4 && has f IMB_CPUFLAGS_AVX2_T4 then AVX2_T4
                    else if have_avx2_t3 && has f IMB_CPUFLAGS_AVX2_T3 then AVX2_T3
                    else if has f IMB_CPUFLAGS_AVX2_T2 then AVX2_T2 else AVX2_T1).

Definition init_avx512_internal (s : mgr) : mgr :=
  if negb (has (m_features s) IMB_CPUFLAGS_AVX512) then fail_missing s
  else let f := adjust (m_flags s) detect in
       install s f (if has f IMB_CPUFLAGS_AVX512_T2 then AVX512_T2 else AVX512_T1).

(* the public wrappers: run the power-up self test unless the internal init reported an error;
   [st_ok] = outcome of the self test (modelled in Mgr/SelfTest.v) *)
Definition self_test (st_ok : bool) (s : mgr) : mgr :=
  mkmgr (m_flags s) (m_features s) (m_variant s) (if st_ok then m_errno s else IMB_ERR_SELFTEST) (S (m_selftests s)).

Definition wrap (internal : mgr -> mgr) (st_ok : bool) (s : mgr) : mgr :=
  let s1 := internal s in if m_errno s1 =? 0 then self_test st_ok s1 else s1.

Definition init_sse := wrap init_sse_internal.
Definition init_avx2 := wrap init_avx2_internal.
Definition init_avx512 := wrap init_avx512_internal.

Definition init_auto (st_ok : bool) (s : mgr) : mgr :=
  let s := mkmgr (m_flags s) (m_features s) (m_variant s) 0 (m_selftests s) in
  if has (m_features s) IMB_CPUFLAGS_AVX512 then init_avx512 st_ok s
  else if has (m_features s) IMB_CPUFLAGS_AVX2 then init_avx2 st_ok s
  else if has (m_features s) IMB_CPUFLAGS_SSE then init_sse st_ok s
  else fail_missing s.
End Build.
