(* Mgr/RingInst.v — the ring model instantiated with the constants of the current header. *)
From Coq Require Import ZArith List.
From IMB Require Import Gen.GenConsts Mgr.Ring.
Local Open Scope Z_scope.

Definition r_init : st := init.
Definition r_step : st -> op -> st * out * bool := step3 SIZEOF_IMB_JOB IMB_MAX_JOBS IMB_MAX_BURST_SIZE.
Definition r_op_ok : st -> op -> bool := op_ok SIZEOF_IMB_JOB IMB_MAX_JOBS IMB_MAX_BURST_SIZE.
Definition r_queue_sz : st -> Z := queue_sz SIZEOF_IMB_JOB IMB_MAX_JOBS.
