(* Mgr/Job.v — the job descriptor IMB_JOB as the library sees it (property C14).
   Definitions only; proofs are in Proofs/JobProofs.v.

   The descriptor is a map from STORAGE CELLS to 64-bit values.  The cells are the 4/8-byte
   storage units of `struct IMB_JOB` (unions collapsed: all members sharing storage are one
   cell); [cell_off]/[cell_size] are tied to the current header by
   JobProofs.cells_match_layout (against Gen/GenJobLayout.v, regenerated on every run by
   translators/t14_job.py from clang's record layout and gcc's offsetof).

   Partition, as property C14 partitions it:
     caller-owned  session fields (cipher mode, direction, hash algorithm, key length, key
                   pointers, suite and session ids), buffer pointers (src, dst, iv, tag, the
                   words of union `u`, cipher_fields.CBCS.next_iv), offsets, chain order, both
                   user-data words;
     lengths etc.  msg_len_to_cipher, msg_len_to_hash, iv_len, tag_len, custom callbacks,
                   sgl_state: not in the property's list (the code rewrites one of them, below);
     library-owned `status`, and the documented scratch `u.SNOW_V_AEAD.reserved`.

   What the code writes into a descriptor it was handed (census: Gen/GenJobWrites.v, proved
   complete w.r.t. this model in JobProofs.lib_writes_are_modelled):
     job->status  = BEING_PROCESSED | INVALID_ARGS | INTERNAL_ERROR | COMPLETED
     job->status |= COMPLETED_CIPHER | COMPLETED_AUTH | COMPLETED
     job->msg_len_to_hash_in_bits = job->msg_len_to_hash_in_bytes * 8
                         (SUBMIT_JOB_HASH, cases IMB_AUTH_AES_CMAC and IMB_AUTH_AES_CMAC_256:
                          same union member as msg_len_to_hash_in_bytes)
     job->u.SNOW_V_AEAD.reserved = <address of a local>    (submit_snow_v_aead_job)
   and, only inside the caller-invoked imb_set_session(): suite_id[0..1], session_id. *)
From Coq Require Import ZArith List Bool.
From IMB Require Import Gen.GenConsts Mgr.Ring.
Import ListNotations.
Local Open Scope Z_scope.

Inductive cell :=
| C_enc_keys | C_dec_keys | C_key_len | C_src | C_dst | C_coff | C_clen | C_hoff | C_hlen
| C_iv | C_iv_len | C_tag | C_tag_len | C_u0 | C_u1 | C_u2
| C_status | C_cipher_mode | C_dir | C_hash_alg | C_chain_order
| C_user_data | C_user_data2 | C_cipher_func | C_hash_func | C_sgl_state | C_next_iv
| C_suite0 | C_suite1 | C_session_id.

Definition all_cells : list cell :=
  [ C_enc_keys; C_dec_keys; C_key_len; C_src; C_dst; C_coff; C_clen; C_hoff; C_hlen;
    C_iv; C_iv_len; C_tag; C_tag_len; C_u0; C_u1; C_u2;
    C_status; C_cipher_mode; C_dir; C_hash_alg; C_chain_order;
    C_user_data; C_user_data2; C_cipher_func; C_hash_func; C_sgl_state; C_next_iv;
    C_suite0; C_suite1; C_session_id ].

(* byte offset and size in struct IMB_JOB (checked against the generated layout) *)
Definition cell_off (c : cell) : Z :=
  match c with
  | C_enc_keys => 0 | C_dec_keys => 8 | C_key_len => 16 | C_src => 24 | C_dst => 32
  | C_coff => 40 | C_clen => 48 | C_hoff => 56 | C_hlen => 64 | C_iv => 72 | C_iv_len => 80
  | C_tag => 88 | C_tag_len => 96 | C_u0 => 104 | C_u1 => 112 | C_u2 => 120
  | C_status => 128 | C_cipher_mode => 132 | C_dir => 136 | C_hash_alg => 140
  | C_chain_order => 144 | C_user_data => 152 | C_user_data2 => 160 | C_cipher_func => 168
  | C_hash_func => 176 | C_sgl_state => 184 | C_next_iv => 192 | C_suite0 => 200
  | C_suite1 => 204 | C_session_id => 208
  end.
Definition cell_size (c : cell) : Z :=
  match c with
  | C_status | C_cipher_mode | C_dir | C_hash_alg | C_chain_order | C_sgl_state
  | C_suite0 | C_suite1 | C_session_id => 4
  | _ => 8
  end.

Definition cell_eqb (a b : cell) : bool := cell_off a =? cell_off b.

Definition desc := cell -> Z.
Definition dupd (c : cell) (v : Z) (d : desc) : desc := fun x => if cell_eqb x c then v else d x.
Definition desc0 : desc := fun _ => 0.

(* ---- the property's partition ---- *)
Inductive owner :=
| OwnSession      (* cipher mode, direction, hash alg, key length, key pointers, suite/session ids *)
| OwnPointer      (* buffer pointers *)
| OwnOffset       (* start offsets *)
| OwnOrder        (* chain order *)
| OwnUser         (* user_data, user_data2 *)
| OwnUnlisted     (* lengths, custom callbacks, SGL state: not named by the property *)
| OwnLibrary.     (* status; documented scratch *)

Definition is_snowv_aead (d : desc) : bool := d C_cipher_mode =? IMB_CIPHER_SNOW_V_AEAD.
(* hash algorithms whose byte length is rewritten into a bit length by SUBMIT_JOB_HASH *)
Definition is_cmac_bytes (d : desc) : bool :=
  (d C_hash_alg =? IMB_AUTH_AES_CMAC) || (d C_hash_alg =? IMB_AUTH_AES_CMAC_256).

Definition owner_of (d : desc) (c : cell) : owner :=
  match c with
  | C_cipher_mode | C_dir | C_hash_alg | C_key_len | C_enc_keys | C_dec_keys
  | C_suite0 | C_suite1 | C_session_id => OwnSession
  | C_src | C_dst | C_iv | C_tag | C_next_iv | C_u0 | C_u1 => OwnPointer
  | C_u2 => if is_snowv_aead d then OwnLibrary else OwnPointer
  | C_coff | C_hoff => OwnOffset
  | C_chain_order => OwnOrder
  | C_user_data | C_user_data2 => OwnUser
  | C_clen | C_hlen | C_iv_len | C_tag_len | C_cipher_func | C_hash_func | C_sgl_state => OwnUnlisted
  | C_status => OwnLibrary
  end.

Definition caller_owned (d : desc) (c : cell) : bool :=
  match owner_of d c with OwnLibrary | OwnUnlisted => false | _ => true end.

(* The snapshot mask: exactly the cells the library may change.  Everything else (caller-owned
   AND the unlisted lengths) must come back bit-identical. *)
Definition masked (d : desc) (c : cell) : bool :=
  match c with
  | C_status => true
  | C_hlen => is_cmac_bytes d
  | C_u2 => is_snowv_aead d
  | _ => false
  end.

Definition same_unmasked (dret dsub : desc) : Prop :=
  forall c, masked dsub c = false -> dret c = dsub c.

(* ---- library writes ---- *)
Inductive jwrite :=
| JStatusSet (v : Z)        (* job->status = v *)
| JStatusOr (v : Z)         (* job->status |= v *)
| JCmacBits                 (* case IMB_AUTH_AES_CMAC / _256: msg_len_to_hash_in_bits = ..in_bytes * 8 *)
| JSnowvReserved (p : Z).   (* submit_snow_v_aead_job: u.SNOW_V_AEAD.reserved = hkey_endpad *)

Definition M64 : Z := 2 ^ 64.

Definition apply_jwrite (w : jwrite) (d : desc) : desc :=
  match w with
  | JStatusSet v => dupd C_status v d
  | JStatusOr v => dupd C_status (Z.lor (d C_status) v) d
  | JCmacBits => if is_cmac_bytes d then dupd C_hlen ((d C_hlen * 8) mod M64) d else d
  | JSnowvReserved p => if is_snowv_aead d then dupd C_u2 p d else d
  end.

Definition apply_jwrites (ws : list jwrite) (d : desc) : desc := fold_left (fun d w => apply_jwrite w d) ws d.

(* ---- status protocol (status_composition) ----
   The pipeline (submit_new_job / RESUBMIT_JOB / complete_job) touches a job's status only while
   it is below IMB_STATUS_COMPLETED: each stage ORs its own completion bit, or an error value is
   assigned; validation assigns INVALID_ARGS or BEING_PROCESSED before any stage runs. *)
Definition or_values : list Z := [IMB_STATUS_COMPLETED_CIPHER; IMB_STATUS_COMPLETED_AUTH; IMB_STATUS_COMPLETED].
Definition set_values : list Z :=
  [IMB_STATUS_BEING_PROCESSED; IMB_STATUS_COMPLETED; IMB_STATUS_INVALID_ARGS; IMB_STATUS_INTERNAL_ERROR; IMB_STATUS_ERROR].
Definition memZ (z : Z) (l : list Z) : bool := existsb (Z.eqb z) l.

Definition status_write_ok (cur : Z) (w : jwrite) : bool :=
  match w with
  | JStatusOr v => (cur <? IMB_STATUS_COMPLETED) && memZ v or_values
  | JStatusSet v => memZ v set_values
  | _ => true
  end.
Definition status_after (cur : Z) (w : jwrite) : Z :=
  match w with JStatusOr v => Z.lor cur v | JStatusSet v => v | _ => cur end.

Fixpoint status_run (cur : Z) (ws : list jwrite) : option Z :=
  match ws with
  | [] => Some cur
  | w :: t => if status_write_ok cur w then status_run (status_after cur w) t else None
  end.

Definition final_statuses : list Z :=
  [IMB_STATUS_COMPLETED; IMB_STATUS_INVALID_ARGS; IMB_STATUS_INTERNAL_ERROR; IMB_STATUS_ERROR].
Definition all_statuses : list Z := map snd all_IMB_STATUS.

(* ---- descriptors riding on the ring model ----
   The ring model (Mgr/Ring.v) carries an opaque payload [cont] per slot that the caller writes when
   it submits the slot.  Here the payload is a ghost sequence number into [jlog], the list of all
   descriptors the caller ever submitted, and [jds] is the descriptor memory of the ring slots.
   As in Ring.v, the caller's writes into a slot are modelled at the (accepted) submit call that
   hands the slot to the library; the caller contract "write only slots offered by
   GET_NEXT_JOB/GET_NEXT_BURST" together with C05 next_slot_not_pending (offered slots are never
   pending) is what makes that faithful.  During a call the library performs arbitrary [jwrite]s
   on arbitrary slots (oracle [jc_lib]); nothing else touches descriptor memory. *)
Record jstate := mkjs {
  jring : st;
  jds : Z -> desc;          (* slot offset -> descriptor in the slot *)
  jn : Z;                   (* next ghost sequence number *)
  jlog : list desc          (* every descriptor submitted so far, index = sequence number *)
}.

Record jcall := mkjc {
  jc_op : op;                  (* the ring call; the ids inside are replaced by ghost numbers *)
  jc_descs : list desc;        (* descriptor(s) in the submitted slot(s): 1 for Submit, n for SubmitBurst *)
  jc_lib : list (Z * jwrite)   (* library writes during the call: (slot, write) *)
}.

Fixpoint renum (js : list bjob) (n : Z) : list bjob :=
  match js with
  | [] => []
  | b :: t => mkbjob (bj_ptr b) (bj_verdict b) (bj_suite_ok b) n :: renum t (n + 1)
  end.

(* the ring operation with ghost sequence numbers as payload *)
Definition op_with_ids (o : op) (n : Z) : op :=
  match o with
  | Submit c v _ D => Submit c v n D
  | SubmitBurst c k (Some js) D D2 => SubmitBurst c k (Some (renum js n)) D D2
  | o => o
  end.

(* how many descriptors the call carries *)
Definition ndescs (o : op) : nat :=
  match o with
  | Submit _ _ _ _ => 1%nat
  | SubmitBurst _ _ (Some js) _ _ => length js
  | _ => 0%nat
  end.

Definition jc_wf (jc : jcall) : bool := Nat.eqb (length (jc_descs jc)) (ndescs (jc_op jc)).

Definition ds_upd (o : Z) (d : desc) (ds : Z -> desc) : Z -> desc := fun z => if z =? o then d else ds z.

Section JobRing.
Variable SZ NJ MAXB : Z.

(* the caller's descriptors land in consecutive ring slots from next_job (same walk as burst_fill) *)
Fixpoint ds_fill (descs : list desc) (o : Z) (ds : Z -> desc) : Z -> desc :=
  match descs with
  | [] => ds
  | d :: t => ds_fill t (adv SZ NJ o) (ds_upd o d ds)
  end.

Definition accepts (o : op) (r : out) : bool :=
  match o, r with
  | Submit _ _ _ _, _ => true
  | SubmitBurst _ _ (Some _) _ _, OJobs _ _ => true
  | _, _ => false
  end.

Definition ds_lib (ws : list (Z * jwrite)) (ds : Z -> desc) : Z -> desc :=
  fold_left (fun ds w => ds_upd (fst w) (apply_jwrite (snd w) (ds (fst w))) ds) ws ds.

(* a job handed back: slot, ghost number, status as the ring model has it, and the descriptor
   memory of the slot at the moment of the hand-back *)
Definition jret := (Z * Z * Z * desc)%type.

Definition jstep (j : jstate) (jc : jcall) : jstate * out * list jret :=
  let o := op_with_ids (jc_op jc) (jn j) in
  let '(s', r) := step SZ NJ MAXB (jring j) o in
  let ds1 := if accepts o r then ds_fill (jc_descs jc) (next (jring j)) (jds j) else jds j in
  let ds2 := ds_lib (jc_lib jc) ds1 in
  let rets := map (fun v : Z * Z * Z => (v, ds2 (fst (fst v)))) (match r with OJob (Some x) => [x] | OJobs _ l => l | _ => [] end) in
  (mkjs s' ds2 (jn j + Z.of_nat (length (jc_descs jc))) (jlog j ++ jc_descs jc), r, rets).

Fixpoint jrun (j : jstate) (jcs : list jcall) : jstate * list (op * out) * list jret :=
  match jcs with
  | [] => (j, [], [])
  | jc :: t =>
      let '(j1, r, rets) := jstep j jc in
      let '(j2, tr, rets2) := jrun j1 t in
      (j2, (op_with_ids (jc_op jc) (jn j), r) :: tr, rets ++ rets2)
  end.

(* the ring history underlying a descriptor history *)
Fixpoint ops_of (n : Z) (jcs : list jcall) : list op :=
  match jcs with
  | [] => []
  | jc :: t => op_with_ids (jc_op jc) n :: ops_of (n + Z.of_nat (length (jc_descs jc))) t
  end.

End JobRing.
