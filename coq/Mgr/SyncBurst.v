(* Mgr/SyncBurst.v — the synchronous burst loops of lib/include/mb_mgr_burst.h and the n-buffer
   direct calls, over the generic lane scheduler of Mgr/Ooo.v.  Definitions only; proofs are in
   Proofs/SyncBurstProofs.v.

   1. Synchronous bursts (submit_aes_cbc_burst_enc, submit_aes_cfb_burst_enc, submit_burst_hmac_sha_x,
      submit_burst_sha_x, submit_aes_cmac_burst, submit_aes_ccm_burst):

          for (i = 0; i < n_jobs; i++) {
                  job = SUBMIT_JOB_xxx(ooo, &jobs[i]);
                  if (job != NULL) { job->status = IMB_STATUS_COMPLETED; completed_jobs++; }
          }
          if (completed_jobs != n_jobs)
                  while ((job = FLUSH_JOB_xxx(ooo)) != NULL) { job->status = ...; completed_jobs++; }
          return completed_jobs;

      [submit_all] is the first loop, [flush_all] the second (the while loop gets a fuel argument;
      SyncBurstProofs shows L iterations always reach the NULL that ends it), [sync_burst] the
      whole function.  The value returned to the caller is the length of the collected list; a job
      is marked COMPLETED exactly when it is in that list.

   2. n-buffer direct calls (zuc_eea3_n_buffer_*, zuc_eia3_n_buffer_*, SNOW3G_F8_N_BUFFER,
      SNOW3G_F8_N_BUFFER_MULTIKEY, kasumi_f8_n_buffer): the buffer list (possibly re-ordered by
      decreasing length first) is cut into groups that a g-lane kernel processes together.
      The g-lane kernels (_zuc_eea3_8_buffer_avx2, SNOW3G_F8_4_BUFFER, ...) accept unequal lengths:
      all lanes advance together for the minimum length of the group, then every lane finishes its
      own remainder.  Two group-splitting skeletons occur:
        - [nbuffer_padded]  groups of exactly g, the last group padded with copies of its last
                            buffer whose results are dropped (job-API flush, ZUC x16 with
                            "numBuffers < 16" padding);
        - [nbuffer_greedy]  for each size g of a descending list (16, 8, 4, 2) take full groups
                            while at least g buffers remain; what is left goes through the
                            1-buffer function one by one.
      The lane kernel is abstract as in Mgr/Ooo.v: [init b] is the state loaded for buffer b,
      [step s n] processes n units on one lane. *)
From Coq Require Import ZArith List Bool.
From IMB Require Import Mgr.Ooo.
Import ListNotations.
Local Open Scope Z_scope.

Section SyncBurst.
Variable J : Type.
Variable St : Type.
Variable init : J -> St.
Variable units : J -> Z.
Variable step : St -> Z -> St.
Variable L : nat.

Notation ooo := (ooo J St).

(* first loop: submit every job of the burst, collect what the manager hands back *)
Fixpoint submit_all (o : ooo) (js : list J) : ooo * list (J * St) :=
  match js with
  | [] => (o, [])
  | j :: t =>
      let '(o1, r) := submit J St init units step L o j in
      let '(o2, rs) := submit_all o1 t in
      (o2, match r with Some x => x :: rs | None => rs end)
  end.

(* second loop: while ((job = FLUSH(ooo)) != NULL) ...; at most [fuel] iterations *)
Fixpoint flush_all (fuel : nat) (o : ooo) : ooo * list (J * St) :=
  match fuel with
  | O => (o, [])
  | S k =>
      match flush J St step L o with
      | (o1, None) => (o1, [])
      | (o1, Some x) => let '(o2, rs) := flush_all k o1 in (o2, x :: rs)
      end
  end.

(* the whole synchronous burst; the flush loop is skipped when every job already came back *)
Definition sync_burst (o : ooo) (js : list J) : ooo * list (J * St) :=
  let '(o1, r1) := submit_all o js in
  if Nat.eqb (length r1) (length js) then (o1, r1)
  else let '(o2, r2) := flush_all L o1 in (o2, r1 ++ r2).

(* number of jobs reported as completed = return value of SUBMIT_*_BURST *)
Definition sync_burst_count (o : ooo) (js : list J) : nat := length (snd (sync_burst o js)).

(* jobs sitting in lanes 0..L-1 *)
Definition lane_jobs (jb : nat -> option J) (l : nat) : list J :=
  match jb l with Some j => [j] | None => [] end.
Definition inflight (o : ooo) : list J := flat_map (lane_jobs (job o)) (seq 0 L).

(* the same run written as one operation list for Ooo.orun *)
Definition sync_ops (js : list J) (nflush : nat) : list (oop J) :=
  map (@OSubmit J) js ++ repeat (@OFlush J) nflush.

Fixpoint somes {A} (l : list (option A)) : list A :=
  match l with
  | [] => []
  | Some x :: t => x :: somes t
  | None :: t => somes t
  end.
End SyncBurst.

Arguments somes {A} _.

(* ---------------------------------------------------------------------------------------- *)
Section NBuffer.
Variable B : Type.            (* one buffer: key, IV, source, length *)
Variable St : Type.           (* lane state = everything the call leaves behind for that buffer *)
Variable init : B -> St.
Variable units : B -> Z.      (* length of the buffer in the kernel's unit *)
Variable step : St -> Z -> St.

(* the 1-buffer function *)
Definition one_buffer (b : B) : St := step (init b) (units b).

Definition list_min (l : list Z) : Z :=
  match l with
  | [] => 0
  | x :: t => fold_left Z.min t x
  end.

(* g-lane kernel on unequal lengths: the common minimum on all lanes, then each lane alone *)
Definition lanes_kernel (bs : list B) : list St :=
  let m := list_min (map units bs) in
  map (fun b => step (step (init b) m) (units b - m)) bs.

(* a group of at most g buffers on a g-lane kernel: idle lanes get a copy of the last buffer,
   their results are dropped *)
Definition padded_group (g : nat) (bs : list B) : list St :=
  match bs with
  | [] => []
  | b0 :: _ =>
      firstn (length bs) (lanes_kernel (bs ++ repeat (last bs b0) (g - length bs)))
  end.

Fixpoint chunks_aux (fuel g : nat) (bs : list B) : list (list B) :=
  match fuel with
  | O => []
  | S k =>
      match bs with
      | [] => []
      | _ :: _ => firstn g bs :: chunks_aux k g (skipn g bs)
      end
  end.
Definition chunks (g : nat) (bs : list B) : list (list B) := chunks_aux (length bs) g bs.

(* skeleton 1: groups of the lane count, last group padded *)
Definition nbuffer_padded (g : nat) (bs : list B) : list St :=
  flat_map (padded_group g) (chunks g bs).

(* skeleton 2: full groups of descending sizes, remainder one by one *)
Fixpoint take_groups (fuel g : nat) (bs : list B) : list (list B) * list B :=
  match fuel with
  | O => ([], bs)
  | S k =>
      if Nat.leb g (length bs)
      then let '(gs, rest) := take_groups k g (skipn g bs) in (firstn g bs :: gs, rest)
      else ([], bs)
  end.

Fixpoint greedy_groups (sizes : list nat) (bs : list B) : list (list B) :=
  match sizes with
  | [] => map (fun b => [b]) bs
  | g :: t =>
      let '(gs, rest) := take_groups (length bs) g bs in gs ++ greedy_groups t rest
  end.

Definition nbuffer_greedy (sizes : list nat) (bs : list B) : list St :=
  flat_map lanes_kernel (greedy_groups sizes bs).

(* SNOW3G/KASUMI N_BUFFER first re-order the buffers (decreasing length); each result is stored
   through the buffer's own output pointer, so the outcome is the association buffer -> state *)
Definition nbuffer_sorted (sizes : list nat) (sorted : list B) : list (B * St) :=
  combine sorted (nbuffer_greedy sizes sorted).
End NBuffer.
