(* Mgr/Validate.v -- hand-written DECLARATIVE catalogue of the documented job constraints.
   Definitions only (proofs are in Proofs/ValidateProofs.v).

   Per cipher mode and per hash algorithm: a list of named constraints over [job_view], each mapped
   to the IMB_ERR that names it.  The catalogue is independent of the control flow of
   is_job_invalid(): no ordering, no early exits, no fall-through; a job is acceptable iff ALL
   constraints of (common ++ its cipher mode ++ its hash algorithm) hold.

   Sources (tags used in the comments below)
     [H]  lib/intel-ipsec-mb.h: doxygen of IMB_JOB and its members, algorithm constants
          (IMB_*_SIZE, IMB_GCM_MAX_LEN with its NIST reference, IMB_CHACHA20_POLY1305_MAX_LEN,
          IMB_CCM_AAD_MAX_SIZE, ZUC/KASUMI/SNOW3G IV and digest sizes), IMB_ERR names
     [E]  lib/x86_64/error.c: the text attached to every IMB_ERR (what each code means)
     [R]  README.md: Table 1/2 (supported algorithms and key sizes), Table 3 (allowed
          cipher/integrity combinations), CAVP parameter table
     [C]  the explanatory comments in lib/include/mb_mgr_job_check.h (RFC 3610 nonce/tag rules,
          PON and DOCSIS framing assumptions, CMAC tag sizes) -- comments, not the if-chains
     [T]  test/kat-app/api_test.c: the project's own negative API tests and their comments
          ("max is 8188 bytes", "skip ciphers that allow msg length 0", ...)
     [code] the documentation is silent or self-contradictory and the if-chain was read to settle
          the question; every such place is listed in Mgr/C12_NOTES.md. *)
From Coq Require Import NArith List Bool String.
From IMB Require Import Lib.Bytes Gen.GenEnums Mgr.JobView Gen.GenValidate.
Import ListNotations.
Local Open Scope N_scope.
Local Open Scope bool_scope.

(* ---- documented member names of the hash-specific union (storage words u0,u1,u2) ---- *)
Notation hmac_ipad := jv_u0 (only parsing).        (* u.HMAC._hashed_auth_key_xor_ipad *)
Notation hmac_opad := jv_u1 (only parsing).        (* u.HMAC._hashed_auth_key_xor_opad *)
Notation xcbc_k1_expanded := jv_u0 (only parsing).
Notation xcbc_k2 := jv_u1 (only parsing).
Notation xcbc_k3 := jv_u2 (only parsing).
Notation aead_aad := jv_u0 (only parsing).         (* u.{CCM,GCM,CHACHA20_POLY1305,SNOW_V_AEAD}.aad *)
Notation aead_aad_len := jv_u1 (only parsing).     (* ... .aad_len_in_bytes *)
Notation sgl_ctx := jv_u2 (only parsing).          (* u.{GCM,CHACHA20_POLY1305}.ctx *)
Notation cmac_key_expanded := jv_u0 (only parsing).
Notation cmac_skey1 := jv_u1 (only parsing).
Notation cmac_skey2 := jv_u2 (only parsing).
Notation auth_key := jv_u0 (only parsing).         (* u.{ZUC_EIA3,SNOW3G_UIA2,KASUMI_UIA1,GMAC,GHASH,POLY1305}._key *)
Notation auth_iv := jv_u1 (only parsing).          (* u.{ZUC_EIA3,SNOW3G_UIA2,GMAC}._iv *)
Notation zuc_iv23 := jv_u2 (only parsing).         (* u.ZUC_EIA3._iv23 *)
Notation gmac_iv_len := jv_u2 (only parsing).      (* u.GMAC.iv_len_in_bytes *)
Notation ghash_init_tag := jv_u1 (only parsing).   (* u.GHASH._init_tag *)

(* ---- constraint language ---- *)
Inductive cond : Type :=
| NonNull (f : job_view -> N)                      (* pointer field is not NULL *)
| ValIn (f : job_view -> N) (vs : list N)          (* field value is one of vs *)
| ValBetween (f : job_view -> N) (lo hi : N)       (* lo <= field <= hi *)
| ValAtLeast (f : job_view -> N) (lo : N)          (* lo <= field, no upper limit *)
| MultipleOf (f : job_view -> N) (n : N)           (* field is a multiple of n *)
| SameAs (f g : job_view -> N)                     (* two fields are equal *)
| Neg (c : cond)
| Both (a b : cond)
| Either (a b : cond)
| When (guard c : cond)                            (* guard -> c *)
| PonInPlace          (* dst = src + cipher_start_src_offset_in_bytes (address arithmetic) *)
| PonPliFits          (* XGEM payload length indication vs payload length *)
| DocsisLenFits       (* msg_len_to_cipher + 8 <= msg_len_to_hash *)
| DocsisOffsetFits    (* cipher offset >= hash offset + 12 *)
| SglArrayNonNull     (* num_sgl_io_segs > 0 -> sgl_io_segs != NULL *)
| SglSegInNonNull     (* every segment with len != 0 has in  != NULL *)
| SglSegOutNonNull    (* every segment with len != 0 has out != NULL *)
| SglTotalAtMost (m : N).   (* sum of the segment lengths <= m *)

(* XGEM header: 8 bytes in network byte order at src + hash_start_src_offset_in_bytes; the PLI is
   its 14 most significant bits.  [jv_mem_xgem_hdr] is the little-endian load of those 8 bytes,
   so the big-endian value is its byte swap.  (A 14-bit field: the 16-bit mask is the identity.) *)
Definition pon_pli (j : job_view) : N := w16 (N.shiftr (bswap64 (jv_mem_xgem_hdr j)) 50).

Definition pon_payload_len (j : job_view) : N :=
  if jv_msg_len_to_cipher j =? 0 then jv_msg_len_to_hash j - 8 else jv_msg_len_to_cipher j.

Definition seg_in_ok (s : sgl_seg) : bool := (seg_len s =? 0) || negb (seg_in s =? 0).
Definition seg_out_ok (s : sgl_seg) : bool := (seg_len s =? 0) || negb (seg_out s =? 0).
Definition sgl_total (segs : list sgl_seg) : N := fold_right (fun s acc => seg_len s + acc) 0 segs.

Fixpoint holds (c : cond) (j : job_view) : bool :=
  match c with
  | NonNull f => negb (f j =? 0)
  | ValIn f vs => existsb (N.eqb (f j)) vs
  | ValBetween f lo hi => (lo <=? f j) && (f j <=? hi)
  | ValAtLeast f lo => lo <=? f j
  | MultipleOf f n => (f j) mod n =? 0
  | SameAs f g => f j =? g j
  | Neg a => negb (holds a j)
  | Both a b => holds a j && holds b j
  | Either a b => holds a j || holds b j
  | When g a => negb (holds g j) || holds a j
  | PonInPlace => jv_dst j =? add64 (jv_src j) (jv_cipher_start_src_offset j)
  | PonPliFits =>
      (* [C] "CRC only if PLI is more than 4 bytes"; the CRC covers PLI-4 bytes of the payload that
         follows the XGEM header and is followed by the 4 CRC bytes; the payload is the ciphered
         range or, when nothing is ciphered, the hashed range less the 8-byte header
         (commit f74b8e1 "PON jobs without ciphering were accepted with a PLI larger than the frame") *)
      (pon_pli j <=? 4) || ((4 <=? pon_payload_len j) && (pon_pli j - 4 <=? pon_payload_len j - 4))
  | DocsisLenFits => jv_msg_len_to_cipher j + 8 <=? jv_msg_len_to_hash j
  | DocsisOffsetFits => jv_hash_start_src_offset j + 12 <=? jv_cipher_start_src_offset j
  | SglArrayNonNull => (jv_num_sgl_io_segs j =? 0) || negb (jv_sgl_io_segs j =? 0)
  | SglSegInNonNull => forallb seg_in_ok (jv_sgl_segs j)
  | SglSegOutNonNull => forallb seg_out_ok (jv_sgl_segs j)
  | SglTotalAtMost m => sgl_total (jv_sgl_segs j) <=? m
  end.

Record rule := mk_rule { r_name : string; r_cond : cond; r_err : N }.
Notation "n ::: c ==> e" := (mk_rule n c e) (at level 70, c at next level, no associativity).

Definition rules_ok (rs : list rule) (j : job_view) : bool := forallb (fun r => holds (r_cond r) j) rs.
Definition violations_of (rs : list rule) (j : job_view) : list N :=
  flat_map (fun r => if holds (r_cond r) j then [] else [r_err r]) rs.
Definition violated_with (e : N) (rs : list rule) (j : job_view) : bool :=
  existsb (fun r => (r_err r =? e) && negb (holds (r_cond r) j)) rs.

(* ---- vocabulary used by the catalogue (documented names) ---- *)
Local Open Scope string_scope.
Definition KeyLenIn vs := ValIn jv_key_len_in_bytes vs.
Definition IvLenIn vs := ValIn jv_iv_len_in_bytes vs.
Definition IvLenBetween lo hi := ValBetween jv_iv_len_in_bytes lo hi.
Definition TagLenIn vs := ValIn jv_auth_tag_output_len vs.
Definition TagLenBetween lo hi := ValBetween jv_auth_tag_output_len lo hi.
Definition CipherLenBetween lo hi := ValBetween jv_msg_len_to_cipher lo hi.
Definition CipherLenMultipleOf n := MultipleOf jv_msg_len_to_cipher n.
Definition HashLenBetween lo hi := ValBetween jv_msg_len_to_hash lo hi.
Definition PairedWithHash h := ValIn jv_hash_alg [h].
Definition PairedWithCipher c := ValIn jv_cipher_mode [c].
Definition ChainOrderIs o := ValIn jv_chain_order [o].
Definition SglStateIn vs := ValIn jv_sgl_state vs.
Definition Encrypting := ValIn jv_cipher_direction [IMB_DIR_ENCRYPT].
Definition Decrypting := ValIn jv_cipher_direction [IMB_DIR_DECRYPT].
Definition CipherLenNonZero := Neg (ValIn jv_msg_len_to_cipher [0]).
Definition HashLenNonZero := Neg (ValIn jv_msg_len_to_hash [0]).
Definition HasAad := Neg (ValIn aead_aad_len [0]).

Definition MB_MAX_LEN16 : N := 65534.   (* [T] "most MB max len is 2^16 - 2" *)

(* reusable groups *)
Definition r_src := "src != NULL" ::: NonNull jv_src ==> IMB_ERR_JOB_NULL_SRC.
Definition r_dst := "dst != NULL" ::: NonNull jv_dst ==> IMB_ERR_JOB_NULL_DST.
Definition r_iv := "iv != NULL" ::: NonNull jv_iv ==> IMB_ERR_JOB_NULL_IV.
Definition r_src_if_len := "src != NULL when there is data to cipher" ::: When CipherLenNonZero (NonNull jv_src) ==> IMB_ERR_JOB_NULL_SRC.
Definition r_dst_if_len := "dst != NULL when there is data to cipher" ::: When CipherLenNonZero (NonNull jv_dst) ==> IMB_ERR_JOB_NULL_DST.
Definition r_enc_keys := "enc_keys != NULL" ::: NonNull jv_enc_keys ==> IMB_ERR_JOB_NULL_KEY.
(* [H] "For AES, enc_keys and dec_keys are expected to point to expanded keys structure" *)
Definition r_enc_keys_if_enc := "enc_keys != NULL when encrypting" ::: When Encrypting (NonNull jv_enc_keys) ==> IMB_ERR_JOB_NULL_KEY.
Definition r_dec_keys_if_dec := "dec_keys != NULL when decrypting" ::: When Decrypting (NonNull jv_dec_keys) ==> IMB_ERR_JOB_NULL_KEY.
Definition r_key_len vs := "key length supported" ::: KeyLenIn vs ==> IMB_ERR_JOB_KEY_LEN.
Definition r_iv_len vs := "IV length supported" ::: IvLenIn vs ==> IMB_ERR_JOB_IV_LEN.
Definition r_cipher_len_min lo := "cipher length not below the minimum" ::: ValAtLeast jv_msg_len_to_cipher lo ==> IMB_ERR_JOB_CIPH_LEN.
Definition r_cipher_len lo hi := "cipher length in range" ::: CipherLenBetween lo hi ==> IMB_ERR_JOB_CIPH_LEN.
Definition r_cipher_len_mult n := "cipher length block aligned" ::: CipherLenMultipleOf n ==> IMB_ERR_JOB_CIPH_LEN.
Definition r_pair_hash h := "cipher mode paired with its hash algorithm" ::: PairedWithHash h ==> IMB_ERR_HASH_ALGO.
Definition r_pair_cipher c := "hash algorithm paired with its cipher mode" ::: PairedWithCipher c ==> IMB_ERR_CIPH_MODE.
Definition r_tag := "auth_tag_output != NULL" ::: NonNull jv_auth_tag_output ==> IMB_ERR_JOB_NULL_AUTH.
Definition r_tag_len vs := "tag length supported" ::: TagLenIn vs ==> IMB_ERR_JOB_AUTH_TAG_LEN.
Definition r_tag_len_between lo hi := "tag length in range" ::: TagLenBetween lo hi ==> IMB_ERR_JOB_AUTH_TAG_LEN.
Definition r_hash_len lo hi := "hash length in range" ::: HashLenBetween lo hi ==> IMB_ERR_JOB_AUTH_LEN.
Definition r_hash_src := "src != NULL" ::: NonNull jv_src ==> IMB_ERR_JOB_NULL_SRC.
Definition r_hash_src_if_len := "src != NULL when there is data to hash" ::: When HashLenNonZero (NonNull jv_src) ==> IMB_ERR_JOB_NULL_SRC.
Definition r_aad := "aad != NULL when aad_len > 0" ::: When HasAad (NonNull aead_aad) ==> IMB_ERR_JOB_NULL_AAD.

(* SGL: [H] IMB_SGL_STATE, struct IMB_SGL_IOV, "Pointer to array of input/output SGL segments",
   "Number of input/output SGL segments"; limits as for the one-shot mode *)
Definition SglPerSegment := SglStateIn [IMB_SGL_INIT; IMB_SGL_UPDATE; IMB_SGL_COMPLETE].
Definition SglAll := SglStateIn [IMB_SGL_ALL].
Definition sgl_rules (max_len : N) : list rule :=
  [ "SGL state is one of INIT/UPDATE/COMPLETE/ALL" :::
      SglStateIn [IMB_SGL_INIT; IMB_SGL_UPDATE; IMB_SGL_COMPLETE; IMB_SGL_ALL] ==> IMB_ERR_JOB_SGL_STATE;
    "segment length within the algorithm limit" :::
      When SglPerSegment (CipherLenBetween 0 max_len) ==> IMB_ERR_JOB_CIPH_LEN;
    "src != NULL for a non-empty segment" :::
      When (Both SglPerSegment CipherLenNonZero) (NonNull jv_src) ==> IMB_ERR_JOB_NULL_SRC;
    "dst != NULL for a non-empty segment" :::
      When (Both SglPerSegment CipherLenNonZero) (NonNull jv_dst) ==> IMB_ERR_JOB_NULL_DST;
    "segment array != NULL when there are segments" ::: When SglAll SglArrayNonNull ==> IMB_ERR_JOB_NULL_SRC;
    "every non-empty segment has an input buffer" ::: When SglAll SglSegInNonNull ==> IMB_ERR_JOB_NULL_SRC;
    "every non-empty segment has an output buffer" ::: When SglAll SglSegOutNonNull ==> IMB_ERR_JOB_NULL_DST;
    "total message length within the algorithm limit" ::: When SglAll (SglTotalAtMost max_len) ==> IMB_ERR_JOB_CIPH_LEN ].

(* ======================================================================================= *)
(*                                     CIPHER MODES                                        *)
(* ======================================================================================= *)

(* AES-CBC  [R T1: AES128/192/256-CBC] [H: block size 16] [T: len 0 invalid; "most MB max len is
   2^16-2"]; [code]: the 65534 limit applies to the multi-buffer ENCRYPT path only *)
Definition rules_CBC : list rule :=
  [ r_src; r_dst; r_iv; r_enc_keys_if_enc; r_dec_keys_if_dec; r_key_len [16; 24; 32];
    r_cipher_len_min 1; r_cipher_len_mult 16;
    "encrypt length within multi-buffer limit" ::: When Encrypting (CipherLenBetween 0 MB_MAX_LEN16) ==> IMB_ERR_JOB_CIPH_LEN;
    r_iv_len [16] ].

(* AES-CBCS 1:9  [R T1: "AES128-CBCS" only; ReleaseNotes "AES-CBCS-128"] [T: "max is 2^60 bytes";
   next_iv NULL -> IMB_ERR_JOB_NULL_NEXT_IV]; [code]: the exact bound is 2^60 - 1 *)
Definition rules_CBCS_1_9 : list rule :=
  [ r_src; r_dst; r_iv; r_enc_keys_if_enc; r_dec_keys_if_dec; r_key_len [16];
    r_cipher_len 1 1152921504606846975; r_cipher_len_mult 16;
    "next_iv != NULL" ::: NonNull jv_next_iv ==> IMB_ERR_JOB_NULL_NEXT_IV;
    r_iv_len [16] ].

(* AES-ECB [R T1]; [code]: [H] says "AES-CTR, AES-ECB and AES-CCM, only enc_keys is used" but ECB
   decryption needs (and the library uses) the decrypt schedule -- see C12_NOTES D5 *)
Definition rules_ECB : list rule :=
  [ r_src; r_dst; r_enc_keys_if_enc; r_dec_keys_if_dec; r_key_len [16; 24; 32];
    r_cipher_len 1 MB_MAX_LEN16; r_cipher_len_mult 16 ].

(* AES-CTR [H: "only enc_keys is used"] [R T1] [T: no max, 0 invalid]; IV 12 (nonce||IV, counter
   appended by the library) or full 16-byte counter block *)
Definition rules_CNTR : list rule :=
  [ r_src; r_dst; r_iv; r_enc_keys; r_key_len [16; 24; 32]; r_iv_len [12; 16]; r_cipher_len_min 1 ].
(* 128-EEA2: bit length, full 16-byte counter block only *)
Definition rules_CNTR_BITLEN : list rule :=
  [ r_src; r_dst; r_iv; r_enc_keys; r_key_len [16; 24; 32]; r_iv_len [16]; r_cipher_len_min 1 ].

(* NULL cipher: "No checks required for this mode" [C] *)
Definition rules_NULL : list rule := [].

(* DOCSIS SEC BPI [H: "DOCSIS (AES-CBC + AES-CFB), both pointers are used; enc_keys has to be set
   always for the partial block"] [R T1: AES128/256-DOCSIS] [T: length 0 allowed] *)
Definition rules_DOCSIS_SEC_BPI : list rule :=
  [ r_src; r_dst; r_iv; r_enc_keys; r_dec_keys_if_dec; r_key_len [16; 32]; r_iv_len [16];
    r_cipher_len 0 MB_MAX_LEN16 ].

(* AES-GCM [H: IMB_GCM_MAX_LEN, "NIST SP 800-38-D, section 5.2.1.1"] [R T3: GCM <-> GMAC]
   [R CAVP: ivLen min 8 bits] [T: length 0 allowed, no src/dst needed then] *)
Definition rules_GCM : list rule :=
  [ r_cipher_len 0 IMB_GCM_MAX_LEN; r_src_if_len; r_dst_if_len; r_iv; r_enc_keys_if_enc; r_dec_keys_if_dec;
    r_key_len [16; 24; 32];
    "IV length non-zero" ::: ValAtLeast jv_iv_len_in_bytes 1 ==> IMB_ERR_JOB_IV_LEN;
    r_pair_hash IMB_AUTH_AES_GMAC ].
Definition rules_GCM_SGL : list rule :=
  [ r_pair_hash IMB_AUTH_GCM_SGL; r_enc_keys_if_enc; r_dec_keys_if_dec; r_key_len [16; 24; 32]; r_iv;
    "IV length non-zero" ::: ValAtLeast jv_iv_len_in_bytes 1 ==> IMB_ERR_JOB_IV_LEN ] ++ sgl_rules IMB_GCM_MAX_LEN.
(* SM4-GCM [R T1/T3]; 96-bit IV only *)
Definition rules_SM4_GCM : list rule :=
  [ r_cipher_len 0 IMB_GCM_MAX_LEN; r_src_if_len; r_dst_if_len; r_iv; r_iv_len [12];
    r_enc_keys_if_enc; r_dec_keys_if_dec; r_key_len [16]; r_pair_hash IMB_AUTH_SM4_GCM ].

(* custom cipher: the callback must be there; error is the errno.h EFAULT [code] *)
Definition rules_CUSTOM : list rule :=
  [ "cipher_func != NULL" ::: NonNull jv_cipher_func ==> errno_EFAULT ].

(* DES / DOCSIS-DES / 3DES [H: IMB_DES_BLOCK_SIZE 8, "For 3DES, enc_keys and dec_keys are expected
   to point to an array of 3 pointers for the corresponding 3 key schedules"] [R T1] *)
Definition rules_DES : list rule :=
  [ r_src; r_dst; r_iv; r_enc_keys_if_enc; r_dec_keys_if_dec; r_key_len [8];
    r_cipher_len 1 MB_MAX_LEN16; r_cipher_len_mult 8; r_iv_len [8] ].
Definition rules_DOCSIS_DES : list rule :=
  [ r_src; r_dst; r_iv; r_enc_keys_if_enc; r_dec_keys_if_dec; r_key_len [8];
    r_cipher_len 1 MB_MAX_LEN16; r_iv_len [8] ].
Definition rules_DES3 : list rule :=
  [ r_src; r_dst; r_iv; r_key_len [24]; r_cipher_len 1 MB_MAX_LEN16; r_cipher_len_mult 8; r_iv_len [8];
    r_enc_keys_if_enc; r_dec_keys_if_dec;
    "all three encrypt key schedules present" :::
      When (Both Encrypting (NonNull jv_enc_keys)) (Both (NonNull jv_enc_ks0) (Both (NonNull jv_enc_ks1) (NonNull jv_enc_ks2)))
      ==> IMB_ERR_JOB_NULL_KEY;
    "all three decrypt key schedules present" :::
      When (Both Decrypting (NonNull jv_dec_keys)) (Both (NonNull jv_dec_ks0) (Both (NonNull jv_dec_ks1) (NonNull jv_dec_ks2)))
      ==> IMB_ERR_JOB_NULL_KEY ].

(* AES-CCM [H: "AES-CTR, AES-ECB and AES-CCM, only enc_keys is used"] [R T1: AES128/256-CCM, T3]
   [C: RFC 3610 nonce lengths 7..13] *)
Definition rules_CCM : list rule :=
  [ r_src_if_len; r_dst_if_len; r_cipher_len 0 MB_MAX_LEN16; r_iv; r_enc_keys; r_key_len [16; 32];
    "nonce length 7..13 (RFC 3610)" ::: IvLenBetween 7 13 ==> IMB_ERR_JOB_IV_LEN;
    r_pair_hash IMB_AUTH_AES_CCM ].

(* PON AES-CTR [C: "CRC and cipher start offsets ..., msg_len_to_cipher_in_bytes is aligned to 4
   bytes, if msg_len_to_cipher_in_bytes is 0 IV and key pointers are not required", "maximum PLI
   value is 2^14 - 1 + 1 extra byte of padding + 8 bytes of XGEM header"; in-place only]
   [R T1/T3: PON-AES128-CTR <-> PON-CRC-BIP]; the in-place error is errno.h EINVAL [code] *)
Definition rules_PON : list rule :=
  [ r_src; r_dst;
    "in-place: dst = src + cipher offset" ::: PonInPlace ==> errno_EINVAL;
    r_pair_hash IMB_AUTH_PON_CRC_BIP;
    "cipher length multiple of 4" ::: CipherLenMultipleOf 4 ==> IMB_ERR_JOB_CIPH_LEN;
    "cipher length <= 2^14 (max buffer less the XGEM header)" ::: CipherLenBetween 0 16384 ==> IMB_ERR_JOB_CIPH_LEN;
    "AES-128 key when ciphering" ::: When CipherLenNonZero (KeyLenIn [16]) ==> IMB_ERR_JOB_KEY_LEN;
    "16-byte IV when ciphering" ::: When CipherLenNonZero (IvLenIn [16]) ==> IMB_ERR_JOB_IV_LEN;
    "iv != NULL when ciphering" ::: When CipherLenNonZero (NonNull jv_iv) ==> IMB_ERR_JOB_NULL_IV;
    "enc_keys != NULL when ciphering" ::: When CipherLenNonZero (NonNull jv_enc_keys) ==> IMB_ERR_JOB_NULL_KEY;
    "PLI consistent with the payload length (frame holds an XGEM header)" :::
      When (Either (ValAtLeast jv_msg_len_to_cipher 4) (ValAtLeast jv_msg_len_to_hash 8)) PonPliFits ==> IMB_ERR_JOB_PON_PLI ].

(* ZUC-EEA3 [H: IMB_ZUC_KEY_LEN_IN_BYTES 16, IMB_ZUC_IV_LEN_IN_BYTES 16, ZUC256 key 32, IV 23..25]
   [T: "max is 8188 bytes"]; [code]: a 24-byte ZUC-256 IV is not accepted, only 23 or 25 *)
Definition rules_ZUC_EEA3 : list rule :=
  [ r_src; r_dst; r_iv; r_enc_keys; r_key_len [16; 32]; r_cipher_len 1 8188;
    "ZUC-128: 16-byte IV" ::: When (KeyLenIn [16]) (IvLenIn [16]) ==> IMB_ERR_JOB_IV_LEN;
    "ZUC-256: 23- or 25-byte IV" ::: When (KeyLenIn [32]) (IvLenIn [23; 25]) ==> IMB_ERR_JOB_IV_LEN ].
(* SNOW3G-UEA2 [H: IMB_SNOW3G_IV_LEN_IN_BYTES 16] [T: "max is 2^32 bits" (2^32 itself rejected)] *)
Definition rules_SNOW3G_UEA2 : list rule :=
  [ r_src; r_dst; r_iv; r_enc_keys; r_key_len [16]; r_cipher_len 1 4294967295; r_iv_len [16] ].
(* KASUMI-UEA1 [H: IMB_KASUMI_KEY_SIZE 16, IMB_KASUMI_IV_SIZE 8] [T: "max is 20000 bits"] *)
Definition rules_KASUMI_UEA1 : list rule :=
  [ r_src; r_dst; r_iv; r_enc_keys; r_key_len [16]; r_cipher_len 1 20000; r_iv_len [8] ].

(* ChaCha20 [H: IMB_CHACHA20_POLY1305_KEY_SIZE 32, IV_SIZE 12, MAX_LEN "Per RFC 7539, max cipher
   size is (2^32 - 1) x 64"] *)
Definition rules_CHACHA20 : list rule :=
  [ r_src; r_dst; r_iv; r_enc_keys; r_key_len [32]; r_cipher_len 1 IMB_CHACHA20_POLY1305_MAX_LEN; r_iv_len [12] ].
(* ChaCha20-Poly1305 AEAD [R T3: "CHACHA20 AEAD <-> POLY1305 AEAD"] [T: "not allowed with null hash"] *)
Definition rules_CHACHA20_POLY1305 : list rule :=
  [ r_src_if_len; r_dst_if_len; r_iv; r_enc_keys; r_key_len [32];
    r_cipher_len 0 IMB_CHACHA20_POLY1305_MAX_LEN; r_iv_len [12];
    r_pair_hash IMB_AUTH_CHACHA20_POLY1305 ].
Definition rules_CHACHA20_POLY1305_SGL : list rule :=
  [ r_iv; r_iv_len [12]; r_enc_keys; r_key_len [32]; r_pair_hash IMB_AUTH_CHACHA20_POLY1305_SGL ]
  ++ sgl_rules IMB_CHACHA20_POLY1305_MAX_LEN.

(* SNOW-V / SNOW-V AEAD [R T1/T3]: 256-bit key, 128-bit IV *)
Definition rules_SNOW_V : list rule :=
  [ r_src_if_len; r_dst_if_len; r_iv; r_enc_keys; r_key_len [32]; r_iv_len [16] ].
Definition rules_SNOW_V_AEAD : list rule := rules_SNOW_V ++ [ r_pair_hash IMB_AUTH_SNOW_V_AEAD ].

(* SM4 [H: IMB_SM4_BLOCK_SIZE 16, IMB_SM4_KEY_SCHEDULE_ROUNDS] [R T1]: 128-bit key *)
Definition rules_SM4_ECB : list rule :=
  [ r_src; r_dst; r_enc_keys_if_enc; r_dec_keys_if_dec; r_key_len [16]; r_cipher_len_min 1; r_cipher_len_mult 16 ].
Definition rules_SM4_CBC : list rule :=
  [ r_iv_len [16]; r_iv;
    "length within the (future) multi-buffer limit" ::: CipherLenBetween 0 MB_MAX_LEN16 ==> IMB_ERR_JOB_CIPH_LEN ]
  ++ rules_SM4_ECB.
Definition rules_SM4_CNTR : list rule :=
  [ r_src; r_dst; r_iv; r_enc_keys; r_key_len [16]; r_iv_len [12; 16]; r_cipher_len_min 1 ].

(* AES-CFB [R T1: AES128/192/256-CFB] [T: length 0 allowed, no max]; [code]: whole blocks only, and
   the decrypt direction asks for dec_keys *)
Definition rules_CFB : list rule :=
  [ r_src_if_len; r_dst_if_len; r_iv; r_enc_keys_if_enc; r_dec_keys_if_dec; r_key_len [16; 24; 32];
    r_iv_len [16]; r_cipher_len_mult 16 ].

Definition cipher_catalogue : list (N * list rule) :=
  [ (IMB_CIPHER_CBC, rules_CBC); (IMB_CIPHER_CNTR, rules_CNTR); (IMB_CIPHER_NULL, rules_NULL);
    (IMB_CIPHER_DOCSIS_SEC_BPI, rules_DOCSIS_SEC_BPI); (IMB_CIPHER_GCM, rules_GCM);
    (IMB_CIPHER_CUSTOM, rules_CUSTOM); (IMB_CIPHER_DES, rules_DES); (IMB_CIPHER_DOCSIS_DES, rules_DOCSIS_DES);
    (IMB_CIPHER_CCM, rules_CCM); (IMB_CIPHER_DES3, rules_DES3); (IMB_CIPHER_PON_AES_CNTR, rules_PON);
    (IMB_CIPHER_ECB, rules_ECB); (IMB_CIPHER_CNTR_BITLEN, rules_CNTR_BITLEN);
    (IMB_CIPHER_ZUC_EEA3, rules_ZUC_EEA3); (IMB_CIPHER_SNOW3G_UEA2_BITLEN, rules_SNOW3G_UEA2);
    (IMB_CIPHER_KASUMI_UEA1_BITLEN, rules_KASUMI_UEA1); (IMB_CIPHER_CBCS_1_9, rules_CBCS_1_9);
    (IMB_CIPHER_CHACHA20, rules_CHACHA20); (IMB_CIPHER_CHACHA20_POLY1305, rules_CHACHA20_POLY1305);
    (IMB_CIPHER_CHACHA20_POLY1305_SGL, rules_CHACHA20_POLY1305_SGL); (IMB_CIPHER_SNOW_V, rules_SNOW_V);
    (IMB_CIPHER_SNOW_V_AEAD, rules_SNOW_V_AEAD); (IMB_CIPHER_GCM_SGL, rules_GCM_SGL);
    (IMB_CIPHER_SM4_ECB, rules_SM4_ECB); (IMB_CIPHER_SM4_CBC, rules_SM4_CBC); (IMB_CIPHER_CFB, rules_CFB);
    (IMB_CIPHER_SM4_CNTR, rules_SM4_CNTR); (IMB_CIPHER_SM4_GCM, rules_SM4_GCM) ].

(* ======================================================================================= *)
(*                                    HASH ALGORITHMS                                      *)
(* ======================================================================================= *)

(* HMAC [R T2: HMAC-SHA1-96, HMAC-SHA2-224_112, -256_128, -384_192, -512_256, HMAC-MD5-96]
   [H: IMB_SHAxxx_DIGEST_SIZE_IN_BYTES, IMB_MD5_DIGEST_SIZE_IN_BYTES] [E: IPAD/OPAD errors]
   [T: zero length invalid, > 2^16-2 invalid]: truncated (IPsec) or full digest *)
Definition rules_HMAC (trunc full : N) : list rule :=
  [ r_hash_src; r_tag_len [trunc; full]; r_hash_len 1 MB_MAX_LEN16; r_tag;
    "ipad != NULL" ::: NonNull hmac_ipad ==> IMB_ERR_JOB_NULL_HMAC_IPAD;
    "opad != NULL" ::: NonNull hmac_opad ==> IMB_ERR_JOB_NULL_HMAC_OPAD ].
(* AES-XCBC-96 [R T2] [E: K1/K2/K3 errors] *)
Definition rules_XCBC : list rule :=
  [ r_hash_src; r_tag_len [12]; r_tag; r_hash_len 0 MB_MAX_LEN16;
    "k1_expanded != NULL" ::: NonNull xcbc_k1_expanded ==> IMB_ERR_JOB_NULL_XCBC_K1_EXP;
    "k2 != NULL" ::: NonNull xcbc_k2 ==> IMB_ERR_JOB_NULL_XCBC_K2;
    "k3 != NULL" ::: NonNull xcbc_k3 ==> IMB_ERR_JOB_NULL_XCBC_K3 ].
Definition rules_AUTH_NULL : list rule := [].
(* CRC family [R T2 note 7]: 32-bit result slot [code: all CRC tags are 4 bytes]; empty message allowed *)
Definition rules_CRC : list rule := [ r_hash_src_if_len; r_tag; r_tag_len [4] ].
(* AES-GMAC as the GCM tag [R T3] [R CAVP tagLen up to 128 bits]; [code]: any 1..16 *)
Definition rules_AES_GMAC : list rule :=
  [ r_tag_len_between 1 16; r_aad; r_pair_cipher IMB_CIPHER_GCM; r_tag ].
Definition rules_GCM_SGL_HASH : list rule :=
  [ r_pair_cipher IMB_CIPHER_GCM_SGL;
    "SGL context != NULL" ::: NonNull sgl_ctx ==> IMB_ERR_JOB_NULL_SGL_CTX;
    "tag length in range when the tag is produced" :::
      When (SglStateIn [IMB_SGL_COMPLETE; IMB_SGL_ALL]) (TagLenBetween 1 16) ==> IMB_ERR_JOB_AUTH_TAG_LEN;
    "auth_tag_output != NULL when the tag is produced" :::
      When (SglStateIn [IMB_SGL_COMPLETE; IMB_SGL_ALL]) (NonNull jv_auth_tag_output) ==> IMB_ERR_JOB_NULL_AUTH;
    "aad != NULL when aad_len > 0 and the AAD is consumed" :::
      When (Both (SglStateIn [IMB_SGL_INIT; IMB_SGL_ALL]) HasAad) (NonNull aead_aad) ==> IMB_ERR_JOB_NULL_AAD ].
(* stand-alone GMAC [C: "to be used as stand-alone, not combined with GCM"] [T: IV length 0 invalid] *)
Definition rules_GMAC_STANDALONE : list rule :=
  [ r_tag_len_between 1 16; r_tag;
    "not combined with the GCM cipher" ::: Neg (PairedWithCipher IMB_CIPHER_GCM) ==> IMB_ERR_CIPH_MODE;
    "GMAC key != NULL" ::: NonNull auth_key ==> IMB_ERR_JOB_NULL_AUTH_KEY;
    "GMAC IV != NULL" ::: NonNull auth_iv ==> IMB_ERR_JOB_NULL_IV;
    "GMAC IV length non-zero" ::: ValAtLeast gmac_iv_len 1 ==> IMB_ERR_JOB_IV_LEN;
    r_hash_src_if_len ].
Definition rules_GHASH : list rule :=
  [ r_tag_len_between 1 16; r_tag;
    "GHASH key != NULL" ::: NonNull auth_key ==> IMB_ERR_JOB_NULL_AUTH_KEY;
    "initial tag != NULL" ::: NonNull ghash_init_tag ==> IMB_ERR_JOB_NULL_GHASH_INIT_TAG;
    r_hash_src_if_len ].
Definition rules_AUTH_CUSTOM : list rule :=
  [ "hash_func != NULL" ::: NonNull jv_hash_func ==> errno_EFAULT ].
(* AES-CCM [H: IMB_CCM_AAD_MAX_SIZE 46] [C: "M can be any even number from 4 to 16", "AES-CCM allows
   for only one message for cipher and authentication"]; [code]: length mismatch -> CIPH_LEN *)
Definition rules_AES_CCM : list rule :=
  [ r_hash_src_if_len;
    "AAD at most 46 bytes" ::: ValBetween aead_aad_len 0 IMB_CCM_AAD_MAX_SIZE ==> IMB_ERR_JOB_AAD_LEN;
    r_aad;
    "tag length even, 4..16" ::: TagLenIn [4; 6; 8; 10; 12; 14; 16] ==> IMB_ERR_JOB_AUTH_TAG_LEN;
    r_pair_cipher IMB_CIPHER_CCM; r_hash_len 0 MB_MAX_LEN16;
    "one message: cipher length = hash length" ::: SameAs jv_msg_len_to_cipher jv_msg_len_to_hash ==> IMB_ERR_JOB_CIPH_LEN;
    "one message: cipher offset = hash offset" ::: SameAs jv_cipher_start_src_offset jv_hash_start_src_offset ==> IMB_ERR_JOB_SRC_OFFSET;
    r_tag ].
(* AES-CMAC [C: "T is 128 bits but 96 bits is also allowed ... 32 bits for CMAC 3GPP ... ACVP
   validation requires tag size of 8 bits"] [R CAVP macLen 8..128] *)
Definition r_cmac_keys :=
  "expanded key and both subkeys != NULL" :::
    Both (NonNull cmac_key_expanded) (Both (NonNull cmac_skey1) (NonNull cmac_skey2)) ==> IMB_ERR_JOB_NULL_KEY.
Definition rules_CMAC : list rule :=
  [ r_hash_src; r_cmac_keys; r_tag_len_between 1 16; r_tag; r_hash_len 0 MB_MAX_LEN16 ].
Definition rules_CMAC_BITLEN : list rule :=   (* length in BITS [C warning] [T: (2^16-2)*8 is max] *)
  [ r_hash_src; r_cmac_keys; r_tag_len_between 1 16; r_tag; r_hash_len 0 524272 ].
(* plain SHA [H digest sizes] [R CAVP messageLength min 0] *)
Definition rules_SHA (full : N) : list rule :=
  [ r_tag_len [full]; r_hash_src; r_tag; r_hash_len 0 MB_MAX_LEN16 ].
(* PON-CRC-BIP [C: "Authentication tag in PON is BIP 32-bit value only ... 64-bits: BIP 32-bits, CRC
   32-bits", "Length aligned to 4 bytes (and at least 8 bytes, including 8-byte XGEM header and no
   more than max length)"] *)
Definition rules_PON_CRC_BIP : list rule :=
  [ "hash length multiple of 4" ::: MultipleOf jv_msg_len_to_hash 4 ==> IMB_ERR_JOB_AUTH_LEN;
    r_hash_len 8 16392; r_tag_len [8]; r_pair_cipher IMB_CIPHER_PON_AES_CNTR; r_tag ].
(* ZUC-EIA3 [H: IMB_ZUC_DIGEST_LEN_IN_BYTES 4; ZUC256 digest 4..16]; [code]: 1..65504 bits *)
Definition rules_ZUC_EIA3 : list rule :=
  [ r_hash_src; r_hash_len 1 65504;
    "ZUC key != NULL" ::: NonNull auth_key ==> IMB_ERR_JOB_NULL_KEY;
    "ZUC IV != NULL" ::: NonNull auth_iv ==> IMB_ERR_JOB_NULL_IV;
    r_tag_len [4]; r_tag ].
Definition rules_ZUC256_EIA3 : list rule :=
  [ r_hash_src; r_hash_len 1 65504;
    "ZUC key != NULL" ::: NonNull auth_key ==> IMB_ERR_JOB_NULL_KEY;
    "25-byte IV or 23-byte IV != NULL" ::: Either (NonNull auth_iv) (NonNull zuc_iv23) ==> IMB_ERR_JOB_NULL_IV;
    r_tag_len [4; 8; 16]; r_tag ].
(* DOCSIS CRC32 [C: "Use only in combination with DOCSIS_SEC_BPI", "authentication tag size is 4
   bytes", "encrypt chain order: hash, cipher; decrypt chain order: cipher, hash",
   "msg_len_to_cipher_in_bytes <= (msg_len_to_hash_in_bytes - 12 + 4)"]; the offset relation in
   [C] is written with the inequality the wrong way round -- [code], see C12_NOTES D7 *)
Definition rules_DOCSIS_CRC32 : list rule :=
  [ r_pair_cipher IMB_CIPHER_DOCSIS_SEC_BPI;
    "ciphered region inside the CRC'd frame" :::
      When (Both CipherLenNonZero HashLenNonZero) DocsisLenFits ==> IMB_ERR_JOB_CIPH_LEN;
    "cipher starts after the 12 address bytes" :::
      When (Both CipherLenNonZero HashLenNonZero) DocsisOffsetFits ==> IMB_ERR_JOB_SRC_OFFSET;
    r_hash_len 0 MB_MAX_LEN16; r_tag; r_tag_len [4];
    "encrypt: hash then cipher" ::: When Encrypting (ChainOrderIs IMB_ORDER_HASH_CIPHER) ==> IMB_ERR_JOB_CHAIN_ORDER;
    "decrypt: cipher then hash" ::: When Decrypting (ChainOrderIs IMB_ORDER_CIPHER_HASH) ==> IMB_ERR_JOB_CHAIN_ORDER ].
(* SNOW3G-UIA2 [H: IMB_SNOW3G_DIGEST_LEN 4] [T: "(2^32) is max" bits, 2^32+1 ... ]; [code]: 1..2^32-1 *)
Definition rules_SNOW3G_UIA2 : list rule :=
  [ r_hash_src; r_hash_len 1 4294967295;
    "key != NULL" ::: NonNull auth_key ==> IMB_ERR_JOB_NULL_KEY;
    "IV != NULL" ::: NonNull auth_iv ==> IMB_ERR_JOB_NULL_IV;
    r_tag_len [4]; r_tag ].
(* KASUMI-UIA1 [H: IMB_KASUMI_DIGEST_SIZE 4, IMB_KASUMI_BLOCK_SIZE 8] [C: "needs to be at least 8
   bytes (IV + direction bit + '1' + 0s ...)"] [T: "20000 bits (2500 bytes) is max"] *)
Definition rules_KASUMI_UIA1 : list rule :=
  [ r_hash_src; r_hash_len 9 2500;
    "key != NULL" ::: NonNull auth_key ==> IMB_ERR_JOB_NULL_KEY;
    r_tag_len [4]; r_tag ].
Definition rules_POLY1305 : list rule :=
  [ r_hash_src; "Poly1305 key != NULL" ::: NonNull auth_key ==> IMB_ERR_JOB_NULL_AUTH_KEY; r_tag; r_tag_len [16] ].
Definition rules_CHACHA20_POLY1305_HASH : list rule :=
  [ r_hash_src_if_len;
    "dst != NULL when there is data" ::: When HashLenNonZero (NonNull jv_dst) ==> IMB_ERR_JOB_NULL_DST;
    r_pair_cipher IMB_CIPHER_CHACHA20_POLY1305; r_aad; r_tag; r_tag_len [16] ].
Definition rules_CHACHA20_POLY1305_SGL_HASH : list rule :=
  [ r_hash_src_if_len;
    "dst != NULL when there is data" ::: When HashLenNonZero (NonNull jv_dst) ==> IMB_ERR_JOB_NULL_DST;
    r_pair_cipher IMB_CIPHER_CHACHA20_POLY1305_SGL; r_aad; r_tag; r_tag_len [16];
    "SGL context != NULL" ::: NonNull sgl_ctx ==> IMB_ERR_JOB_NULL_SGL_CTX ].
Definition rules_SNOW_V_AEAD_HASH : list rule :=
  [ r_aad; r_tag; r_tag_len [16]; r_pair_cipher IMB_CIPHER_SNOW_V_AEAD ].
(* SM3 / HMAC-SM3 [H: IMB_SM3_DIGEST_SIZE 32] [T: HMAC-SM3 zero length invalid, no max] *)
Definition rules_SM3 : list rule := [ r_tag_len_between 1 IMB_SM3_DIGEST_SIZE; r_hash_src; r_tag ].
Definition rules_HMAC_SM3 : list rule :=
  [ "ipad != NULL" ::: NonNull hmac_ipad ==> IMB_ERR_JOB_NULL_HMAC_IPAD;
    "opad != NULL" ::: NonNull hmac_opad ==> IMB_ERR_JOB_NULL_HMAC_OPAD;
    "hash length non-zero" ::: ValAtLeast jv_msg_len_to_hash 1 ==> IMB_ERR_JOB_AUTH_LEN ] ++ rules_SM3.
Definition rules_SM4_GCM_HASH : list rule :=
  [ r_tag_len_between 1 16; r_aad; r_pair_cipher IMB_CIPHER_SM4_GCM; r_tag ].

Definition hash_catalogue : list (N * list rule) :=
  [ (IMB_AUTH_HMAC_SHA_1, rules_HMAC 12 20); (IMB_AUTH_HMAC_SHA_224, rules_HMAC 14 28);
    (IMB_AUTH_HMAC_SHA_256, rules_HMAC 16 32); (IMB_AUTH_HMAC_SHA_384, rules_HMAC 24 48);
    (IMB_AUTH_HMAC_SHA_512, rules_HMAC 32 64); (IMB_AUTH_AES_XCBC, rules_XCBC);
    (IMB_AUTH_MD5, rules_HMAC 12 16); (IMB_AUTH_NULL, rules_AUTH_NULL); (IMB_AUTH_AES_GMAC, rules_AES_GMAC);
    (IMB_AUTH_CUSTOM, rules_AUTH_CUSTOM); (IMB_AUTH_AES_CCM, rules_AES_CCM); (IMB_AUTH_AES_CMAC, rules_CMAC);
    (IMB_AUTH_SHA_1, rules_SHA 20); (IMB_AUTH_SHA_224, rules_SHA 28); (IMB_AUTH_SHA_256, rules_SHA 32);
    (IMB_AUTH_SHA_384, rules_SHA 48); (IMB_AUTH_SHA_512, rules_SHA 64);
    (IMB_AUTH_AES_CMAC_BITLEN, rules_CMAC_BITLEN); (IMB_AUTH_PON_CRC_BIP, rules_PON_CRC_BIP);
    (IMB_AUTH_ZUC_EIA3_BITLEN, rules_ZUC_EIA3); (IMB_AUTH_DOCSIS_CRC32, rules_DOCSIS_CRC32);
    (IMB_AUTH_SNOW3G_UIA2_BITLEN, rules_SNOW3G_UIA2); (IMB_AUTH_KASUMI_UIA1, rules_KASUMI_UIA1);
    (IMB_AUTH_AES_GMAC_128, rules_GMAC_STANDALONE); (IMB_AUTH_AES_GMAC_192, rules_GMAC_STANDALONE);
    (IMB_AUTH_AES_GMAC_256, rules_GMAC_STANDALONE); (IMB_AUTH_AES_CMAC_256, rules_CMAC);
    (IMB_AUTH_POLY1305, rules_POLY1305); (IMB_AUTH_CHACHA20_POLY1305, rules_CHACHA20_POLY1305_HASH);
    (IMB_AUTH_CHACHA20_POLY1305_SGL, rules_CHACHA20_POLY1305_SGL_HASH);
    (IMB_AUTH_ZUC256_EIA3_BITLEN, rules_ZUC256_EIA3); (IMB_AUTH_SNOW_V_AEAD, rules_SNOW_V_AEAD_HASH);
    (IMB_AUTH_GCM_SGL, rules_GCM_SGL_HASH);
    (IMB_AUTH_CRC32_ETHERNET_FCS, rules_CRC); (IMB_AUTH_CRC32_SCTP, rules_CRC);
    (IMB_AUTH_CRC32_WIMAX_OFDMA_DATA, rules_CRC); (IMB_AUTH_CRC24_LTE_A, rules_CRC);
    (IMB_AUTH_CRC24_LTE_B, rules_CRC); (IMB_AUTH_CRC16_X25, rules_CRC); (IMB_AUTH_CRC16_FP_DATA, rules_CRC);
    (IMB_AUTH_CRC11_FP_HEADER, rules_CRC); (IMB_AUTH_CRC10_IUUP_DATA, rules_CRC);
    (IMB_AUTH_CRC8_WIMAX_OFDMA_HCS, rules_CRC); (IMB_AUTH_CRC7_FP_HEADER, rules_CRC);
    (IMB_AUTH_CRC6_IUUP_HEADER, rules_CRC); (IMB_AUTH_GHASH, rules_GHASH); (IMB_AUTH_SM3, rules_SM3);
    (IMB_AUTH_HMAC_SM3, rules_HMAC_SM3); (IMB_AUTH_SM4_GCM, rules_SM4_GCM_HASH) ].

(* ======================================================================================= *)
(*                               COMMON RULES AND VERDICT                                  *)
(* ======================================================================================= *)
Local Close Scope string_scope.
Fixpoint assoc_rules (k : N) (tab : list (N * list rule)) : option (list rule) :=
  match tab with
  | [] => None
  | (k', rs) :: t => if k =? k' then Some rs else assoc_rules k t
  end.
Definition cipher_rules (cm : N) : list rule :=
  match assoc_rules cm cipher_catalogue with Some rs => rs | None => [] end.
Definition hash_rules (ha : N) : list rule :=
  match assoc_rules ha hash_catalogue with Some rs => rs | None => [] end.

(* [E] "Invalid cipher direction" / "Invalid cipher mode" / "Invalid hash algorithm";
   the direction is irrelevant for the NULL cipher [code] *)
Definition r_common_dir :=
  "cipher direction is ENCRYPT or DECRYPT (unless NULL cipher)"%string :::
    Either (ValIn jv_cipher_direction [IMB_DIR_ENCRYPT; IMB_DIR_DECRYPT]) (ValIn jv_cipher_mode [IMB_CIPHER_NULL])
    ==> IMB_ERR_JOB_CIPH_DIR.
Definition r_common_mode :=
  "cipher mode is supported"%string ::: ValIn jv_cipher_mode (map fst cipher_catalogue) ==> IMB_ERR_CIPH_MODE.
Definition r_common_hash :=
  "hash algorithm is supported"%string ::: ValIn jv_hash_alg (map fst hash_catalogue) ==> IMB_ERR_HASH_ALGO.
Definition common_rules : list rule := [ r_common_dir; r_common_mode; r_common_hash ].

Definition all_rules (j : job_view) : list rule :=
  common_rules ++ cipher_rules (jv_cipher_mode j) ++ hash_rules (jv_hash_alg j).

Definition job_ok (j : job_view) : bool := rules_ok (all_rules j) j.
Definition violations (j : job_view) : list N := violations_of (all_rules j) j.
Definition violated_rule_names (j : job_view) : list string :=
  flat_map (fun r => if holds (r_cond r) j then [] else [r_name r]) (all_rules j).

(* ---- known documentation-vs-code discrepancies (see C12_NOTES.md, section "Discrepancies") ----
   A job is OUTSIDE them when none of D2,D3,D8 applies; validate_sound is proved for such jobs
   and refuted by a witness for each discrepancy. *)
(* D1 (CHACHA20_POLY1305(_SGL) accepted with any hash algorithm) was repaired in /repo by abc1c04. *)
Definition disc_D2_key_len_truncated (j : job_view) : bool := 4294967296 <=? jv_key_len_in_bytes j.
Definition disc_D3_sgl_total_wraps (j : job_view) : bool :=
  uses_sgl_array j && (18446744073709551616 <=? sgl_total (jv_sgl_segs j)).
(* D4 (CBCS_1_9 with 24/32-byte keys) and D6 (SM4-ECB/CBC key length unchecked) were repaired in /repo
   by 84bae2a and 6544d54: they are no longer excluded, the theorems cover them. *)
Definition disc_D8_docsis_offset_wraps (j : job_view) : bool :=
  (jv_hash_alg j =? IMB_AUTH_DOCSIS_CRC32) && (18446744073709551616 <=? jv_hash_start_src_offset j + 12).
Definition outside_known_discrepancies (j : job_view) : bool :=
  negb (disc_D2_key_len_truncated j) && negb (disc_D3_sgl_total_wraps j) && negb (disc_D8_docsis_offset_wraps j).
Definition discrepancy_flags (j : job_view) : list N :=
  (if disc_D2_key_len_truncated j then [2] else []) ++
  (if disc_D3_sgl_total_wraps j then [3] else []) ++ (if disc_D8_docsis_offset_wraps j then [8] else []).

(* ======================================================================================= *)
(*                 CHECKED ASYNCHRONOUS BURST SUBMISSION (IMB_SUBMIT_BURST)                *)
(* ======================================================================================= *)
(* [H] IMB_SUBMIT_BURST: "Prior to submission, _jobs need to be initialized with correct crypto job
   parameters and followed with a call to imb_set_session()"; "Number of completed jobs or zero on
   error. If zero, imb_get_errno() can be used ... and _jobs[0] contains pointer to invalid job";
   IMB_MAX_BURST_SIZE; [E] NULL_BURST / BURST_SIZE / NULL_JOB / QUEUE_SPACE / BURST_OOO / BURST_SUITE_ID
   ("Invalid cipher suite ID (async burst API)").
   The suite id written by imb_set_session() is the pair of dispatch-table indices of the job's
   session fields ([C] mb_mgr_job_api.h: "cipher_mode x 4, four key sizes per cipher mode; map
   key_len_in_bytes into 0, 1, 2 & 3 index values; encrypt_direction_bit x (ENCRYPT_DECRYPT_GAP x 4)"
   with ENCRYPT_DECRYPT_GAP = 32; the hash index is the hash algorithm itself).  A descriptor whose
   stored suite id differs from those indices IN EITHER WORD (stale session: the slot was re-used
   for another cipher / key size / direction / hash without calling imb_set_session() again) must
   not be dispatched. *)
Definition key_size_index (j : job_view) : N :=
  (((jv_key_len_in_bytes j + 18446744073709551616 - 1) mod 18446744073709551616) / 8) mod 4.
Definition suite_cipher_index (j : job_view) : N :=
  (4 * jv_cipher_mode j + key_size_index j + 128 * (jv_cipher_direction j mod 2)) mod 4294967296.
Definition suite_hash_index (j : job_view) : N := jv_hash_alg j.

Definition job_check_passes (j : job_view) : bool :=
  match is_job_invalid j with None => true | Some _ => false end.

Definition burst_entry_ok (e : burst_entry) : bool :=
  negb (be_null e) && be_in_order e && job_check_passes (be_job e) &&
  (be_suite0 e =? suite_cipher_index (be_job e)) && (be_suite1 e =? suite_hash_index (be_job e)).

Definition burst_ok (b : burst_view) : bool :=
  negb (bv_jobs_null b) && (bv_n_jobs b <=? IMB_MAX_BURST_SIZE) && (bv_n_jobs b <=? bv_queue_space b) &&
  forallb burst_entry_ok (bv_entries b).

(* error codes of everything that is wrong with a burst (order-free) *)
Definition burst_entry_violations (e : burst_entry) : list N :=
  (if be_null e then [IMB_ERR_NULL_JOB] else []) ++
  (if be_in_order e then [] else [IMB_ERR_BURST_OOO]) ++
  (match is_job_invalid (be_job e) with Some err => [err] | None => [] end) ++
  (if (be_suite0 e =? suite_cipher_index (be_job e)) && (be_suite1 e =? suite_hash_index (be_job e))
   then [] else [IMB_ERR_BURST_SUITE_ID]).
Definition burst_violations (b : burst_view) : list N :=
  (if bv_jobs_null b then [IMB_ERR_NULL_BURST] else []) ++
  (if bv_n_jobs b <=? IMB_MAX_BURST_SIZE then [] else [IMB_ERR_BURST_SIZE]) ++
  (if bv_n_jobs b <=? bv_queue_space b then [] else [IMB_ERR_QUEUE_SPACE]) ++
  flat_map burst_entry_violations (bv_entries b).
