(* Mgr/Errno.v — error reporting of intel-ipsec-mb (property C14, second half).
   Definitions only; proofs are in Proofs/ErrnoProofs.v.

   lib/include/error.h, lib/x86_64/error.c (shape re-checked textually on every run by
   translators/t9_strerror.py, which fails when the C text drifts):

     extern volatile int imb_errno;                       // process-wide mirror
     imb_set_errno(mgr, e) { if (mgr != NULL) mgr->imb_errno = e;
                             if (imb_errno != e) imb_errno = e; }
     imb_get_errno(mgr)    { if (mgr != NULL && mgr->imb_errno) return mgr->imb_errno;
                             return imb_errno; }
     imb_get_strerror(n)   -> Gen/GenStrerror.v (translated switch)

   Every entry point of the job and burst API starts with imb_set_errno(state, 0) ("reset at
   top"); the ring model Mgr/Ring.v carries the manager's field as [errno] and performs the same
   calls.  Direct-API functions (key expansion, GCM/GMAC/GHASH, hash one-shots, ZUC/SNOW3G/KASUMI
   ...) do not receive the manager: they call imb_set_errno(NULL, ...) and so write the mirror
   only. *)
From Coq Require Import ZArith List Bool.
From IMB Require Import Gen.GenConsts Gen.GenStrerror Mgr.Ring.
Import ListNotations.
Local Open Scope Z_scope.

(* the two memory cells involved: the manager's field and the mirror *)
Record emem := mkem { e_field : Z; e_glob : Z }.

Definition imb_set_errno (mgr_nonnull : bool) (e : Z) (m : emem) : emem :=
  mkem (if mgr_nonnull then e else e_field m)
       (if e_glob m =? e then e_glob m else e).   (* "only if different, to limit unneeded stores" *)

Definition imb_get_errno (mgr_nonnull : bool) (m : emem) : Z :=
  if mgr_nonnull && negb (e_field m =? 0) then e_field m else e_glob m.

(* As far as error reporting goes, an API function is the sequence of imb_set_errno calls it
   makes: (manager argument non-NULL?, value). *)
Definition ecalls := list (bool * Z).
Definition run_ecalls (l : ecalls) (m : emem) : emem :=
  fold_left (fun m c => imb_set_errno (fst c) (snd c) m) l m.

(* direct API function (assembly IMB_ERR_CHECK_START/END or C `imb_set_errno(NULL, ..)`):
   reset, then the code of the first failed check if any *)
Definition direct_api (result : Z) : ecalls :=
  (false, 0) :: (if result =? 0 then [] else [(false, result)]).

(* imb_hmac_ipad_opad (lib/x86_64/hmac_ipad_opad.c): NULL manager / NULL key are reported
   before the reset; unsupported algorithm and over-long MD5 key are reported with
   imb_set_errno(NULL, ..) although the manager is at hand *)
Inductive ipad_opad_outcome := IoNullMgr | IoNullKey | IoBadAlg | IoMd5KeyLen | IoOk.
Definition hmac_ipad_opad_calls (o : ipad_opad_outcome) : ecalls :=
  match o with
  | IoNullMgr => [(false, IMB_ERR_NULL_MBMGR)]
  | IoNullKey => [(true, IMB_ERR_NULL_KEY)]
  | IoBadAlg => [(true, 0); (false, IMB_ERR_HASH_ALGO)]
  | IoMd5KeyLen => [(true, 0); (false, IMB_ERR_KEY_LEN)]
  | IoOk => [(true, 0); (false, 0)]          (* reset, then the one-block hash helpers reset the mirror *)
  end.

(* ---- the documented outcome of each call of the ring model ---- *)
Section ErrnoRing.
Variable SZ NJ MAXB : Z.

(* Some e = the call fails (or, for a checked submit, flags the job) with code e *)
Definition call_failure (s : st) (o : op) : option Z :=
  match o with
  | GetNext | Flush _ | GetCompleted | QueueSize => None
  | Submit check verdict _ _ => if check then verdict else None
  | GetNextBurst jobs_null n =>
      if jobs_null then Some E_NULL_BURST else if n >? MAXB then Some E_BURST_SIZE else None
  | FlushBurst jobs_null _ _ => if jobs_null then Some E_NULL_BURST else None
  | SubmitBurst check n jobs _ _ =>
      if check then
        match jobs with
        | None => Some E_NULL_BURST
        | Some js =>
            if n >? MAXB then Some E_BURST_SIZE
            else if queue_sz_remaining SZ NJ s <? n then Some E_QUEUE_SPACE
            else match burst_validate SZ NJ js (next s) with
                 | BOk => None
                 | BErr e _ => e
                 end
        end
      else None
  end.

Definition expected_errno (s : st) (o : op) : Z :=
  match call_failure s o with Some e => e | None => 0 end.

(* the codes the ring/burst code itself can raise *)
Definition ring_codes : list Z :=
  [E_NULL_BURST; E_BURST_SIZE; E_BURST_OOO; E_QUEUE_SPACE; E_NULL_JOB; E_BURST_SUITE_ID].

(* one manager plus the mirror: a ring call leaves the mirror equal to the field (every
   imb_set_errno(state, e) of the call writes both; the last one wins).  The out-of-order
   managers behind submit/flush are an oracle; that they leave the mirror alone is an
   assumption the harness checks after every observed call (field = mirror). *)
Definition ering_step (x : st * Z) (o : op) : (st * Z) * out :=
  let '(s', r) := step SZ NJ MAXB (fst x) o in ((s', errno s'), r).

End ErrnoRing.

(* ---- imb_get_strerror ---- *)
(* C strings are [option string] (None = NULL).  The `default: return strerror(errnum)` branch
   is the C library: an oracle, ASSUMED to return a non-NULL string for every int (glibc
   returns "Unknown error N" for unknown values). *)
Definition libc_total (libc : Z -> option String.string) : Prop := forall z, libc z <> None.
