(* Mgr/Dispatch.v -- hand-written model of the suite dispatch of lib/include/mb_mgr_job_api.h
   (property C06).  Definitions only; proofs are in Proofs/DispatchProofs.v.

   Modelled (by hand, from the C text):
     - calc_cipher_tab_index()                       [calc_cipher_tab_index]
       (tied to the code: Gen/GenTables.v carries a machine translation of the C return
        expression, [gen_calc_cipher_tab_index]; Proofs/DispatchProofs.v proves the two equal)
     - SUBMIT_JOB_CIPHER/HASH, FLUSH_JOB_CIPHER/HASH  [job_dispatch]
     - set_cipher_suite_id(), CALL_SUBMIT_*/CALL_FLUSH_*  [set_cipher_suite_id], [burst_dispatch]
     - submit_new_job / RESUBMIT_JOB / complete_job and their burst twins: the per-job stage
       machine [jstep] driven by chain_order and the status bits
     - the library's symbol naming convention  [names_alg], [names_hash]  and what a table entry
       has to look like for a (cipher mode, key size, direction) / hash algorithm
       [cipher_entry_ok], [hash_entry_ok], [flush_entry_ok]
   Generated (regenerated from /repo on every check run):
     - enum values (Gen/GenEnums.v), the tables and wrapper call sets of the eight compiled
       variants (Gen/GenTables.v), is_job_invalid / is_job_invalid_light (Gen/GenValidate.v),
       the acknowledged findings of known_findings.txt (Gen/GenKnownC06.v).
   Validation is NOT transcribed by hand here: the accepted set is computed with the generated
   image of mb_mgr_job_check.h. *)
From Coq Require Import NArith List Bool String Ascii.
From IMB Require Import Lib.Bytes Gen.GenEnums Mgr.JobView Gen.GenValidate Gen.GenTables Gen.GenKnownC06.
Import ListNotations.
Local Open Scope N_scope.
Local Open Scope bool_scope.

(* ================================================================================== *)
(* 1. Table index                                                                       *)
(* ================================================================================== *)

(* key_len_in_bytes -> key-size class 0..3 :  ((klen - 1) >> 3) & 3   in uint64_t arithmetic *)
Definition key_class (klen : N) : N := N.land (N.shiftr (sub64 klen 1) 3) 3.

(* return (job->cipher_mode << 2) + (((job->key_len_in_bytes - 1) >> 3) & 3) +
          ((job->cipher_direction & IMB_DIR_ENCRYPT) << 7);       result type: unsigned *)
Definition calc_cipher_tab_index (mode klen dir : N) : N :=
  w32 (w32 (N.shiftl mode 2) + key_class klen + w32 (N.shiftl (N.land dir IMB_DIR_ENCRYPT) 7)).

Definition enc_bit (dir : N) : N := N.land dir IMB_DIR_ENCRYPT.

(* ================================================================================== *)
(* 2. Dispatch through the tables                                                       *)
(* ================================================================================== *)

Definition tab_get (t : list (option wrapper)) (i : N) : option wrapper :=
  nth (N.to_nat i) t None.

(* the four entries a job touches: (submit cipher, flush cipher, submit hash, flush hash) *)
Definition entries := (option wrapper * option wrapper * option wrapper * option wrapper)%type.

(* job API: SUBMIT_JOB_CIPHER / FLUSH_JOB_CIPHER index with calc_cipher_tab_index(job),
   SUBMIT_JOB_HASH / FLUSH_JOB_HASH with job->hash_alg *)
Definition job_dispatch (vt : variant_tables) (mode klen dir hash : N) : entries :=
  let idx := calc_cipher_tab_index mode klen dir in
  (tab_get (vt_submit_cipher vt) idx, tab_get (vt_flush_cipher vt) idx,
   tab_get (vt_submit_hash vt) hash, tab_get (vt_flush_hash vt) hash).

(* set_cipher_suite_id(): id[0] = c_idx; id[1] = (unsigned) job->hash_alg *)
Definition set_cipher_suite_id (mode klen dir hash : N) : N * N :=
  (calc_cipher_tab_index mode klen dir, w32 hash).

(* burst API: CALL_SUBMIT_CIPHER / CALL_FLUSH_CIPHER index with job->suite_id[0],
   CALL_SUBMIT_HASH / CALL_FLUSH_HASH with job->suite_id[1] *)
Definition burst_dispatch (vt : variant_tables) (suite : N * N) : entries :=
  (tab_get (vt_submit_cipher vt) (fst suite), tab_get (vt_flush_cipher vt) (fst suite),
   tab_get (vt_submit_hash vt) (snd suite), tab_get (vt_flush_hash vt) (snd suite)).

(* ================================================================================== *)
(* 3. Stage sequencing: submit_new_job / RESUBMIT_JOB / complete_job                    *)
(* ================================================================================== *)

Inductive stage := Cipher | Hash.

Definition stage_eqb (a b : stage) : bool :=
  match a, b with Cipher, Cipher | Hash, Hash => true | _, _ => false end.

(* What a stage does to job->status when the job comes back from it.
   Plain cipher wrappers OR in IMB_STATUS_COMPLETED_CIPHER, hash wrappers
   IMB_STATUS_COMPLETED_AUTH; the combined AEAD kernels (AES-GCM, SM4-GCM, CHACHA20-POLY1305,
   SNOW-V-AEAD, PON, GCM-SGL...) set both bits from the cipher entry ([combined] = true). *)
Definition stage_effect (combined : bool) (s : stage) : N :=
  match s with
  | Cipher => if combined then IMB_STATUS_COMPLETED else IMB_STATUS_COMPLETED_CIPHER
  | Hash => IMB_STATUS_COMPLETED_AUTH
  end.

(* submit_new_job():  GCM bypass, then chain_order *)
Definition first_stage (mode order : N) : stage :=
  if mode =? IMB_CIPHER_GCM then Cipher
  else if order =? IMB_ORDER_CIPHER_HASH then Cipher else Hash.

(* does submit_new_job() enter RESUBMIT_JOB after the first stage?  (not for the GCM bypass) *)
Definition resubmits_after_first (mode : N) : bool := negb (mode =? IMB_CIPHER_GCM).

(* RESUBMIT_JOB(): while (job != NULL && job->status < IMB_STATUS_COMPLETED)
                       if (job->status == IMB_STATUS_COMPLETED_AUTH) cipher else hash *)
Definition resubmit_choice (status : N) : option stage :=
  if status <? IMB_STATUS_COMPLETED then
    Some (if status =? IMB_STATUS_COMPLETED_AUTH then Cipher else Hash)
  else None.

(* Per-job view of the manager.  [js_held] = the stage whose wrapper currently owns the job
   (a multi-buffer manager may keep it over any number of calls on behalf of other jobs);
   [js_log] = every stage invocation made for this job so far, oldest first. *)
Record jstate := mk_js { js_status : N; js_held : option stage; js_log : list stage }.

Definition js_init (mode order : N) : jstate :=
  let s := first_stage mode order in mk_js IMB_STATUS_BEING_PROCESSED (Some s) [s].

(* One observable event for the job: the wrapper holding it hands it back (at submit time, or
   later from a submit/flush on behalf of another job, or from the FLUSH_JOB_xxx calls of complete_job),
   the status bit(s) are ORed in, and the caller runs RESUBMIT_JOB on it -- except directly
   after the GCM bypass of submit_new_job, where the job is returned as is; the next time
   somebody looks at it (complete_job -> FLUSH_JOB_HASH default branch, or RESUBMIT_JOB) the
   loop head applies.  [via_bypass] says which of the two happened. *)
Definition release (combined : bool) (via_bypass : bool) (j : jstate) (s : stage) : jstate :=
  let st := N.lor (js_status j) (stage_effect combined s) in
  if via_bypass then mk_js st None (js_log j)
  else match resubmit_choice st with
       | Some s' => mk_js st (Some s') (js_log j ++ [s'])
       | None => mk_js st None (js_log j)
       end.

Inductive jstep (combined reenter : bool) (mode : N) : jstate -> jstate -> Prop :=
| js_release : forall j s,
    js_held j = Some s ->
    (* the bypass can only concern the very first invocation of a GCM job *)
    jstep combined reenter mode j
          (release combined (negb (resubmits_after_first mode) && Nat.eqb (length (js_log j)) 1) j s)
| js_flush_pickup : forall j,
    (* complete_job(): FLUSH_JOB_CIPHER returned NULL, FLUSH_JOB_HASH's default branch finds
       the unfinished job:  if (!(job->status & COMPLETED_AUTH)) { status |= COMPLETED_AUTH; return job; }
       followed by RESUBMIT_JOB.  Only reachable for a job nobody holds and that is not complete. *)
    js_held j = None -> js_status j <? IMB_STATUS_COMPLETED = true ->
    N.land (js_status j) IMB_STATUS_COMPLETED_AUTH = 0 ->
    jstep combined reenter mode j
          (release combined false (mk_js (js_status j) (Some Hash) (js_log j ++ [Hash])) Hash)
| js_flush_reentry : forall j s s',
    (* complete_job() with a flush entry that hands back a job it does NOT hold ([reenter]): the job sits in
       the manager of stage s, the flush entry of the other stage returns it all the same, and RESUBMIT_JOB
       submits it again according to its status.  Table entries without this behaviour: [reenter] = false
       (see [flush_entry_ok]: a strict flush entry calls nothing but flush kernels of its own managers). *)
    reenter = true -> js_held j = Some s -> resubmit_choice (js_status j) = Some s' ->
    jstep combined reenter mode j (mk_js (js_status j) (Some s') (js_log j ++ [s'])).

Inductive jreach (combined reenter : bool) (mode order : N) : jstate -> Prop :=
| jr_init : jreach combined reenter mode order (js_init mode order)
| jr_step : forall a b, jreach combined reenter mode order a -> jstep combined reenter mode a b ->
                        jreach combined reenter mode order b.

Definition js_done (j : jstate) : Prop := js_held j = None /\ IMB_STATUS_COMPLETED <= js_status j.

(* the stage sequence the property demands *)
Definition expected_stages (combined : bool) (mode order : N) : list stage :=
  match first_stage mode order with
  | Cipher => if combined then [Cipher] else [Cipher; Hash]
  | Hash => [Hash; Cipher]
  end.

(* which cipher modes have a combined kernel (status |= IMB_STATUS_COMPLETED in the cipher
   entry): read off SUBMIT_JOB_CIPHER_ENC/DEC and the kernels they call *)
Definition combined_cipher (mode : N) : bool :=
  (mode =? IMB_CIPHER_GCM) || (mode =? IMB_CIPHER_GCM_SGL) || (mode =? IMB_CIPHER_SM4_GCM) ||
  (mode =? IMB_CIPHER_CHACHA20_POLY1305) || (mode =? IMB_CIPHER_CHACHA20_POLY1305_SGL) ||
  (mode =? IMB_CIPHER_SNOW_V_AEAD) || (mode =? IMB_CIPHER_PON_AES_CNTR).

(* ================================================================================== *)
(* 4. The finite cell domain                                                            *)
(* ================================================================================== *)

Fixpoint N_range_aux (n : nat) (from : N) : list N :=
  match n with O => [] | S k => from :: N_range_aux k (from + 1) end.
(* [lo; lo+1; ...; hi-1] *)
Definition N_range (lo hi : N) : list N := N_range_aux (N.to_nat (hi - lo)) lo.

Definition all_modes : list N := N_range 1 IMB_CIPHER_NUM.       (* 28 cipher modes *)
Definition all_hashes : list N := N_range 1 IMB_AUTH_NUM.        (* 49 hash algorithms *)
(* one representative key length per key-size class of the table (index 0..3) *)
Definition all_klens : list N := [IMB_KEY_64_BYTES; IMB_KEY_128_BYTES; IMB_KEY_192_BYTES; IMB_KEY_256_BYTES].
Definition all_dirs : list N := [IMB_DIR_ENCRYPT; IMB_DIR_DECRYPT].
Definition all_orders : list N := [IMB_ORDER_CIPHER_HASH; IMB_ORDER_HASH_CIPHER].

Record cell := mk_cell { c_mode : N; c_klen : N; c_dir : N; c_hash : N; c_order : N }.

Definition all_cells : list cell :=
  flat_map (fun m => flat_map (fun k => flat_map (fun d => flat_map (fun h =>
    map (fun o => mk_cell m k d h o) all_orders) all_hashes) all_dirs) all_klens) all_modes.

(* ================================================================================== *)
(* 5. Acceptance (generated validation)                                                 *)
(* ================================================================================== *)

Definition is_none {A} (o : option A) : bool := match o with None => true | Some _ => false end.

(* a job descriptor that only carries the four session fields (the light check reads nothing else) *)
Definition blank_view (c : cell) : job_view :=
  mk_job_view 0 0 (c_klen c) 0 0 0 0 0 0 0 0 0 0 0 0 0 (c_mode c) (c_dir c) (c_hash c) (c_order c) 0 0 0 0
              0 0 0 0 0 0 0 [].

(* imb_set_session(): is_job_invalid_light(state, cipher_mode, hash_alg, cipher_direction, key_len) *)
Definition accepted_light (c : cell) : bool :=
  is_none (is_job_invalid_light_fn (blank_view c) (c_mode c) (c_hash c) (c_dir c) (c_klen c)).

(* Candidate descriptors for the full check is_job_invalid(): every pointer non-NULL, in place
   (dst = src + cipher offset, as PON demands), 64 bytes (or bits) to cipher and hash -- or nothing to
   cipher, the only geometry DOCSIS-CRC32 takes with offset 0 --, PLI 0, no SGL segment array;
   IV length and tag length range over values such that every algorithm finds one it takes. *)
Definition cand_iv_lens : list N := [16; 12; 8; 25].
Definition cand_tag_lens : list N := [16; 4; 12; 8; 20; 28; 32; 48; 64].
Definition cand_lens : list (N * N) := [(64, 64); (0, 64)].

Definition cand_view (c : cell) (ivl tagl clen hlen : N) : job_view :=
  let p := 4096 in
  mk_job_view p p (c_klen c) p p 0 clen 0 hlen p ivl p tagl p 16 p
              (c_mode c) (c_dir c) (c_hash c) (c_order c) p p IMB_SGL_COMPLETE p
              p p p p p p 0 [].

(* (the hash-specific union u: first and third word are pointers, the second is a pointer or an
   AAD / IV length: 16 serves as both)
   some well-formed descriptor with these session fields passes the full check *)
Definition accepted_full (c : cell) : bool :=
  existsb (fun ivl => existsb (fun tagl => existsb (fun '(clen, hlen) =>
     is_none (is_job_invalid_fn (cand_view c ivl tagl clen hlen) (c_mode c) (c_hash c) (c_dir c) (c_klen c)))
     cand_lens) cand_tag_lens) cand_iv_lens.

(* the library runs a job with these session fields on at least one of its two checked paths *)
Definition accepted (c : cell) : bool := accepted_light c || accepted_full c.

(* acknowledged findings (known_findings.txt -> Gen/GenKnownC06.v): (mode, klen, dir, hash), 0 = any *)
Definition excepted (c : cell) : bool :=
  existsb (fun '(m, k, d, h) => ((m =? 0) || (c_mode c =? m)) && ((k =? 0) || (c_klen c =? k)) &&
                                ((d =? 0) || (c_dir c =? d)) && ((h =? 0) || (c_hash c =? h)))
          known_c06.

(* ================================================================================== *)
(* 5b. Dedicated pairings                                                               *)
(* ================================================================================== *)

(* cipher modes and hash algorithms that only make sense together *)
Definition aead_pairs : list (N * N) :=
  [(IMB_CIPHER_GCM, IMB_AUTH_AES_GMAC); (IMB_CIPHER_GCM_SGL, IMB_AUTH_GCM_SGL); (IMB_CIPHER_CCM, IMB_AUTH_AES_CCM);
   (IMB_CIPHER_CHACHA20_POLY1305, IMB_AUTH_CHACHA20_POLY1305);
   (IMB_CIPHER_CHACHA20_POLY1305_SGL, IMB_AUTH_CHACHA20_POLY1305_SGL);
   (IMB_CIPHER_SNOW_V_AEAD, IMB_AUTH_SNOW_V_AEAD); (IMB_CIPHER_SM4_GCM, IMB_AUTH_SM4_GCM);
   (IMB_CIPHER_PON_AES_CNTR, IMB_AUTH_PON_CRC_BIP)].
(* hash algorithms that need one particular cipher mode, which itself also works alone *)
Definition hash_needs_cipher : list (N * N) := [(IMB_AUTH_DOCSIS_CRC32, IMB_CIPHER_DOCSIS_SEC_BPI)].

Definition pairing_ok (mode hash : N) : bool :=
  forallb (fun '(m, h) => Bool.eqb (mode =? m) (hash =? h)) aead_pairs &&
  forallb (fun '(h, m) => implb (hash =? h) (mode =? m)) hash_needs_cipher.

(* ================================================================================== *)
(* 6. The library's symbol naming convention                                            *)
(* ================================================================================== *)

Local Open Scope string_scope.
Local Open Scope N_scope.

(* implementation families of the eight compiled variants *)
Inductive family := FSse | FAvx2 | FAvx512.

Definition family_of (vname : string) : option family :=
  if prefix "sse_" vname then Some FSse
  else if prefix "avx2_" vname then Some FAvx2
  else if prefix "avx512_" vname then Some FAvx512 else None.

(* implementation suffixes: what may follow the algorithm stem of a kernel symbol.
   README "implementation matrix": an AVX2 manager reuses SSE kernels and an AVX512 manager
   reuses SSE/AVX/AVX2 kernels for algorithms without a dedicated implementation; never the
   other way round. *)
Definition sse_suffixes : list string :=
  ["_sse"; "_by8_sse"; "_x8_sse"; "_ni_sse"; "_gfni_sse"; "_no_gfni_sse"; "_sse_local"; "_basic"; "_scalar"].
Definition avx2_suffixes : list string :=
  ["_avx"; "_avx2"; "_avx_gen4"; "_vaes_avx2"; "_gfni_avx2"; "_fma_avx2"; "_avx_local"].
Definition avx512_suffixes : list string :=
  ["_avx512"; "_vaes_avx512"; "_submit_vaes_avx512"; "_gfni_avx512"; "_no_gfni_avx512"; "_fma_avx512"; "_plain_avx512"].

Definition suffixes_of (f : family) : list string :=
  match f with
  | FSse => sse_suffixes
  | FAvx2 => (sse_suffixes ++ avx2_suffixes)%list
  | FAvx512 => (sse_suffixes ++ avx2_suffixes ++ avx512_suffixes)%list
  end.
Definition all_suffixes : list string := suffixes_of FAvx512.

Definition str_mem (s : string) (l : list string) : bool := existsb (String.eqb s) l.

(* a name pattern: an exact symbol ("@mgr.ghash", "memcpy") or an algorithm stem that must be
   followed by an implementation suffix; with the out-of-order managers a wrapper calling it
   has to load from IMB_MGR *)
Inductive pat_kind := Exact | Stem.
Record pat := mk_pat { p_kind : pat_kind; p_name : string; p_mgrs : list string }.

Definition ex (n : string) : pat := mk_pat Exact n [].
Definition st (n : string) : pat := mk_pat Stem n [].
Definition stm (n : string) (m : list string) : pat := mk_pat Stem n m.

Definition pat_matches (sufs : list string) (p : pat) (sym : string) : bool :=
  match p_kind p with
  | Exact => String.eqb (p_name p) sym
  | Stem => prefix (p_name p) sym &&
            str_mem (substring (String.length (p_name p)) (String.length sym - String.length (p_name p)) sym) sufs
  end.

(* What the entry for an algorithm has to call:
   [n_groups] every group must be hit by at least one callee (alternatives inside a group are
              the per-architecture spellings of the same kernel);
   [n_aux]    helpers the entry may call in addition.
   A callee that matches nothing makes the entry wrong. *)
Record names := mk_names { n_groups : list (list pat); n_aux : list pat }.

Definition bits_of (klen : N) : string :=
  if klen =? 16 then "128" else if klen =? 24 then "192" else if klen =? 32 then "256" else "64".

Definition aes_klen (k : N) : bool := (k =? 16) || (k =? 24) || (k =? 32).
Definition k128_256 (k : N) : bool := (k =? 16) || (k =? 32).

(* (cipher mode, key length, encrypt?) -> names; None: the library has no such algorithm *)
Definition cipher_names (mode klen : N) (enc : bool) : option names :=
  let B := bits_of klen in
  let e := if enc then "enc" else "dec" in
  if mode =? IMB_CIPHER_CBC then
    if aes_klen klen then
      Some (if enc then mk_names [[stm ("submit_job_aes" ++ B ++ "_enc") ["aes" ++ B ++ "_ooo"];
                                   stm ("submit_job_aes" ++ B ++ "_cbc_enc") ["aes" ++ B ++ "_ooo"]]] []
            else mk_names [[st ("aes_cbc_dec_" ++ B)]] [])
    else None
  else if mode =? IMB_CIPHER_CNTR then
    if aes_klen klen then Some (mk_names [[st ("aes_cntr_" ++ B)]] []) else None
  else if mode =? IMB_CIPHER_NULL then Some (mk_names [] [])
  else if mode =? IMB_CIPHER_DOCSIS_SEC_BPI then
    if k128_256 klen then
      let both := ["docsis" ++ B ++ "_crc32_sec_ooo"; "docsis" ++ B ++ "_sec_ooo"] in
      Some (if enc then mk_names [[stm ("submit_job_aes" ++ B ++ "_enc") both;
                                   stm ("submit_job_aes" ++ B ++ "_cbc_enc") both]]
                                 [stm ("submit_job_aes_docsis" ++ B ++ "_enc_crc32") ["docsis" ++ B ++ "_crc32_sec_ooo"];
                                  st ("aes_cfb_" ++ B ++ "_one"); st "ethernet_fcs"]
            else mk_names [[st ("aes_cbc_dec_" ++ B)]]
                          [st ("aes_docsis" ++ B ++ "_dec_crc32"); st ("aes_cfb_" ++ B ++ "_one"); st "ethernet_fcs"])
    else None
  else if mode =? IMB_CIPHER_GCM then
    if aes_klen klen then Some (mk_names [[st ("aes_gcm_" ++ e ++ "_var_iv_" ++ B)]] []) else None
  else if mode =? IMB_CIPHER_CUSTOM then Some (mk_names [[ex "@job.cipher_func"]] [])
  else if mode =? IMB_CIPHER_DES then
    if klen =? 8 then Some (mk_names [[st ("des_" ++ e ++ "_cbc");
                                       stm ("submit_job_des_cbc_" ++ e) ["des_" ++ e ++ "_ooo"]]] []) else None
  else if mode =? IMB_CIPHER_DOCSIS_DES then
    if klen =? 8 then Some (mk_names [[st ("docsis_des_" ++ e);
                                       stm ("submit_job_docsis_des_" ++ e) ["docsis_des_" ++ e ++ "_ooo"]]] []) else None
  else if mode =? IMB_CIPHER_CCM then
    if k128_256 klen then Some (mk_names [[st ("aes_cntr_ccm_" ++ B)]] []) else None
  else if mode =? IMB_CIPHER_DES3 then
    if klen =? 24 then Some (mk_names [[st ("des3_" ++ e ++ "_cbc");
                                        stm ("submit_job_3des_cbc_" ++ e) ["des3_" ++ e ++ "_ooo"]]] []) else None
  else if mode =? IMB_CIPHER_PON_AES_CNTR then
    (* AES-128-CTR only; the key length is not looked at when nothing is ciphered (msg_len_to_cipher = 0) *)
    Some (mk_names [[st ("submit_job_pon_" ++ e)]; [st ("submit_job_pon_" ++ e ++ "_no_ctr")]] [])
  else if mode =? IMB_CIPHER_ECB then
    if aes_klen klen then Some (mk_names [[st ("aes_ecb_" ++ e ++ "_" ++ B)]] []) else None
  else if mode =? IMB_CIPHER_CNTR_BITLEN then
    if aes_klen klen then Some (mk_names [[st ("aes_cntr_bit_" ++ B)]] []) else None
  else if mode =? IMB_CIPHER_ZUC_EEA3 then
    if klen =? 16 then Some (mk_names [[stm "submit_job_zuc_eea3" ["zuc_eea3_ooo"]]] [])
    else if klen =? 32 then Some (mk_names [[stm "submit_job_zuc256_eea3" ["zuc256_eea3_ooo"]]] [])
    else None
  else if mode =? IMB_CIPHER_SNOW3G_UEA2_BITLEN then
    if klen =? 16 then Some (mk_names [[stm "submit_job_snow3g_uea2" ["snow3g_uea2_ooo"]]]
                                      [ex "@mgr.snow3g_f8_1_buffer"; ex "@mgr.snow3g_f8_1_buffer_bit"]) else None
  else if mode =? IMB_CIPHER_KASUMI_UEA1_BITLEN then
    if klen =? 16 then Some (mk_names [[ex "@mgr.f8_1_buffer"]; [ex "@mgr.f8_1_buffer_bit"]] []) else None
  else if mode =? IMB_CIPHER_CBCS_1_9 then
    if aes_klen klen then
      Some (if enc then mk_names [[stm ("submit_job_aes" ++ B ++ "_cbcs_1_9_enc") ["aes" ++ B ++ "_cbcs_ooo"]]] []
            else mk_names [[st ("aes_cbcs_1_9_dec_" ++ B)]] [])
    else None
  else if mode =? IMB_CIPHER_CHACHA20 then
    if klen =? 32 then Some (mk_names [[st "submit_job_chacha20_enc_dec"]] []) else None
  else if mode =? IMB_CIPHER_CHACHA20_POLY1305 then
    if klen =? 32 then Some (mk_names [[st "aead_chacha20_poly1305"]] []) else None
  else if mode =? IMB_CIPHER_CHACHA20_POLY1305_SGL then
    if klen =? 32 then Some (mk_names [[st "aead_chacha20_poly1305_sgl"]] []) else None
  else if mode =? IMB_CIPHER_SNOW_V then
    if klen =? 32 then Some (mk_names [[st "snow_v"]] []) else None
  else if mode =? IMB_CIPHER_SNOW_V_AEAD then
    if klen =? 32 then Some (mk_names [[st "snow_v_aead_init"]] [ex "@mgr.ghash"; ex "@mgr.ghash_pre"]) else None
  else if mode =? IMB_CIPHER_GCM_SGL then
    if aes_klen klen then
      let g := "@mgr.gcm" ++ B ++ "_" in
      Some (mk_names [[ex (g ++ "init_var_iv")]; [ex (g ++ e ++ "_update")]; [ex (g ++ e ++ "_finalize")]]
                     (* submit_gcm_sgl_dec() closes the IMB_SGL_ALL case with the ENC finalize (same tag computation) *)
                     (if enc then [] else [ex (g ++ "enc_finalize")]))
    else None
  else if mode =? IMB_CIPHER_SM4_ECB then
    if klen =? 16 then Some (mk_names [[st "sm4_ecb"]] []) else None
  else if mode =? IMB_CIPHER_SM4_CBC then
    if klen =? 16 then Some (mk_names [[st ("sm4_cbc_" ++ e)]] []) else None
  else if mode =? IMB_CIPHER_CFB then
    if aes_klen klen then
      Some (if enc then mk_names [[st ("aes_cfb_" ++ B ++ "_enc");
                                   stm ("submit_job_aes" ++ B ++ "_cfb_enc") ["aes_cfb_" ++ B ++ "_ooo"]]] []
            else mk_names [[st ("aes_cfb_" ++ B ++ "_dec"); st ("aes_cfb_dec_" ++ B)]] [])
    else None
  else if mode =? IMB_CIPHER_SM4_CNTR then
    if klen =? 16 then Some (mk_names [[st "sm4_ctr"]] []) else None
  else if mode =? IMB_CIPHER_SM4_GCM then
    if klen =? 16 then Some (mk_names [[st "sm4_ctr"]; [ex "@mgr.ghash"]] [st "sm4_ecb"]) else None
  else None.

Definition crc_member (h : N) : option string :=
  if h =? IMB_AUTH_CRC32_ETHERNET_FCS then Some "crc32_ethernet_fcs"
  else if h =? IMB_AUTH_CRC32_SCTP then Some "crc32_sctp"
  else if h =? IMB_AUTH_CRC32_WIMAX_OFDMA_DATA then Some "crc32_wimax_ofdma_data"
  else if h =? IMB_AUTH_CRC24_LTE_A then Some "crc24_lte_a"
  else if h =? IMB_AUTH_CRC24_LTE_B then Some "crc24_lte_b"
  else if h =? IMB_AUTH_CRC16_X25 then Some "crc16_x25"
  else if h =? IMB_AUTH_CRC16_FP_DATA then Some "crc16_fp_data"
  else if h =? IMB_AUTH_CRC11_FP_HEADER then Some "crc11_fp_header"
  else if h =? IMB_AUTH_CRC10_IUUP_DATA then Some "crc10_iuup_data"
  else if h =? IMB_AUTH_CRC8_WIMAX_OFDMA_HCS then Some "crc8_wimax_ofdma_hcs"
  else if h =? IMB_AUTH_CRC7_FP_HEADER then Some "crc7_fp_header"
  else if h =? IMB_AUTH_CRC6_IUUP_HEADER then Some "crc6_iuup_header"
  else None.

Definition one (p : pat) : option names := Some (mk_names [[p]] []).
Definition nothing : option names := Some (mk_names [] []).

(* hash algorithm -> names *)
Definition hash_names (h : N) : option names :=
  if h =? IMB_AUTH_HMAC_SHA_1 then one (stm "submit_job_hmac" ["hmac_sha_1_ooo"])
  else if h =? IMB_AUTH_HMAC_SHA_224 then one (stm "submit_job_hmac_sha_224" ["hmac_sha_224_ooo"])
  else if h =? IMB_AUTH_HMAC_SHA_256 then one (stm "submit_job_hmac_sha_256" ["hmac_sha_256_ooo"])
  else if h =? IMB_AUTH_HMAC_SHA_384 then one (stm "submit_job_hmac_sha_384" ["hmac_sha_384_ooo"])
  else if h =? IMB_AUTH_HMAC_SHA_512 then one (stm "submit_job_hmac_sha_512" ["hmac_sha_512_ooo"])
  else if h =? IMB_AUTH_AES_XCBC then one (stm "submit_job_aes_xcbc" ["aes_xcbc_ooo"])
  else if h =? IMB_AUTH_MD5 then one (stm "submit_job_hmac_md5" ["hmac_md5_ooo"])
  else if h =? IMB_AUTH_NULL then nothing
  else if h =? IMB_AUTH_AES_GMAC then nothing              (* tag produced by the AES-GCM cipher entry *)
  else if h =? IMB_AUTH_CUSTOM then one (ex "@job.hash_func")
  else if h =? IMB_AUTH_AES_CCM then
    Some (mk_names [[stm "submit_job_aes128_ccm_auth" ["aes_ccm_ooo"]];
                    [stm "submit_job_aes256_ccm_auth" ["aes256_ccm_ooo"]]] [])
  else if h =? IMB_AUTH_AES_CMAC then one (stm "submit_job_aes128_cmac_auth" ["aes_cmac_ooo"])
  else if h =? IMB_AUTH_SHA_1 then one (stm "submit_job_sha1" ["sha_1_ooo"])
  else if h =? IMB_AUTH_SHA_224 then one (stm "submit_job_sha224" ["sha_224_ooo"])
  else if h =? IMB_AUTH_SHA_256 then one (stm "submit_job_sha256" ["sha_256_ooo"])
  else if h =? IMB_AUTH_SHA_384 then one (stm "submit_job_sha384" ["sha_384_ooo"])
  else if h =? IMB_AUTH_SHA_512 then one (stm "submit_job_sha512" ["sha_512_ooo"])
  else if h =? IMB_AUTH_AES_CMAC_BITLEN then one (stm "submit_job_aes128_cmac_auth" ["aes_cmac_ooo"])
  else if h =? IMB_AUTH_PON_CRC_BIP then nothing           (* done by the PON cipher entry *)
  else if h =? IMB_AUTH_ZUC_EIA3_BITLEN then one (stm "submit_job_zuc_eia3" ["zuc_eia3_ooo"])
  else if h =? IMB_AUTH_DOCSIS_CRC32 then nothing          (* done by the DOCSIS cipher entry *)
  else if h =? IMB_AUTH_SNOW3G_UIA2_BITLEN then one (stm "submit_job_snow3g_uia2" ["snow3g_uia2_ooo"])
  else if h =? IMB_AUTH_KASUMI_UIA1 then one (ex "@mgr.f9_1_buffer")
  else if h =? IMB_AUTH_AES_GMAC_128 then
    Some (mk_names [[ex "@mgr.gmac128_init"]; [ex "@mgr.gmac128_update"]; [ex "@mgr.gmac128_finalize"]] [])
  else if h =? IMB_AUTH_AES_GMAC_192 then
    Some (mk_names [[ex "@mgr.gmac192_init"]; [ex "@mgr.gmac192_update"]; [ex "@mgr.gmac192_finalize"]] [])
  else if h =? IMB_AUTH_AES_GMAC_256 then
    Some (mk_names [[ex "@mgr.gmac256_init"]; [ex "@mgr.gmac256_update"]; [ex "@mgr.gmac256_finalize"]] [])
  else if h =? IMB_AUTH_AES_CMAC_256 then one (stm "submit_job_aes256_cmac_auth" ["aes256_cmac_ooo"])
  else if h =? IMB_AUTH_POLY1305 then one (st "poly1305_mac")
  else if h =? IMB_AUTH_CHACHA20_POLY1305 then nothing
  else if h =? IMB_AUTH_CHACHA20_POLY1305_SGL then nothing
  else if h =? IMB_AUTH_ZUC256_EIA3_BITLEN then
    one (stm "submit_job_zuc256_eia3" ["zuc256_eia3_16B_ooo"; "zuc256_eia3_8B_ooo"; "zuc256_eia3_ooo"])
  else if h =? IMB_AUTH_SNOW_V_AEAD then nothing
  else if h =? IMB_AUTH_GCM_SGL then nothing
  else if h =? IMB_AUTH_GHASH then Some (mk_names [[ex "@mgr.ghash"]] [])
  else if h =? IMB_AUTH_SM3 then one (st "sm3_msg_submit")
  else if h =? IMB_AUTH_HMAC_SM3 then one (st "sm3_hmac_submit")
  else if h =? IMB_AUTH_SM4_GCM then nothing
  else match crc_member h with
       | Some m => one (ex ("@mgr." ++ m))
       | None => None
       end.

(* ---- the naming relations asked for by the property statement ---- *)
Definition names_pats (n : names) : list pat := concat (n_groups n).

(* [sym] is a kernel of cipher (mode, key length, direction) *)
Definition names_alg (sym : string) (alg : N * N * N) : bool :=
  let '(mode, klen, dir) := alg in
  match cipher_names mode klen (dir =? IMB_DIR_ENCRYPT) with
  | Some n => existsb (fun p => pat_matches all_suffixes p sym) (names_pats n)
  | None => false
  end.

(* [sym] is a kernel of hash algorithm h *)
Definition names_hash (sym : string) (h : N) : bool :=
  match hash_names h with
  | Some n => existsb (fun p => pat_matches all_suffixes p sym) (names_pats n)
  | None => false
  end.

(* ================================================================================== *)
(* 7. What a table entry has to look like                                               *)
(* ================================================================================== *)

Fixpoint insert_str (s : string) (l : list string) : list string :=
  match l with
  | [] => [s]
  | x :: t => if String.eqb s x then l else if String.ltb s x then s :: l else x :: insert_str s t
  end.
Definition sort_strs (l : list string) : list string := fold_right insert_str [] l.
Fixpoint strs_eqb (a b : list string) : bool :=
  match a, b with
  | [], [] => true
  | x :: a', y :: b' => String.eqb x y && strs_eqb a' b'
  | _, _ => false
  end.

Definition matched_pats (sufs : list string) (ps : list pat) (calls : list string) : list pat :=
  filter (fun p => existsb (pat_matches sufs p) calls) ps.

(* the entry [w] of a variant of family [f] implements [n]:
   every callee is named by [n], every group of [n] is called, and the out-of-order managers it
   loads are exactly those of the kernels it calls *)
(* memory helpers any entry may call (copy / wipe of local buffers): not kernels *)
Definition neutral_helpers : list pat :=
  [ex "memcpy"; ex "memmove"; ex "memset"; ex "imb_clear_mem"; ex "force_memset_zero"].

Definition entry_ok (f : family) (n : names) (w : wrapper) : bool :=
  let sufs := suffixes_of f in
  let ps := (names_pats n ++ n_aux n ++ neutral_helpers)%list in
  forallb (fun c => existsb (fun p => pat_matches sufs p c) ps) (w_calls w) &&
  forallb (fun g => existsb (fun p => existsb (pat_matches sufs p) (w_calls w)) g) (n_groups n) &&
  strs_eqb (sort_strs (flat_map p_mgrs (matched_pats sufs ps (w_calls w)))) (sort_strs (w_mgrs w)).

(* flush counterpart of a submit pattern: only multi-buffer kernels (those with a manager) have one.
   [strict] = false additionally tolerates a flush entry that calls the job's own callback again
   (FLUSH_JOB_CUSTOM_CIPHER / FLUSH_JOB_CUSTOM_HASH): such an entry hands back jobs it does not hold. *)
Definition flush_pat (strict : bool) (p : pat) : list pat :=
  match p_kind p, p_mgrs p with
  | Stem, _ :: _ =>
      if prefix "submit_job_" (p_name p)
      then [mk_pat Stem ("flush_job_" ++ substring 11 (String.length (p_name p) - 11) (p_name p)) (p_mgrs p)]
      else []
  | Exact, _ => if negb strict && prefix "@job." (p_name p) then [p] else []
  | _, _ => []
  end.

(* the flush entry [wf] belongs to the submit entry [ws]: it calls only flush twins of the
   submit kernels (or the documented helpers), and works on the same managers; when the submit
   side queues into a manager the flush side must be able to drain it *)
Definition flush_entry_ok (strict : bool) (f : family) (n : names) (ws wf : wrapper) : bool :=
  let sufs := suffixes_of f in
  let fps := flat_map (flush_pat strict) (names_pats n ++ n_aux n)%list in
  let ps := (fps ++ n_aux n ++ neutral_helpers)%list in
  forallb (fun c => existsb (fun p => pat_matches sufs p c) ps) (w_calls wf) &&
  strs_eqb (sort_strs (flat_map p_mgrs (matched_pats sufs fps (w_calls wf)))) (sort_strs (w_mgrs wf)) &&
  (strs_eqb (sort_strs (w_mgrs wf)) (sort_strs (w_mgrs ws))).

(* a flush entry that may hand back a job it does not hold *)
Definition flush_reenters (wf : wrapper) : bool := existsb (prefix "@job.") (w_calls wf).

Definition find_variant_family (vt : variant_tables) : option family := family_of (vt_name vt).

(* cipher side of a cell on one variant: the submit entry at the computed index implements the
   named cipher, and the flush entry at the same index drains the same manager *)
Definition cipher_side_ok (vt : variant_tables) (mode klen dir : N) : bool :=
  match find_variant_family vt, cipher_names mode klen (dir =? IMB_DIR_ENCRYPT) with
  | Some f, Some n =>
      let idx := calc_cipher_tab_index mode klen dir in
      match tab_get (vt_submit_cipher vt) idx, tab_get (vt_flush_cipher vt) idx with
      | Some ws, Some wf => entry_ok f n ws && flush_entry_ok true f n ws wf && negb (flush_reenters wf)
      | _, _ => false
      end
  | _, _ => false
  end.

(* [strict] = false: row-order view (the entry is the one of hash h); true: also no flush re-entry *)
Definition hash_side_ok_gen (strict : bool) (vt : variant_tables) (h : N) : bool :=
  match find_variant_family vt, hash_names h with
  | Some f, Some n =>
      match tab_get (vt_submit_hash vt) h, tab_get (vt_flush_hash vt) h with
      | Some ws, Some wf => entry_ok f n ws && flush_entry_ok strict f n ws wf && (negb strict || negb (flush_reenters wf))
      | _, _ => false
      end
  | _, _ => false
  end.
Definition hash_side_ok := hash_side_ok_gen true.

(* ---- "exactly": a kernel symbol does not name two different algorithms ---- *)
(* kernels legitimately shared between cells *)
(* modes whose kernel is the same function for both directions *)
Definition dir_symmetric (m : N) : bool :=
  existsb (N.eqb m) [IMB_CIPHER_CNTR; IMB_CIPHER_CNTR_BITLEN; IMB_CIPHER_NULL; IMB_CIPHER_CUSTOM; IMB_CIPHER_CCM;
                     IMB_CIPHER_ZUC_EEA3; IMB_CIPHER_SNOW3G_UEA2_BITLEN; IMB_CIPHER_KASUMI_UEA1_BITLEN;
                     IMB_CIPHER_CHACHA20; IMB_CIPHER_CHACHA20_POLY1305; IMB_CIPHER_CHACHA20_POLY1305_SGL;
                     IMB_CIPHER_SNOW_V; IMB_CIPHER_SNOW_V_AEAD; IMB_CIPHER_GCM_SGL; IMB_CIPHER_SM4_ECB;
                     IMB_CIPHER_SM4_CNTR; IMB_CIPHER_SM4_GCM].

Definition share_ok (a b : N * N * N) : bool :=
  let '(m1, k1, d1) := a in let '(m2, k2, d2) := b in
  ((m1 =? m2) && (k1 =? k2) && ((d1 =? d2) || dir_symmetric m1)) ||
  (* PON: one key size behind all four key-class slots; CUSTOM: the caller's callback whatever the key length *)
  ((m1 =? IMB_CIPHER_PON_AES_CNTR) && (m2 =? IMB_CIPHER_PON_AES_CNTR) && (d1 =? d2)) ||
  ((m1 =? IMB_CIPHER_CUSTOM) && (m2 =? IMB_CIPHER_CUSTOM)) ||
  (* DOCSIS SEC BPI is AES-CBC (+ CFB for the tail) *)
  ((k1 =? k2) && (d1 =? d2) &&
   (((m1 =? IMB_CIPHER_CBC) && (m2 =? IMB_CIPHER_DOCSIS_SEC_BPI)) || ((m2 =? IMB_CIPHER_CBC) && (m1 =? IMB_CIPHER_DOCSIS_SEC_BPI)))) ||
  (* SM4-GCM is SM4-CTR + GHASH *)
  ((k1 =? k2) &&
   (((m1 =? IMB_CIPHER_SM4_CNTR) && (m2 =? IMB_CIPHER_SM4_GCM)) || ((m2 =? IMB_CIPHER_SM4_CNTR) && (m1 =? IMB_CIPHER_SM4_GCM)))).

(* all symbols any table entry of any variant calls *)
Definition wrappers_of (vt : variant_tables) : list wrapper :=
  flat_map (fun o => match o with Some w => [w] | None => [] end)
           (vt_submit_cipher vt ++ vt_flush_cipher vt ++ vt_submit_hash vt ++ vt_flush_hash vt)%list.
Definition all_called_symbols : list string :=
  sort_strs (flat_map (fun vt => flat_map w_calls (wrappers_of vt)) all_variant_tables).

Definition all_cipher_algs : list (N * N * N) :=
  flat_map (fun m => flat_map (fun k => map (fun d => (m, k, d)) all_dirs) all_klens) all_modes.

(* hashes that share a kernel: AES-CMAC and its bit-length form *)
Definition hash_share_ok (a b : N) : bool :=
  (a =? b) ||
  ((a =? IMB_AUTH_AES_CMAC) && (b =? IMB_AUTH_AES_CMAC_BITLEN)) || ((b =? IMB_AUTH_AES_CMAC) && (a =? IMB_AUTH_AES_CMAC_BITLEN)).
