(* C13 -- the manager families of intel-ipsec-mb as instances of Mgr/SafeData.v.

   Each table row is one per-lane field of an MB_MGR_*_OOO structure:

       F name  w_submit t_flush  c_submit c_flush_ret c_flush_null  claim       (FJ: k_junk set)

   transcribed from the submit / flush routines and their %ifdef SAFE_DATA blocks (file names in
   the comments; "x4/x8" = SSE / AVX / AVX2 kernels, "vaes" = VAES AVX512 kernels that keep the
   expanded keys in args.key_tab).  The tables state what the SAFE_DATA code is WRITTEN TO DO
   (its comments and structure).  Where the assembled code does less -- wrong offset, missing
   index, empty loop -- the free-lane measurement of harness/k13_scan.c (run by checks/c13.py on
   every API call) disagrees with the claim and the check reports it; see C13_NOTES.md.

   [claim] marks the fields whose content is derived from keys or text.  Not claimed, on purpose:
   pointers (args.keys, args.in/out: addresses, not material; submit zeroes them, flush leaves the
   copies it made in empty lanes), public chaining values where the code makes no attempt
   (args.IV of the VAES CBC/CFB/CMAC flush, XCBC ICV on VAES, ZUC args.iv), SHA-224/384 digest
   rows beyond the digest size, and the plain SHA managers (public digests; their extra_block
   keeps padding and length, the message bytes are looked for by the scan instead).

   The names are the ones harness/k13_scan.c prints (struct member paths), the architecture
   classes are the ones checks/c13.py maps variants to:
       sse          sse:f0 sse:f1 sse:f2        avx2    avx2:f0 avx2:f1
       avx512       avx512:f1 (type 1)          avx512-vaes   avx512:f0 (type 2, VAES/GFNI) *)
From Coq Require Import List Bool String.
From IMB Require Import Mgr.SafeData.
Import ListNotations.
Open Scope string_scope.

Definition F (name : string) (ws tf cs cfr cfn cl : bool) : fspec :=
  mk_fspec name ws tf cs cfr cfn false cl.
(* a field that the kernel turns into job-independent garbage in lanes without a job *)
Definition FJ (name : string) (ws tf cs cfr cfn cl : bool) : fspec :=
  mk_fspec name ws tf cs cfr cfn true cl.
Definition T := true.
Definition N := false.

(* AES-CBC encrypt, x4/x8: include/mb_mgr_aes_cbc_enc_{submit,flush}_sse.inc,
   avx2_t1/mb_mgr_aes128_cbc_enc_{submit,flush}_avx.asm.
   submit: "Clear IV" + keys pointer of idx; flush: good lane's in/out/keys/IV copied to empty
   lanes, "Clear IVs of returned job and NULL lanes". *)
Definition fam_aes_cbc_x8 : family :=
  [ F "args.keys"    T T  T N N  N;
    F "args.IV"      T T  T N T  T ].

(* AES-CBC / CFB encrypt, VAES: avx512_t2/mb_mgr_aes128_cbc_enc_{submit,flush}_avx512.asm,
   avx512_t2/mb_mgr_aes128_cfb_enc_{submit,flush}_vaes_avx512.asm.
   submit copies the expanded keys into key_tab; flush passes a valid-lane mask to the kernel and
   copies nothing but in/out pointers; both clear key_tab of the returned lane only.  The IV row
   is rewritten by the kernel for all lanes and not cleared by flush. *)
Definition fam_aes_cbc_vaes : family :=
  [ F "args.IV"      T T  T N N  N;
    F "args.key_tab" T N  T T N  T ].
Definition fam_aes_cfb_vaes : family :=
  [ F "args.IV"      T T  N N N  N;
    F "args.key_tab" T N  T T N  T ].

(* AES-CBCS 1:9: avx2_t1/mb_mgr_aes128_cbcs_1_9_{submit,flush}_avx.asm (and the SSE twins, whose
   flush contains the "clear returned jobs and NULL lanes" loop) *)
Definition fam_cbcs_x8 : family :=
  [ F "args.keys"    T T  T N N  N;
    F "args.IV"      T T  T N T  T ].
(* avx512_t2/mb_mgr_aes128_cbcs_1_9_{submit,flush}_avx512.asm: COPY_IV_KEYS_TO_NULL_LANES then
   CLEAR_IV_KEYS_IN_NULL_LANES with the returned lane added to the mask *)
Definition fam_cbcs_vaes : family :=
  [ F "args.IV"      T T  T T T  T;
    F "args.key_tab" T T  T T T  T ].

(* DOCSIS SEC BPI (+CRC32): x4/x8 share the CBC templates; avx512_t1/aes_docsis_enc_avx512.asm,
   avx512_t2/aes_docsis_enc_vaes_avx512.asm ("clear key pointer / CRC state / expanded keys") *)
Definition fam_docsis_x8 : family :=
  [ F "args.keys"    T T  T N N  N;
    F "args.IV"      T T  T N T  T ].
Definition fam_docsis_avx512 : family :=
  [ F "args.keys"    T T  T N N  N;
    F "args.IV"      T T  N N N  N;
    F "crc_init"     T N  T T T  T ].
Definition fam_docsis_vaes : family :=
  [ F "args.IV"      T T  N N N  N;
    F "args.key_tab" T N  T T T  T;
    F "crc_init"     T N  T T T  T ].

(* DES / 3DES / DOCSIS-DES: avx512_t1/mb_mgr_des_avx512.asm
   submit: "Clear IV" of MIN_IDX (both halves); flush: "Clear IV of returned job and NULL lanes" *)
Definition fam_des_avx512 : family :=
  [ F "args.keys"    T T  N N N  N;
    F "args.IV"      T T  T T T  T ].

(* HMAC-SHA1/224/256/384/512, HMAC-MD5: */mb_mgr_hmac_{sha1,sha256,sha512,md5}_{submit,flush}_*.asm
   submit: "Clear digest, outer_block and extra_block of returned job";
   flush: data pointer of the good lane copied to empty lanes and the kernel runs on all lanes
   (digest rows of empty lanes evolve), then the same three fields are cleared in the returned
   lane and in every lane whose job_in_lane is NULL. *)
Definition fam_hmac : family :=
  [ F "args.digest"       T T  T T T  T;
    F "ldata.extra_block" T N  T T T  T;
    F "ldata.outer_block" T N  T T T  T ].

(* AES-XCBC: x4/x8 sse_t1/mb_mgr_aes128_xcbc_{submit,flush}_x4_sse.asm, avx2_t1/..x8_avx.asm
   ("Clear ICV", "Clear final block (32 bytes)"; flush: "in returned job and NULL lanes") *)
Definition fam_xcbc_x8 : family :=
  [ F "args.keys"         T T  N N N  N;
    F "args.ICV"          T T  T T T  T;
    F "ldata.final_block" T N  T T T  T ].
(* avx512_t2/mb_mgr_aes128_xcbc_submit_flush_x16_vaes_avx512.asm: final block and expanded keys of
   the returned lane *)
Definition fam_xcbc_vaes : family :=
  [ F "args.ICV"          T T  N N N  N;
    F "args.key_tab"      T N  T T N  T;
    F "ldata.final_block" T N  T T N  T ].

(* AES-CCM: include/mb_mgr_aes_ccm_submit_flush_sse.inc, avx2_t1/..ccm_auth_submit_flush_x8_avx.asm
   ("Clear digest (in memory for CBC IV), counter block 0 and AAD" + keys pointer) *)
Definition fam_ccm_x8 : family :=
  [ F "args.keys"    T T  T T T  N;
    F "args.IV"      T T  T T T  T;
    F "init_blocks"  T N  T T T  T ].
(* avx512_t2/..ccm_auth_submit_flush_x16_vaes_avx512.asm: CLEAR_IV_KEYS_BLK0_IN_NULL_LANES *)
Definition fam_ccm_vaes : family :=
  [ F "args.IV"      T T  T T T  T;
    F "args.key_tab" T T  T T T  T;
    F "init_blocks"  T N  T T T  T ].

(* AES-CMAC: include/mb_mgr_aes_cmac_submit_flush_sse.inc, avx2_t1/..cmac_submit_flush_x8_avx.asm
   ("Clear digest (in memory for IV) and scratch memory") *)
Definition fam_cmac_x8 : family :=
  [ F "args.keys"    T T  N N N  N;
    F "args.IV"      T T  T T T  T;
    F "scratch"      T N  T T T  T ].
(* avx512_t2/..cmac_submit_flush_x16_vaes_avx512.asm: scratch, IV and expanded keys of idx *)
Definition fam_cmac_vaes : family :=
  [ F "args.IV"      T T  T T N  N;
    F "args.key_tab" T N  T T N  T;
    F "scratch"      T N  T T N  T ].

(* ZUC-EEA3 / EIA3 (128 and 256): */mb_mgr_zuc_submit_flush_{sse,avx2,avx512}.asm
   CLEAR_ZUC_LANE_STATE for the returned lane, CLEAR_ZUC_STATE for NULL lanes + returned lane in
   flush ("bitmask with NULL lanes and job to return"); the AVX512 EIA3 code also keeps 128 bytes
   of keystream per lane in args.ks *)
Definition fam_zuc_eea3 : family :=
  [ F "args.keys"    T T  N N N  N;
    F "args.iv"      T T  N N N  N;
    F "state"        T T  T T T  T ].
Definition fam_zuc_eia3_x8 : family :=
  [ F "args.keys"    T T  N N N  N;
    F "args.iv"      T T  N N N  N ].
Definition fam_zuc_eia3_avx512 : family :=
  [ F "args.keys"    T T  N N N  N;
    F "args.iv"      T T  N N N  N;
    F "args.ks"      T T  T T T  T;
    F "state"        T T  T T T  T ].

(* SNOW3G-UEA2: sse_t1/mb_mgr_snow3g_uea2_submit_flush_x4_sse.asm,
   avx512_t2/mb_mgr_snow3g_uea2_submit_flush_vaes_avx512.asm
   ("clear finished job lane: LFSR, FSM" on the single completion path shared by submit and flush).
   Flush does not copy keys: the kernel is given the mask of lanes in use, but it clocks all lanes,
   so the zeroed LFSR/FSM of a job-less lane turns into key-independent garbage (k_junk). *)
Definition fam_snow3g_uea2 : family :=
  [ F  "args.keys"     T N  N N N  N;
    FJ "args.LFSR_FSM" T N  T T N  T ].
(* SNOW3G-UIA2: sse_t1/mb_mgr_snow3g_uia2_submit_flush_x4_sse.asm,
   avx512_t2/mb_mgr_snow3g_uia2_submit_flush_vaes_avx512.asm
   ("clear keystream for processed job").  Flush copies the key and IV pointers of a valid lane to
   the empty lanes and initialises ALL lanes: the empty lanes receive the same LFSR/FSM state and
   the same five keystream words as the valid job.  The property needs them cleared as well. *)
Definition fam_snow3g_uia2_x8 : family :=
  [ F "args.keys"     T T  N N N  N;
    F "args.LFSR_FSM" T T  T T T  T;
    F "ks"            T T  T T T  T ].
Definition fam_snow3g_uia2_avx512 : family :=
  [ F "args.keys"     T T  N N N  N;
    F "ks"            T T  T T T  T ].

(* ---------------------------------------------------------------------------------------- *)
Record instance : Type := mk_inst {
  i_arch : string;
  i_ooo  : string;    (* member of IMB_MGR pointing at the manager *)
  i_fam  : family
}.

Definition for_archs (archs : list string) (ooos : list string) (fam : family) : list instance :=
  flat_map (fun a => map (fun o => mk_inst a o fam) ooos) archs.

Definition x8 := ["sse"; "avx2"; "avx512"].
Definition all4 := ["sse"; "avx2"; "avx512"; "avx512-vaes"].
Definition a512 := ["avx512"; "avx512-vaes"].

Definition instances : list instance :=
  for_archs x8 ["aes128_ooo"; "aes192_ooo"; "aes256_ooo"] fam_aes_cbc_x8 ++
  for_archs ["avx512-vaes"] ["aes128_ooo"; "aes192_ooo"; "aes256_ooo"] fam_aes_cbc_vaes ++
  for_archs ["avx512-vaes"] ["aes_cfb_128_ooo"; "aes_cfb_192_ooo"; "aes_cfb_256_ooo"] fam_aes_cfb_vaes ++
  for_archs x8 ["aes128_cbcs_ooo"] fam_cbcs_x8 ++
  for_archs ["avx512-vaes"] ["aes128_cbcs_ooo"] fam_cbcs_vaes ++
  for_archs ["sse"; "avx2"] ["docsis128_sec_ooo"; "docsis128_crc32_sec_ooo"; "docsis256_sec_ooo";
                             "docsis256_crc32_sec_ooo"] fam_docsis_x8 ++
  for_archs ["avx512"] ["docsis128_sec_ooo"; "docsis128_crc32_sec_ooo"; "docsis256_sec_ooo";
                        "docsis256_crc32_sec_ooo"] fam_docsis_avx512 ++
  for_archs ["avx512-vaes"] ["docsis128_sec_ooo"; "docsis128_crc32_sec_ooo"; "docsis256_sec_ooo";
                             "docsis256_crc32_sec_ooo"] fam_docsis_vaes ++
  for_archs a512 ["des_enc_ooo"; "des_dec_ooo"; "des3_enc_ooo"; "des3_dec_ooo";
                  "docsis_des_enc_ooo"; "docsis_des_dec_ooo"] fam_des_avx512 ++
  for_archs all4 ["hmac_sha_1_ooo"; "hmac_sha_224_ooo"; "hmac_sha_256_ooo"; "hmac_sha_384_ooo";
                  "hmac_sha_512_ooo"; "hmac_md5_ooo"] fam_hmac ++
  for_archs x8 ["aes_xcbc_ooo"] fam_xcbc_x8 ++
  for_archs ["avx512-vaes"] ["aes_xcbc_ooo"] fam_xcbc_vaes ++
  for_archs x8 ["aes_ccm_ooo"; "aes256_ccm_ooo"] fam_ccm_x8 ++
  for_archs ["avx512-vaes"] ["aes_ccm_ooo"; "aes256_ccm_ooo"] fam_ccm_vaes ++
  for_archs x8 ["aes_cmac_ooo"; "aes256_cmac_ooo"] fam_cmac_x8 ++
  for_archs ["avx512-vaes"] ["aes_cmac_ooo"; "aes256_cmac_ooo"] fam_cmac_vaes ++
  for_archs all4 ["zuc_eea3_ooo"; "zuc256_eea3_ooo"] fam_zuc_eea3 ++
  for_archs ["sse"; "avx2"] ["zuc_eia3_ooo"; "zuc256_eia3_ooo"; "zuc256_eia3_8B_ooo";
                             "zuc256_eia3_16B_ooo"] fam_zuc_eia3_x8 ++
  for_archs a512 ["zuc_eia3_ooo"; "zuc256_eia3_ooo"; "zuc256_eia3_8B_ooo"; "zuc256_eia3_16B_ooo"]
            fam_zuc_eia3_avx512 ++
  for_archs all4 ["snow3g_uea2_ooo"] fam_snow3g_uea2 ++
  for_archs ["sse"; "avx2"] ["snow3g_uia2_ooo"] fam_snow3g_uia2_x8 ++
  for_archs a512 ["snow3g_uia2_ooo"] fam_snow3g_uia2_avx512.

Definition instances_ok : bool := forallb (fun i => family_ok (i_fam i)) instances.

(* what checks/c13.py reads: (architecture class, (manager, field)) for every claimed field;
   claimed_clean: must be all-zero in a lane without a job; claimed_junk: may hold garbage there,
   which must not depend on any key or text *)
Definition claimed_clean : list (string * (string * string)) :=
  flat_map (fun i => map (fun f => (i_arch i, (i_ooo i, f_name f)))
                         (filter (fun f => claim f && negb (k_junk f)) (i_fam i))) instances.
Definition claimed_junk : list (string * (string * string)) :=
  flat_map (fun i => map (fun f => (i_arch i, (i_ooo i, f_name f)))
                         (filter (fun f => claim f && k_junk f) (i_fam i))) instances.
