(* Mgr/OooInst.v — lane kernels for the generic scheduler of Mgr/Ooo.v.

   Every multi-buffer kernel of the library advances each lane block by block, carrying a small
   per-lane state (CBC chaining value / hash digest / CBC-MAC value / counter / keystream
   generator state) and possibly emitting one output block per input block.  [fold lane] is that
   shape: a job brings its own block function f (it embeds the job's key), an initial accumulator
   and its list of input blocks; one unit = one block.  (The assembly keeps lengths in bytes for
   some managers and in blocks for others; all lengths in one manager are multiples of the same
   block size, so the minimum lane and the differences are the same in either unit.) *)
From Coq Require Import ZArith List Bool.
From IMB Require Import Lib.Bytes Mgr.Ooo Spec.AES Spec.AESModes.
Import ListNotations.
Local Open Scope Z_scope.

Section FoldLane.
Variables A B O : Type.

Record fjob := mkfjob { fj_f : A -> B -> A * O; fj_acc : A; fj_in : list B }.
Record flane := mkflane { fl_f : A -> B -> A * O; fl_acc : A; fl_todo : list B; fl_out : list O }.

Definition finit (j : fjob) : flane := mkflane (fj_f j) (fj_acc j) (fj_in j) [].
Definition funits (j : fjob) : Z := Z.of_nat (length (fj_in j)).

Definition fstep1 (s : flane) : flane :=
  match fl_todo s with
  | [] => s
  | b :: r => let '(a', o) := fl_f s (fl_acc s) b in mkflane (fl_f s) a' r (fl_out s ++ [o])
  end.
Definition fstep (s : flane) (n : Z) : flane := iter (Z.to_nat n) fstep1 s.

(* what the job computes when processed alone, in one go *)
Fixpoint fold_outs (f : A -> B -> A * O) (a : A) (bs : list B) : A * list O :=
  match bs with
  | [] => (a, [])
  | b :: r => let '(a', o) := f a b in let '(a'', os) := fold_outs f a' r in (a'', o :: os)
  end.
Definition falone (j : fjob) : A * list O := fold_outs (fj_f j) (fj_acc j) (fj_in j).

Definition fdummy (f : A -> B -> A * O) (a : A) : flane := mkflane f a [] [].
End FoldLane.

Arguments mkfjob {A B O} _ _ _.
Arguments fj_f {A B O} _. Arguments fj_acc {A B O} _. Arguments fj_in {A B O} _.
Arguments fl_acc {A B O} _. Arguments fl_out {A B O} _. Arguments fl_todo {A B O} _.

(* AES-CBC encryption lanes: accumulator = chaining value, output = ciphertext block *)
Definition cbc_enc_f (E : bytes -> bytes) (ch b : bytes) : bytes * bytes :=
  let c := E (xor_bytes b ch) in (c, c).
Definition cbc_enc_job (E : bytes -> bytes) (iv : bytes) (blocks : list bytes) : fjob bytes bytes bytes :=
  mkfjob (cbc_enc_f E) iv blocks.

(* Merkle-Damgard hash lanes (SHA-1/2, MD5, SM3, and the HMAC inner/outer passes):
   accumulator = digest state, no per-block output *)
Definition md_f (compress : list N -> bytes -> list N) (st : list N) (b : bytes) : list N * unit :=
  (compress st b, tt).
Definition md_job (compress : list N -> bytes -> list N) (iv : list N) (blocks : list bytes)
  : fjob (list N) bytes unit := mkfjob (md_f compress) iv blocks.

(* CBC-MAC lanes (CCM auth, CMAC, XCBC): accumulator = running MAC, no per-block output *)
Definition cbcmac_f (E : bytes -> bytes) (m b : bytes) : bytes * unit := (E (xor_bytes b m), tt).
Definition cbcmac_job (E : bytes -> bytes) (m0 : bytes) (blocks : list bytes) : fjob bytes bytes unit :=
  mkfjob (cbcmac_f E) m0 blocks.
