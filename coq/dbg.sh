#!/bin/sh
# usage: dbg.sh File.v LINE  -- show the proof state just before LINE
f=$1; n=$2; d=/var/tmp/coqdbg; mkdir -p $d
head -n $((n-1)) $f > $d/Dbg.v; echo "Show." >> $d/Dbg.v
cd /verif/coq && timeout 300 coqc -Q . IMB $d/Dbg.v 2>&1 | grep -v conda | head -${3:-60}
