#!/usr/bin/env python3
"""Apply each seeded change (seeded/<id>/patch.diff) to /repo in turn, run the quick check(s) of the
property it breaks (and optionally more), record which checks report a violation, and undo the
change.  Never commits anything in /repo.   usage: tools/run_seeded.py [id ...] [--also C01,C08] [--tier quick]"""
import os, sys, json, subprocess, glob, time
VERIF = os.path.dirname(os.path.dirname(os.path.abspath(__file__)))

def sh(cmd, **kw):
    return subprocess.run(cmd, shell=isinstance(cmd, str), stdout=subprocess.PIPE, stderr=subprocess.STDOUT, text=True, **kw)

def main():
    args = [a for a in sys.argv[1:] if not a.startswith("--")]
    also = []
    tier = "quick"
    for i, a in enumerate(sys.argv):
        if a == "--also":
            also = sys.argv[i + 1].split(",")
            args = [x for x in args if x != sys.argv[i + 1]]
        if a == "--tier":
            tier = sys.argv[i + 1]
            args = [x for x in args if x != sys.argv[i + 1]]
    ids = args or sorted(os.path.basename(d) for d in glob.glob(os.path.join(VERIF, "seeded", "*")) if os.path.isdir(d))
    # work on a scratch worktree of /repo's HEAD so that nothing else running against /repo is disturbed
    WT = "/var/tmp/seedtest/repo"
    BD = "/var/tmp/seedtest/build"
    sh("git -C /repo worktree remove --force %s" % WT)
    sh("rm -rf /var/tmp/seedtest/repo")
    os.makedirs("/var/tmp/seedtest", exist_ok=True)
    a = sh("git -C /repo worktree add --detach %s HEAD" % WT)
    if a.returncode != 0:
        print(a.stdout)
        return 2
    # private copy of the Coq development: the generated files (coq/Gen) of a scratch tree must not be seen by checks that
    # run against /repo (or another scratch tree) at the same time
    os.makedirs(BD, exist_ok=True)
    sh(["rsync", "-a", "--delete", os.path.join(VERIF, "coq") + "/", os.path.join(BD, "coq") + "/"])
    # models extracted from an earlier scratch tree would look newer than the restored .vo files: extract again
    sh("rm -rf %s %s/bin/*_driver" % (os.path.join(BD, "ocaml"), BD))
    env = dict(os.environ, IMB_REPO=WT, IMB_VERIF_BUILD=BD, IMB_COQ_DIR=os.path.join(BD, "coq"))
    rc = 0
    for sid in ids:
        d = os.path.join(VERIF, "seeded", sid)
        meta = json.load(open(os.path.join(d, "meta.json")))
        props = [meta["property"]] + [p for p in also if p != meta["property"]]
        a = sh(["git", "-C", WT, "apply", os.path.join(d, "patch.diff")])
        if a.returncode != 0:
            print(sid, "patch does not apply:", a.stdout[-300:])
            rc = 1
            continue
        results = {}
        try:
            for p in props:
                t0 = time.time()
                r = sh([os.path.join(VERIF, "check"), p, "--tier", tier], cwd=VERIF, timeout=3600, env=env)
                viol = [l for l in r.stdout.splitlines() if l.startswith("VIOLATION")]
                results[p] = {"exit": r.returncode, "violations": viol[:5], "wall_s": round(time.time() - t0, 1)}
                print(sid, p, "exit", r.returncode, viol[:2])
        finally:
            sh("git -C %s checkout -- ." % WT)
        meta.setdefault("detection", {})[tier] = results
        meta["detected"] = any(v["exit"] != 0 for v in results.values())
        json.dump(meta, open(os.path.join(d, "meta.json"), "w"), indent=1)
        if not meta["detected"]:
            rc = 1
    return rc

sys.exit(main())
