#!/bin/sh
# run every registered thorough command once, sequentially; prints one summary line per check
cd "$(dirname "$0")/.."; TIER=${1:-quick}
./setup.sh > setup_run.log 2>&1
for c in C01 C02 C03 C04 C05 C06 C07 C08 C09 C10 C11 C12 C13 C14 C15 C16 C17 C18 C19 C20; do
  s=$(date +%s)
  ./check $c --tier $TIER > ${TIER}_$c.log 2>&1; rc=$?
  echo "$c rc=$rc wall=$(( $(date +%s) - s ))s $(grep -c '^VIOLATION' ${TIER}_$c.log) violations"
  grep '^VIOLATION' ${TIER}_$c.log | head -5
done
