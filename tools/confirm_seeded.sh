#!/bin/bash
# usage: confirm_seeded.sh <worktree> <seeded-dir>
# Confirms a seeded change in a scratch worktree: builds with and without the change, runs the
# demonstration on both (must fail with, pass without), runs the repository's full test suite on the
# changed build. Writes <seeded-dir>/confirm.log and exits 0 iff everything is as required.
WT=$1; SD=$2; LOG=$SD/confirm.log
# already confirmed (by another queue): keep the log, repeat its verdict
if [ -f "$LOG" ] && [ "$LOG" -nt "$SD/patch.diff" ] && grep -q "^SUMMARY base_demo_exit=0 changed_demo_exit=[1-9][0-9]* suite_pass=1" "$LOG"; then exit 0; fi
if [ -f "$SD/.confirming" ]; then exit 3; fi
touch "$SD/.confirming"; trap 'rm -f "$SD/.confirming"' EXIT
exec > "$LOG" 2>&1
set -x
cd "$WT" || exit 2
git -C "$WT" checkout -q -- . ; git -C "$WT" stash list | head -2
# baseline build + demo
# (BASE_LIB_DIR: an already built unchanged library of the same commit, shared between confirmations)
if [ -n "$BASE_LIB_DIR" ] && [ -f "$BASE_LIB_DIR/lib/libIPSec_MB.so" ]; then BL="$BASE_LIB_DIR"; else
rm -rf "$WT/_cb"; cmake -G Ninja -S "$WT" -B "$WT/_cb" -DCMAKE_BUILD_TYPE=RelWithDebInfo -DBUILD_LIBRARY_ONLY=ON >/dev/null && cmake --build "$WT/_cb" -j8 >/dev/null || { echo BASE-BUILD-FAILED; exit 1; }
BL="$WT/_cb"; fi
mkdir -p "$WT/_demo"
gcc -O1 -I"$WT/lib" "$SD/demo.c" -o "$WT/_demo/demo_base" -L"$BL/lib" -lIPSec_MB -lpthread -Wl,-rpath,"$BL/lib" || { echo DEMO-BUILD-FAILED; exit 1; }
"$WT/_demo/demo_base" > "$WT/_demo/demo_base.out" 2>&1; RB=$?
echo "demo on unchanged library ($BL): exit $RB"; tail -3 "$WT/_demo/demo_base.out"
# changed build (clean rebuild: NASM include deps are not tracked)
git -C "$WT" apply "$SD/patch.diff" || { echo PATCH-DOES-NOT-APPLY; exit 1; }
rm -rf "$WT/_cb"; cmake -G Ninja -S "$WT" -B "$WT/_cb" -DCMAKE_BUILD_TYPE=RelWithDebInfo >/dev/null && cmake --build "$WT/_cb" -j8 >/dev/null || { echo CHANGED-BUILD-FAILED; exit 1; }
gcc -O1 -I"$WT/lib" "$SD/demo.c" -o "$WT/_cb/demo_mut" -L"$WT/_cb/lib" -lIPSec_MB -lpthread -Wl,-rpath,"$WT/_cb/lib" || exit 1
"$WT/_cb/demo_mut" > "$WT/_cb/demo_mut.out" 2>&1; RM=$?
echo "demo on changed library: exit $RM"; tail -5 "$WT/_cb/demo_mut.out"
( cd "$WT/_cb" && ctest -j8 --timeout 3000 2>&1 | tail -25 ) > "$SD/ctest_changed.log"
tail -5 "$SD/ctest_changed.log"
PASS=$(grep -c "100% tests passed" "$SD/ctest_changed.log")
if [ "$PASS" != 1 ] && ! grep -q "Failed\|Timeout" "$SD/ctest_changed.log"; then
  # tests killed from outside on this shared host ("Subprocess terminated" only): run those again once
  ( cd "$WT/_cb" && ctest --rerun-failed -j4 --timeout 3000 2>&1 | tail -15 ) >> "$SD/ctest_changed.log"
  PASS=$(grep -c "100% tests passed" "$SD/ctest_changed.log")
fi
git -C "$WT" checkout -q -- .
echo "SUMMARY base_demo_exit=$RB changed_demo_exit=$RM suite_pass=$PASS"
[ "$RB" = 0 ] && [ "$RM" != 0 ] && [ "$PASS" = 1 ]
