#!/usr/bin/env python3
"""Apply each harmless rewrite (benign/*.diff) to a scratch worktree of /repo's HEAD and run every
registered quick check against it: all must exit 0 (no alarm on code where the property holds).
usage: tools/run_benign.py [patch ...] [--props C05,C12]"""
import os, sys, json, subprocess, glob, time
VERIF = os.path.dirname(os.path.dirname(os.path.abspath(__file__)))

def sh(cmd, **kw):
    return subprocess.run(cmd, shell=isinstance(cmd, str), stdout=subprocess.PIPE, stderr=subprocess.STDOUT, text=True, **kw)

def main():
    args = [a for a in sys.argv[1:] if not a.startswith("--")]
    props = [c["property_id"] for c in json.load(open(os.path.join(VERIF, "MANIFEST.json")))["checks"]]
    for i, a in enumerate(sys.argv):
        if a == "--props":
            props = sys.argv[i + 1].split(",")
            args = [x for x in args if x != sys.argv[i + 1]]
    patches = args or sorted(glob.glob(os.path.join(VERIF, "benign", "*.diff")))
    WT = "/var/tmp/benigntest/repo"
    BD = "/var/tmp/benigntest/build"
    sh("git -C /repo worktree remove --force %s" % WT)
    sh("rm -rf %s" % WT)
    os.makedirs("/var/tmp/benigntest", exist_ok=True)
    a = sh("git -C /repo worktree add --detach %s HEAD" % WT)
    if a.returncode != 0:
        print(a.stdout)
        return 2
    # private copy of the Coq development: the generated files (coq/Gen) of a scratch tree must not be seen by checks that
    # run against /repo (or another scratch tree) at the same time
    os.makedirs(BD, exist_ok=True)
    sh(["rsync", "-a", "--delete", os.path.join(VERIF, "coq") + "/", os.path.join(BD, "coq") + "/"])
    # models extracted from an earlier scratch tree would look newer than the restored .vo files: extract again
    sh("rm -rf %s %s/bin/*_driver" % (os.path.join(BD, "ocaml"), BD))
    env = dict(os.environ, IMB_REPO=WT, IMB_VERIF_BUILD=BD, IMB_COQ_DIR=os.path.join(BD, "coq"))
    rc = 0
    out = {}
    for pth in patches:
        pth = os.path.abspath(pth)
        a = sh(["git", "-C", WT, "apply", pth])
        if a.returncode != 0:
            print(pth, "does not apply:", a.stdout[-300:])
            rc = 1
            continue
        try:
            for p in props:
                t0 = time.time()
                r = sh([os.path.join(VERIF, "check"), p, "--tier", "quick"], cwd=VERIF, timeout=3600, env=env)
                viol = [l for l in r.stdout.splitlines() if l.startswith("VIOLATION")]
                out.setdefault(os.path.basename(pth), {})[p] = {"exit": r.returncode, "violations": viol[:3], "wall_s": round(time.time() - t0, 1)}
                print(os.path.basename(pth), p, "exit", r.returncode, viol[:2], flush=True)
                if r.returncode != 0:
                    rc = 1
                    open(os.path.join(BD, "benign_%s_%s.log" % (os.path.basename(pth), p)), "w").write(r.stdout)
        finally:
            sh("git -C %s checkout -- ." % WT)
    rp = os.path.join(VERIF, "benign", "results.json")
    allr = json.load(open(rp)) if os.path.exists(rp) else {}
    for k, v in out.items():
        allr.setdefault(k, {}).update(v)
    json.dump(allr, open(rp, "w"), indent=1)
    return rc

sys.exit(main())
