#!/usr/bin/env python3
"""Rewrite the table of DESIGN.md section 11.5 from seeded/*/meta.json (between the SEEDED-TABLE markers)."""
import os, json, glob, re
V = os.path.dirname(os.path.dirname(os.path.abspath(__file__)))
rows = []
for f in sorted(glob.glob(os.path.join(V, "seeded", "*", "meta.json"))):
    m = json.load(open(f))
    cl = os.path.join(os.path.dirname(f), "confirm.log")
    if os.path.exists(cl) and not m.get("confirmed", {}).get("note"):
        mm = re.search(r"SUMMARY base_demo_exit=(\d+) changed_demo_exit=(\d+) suite_pass=(\d+)", open(cl, errors="replace").read())
        if mm:
            m["confirmed"] = {"demo_on_unchanged_exit": int(mm.group(1)), "demo_on_changed_exit": int(mm.group(2)),
                              "suite_753_pass_on_changed": bool(int(mm.group(3)))}
            json.dump(m, open(f, "w"), indent=1)
    det = []
    for tier, r in sorted(m.get("detection", {}).items()):
        for p, x in sorted(r.items()):
            if x.get("exit"):
                vs = x.get("violations", [])
                nf = bool(vs) and all("no-failing-input-found" in v for v in vs)
                det.append("%s %s%s" % (p, tier, " (obligation only)" if nf else ""))
    c = m.get("confirmed", {})
    conf = "yes" if c.get("demo_on_unchanged_exit") == 0 and c.get("demo_on_changed_exit") and c.get("suite_753_pass_on_changed") else ("pending" if not c else "NO")
    rows.append("| %s | %s | %s | %s | %s | %s |" % (m["id"], m["property"] + ("; also " + ",".join(m["also_breaks"]) if m.get("also_breaks") else ""),
                                                  m["summary"].replace("|", "\\|"), conf, ", ".join(det) or "**not detected**",
                                                  m.get("notes", "").replace("|", "\\|")))
tab = "\n".join(["| seeded change | property | what was changed | confirmed | caught by | how / what had to be strengthened |", "|---|---|---|---|---|---|"] + rows)
p = os.path.join(V, "DESIGN.md")
s = open(p).read()
a, b = "<!-- SEEDED-TABLE-BEGIN -->", "<!-- SEEDED-TABLE-END -->"
s = s[:s.index(a) + len(a)] + "\n" + tab + "\n" + s[s.index(b):]
open(p, "w").write(s)
print(len(rows), "rows")
