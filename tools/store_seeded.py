#!/usr/bin/env python3
"""store_seeded.py <id> <worktree> <property> <also,comma|-> <summary> <needs> — copy a sub-agent's seeded change into
/verif/seeded/<id>/ (patch.diff regenerated from the worktree's diff of lib/, demo.c, the agent's report) and write meta.json."""
import sys, os, json, shutil, subprocess
sid, wt, prop, also, summary, needs = sys.argv[1:7]
origin = sys.argv[7] if len(sys.argv) > 7 else "fresh sub-agent (fifth round: told which earlier changes to avoid) given only the property text and a scratch worktree"
d = os.path.join(os.path.dirname(os.path.dirname(os.path.abspath(__file__))), "seeded", sid)
os.makedirs(d, exist_ok=True)
diff = subprocess.run(["git", "-C", wt, "diff", "--", "lib"], capture_output=True, text=True).stdout
assert diff.strip(), "empty diff"
open(os.path.join(d, "patch.diff"), "w").write(diff)
shutil.copy(os.path.join(wt, "demo.c"), os.path.join(d, "demo.c"))
if os.path.exists(os.path.join(wt, "REPORT.md")):
    shutil.copy(os.path.join(wt, "REPORT.md"), os.path.join(d, "AGENT_REPORT.md"))
meta = dict(id=sid, property=prop, also_breaks=[] if also == "-" else also.split(","), summary=summary, needs=needs,
            origin=origin, confirmed={}, detection={})
json.dump(meta, open(os.path.join(d, "meta.json"), "w"), indent=1)
print("stored", d)
