#!/usr/bin/env python3
"""T6: every symbol that lives in memory the rebuilt libIPSec_MB.so can write at run time.

Input : <build>/lib/lib/libIPSec_MB.so  (readelf -S -l -s -r, objdump -d)
Output: coq/Gen/GenGlobals.v   (rewritten only on change)
        <build>/gen/globals.json (same facts, for the harnesses/checks)

"Writable at run time" = section flag W, type PROGBITS/NOBITS/INIT_ARRAY/..., and NOT covered by the
PT_GNU_RELRO segment (those pages are mprotect'ed read-only by ld.so before any library code
runs: .data.rel.ro, .got, .dynamic, .init_array, .fini_array).  TLS sections (.tdata/.tbss) count
as writable.  For every such section: all symbols (local and global, .symtab) with offset and
size, the gaps not covered by any symbol (an unnamed static would show up there), and for every
symbol the functions that contain a direct rip-relative STORE / address-taking LEA / LOAD of it.

Fails loudly (exception) on anything it does not understand."""
import json, os, re, subprocess, sys
sys.path.insert(0, os.path.dirname(os.path.dirname(os.path.abspath(__file__))))
from checks import common


def sh(cmd):
    p = subprocess.run(cmd, stdout=subprocess.PIPE, stderr=subprocess.PIPE, text=True, timeout=600)
    if p.returncode != 0:
        raise RuntimeError("T6: %s failed: %s" % (cmd, p.stderr[-500:]))
    return p.stdout


def sections(so):
    out = sh(["readelf", "-SW", so])
    secs = []
    for l in out.splitlines():
        m = re.match(r"\s*\[\s*(\d+)\]\s+(\S+)\s+(\S+)\s+([0-9a-f]{16})\s+([0-9a-f]+)\s+([0-9a-f]+)\s+([0-9a-f]+)\s+(\S*)\s+\d+\s+\d+\s+(\d+)", l)
        if not m:
            # section 0 has an empty name; flags column may be empty for it
            continue
        idx, name, typ, addr, off, size, es, flg, al = m.groups()
        secs.append(dict(idx=int(idx), name=name, type=typ, addr=int(addr, 16), size=int(size, 16), flags=flg, align=int(al)))
    if not secs:
        raise RuntimeError("T6: no sections parsed")
    return secs


def relro(so):
    out = sh(["readelf", "-lW", so])
    rng = []
    for l in out.splitlines():
        m = re.match(r"\s*GNU_RELRO\s+0x[0-9a-f]+\s+0x([0-9a-f]+)\s+0x[0-9a-f]+\s+0x[0-9a-f]+\s+0x([0-9a-f]+)", l)
        if m:
            rng.append((int(m.group(1), 16), int(m.group(1), 16) + int(m.group(2), 16)))
    return rng


def symbols(so):
    out = sh(["readelf", "-sW", so])
    syms = []
    tab = None
    for l in out.splitlines():
        m = re.match(r"Symbol table '(\S+)'", l)
        if m:
            tab = m.group(1)
            continue
        m = re.match(r"\s*\d+:\s+([0-9a-f]+)\s+(\d+|0x[0-9a-f]+)\s+(\S+)\s+(\S+)\s+(\S+)\s+(\S+)\s*(.*)$", l)
        if not m or tab != ".symtab":
            continue
        val, size, typ, bind, vis, ndx, name = m.groups()
        if not ndx.isdigit():
            continue
        syms.append(dict(addr=int(val, 16), size=int(size, 0), type=typ, bind=bind, ndx=int(ndx), name=name.split("@")[0].strip()))
    if not syms:
        raise RuntimeError("T6: .symtab missing (stripped library?)")
    return syms


def reference_sites(so, lo, hi):
    """functions with direct rip-relative references into [lo,hi): addr -> {kind: set(function)}"""
    p = subprocess.Popen(["objdump", "-d", "-M", "intel", "--no-show-raw-insn", so], stdout=subprocess.PIPE, text=True)
    cur = None
    refs = {}
    fn_re = re.compile(r"^[0-9a-f]+ <([^>]+)>:")
    ref_re = re.compile(r"#\s+([0-9a-f]+)\s+<")
    for l in p.stdout:
        if l and l[0] != " ":
            m = fn_re.match(l)
            if m:
                cur = m.group(1)
            continue
        if "#" not in l:
            continue
        m = ref_re.search(l)
        if not m:
            continue
        a = int(m.group(1), 16)
        if not (lo <= a < hi):
            continue
        ins = l.split("\t")
        body = ins[-1] if len(ins) >= 2 else l
        body = body.split("#")[0].strip()
        mn = body.split()[0]
        if mn in ("lock", "rep", "repz", "repnz", "notrack", "bnd"):
            mn2 = body.split()[1]
            mn = mn + " " + mn2
        ops = body[len(body.split()[0]):].strip()
        if mn.startswith("lock"):
            ops = body.split(None, 2)[2] if len(body.split(None, 2)) > 2 else ""
        first = ops.split(",")[0]
        if mn.startswith("lea"):
            kind = "lea"
        elif "[rip" in first and not (mn.startswith("cmp") or mn.startswith("test") or mn.startswith("push")
                                      or mn.startswith("call") or mn.startswith("jmp") or mn.startswith("ucomis")
                                      or mn.startswith("comis") or mn.startswith("bt ") or mn == "bt"):
            kind = "store"
        else:
            kind = "load"
        refs.setdefault(a, {}).setdefault(kind, set()).add(cur or "?")
    p.wait()
    if p.returncode != 0:
        raise RuntimeError("T6: objdump failed")
    return refs


def source_writes_version_str():
    """textual guard for the exported pointer imb_version_str: assignments / address-taking in lib sources"""
    bad = []
    pat = re.compile(r"(&\s*imb_version_str\b)|(\bimb_version_str\s*(\[[^\]]*\])?\s*=[^=])")
    root = os.path.join(common.REPO, "lib")
    for d, _, fs in os.walk(root):
        for f in fs:
            if not f.endswith((".c", ".h")):
                continue
            p = os.path.join(d, f)
            for n, line in enumerate(open(p, errors="replace"), 1):
                if pat.search(line) and not re.search(r"\bconst\s+char\s*\*\s*(const\s+)?imb_version_str\s*=", line):
                    bad.append("%s:%d" % (os.path.relpath(p, common.REPO), n))
    return bad


def coq_str(s):
    return '"%s"%%string' % s.replace('"', '""')


def coq_list(xs):
    return "[" + "; ".join(xs) + "]"


def collect(so=None):
    so = so or os.path.join(common.LIBSO_DIR, "libIPSec_MB.so")
    so = os.path.realpath(so)
    secs = sections(so)
    rr = relro(so)
    wsecs, rsecs = [], []
    for s in secs:
        if "W" not in s["flags"] or "A" not in s["flags"]:
            continue
        inside = any(lo <= s["addr"] and s["addr"] + s["size"] <= hi for lo, hi in rr)
        if inside and "T" not in s["flags"]:
            rsecs.append(s)
        else:
            wsecs.append(s)
    if not wsecs:
        raise RuntimeError("T6: no writable section found")
    syms = symbols(so)
    lo = min(s["addr"] for s in wsecs)
    hi = max(s["addr"] + max(s["size"], 1) for s in wsecs)
    tls = [s for s in wsecs if "T" in s["flags"]]
    refs = reference_sites(so, lo, hi)
    out_syms, gaps = [], []
    for s in wsecs:
        mine = [y for y in syms if y["ndx"] == s["idx"] and y["type"] in ("OBJECT", "NOTYPE", "TLS", "COMMON", "FUNC", "GNU_IFUNC")]
        seen = {}
        for y in mine:
            if y["type"] == "SECTION" or y["name"] == "":
                continue
            base = 0 if "T" in s["flags"] else s["addr"]
            key = (y["name"], y["addr"])
            if key in seen:
                continue
            seen[key] = 1
            r = {"store": set(), "lea": set(), "load": set()}
            for a in range(y["addr"], y["addr"] + max(y["size"], 1)):
                if "T" in s["flags"]:
                    break
                for k, v in refs.get(a, {}).items():
                    r[k] |= v
            out_syms.append(dict(name=y["name"], section=s["name"], off=y["addr"] - base, size=y["size"], bind=y["bind"],
                                 stores=sorted(r["store"]), leas=sorted(r["lea"]), loads=sorted(r["load"])))
        # gaps: bytes of the section not covered by any sized symbol
        cov = sorted((y["addr"] - (0 if "T" in s["flags"] else s["addr"]), y["size"]) for y in mine if y["size"] > 0)
        pos = 0
        for o, z in cov:
            if o > pos:
                gaps.append((s["name"], pos, o - pos))
            pos = max(pos, o + z)
        if pos < s["size"]:
            gaps.append((s["name"], pos, s["size"] - pos))
    out_syms.sort(key=lambda d: (d["section"], d["off"], d["name"]))
    return dict(so=so, writable_sections=[(s["name"], s["size"], s["addr"]) for s in wsecs],
                relro_sections=[s["name"] for s in rsecs], syms=out_syms, gaps=gaps,
                version_str_source_writes=source_writes_version_str(), tls=[s["name"] for s in tls])


def main(so=None):
    d = collect(so)
    L = ["(* GENERATED by translators/t6_globals.py from the rebuilt libIPSec_MB.so — do not edit.",
         "   Every symbol in memory the library can write at run time (section flag W, outside PT_GNU_RELRO),",
         "   the unnamed gaps of those sections, and the functions with direct stores to each symbol. *)",
         "From Coq Require Import ZArith List String.", "Import ListNotations.", "Local Open Scope Z_scope.", "",
         "Record gsym := mkgsym { gs_name : string; gs_section : string; gs_off : Z; gs_size : Z;",
         "                        gs_stores : list string; gs_addr_taken : list string }.", "",
         "Definition writable_sections : list (string * Z) := " +
         coq_list(["(%s, %d)" % (coq_str(n), sz) for n, sz, _ in d["writable_sections"]]) + ".",
         "Definition relro_sections : list string := " + coq_list([coq_str(n) for n in d["relro_sections"]]) + ".",
         "Definition writable_syms : list gsym := ["]
    L.append(";\n".join("  mkgsym %s %s %d %d %s %s" % (coq_str(s["name"]), coq_str(s["section"]), s["off"], s["size"],
                                                         coq_list([coq_str(x) for x in s["stores"]]),
                                                         coq_list([coq_str(x) for x in s["leas"]]))
                        for s in d["syms"]))
    L.append("].")
    L.append("(* bytes of writable sections that no sized symbol covers: (section, offset, length) *)")
    L.append("Definition writable_gaps : list (string * Z * Z) := " +
             coq_list(["(%s, %d, %d)" % (coq_str(a), b, c) for a, b, c in d["gaps"]]) + ".")
    L.append("(* source lines that assign to / take the address of the exported pointer imb_version_str *)")
    L.append("Definition version_str_source_writes : list string := " +
             coq_list([coq_str(x) for x in d["version_str_source_writes"]]) + ".")
    txt = "\n".join(L) + "\n"
    outp = os.path.join(common.COQDIR, "Gen", "GenGlobals.v")
    if not os.path.exists(outp) or open(outp).read() != txt:
        open(outp, "w").write(txt)
    gd = os.path.join(common.BUILD, "gen")
    os.makedirs(gd, exist_ok=True)
    js = json.dumps(d, indent=1, default=list)
    jp = os.path.join(gd, "globals.json")
    if not os.path.exists(jp) or open(jp).read() != js:
        open(jp, "w").write(js)
    return d


def selftest(d):
    """second route: nm -S --defined-only must list the same sized objects in data/bss classes"""
    out = sh(["nm", "-S", "--defined-only", d["so"]])
    nm = set()
    base = {n: a for n, _, a in d["writable_sections"]}
    for l in out.splitlines():
        p = l.split()
        if len(p) == 4 and p[2] in "dDbBgGsS":
            a = int(p[0], 16)
            for n, sz, ad in d["writable_sections"]:
                if ad <= a < ad + max(sz, 1):
                    nm.add((p[3].split("@")[0], a - ad, int(p[1], 16)))
    mine = set((s["name"], s["off"], s["size"]) for s in d["syms"] if s["size"] > 0)
    if nm != mine:
        raise RuntimeError("T6 self-test: readelf and nm disagree: only-nm=%s only-readelf=%s" % (sorted(nm - mine), sorted(mine - nm)))


if __name__ == "__main__":
    d = main(sys.argv[1] if len(sys.argv) > 1 else None)
    selftest(d)
    print("GenGlobals.v: %d writable symbols in %s; gaps %s; relro %s" %
          (len(d["syms"]), [n for n, _, _ in d["writable_sections"]], d["gaps"], d["relro_sections"]))
    for s in d["syms"]:
        print("  %-18s %-6s +%-3d size %-3d stores:%d lea:%d" % (s["name"], s["section"], s["off"], s["size"], len(s["stores"]), len(s["leas"])))
