#!/usr/bin/env python3
"""T3: instruction-set extensions that the code installed by every implementation variant can
execute -> coq/Gen/GenIsa.v  (+ <build>/gen/isa.json with one witness instruction per extension).

Input : the REBUILT <build>/lib/lib/libIPSec_MB.so  (objdump -d, readelf -s -r -S).

Code graph (exact for direct control flow; the library's 285 NASM objects contain no indirect
branch, C functions are single nodes):
  * node  = the code between two consecutive symbol headers of `objdump -d` (every NASM label and
            every C function starts a node);
  * edges = direct call/jmp/jcc targets (PLT stubs resolved by name to the library's own
            definition), fall-through into the next node when the last instruction of a node is
            not ret / unconditional jmp / ud2 / hlt, every rip-relative operand that points into .text
            (a function pointer being taken), every rip-relative operand that points into
            .data.rel.ro / .got / .data: all code pointers stored in the data SYMBOL that contains
            the address (R_X86_64_RELATIVE addends, GLOB_DAT / 64 symbol values) -- the dispatch
            tables and the GOT;
  * roots of variant v = the node(s) of `init_mb_mgr_<v>_internal` (the function that installs
            v's handlers into IMB_MGR; indirect calls through IMB_MGR therefore land on code that is
            already a root successor).
  The set is an over-approximation of what a manager initialised for v can execute.

Instruction classes (only extensions that own an IMB_FEATURE_* bit are tracked; AVX512 VBMI/VBMI2/
VNNI/BITALG, BMI1, LZCNT, MOVBE have no bit and are listed under "untracked" in isa.json):
  SHANI, AESNI, PCLMULQDQ, AVX (any VEX encoding), AVX2 (VEX integer op on ymm), AVX512F (any EVEX
  encoding: zmm / mask register / register 16-31 / {evex} / broadcast / EVEX-only mnemonic), VAES,
  VPCLMULQDQ (ymm/zmm or EVEX forms), GFNI, AVX512_IFMA, AVX_IFMA ({vex} vpmadd52*), BMI2, SM3NI,
  SM4NI, SHA512NI.

Fails loudly on anything it does not understand.  Output rewritten only on change.
Usage: t3_isa.py [--json out.json]   (IMB_REPO / IMB_VERIF_BUILD / IMB_COQ_DIR override paths)
"""
import bisect, json, os, re, subprocess, sys

VERIF = os.path.dirname(os.path.dirname(os.path.abspath(__file__)))
BUILD = os.environ.get("IMB_VERIF_BUILD", os.path.join(VERIF, ".build"))
LIBSO = os.path.join(BUILD, "lib", "lib", "libIPSec_MB.so")
COQ = os.environ.get("IMB_COQ_DIR") or os.path.join(VERIF, "coq")
OUT = os.path.join(COQ, "Gen", "GenIsa.v")
ALL_VARIANTS = ["sse_t1", "sse_t2", "sse_t3", "avx2_t1", "avx2_t2", "avx2_t3", "avx2_t4", "avx512_t1", "avx512_t2"]
FEATURES = ["SHANI", "AESNI", "PCLMULQDQ", "AVX", "AVX2", "AVX512F", "VAES", "VPCLMULQDQ", "GFNI", "AVX512_IFMA",
            "AVX_IFMA", "BMI2", "SM3NI", "SM4NI", "SHA512NI"]


class T3Error(Exception):
    pass


def sh(cmd):
    p = subprocess.run(cmd, stdout=subprocess.PIPE, stderr=subprocess.PIPE, text=True, timeout=900)
    if p.returncode != 0:
        raise T3Error("%s failed: %s" % (" ".join(cmd), p.stderr[-500:]))
    return p.stdout


EVEX_ONLY = re.compile(
    r"^(vpternlog[dq]|vpro[lr]v?[dq]|vmovdq[ua](8|16|32|64)|vpsraq|vpsravq|vpsravw|vpsllvw|vpsrlvw|vpmullq|valign[dq]|vpermi2\w+|vpermt2\w+|vpermb|vpermw|"
    r"v\w+(32x4|64x2|64x4|32x8|32x2)|vpopcnt[bwdq]|vpsh[lr]dv?[wdq]|vpblendm[bwdq]|vblendmp[sd]|vpcompress\w|vpexpand\w|vcompressp[sd]|vexpandp[sd]|"
    r"vpmov[su]?[qdw][dwb]|vpmov[bwdq]2m|vpmovm2[bwdq]|vptestn?m[bwdq]|vpcmpu?[bwdq]|vpconflict[dq]|vplzcnt[dq]|vpabsq|vpmaxs?uq|vpmaxsq|vpminuq|vpminsq|"
    r"vpmultishiftqb|vpdpbusds?|vpdpwssds?|vpshufbitqmb|vrndscale\w+|vgetexp\w+|vgetmant\w+|vscalef\w+|vfixupimm\w+|vrange\w+|vreduce\w+|vpscatter\w+|vscatter\w+|"
    r"vcvtu\w+|vcvt\w+2u\w+|vcvtqq2\w+|vcvt\w+2qq|vpbroadcastm\w+|vdbpsadbw|vpandn?[dq]|vpx?or[dq])$")
BMI2 = {"rorx", "shlx", "sarx", "shrx", "mulx", "pdep", "pext", "bzhi"}
UNTRACKED = re.compile(r"^(vpermb|vpermi2b|vpermt2b|vpmultishiftqb|vpsh[lr]dv?[wdq]|vpcompress[bw]|vpexpand[bw]|vpdpbusds?|vpdpwssds?|vpopcnt[bwdq]|"
                       r"vpshufbitqmb|andn|blsr|blsi|blsmsk|bextr|tzcnt|lzcnt|popcnt|movbe)$")
NOT_VEX_V = {"verr", "verw", "vmcall", "vmlaunch", "vmresume", "vmxoff", "vmxon", "vmread", "vmwrite", "vmptrld", "vmptrst", "vmclear", "vmfunc"}
HIREG = re.compile(r"%[xyz]mm(1[6-9]|2[0-9]|3[01])\b")


# Guarded dispatchers: C functions that contain BOTH a baseline path and a path using a further extension and choose
# between them (a) by a flag parameter that their callers pass as a literal constant, or (b) by testing IMB_MGR.features.
# A path-insensitive graph would attribute the extension to every variant that reaches the dispatcher.  An edge
# dispatcher -> callee is left out ONLY when the translator itself sees the guard in the binary:
#   const-param   : the call site that enters the dispatcher sets the flag argument (position read from the C source)
#                   to the literal 0 (push $0x0 / xor %r,%r / mov $0x0,%r) -- any other or unrecognised form keeps all edges;
#   features-check: the dispatcher's body tests the feature bit (test/and/bt with the bit's immediate); the callee is then
#                   still traversed, with exactly that bit granted.
GUARDS = [
    dict(kind="const-param", dispatcher=r"^_zuc(256)?_(eia3|eea3)_\w+$", param="use_gfni", callee=r"(_gfni_|_VPCLMUL$)",
         sources=["sse_t1/zuc_top_sse.c", "avx2_t1/zuc_top_avx2.c", "avx512_t1/zuc_top_avx512.c"]),
    dict(kind="features-check", dispatcher=r"^aead_chacha20_poly1305(_sgl)?_avx2$", callee=r"_fma_avx2$", grant="AVX_IFMA", bit=21),
    dict(kind="features-check", dispatcher=r"^aead_chacha20_poly1305(_sgl)?_avx512$", callee=r"_fma_avx512$", grant="AVX512_IFMA", bit=17),
]
REPO = os.environ.get("IMB_REPO", "/repo")
ARGREG = [("%rdi", "%edi", "%dil", "%di"), ("%rsi", "%esi", "%sil", "%si"), ("%rdx", "%edx", "%dl", "%dx"), ("%rcx", "%ecx", "%cl", "%cx"),
          ("%r8", "%r8d", "%r8b", "%r8w"), ("%r9", "%r9d", "%r9b", "%r9w")]


def param_index(g, fname):
    """position (0-based) of the flag parameter in the C definition of fname, or None"""
    for rel in g["sources"]:
        pth = os.path.join(REPO, "lib", rel)
        if not os.path.exists(pth):
            continue
        src = re.sub(r"/\*.*?\*/", " ", open(pth).read(), flags=re.S)
        m = re.search(r"\b%s\s*\(([^)]*)\)\s*\{" % re.escape(fname), src)
        if m:
            params = [x.strip() for x in m.group(1).split(",")]
            for k, prm in enumerate(params):
                if re.search(r"\b%s$" % re.escape(g["param"]), prm):
                    return k, len(params)
    return None


_FWD = {}


def forwards_flag(g):
    """source-level side condition for inheriting a known flag across a dispatcher -> dispatcher call whose argument is not a
    literal in the binary: in the listed sources EVERY call of a dispatcher passes, at the flag position, the identifier of the
    caller's own flag parameter or a literal"""
    key = g["dispatcher"]
    if key in _FWD:
        return _FWD[key]
    ok = True
    seen_calls = 0
    for rel in g["sources"]:
        pth = os.path.join(REPO, "lib", rel)
        if not os.path.exists(pth):
            continue
        src = re.sub(r"/\*.*?\*/", " ", open(pth).read(), flags=re.S)
        for m in re.finditer(r"\b(_zuc\w+)\s*\(", src):
            nm = m.group(1)
            if not re.match(g["dispatcher"], nm):
                continue
            depth, k, args, cur = 1, m.end(), [], ""
            while k < len(src) and depth:
                ch = src[k]
                if ch == "(":
                    depth += 1
                elif ch == ")":
                    depth -= 1
                    if depth == 0:
                        break
                if ch == "," and depth == 1:
                    args.append(cur.strip()); cur = ""
                else:
                    cur += ch
                k += 1
            args.append(cur.strip())
            rest = src[k + 1:k + 40].lstrip()
            if rest.startswith("{") or any(re.match(r"^(const\s+)?(unsigned|uint\w+|void|int|IMB_\w+|ZUC_\w+)\b", x) for x in args):
                continue             # definition / prototype
            pi = param_index(g, nm)
            if pi is None:
                continue             # not a function with a flag parameter
            seen_calls += 1
            if len(args) != pi[1] or args[pi[0]] not in (g["param"], "0", "1"):
                ok = False
    _FWD[key] = ok and seen_calls > 0
    return _FWD[key]


def const_arg(window, k, nparams):
    """value of argument k as a literal set just before the call, or None if not recognised (window: [(mnem, ops)], oldest first)"""
    if k >= 6:
        # stack arguments are pushed right to left: the last push before the call is argument 6
        want = k - 6
        for (mn, ops) in reversed(window):
            if mn.startswith("push"):
                if want == 0:
                    mm = re.match(r"^\$(0x[0-9a-f]+|\d+)$", ops.strip())
                    return int(mm.group(1), 0) if mm else None
                want -= 1
                continue
            if "%rsp" in ops or mn.startswith("call") or mn.startswith("pop"):
                return None
        return None
    regs = ARGREG[k]
    for (mn, ops) in reversed(window):
        if mn.startswith("call"):
            return None
        parts = split_last(ops)
        if parts is None:
            continue
        dst = parts[-1]
        if dst in regs:
            if mn.startswith("xor") and len(parts) == 2 and parts[0] == dst:
                return 0
            mm = re.match(r"^\$(0x[0-9a-f]+|\d+)$", parts[0])
            if mn.startswith("mov") and len(parts) == 2 and mm:
                return int(mm.group(1), 0)
            return None
        if any(r in ops for r in regs) and not mn.startswith(("cmp", "test")):
            # the register is mentioned in another role (source / address): keep looking only if it is clearly a read
            if dst not in regs:
                continue
    return None


def split_last(ops):
    out, depth, cur = [], 0, ""
    for ch in ops:
        if ch == "(":
            depth += 1
        elif ch == ")":
            depth -= 1
        if ch == "," and depth == 0:
            out.append(cur.strip()); cur = ""
        else:
            cur += ch
    if cur.strip():
        out.append(cur.strip())
    return out or None


def classify(prefixes, mnem, ops):
    """-> (set of features, untracked class or None)"""
    f = set()
    m = mnem
    if m.startswith("sha1") or m.startswith("sha256"):
        f.add("SHANI")
        return f, None
    vex_like = m.startswith("v") and m not in NOT_VEX_V
    evex = False
    if vex_like:
        evex = ("%zmm" in ops or re.search(r"%k[0-7]\b", ops) is not None or HIREG.search(ops) is not None or
                "{evex}" in prefixes or "{1to" in ops or "-sae}" in ops or "{sae}" in ops or EVEX_ONLY.match(m) is not None)
        if m.startswith("vpmadd52") and "{vex}" not in prefixes:
            evex = True
    if m.startswith("k") and re.search(r"%k[0-7]\b", ops) and re.match(r"^k(mov|and|andn|or|xor|xnor|not|shiftl|shiftr|ortest|test|unpck|add)[bwdq]+$", m):
        f.add("AVX512F")
        return f, None
    if m in BMI2:
        f.add("BMI2")
        return f, None
    if m.startswith("aes") and m in ("aesenc", "aesenclast", "aesdec", "aesdeclast", "aesimc", "aeskeygenassist"):
        f.add("AESNI")
    if m == "pclmulqdq" or re.match(r"^pclmul(lq|hq)(lq|hq)dq$", m):
        f.add("PCLMULQDQ")
    if m.startswith("gf2p8"):
        f.add("GFNI")
    if vex_like:
        f.add("AVX512F" if evex else "AVX")
        wide = "%ymm" in ops or "%zmm" in ops
        if m in ("vaesenc", "vaesenclast", "vaesdec", "vaesdeclast"):
            f.add("VAES" if (wide or evex) else "AESNI")
        elif m in ("vaesimc", "vaeskeygenassist"):
            f.add("AESNI")
        if m == "vpclmulqdq" or re.match(r"^vpclmul(lq|hq)(lq|hq)dq$", m):
            f.add("VPCLMULQDQ" if (wide or evex) else "PCLMULQDQ")
        if m.startswith("vgf2p8"):
            f.add("GFNI")
        if m.startswith("vpmadd52"):
            f.add("AVX_IFMA" if "{vex}" in prefixes else "AVX512_IFMA")
        if m.startswith("vsha512"):
            f.add("SHA512NI")
        if m.startswith("vsm3"):
            f.add("SM3NI")
        if m.startswith("vsm4"):
            f.add("SM4NI")
        if not evex and "%ymm" in ops and (m.startswith("vp") and m not in ("vperm2f128", "vpermilps", "vpermilpd", "vptest")
                                           or m in ("vbroadcasti128", "vextracti128", "vinserti128", "vmovntdqa")):
            f.add("AVX2")
    unt = m if UNTRACKED.match(m) else None
    return f, unt


def load(so):
    # sections
    secs = {}
    for l in sh(["readelf", "-SW", so]).splitlines():
        m = re.match(r"\s*\[\s*\d+\]\s+(\S+)\s+\S+\s+([0-9a-f]{16})\s+[0-9a-f]+\s+([0-9a-f]+)", l)
        if m:
            secs[m.group(1)] = (int(m.group(2), 16), int(m.group(2), 16) + int(m.group(3), 16))
    if ".text" not in secs:
        raise T3Error("no .text")
    # symbols
    objs, funcs_by_name, func_types = [], {}, []
    tab = None
    for l in sh(["readelf", "-sW", so]).splitlines():
        m = re.match(r"Symbol table '(\S+)'", l)
        if m:
            tab = m.group(1)
            continue
        m = re.match(r"\s*\d+:\s+([0-9a-f]+)\s+(\d+|0x[0-9a-f]+)\s+(\w+)\s+(\w+)\s+(\w+)\s+(\S+)\s+(\S+)", l)
        if not m or tab != ".symtab":
            continue
        addr, size, typ, bind, vis, ndx, name = m.groups()
        if ndx in ("UND", "ABS"):
            continue
        addr = int(addr, 16)
        size = int(size, 0)
        if typ == "OBJECT" and size > 0:
            objs.append((addr, addr + size, name))
        if typ in ("FUNC", "NOTYPE") and secs[".text"][0] <= addr < secs[".text"][1]:
            funcs_by_name.setdefault(name, addr)
            func_types.append((addr, typ, name))
    objs.sort()
    # relocations: where -> code address
    sym_addr = dict(funcs_by_name)
    ptrs = {}
    for l in sh(["readelf", "-rW", so]).splitlines():
        m = re.match(r"^([0-9a-f]{16})\s+[0-9a-f]+\s+(R_X86_64_\w+)\s+(.*)$", l)
        if not m:
            continue
        where, typ, rest = int(m.group(1), 16), m.group(2), m.group(3).strip()
        if typ == "R_X86_64_RELATIVE":
            ptrs[where] = int(rest, 16)
        elif typ in ("R_X86_64_GLOB_DAT", "R_X86_64_64", "R_X86_64_JUMP_SLO", "R_X86_64_JUMP_SLOT"):
            mm = re.match(r"^([0-9a-f]+)\s+(\S+?)(@\S+)?( \+ ([0-9a-f]+))?$", rest)
            if mm and int(mm.group(1), 16) != 0:
                ptrs[where] = int(mm.group(1), 16) + (int(mm.group(5), 16) if mm.group(5) else 0)
    return secs, objs, funcs_by_name, ptrs, func_types


def parse(so):
    secs, objs, funcs_by_name, ptrs, func_types = load(so)
    t0, t1 = secs[".text"]
    data_secs = [secs[s] for s in (".data.rel.ro", ".got", ".data", ".init_array", ".got.plt") if s in secs]
    # NASM types a label that is followed by a hand-encoded instruction (db ...) as OBJECT, and real constant tables live
    # in .text too, so `objdump -d` and the symbol types cannot tell code from data.  Everything is decoded (-D); a node
    # counts as CODE exactly when control flow reaches it (branch target, fall-through, FUNC symbol whose address is taken,
    # pointer stored in a relocated table); a reached node that does not decode is an error.
    func_starts = set(a for (a, typ, _n) in func_types if typ == "FUNC")
    out = sh(["objdump", "-D", "--no-show-raw-insn", "-j", ".text", so])
    nodes = []          # [start, name, feats{feature: witness}, untracked set, branch targets, datarefs, falls, text refs, amb, bad]
    cur = None
    hdr = re.compile(r"^([0-9a-f]+) <([^>]+)>:$")
    ins = re.compile(r"^\s*([0-9a-f]+):\t(.*)$")
    cmt = re.compile(r"#\s*([0-9a-f]+)\s*<")
    tgt = re.compile(r"^([0-9a-f]+) <([^>+]+)(\+0x[0-9a-f]+)?>$")
    PFX = {"notrack", "bnd", "lock", "data16", "cs", "ds", "es", "ss", "fs", "gs", "rex.W", "rex", "rep", "repz", "repnz", "{evex}", "{vex}", "{vex3}",
           "rex.R", "rex.X", "rex.B", "rex.WR", "rex.WX", "rex.WB", "rex.RX", "rex.RB", "rex.XB", "rex.WRX", "rex.WRB", "rex.WXB", "rex.RXB", "rex.WRXB", "addr32", "{disp32}", "{disp8}", "{load}", "{store}"}
    last_mnem = None
    disp_addr = {}
    for (a, _typ, nm) in func_types:
        for gi, g in enumerate(GUARDS):
            if re.match(g["dispatcher"], re.sub(r"\.part\.\d+$", "", nm)):     # gcc's .part.N keeps the signature
                disp_addr[a] = (gi, nm)
    window = []
    for l in out.splitlines():
        m = hdr.match(l)
        if m:
            if cur is not None:
                cur[6] = last_mnem not in ("ret", "jmp", "ud2", "hlt", "retq", "jmpq")
            cur = [int(m.group(1), 16), m.group(2), {}, set(), set(), set(), True, set(), True, None, {}, set()]
            window = []
            nodes.append(cur)
            last_mnem = None
            continue
        m = ins.match(l)
        if not m or cur is None:
            continue
        txt = m.group(2).strip()
        if not txt or txt.startswith("("):
            continue
        c = cmt.search(txt)
        ref = int(c.group(1), 16) if c else None
        txt = re.sub(r"\s+#.*$", "", txt)
        parts = txt.split(None, 1)
        prefixes = []
        while parts[0] in PFX and len(parts) > 1:
            prefixes.append(parts[0])
            parts = parts[1].split(None, 1)
        mnem = parts[0]
        ops = parts[1] if len(parts) > 1 else ""
        if mnem == "(bad)" or mnem.startswith("."):
            if not cur[8]:
                raise T3Error("undecodable instruction at %s in %s: %s" % (m.group(1), cur[1], l))
            cur[9] = cur[9] or l
            continue
        if cur[9]:
            continue
        window.append((mnem, ops))
        if len(window) > 24:
            window.pop(0)
        if not (mnem.startswith("nop") or mnem == "int3" or (mnem == "xchg" and ops == "%ax,%ax")):
            last_mnem = mnem     # alignment padding after a terminator does not make the node fall through
        if mnem in ("test", "testl", "testq", "testb", "and", "andl", "andq", "bt", "btl", "btq") and ops.startswith("$"):
            cur[11].add(ops)
        feats, unt = classify(" ".join(prefixes), mnem, ops)
        for ft in feats:
            if ft not in cur[2]:
                cur[2][ft] = "%s: %s" % (m.group(1), txt)
        if unt:
            cur[3].add(unt)
        if mnem.startswith("j") or mnem.startswith("call") or mnem.startswith("loop") or mnem == "xbegin":
            if ops.startswith("*"):
                continue                     # indirect: through IMB_MGR / job callbacks / C switch tables (same function)
            mm = tgt.match(ops.strip())
            if not mm and cur[8]:
                cur[9] = cur[9] or l
                continue
            if not mm:
                raise T3Error("branch operand not understood at %s in %s: %s" % (m.group(1), cur[1], l))
            a = int(mm.group(1), 16)
            if a in disp_addr:
                cur[10].setdefault(a, []).append(list(window[:-1]))
            if t0 <= a < t1:
                cur[4].add(a)
            else:
                nm = mm.group(2)
                if nm.endswith("@plt"):
                    nm = nm[:-4]
                    if nm in funcs_by_name:
                        cur[4].add(funcs_by_name[nm])
                    # else: libc (memcpy, memset, ...)
                elif nm.startswith("*ABS*"):
                    continue
                elif cur[8]:
                    cur[9] = cur[9] or l
                else:
                    raise T3Error("branch target outside .text at %s in %s: %s" % (m.group(1), cur[1], l))
        elif ref is not None:
            if t0 <= ref < t1:
                cur[7].add(ref)
                if ref in disp_addr:
                    cur[10].setdefault(ref, []).append(None)      # address taken: unknown arguments
            elif any(a <= ref < b for (a, b) in data_secs):
                cur[5].add(ref)
    if cur is not None:
        cur[6] = last_mnem not in ("ret", "jmp", "ud2", "hlt", "retq", "jmpq")
    starts = [n[0] for n in nodes]
    return secs, objs, ptrs, nodes, starts, func_starts, disp_addr


def analyse(so=LIBSO):
    secs, objs, ptrs, nodes, starts, func_starts, disp_addr = parse(so)
    t0, t1 = secs[".text"]
    ostarts = [o[0] for o in objs]
    pkeys = sorted(ptrs)

    def node_of(a):
        i = bisect.bisect_right(starts, a) - 1
        if i < 0:
            raise T3Error("address %x before first symbol" % a)
        return i

    def data_targets(ref):
        i = bisect.bisect_right(ostarts, ref) - 1
        lo, hi = ref, ref + 8
        if i >= 0 and objs[i][0] <= ref < objs[i][1]:
            lo, hi = objs[i][0], objs[i][1]
        a = bisect.bisect_left(pkeys, lo)
        res = []
        while a < len(pkeys) and pkeys[a] < hi:
            v = ptrs[pkeys[a]]
            if t0 <= v < t1:
                res.append(v)
            a += 1
        return res

    by_name = {}
    for i, n in enumerate(nodes):
        by_name.setdefault(n[1], i)
    result = {}
    for v in ALL_VARIANTS:
        root = "init_mb_mgr_%s_internal" % v
        if root not in by_name:
            result[v] = None
            continue
        seen = set()                      # states (node, cut, grant)
        start = (by_name[root], False, frozenset())
        work = [start]
        parent = {start: None}
        cuts = {}
        while work:
            st = work.pop()
            if st in seen:
                continue
            seen.add(st)
            i, cut, grant = st
            n = nodes[i]
            if n[9]:
                raise T3Error("control flow of %s reaches %s, which does not decode as code: %s" % (v, n[1], n[9]))
            g = GUARDS[disp_addr[n[0]][0]] if n[0] in disp_addr else None
            tested = False
            if g and g["kind"] == "features-check":
                imm = 1 << g["bit"]
                forms = ["$0x%x," % imm, "$0x%x," % (imm >> (8 * (g["bit"] // 8))), "$%d," % g["bit"], "$0x%x," % g["bit"]]
                tested = any(any(t.startswith(f) for f in forms) for t in n[11])
            succ = []
            for a in n[4]:
                j = node_of(a)
                gr = grant
                if g and re.search(g["callee"], nodes[j][1]):
                    if g["kind"] == "const-param" and cut:
                        cuts.setdefault("%s -/-> %s (flag argument is the literal 0 at the call site)" % (n[1], nodes[j][1]), 0)
                        cuts["%s -/-> %s (flag argument is the literal 0 at the call site)" % (n[1], nodes[j][1])] += 1
                        continue
                    if g["kind"] == "features-check" and tested:
                        gr = grant | frozenset([g["grant"]])
                        cuts.setdefault("%s -> %s granted %s (dispatcher tests the feature bit)" % (n[1], nodes[j][1], g["grant"]), 0)
                        cuts["%s -> %s granted %s (dispatcher tests the feature bit)" % (n[1], nodes[j][1], g["grant"])] += 1
                jcut = cut if j == i else False
                if nodes[j][0] in disp_addr and nodes[j][0] == a:
                    gj = GUARDS[disp_addr[a][0]]
                    if gj["kind"] == "const-param":
                        pi = param_index(gj, re.sub(r"\.part\.\d+$", "", nodes[j][1]))
                        wins = n[10].get(a, [None])
                        vals = [const_arg(w, pi[0], pi[1]) if (w is not None and pi is not None) else None for w in wins]
                        if all(x == 0 for x in vals):
                            jcut = True
                        elif all(x is None for x in vals) and g is gj and cut and forwards_flag(gj):
                            jcut = True      # entered with flag 0 and the source forwards the flag unchanged between dispatchers
                        else:
                            jcut = False
                succ.append((j, jcut, gr))
            for r in n[5]:
                succ += [(node_of(a), False, grant) for a in data_targets(r)]
            for r in n[7]:
                if r in func_starts:         # address of a function taken; anything else in .text is a constant table
                    succ.append((node_of(r), False, grant))
            if n[6] and i + 1 < len(nodes):
                succ.append((i + 1, False, grant))
            for sj in succ:
                if sj not in seen:
                    parent.setdefault(sj, st)
                    work.append(sj)
        feats, unt = {}, set()
        for st in sorted(seen, key=lambda x: (x[0], x[1], sorted(x[2]))):
            i, cut, grant = st
            for ft, w in nodes[i][2].items():
                if ft not in feats and ft not in grant:
                    chain = []
                    k = st
                    while k is not None and len(chain) < 12:
                        chain.append(nodes[k[0]][1])
                        k = parent.get(k)
                    feats[ft] = dict(node=nodes[i][1], insn=w, path=list(reversed(chain)))
            unt |= nodes[i][3]
        nseen = len(set(x[0] for x in seen))
        result[v] = dict(nodes=nseen, features=feats, untracked=sorted(unt), guarded_edges=sorted(cuts))
    return result, len(nodes)


def emit(result, consts_names):
    L = []
    L.append("(* Gen/GenIsa.v -- GENERATED by translators/t3_isa.py from the rebuilt libIPSec_MB.so; do not edit.")
    L.append("   isa_uses v = union of the IMB_FEATURE_* bits of every instruction-set extension used by code reachable from")
    L.append("   init_mb_mgr_<v>_internal (handlers it installs, their callees, dispatch tables).  isa_compiled v = variant present. *)")
    L.append("From Coq Require Import ZArith Bool.")
    L.append("From IMB Require Import Gen.GenConsts Mgr.Select.")
    L.append("Local Open Scope Z_scope.")
    L.append("")
    ctor = lambda v: v.upper()
    L.append("Definition isa_compiled (v : variant) : bool :=")
    L.append("  match v with")
    for v in ALL_VARIANTS:
        L.append("  | %s => %s" % (ctor(v), "true" if result[v] else "false"))
    L.append("  end.")
    L.append("")
    L.append("Definition isa_uses (v : variant) : Z :=")
    L.append("  match v with")
    for v in ALL_VARIANTS:
        if not result[v] or not result[v]["features"]:
            L.append("  | %s => 0" % ctor(v))
        else:
            fs = [f for f in FEATURES if f in result[v]["features"]]
            expr = "IMB_FEATURE_" + fs[0]
            for f in fs[1:]:
                expr = "Z.lor (%s) IMB_FEATURE_%s" % (expr, f)
            L.append("  | %s => %s" % (ctor(v), expr))
    L.append("  end.")
    L.append("")
    L.append("Definition isa_reachable_nodes (v : variant) : Z :=")
    L.append("  match v with")
    for v in ALL_VARIANTS:
        L.append("  | %s => %d" % (ctor(v), result[v]["nodes"] if result[v] else 0))
    L.append("  end.")
    L.append("")
    for v in ALL_VARIANTS:
        if result[v]:
            for f in FEATURES:
                if f in result[v]["features"]:
                    w = result[v]["features"][f]
                    L.append("(* %s uses %s: %s  [%s] *)" % (v, f, w["insn"].replace("*)", "* )").replace("(*", "( *"), w["node"]))
    return "\n".join(L) + "\n"


def main(json_out=None):
    result, nn = analyse(LIBSO)
    if not any(result.values()):
        raise T3Error("no init_mb_mgr_<variant>_internal symbol found")
    txt = emit(result, None)
    os.makedirs(os.path.dirname(OUT), exist_ok=True)
    old = open(OUT).read() if os.path.exists(OUT) else None
    if old != txt:
        with open(OUT, "w") as f:
            f.write(txt)
    gj = os.path.join(BUILD, "gen")
    os.makedirs(gj, exist_ok=True)
    info = dict(total_nodes=nn, variants=result)
    with open(json_out or os.path.join(gj, "isa.json"), "w") as f:
        json.dump(info, f, indent=1)
    return info


if __name__ == "__main__":
    jo = sys.argv[sys.argv.index("--json") + 1] if "--json" in sys.argv else None
    info = main(jo)
    for v in ALL_VARIANTS:
        r = info["variants"][v]
        print(v, "absent" if not r else "%d nodes: %s | untracked: %s" % (r["nodes"], " ".join(f for f in FEATURES if f in r["features"]), " ".join(r["untracked"])))
