#!/usr/bin/env python3
"""T1b: dispatch tables and wrapper call sets of the REBUILT library -> coq/Gen/GenTables.v

Input: the per-variant manager objects of the rebuilt tree
    <build>/lib/lib/CMakeFiles/IPSec_MB.dir/<variant>/mb_mgr_<variant>.c.o
(they keep local symbols and relocations) + the unstripped libIPSec_MB.so (cross-check).

For every compiled variant (sse_t1/t2/t3, avx2_t1/t2/t3[/t4], avx512_t1/t2):

  * the four tables tab_submit_cipher / tab_flush_cipher (256 entries) and tab_submit_hash /
    tab_flush_hash (IMB_AUTH_NUM entries): `nm -S` gives address and size of each table inside
    .data.rel.ro.local, `readelf -r` the R_X86_64_64 relocation of every 8-byte slot; a slot
    without relocation must hold zero bytes (NULL -> None); a relocation `.text + a` is resolved
    to the function symbol that STARTS at a (anything else is an error); a relocation against
    a named symbol (the AES-GCM entries are macros for the exported kernels) is that symbol;

  * for every table entry (wrapper) its behaviour as seen in `objdump -d -r`:
      - calls : direct `call`/tail `jmp` targets, resolved through the relocation attached to
                the instruction (PLT32/PC32 -> symbol name) or, without relocation, to the local
                function that starts at the target address; non-inlined local helpers (static
                functions of the same object) are expanded transitively so that the set only
                contains symbols defined OUTSIDE the manager object;
                indirect calls through the manager (`call *off(%r)` with r known to hold the
                first argument `state`) appear as "@mgr.<IMB_MGR member>", through the job
                (second argument) as "@job.<member>" (custom cipher/hash callbacks);
      - mgrs  : the out-of-order manager pointers (`IMB_MGR.<x>_ooo`) the wrapper loads from
                `state`  (which multi-buffer manager it works on);
    "known to hold" is a forward must-analysis over the wrapper's control-flow graph (register
    copies, spills to the stack frame, kills by any other write and by calls), so a missed read
    can only shrink a set -- which the Coq theorems then reject -- never invent a member.

  * cross-check (second route): the same tables are read from the linked shared object
    (symbol addresses + R_X86_64_RELATIVE relocations) and must name the same functions.

Unknown instructions in a position that matters (indirect branch through something that is
neither `state` nor `job`, jump tables, a table slot that is neither NULL nor a function start)
raise T1bError: nothing is guessed.  The output file is rewritten only on change.

Usage: t1b_tables.py [--check] [--json out.json]   (IMB_REPO / IMB_VERIF_BUILD override paths)
"""
import json, os, re, subprocess, sys, tempfile

VERIF = os.path.dirname(os.path.dirname(os.path.abspath(__file__)))
REPO = os.environ.get("IMB_REPO", "/repo")
BUILD = os.environ.get("IMB_VERIF_BUILD", os.path.join(VERIF, ".build"))
OBJROOT = os.path.join(BUILD, "lib", "lib", "CMakeFiles", "IPSec_MB.dir")
LIBSO = os.path.join(BUILD, "lib", "lib", "libIPSec_MB.so")
OUT = os.path.join(os.environ.get("IMB_COQ_DIR") or os.path.join(VERIF, "coq"), "Gen", "GenTables.v")
TABLES = ["tab_submit_cipher", "tab_flush_cipher", "tab_submit_hash", "tab_flush_hash"]
ALL_VARIANTS = ["sse_t1", "sse_t2", "sse_t3", "avx2_t1", "avx2_t2", "avx2_t3", "avx2_t4", "avx512_t1", "avx512_t2"]


class T1bError(Exception):
    pass


def run(cmd, **kw):
    p = subprocess.run(cmd, stdout=subprocess.PIPE, stderr=subprocess.PIPE, text=True, timeout=600, **kw)
    if p.returncode != 0:
        raise T1bError("command failed: %s\n%s" % (" ".join(cmd), p.stderr[-2000:]))
    return p.stdout


# ------------------------------------------------------------------------------------------------
# IMB_MGR / IMB_JOB member offsets (compiled with the library's compiler against /repo's header)
# ------------------------------------------------------------------------------------------------
def struct_members(hdr_txt, name):
    m = re.search(r"typedef\s+struct\s+%s\s*\{(.*?)\n\}\s*%s\s*;" % (name, name), hdr_txt, re.S)
    if not m:
        raise T1bError("struct %s not found in intel-ipsec-mb.h" % name)
    body = re.sub(r"/\*.*?\*/", "", m.group(1), flags=re.S)
    body = re.sub(r"//[^\n]*", "", body)
    names = []
    depth = 0
    for stmt in body.split(";"):
        s = stmt.strip()
        if not s:
            continue
        depth += s.count("{") - s.count("}")
        if depth != 0 or "{" in s or "}" in s:
            continue        # inside / closing an anonymous union or struct: members reached via the closing name
        fp = re.search(r"\(\s*\*\s*(\w+)\s*\)\s*\(", s)
        if fp:
            names.append(fp.group(1))
            continue
        mm = re.search(r"(\w+)\s*(\[[^\]]*\])*$", s)
        if not mm:
            raise T1bError("cannot parse member declaration %r of %s" % (s, name))
        names.append(mm.group(1))
    return names


def member_offsets():
    hdr = os.path.join(REPO, "lib", "intel-ipsec-mb.h")
    txt = open(hdr).read()
    mgr = struct_members(txt, "IMB_MGR")
    prog = ["#include <stdio.h>", "#include <stddef.h>", "#include <intel-ipsec-mb.h>", "int main(void){"]
    for n in mgr:
        prog.append('printf("MGR %s %%zu %%zu\\n", offsetof(IMB_MGR, %s), sizeof(((IMB_MGR*)0)->%s));' % (n, n, n))
    for n in ["cipher_func", "hash_func"]:
        prog.append('printf("JOB %s %%zu %%zu\\n", offsetof(IMB_JOB, %s), sizeof(((IMB_JOB*)0)->%s));' % (n, n, n))
    prog.append('printf("SIZEOF_MGR %zu 0\\n", sizeof(IMB_MGR)); return 0;}')
    os.makedirs(os.path.join(BUILD, "gen"), exist_ok=True)
    with tempfile.TemporaryDirectory(dir=os.path.join(BUILD, "gen")) as d:
        c = os.path.join(d, "o.c"); x = os.path.join(d, "o")
        open(c, "w").write("\n".join(prog))
        run(["gcc", "-DLINUX", "-I", os.path.join(REPO, "lib"), "-o", x, c])
        out = run([x])
    mgr_off, job_off = {}, {}
    size = None
    for l in out.splitlines():
        t = l.split()
        if t[0] == "MGR":
            mgr_off[int(t[2])] = (t[1], int(t[3]))
        elif t[0] == "JOB":
            job_off[int(t[2])] = t[1]
        else:
            size = int(t[1])
    # the members must tile the struct's pointer area without overlap (sanity of the textual member list)
    last_end = 0
    for off in sorted(mgr_off):
        if off < last_end:
            raise T1bError("IMB_MGR members overlap at offset %d" % off)
        last_end = off + mgr_off[off][1]
    if last_end != size:
        raise T1bError("IMB_MGR members end at %d, sizeof is %d" % (last_end, size))
    return mgr_off, job_off


# ------------------------------------------------------------------------------------------------
# object file reading
# ------------------------------------------------------------------------------------------------
def read_symbols(obj):
    """-> (text function starts {addr: name}, tables {name: (addr, size, section)}, sizes {name: size})"""
    out = run(["nm", "-S", "--defined-only", obj])
    funcs, tabs, sizes = {}, {}, {}
    for l in out.splitlines():
        t = l.split()
        if len(t) == 4:
            addr, size, kind, name = int(t[0], 16), int(t[1], 16), t[2], t[3]
        elif len(t) == 3:
            addr, size, kind, name = int(t[0], 16), 0, t[1], t[2]
        else:
            continue
        if kind in "tT":
            if name.startswith(".L"):
                continue
            if addr in funcs:
                raise T1bError("%s: two function symbols at .text+0x%x (%s, %s): identical-code folding is not handled"
                               % (obj, addr, funcs[addr], name))
            funcs[addr] = name
            sizes[name] = size
        elif name in TABLES:
            tabs[name] = (addr, size)
    for t in TABLES:
        if t not in tabs:
            raise T1bError("%s: table %s not found" % (obj, t))
    return funcs, tabs, sizes


def section_of_tables(obj):
    """the tables must all live in one data section; return (its name, its bytes)"""
    out = run(["readelf", "-s", "-W", obj])
    ndx = set()
    for l in out.splitlines():
        t = l.split()
        if len(t) >= 8 and t[7] in TABLES:
            ndx.add(t[6])
    if len(ndx) != 1:
        raise T1bError("%s: tables spread over sections %s" % (obj, ndx))
    idx = int(ndx.pop())
    sh = run(["readelf", "-S", "-W", obj])
    name = None
    for l in sh.splitlines():
        m = re.match(r"\s*\[\s*(\d+)\]\s+(\S+)\s+(\S+)\s+([0-9a-f]+)\s+([0-9a-f]+)\s+([0-9a-f]+)", l)
        if m and int(m.group(1)) == idx:
            name, off, size = m.group(2), int(m.group(5), 16), int(m.group(6), 16)
    if name is None:
        raise T1bError("%s: section %d not found" % (obj, idx))
    data = open(obj, "rb").read()[off:off + size]
    return name, data


def read_table_relocs(obj, secname):
    out = run(["readelf", "-r", "-W", obj])
    rel = {}
    cur = None
    for l in out.splitlines():
        m = re.match(r"Relocation section '([^']+)'", l)
        if m:
            cur = m.group(1)
            continue
        if cur != ".rela" + secname:
            continue
        t = l.split()
        if len(t) < 5 or not re.match(r"^[0-9a-f]{16}$", t[0]):
            continue
        off, typ = int(t[0], 16), t[2]
        if typ != "R_X86_64_64":
            raise T1bError("%s: unexpected relocation type %s in %s" % (obj, typ, cur))
        sym = t[4]
        add = 0
        if len(t) >= 7 and t[5] in "+-":
            add = int(t[6], 16) * (1 if t[5] == "+" else -1)
        rel[off] = (sym, add)
    return rel


def read_tables(obj, funcs, tabs):
    secname, data = section_of_tables(obj)
    rel = read_table_relocs(obj, secname)
    res = {}
    for t in TABLES:
        addr, size = tabs[t]
        if size % 8:
            raise T1bError("%s: size of %s is not a multiple of 8" % (obj, t))
        ent = []
        for i in range(size // 8):
            o = addr + 8 * i
            if o in rel:
                sym, add = rel[o]
                if sym == ".text":
                    if add not in funcs:
                        raise T1bError("%s: %s[%d] points to .text+0x%x which is not a function start" % (obj, t, i, add))
                    ent.append(("local", funcs[add]))
                elif sym.startswith("."):
                    raise T1bError("%s: %s[%d] relocated against section %s" % (obj, t, i, sym))
                else:
                    if add != 0:
                        raise T1bError("%s: %s[%d] = %s+%d" % (obj, t, i, sym, add))
                    ent.append(("extern", sym))
            else:
                if data[o:o + 8] != b"\0" * 8:
                    raise T1bError("%s: %s[%d] has no relocation but is not NULL" % (obj, t, i))
                ent.append(None)
        res[t] = ent
    return res


# ------------------------------------------------------------------------------------------------
# disassembly and the `state`/`job` must-analysis
# ------------------------------------------------------------------------------------------------
REG64 = ["rax", "rbx", "rcx", "rdx", "rsi", "rdi", "rbp", "rsp", "r8", "r9", "r10", "r11", "r12", "r13", "r14", "r15"]
SUBREG = {}
for r in ["rax", "rbx", "rcx", "rdx"]:
    b = r[1]
    for s in (r, "e" + b + "x", b + "x", b + "l", b + "h"):
        SUBREG[s] = r
for r in ["rsi", "rdi", "rbp", "rsp"]:
    b = r[1:]
    for s in (r, "e" + b, b, b + "l"):
        SUBREG[s] = r
for i in range(8, 16):
    for s in ("r%d" % i, "r%dd" % i, "r%dw" % i, "r%db" % i):
        SUBREG[s] = "r%d" % i
CALLER_SAVED = {"rax", "rcx", "rdx", "rsi", "rdi", "r8", "r9", "r10", "r11"}
NO_WRITE = {"cmp", "cmpq", "cmpl", "cmpw", "cmpb", "test", "testq", "testl", "testw", "testb", "nop", "nopw", "nopl",
            "endbr64", "ret", "push", "pushq", "jmp", "leave_", "data16", "xchg_nop", "bt", "btq", "btl",
            "ucomiss", "ucomisd", "comiss", "comisd", "vucomiss", "vucomisd", "prefetcht0", "prefetchnta", "sfence",
            "lfence", "mfence", "vzeroupper", "vzeroall", "cs", "notrack", "bnd", "ud2", "hlt", "int3", "pause", "cld", "std"}
IMPLICIT = {  # mnemonic prefix -> registers written besides the explicit destination
    "mul": {"rax", "rdx"}, "imul1": {"rax", "rdx"}, "div": {"rax", "rdx"}, "idiv": {"rax", "rdx"},
    "cpuid": {"rax", "rbx", "rcx", "rdx"}, "rdtsc": {"rax", "rdx"}, "cltq": {"rax"}, "cqto": {"rax", "rdx"},
    "cltd": {"rax", "rdx"}, "cwtl": {"rax"}, "xgetbv": {"rax", "rdx"},
    "rep": {"rcx", "rsi", "rdi", "rax"}, "repz": {"rcx", "rsi", "rdi", "rax"}, "repnz": {"rcx", "rsi", "rdi", "rax"},
    "movs": {"rsi", "rdi"}, "stos": {"rdi"}, "lods": {"rsi", "rax"}, "scas": {"rdi"}, "cmps": {"rsi", "rdi"},
    "cmpxchg": {"rax"}, "xadd": set(), "pop": set(), "leave": {"rsp", "rbp"},
}


class Insn:
    __slots__ = ("addr", "mnem", "ops", "reloc", "raw", "target")

    def __init__(self, addr, mnem, ops, raw):
        self.addr, self.mnem, self.ops, self.raw = addr, mnem, ops, raw
        self.reloc = None
        self.target = None


def split_ops(s):
    ops, depth, cur = [], 0, ""
    for ch in s:
        if ch == "(":
            depth += 1
        elif ch == ")":
            depth -= 1
        if ch == "," and depth == 0:
            ops.append(cur.strip()); cur = ""
        else:
            cur += ch
    if cur.strip():
        ops.append(cur.strip())
    return ops


def parse_disasm(obj):
    """-> {function name: [Insn]} for the .text section"""
    out = run(["objdump", "-d", "-r", "--no-show-raw-insn", "-j", ".text", obj])
    fns, cur, last = {}, None, None
    for l in out.splitlines():
        m = re.match(r"^([0-9a-f]+) <([^>]+)>:$", l)
        if m:
            cur = []
            fns[m.group(2)] = cur
            last = None
            continue
        m = re.match(r"^\s+([0-9a-f]+):\s+(R_X86_64_\w+)\s+(\S+)$", l)
        if m:
            if last is None:
                raise T1bError("relocation without instruction: " + l)
            sym = m.group(3)
            sym = re.sub(r"[-+]0x[0-9a-f]+$", "", sym)
            if last.reloc is not None and last.mnem in ("call", "jmp"):
                raise T1bError("two relocations on a branch: " + last.raw)
            last.reloc = (m.group(2), sym)
            continue
        m = re.match(r"^\s+([0-9a-f]+):\t(.*)$", l)
        if m and cur is not None:
            txt = m.group(2).strip()
            if not txt:
                continue
            txt = re.sub(r"\s+#.*$", "", txt)
            parts = txt.split(None, 1)
            mnem = parts[0]
            rest = parts[1] if len(parts) > 1 else ""
            while mnem in ("notrack", "bnd", "lock", "data16", "cs", "ds", "es", "ss", "rex.W", "rex") and rest:
                parts = rest.split(None, 1)
                mnem = parts[0]
                rest = parts[1] if len(parts) > 1 else ""
            tgt = None
            mt = re.match(r"^([0-9a-f]+) <([^>+]+)(\+0x[0-9a-f]+)?>$", rest)
            if mt:
                tgt = (int(mt.group(1), 16), mt.group(2), mt.group(3))
                ops = []
            else:
                ops = split_ops(rest)
            ins = Insn(int(m.group(1), 16), mnem, ops, txt)
            ins.target = tgt
            cur.append(ins)
            last = ins
    return fns


def reg_of(op):
    if op.startswith("%"):
        return SUBREG.get(op[1:])
    return None


def mem_of(op):
    """'disp(%base)' or '(%base)' without index -> (disp, base64) ; else None (any other memory form -> ('?', None))"""
    m = re.match(r"^(-?0x[0-9a-f]+|-?\d+)?\(%(\w+)\)$", op)
    if m:
        d = m.group(1)
        disp = int(d, 16) if d and "x" in d else (int(d) if d else 0)
        return disp, SUBREG.get(m.group(2))
    if "(" in op:
        return "?", None
    return None


def is_jcc(m):
    return m.startswith("j") and m not in ("jmp", "jmpq")


def analyse_function(name, insns, funcs_by_addr, mgr_off, job_off, ooo_min):
    """-> dict(direct=set(symbols), local=set(local function names), indirect=set('@mgr.x'), mgrs=set(member))"""
    n = len(insns)
    idx = {ins.addr: i for i, ins in enumerate(insns)}
    lo, hi = insns[0].addr, insns[-1].addr
    # successors
    succ = [[] for _ in range(n)]
    for i, ins in enumerate(insns):
        m = ins.mnem
        if m in ("ret", "retq", "ud2", "hlt"):
            continue
        if m in ("jmp", "jmpq") or is_jcc(m):
            if ins.reloc is None and ins.target is not None and ins.target[0] in idx and ins.target[1] == name:
                succ[i].append(idx[ins.target[0]])          # intra-function branch
                if is_jcc(m) and i + 1 < n:
                    succ[i].append(i + 1)
                continue
            if is_jcc(m):
                # conditional tail call (jcc to another function): falls through as well
                if i + 1 < n:
                    succ[i].append(i + 1)
                continue
            continue     # tail call / indirect jump: leaves the function
        if i + 1 < n:
            succ[i].append(i + 1)
    TOP = None
    # state element: frozenset of ("S"|"J", location) where location is a register name or ("sp", offset)
    inst = [TOP] * n
    inst[0] = frozenset({("S", "rdi"), ("J", "rsi")})
    work = [0]
    res = dict(direct=set(), local=set(), indirect=set(), mgrs=set(), jobcb=set())

    def holds(st, kind, reg):
        return (kind, reg) in st

    def kill_reg(st, reg):
        return frozenset(x for x in st if x[1] != reg)

    def kill_stack(st):
        return frozenset(x for x in st if not isinstance(x[1], tuple))

    def transfer(i, st, record):
        ins = insns[i]
        m, ops = ins.mnem, ins.ops
        # ---- observations ----
        if record:
            if m in ("call", "callq", "jmp", "jmpq") or is_jcc(m):
                if ins.reloc is not None:
                    res["direct"].add(ins.reloc[1])
                elif ins.target is not None:
                    a, fn, plus = ins.target
                    if fn != name or (plus is None and a != lo):
                        if plus is not None or a not in funcs_by_addr:
                            raise T1bError("%s: branch into the middle of %s: %s" % (name, fn, ins.raw))
                        res["local"].add(funcs_by_addr[a])
                    elif m in ("call", "callq"):
                        if plus is None and a == lo:
                            res["local"].add(name)   # recursion
                        else:
                            raise T1bError("%s: call into own body: %s" % (name, ins.raw))
                elif ops and ops[0].startswith("*"):
                    mo = mem_of(ops[0][1:])
                    if mo and mo[1] is not None and mo[0] != "?" and holds(st, "S", mo[1]) and mo[0] in mgr_off:
                        res["indirect"].add("@mgr." + mgr_off[mo[0]][0])
                    elif mo and mo[1] is not None and mo[0] != "?" and holds(st, "J", mo[1]) and mo[0] in job_off:
                        res["indirect"].add("@job." + job_off[mo[0]])
                    else:
                        raise T1bError("%s: unrecognised indirect branch: %s" % (name, ins.raw))
                else:
                    raise T1bError("%s: unrecognised branch: %s" % (name, ins.raw))
            # loads of out-of-order manager pointers from `state`
            for op in ops[:-1] if len(ops) > 1 else ops:
                mo = mem_of(op)
                if mo and mo[1] is not None and mo[0] != "?" and holds(st, "S", mo[1]):
                    d = mo[0]
                    if d >= ooo_min:
                        if d not in mgr_off:
                            raise T1bError("%s: load from state+0x%x is not an IMB_MGR member: %s" % (name, d, ins.raw))
                        res["mgrs"].add(mgr_off[d][0])
        # ---- transfer ----
        if m in ("call", "callq"):
            for r in CALLER_SAVED:
                st = kill_reg(st, r)
            return st
        if m in ("mov", "movq") and len(ops) == 2:
            src, dst = ops
            rs, rd = reg_of(src), reg_of(dst)
            if rd is not None and dst[1:] == rd:           # full 64-bit destination register
                kinds = []
                if rs is not None and src[1:] == rs:
                    kinds = [k for (k, loc) in st if loc == rs]
                else:
                    mo = mem_of(src)
                    if mo and mo[1] == "rsp" and mo[0] != "?":
                        kinds = [k for (k, loc) in st if loc == ("sp", mo[0])]
                st = kill_reg(st, rd)
                return st | frozenset((k, rd) for k in kinds)
            if rd is None:
                mo = mem_of(dst)
                if mo and mo[1] == "rsp" and mo[0] != "?":
                    loc = ("sp", mo[0])
                    st = frozenset(x for x in st if x[1] != loc)
                    if rs is not None and src[1:] == rs:
                        st = st | frozenset((k, loc) for (k, l2) in st if l2 == rs)
                    return st
                if mo is not None:
                    # store through another pointer: could alias the frame only via rsp/rbp-relative forms
                    if mo[1] in ("rbp",) or mo[0] == "?":
                        st = kill_stack(st)
                    return st
        if m in ("push", "pushq", "sub", "add", "lea", "leaq", "and", "pop", "popq", "leave") and any(
                reg_of(o) == "rsp" for o in ops[-1:]) or m in ("push", "pushq", "pop", "popq", "leave"):
            # stack pointer moves: tracked frame slots are keyed by offset from the current rsp -> forget them
            st = kill_stack(st)
            if m in ("pop", "popq") and ops:
                r = reg_of(ops[0])
                if r:
                    st = kill_reg(st, r)
            if m == "leave":
                st = kill_reg(kill_reg(st, "rsp"), "rbp")
            if m in ("push", "pushq"):
                return st
            if m in ("pop", "popq", "leave"):
                return st
        if m in NO_WRITE or is_jcc(m) or m in ("jmp", "jmpq"):
            return st
        # generic: the last operand is the destination
        if m.startswith("xchg") and len(ops) == 2:
            for o in ops:
                r = reg_of(o)
                if r:
                    st = kill_reg(st, r)
            return st
        for key, regs in IMPLICIT.items():
            if m.startswith(key) and not (key == "mul" and len(ops) > 1):
                for r in regs:
                    st = kill_reg(st, r)
        if m.startswith("imul") and len(ops) == 1:
            st = kill_reg(kill_reg(st, "rax"), "rdx")
        if ops:
            dst = ops[-1]
            r = reg_of(dst)
            if r:
                st = kill_reg(st, r)
            else:
                mo = mem_of(dst)
                if mo is not None and (mo[1] in ("rsp", "rbp") or mo[0] == "?"):
                    if mo[1] == "rsp" and mo[0] != "?":
                        loc = ("sp", mo[0])
                        st = frozenset(x for x in st if x[1] != loc)
                    else:
                        st = kill_stack(st)
        return st

    # fixpoint (must-analysis: meet = intersection)
    guard = 0
    while work:
        guard += 1
        if guard > 200000:
            raise T1bError("%s: dataflow does not converge" % name)
        i = work.pop()
        out = transfer(i, inst[i], False)
        for j in succ[i]:
            new = out if inst[j] is TOP else (inst[j] & out)
            if inst[j] is TOP or new != inst[j]:
                inst[j] = new
                work.append(j)
    for i in range(n):
        if inst[i] is not TOP:
            transfer(i, inst[i], True)
    # indirect `jmp *%reg` (jump tables) are rejected above as unrecognised indirect branches
    return res


def analyse_object(variant, obj, mgr_off, job_off):
    funcs, tabs, sizes = read_symbols(obj)
    tables = read_tables(obj, funcs, tabs)
    dis = parse_disasm(obj)
    ooo_min = min(o for o, (nm, sz) in mgr_off.items() if nm.endswith("_ooo"))
    cache = {}

    def analyse(fn):
        if fn not in cache:
            if fn not in dis:
                raise T1bError("%s: no disassembly for local function %s" % (variant, fn))
            cache[fn] = analyse_function(fn, dis[fn], funcs, mgr_off, job_off, ooo_min)
        return cache[fn]

    def closure(fn):
        seen, stack = set(), [fn]
        direct, indirect, mgrs = set(), set(), set()
        while stack:
            f = stack.pop()
            if f in seen:
                continue
            seen.add(f)
            r = analyse(f)
            direct |= r["direct"]; indirect |= r["indirect"]; mgrs |= r["mgrs"]
            stack.extend(r["local"])
        local_names = set(funcs.values())
        # a direct relocation target that is defined in this object (exported API entry) stays a name
        return sorted(direct | indirect), sorted(mgrs), sorted(seen - {fn})

    wrappers = {}
    for t in TABLES:
        for e in tables[t]:
            if e is None:
                continue
            kind, nm = e
            if nm in wrappers:
                continue
            if kind == "extern":
                wrappers[nm] = dict(name=nm, extern=True, calls=[nm], mgrs=[], via=[])
            else:
                calls, mgrs, via = closure(nm)
                wrappers[nm] = dict(name=nm, extern=False, calls=calls, mgrs=mgrs, via=via)
    return dict(variant=variant, tables={t: [e[1] if e else None for e in tables[t]] for t in TABLES}, wrappers=wrappers)


# ------------------------------------------------------------------------------------------------
# second route: the linked shared object
# ------------------------------------------------------------------------------------------------
def so_crosscheck(results):
    """tables of the shared object: per variant the local symbol tab_* that follows the variant's functions.
    The .so holds 8+ copies of each tab_* symbol; they are matched to variants through the wrapper addresses:
    a table belongs to the variant whose set_suite_id_<variant> lies in the same translation unit (FILE symbol)."""
    out = run(["readelf", "-s", "-W", LIBSO])
    cur_file = None
    tabs = {}    # file -> {tab: (addr, size)}
    funcs = {}   # addr -> set(names)
    for l in out.splitlines():
        t = l.split()
        if len(t) < 8:
            continue
        typ, name = t[3], t[7]
        if typ == "FILE":
            cur_file = name
            continue
        if not re.match(r"^[0-9a-f]+$", t[1]):
            continue
        addr = int(t[1], 16)
        if typ == "FUNC" and addr:
            funcs.setdefault(addr, set()).add(name)
        if typ == "OBJECT" and name in TABLES and cur_file:
            tabs.setdefault(cur_file, {})[name] = (addr, int(t[2]) if t[2].isdigit() else int(t[2], 0))
    rel = {}
    out = run(["readelf", "-r", "-W", LIBSO])
    for l in out.splitlines():
        t = l.split()
        if len(t) >= 4 and t[2] == "R_X86_64_RELATIVE":
            rel[int(t[0], 16)] = int(t[3], 16)
        elif len(t) >= 5 and t[2] in ("R_X86_64_64", "R_X86_64_GLOB_DAT") and re.match(r"^[0-9a-f]{16}$", t[0]):
            rel[int(t[0], 16)] = ("sym", t[4])
    checked = 0
    for r in results:
        f = "mb_mgr_%s.c" % r["variant"]
        if f not in tabs:
            raise T1bError("shared object has no tables for %s" % f)
        for tname in TABLES:
            addr, size = tabs[f][tname]
            exp = r["tables"][tname]
            if size != 8 * len(exp):
                raise T1bError("%s %s: size in .so %d != 8*%d" % (f, tname, size, len(exp)))
            for i, e in enumerate(exp):
                v = rel.get(addr + 8 * i)
                if e is None:
                    if v is not None:
                        raise T1bError("%s %s[%d]: NULL in object, relocated in .so" % (f, tname, i))
                elif isinstance(v, tuple):
                    if v[1] != e:
                        raise T1bError("%s %s[%d]: %s in object, %s in .so" % (f, tname, i, e, v[1]))
                else:
                    if v is None or e not in funcs.get(v, ()):
                        raise T1bError("%s %s[%d]: %s in object, %s in .so" % (f, tname, i, e, sorted(funcs.get(v, ())) if v else None))
                checked += 1
    return checked


# ------------------------------------------------------------------------------------------------
# source-level pieces of lib/include/mb_mgr_job_api.h: calc_cipher_tab_index(), ENCRYPT_DECRYPT_GAP
# ------------------------------------------------------------------------------------------------
JOB_FIELD_WIDTH = {"cipher_mode": 32, "cipher_direction": 32, "hash_alg": 32, "key_len_in_bytes": 64}


def c_tokens(src):
    toks = []
    i = 0
    while i < len(src):
        c = src[i]
        if c.isspace():
            i += 1
        elif src.startswith("->", i):
            toks.append("->"); i += 2
        elif src.startswith("<<", i) or src.startswith(">>", i):
            toks.append(src[i:i + 2]); i += 2
        elif c in "()+-&":
            toks.append(c); i += 1
        elif c.isdigit():
            m = re.match(r"(0x[0-9a-fA-F]+|\d+)([uUlL]*)", src[i:])
            toks.append(("num", int(m.group(1), 0), m.group(2))); i += len(m.group(0))
        elif c.isalpha() or c == "_":
            m = re.match(r"\w+", src[i:])
            toks.append(("id", m.group(0))); i += len(m.group(0))
        else:
            raise T1bError("calc_cipher_tab_index: unexpected character %r in %r" % (c, src))
    return toks


class CExpr:
    """precedence climbing for the C subset  + - << >> &  ( )  job->field  CONSTANT  literal;
    returns (gallina term, width) following the usual arithmetic conversions for unsigned operands"""
    PREC = {"&": 1, "<<": 2, ">>": 2, "+": 3, "-": 3}

    def __init__(self, toks, enum_consts):
        self.t, self.i, self.enum = toks, 0, enum_consts

    def peek(self):
        return self.t[self.i] if self.i < len(self.t) else None

    def take(self):
        x = self.t[self.i]; self.i += 1
        return x

    def primary(self):
        x = self.take()
        if x == "(":
            e = self.expr(0)
            if self.take() != ")":
                raise T1bError("calc_cipher_tab_index: missing )")
            return e
        if isinstance(x, tuple) and x[0] == "num":
            return (str(x[1]), 64 if "l" in x[2].lower() else 32)
        if isinstance(x, tuple) and x[0] == "id":
            if x[1] == "job":
                if self.take() != "->":
                    raise T1bError("calc_cipher_tab_index: expected job->field")
                f = self.take()
                if not (isinstance(f, tuple) and f[0] == "id" and f[1] in JOB_FIELD_WIDTH):
                    raise T1bError("calc_cipher_tab_index: unknown job field %r" % (f,))
                return (f[1], JOB_FIELD_WIDTH[f[1]])
            if x[1] in self.enum:
                return (x[1], 32)
            raise T1bError("calc_cipher_tab_index: unknown identifier %s" % x[1])
        raise T1bError("calc_cipher_tab_index: unexpected token %r" % (x,))

    def expr(self, minp):
        lhs = self.primary()
        while True:
            op = self.peek()
            if not isinstance(op, str) or op not in self.PREC or self.PREC[op] < minp:
                return lhs
            self.take()
            rhs = self.expr(self.PREC[op] + 1)
            (a, wa), (b, wb) = lhs, rhs
            if op in ("<<", ">>"):
                w = wa
                lhs = ("(c_shl %d %s %s)" % (w, a, b), w) if op == "<<" else ("(c_shr %s %s)" % (a, b), w)
            else:
                w = max(wa, wb)
                name = {"+": "c_add %d" % w, "-": "c_sub %d" % w, "&": "c_and"}[op]
                lhs = ("(%s %s %s)" % (name, a, b), w)


def source_pieces():
    hdr = os.path.join(REPO, "lib", "include", "mb_mgr_job_api.h")
    src = open(hdr).read()
    src_nc = re.sub(r"/\*.*?\*/", " ", src, flags=re.S)
    m = re.search(r"calc_cipher_tab_index\s*\(\s*const\s+IMB_JOB\s*\*\s*job\s*\)\s*\{(.*?)\}", src_nc, re.S)
    if not m:
        raise T1bError("calc_cipher_tab_index(const IMB_JOB *job) not found")
    body = m.group(1).strip()
    mr = re.match(r"^return\s+(.*?);\s*$", body, re.S)
    if not mr:
        raise T1bError("calc_cipher_tab_index: body is not a single return statement: %r" % body)
    rt = re.search(r"__forceinline\s+(\w[\w\s]*?)\s+calc_cipher_tab_index", src_nc)
    if not rt or rt.group(1).strip() != "unsigned":
        raise T1bError("calc_cipher_tab_index: return type is not `unsigned`")
    expr_src = " ".join(mr.group(1).split())
    p = CExpr(c_tokens(expr_src), {"IMB_DIR_ENCRYPT", "IMB_DIR_DECRYPT"})
    term, w = p.expr(0)
    if p.i != len(p.t):
        raise T1bError("calc_cipher_tab_index: trailing tokens")
    mg = re.search(r"^#define\s+ENCRYPT_DECRYPT_GAP\s+(\d+)\s*$", src_nc, re.M)
    if not mg:
        raise T1bError("ENCRYPT_DECRYPT_GAP not found")
    # the four dispatch sites must index the tables the way the model assumes
    sites = {
        "SUBMIT_JOB_CIPHER": r"const unsigned idx = calc_cipher_tab_index\(job\);.*?return tab_submit_cipher\[idx\]\(state, job\);",
        "FLUSH_JOB_CIPHER": r"const unsigned idx = calc_cipher_tab_index\(job\);\s*return tab_flush_cipher\[idx\]\(state, job\);",
        "SUBMIT_JOB_HASH": r"return tab_submit_hash\[job->hash_alg\]\(state, job\);",
        "FLUSH_JOB_HASH": r"return tab_flush_hash\[job->hash_alg\]\(state, job\);",
        "CALL_SUBMIT_CIPHER": r"const unsigned c_idx = job->suite_id\[0\];\s*return tab_submit_cipher\[c_idx\]\(state, job\);",
        "CALL_FLUSH_CIPHER": r"const unsigned c_idx = job->suite_id\[0\];\s*return tab_flush_cipher\[c_idx\]\(state, job\);",
        "CALL_SUBMIT_HASH": r"const unsigned h_idx = job->suite_id\[1\];\s*return tab_submit_hash\[h_idx\]\(state, job\);",
        "CALL_FLUSH_HASH": r"const unsigned h_idx = job->suite_id\[1\];\s*return tab_flush_hash\[h_idx\]\(state, job\);",
        "set_cipher_suite_id": r"const unsigned c_idx = calc_cipher_tab_index\(job\);\s*const unsigned h_idx = \(unsigned\) job->hash_alg;\s*id\[0\] = c_idx;\s*id\[1\] = h_idx;",
    }
    for fn, pat in sites.items():
        mf = re.search(r"\n%s\s*\([^)]*\)\s*\{(.*?)\n\}" % fn, src_nc, re.S)
        if not mf:
            raise T1bError("function %s not found in mb_mgr_job_api.h" % fn)
        if not re.search(pat, mf.group(1), re.S):
            raise T1bError("%s no longer has the modelled shape:\n%s" % (fn, mf.group(1)))
    # the stage sequencing functions: modelled shape, and the burst twins are the same text modulo the dispatch macro
    def body(fn):
        mf = re.search(r"\n%s\s*\([^)]*\)\s*\{(.*?)\n\}" % fn, src_nc, re.S)
        if not mf:
            raise T1bError("function %s not found in mb_mgr_job_api.h" % fn)
        return " ".join(mf.group(1).split())
    shapes = {
        "RESUBMIT_JOB": "while (job != NULL && job->status < IMB_STATUS_COMPLETED) { if (job->status == IMB_STATUS_COMPLETED_AUTH) "
                        "job = SUBMIT_JOB_CIPHER(state, job); else job = SUBMIT_JOB_HASH(state, job); } return job;",
        "submit_new_job": "if (job->cipher_mode == IMB_CIPHER_GCM) return SUBMIT_JOB_CIPHER(state, job); "
                          "if (job->chain_order == IMB_ORDER_CIPHER_HASH) job = SUBMIT_JOB_CIPHER(state, job); "
                          "else job = SUBMIT_JOB_HASH(state, job); job = RESUBMIT_JOB(state, job); return job;",
        "complete_job": "uint32_t completed_jobs = 0; if (job->chain_order == IMB_ORDER_CIPHER_HASH) { "
                        "while (job->status < IMB_STATUS_COMPLETED) { IMB_JOB *tmp = FLUSH_JOB_CIPHER(state, job); "
                        "if (tmp == NULL) tmp = FLUSH_JOB_HASH(state, job); (void) RESUBMIT_JOB(state, tmp); completed_jobs++; } } "
                        "else { while (job->status < IMB_STATUS_COMPLETED) { IMB_JOB *tmp = FLUSH_JOB_HASH(state, job); "
                        "if (tmp == NULL) tmp = FLUSH_JOB_CIPHER(state, job); (void) RESUBMIT_JOB(state, tmp); completed_jobs++; } } "
                        "return completed_jobs;",
    }
    twin = {"RESUBMIT_JOB": "RESUBMIT_BURST_JOB", "submit_new_job": "submit_new_burst_job", "complete_job": "complete_burst_job"}
    ren = [("CALL_SUBMIT_CIPHER", "SUBMIT_JOB_CIPHER"), ("CALL_SUBMIT_HASH", "SUBMIT_JOB_HASH"), ("CALL_FLUSH_CIPHER", "FLUSH_JOB_CIPHER"),
           ("CALL_FLUSH_HASH", "FLUSH_JOB_HASH"), ("RESUBMIT_BURST_JOB", "RESUBMIT_JOB")]
    for fn, want in shapes.items():
        got = body(fn)
        if got != want:
            raise T1bError("%s no longer has the shape modelled in Mgr/Dispatch.v (stage machine):\n%s" % (fn, got))
        tw = body(twin[fn])
        for a_, b_ in ren:
            tw = tw.replace(a_, b_)
        if tw != want:
            raise T1bError("%s differs from %s by more than the dispatch macros:\n%s" % (twin[fn], fn, tw))
    return dict(expr_src=expr_src, term=term, width=w, gap=int(mg.group(1)))


# ------------------------------------------------------------------------------------------------
# output
# ------------------------------------------------------------------------------------------------
def coq_str(s):
    if '"' in s or "\\" in s:
        raise T1bError("symbol with quote: " + s)
    return '"%s"' % s


def coq_list(items, per_line=6, indent="    "):
    if not items:
        return "[]"
    lines = []
    for i in range(0, len(items), per_line):
        lines.append(indent + "; ".join(items[i:i + per_line]))
    return "[\n" + ";\n".join(lines) + " ]"


def ident(s):
    return re.sub(r"[^A-Za-z0-9_]", "_", s)


def generate(results, mgr_off, srcp):
    L = ["(* GENERATED by translators/t1b_tables.py -- DO NOT EDIT.",
         "   Source: the rebuilt manager objects <build>/lib/lib/CMakeFiles/IPSec_MB.dir/<variant>/mb_mgr_<variant>.c.o",
         "   (nm -S, readelf -r, objdump -d -r), cross-checked against libIPSec_MB.so (symbols + RELATIVE relocations).",
         "   tables: one entry per index, None = NULL.  wrapper: the table entry's code as disassembled:",
         "   w_calls = symbols it calls (direct call / tail jmp after inlining, local helpers expanded; \"@mgr.x\" = indirect",
         "   call through IMB_MGR member x, \"@job.x\" through the job's callback x), w_mgrs = IMB_MGR.*_ooo members it loads. *)",
         "From Coq Require Import String List NArith.",
         "Import ListNotations.",
         "Local Open Scope string_scope.",
         "Local Open Scope N_scope.",
         "",
         "Record wrapper := mk_wrapper {",
         "  w_name : string;        (* symbol name of the table entry *)",
         "  w_extern : bool;        (* true: the entry is an exported kernel itself (no wrapper) *)",
         "  w_calls : list string;  (* callees, sorted *)",
         "  w_mgrs : list string    (* out-of-order managers of IMB_MGR it loads, sorted *)",
         "}.",
         "",
         "Record variant_tables := mk_variant_tables {",
         "  vt_name : string;",
         "  vt_submit_cipher : list (option wrapper);",
         "  vt_flush_cipher : list (option wrapper);",
         "  vt_submit_hash : list (option wrapper);",
         "  vt_flush_hash : list (option wrapper)",
         "}.",
         ""]
    L += ["(* ---- C arithmetic of the generated index expression (unsigned operands only) ---- *)",
          "Definition c_mask (w : N) (x : N) : N := N.land x (N.ones w).",
          "Definition c_add (w : N) (a b : N) : N := c_mask w (a + b).",
          "Definition c_sub (w : N) (a b : N) : N := c_mask w (a + N.shiftl 1 w - c_mask w b).",
          "Definition c_shl (w : N) (a n : N) : N := c_mask w (N.shiftl a n).",
          "Definition c_shr (a n : N) : N := N.shiftr a n.",
          "Definition c_and (a b : N) : N := N.land a b.",
          "",
          "(* lib/include/mb_mgr_job_api.h: #define ENCRYPT_DECRYPT_GAP *)",
          "Definition ENCRYPT_DECRYPT_GAP : N := %d." % srcp["gap"],
          "",
          "(* calc_cipher_tab_index(): image of",
          "     return %s;" % srcp["expr_src"],
          "   operand widths: cipher_mode, cipher_direction, enum constants, literals 32 bit; key_len_in_bytes 64 bit;",
          "   result converted to `unsigned` (32 bit).  The enum constants are parameters: instantiate with GenEnums. *)",
          "Definition gen_calc_cipher_tab_index (IMB_DIR_ENCRYPT IMB_DIR_DECRYPT cipher_mode key_len_in_bytes cipher_direction : N) : N :=",
          "  c_mask 32 %s." % srcp["term"],
          "",
          "(* the dispatch sites SUBMIT_JOB_CIPHER/HASH, FLUSH_JOB_CIPHER/HASH, CALL_SUBMIT_*/CALL_FLUSH_*, set_cipher_suite_id and the",
          "   stage functions RESUBMIT_JOB, submit_new_job, complete_job (+ their burst twins, equal modulo the dispatch macro)",
          "   were matched textually against the shapes modelled in Mgr/Dispatch.v (translator fails otherwise) *)",
          ""]
    L.append("(* IMB_MGR.*_ooo members in declaration order *)")
    ooo = [nm for off, (nm, sz) in sorted(mgr_off.items()) if nm.endswith("_ooo")]
    L.append("Definition all_ooo_members : list string := %s." % coq_list([coq_str(x) for x in ooo]))
    L.append("")
    for r in results:
        v = r["variant"]
        for nm in sorted(r["wrappers"]):
            w = r["wrappers"][nm]
            L.append("Definition w_%s_%s : wrapper := mk_wrapper %s %s %s %s." % (
                v, ident(nm), coq_str(nm), "true" if w["extern"] else "false",
                coq_list([coq_str(c) for c in w["calls"]], 4), coq_list([coq_str(c) for c in w["mgrs"]], 6)))
        L.append("")
        for t in TABLES:
            ents = ["Some w_%s_%s" % (v, ident(e)) if e else "None" for e in r["tables"][t]]
            L.append("Definition %s_%s : list (option wrapper) := %s." % (t, v, coq_list(ents, 4)))
        L.append("Definition tables_%s : variant_tables := mk_variant_tables %s %s." % (
            v, coq_str(v), " ".join("%s_%s" % (t, v) for t in TABLES)))
        L.append("")
    L.append("Definition all_variant_tables : list variant_tables := [%s]." % "; ".join("tables_" + r["variant"] for r in results))
    L.append("")
    return "\n".join(L)


# ------------------------------------------------------------------------------------------------
# acknowledged findings: known_findings.txt -> coq/Gen/GenKnownC06.v
# ------------------------------------------------------------------------------------------------
OUT_KNOWN = os.path.join(os.environ.get("IMB_COQ_DIR") or os.path.join(VERIF, "coq"), "Gen", "GenKnownC06.v")
KNOWN_FILE = os.environ.get("IMB_KNOWN_FINDINGS", os.path.join(VERIF, "known_findings.txt"))


def enum_values(prefix):
    """enumerator values of IMB_CIPHER_MODE / IMB_HASH_ALG (names from the typedef text, values from the compiler)"""
    typedef = {"IMB_CIPHER_": "IMB_CIPHER_MODE", "IMB_AUTH_": "IMB_HASH_ALG"}[prefix]
    hdr = open(os.path.join(REPO, "lib", "intel-ipsec-mb.h")).read()
    hdr = re.sub(r"/\*.*?\*/", "", hdr, flags=re.S)
    hdr = re.sub(r"//[^\n]*", "", hdr)
    m = re.search(r"typedef\s+enum\s*\{([^}]*)\}\s*" + typedef + r"\s*;", hdr)
    if not m:
        raise T1bError("enum %s not found" % typedef)
    names = [re.match(r"\s*([A-Za-z_]\w*)", part).group(1) for part in m.group(1).split(",") if part.strip()]
    prog = ["#include <stdio.h>", "#include <intel-ipsec-mb.h>", "int main(void){"] + \
           ['printf("%s %%d\\n", (int)%s);' % (n, n) for n in names] + ["return 0;}"]
    os.makedirs(os.path.join(BUILD, "gen"), exist_ok=True)
    with tempfile.TemporaryDirectory(dir=os.path.join(BUILD, "gen")) as d:
        c = os.path.join(d, "e.c"); x = os.path.join(d, "e")
        open(c, "w").write("\n".join(prog))
        run(["gcc", "-DLINUX", "-I", os.path.join(REPO, "lib"), "-o", x, c])
        out = run([x])
    return {l.split()[0][len(prefix):]: int(l.split()[1]) for l in out.splitlines() if l.startswith(prefix)}


def parse_known_c06(path=None):
    """lines  `property=C06 key=<constraints> text`  ->  list of dict(cipher, klen, dir, hash: list | None = any, line)
    constraints: comma separated  cipher=A|B  klen=24|32  dir=enc|dec  hash=X|Y  hash=!X|Y
    (names without IMB_CIPHER_/IMB_AUTH_, or numbers)"""
    path = path or KNOWN_FILE
    out = []
    if not os.path.exists(path):
        return out
    C = H = None
    for line in open(path):
        line = line.strip()
        if not line or line.startswith("#") or line.startswith("fixed:"):
            continue
        if not re.search(r"\bproperty=C06\b", line):
            continue
        m = re.search(r"\bkey=(\S+)", line)
        if not m:
            raise T1bError("known_findings.txt: C06 line without key=: " + line)
        if C is None:
            C, H = enum_values("IMB_CIPHER_"), enum_values("IMB_AUTH_")
        ent = dict(cipher=None, klen=None, dir=None, hash=None, line=line, key=m.group(1))
        for cons in m.group(1).split(","):
            if "=" not in cons:
                raise T1bError("known_findings.txt: bad constraint %r in %s" % (cons, line))
            a, v = cons.split("=", 1)
            neg = v.startswith("!")
            vals = (v[1:] if neg else v).split("|")
            if a == "cipher":
                ent["cipher"] = [int(x) if x.isdigit() else C[x] for x in vals]
            elif a == "klen":
                ent["klen"] = [int(x) for x in vals]
            elif a == "dir":
                ent["dir"] = [{"enc": 1, "dec": 2}.get(x, None) or int(x) for x in vals]
            elif a == "hash":
                hv = [int(x) if x.isdigit() else H[x] for x in vals]
                ent["hash"] = [h for h in range(1, H["NUM"]) if h not in hv] if neg else hv
            else:
                raise T1bError("known_findings.txt: unknown attribute %r (cipher, klen, dir, hash) in %s" % (a, line))
        if ent["cipher"] is None and ent["hash"] is None:
            raise T1bError("known_findings.txt: C06 key must constrain cipher= or hash=: " + line)
        out.append(ent)
    return out


def generate_known():
    ents = parse_known_c06()
    trip = []
    for e in ents:
        for c in (e["cipher"] or [0]):
            for k in (e["klen"] or [0]):
                for d in (e["dir"] or [0]):
                    for h in (e["hash"] or [0]):
                        trip.append((c, k, d, h))
    trip = sorted(set(trip))
    L = ["(* GENERATED by translators/t1b_tables.py from known_findings.txt (lines `property=C06 key=...`) -- DO NOT EDIT.",
         "   Acknowledged, unrepaired C06 findings as (cipher mode, key length, direction, hash alg), 0 = any.",
         "   The C06 theorems about the tables and the validation rules are stated for every cell NOT listed here. *)",
         "From Coq Require Import NArith List.", "Import ListNotations.", "Local Open Scope N_scope.", ""]
    for e in ents:
        L.append("(* %s *)" % e["line"].replace("(*", "( *").replace("*)", "* )")[:400])
    L.append("Definition known_c06 : list (N * N * N * N) := %s." %
             coq_list(["(%d, %d, %d, %d)" % t for t in trip], 6))
    L.append("")
    return "\n".join(L), ents


def write_if_changed(path, content):
    if os.path.exists(path) and open(path).read() == content:
        return False
    tmp = path + ".tmp"
    open(tmp, "w").write(content)
    os.replace(tmp, path)
    return True


def extract():
    mgr_off, job_off = member_offsets()
    results = []
    for v in ALL_VARIANTS:
        obj = os.path.join(OBJROOT, v, "mb_mgr_%s.c.o" % v)
        src = os.path.join(REPO, "lib", v, "mb_mgr_%s.c" % v)
        if not os.path.exists(obj):
            if os.path.exists(src) and v != "avx2_t4":
                raise T1bError("variant %s has a source file but no object in the rebuilt tree" % v)
            continue   # avx2_t4: not compiled with this NASM version
        results.append(analyse_object(v, obj, mgr_off, job_off))
    if len(results) < 8:
        raise T1bError("only %d variants found under %s" % (len(results), OBJROOT))
    nchecked = so_crosscheck(results)
    return results, mgr_off, nchecked, source_pieces()


def main(argv=None):
    argv = sys.argv[1:] if argv is None else argv
    results, mgr_off, nchecked, srcp = extract()
    txt = generate(results, mgr_off, srcp)
    if "--json" in argv:
        json.dump(results, open(argv[argv.index("--json") + 1], "w"), indent=1)
    if "--check" in argv:
        same = os.path.exists(OUT) and open(OUT).read() == txt
        print("GenTables.v %s" % ("up to date" if same else "DIFFERS"))
        return 0 if same else 1
    ch = write_if_changed(OUT, txt)
    ktxt, kents = generate_known()
    kch = write_if_changed(OUT_KNOWN, ktxt)
    print("GenKnownC06.v: %d acknowledged finding line(s)%s" % (len(kents), " (rewritten)" if kch else " (unchanged)"))
    print("GenTables.v: %d variants, %d wrappers, %d table slots cross-checked against the .so%s"
          % (len(results), sum(len(r["wrappers"]) for r in results), nchecked, " (rewritten)" if ch else " (unchanged)"))
    return 0


if __name__ == "__main__":
    try:
        sys.exit(main())
    except T1bError as e:
        print("T1b ERROR: %s" % e, file=sys.stderr)
        sys.exit(2)
