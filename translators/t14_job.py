#!/usr/bin/env python3
"""T14: the IMB_JOB descriptor — layout and the census of library writes into it.

(1) Layout.  `clang -Xclang -fdump-record-layouts` on lib/intel-ipsec-mb.h gives every leaf member
    of IMB_JOB with its offset; sizes and a second opinion on the offsets come from a C program
    (offsetof/sizeof on the full member paths, gcc).  Leaves that share storage (union members)
    are grouped into CELLS = maximal 4/8-byte storage units of the top-level struct.  Output:
      coq/Gen/GenJobLayout.v      job_cells (name, offset, size, aliases), job_padding, sizeof
      <build>/gen/job_fields.h    the same table for the C harnesses (k14_desc.c)
(2) Write census.  Every assignment through a pointer / array element to a member named like an
    IMB_JOB leaf in lib/**/*.{c,h} (the library acting as an application in x86_64/self_test.c and
    on local stack descriptors `job.x = ...` is excluded), and every store into a `_field` offset
    of include/imb_job.inc in lib/**/*.{asm,inc}.  Output: coq/Gen/GenJobWrites.v.
    This is a textual census (regular expressions, no alias analysis): it is tied to reality by
    the byte-exact descriptor comparison of harness/k14_desc.c on every suite.

Fails loudly on anything it cannot parse."""
import os, re, subprocess, sys, tempfile
sys.path.insert(0, os.path.dirname(os.path.dirname(os.path.abspath(__file__))))
from checks import common


class T14Error(RuntimeError):
    pass


def clang_layout():
    hdr = os.path.join(common.REPO, "lib")
    with tempfile.TemporaryDirectory(dir=common.BUILD) as t:
        c = os.path.join(t, "l.c")
        open(c, "w").write("#include <intel-ipsec-mb.h>\nIMB_JOB verif_j;\n")
        p = subprocess.run(["clang", "-I", hdr, "-Xclang", "-fdump-record-layouts", "-fsyntax-only", c],
                           stdout=subprocess.PIPE, stderr=subprocess.PIPE, text=True, timeout=120)
    if p.returncode != 0:
        raise T14Error("clang failed: " + p.stderr[-400:])
    lines = p.stdout.splitlines()
    start = None
    for i, l in enumerate(lines):
        if re.match(r"\s*0 \| struct IMB_JOB\s*$", l):
            start = i
            break
    if start is None:
        raise T14Error("layout of struct IMB_JOB not found in clang output")
    leaves = []   # (path, offset)
    stack = []    # (indent, name or None)
    size = None
    for l in lines[start + 1:]:
        m = re.match(r"\s*\| \[sizeof=(\d+)", l)
        if m:
            size = int(m.group(1))
            break
        m = re.match(r"\s*(\d+) \|(\s+)(.*)$", l)
        if not m:
            raise T14Error("unparsable layout line: %r" % l)
        off, ind, decl = int(m.group(1)), len(m.group(2)), m.group(3).rstrip()
        while stack and stack[-1][0] >= ind:
            stack.pop()
        agg = re.match(r"(union|struct)\s+(.*)$", decl)
        if agg and ("(anonymous at" in decl or "(unnamed at" in decl or re.match(r"(union|struct)\s+\S+\s+\S+$", decl)):
            # aggregate member: named (`... ) u`, `struct _X X`) or anonymous
            mm = re.search(r"\)\s*(\w+)?\s*$", decl) if "(" in decl else re.match(r"(?:union|struct)\s+\S+\s+(\w+)$", decl)
            nm = mm.group(1) if mm and mm.group(1) else None
            # a pointer-to-struct leaf such as `struct gcm_context_data * ctx` is NOT an aggregate
            if "*" in decl:
                nm = re.search(r"(\w+)\s*$", decl).group(1)
                leaves.append((".".join([s[1] for s in stack if s[1]] + [nm]), off))
                continue
            stack.append((ind, nm))
            continue
        nm = re.search(r"(\w+)\s*$", decl)
        if not nm:
            raise T14Error("no member name in %r" % decl)
        leaves.append((".".join([s[1] for s in stack if s[1]] + [nm.group(1)]), off))
    if size is None:
        raise T14Error("sizeof(IMB_JOB) not found")
    return leaves, size


def gcc_sizes(paths):
    prog = ['#include <stdio.h>', '#include <stddef.h>', '#include <intel-ipsec-mb.h>', 'int main(void){']
    for p in paths:
        prog.append('printf("%s %%zu %%zu\\n", offsetof(IMB_JOB, %s), sizeof(((IMB_JOB *)0)->%s));' % (p, p, p))
    prog.append('printf("SIZEOF %zu 0\\n", sizeof(IMB_JOB)); return 0;}')
    with tempfile.TemporaryDirectory(dir=common.BUILD) as t:
        c = os.path.join(t, "s.c"); x = os.path.join(t, "s")
        open(c, "w").write("\n".join(prog))
        common.run(["gcc", "-I", os.path.join(common.REPO, "lib"), "-o", x, c], check=True)
        out = common.run([x], check=True).stdout
    d = {}
    for l in out.splitlines():
        n, o, s = l.split()
        d[n] = (int(o), int(s))
    return d


def cells_of(leaves, sizes, total):
    """group leaves by storage; arrays of scalars are split per element"""
    items = []
    for path, off in leaves:
        o2, sz = sizes[path]
        if o2 != off:
            raise T14Error("clang and gcc disagree on offsetof(%s): %d vs %d" % (path, off, o2))
        if path == "suite_id":
            if sz != 8:
                raise T14Error("suite_id is no longer uint32_t[2]")
            items.append(("suite_id[0]", off, 4)); items.append(("suite_id[1]", off + 4, 4))
        else:
            if sz not in (4, 8):
                raise T14Error("leaf %s has size %d: not a scalar cell" % (path, sz))
            items.append((path, off, sz))
    cells = {}
    for path, off, sz in items:
        cells.setdefault((off, sz), []).append(path)
    keys = sorted(cells)
    for (o1, s1), (o2, s2) in zip(keys, keys[1:]):
        if o1 + s1 > o2:
            raise T14Error("overlapping cells of different shape at %d/%d" % (o1, o2))
    pads = []
    pos = 0
    for o, s in keys:
        if o > pos:
            pads.append((pos, o - pos))
        pos = o + s
    if pos < total:
        pads.append((pos, total - pos))
    return [(cells[k][0], k[0], k[1], cells[k]) for k in keys], pads


def asm_job_fields():
    inc = os.path.join(common.REPO, "lib", "include", "imb_job.inc")
    txt = open(inc).read()
    names = re.findall(r"^\s*(?:FIELD|END_FIELDS|UNION)?\s*(_[A-Za-z0-9_]+)\s*[,:]", txt, flags=re.M)
    names += re.findall(r"^%(?:define|assign|xdefine)\s+(_[A-Za-z0-9_]+)\s", txt, flags=re.M)
    names = sorted(set(n for n in names if not n.startswith("_IMB_JOB") and n not in ("_FIELD_OFFSET",)))
    if "_status" not in names or len(names) < 20:
        raise T14Error("could not recover the job field names from imb_job.inc (%d found)" % len(names))
    return names


def census(leaf_names):
    root = os.path.join(common.REPO, "lib")
    # C side
    simple = sorted(set(n.split(".")[-1] for n in leaf_names if "." not in n and "[" not in n) | {"suite_id"})
    dotted = sorted(set(re.sub(r"\[\d\]", "", n) for n in leaf_names if "." in n))
    alt = "|".join([re.escape(d) for d in dotted] + [s + r"(?:\s*\[[^\]]*\])?" for s in simple])
    pat = re.compile(r"(?P<base>[A-Za-z_][A-Za-z0-9_]*(?:\s*\[[^\]]*\])?)\s*(?P<acc>->|\]\s*\.)\s*(?P<f>" + alt +
                     r")\s*(?P<op>\|=|&=|\^=|\+=|-=|\*=|/=|<<=|>>=|=|\+\+|--)(?P<rhs>[^=;][^;]*|)\s*;")
    pat_pre = re.compile(r"(\+\+|--)\s*[A-Za-z_][A-Za-z0-9_]*\s*->\s*(" + alt + r")\b")
    cw = []
    for d, _, fs in os.walk(root):
        for f in sorted(fs):
            if not f.endswith((".c", ".h")):
                continue
            p = os.path.join(d, f)
            rel = os.path.relpath(p, common.REPO)
            if rel in ("lib/intel-ipsec-mb.h", "lib/x86_64/self_test.c"):
                continue
            src = open(p, errors="replace").read()
            src = re.sub(r"/\*.*?\*/", lambda m: "\n" * m.group(0).count("\n"), src, flags=re.S)
            src = re.sub(r"//[^\n]*", "", src)
            for m in pat.finditer(src):
                base = m.group("base")
                if m.group("acc") == "->" and "[" in base and not re.match(r"\w+\s*\[", base):
                    pass
                ln = src.count("\n", 0, m.start()) + 1
                cw.append(dict(file=rel, line=ln, base=re.sub(r"\s+", "", base), field=re.sub(r"\s+", "", m.group("f")),
                               op=m.group("op"), rhs=re.sub(r"\s+", " ", m.group("rhs").strip())))
            for m in pat_pre.finditer(src):
                ln = src.count("\n", 0, m.start()) + 1
                cw.append(dict(file=rel, line=ln, base="?", field=m.group(2), op=m.group(1), rhs=""))
    # assembly side
    fields = asm_job_fields()
    falt = "|".join(re.escape(x) for x in sorted(fields, key=len, reverse=True))
    apat = re.compile(r"^\s*(?:lock\s+)?(?P<mn>[a-z][a-z0-9]*)\s+(?P<w>byte|word|dword|qword|oword|yword|zword)?\s*\[\s*(?P<base>[%A-Za-z_0-9]+)\s*\+\s*(?P<f>" +
                      falt + r")\s*(?:\+\s*[^\]]*)?\]\s*,\s*(?P<rhs>[^;\n]+)", re.M)
    reads_only = {"cmp", "test", "bt", "ucomiss", "comiss", "vucomiss", "prefetcht0", "push"}
    aw = []
    for d, _, fs in os.walk(root):
        for f in sorted(fs):
            if not f.endswith((".asm", ".inc")):
                continue
            p = os.path.join(d, f)
            rel = os.path.relpath(p, common.REPO)
            src = open(p, errors="replace").read()
            for m in apat.finditer(src):
                if m.group("mn") in reads_only:
                    continue
                ln = src.count("\n", 0, m.start()) + 1
                aw.append(dict(file=rel, line=ln, mn=m.group("mn"), width=m.group("w") or "", base=m.group("base"),
                               field=m.group("f"), rhs=m.group("rhs").strip()))
    return cw, aw


def coq_str(s):
    s = "".join(ch if 32 <= ord(ch) < 127 else "?" for ch in s)
    return '"%s"%%string' % s.replace('"', '""')


def main():
    os.makedirs(os.path.join(common.BUILD, "gen"), exist_ok=True)
    leaves, total = clang_layout()
    sizes = gcc_sizes([p for p, _ in leaves])
    if sizes["SIZEOF"][0] != total:
        raise T14Error("sizeof(IMB_JOB): clang %d, gcc %d" % (total, sizes["SIZEOF"][0]))
    cells, pads = cells_of(leaves, sizes, total)
    leaf_names = [p for p, _ in leaves]
    cw, aw = census(leaf_names)

    L = ["(* GENERATED by translators/t14_job.py from lib/intel-ipsec-mb.h (clang record layout + gcc offsetof) — do not edit. *)",
         "From Coq Require Import ZArith List String.", "Import ListNotations.", "Local Open Scope Z_scope.", "",
         "Definition sizeof_IMB_JOB : Z := %d." % total,
         "(* storage cells of IMB_JOB: (name of the first member, offset, size, all members sharing the cell) *)",
         "Definition job_cells : list (string * Z * Z * list string) := ["]
    L.append(";\n".join("  (%s, %d, %d, [%s])" % (coq_str(n), o, s, "; ".join(coq_str(a) for a in al)) for n, o, s, al in cells))
    L.append("].")
    L.append("Definition job_padding : list (Z * Z) := [%s]." % "; ".join("(%d, %d)" % p for p in pads))
    txt = "\n".join(L) + "\n"
    outp = os.path.join(common.COQDIR, "Gen", "GenJobLayout.v")
    if not os.path.exists(outp) or open(outp).read() != txt:
        open(outp, "w").write(txt)

    W = ["(* GENERATED by translators/t14_job.py: textual census of library writes into IMB_JOB descriptors — do not edit. *)",
         "From Coq Require Import ZArith List String.", "Import ListNotations.", "Local Open Scope Z_scope.", "",
         "(* C: <base>-><field> <op> <rhs>;   (file, line, field, op, rhs) *)",
         "Definition c_job_writes : list (string * Z * string * string * string) := ["]
    W.append(";\n".join("  (%s, %d, %s, %s, %s)" % (coq_str(w["file"]), w["line"], coq_str(w["field"]), coq_str(w["op"]), coq_str(w["rhs"])) for w in cw))
    W.append("].")
    W.append("(* assembly: <mnemonic> <width> [<reg> + <_field>], <rhs>   (file, line, field, mnemonic, width, rhs) *)")
    W.append("Definition asm_job_writes : list (string * Z * string * string * string * string) := [")
    W.append(";\n".join("  (%s, %d, %s, %s, %s, %s)" % (coq_str(w["file"]), w["line"], coq_str(w["field"]), coq_str(w["mn"]), coq_str(w["width"]), coq_str(w["rhs"])) for w in aw))
    W.append("].")
    wtxt = "\n".join(W) + "\n"
    outw = os.path.join(common.COQDIR, "Gen", "GenJobWrites.v")
    if not os.path.exists(outw) or open(outw).read() != wtxt:
        open(outw, "w").write(wtxt)

    H = ["/* GENERATED by translators/t14_job.py — do not edit */", "#ifndef VERIF_JOB_FIELDS_H", "#define VERIF_JOB_FIELDS_H",
         "#include <stddef.h>", "#include <intel-ipsec-mb.h>",
         "struct verif_job_cell { const char *name; unsigned off, size; const char *aliases; };",
         "static const struct verif_job_cell verif_job_cells[] = {"]
    for n, o, s, al in cells:
        H.append('        { "%s", %d, %d, "%s" },' % (n, o, s, ",".join(al)))
    H.append("};")
    H.append("#define VERIF_JOB_NCELLS %d" % len(cells))
    H.append("/* compile-time second opinion on the offsets */")
    for n, o, s, al in cells:
        if "[" not in n:
            H.append('_Static_assert(offsetof(IMB_JOB, %s) == %d, "offset of %s");' % (n, o, n))
    H.append('_Static_assert(sizeof(IMB_JOB) == %d, "sizeof(IMB_JOB)");' % total)
    H.append("#endif")
    htxt = "\n".join(H) + "\n"
    outh = os.path.join(common.BUILD, "gen", "job_fields.h")
    if not os.path.exists(outh) or open(outh).read() != htxt:
        open(outh, "w").write(htxt)
    return dict(cells=cells, pads=pads, cw=cw, aw=aw, total=total)


if __name__ == "__main__":
    d = main()
    print("GenJobLayout.v: %d cells, padding %s, sizeof %d" % (len(d["cells"]), d["pads"], d["total"]))
    print("GenJobWrites.v: %d C writes, %d asm writes" % (len(d["cw"]), len(d["aw"])))
    import collections
    c = collections.Counter((w["field"], w["op"], w["rhs"]) for w in d["cw"])
    for k, v in sorted(c.items()):
        print("  C  ", v, k)
    c = collections.Counter((w["field"], w["mn"], w["width"], w["rhs"]) for w in d["aw"])
    for k, v in sorted(c.items()):
        print("  asm", v, k)
