#!/usr/bin/env python3
"""T2: lib/include/mb_mgr_job_check.h -> coq/Gen/GenValidate.v

Statement-by-statement Gallina image of `is_job_invalid_light` and `is_job_invalid`, taken from the
clang JSON AST of REAL library translation units (lib/<arch>/mb_mgr_<arch>.c, preprocessed with the
-D/-I/-m flags recorded in .build/lib/compile_commands.json), plus the actual-argument conversions
at the call sites in submit_job_and_check() / submit_burst_and_check().

Discipline: every AST node kind, operator, cast kind, type, callee, memory read and control-flow
shape that is not explicitly handled raises T2Error (the check then takes the broken-obligation
path).  Nothing is guessed.

Conventions of the image (see coq/Mgr/JobView.v):
  * every C value is an N; pointers are addresses (NULL = 0); `int` values that are not compile-time
    constants are kept as 32-bit two's-complement images;
  * `f(...)` returns `option N`: `Some e` = C returned non-zero after imb_set_errno(state, e),
    `None` = C returned 0;  a statement is an `option N` too (`None` = completed normally) and
    statements are chained with `oseq`;
  * `a && b` / `a || b` are Coq `&&` / `||`, which ARE short-circuit (`andb a b := if a then b else
    false`), so the evaluation order of the C is preserved literally;
  * unsigned/pointer `+ - * <<` are emitted with explicit 64-bit wrap-around (add64/sub64/mul64/
    shl64) unless both operands are compile-time constants (then the folded value is emitted and
    the folder checks it is representable); narrowing integral casts are emitted as masks; widening
    casts of unsigned values and `/ >> &` cannot overflow and are emitted bare;
  * memory reads through pointers are only those listed in MEMREADS / the SGL segment array and
    are mapped to the memory-view fields of job_view.

Usage: t2_validate.py [--check]      (IMB_REPO overrides /repo)
"""
import json, os, re, subprocess, sys, tempfile, hashlib, concurrent.futures

VERIF = os.path.dirname(os.path.dirname(os.path.abspath(__file__)))
sys.path.insert(0, os.path.dirname(os.path.abspath(__file__)))
import t1_enums  # noqa: E402

REPO = os.environ.get("IMB_REPO", "/repo")
OUT = os.path.join(os.environ.get("IMB_COQ_DIR", os.path.join(VERIF, "coq")), "Gen", "GenValidate.v")
COMPDB = os.path.join(os.environ.get("IMB_LIB_BUILD_DIR", os.path.join(VERIF, ".build", "lib")), "compile_commands.json")
TUS = ["lib/sse_t1/mb_mgr_sse_t1.c", "lib/avx2_t1/mb_mgr_avx2_t1.c", "lib/avx512_t1/mb_mgr_avx512_t1.c"]

# storage slots of IMB_JOB visible in job_view: (offset, size) -> field
SLOTS = {
    (0, 8): "jv_enc_keys", (8, 8): "jv_dec_keys", (16, 8): "jv_key_len_in_bytes", (24, 8): "jv_src",
    (32, 8): "jv_dst", (40, 8): "jv_cipher_start_src_offset", (48, 8): "jv_msg_len_to_cipher",
    (56, 8): "jv_hash_start_src_offset", (64, 8): "jv_msg_len_to_hash", (72, 8): "jv_iv",
    (80, 8): "jv_iv_len_in_bytes", (88, 8): "jv_auth_tag_output", (96, 8): "jv_auth_tag_output_len",
    (104, 8): "jv_u0", (112, 8): "jv_u1", (120, 8): "jv_u2",
    (132, 4): "jv_cipher_mode", (136, 4): "jv_cipher_direction", (140, 4): "jv_hash_alg",
    (144, 4): "jv_chain_order", (168, 8): "jv_cipher_func", (176, 8): "jv_hash_func",
    (184, 4): "jv_sgl_state", (192, 8): "jv_next_iv",
}
ENUM_TYPES = {"IMB_CIPHER_MODE", "IMB_HASH_ALG", "IMB_CIPHER_DIRECTION", "IMB_KEY_SIZE_BYTES",
              "IMB_CHAIN_ORDER", "IMB_SGL_STATE", "IMB_STATUS"}
POINTEE_SIZE = {"uint8_t": 1, "unsigned char": 1, "void *": 8, "struct IMB_SGL_IOV": 24}
# allowed memory reads: provenance -> job_view memory field
MEMREADS = {
    ("idx", ("field", "jv_enc_keys"), 0, 8): "jv_enc_ks0",
    ("idx", ("field", "jv_enc_keys"), 1, 8): "jv_enc_ks1",
    ("idx", ("field", "jv_enc_keys"), 2, 8): "jv_enc_ks2",
    ("idx", ("field", "jv_dec_keys"), 0, 8): "jv_dec_ks0",
    ("idx", ("field", "jv_dec_keys"), 1, 8): "jv_dec_ks1",
    ("idx", ("field", "jv_dec_keys"), 2, 8): "jv_dec_ks2",
    ("deref", ("add", ("field", "jv_src"), ("field", "jv_hash_start_src_offset")), 8): "jv_mem_xgem_hdr",
}
# array walked by a for loop: base slot -> (view list, element record accessors, element size)
MEMARRAYS = {("field", "jv_src"): ("jv_sgl_segs", {"in": "seg_in", "out": "seg_out", "len": "seg_len"}, 24)}
PARAMS = ["cipher_mode", "hash_alg", "cipher_direction", "key_len_in_bytes"]


class T2Error(Exception):
    pass


def fail(node, msg):
    loc = ""
    if isinstance(node, dict):
        b = node.get("range", {}).get("begin", {})
        ln = b.get("line") or b.get("expansionLoc", {}).get("line") or b.get("spellingLoc", {}).get("line")
        loc = " [%s at line %s]" % (node.get("kind"), ln)
    raise T2Error(msg + loc)


# ------------------------------------------------------------------ clang
def tu_flags(tu_rel):
    if not os.path.exists(COMPDB):
        raise T2Error("compile_commands.json not found (build the library first): " + COMPDB)
    db = json.load(open(COMPDB))
    ent = [e for e in db if e["file"].endswith("/" + tu_rel)]
    if len(ent) != 1:
        raise T2Error("expected exactly one compile command for %s, found %d" % (tu_rel, len(ent)))
    e = ent[0]
    root = e["file"][: -len("/" + tu_rel)]
    toks = e["command"].split()
    flags = []
    for t in toks[1:]:
        if t.startswith(("-D", "-U", "-m", "-std=")):
            flags.append(t)
        elif t.startswith("-I"):
            p = t[2:]
            if p == root or p.startswith(root + "/"):
                p = REPO + p[len(root):]
            flags.append("-I" + p)
    if not any(f == "-DSAFE_PARAM" for f in flags):
        raise T2Error("library is not built with SAFE_PARAM (flags: %s)" % flags)
    return flags


def load_multi_json(s):
    dec, i, objs = json.JSONDecoder(), 0, []
    while i < len(s):
        while i < len(s) and s[i] in " \n\r\t":
            i += 1
        if i >= len(s):
            break
        if s.startswith("Dumping", i):
            i = s.index("\n", i)
            continue
        o, i = dec.raw_decode(s, i)
        objs.append(o)
    return objs


def clang_ast(tu_rel, flags, filt):
    cmd = ["clang"] + flags + ["-Wno-everything", "-fsyntax-only", "-Xclang", "-ast-dump=json", "-Xclang",
                               "-ast-dump-filter=" + filt, os.path.join(REPO, tu_rel)]
    p = subprocess.run(cmd, stdout=subprocess.PIPE, stderr=subprocess.PIPE, text=True)
    if p.returncode != 0:
        raise T2Error("clang failed on %s:\n%s" % (tu_rel, p.stderr[-3000:]))
    return load_multi_json(p.stdout)


# pure static helpers called from the translated functions: fetched on demand, read in place (see Tr.pure_helper)
import threading
_HELPER_TL = threading.local()      # one context per thread: the translation units are translated by a thread pool


class _HelperCtx:
    def update(self, tu, flags, cache):
        _HELPER_TL.tu, _HELPER_TL.flags, _HELPER_TL.cache = tu, flags, cache

    def __getitem__(self, k):
        return getattr(_HELPER_TL, k, None if k != "cache" else {})


HELPER_CTX = _HelperCtx()


def helper_decl(name):
    if HELPER_CTX["tu"] is None:
        return None
    if name not in HELPER_CTX["cache"]:
        try:
            objs = clang_ast(HELPER_CTX["tu"], HELPER_CTX["flags"], name)
            fs = [o for o in objs if o.get("kind") == "FunctionDecl" and o.get("name") == name and
                  any(c.get("kind") == "CompoundStmt" for c in o.get("inner", []))]
            HELPER_CTX["cache"][name] = fs[0] if len(fs) == 1 else None
        except T2Error:
            HELPER_CTX["cache"][name] = None
    return HELPER_CTX["cache"][name]


def get_function(objs, name, tu):
    fs = [o for o in objs if o.get("kind") == "FunctionDecl" and o.get("name") == name and
          any(c.get("kind") == "CompoundStmt" for c in o.get("inner", []))]
    if len(fs) != 1:
        raise T2Error("expected one definition of %s in %s, found %d" % (name, tu, len(fs)))
    return fs[0]


# ------------------------------------------------------------------ C types
class CT:
    def __init__(self, kind, bits=0, pointee=None):
        self.kind, self.bits, self.pointee = kind, bits, pointee  # kind: 'u','s','ptr','void','arr','rec'

    def __repr__(self):
        return "%s%d" % (self.kind, self.bits) if self.kind in "us" else (self.kind + ("(%s)" % self.pointee if self.pointee else ""))


INT_TYPES = {"unsigned long": ("u", 64), "unsigned long long": ("u", 64), "unsigned int": ("u", 32),
             "unsigned short": ("u", 16), "unsigned char": ("u", 8), "int": ("s", 32), "long": ("s", 64),
             "long long": ("s", 64), "short": ("s", 16), "uint64_t": ("u", 64), "uint32_t": ("u", 32),
             "uint16_t": ("u", 16), "uint8_t": ("u", 8)}


def strip_quals(t):
    t = re.sub(r"\b(const|volatile|restrict)\b", "", t)
    return re.sub(r"\s+", " ", t).strip()


def ctype(node):
    t = node.get("type", {})
    q = t.get("desugaredQualType", t.get("qualType"))
    if q is None:
        fail(node, "expression without a type")
    return parse_type(q, node)


def parse_type(q, node=None):
    s = strip_quals(q)
    if re.search(r"\(\*\)\s*\(", s):
        return CT("ptr", 64, "<function>")
    if s.endswith("*"):
        pointee = strip_quals(s[:-1])
        return CT("ptr", 64, pointee)
    if "[" in s:
        return CT("arr", 0, s)
    if s in INT_TYPES:
        k, b = INT_TYPES[s]
        return CT(k, b)
    if s in ENUM_TYPES:
        return CT("u", 32)  # all enumerators non-negative (checked by T1) -> unsigned int; sizeof checked below
    if s == "void":
        return CT("void")
    if s.startswith("struct ") or s.startswith("union ") or s in ("IMB_JOB", "IMB_MGR"):
        return CT("rec", 0, s)
    fail(node, "unsupported C type '%s'" % q)


def pointee_size(ct, node):
    if ct.kind != "ptr":
        fail(node, "pointer expected")
    p = ct.pointee
    if p in POINTEE_SIZE:
        return POINTEE_SIZE[p]
    if p.endswith("*"):
        return 8
    fail(node, "unknown pointee size for '%s'" % p)


# ------------------------------------------------------------------ values
class V:
    """A translated C rvalue: Gallina term of type N (or bool when isbool), its C type, optional
    compile-time constant (mathematical value), optional provenance for memory reads."""

    def __init__(self, term, ct, const=None, prov=None, nonneg=None):
        self.term, self.ct, self.const, self.prov = term, ct, const, prov
        self.nonneg = (const >= 0) if const is not None else (nonneg if nonneg is not None else ct.kind in ("u", "ptr"))


def lit(n):
    if n < 0:
        raise T2Error("internal: negative literal")
    return str(n)


def rng(ct):
    if ct.kind == "u" or ct.kind == "ptr":
        return 0, (1 << ct.bits) - 1
    return -(1 << (ct.bits - 1)), (1 << (ct.bits - 1)) - 1


def mkconst(val, ct, node):
    lo, hi = rng(ct)
    if ct.kind == "s":
        if not (lo <= val <= hi):
            fail(node, "signed constant expression overflows (%d)" % val)
        return V(lit(val) if val >= 0 else "(*neg*)", ct, const=val)
    val &= hi
    return V(lit(val), ct, const=val)


def paren(t):
    return t if re.fullmatch(r"[A-Za-z0-9_']+", t) else "(" + t + ")"


class Tr:
    """Translator for one function."""

    def __init__(self, fname, enumvals, job_names=("job",), params=PARAMS):
        self.fname, self.enumvals = fname, enumvals
        self.job_names, self.params = set(job_names), params
        self.member_paths = {}   # path -> slot (filled lazily through layout())
        self.layout_cache = None
        self.defs = []           # hoisted definitions (text), in order
        self.nfor = 0
        self.assigned = set()
        self.used_paths = set()
        self.stats = {"if": 0, "return": 0, "case": 0, "switch": 0, "for": 0, "memread": 0, "wrap_ops": 0, "masks": 0}

    # ---- member path -> slot through offsetof/sizeof
    def member_path(self, node):
        names = []
        n = node
        while n.get("kind") == "MemberExpr":
            if n.get("name"):
                names.append(n["name"])
            base = n["inner"][0]
            if n.get("isArrow"):
                return ".".join(reversed(names)), base
            n = base
        fail(node, "member access not rooted at a pointer dereference")

    def prescan_paths(self, root):
        """All IMB_JOB member paths in the function: one offsetof/sizeof query for all of them."""
        paths = set()

        def walk(n):
            if n.get("kind") == "MemberExpr":
                try:
                    path, base = self.member_path(n)
                    b = strip_casts(base)
                    if path and b.get("kind") == "DeclRefExpr" and b["referencedDecl"]["name"] in self.job_names:
                        paths.add(path)
                except T2Error:
                    pass
            for c in n.get("inner", []):
                if isinstance(c, dict):
                    walk(c)
        walk(root)
        layout_lookup(sorted(paths))

    def slot_of(self, path, node):
        off_sz = layout_lookup([path])[path]
        if off_sz not in SLOTS:
            fail(node, "IMB_JOB member '%s' (offset %d size %d) is not a job_view slot" % (path, off_sz[0], off_sz[1]))
        self.used_paths.add(path)
        return SLOTS[off_sz]

    # ---- rvalues
    def val(self, e, env):
        k = e.get("kind")
        if k in ("ParenExpr", "ConstantExpr"):
            return self.val(e["inner"][0], env)
        if k == "IntegerLiteral":
            return mkconst(int(e["value"]), ctype(e), e)
        if k == "ImplicitCastExpr" or k == "CStyleCastExpr":
            return self.cast(e, env)
        if k == "DeclRefExpr":
            fail(e, "DeclRefExpr used as rvalue without LValueToRValue: %s" % e["referencedDecl"].get("name")) if e["referencedDecl"]["kind"] != "EnumConstantDecl" else None
            name = e["referencedDecl"]["name"]
            if name not in self.enumvals:
                fail(e, "enumerator %s unknown to T1" % name)
            v = mkconst(self.enumvals[name], ctype(e), e)
            v.term = name if name in ENUM_NAMES_EXPORTED else v.term
            return v
        if k == "BinaryOperator":
            return self.binop(e, env)
        if k == "UnaryOperator":
            op = e["opcode"]
            if op == "-":
                a = self.val(e["inner"][0], env)
                if a.const is None:
                    fail(e, "unary minus on a non-constant")
                return mkconst(-a.const, ctype(e), e)
            if op == "&":
                return self.addr_of(e["inner"][0], env, e)
            fail(e, "unsupported unary operator '%s' in rvalue position" % op)
        if k == "ConditionalOperator":
            # c ? a : b  -- both arms already converted to the common type by clang
            c = self.cond(e["inner"][0], env)
            a, b, rt = self.val(e["inner"][1], env), self.val(e["inner"][2], env), ctype(e)
            if not (a.ct.kind == b.ct.kind == rt.kind and a.ct.bits == b.ct.bits == rt.bits and rt.kind in "us"):
                fail(e, "conditional operator arms of different or non-integer types")
            return V("(if %s then %s else %s)" % (c, a.term, b.term), rt, nonneg=(a.nonneg and b.nonneg))
        if k == "CallExpr":
            ph = self.pure_helper(e, env)
            if ph is not None:
                self._hdepth = getattr(self, "_hdepth", 0) + 1
                try:
                    rt = ctype(e)
                    if rt.kind in "us" and strip_casts(ph[0]).get("kind") in ("BinaryOperator", "UnaryOperator") and \
                            strip_casts(ph[0]).get("opcode") in ("&&", "||", "!", "==", "!=", "<", ">", "<=", ">="):
                        return V("(if %s then 1 else 0)" % self.cond(ph[0], ph[1]), rt, nonneg=True)
                    return self.val(ph[0], ph[1])
                finally:
                    self._hdepth -= 1
            callee = self.callee_name(e)
            if callee == "__builtin_bswap64":
                a = self.val(e["inner"][1], env)
                if not (a.ct.kind == "u" and a.ct.bits == 64):
                    fail(e, "bswap64 argument is not uint64_t")
                return V("bswap64 %s" % paren(a.term), CT("u", 64))
            fail(e, "call to unsupported function '%s' in expression" % callee)
        fail(e, "unsupported expression kind")

    def pure_helper(self, e, env):
        """(return expression, environment) when e calls a static helper whose body is `[const T x = ..;]* return <expr>;`
        over its parameters only: the call is then read as that expression with the arguments in place of the parameters"""
        if e.get("kind") != "CallExpr":
            return None
        f = e["inner"][0]
        while f.get("kind") in ("ImplicitCastExpr", "ParenExpr"):
            f = f["inner"][0]
        if f.get("kind") != "DeclRefExpr":
            return None
        fd = helper_decl(f["referencedDecl"]["name"])
        if fd is None or fd.get("storageClass") != "static" or getattr(self, "_hdepth", 0) > 3:
            return None
        body = self.flatten([c for c in fd["inner"] if c.get("kind") == "CompoundStmt"])
        if not body or body[-1].get("kind") != "ReturnStmt" or not body[-1].get("inner"):
            return None
        params = [c for c in fd["inner"] if c.get("kind") == "ParmVarDecl"]
        args = e["inner"][1:]
        if len(params) != len(args):
            return None
        for st in body[:-1]:
            if st.get("kind") != "DeclStmt" or any(d.get("kind") != "VarDecl" or "const" not in d["type"]["qualType"] or
                                                   not [c for c in d.get("inner", []) if c.get("kind") != "FullComment"]
                                                   for d in st["inner"]):
                return None
        henv = {}
        for pd, a in zip(params, args):
            if "*" in pd["type"]["qualType"]:
                return None          # only scalar parameters: nothing can be written through them
            henv[pd["name"]] = self.val(a, env)
        self._hdepth = getattr(self, "_hdepth", 0) + 1
        try:
            for st in body[:-1]:
                for d in st["inner"]:
                    init = [c for c in d.get("inner", []) if c.get("kind") != "FullComment"][0]
                    henv[d["name"]] = self.val(init, henv)
        finally:
            self._hdepth -= 1
        return body[-1]["inner"][0], henv

    def check_helper(self, ch, env):
        """(statements, environment) when `if (<ch[0]>) <ch[1]>` is `if (H(args)) return <non-zero>;` with H a static
        function of the same translation unit whose body ends in the only `return 0;` and which receives the manager and
        the job under their own names and otherwise constants"""
        e = strip_casts(ch[0])
        while e.get("kind") in ("ParenExpr", "ImplicitCastExpr"):
            e = e["inner"][0]
        neg = False
        if e.get("kind") == "BinaryOperator" and e.get("opcode") == "!=" and self.val(e["inner"][1], env).const == 0:
            e = strip_casts(e["inner"][0])
        if e.get("kind") != "CallExpr" or neg:
            return None
        f = e["inner"][0]
        while f.get("kind") in ("ImplicitCastExpr", "ParenExpr"):
            f = f["inner"][0]
        if f.get("kind") != "DeclRefExpr":
            return None
        fd = helper_decl(f["referencedDecl"]["name"])
        if fd is None or fd.get("storageClass") != "static" or self.pure_helper(e, env) is not None:
            return None
        then_s = self.flatten([ch[1]])
        if len(then_s) != 1 or then_s[0].get("kind") != "ReturnStmt":
            return None
        rv = self.val(then_s[0]["inner"][0], env)
        if rv.const is None or rv.const == 0:
            return None
        body = self.flatten([c for c in fd["inner"] if c.get("kind") == "CompoundStmt"])
        if not body or body[-1].get("kind") != "ReturnStmt" or not body[-1].get("inner"):
            return None
        last = self.val(body[-1]["inner"][0], {})
        if last.const != 0:
            return None
        params = [c for c in fd["inner"] if c.get("kind") == "ParmVarDecl"]
        args = e["inner"][1:]
        if len(params) != len(args):
            return None
        henv = {}
        for pd, a in zip(params, args):
            if "*" in pd["type"]["qualType"]:
                b = strip_casts(a)
                if not (b.get("kind") == "DeclRefExpr" and b["referencedDecl"]["name"] == pd["name"] and
                        (pd["name"] == "state" or pd["name"] in self.job_names)):
                    fail(a, "helper %s: pointer argument is not the caller's %s" % (fd["name"], pd["name"]))
            else:
                v = self.val(a, env)
                if v.const is None:
                    fail(a, "helper %s: scalar argument %s is not a constant" % (fd["name"], pd["name"]))
                henv[pd["name"]] = v
        # the helper's own locals: which of them are assigned (mutable) and which job fields it reads
        self.prescan_paths(fd)

        def scan_assigned(n):
            if n.get("kind") == "CompoundAssignOperator" or (n.get("kind") == "BinaryOperator" and n.get("opcode") == "=") or \
               (n.get("kind") == "UnaryOperator" and n.get("opcode") in ("++", "--")):
                l = strip_casts(n["inner"][0])
                if l.get("kind") == "DeclRefExpr":
                    self.assigned.add(l["referencedDecl"]["name"])
            for c in n.get("inner", []):
                if isinstance(c, dict):
                    scan_assigned(c)
        scan_assigned(fd)
        return body[:-1], henv

    def callee_name(self, e):
        f = e["inner"][0]
        while f.get("kind") in ("ImplicitCastExpr", "ParenExpr"):
            f = f["inner"][0]
        if f.get("kind") != "DeclRefExpr":
            fail(e, "indirect call")
        return f["referencedDecl"]["name"]

    def cast(self, e, env):
        ck, inner, to = e.get("castKind"), e["inner"][0], ctype(e)
        if ck == "LValueToRValue":
            return self.read_lvalue(inner, env)
        if ck == "NoOp":
            return self.val(inner, env)
        if ck == "NullToPointer":
            a = self.val(inner, env)
            if a.const != 0:
                fail(e, "NullToPointer of a non-zero constant")
            return V("0", to, const=0)
        if ck == "BitCast":
            a = self.val(inner, env)
            if a.ct.kind != "ptr" or to.kind != "ptr":
                fail(e, "BitCast between non-pointers")
            return V(a.term, to, const=a.const, prov=a.prov)
        if ck == "IntegralCast":
            a = self.val(inner, env)
            if a.ct.kind not in "us" or to.kind not in "us":
                fail(e, "IntegralCast on non-integers")
            if a.const is not None:
                if to.kind == "s":
                    lo, hi = rng(to)
                    if not (lo <= a.const <= hi):
                        fail(e, "constant does not fit the signed target type")
                    return V(a.term, to, const=a.const)
                v = mkconst(a.const, to, e)  # modular conversion to unsigned (C11 6.3.1.3p2)
                if v.const == a.const:
                    v.term = a.term           # keep the symbolic enumerator name
                return v
            if not a.nonneg:
                # a possibly negative two's-complement image: only narrowing to unsigned is exact
                if to.kind == "u" and to.bits <= a.ct.bits:
                    self.stats["masks"] += 1
                    return V("w%d %s" % (to.bits, paren(a.term)), to)
                fail(e, "widening cast of a possibly negative int is not supported")
            if to.bits >= a.ct.bits + (1 if (to.kind == "s" and a.ct.kind == "u") else 0) or \
               (to.kind == a.ct.kind and to.bits >= a.ct.bits) or (to.kind == "u" and to.bits >= a.ct.bits):
                # value-preserving: a non-negative value that fits the target
                if to.kind == "s" and a.ct.kind == "u" and a.ct.bits >= to.bits:
                    fail(e, "unsigned to signed cast of the same or larger width")
                return V(a.term, to, nonneg=True)
            if to.kind == "u":  # narrowing to unsigned: reduce modulo 2^bits
                self.stats["masks"] += 1
                return V("w%d %s" % (to.bits, paren(a.term)), to)
            fail(e, "narrowing cast to a signed type")
        fail(e, "unsupported cast kind '%s'" % ck)

    def read_lvalue(self, lv, env):
        k = lv.get("kind")
        if k == "ParenExpr":
            return self.read_lvalue(lv["inner"][0], env)
        if k == "DeclRefExpr":
            rd = lv["referencedDecl"]
            name = rd["name"]
            if rd["kind"] == "ParmVarDecl":
                if env.get(name) is not None and name not in self.params and name not in self.job_names and name != "state":
                    return env[name]          # scalar parameter of a helper read in place: bound to the argument
                if name in self.params:
                    return V(name, ctype(lv))
                if name in self.job_names:
                    return V("(*job*)", ctype(lv), prov=("job",))
                fail(lv, "read of unsupported parameter '%s'" % name)
            if rd["kind"] == "VarDecl":
                if name in self.job_names:
                    return V("(*job*)", ctype(lv), prov=("job",))
                if name not in env or env[name] is None:
                    fail(lv, "read of unknown or uninitialised local '%s'" % name)
                return env[name]
            fail(lv, "read of unsupported declaration kind %s" % rd["kind"])
        if k == "MemberExpr":
            path, base = self.member_path(lv)
            b = self.val(base, env)
            if b.prov == ("job",):
                slot = self.slot_of(path, lv)
                return V("%s j" % slot, ctype(lv), prov=("field", slot))
            if b.prov and b.prov[0] == "elem":       # seg->len etc. inside a loop over a memory array
                acc = b.prov[1]
                if path not in acc:
                    fail(lv, "unknown member '%s' of array element" % path)
                self.stats["memread"] += 1
                return V("%s s" % acc[path], ctype(lv))
            fail(lv, "member read through an unsupported pointer")
        if k == "ArraySubscriptExpr":
            base, idx = lv["inner"][0], lv["inner"][1]
            # local constant array?
            b0 = base
            while b0.get("kind") in ("ImplicitCastExpr", "ParenExpr"):
                b0 = b0["inner"][0]
            if b0.get("kind") == "DeclRefExpr" and b0["referencedDecl"]["name"] in env and \
               isinstance(env[b0["referencedDecl"]["name"]], tuple):
                _, gname, length = env[b0["referencedDecl"]["name"]]
                iv = self.val(idx, env)
                self.check_index(iv, length, env, lv)
                return V("nth_N %s %s" % (gname, paren(iv.term)), ctype(lv))
            b = self.val(base, env)
            iv = self.val(idx, env)
            if b.prov is None or iv.const is None:
                fail(lv, "memory read with unknown provenance or non-constant index")
            key = ("idx", b.prov, iv.const, pointee_size(b.ct, lv))
            if key not in MEMREADS:
                fail(lv, "memory read not in the memory view: %s" % (key,))
            self.stats["memread"] += 1
            return V("%s j" % MEMREADS[key], ctype(lv))
        if k == "UnaryOperator" and lv.get("opcode") == "*":
            p = self.val(lv["inner"][0], env)
            ct = ctype(lv)
            if p.prov is None or ct.kind != "u":
                fail(lv, "dereference with unknown provenance")
            key = ("deref", p.prov, ct.bits // 8)
            if key not in MEMREADS:
                fail(lv, "memory read not in the memory view: %s" % (key,))
            self.stats["memread"] += 1
            return V("%s j" % MEMREADS[key], ct)
        fail(lv, "unsupported lvalue")

    def check_index(self, iv, length, env, node):
        """Array index must be the switch scrutinee of an enclosing case group whose labels are all in range."""
        labels = env.get("__case_labels__")
        scr = env.get("__case_scrutinee__")
        if iv.const is not None:
            if not (0 <= iv.const < length):
                fail(node, "constant array index out of range")
            return
        if labels is None or scr is None or iv.term not in scr:
            fail(node, "array index is not the scrutinee of the enclosing case group (%s vs %s)" % (iv.term, scr))
        if not all(0 <= l < length for l in labels):
            fail(node, "case labels %s exceed array length %d" % (labels, length))

    def addr_of(self, lv, env, node):
        if lv.get("kind") == "ArraySubscriptExpr":
            b = self.val(lv["inner"][0], env)
            iv = self.val(lv["inner"][1], env)
            if b.prov in MEMARRAYS and iv.term == env.get("__loopvar__"):
                lname, acc, esz = MEMARRAYS[b.prov]
                if pointee_size(b.ct, node) != esz:
                    fail(node, "element size mismatch")
                self.stats["wrap_ops"] += 2
                return V("add64 %s (mul64 %s %d)" % (paren(b.term), iv.term, esz), ctype(node), prov=("elem", acc))
        fail(node, "unsupported address-of")

    def binop(self, e, env):
        op = e["opcode"]
        if op in ("==", "!=", "<", ">", "<=", ">=", "&&", "||"):
            return V("(if %s then 1 else 0)" % self.cond(e, env), CT("s", 32), nonneg=True)
        a, b, rt = self.val(e["inner"][0], env), self.val(e["inner"][1], env), ctype(e)
        if rt.kind == "ptr":
            if op != "+" or a.ct.kind != "ptr" or b.ct.kind != "u":
                fail(e, "unsupported pointer arithmetic")
            sz = pointee_size(a.ct, e)
            self.stats["wrap_ops"] += 1
            off = b.term if sz == 1 else "(mul64 %s %d)" % (paren(b.term), sz)
            if sz != 1:
                self.stats["wrap_ops"] += 1
            prov = ("add", a.prov, b.prov) if (a.prov and b.prov and sz == 1) else None
            return V("add64 %s %s" % (paren(a.term), paren(off)), rt, prov=prov)
        if a.ct.kind not in "us" or b.ct.kind not in "us":
            fail(e, "arithmetic on non-integers")
        if op in ("<<", ">>"):
            if b.const is None or not (0 <= b.const < a.ct.bits):
                fail(e, "shift by a non-constant or out-of-range amount")
            if a.ct.kind != rt.kind or a.ct.bits != rt.bits:
                fail(e, "shift result type differs from the promoted left operand")
        elif not (a.ct.kind == b.ct.kind == rt.kind and a.ct.bits == b.ct.bits == rt.bits):
            fail(e, "operands not converted to a common type (%s %s -> %s)" % (a.ct, b.ct, rt))
        if a.const is not None and b.const is not None:
            x, y = a.const, b.const
            if op == "/" and y == 0:
                fail(e, "division by zero")
            r = {"+": x + y, "-": x - y, "*": x * y, "/": (abs(x) // abs(y)) * (1 if (x < 0) == (y < 0) else -1) if y else 0,
                 "<<": x << y, ">>": x >> y, "&": x & y, "|": x | y, "^": x ^ y}.get(op)
            if r is None:
                fail(e, "unsupported constant operator '%s'" % op)
            if op in (">>", "&", "|", "^") and (x < 0 or y < 0):
                fail(e, "bit operation on a negative constant")
            return mkconst(r, rt, e)
        if rt.kind == "u" and rt.bits == 64:
            if op == "+":
                self.stats["wrap_ops"] += 1
                return V("add64 %s %s" % (paren(a.term), paren(b.term)), rt)
            if op == "-":
                self.stats["wrap_ops"] += 1
                return V("sub64 %s %s" % (paren(a.term), paren(b.term)), rt)
            if op == "*":
                self.stats["wrap_ops"] += 1
                return V("mul64 %s %s" % (paren(a.term), paren(b.term)), rt)
            if op == "<<":
                self.stats["wrap_ops"] += 1
                return V("shl64 %s %s" % (paren(a.term), paren(b.term)), rt)
            if op == ">>":   # logical shift of an unsigned value: cannot overflow
                return V("N.shiftr %s %s" % (paren(a.term), paren(b.term)), rt)
            if op == "&":    # result <= both operands
                return V("N.land %s %s" % (paren(a.term), paren(b.term)), rt)
            if op == "|":
                return V("N.lor %s %s" % (paren(a.term), paren(b.term)), rt)
            if op == "/":
                if b.const is None or b.const == 0:
                    fail(e, "division by a non-constant")
                return V("N.div %s %s" % (paren(a.term), paren(b.term)), rt)
            fail(e, "unsupported uint64 operator '%s'" % op)
        if rt.kind == "u" and rt.bits == 32:
            if op == "+":
                self.stats["wrap_ops"] += 1
                return V("add32 %s %s" % (paren(a.term), paren(b.term)), rt)
            if op == "-":
                self.stats["wrap_ops"] += 1
                return V("sub32u %s %s" % (paren(a.term), paren(b.term)), rt)
            if op == "*":
                self.stats["wrap_ops"] += 1
                return V("mul32 %s %s" % (paren(a.term), paren(b.term)), rt)
            if op == "<<":
                self.stats["wrap_ops"] += 1
                return V("shl32 %s %s" % (paren(a.term), paren(b.term)), rt)
            if op == ">>":
                return V("N.shiftr %s %s" % (paren(a.term), paren(b.term)), rt)
            if op == "&":
                return V("N.land %s %s" % (paren(a.term), paren(b.term)), rt)
            if op == "|":
                return V("N.lor %s %s" % (paren(a.term), paren(b.term)), rt)
            fail(e, "unsupported uint32 operator '%s'" % op)
        if rt.kind == "s" and rt.bits == 32:
            if op == "-" and a.nonneg and b.nonneg:
                # int subtraction of two non-negative ints: no signed overflow possible; the result may be
                # negative, it is kept as its 32-bit two's-complement image
                self.stats["wrap_ops"] += 1
                return V("sub32 %s %s" % (paren(a.term), paren(b.term)), rt, nonneg=False)
            if op == "&" and a.nonneg and b.nonneg:
                return V("N.land %s %s" % (paren(a.term), paren(b.term)), rt, nonneg=True)
            fail(e, "unsupported int operator '%s'" % op)
        fail(e, "unsupported arithmetic result type %s" % rt)

    # ---- conditions (bool-valued Gallina terms)
    def cond(self, e, env):
        k = e.get("kind")
        if k == "ParenExpr":
            return self.cond(e["inner"][0], env)
        if k == "BinaryOperator":
            op = e["opcode"]
            if op in ("&&", "||"):
                a, b = self.cond(e["inner"][0], env), self.cond(e["inner"][1], env)
                return "(%s %s %s)" % (a, op, b)
            if op in ("==", "!=", "<", ">", "<=", ">="):
                a, b = self.val(e["inner"][0], env), self.val(e["inner"][1], env)
                same = (a.ct.kind == b.ct.kind and a.ct.bits == b.ct.bits)
                if not same:
                    fail(e, "comparison operands of different types (%s, %s)" % (a.ct, b.ct))
                if a.ct.kind == "s" and not (a.nonneg and b.nonneg):
                    fail(e, "signed comparison with a possibly negative operand")
                if a.ct.kind == "ptr" and op not in ("==", "!="):
                    fail(e, "relational comparison of pointers")
                x, y = paren(a.term), paren(b.term)
                return {"==": "(%s =? %s)", "!=": "negb (%s =? %s)", "<": "(%s <? %s)", "<=": "(%s <=? %s)",
                        ">": "(%s <? %s)", ">=": "(%s <=? %s)"}[op] % ((x, y) if op in ("==", "!=", "<", "<=") else (y, x))
        if k == "UnaryOperator" and e.get("opcode") == "!":
            return "negb %s" % paren(self.cond(e["inner"][0], env))
        if k in ("ImplicitCastExpr", "CStyleCastExpr") and strip_casts(e).get("kind") == "CallExpr" and \
                self.pure_helper(strip_casts(e), env) is not None:
            return self.cond(strip_casts(e), env)
        if k == "CallExpr":
            ph = self.pure_helper(e, env)
            if ph is not None:
                self._hdepth = getattr(self, "_hdepth", 0) + 1
                try:
                    return self.cond(ph[0], ph[1])      # the helper's result used as a truth value
                finally:
                    self._hdepth -= 1
        v = self.val(e, env)      # scalar used as a truth value: != 0
        if v.ct.kind not in ("u", "s", "ptr"):
            fail(e, "non-scalar condition")
        return "negb (%s =? 0)" % paren(v.term)

    # ---- statements
    @staticmethod
    def flatten(stmts):
        out = []
        for s in stmts:
            if s.get("kind") == "CompoundStmt":
                out.extend(Tr.flatten(s.get("inner", [])))
            elif s.get("kind") == "NullStmt":
                continue
            else:
                out.append(s)
        return out

    def always_returns(self, s):
        k = s.get("kind")
        if k == "ReturnStmt":
            return True
        if k == "CompoundStmt":
            inner = self.flatten(s.get("inner", []))
            return bool(inner) and self.always_returns(inner[-1])
        if k == "IfStmt":
            ch = s["inner"]
            return len(ch) == 3 and self.always_returns(ch[1]) and self.always_returns(ch[2])
        return False

    def assigns_locals(self, s):
        if s.get("kind") in ("CompoundAssignOperator",) or (s.get("kind") == "BinaryOperator" and s.get("opcode") == "=") or \
           (s.get("kind") == "UnaryOperator" and s.get("opcode") in ("++", "--")):
            return True
        return any(self.assigns_locals(c) for c in s.get("inner", []) if isinstance(c, dict))

    def block(self, stmts, env, ctx):
        """stmts: flat list; ctx: dict(ret=fn(errterm)->term, fall=fn(env)->term, brk=fn(env)->term or None,
        is_fn_tail=bool).  Returns a Gallina term."""
        env = dict(env)
        if not stmts:
            if env.get("__errno__") is not None:
                raise T2Error("imb_set_errno() not followed by a return in the same block")
            return ctx["fall"](env)
        s, rest = stmts[0], stmts[1:]
        k = s.get("kind")
        if env.get("__errno__") is not None and k != "ReturnStmt":
            fail(s, "statement between imb_set_errno() and return")
        if k == "DeclStmt":
            for d in s["inner"]:
                if d.get("kind") != "VarDecl":
                    fail(d, "unsupported declaration")
                name = d["name"]
                init = [c for c in d.get("inner", []) if c.get("kind") not in ("FullComment",)]
                if not init:
                    env[name] = None
                    continue
                if init[0].get("kind") == "InitListExpr":
                    env[name] = self.const_array(name, d, init[0], env)
                    continue
                v = self.val(init[0], env)
                # immutable = declared const, or never the target of an assignment anywhere in the function
                isconst = ("const" in d["type"]["qualType"].split("*")[-1]) or (name not in self.assigned)
                if v.const is not None and isconst:
                    env[name] = v  # constant propagation of a const local
                    continue
                if not isconst and v.const is None:
                    fail(d, "initialised mutable local with non-constant value")
                env[name] = V(name, v.ct, prov=v.prov, nonneg=v.nonneg)
                return "let %s := %s in\n%s" % (name, v.term, self.block(rest, env, ctx))
            return self.block(rest, env, ctx)
        if k == "CallExpr":
            if self.callee_name(s) != "imb_set_errno":
                fail(s, "call statement to '%s'" % self.callee_name(s))
            a0 = s["inner"][1]
            while a0.get("kind") in ("ImplicitCastExpr", "ParenExpr"):
                a0 = a0["inner"][0]
            if not (a0.get("kind") == "DeclRefExpr" and a0["referencedDecl"]["name"] == "state"):
                fail(s, "imb_set_errno first argument is not 'state'")
            ev = self.val(s["inner"][2], env)
            if ev.const is None or ev.const <= 0:
                fail(s, "imb_set_errno with a non-constant or non-positive error")
            env["__errno__"] = ev
            return self.block(rest, env, ctx)
        if k == "ReturnStmt":
            if rest:
                fail(rest[0], "unreachable statement after return")
            self.stats["return"] += 1
            rv = self.val(s["inner"][0], env)
            if rv.const is None:
                fail(s, "non-constant return value")
            if rv.const == 0:
                if not ctx.get("is_fn_tail"):
                    fail(s, "`return 0` that is not the last statement of the function")
                if env.get("__errno__") is not None:
                    fail(s, "imb_set_errno() followed by return 0")
                return "None"
            if env.get("__errno__") is None:
                fail(s, "non-zero return without imb_set_errno()")
            ev = env["__errno__"]
            cm = "" if rv.const == 1 else " (* C returns %d *)" % rv.const
            return ctx["ret"](ev.term) + cm
        if k == "BreakStmt":
            if rest:
                fail(rest[0], "unreachable statement after break")
            if ctx.get("brk") is None:
                fail(s, "break outside switch")
            return ctx["brk"](env)
        if k == "BinaryOperator" and s.get("opcode") == "=":
            lhs = s["inner"][0]
            if lhs.get("kind") != "DeclRefExpr" or lhs["referencedDecl"]["kind"] != "VarDecl":
                fail(s, "assignment to a non-local")
            name = lhs["referencedDecl"]["name"]
            if name not in env:
                fail(s, "assignment to unknown local")
            v = self.val(s["inner"][1], env)
            env[name] = V(name, ctype(lhs), nonneg=v.nonneg)
            return "let %s := %s in\n%s" % (name, v.term, self.block(rest, env, ctx))
        if k == "CompoundAssignOperator":
            lhs = s["inner"][0]
            if s.get("opcode") != "+=" or lhs.get("kind") != "DeclRefExpr":
                fail(s, "unsupported compound assignment")
            name = lhs["referencedDecl"]["name"]
            cur = env.get(name)
            if cur is None or isinstance(cur, tuple):
                fail(s, "compound assignment to uninitialised local")
            v = self.val(s["inner"][1], env)
            if not (cur.ct.kind == "u" and cur.ct.bits == 64 and v.ct.kind == "u" and v.ct.bits == 64):
                fail(s, "+= on non-uint64 operands")
            self.stats["wrap_ops"] += 1
            term = "add64 %s %s" % (paren(cur.term), paren(v.term))
            env[name] = V(name, cur.ct)
            return "let %s := %s in\n%s" % (name, term, self.block(rest, env, ctx))
        if k == "IfStmt":
            self.stats["if"] += 1
            ch = s["inner"]
            if len(ch) not in (2, 3) or s.get("hasInit") or s.get("hasVar"):
                fail(s, "unsupported if statement shape")
            sub_check = self.check_helper(ch, env) if len(ch) == 2 else None
            if sub_check is not None:
                # `if (helper(state, job, consts..)) return 1;` where helper is a list of checks of the same kind (each
                # failing one sets the error and returns non-zero, the end returns 0): read in place, its checks come
                # before the rest of this function
                hbody, henv = sub_check
                hctx = dict(ctx)
                hctx["is_fn_tail"] = False
                hctx["fall"] = lambda _e, _rest=rest, _env=env, _ctx=ctx: self.block(_rest, _env, _ctx)
                return self.block(hbody, henv, hctx)
            c = self.cond(ch[0], env)
            then_s = self.flatten([ch[1]])
            else_s = self.flatten([ch[2]]) if len(ch) == 3 else None
            if else_s is None and self.always_returns(ch[1]):
                t = self.block(then_s, env, ctx)
                return "if %s then %s\nelse %s" % (c, t, self.block(rest, env, ctx))
            # general shape: the branches may complete normally; they must not assign locals, and the
            # enclosing context must be the plain option context
            if ctx.get("tuple_ctx"):
                fail(s, "fall-through if inside a loop body is not supported")
            if self.assigns_locals(ch[1]) or (else_s is not None and self.assigns_locals(ch[2])):
                fail(s, "assignment inside an if branch that may complete normally")
            sub = dict(ctx)
            sub["fall"] = lambda _e: "None"
            sub["is_fn_tail"] = False
            if ctx.get("brk") is not None:
                # a break inside the branch would have to skip `rest`: not expressible with oseq
                if self.contains_break(ch[1]) or (else_s is not None and self.contains_break(ch[2])):
                    fail(s, "break inside an if branch that may complete normally")
            t = self.block(then_s, env, sub)
            f = self.block(else_s, env, sub) if else_s is not None else "None"
            return "oseq (if %s then %s\n else %s)\n(%s)" % (c, t, f, self.block(rest, env, ctx))
        if k == "SwitchStmt":
            if ctx.get("tuple_ctx"):
                fail(s, "switch inside a loop body")
            sw = self.switch(s, env, ctx, hoist=False)
            # break leaves the switch: the switch as a whole is a statement that may complete normally
            return "oseq (%s)\n(%s)" % (sw, self.block(rest, env, ctx))
        if k == "ForStmt":
            return self.forloop(s, rest, env, ctx)
        fail(s, "unsupported statement kind")

    def contains_break(self, s):
        if s.get("kind") == "BreakStmt":
            return True
        if s.get("kind") in ("SwitchStmt", "ForStmt", "WhileStmt", "DoStmt"):
            return False
        return any(self.contains_break(c) for c in s.get("inner", []) if isinstance(c, dict))

    def const_array(self, name, d, init, env):
        vals = []
        for c in init.get("inner", []):
            v = self.val(c, env)
            if v.const is None or v.const < 0:
                fail(c, "non-constant array initialiser")
            vals.append(v.const)
        t = parse_type(d["type"].get("desugaredQualType", d["type"]["qualType"]))
        m = re.search(r"\[(\d+)\]", t.pointee or "")
        if t.kind != "arr" or not m or int(m.group(1)) != len(vals):
            fail(d, "array length does not match its initialiser")
        if "const" not in d["type"]["qualType"]:
            fail(d, "non-const local array")
        gname = "%s_tab_%s" % (self.fname, name)
        self.defs.append("Definition %s : list N :=\n  [%s]." % (gname, "; ".join(map(str, vals))))
        return ("array", gname, len(vals))

    def case_groups(self, sw):
        body = sw["inner"][-1]
        if body.get("kind") != "CompoundStmt":
            fail(sw, "switch body is not a compound statement")
        groups, cur = [], None
        for st in body.get("inner", []):
            labels = []
            while st.get("kind") in ("CaseStmt", "DefaultStmt"):
                if st["kind"] == "CaseStmt":
                    if len(st["inner"]) != 2:
                        fail(st, "case range or malformed case")
                    lv = self.val(st["inner"][0], {})
                    if lv.const is None:
                        fail(st, "non-constant case label")
                    labels.append((lv.const, lv.term))
                    self.stats["case"] += 1
                    st = st["inner"][1]
                else:
                    labels.append(("default", "default"))
                    st = st["inner"][0]
            if labels:
                if cur is not None and not cur["stmts"]:
                    cur["labels"].extend(labels)   # should not happen: nested CaseStmt already merges
                else:
                    cur = {"labels": labels, "stmts": []}
                    groups.append(cur)
            elif cur is None:
                fail(st, "statement before the first case label")
            cur["stmts"].append(st)
        seen = set()
        for g in groups:
            for l, _ in g["labels"]:
                if l in seen:
                    fail(sw, "duplicate case label %s" % l)
                seen.add(l)
        for g in groups[:-1]:
            if any(l == "default" for l, _ in g["labels"]):
                fail(sw, "default label is not in the last group")
        if not groups or not any(l == "default" for l, _ in groups[-1]["labels"]):
            fail(sw, "switch without a final default group")
        if len(groups[-1]["labels"]) != 1:
            fail(sw, "default grouped with case labels")
        return groups

    def switch(self, sw, env, ctx, hoist, prefix=None):
        """Returns the Gallina term of a switch statement as a statement (None = left via break / end)."""
        self.stats["switch"] += 1
        if len(sw["inner"]) != 2:
            fail(sw, "switch with init/condition variable")
        scr = self.val(sw["inner"][0], env)
        if not (scr.ct.kind == "u" and scr.ct.bits == 32):
            fail(sw, "switch scrutinee is not an unsigned int")
        groups = self.case_groups(sw)
        sub = dict(ctx)
        sub["brk"] = lambda _e: "None"
        sub["is_fn_tail"] = False
        args = "j " + " ".join(self.params) if self.params else "j"
        bodies = [None] * len(groups)
        # translate from the last group backwards so that fall-through can refer to the next body
        for i in range(len(groups) - 1, -1, -1):
            g = groups[i]
            genv = dict(env)
            genv["__case_labels__"] = [l for l, _ in g["labels"] if l != "default"]
            genv["__case_scrutinee__"] = scr.term
            nxt = i + 1
            if nxt < len(groups):
                if hoist:
                    sub["fall"] = (lambda n: (lambda _e: "%s %s" % (n, args)))(self.group_name(prefix, groups[nxt]))
                else:
                    sub["fall"] = (lambda t: (lambda _e: t))(bodies[nxt])
            else:
                sub["fall"] = lambda _e: "None"   # end of the switch body
            stmts = self.flatten(g["stmts"])
            if self.assigns_leak(stmts):
                pass
            bodies[i] = self.block(stmts, genv, sub)
        tests = []
        if hoist:
            # definitions in source order, except that a group falling through into the next one is
            # emitted after it (Coq needs the callee first)
            i = 0
            while i < len(groups):
                k = i
                while k + 1 < len(groups) and ("%s %s" % (self.group_name(prefix, groups[k + 1]), args)) in bodies[k]:
                    k += 1
                for m in range(k, i - 1, -1):
                    note = "" if m == k or True else ""
                    self.defs.append("Definition %s (j : job_view) (%s : N) : option N :=\n%s." % (
                        self.group_name(prefix, groups[m]), " ".join(self.params), indent(bodies[m], 2)))
                i = k + 1
        for i, g in enumerate(groups):
            labs = [t for l, t in g["labels"] if l != "default"]
            if hoist:
                nm = self.group_name(prefix, g)
                b = "%s %s" % (nm, args)
            else:
                b = "(" + bodies[i] + ")"
            if labs:
                c = " || ".join("(%s =? %s)" % (paren(scr.term), t) for t in labs)
                tests.append("if %s then %s" % (c, b))
            else:
                tests.append(b)
        return "\nelse ".join(tests)

    def assigns_leak(self, stmts):
        return False

    def group_name(self, prefix, g):
        l, t = g["labels"][0]
        return "%s_%s" % (prefix, "default" if l == "default" else re.sub(r"[^A-Za-z0-9_]", "_", t))

    def forloop(self, s, rest, env, ctx):
        self.stats["for"] += 1
        ch = s["inner"]
        if len(ch) != 5 or ch[1].get("kind") is not None and ch[1] != {}:
            if not (len(ch) == 5 and (ch[1] == {} or ch[1].get("kind") is None)):
                fail(s, "unsupported for statement shape")
        init, cnd, inc, body = ch[0], ch[2], ch[3], ch[4]
        if init.get("kind") != "DeclStmt" or len(init["inner"]) != 1:
            fail(s, "for-init is not a single declaration")
        d = init["inner"][0]
        iv0 = self.val(d["inner"][0], env)
        ict = parse_type(d["type"].get("desugaredQualType", d["type"]["qualType"]))
        if iv0.const != 0 or not (ict.kind == "u" and ict.bits == 64):
            fail(s, "loop variable is not a uint64_t starting at 0")
        ivar = d["name"]
        if not (inc.get("kind") == "UnaryOperator" and inc.get("opcode") == "++" and
                inc["inner"][0].get("kind") == "DeclRefExpr" and inc["inner"][0]["referencedDecl"]["name"] == ivar):
            fail(s, "for-increment is not i++")
        lenv = dict(env)
        lenv[ivar] = V(ivar, ict)
        lenv["__loopvar__"] = ivar
        if not (cnd.get("kind") == "BinaryOperator" and cnd.get("opcode") == "<"):
            fail(s, "loop condition is not i < bound")
        lhs = self.val(cnd["inner"][0], lenv)
        bound = self.val(cnd["inner"][1], env)   # evaluated without the loop variable in scope: loop-invariant
        if lhs.term != ivar or not (bound.ct.kind == "u" and bound.ct.bits == 64):
            fail(s, "loop condition is not i < uint64 bound")
        # state = locals (declared outside) assigned in the body
        state = []
        def scan(n):
            if n.get("kind") in ("CompoundAssignOperator",) or (n.get("kind") == "BinaryOperator" and n.get("opcode") == "="):
                l = n["inner"][0]
                if l.get("kind") != "DeclRefExpr":
                    fail(n, "assignment to non-local in loop")
                nm = l["referencedDecl"]["name"]
                if nm not in state:
                    state.append(nm)
            for c in n.get("inner", []):
                if isinstance(c, dict):
                    scan(c)
        scan(body)
        for nm in state:
            if env.get(nm) is None or isinstance(env.get(nm), tuple):
                fail(s, "loop state variable '%s' is not initialised before the loop" % nm)
        # which memory array does the body walk?  (exactly one)
        arrs = [v for v in MEMARRAYS.values()]
        if len(arrs) != 1:
            raise T2Error("internal: exactly one memory array supported")
        lname = arrs[0][0]
        self.nfor += 1
        fname = "%s_for%d" % (self.fname, self.nfor)
        st_tuple = lambda e: (e[state[0]].term if len(state) == 1 else "(" + ", ".join(e[n].term for n in state) + ")")
        if len(state) != 1:
            fail(s, "exactly one loop state variable supported")
        benv = dict(lenv)
        for nm in state:
            benv[nm] = V(nm, env[nm].ct)
        bctx = {"ret": lambda t: "(Some %s, %s)" % (paren(t), state[0]),
                "fall": lambda e: "%s j %s segs' (add64 %s 1) %s" % (fname, " ".join(self.params), ivar, paren(e[state[0]].term)),
                "brk": None, "tuple_ctx": True, "is_fn_tail": False}
        self.stats["wrap_ops"] += 1
        btxt = self.block(self.flatten([body]), benv, bctx)
        self.defs.append(
            "Fixpoint %s (j : job_view) (%s : N) (segs : list sgl_seg) (%s : N) (%s : N) {struct segs} : option N * N :=\n"
            "  if (%s <? %s) then\n    match segs with\n    | [] => (Some ERR_MODEL_VIEW_EXHAUSTED, %s)\n    | s :: segs' =>\n%s\n    end\n  else (None, %s)."
            % (fname, " ".join(self.params), ivar, state[0], ivar, paren(bound.term), state[0], indent(btxt, 6), state[0]))
        after = dict(env)
        after[state[0]] = V(state[0], env[state[0]].ct)
        call = "%s j %s (%s j) 0 %s" % (fname, " ".join(self.params), lname, paren(env[state[0]].term))
        return "let '(loop_result, %s) := %s in\noseq loop_result\n(%s)" % (state[0], call, self.block(rest, after, ctx))

    # ---- whole function
    def function(self, fdecl, with_job):
        body = [c for c in fdecl["inner"] if c.get("kind") == "CompoundStmt"][0]
        pnames = [c["name"] for c in fdecl["inner"] if c.get("kind") == "ParmVarDecl"]
        exp = ["state"] + (["job"] if with_job else []) + PARAMS
        if pnames != exp:
            raise T2Error("%s: unexpected parameter list %s" % (self.fname, pnames))
        for c in fdecl["inner"]:
            if c.get("kind") == "ParmVarDecl" and c["name"] in PARAMS:
                if not (ctype(c).kind == "u" and ctype(c).bits == 32):
                    raise T2Error("%s: parameter %s is not a 32-bit enum" % (self.fname, c["name"]))
        stmts = self.flatten([body])
        self.prescan_paths(body)
        self.assigned = set()

        def scan_assigned(n):
            if n.get("kind") == "CompoundAssignOperator" or (n.get("kind") == "BinaryOperator" and n.get("opcode") == "=") or \
               (n.get("kind") == "UnaryOperator" and n.get("opcode") in ("++", "--")):
                l = strip_casts(n["inner"][0])
                if l.get("kind") != "DeclRefExpr":
                    fail(n, "assignment to something that is not a plain variable")
                self.assigned.add(l["referencedDecl"]["name"])
            for c in n.get("inner", []):
                if isinstance(c, dict):
                    scan_assigned(c)
        scan_assigned(body)
        env = {}
        parts = []
        nsw = 0
        ctx0 = {"ret": lambda t: "Some %s" % paren(t), "fall": lambda e: "None", "brk": None, "is_fn_tail": False}
        # leading declarations
        i = 0
        pre = []
        while i < len(stmts):
            s = stmts[i]
            last = (i == len(stmts) - 1)
            if s.get("kind") == "DeclStmt":
                # constants / arrays / uninitialised locals only (no let needed at function level)
                marker = "@@REST@@"
                c = dict(ctx0)
                holder = {}
                c["fall"] = lambda e: (holder.__setitem__("env", e) or marker)
                t = self.block([s], env, c)
                if t != marker:
                    fail(s, "function-level declaration needs a let binding")
                env = holder["env"]
            elif s.get("kind") == "SwitchStmt":
                nsw += 1
                prefix = "%s_sw%d" % (self.fname, nsw)
                t = self.switch(s, env, ctx0, hoist=True, prefix=prefix)
                self.defs.append("Definition %s (j : job_view) (%s : N) : option N :=\n%s." % (
                    prefix, " ".join(self.params), indent(t, 2)))
                parts.append("%s j %s" % (prefix, " ".join(self.params)))
            elif s.get("kind") == "ReturnStmt":
                if not last:
                    fail(s, "return before the end of the function body")
                c = dict(ctx0)
                c["is_fn_tail"] = True
                parts.append(self.block([s], env, c))
            else:
                c = dict(ctx0)
                parts.append("(" + self.block([s], env, c) + ")")
            i += 1
        if not parts or parts[-1] != "None":
            raise T2Error("%s: function does not end with `return 0`" % self.fname)
        term = parts[-1]
        for p in reversed(parts[:-1]):
            term = "oseq (%s)\n(%s)" % (p, term)
        self.defs.append("Definition %s (j : job_view) (%s : N) : option N :=\n%s." % (
            self.fname + "_fn", " ".join(self.params), indent(term, 2)))
        return self.defs


def indent(t, n):
    return "\n".join((" " * n + l) if l else l for l in t.split("\n"))


ENUM_NAMES_EXPORTED = set()


# ------------------------------------------------------------------ layout cross-check
import threading
_LAYOUT, _LAYOUT_LOCK = {}, threading.Lock()


def layout_lookup(paths):
    with _LAYOUT_LOCK:
        missing = [p for p in paths if p not in _LAYOUT]
        if missing:
            _LAYOUT.update(layout_query(missing))
        return {p: _LAYOUT[p] for p in paths}


def layout_query(paths):
    """offsetof/sizeof of IMB_JOB member paths, from a compiled C program (gcc), plus the enum
    representation assumptions (sizeof 4, unsigned)."""
    lines = ['#include <stdio.h>', '#include <stddef.h>', '#include "intel-ipsec-mb.h"',
             '#define SZ(p) sizeof(((IMB_JOB *)0)->p)', 'int main(void){']
    for p in paths:
        lines.append('printf("%s %%zu %%zu\\n", offsetof(IMB_JOB, %s), SZ(%s));' % (p, p, p))
    for t in sorted(ENUM_TYPES):
        lines.append('printf("@enum %s %%zu %%d\\n", sizeof(%s), (int)((%s)-1 > 0));' % (t, t, t))
    lines.append('printf("@sizeof IMB_JOB %zu 0\\n", sizeof(IMB_JOB));')
    lines.append('printf("@sizeof IMB_SGL_IOV %zu 0\\n", sizeof(struct IMB_SGL_IOV));')
    lines.append('printf("@seg in %zu out %zu len %zu\\n", offsetof(struct IMB_SGL_IOV,in), offsetof(struct IMB_SGL_IOV,out), offsetof(struct IMB_SGL_IOV,len));')
    lines.append("return 0;}")
    with tempfile.TemporaryDirectory(prefix="t2-") as d:
        f = os.path.join(d, "lay.c")
        open(f, "w").write("\n".join(lines))
        exe = os.path.join(d, "lay")
        p = subprocess.run(["gcc", "-DLINUX", "-I", os.path.join(REPO, "lib"), "-o", exe, f],
                           stdout=subprocess.PIPE, stderr=subprocess.PIPE, text=True)
        if p.returncode != 0:
            raise T2Error("layout program failed to compile:\n" + p.stderr[-2000:])
        out = subprocess.run([exe], stdout=subprocess.PIPE, text=True, check=True).stdout
    res = {}
    for l in out.splitlines():
        w = l.split()
        if w[0] == "@enum":
            if w[2] != "4" or w[3] != "1":
                raise T2Error("enum %s is not a 4-byte unsigned type" % w[1])
        elif w[0] == "@sizeof":
            exp = {"IMB_JOB": 216, "IMB_SGL_IOV": 24}[w[1]]
            if int(w[2]) != exp:
                raise T2Error("sizeof(%s) = %s, job_view assumes %d" % (w[1], w[2], exp))
        elif w[0] == "@seg":
            if (w[2], w[4], w[6]) != ("0", "8", "16"):
                raise T2Error("struct IMB_SGL_IOV layout changed")
        else:
            res[w[0]] = (int(w[1]), int(w[2]))
    return res


# ------------------------------------------------------------------ call sites
def find_calls(fn, name):
    out = []

    def walk(n):
        if n.get("kind") == "CallExpr":
            f = n["inner"][0]
            while f.get("kind") in ("ImplicitCastExpr", "ParenExpr"):
                f = f["inner"][0]
            if f.get("kind") == "DeclRefExpr" and f["referencedDecl"]["name"] == name:
                out.append(n)
        for c in n.get("inner", []):
            if isinstance(c, dict):
                walk(c)
    walk(fn)
    return out


def call_site_args(tr, call, jobexpr_ok, with_job=True):
    """Translate actual arguments 2.. of is_job_invalid(state, JOB, a, b, c, d) where every job
    access goes through the expression accepted by jobexpr_ok."""
    args = call["inner"][1:]
    if len(args) != (6 if with_job else 5):
        fail(call, "unexpected argument count")
    if with_job and not jobexpr_ok(args[1]):
        fail(call, "job argument is not the expected expression")
    out = []
    for a in args[(2 if with_job else 1):]:
        out.append(tr.val(a, {}).term)
    return out


class CallTr(Tr):
    """Translator for call-site arguments: `job` / `jobs[i]` denote the descriptor."""

    def __init__(self, enumvals, is_job):
        Tr.__init__(self, "callsite", enumvals)
        self.is_job = is_job

    def read_lvalue(self, lv, env):
        if self.is_job(lv):
            return V("(*job*)", ctype(lv), prov=("job",))
        return Tr.read_lvalue(self, lv, env)


def strip_casts(n):
    while n.get("kind") in ("ImplicitCastExpr", "ParenExpr"):
        n = n["inner"][0]
    return n


def is_local_job(n):
    n = strip_casts(n)
    return n.get("kind") == "DeclRefExpr" and n["referencedDecl"]["name"] == "job" and n["referencedDecl"]["kind"] == "VarDecl"


def is_param_job(n):
    n = strip_casts(n)
    return n.get("kind") == "DeclRefExpr" and n["referencedDecl"]["name"] == "job" and n["referencedDecl"]["kind"] == "ParmVarDecl"


def is_jobs_i(n):
    n = strip_casts(n)
    if n.get("kind") != "ArraySubscriptExpr":
        return False
    b, i = strip_casts(n["inner"][0]), strip_casts(n["inner"][1])
    return b.get("kind") == "DeclRefExpr" and b["referencedDecl"]["name"] == "jobs" and \
        i.get("kind") == "DeclRefExpr" and i["referencedDecl"]["name"] == "i"



# ------------------------------------------------------------------ burst-level checks
class ExprFnTr(Tr):
    """Small always-inline helpers of the burst path: calc_cipher_tab_index (a single return
    expression) and set_cipher_suite_id (locals + stores through the out-parameter id[])."""

    def __init__(self, fname, enumvals):
        Tr.__init__(self, fname, enumvals, job_names=("job",), params=[])

    def read_lvalue(self, lv, env):
        if lv.get("kind") == "DeclRefExpr" and lv["referencedDecl"]["name"] in self.job_names:
            return V("(*job*)", ctype(lv), prov=("job",))
        return Tr.read_lvalue(self, lv, env)

    def val(self, e, env):
        if e.get("kind") == "CallExpr" and self.callee_name(e) == "calc_cipher_tab_index":
            a = strip_casts(e["inner"][1])
            if not (a.get("kind") == "DeclRefExpr" and a["referencedDecl"]["name"] in self.job_names):
                fail(e, "calc_cipher_tab_index() not applied to the job")
            return V("calc_cipher_tab_index j", ctype(e))
        return Tr.val(self, e, env)

    def single_return(self, fdecl):
        body = self.flatten([c for c in fdecl["inner"] if c.get("kind") == "CompoundStmt"])
        self.prescan_paths(fdecl)
        if len(body) != 1 or body[0].get("kind") != "ReturnStmt":
            raise T2Error("%s: expected a single return statement" % self.fname)
        v = self.val(body[0]["inner"][0], {})
        if not (v.ct.kind == "u" and v.ct.bits == 32):
            raise T2Error("%s: does not return an unsigned int" % self.fname)
        return "Definition %s (j : job_view) : N :=\n  %s." % (self.fname, v.term)

    def out_params(self, fdecl, outname, n):
        """locals + `out[k] = expr;` stores; returns one Definition per k."""
        body = self.flatten([c for c in fdecl["inner"] if c.get("kind") == "CompoundStmt"])
        self.prescan_paths(fdecl)
        env, lets, outs = {}, [], {}
        for st in body:
            k = st.get("kind")
            if k == "DeclStmt":
                for d in st["inner"]:
                    init = [c for c in d.get("inner", []) if c.get("kind") != "FullComment"]
                    if d.get("kind") != "VarDecl" or not init or "const" not in d["type"]["qualType"]:
                        fail(d, "unsupported local in %s" % self.fname)
                    v = self.val(init[0], env)
                    env[d["name"]] = V(d["name"], v.ct, nonneg=v.nonneg)
                    lets.append("let %s := %s in" % (d["name"], v.term))
            elif k == "BinaryOperator" and st.get("opcode") == "=":
                lhs = st["inner"][0]
                if lhs.get("kind") != "ArraySubscriptExpr":
                    fail(st, "unsupported store in %s" % self.fname)
                b, i = strip_casts(lhs["inner"][0]), self.val(lhs["inner"][1], env)
                if not (b.get("kind") == "DeclRefExpr" and b["referencedDecl"]["name"] == outname) or i.const is None:
                    fail(st, "store not through %s[const]" % outname)
                if ctype(lhs).kind != "u" or ctype(lhs).bits != 32:
                    fail(st, "out-parameter element is not uint32_t")
                v = self.val(st["inner"][1], env)
                if not (v.ct.kind == "u" and v.ct.bits == 32):
                    fail(st, "stored value is not an unsigned int")
                if i.const in outs:
                    fail(st, "element stored twice")
                outs[i.const] = v.term
            else:
                fail(st, "unsupported statement in %s" % self.fname)
        if sorted(outs) != list(range(n)):
            raise T2Error("%s: expected stores to %s[0..%d]" % (self.fname, outname, n - 1))
        return ["Definition %s_%d (j : job_view) : N :=\n  %s\n  %s." % (self.fname, k, "\n  ".join(lets), outs[k]) for k in range(n)]


class BurstTr(Tr):
    """The `if (run_check) { ... }` block of submit_burst_and_check().  Statement shapes are matched
    against the small set that occurs there; every CONDITION is translated by the generic expression
    translator (so a changed operator, constant or operand changes the image)."""

    def __init__(self, enumvals):
        Tr.__init__(self, "submit_burst_check", enumvals, job_names=(), params=[])
        self.aliases = set()      # const pointer locals of the loop body initialised with jobs[i]
        self.tname = "t"          # the two-element array receiving the expected suite id

    # --- special lvalues / calls of the burst path
    def is_jobs_i(self, n):
        m = strip_casts(n)
        if m.get("kind") == "DeclRefExpr" and m["referencedDecl"]["name"] in self.aliases:
            return True
        return is_jobs_i(n)

    def read_lvalue(self, lv, env):
        k = lv.get("kind")
        if k == "DeclRefExpr":
            nm, dk = lv["referencedDecl"]["name"], lv["referencedDecl"]["kind"]
            if nm == "jobs" and dk == "ParmVarDecl":
                return V("(*jobs*)", ctype(lv), prov=("jobs",))
            if nm == "n_jobs" and dk == "ParmVarDecl":
                return V("n_jobs", ctype(lv))
            if nm == "i" and dk == "VarDecl" and env.get("__in_loop__"):
                return V("i", ctype(lv))
            if nm == "job_offset":
                return V("(*job_offset*)", ctype(lv), prov=("job_offset",))
            if nm in self.aliases and env.get("__in_loop__"):
                return V("(*jobs[i]*)", ctype(lv), prov=("entry",))
        if k == "ArraySubscriptExpr":
            if self.is_jobs_i(lv) and env.get("__in_loop__"):
                return V("(*jobs[i]*)", ctype(lv), prov=("entry",))
            b = strip_casts(lv["inner"][0])
            iv = self.val(lv["inner"][1], env)
            if b.get("kind") == "DeclRefExpr" and b["referencedDecl"]["name"] == self.tname and iv.const in (0, 1) and env.get("__t__"):
                return V(env["__t__"][iv.const], ctype(lv))
            if b.get("kind") == "MemberExpr" and b.get("name") == "suite_id" and b.get("isArrow") and \
               self.is_jobs_i(b["inner"][0]) and iv.const in (0, 1):
                return V("be_suite%d e" % iv.const, ctype(lv))
        return Tr.read_lvalue(self, lv, env)

    def val(self, e, env):
        if e.get("kind") == "CallExpr":
            c = self.callee_name(e)
            if c == "queue_sz_remaining":
                a = strip_casts(e["inner"][1])
                if not (a.get("kind") == "DeclRefExpr" and a["referencedDecl"]["name"] == "state"):
                    fail(e, "queue_sz_remaining() not applied to state")
                return V("bv_queue_space b", ctype(e))
            if c == "JOBS":
                a, o = strip_casts(e["inner"][1]), strip_casts(e["inner"][2])
                if not (a.get("kind") == "DeclRefExpr" and a["referencedDecl"]["name"] == "state" and
                        o.get("kind") == "DeclRefExpr" and o["referencedDecl"]["name"] == "job_offset"):
                    fail(e, "JOBS() not applied to (state, job_offset)")
                return V("(*expected slot*)", ctype(e), prov=("expected_slot",))
        return Tr.val(self, e, env)

    def cond(self, e, env):
        if e.get("kind") == "BinaryOperator" and e.get("opcode") in ("==", "!="):
            a, b = self.val(e["inner"][0], env), self.val(e["inner"][1], env)
            pos = e["opcode"] == "=="
            for x, y in ((a, b), (b, a)):
                if x.prov == ("jobs",) and y.const == 0 and y.ct.kind == "ptr":
                    return "bv_jobs_null b" if pos else "negb (bv_jobs_null b)"
                if x.prov == ("entry",) and y.const == 0 and y.ct.kind == "ptr":
                    return "be_null e" if pos else "negb (be_null e)"
                if x.prov == ("entry",) and y.prov == ("expected_slot",):
                    return "be_in_order e" if pos else "negb (be_in_order e)"
            if a.prov in (("jobs",), ("entry",), ("expected_slot",)) or b.prov in (("jobs",), ("entry",), ("expected_slot",)):
                fail(e, "unsupported pointer comparison in the burst check")
        return Tr.cond(self, e, env)

    # --- statements
    def reject_body(self, stmts, env, in_loop):
        """`imb_set_errno(state, E); return 0;` -> whole-burst error;  `...; goto return_invalid_job;` -> job i"""
        st = self.flatten(stmts)
        err = None
        if st and st[0].get("kind") == "CallExpr" and self.callee_name(st[0]) == "imb_set_errno":
            a0 = strip_casts(st[0]["inner"][1])
            if not (a0.get("kind") == "DeclRefExpr" and a0["referencedDecl"]["name"] == "state"):
                fail(st[0], "imb_set_errno first argument is not 'state'")
            ev = self.val(st[0]["inner"][2], env)
            if ev.const is None or ev.const <= 0:
                fail(st[0], "imb_set_errno with a non-constant error")
            err, st = ev.term, st[1:]
        if len(st) != 1:
            fail(stmts[0] if stmts else None, "unexpected statements in a rejecting branch")
        if st[0].get("kind") == "ReturnStmt":
            rv = self.val(st[0]["inner"][0], env)
            if rv.const != 0 or err is None:
                fail(st[0], "whole-burst rejection must be `imb_set_errno(..); return 0;`")
            return ("whole", err)
        if st[0].get("kind") == "GotoStmt":
            if not in_loop or st[0].get("targetLabelDeclId") != self.invalid_label_id:
                fail(st[0], "goto to an unexpected label")
            return ("job", err)
        fail(st[0], "unexpected statement in a rejecting branch")

    def check_invalid_label(self, fdecl):
        """return_invalid_job: jobs[i]->status = IMB_STATUS_INVALID_ARGS; jobs[0] = jobs[i]; return 0;"""
        found = []

        def walk(n):
            if n.get("kind") == "LabelStmt" and n.get("name") == "return_invalid_job":
                found.append(n)
            for c in n.get("inner", []):
                if isinstance(c, dict):
                    walk(c)
        walk(fdecl)
        if len(found) != 1:
            raise T2Error("label return_invalid_job not found exactly once")
        self.invalid_label_id = found[0].get("declId")
        first = found[0]["inner"][0]
        ok = first.get("kind") == "BinaryOperator" and first.get("opcode") == "=" and \
            strip_casts(first["inner"][0]).get("name") == "status"
        rhs = strip_casts(first["inner"][1]) if ok else {}
        if not (ok and rhs.get("kind") == "DeclRefExpr" and rhs["referencedDecl"]["name"] == "IMB_STATUS_INVALID_ARGS"):
            raise T2Error("return_invalid_job does not start with `jobs[i]->status = IMB_STATUS_INVALID_ARGS`")

    def translate(self, fdecl):
        self.check_invalid_label(fdecl)
        body = [c for c in fdecl["inner"] if c.get("kind") == "CompoundStmt"][0]
        blocks = []
        for s in body["inner"]:
            if s.get("kind") == "IfStmt":
                c = strip_casts(s["inner"][0])
                if c.get("kind") == "DeclRefExpr" and c["referencedDecl"]["name"] == "run_check":
                    blocks.append(s)
        if len(blocks) != 1 or len(blocks[0]["inner"]) != 2:
            raise T2Error("submit_burst_and_check: expected exactly one `if (run_check) {...}` block without else")
        stmts = self.flatten([blocks[0]["inner"][1]])
        env = {}
        pre, loop = [], None
        for st in stmts:
            k = st.get("kind")
            if loop is not None:
                fail(st, "statement after the validation loop inside the run_check block")
            if k == "DeclStmt":
                d = st["inner"][0]
                if d.get("name") != "job_offset":
                    fail(st, "unexpected declaration in the run_check block")
                init = strip_casts(d["inner"][0])
                if not (init.get("kind") == "MemberExpr" and init.get("name") == "next_job"):
                    fail(st, "job_offset is not initialised from state->next_job")
                continue
            if k == "IfStmt":
                if len(st["inner"]) != 2:
                    fail(st, "if with else in the run_check block")
                c = self.cond(st["inner"][0], env)
                kind, err = self.reject_body([st["inner"][1]], env, False)
                pre.append((c, err))
                continue
            if k == "ForStmt":
                loop = st
                continue
            fail(st, "unsupported statement in the run_check block")
        if loop is None:
            raise T2Error("no validation loop in the run_check block")
        ch = loop["inner"]
        init, cnd, inc, lbody = ch[0], ch[2], ch[3], ch[4]
        ok = init.get("kind") == "BinaryOperator" and init.get("opcode") == "=" and \
            strip_casts(init["inner"][0]).get("referencedDecl", {}).get("name") == "i" and self.val(init["inner"][1], env).const == 0
        ok = ok and inc.get("kind") == "UnaryOperator" and inc.get("opcode") == "++" and \
            strip_casts(inc["inner"][0]).get("referencedDecl", {}).get("name") == "i"
        if not ok:
            fail(loop, "loop is not `for (i = 0; ...; i++)`")
        lenv = {"__in_loop__": True}
        lc = self.cond(cnd, lenv)
        if lc != "(i <? n_jobs)":
            fail(loop, "loop condition is not i < n_jobs (%s)" % lc)
        steps = []      # list of ("if", cond, kind, err) | ("invalid",) | ("suite",)
        seen_adv = False
        for st in self.flatten([lbody]):
            k = st.get("kind")
            if k == "IfStmt":
                if len(st["inner"]) != 2:
                    fail(st, "if with else in the validation loop")
                c0 = strip_casts(st["inner"][0])
                if c0.get("kind") == "CallExpr" and self.callee_name(c0) == "is_job_invalid":
                    kind, err = self.reject_body([st["inner"][1]], lenv, True)
                    if kind != "job" or err is not None:
                        fail(st, "is_job_invalid() branch must be a bare `goto return_invalid_job`")
                    self.invalid_call = c0
                    steps.append(("invalid",))
                    continue
                c = self.cond(st["inner"][0], lenv)
                kind, err = self.reject_body([st["inner"][1]], lenv, True)
                if err is None:
                    fail(st, "rejecting branch without imb_set_errno()")
                if "be_in_order" in c and seen_adv:
                    fail(st, "slot comparison after ADV_JOBS")
                steps.append(("if", c, kind, err))
                continue
            if k == "CallExpr" and self.callee_name(st) == "ADV_JOBS":
                a = strip_casts(st["inner"][1])
                if not (a.get("kind") == "UnaryOperator" and a.get("opcode") == "&" and
                        strip_casts(a["inner"][0]).get("referencedDecl", {}).get("name") == "job_offset"):
                    fail(st, "ADV_JOBS not applied to &job_offset")
                if seen_adv:
                    fail(st, "ADV_JOBS called twice per iteration")
                seen_adv = True
                continue
            if k == "DeclStmt":
                d = st["inner"][0]
                init = [c for c in d.get("inner", []) if c.get("kind") != "FullComment"]
                if len(st["inner"]) == 1 and init and is_jobs_i(init[0]) and "*" in d["type"]["qualType"] and \
                        "const" in d["type"]["qualType"].split("*")[-1]:
                    self.aliases.add(d["name"])       # IMB_JOB *const x = jobs[i];
                    continue
                if len(st["inner"]) != 1 or "[2]" not in d["type"]["qualType"] or init:
                    fail(st, "unexpected declaration in the validation loop")
                self.tname = d["name"]
                continue
            if k == "CallExpr" and self.callee_name(st) == "set_cipher_suite_id":
                if not self.is_jobs_i(st["inner"][1]) or strip_casts(st["inner"][2]).get("referencedDecl", {}).get("name") != self.tname:
                    fail(st, "set_cipher_suite_id not applied to (jobs[i], t)")
                lenv["__t__"] = ("t0", "t1")
                steps.append(("suite",))
                continue
            fail(st, "unsupported statement in the validation loop")
        if not seen_adv or ("invalid",) not in steps:
            raise T2Error("validation loop lacks ADV_JOBS or the is_job_invalid() call")
        # emit
        body = "submit_burst_check_loop es' (add32 i 1) n_jobs"
        for stp in reversed(steps):
            if stp[0] == "if":
                _, c, kind, err = stp
                rej = "BurstReject %s %s" % (err, "(Some i)" if kind == "job" else "None")
                body = "if %s then %s\nelse %s" % (c, rej, body)
            elif stp[0] == "invalid":
                body = "match is_job_invalid (be_job e) with\n| Some err => BurstReject err (Some i)   (* errno set inside is_job_invalid() *)\n| None =>\n%s\nend" % indent(body, 2)
            else:
                body = "let t0 := set_cipher_suite_id_0 (be_job e) in\nlet t1 := set_cipher_suite_id_1 (be_job e) in\n" + body
        loopdef = ("Fixpoint submit_burst_check_loop (es : list burst_entry) (i n_jobs : N) {struct es} : burst_verdict :=\n"
                   "  if (i <? n_jobs) then\n    match es with\n    | [] => BurstReject ERR_MODEL_VIEW_EXHAUSTED None\n    | e :: es' =>\n%s\n    end\n  else BurstAccept."
                   % indent(body, 6))
        top = "submit_burst_check_loop (bv_entries b) 0 n_jobs"
        for c, err in reversed(pre):
            top = "if %s then BurstReject %s None\nelse %s" % (c, err, top)
        topdef = "Definition submit_burst_check (b : burst_view) : burst_verdict :=\n  let n_jobs := bv_n_jobs b in\n%s." % indent(top, 2)
        return [loopdef, topdef]

# ------------------------------------------------------------------ driver
def translate_tu(tu_rel, enumvals):
    flags = tu_flags(tu_rel)
    HELPER_CTX.update(tu=tu_rel, flags=flags, cache={})
    objs = clang_ast(tu_rel, flags, "is_job_invalid")
    f_light = get_function(objs, "is_job_invalid_light", tu_rel)
    f_full = get_function(objs, "is_job_invalid", tu_rel)
    out, stats = [], {}
    t1 = Tr("is_job_invalid_light", enumvals, job_names=())
    out += t1.function(f_light, with_job=False)
    t2 = Tr("is_job_invalid", enumvals)
    out += t2.function(f_full, with_job=True)
    for k in t2.stats:
        stats[k] = t1.stats[k] + t2.stats[k]
    # call sites
    sj = get_function(clang_ast(tu_rel, flags, "submit_job_and_check"), "submit_job_and_check", tu_rel)
    sb = get_function(clang_ast(tu_rel, flags, "submit_burst_and_check"), "submit_burst_and_check", tu_rel)
    cj, cb = find_calls(sj, "is_job_invalid"), find_calls(sb, "is_job_invalid")
    if len(cj) != 1 or len(cb) != 1:
        raise T2Error("expected one is_job_invalid() call in each submit path (found %d, %d)" % (len(cj), len(cb)))
    aj = call_site_args(CallTr(enumvals, is_local_job), cj[0], is_local_job)
    # const pointer locals initialised with jobs[i] stand for jobs[i]
    al = set()

    def scan_alias(n):
        if n.get("kind") == "VarDecl" and "*" in n.get("type", {}).get("qualType", "") and \
                "const" in n["type"]["qualType"].split("*")[-1]:
            init = [c for c in n.get("inner", []) if c.get("kind") != "FullComment"]
            if len(init) == 1 and is_jobs_i(init[0]):
                al.add(n["name"])
        for c in n.get("inner", []):
            if isinstance(c, dict):
                scan_alias(c)
    scan_alias(sb)

    def is_entry(n):
        m = strip_casts(n)
        return is_jobs_i(n) or (m.get("kind") == "DeclRefExpr" and m["referencedDecl"]["name"] in al)
    ab = call_site_args(CallTr(enumvals, is_entry), cb[0], is_entry)
    if aj != ab:
        raise T2Error("job-API and burst call sites pass different arguments: %s vs %s" % (aj, ab))
    out.append("(* actual arguments at the call sites in submit_job_and_check() (mb_mgr_job_api.h) and\n"
               "   submit_burst_and_check() (mb_mgr_burst_async.h) -- both translate to the same terms;\n"
               "   note the uint64_t -> IMB_KEY_SIZE_BYTES (32-bit enum) conversion of key_len_in_bytes *)\n"
               "Definition is_job_invalid (j : job_view) : option N :=\n  is_job_invalid_fn j %s." % " ".join(paren(a) for a in aj))
    # is_job_invalid_light: called from imb_set_session() in lib/x86_64/cipher_suite_id.c
    ltu = "lib/x86_64/cipher_suite_id.c"
    ss = get_function(clang_ast(ltu, tu_flags(ltu), "imb_set_session"), "imb_set_session", ltu)
    cl = find_calls(ss, "is_job_invalid_light")
    if len(cl) != 1:
        raise T2Error("expected one is_job_invalid_light() call in imb_set_session")
    al = call_site_args(CallTr(enumvals, is_param_job), cl[0], is_param_job, with_job=False)
    out.append("(* actual arguments at the call site in imb_set_session() (lib/x86_64/cipher_suite_id.c) *)\n"
               "Definition is_job_invalid_light (j : job_view) : option N :=\n  is_job_invalid_light_fn j %s." % " ".join(paren(a) for a in al))
    # burst-level checks: calc_cipher_tab_index, set_cipher_suite_id, run_check block of submit_burst_and_check
    fc = get_function(clang_ast(tu_rel, flags, "calc_cipher_tab_index"), "calc_cipher_tab_index", tu_rel)
    fs = get_function(clang_ast(tu_rel, flags, "set_cipher_suite_id"), "set_cipher_suite_id", tu_rel)
    out.append("(* ---- asynchronous burst API: checks of submit_burst_and_check() (mb_mgr_burst_async.h, run_check = 1)\n"
               "   and the suite-id helpers of mb_mgr_job_api.h ---- *)")
    out.append(ExprFnTr("calc_cipher_tab_index", enumvals).single_return(fc))
    out += ExprFnTr("set_cipher_suite_id", enumvals).out_params(fs, "id", 2)
    bt = BurstTr(enumvals)
    out += bt.translate(sb)
    ab2 = call_site_args(CallTr(enumvals, bt.is_jobs_i), bt.invalid_call, bt.is_jobs_i)
    if ab2 != aj:
        raise T2Error("is_job_invalid() inside the burst validation loop is called with different arguments")
    stats["layout_paths"] = len(t2.used_paths)
    return out, stats, flags


HEADER = """(* GENERATED by translators/t2_validate.py -- DO NOT EDIT.
   Source: lib/include/mb_mgr_job_check.h  sha256=%s
   as seen in the translation units %s
   preprocessed with: %s
   Image conventions: see the translator's docstring and coq/Mgr/JobView.v. *)
From Coq Require Import NArith List Bool.
From IMB Require Import Lib.Bytes Gen.GenEnums Mgr.JobView.
Import ListNotations.
Local Open Scope N_scope.
Local Open Scope bool_scope.

"""


def generate():
    enums = t1_enums.route_a()
    enumvals = {}
    for t, vals in enums.items():
        for n, v in vals:
            enumvals[n] = v
            ENUM_NAMES_EXPORTED.add(n)
    # errno.h constants used by the checker are macros: they reach the AST as plain integer literals
    with concurrent.futures.ThreadPoolExecutor(max_workers=len(TUS)) as ex:
        res = list(ex.map(lambda tu: translate_tu(tu, enumvals), TUS))
    base = res[0]
    for tu, r in zip(TUS[1:], res[1:]):
        if r[0] != base[0]:
            raise T2Error("translation of %s differs from %s" % (tu, TUS[0]))
    src = open(os.path.join(REPO, "lib", "include", "mb_mgr_job_check.h"), "rb").read()
    flags = [f for f in base[2] if f.startswith("-D")]
    content = HEADER % (hashlib.sha256(src).hexdigest(), ", ".join(TUS), " ".join(flags)) + "\n\n".join(base[0]) + "\n"
    return content, base[1]


def main(argv=None):
    argv = sys.argv[1:] if argv is None else argv
    content, stats = generate()
    if "--check" in argv:
        same = os.path.exists(OUT) and open(OUT).read() == content
        print("t2_validate: %s %s" % ("up to date" if same else "STALE", json.dumps(stats)))
        return 0 if same else 1
    ch = t1_enums.write_if_changed(OUT, content)
    print("t2_validate: %s %s %s" % (OUT, "rewritten" if ch else "unchanged", json.dumps(stats)))
    return 0


if __name__ == "__main__":
    try:
        sys.exit(main())
    except (T2Error, t1_enums.T1Error) as e:
        print("t2_validate: FATAL: %s" % e, file=sys.stderr)
        sys.exit(2)
