#!/usr/bin/env python3
"""T1: lib/intel-ipsec-mb.h -> coq/Gen/GenEnums.v

Two independent extraction routes, cross-checked on every run:
  route A: `clang -Xclang -ast-dump=json -fsyntax-only` on the header: every EnumDecl reached
           through a typedef, enumerator values computed from the ConstantExpr initialisers
           (value = explicit initialiser, else previous + 1, first = 0: C11 6.7.2.2);
  route B: a tiny generated C program compiled with gcc against the same header that prints the
           value of every enumerator and of every selected object-like macro.
Enumerators must agree between A and B; macros (not in the AST) are additionally cross-checked by
compiling the same program with clang.  Any disagreement, unknown enum, or compile failure raises.

The output file is rewritten only when its content changes.
Usage: t1_enums.py [--check]    (IMB_REPO overrides /repo)
"""
import json, os, re, subprocess, sys, tempfile

VERIF = os.path.dirname(os.path.dirname(os.path.abspath(__file__)))
REPO = os.environ.get("IMB_REPO", "/repo")
HEADER = os.path.join(REPO, "lib", "intel-ipsec-mb.h")
OUT = os.path.join(os.environ.get("IMB_COQ_DIR", os.path.join(VERIF, "coq")), "Gen", "GenEnums.v")  # IMB_COQ_DIR: scratch trees of mutation trials

ENUMS = [  # typedef name -> Coq list name
    ("IMB_CIPHER_MODE", "all_cipher_modes"),
    ("IMB_HASH_ALG", "all_hash_algs"),
    ("IMB_STATUS", "all_statuses"),
    ("IMB_ERR", "all_errs"),
    ("IMB_ARCH", "all_archs"),
    ("IMB_KEY_SIZE_BYTES", "all_key_sizes"),
    ("IMB_CIPHER_DIRECTION", "all_cipher_directions"),
    ("IMB_CHAIN_ORDER", "all_chain_orders"),
    ("IMB_SGL_STATE", "all_sgl_states"),
]
# object-like macros exported as constants: (regex on the macro name, list name or None)
MACRO_GROUPS = [
    (r"IMB_FEATURE_[A-Z0-9_]+", "all_features"),
    (r"IMB_CPUFLAGS_[A-Z0-9_]+", "all_cpuflags"),
    (r"IMB_FLAG_[A-Z0-9_]+", "all_flags"),
]
MACRO_SINGLE = [
    "IMB_MAX_JOBS", "IMB_MAX_BURST_SIZE", "IMB_MAX_TAG_LEN",
    "IMB_GCM_MAX_LEN", "IMB_CHACHA20_POLY1305_MAX_LEN", "IMB_CCM_AAD_MAX_SIZE",
    "IMB_GCM_IV_DATA_LEN", "IMB_SM3_DIGEST_SIZE", "IMB_SM3_BLOCK_SIZE",
    "IMB_DOCSIS_CRC32_MIN_ETH_PDU_SIZE", "IMB_DOCSIS_CRC32_TAG_SIZE",
    "IMB_DES_BLOCK_SIZE", "IMB_DES_KEY_SCHED_SIZE", "IMB_AES_BLOCK_SIZE", "IMB_SM4_BLOCK_SIZE",
    "IMB_SHA1_DIGEST_SIZE_IN_BYTES", "IMB_SHA224_DIGEST_SIZE_IN_BYTES", "IMB_SHA256_DIGEST_SIZE_IN_BYTES",
    "IMB_SHA384_DIGEST_SIZE_IN_BYTES", "IMB_SHA512_DIGEST_SIZE_IN_BYTES", "IMB_MD5_DIGEST_SIZE_IN_BYTES",
    "IMB_KASUMI_KEY_SIZE", "IMB_KASUMI_IV_SIZE", "IMB_KASUMI_BLOCK_SIZE", "IMB_KASUMI_DIGEST_SIZE",
    "IMB_ZUC_KEY_LEN_IN_BYTES", "IMB_ZUC_IV_LEN_IN_BYTES", "IMB_ZUC256_KEY_LEN_IN_BYTES",
    "IMB_ZUC256_IV_LEN_IN_BYTES_MIN", "IMB_ZUC256_IV_LEN_IN_BYTES_MAX", "IMB_ZUC_DIGEST_LEN_IN_BYTES",
    "IMB_ZUC256_DIGEST_LEN_IN_BYTES_MIN", "IMB_ZUC256_DIGEST_LEN_IN_BYTES_MAX",
    "IMB_SNOW3G_DIGEST_LEN", "IMB_SNOW3G_IV_LEN_IN_BYTES",
    "IMB_CHACHA20_POLY1305_KEY_SIZE", "IMB_CHACHA20_POLY1305_IV_SIZE", "IMB_POLY1305_BLOCK_SIZE",
]
# values that are not macros of the header but are needed next to the enums
EXTRA_EXPRS = [
    ("sizeof_IMB_JOB", "sizeof(IMB_JOB)"),
    ("sizeof_IMB_MGR", "sizeof(IMB_MGR)"),
    ("sizeof_IMB_SGL_IOV", "sizeof(struct IMB_SGL_IOV)"),
    ("errno_EFAULT", "EFAULT"),   # raised for NULL custom cipher/hash function pointers
    ("errno_EINVAL", "EINVAL"),   # raised by the PON in-place check
]
CFLAGS = ["-DLINUX", "-DSAFE_PARAM", "-DSAFE_DATA", "-DSAFE_LOOKUP", "-I", os.path.join(REPO, "lib")]


class T1Error(Exception):
    pass


def run(cmd, **kw):
    p = subprocess.run(cmd, stdout=subprocess.PIPE, stderr=subprocess.PIPE, text=True, **kw)
    if p.returncode != 0:
        raise T1Error("command failed: %s\n%s" % (" ".join(cmd), p.stderr[-3000:]))
    return p.stdout


# ---------------------------------------------------------------- route A: clang AST
def const_value(node):
    """Value of an enumerator initialiser: clang attaches a ConstantExpr with 'value'."""
    if node.get("kind") == "ConstantExpr" and "value" in node:
        return int(node["value"])
    raise T1Error("enumerator initialiser is not a ConstantExpr with a value: %s" % node.get("kind"))


def route_a():
    src = '#include "intel-ipsec-mb.h"\n'
    with tempfile.TemporaryDirectory(prefix="t1-") as d:
        f = os.path.join(d, "t1.c")
        open(f, "w").write(src)
        out = run(["clang"] + CFLAGS + ["-fsyntax-only", "-Xclang", "-ast-dump=json", f])
    tu = json.loads(out)
    enums_by_id, typedefs = {}, {}

    def walk(n):
        if n.get("kind") == "EnumDecl":
            vals, prev = [], -1
            for c in n.get("inner", []):
                if c.get("kind") != "EnumConstantDecl":
                    continue
                inner = [x for x in c.get("inner", []) if x.get("kind") not in ("FullComment",)]
                v = const_value(inner[0]) if inner else prev + 1
                vals.append((c["name"], v))
                prev = v
            enums_by_id[n["id"]] = vals
        if n.get("kind") == "TypedefDecl" and n.get("name") in dict(ENUMS):
            # typedef enum {...} NAME;  -> inner ElaboratedType -> EnumType -> decl id
            def find_decl(t):
                if "decl" in t and t["decl"].get("kind") == "EnumDecl":
                    return t["decl"]["id"]
                if "ownedTagDecl" in t:
                    return t["ownedTagDecl"]["id"]
                for x in t.get("inner", []):
                    r = find_decl(x)
                    if r:
                        return r
                return None
            did = None
            for x in n.get("inner", []):
                did = did or find_decl(x)
            if did is None:
                raise T1Error("cannot resolve enum behind typedef " + n["name"])
            typedefs[n["name"]] = did
        for x in n.get("inner", []):
            walk(x)

    walk(tu)
    res = {}
    for tname, _ in ENUMS:
        if tname not in typedefs or typedefs[tname] not in enums_by_id:
            raise T1Error("enum %s not found in the AST" % tname)
        res[tname] = enums_by_id[typedefs[tname]]
        if not res[tname]:
            raise T1Error("enum %s has no enumerators" % tname)
    return res


# ---------------------------------------------------------------- macros
def macro_names():
    txt = open(HEADER).read()
    names = re.findall(r"^[ \t]*#[ \t]*define[ \t]+([A-Za-z_][A-Za-z0-9_]*)(?![A-Za-z0-9_(])", txt, re.M)
    seen, groups = set(), []
    for rx, lname in MACRO_GROUPS:
        g = []
        for n in names:
            if re.fullmatch(rx, n) and n not in seen:
                seen.add(n)
                g.append(n)
        if not g:
            raise T1Error("no macro matches " + rx)
        groups.append((lname, g))
    for n in MACRO_SINGLE:
        if n not in names:
            raise T1Error("macro %s not defined in the header" % n)
    return groups


# ---------------------------------------------------------------- route B: compiled program
def route_b(enum_names, macro_list, cc):
    lines = ['#include <stdio.h>', '#include <errno.h>', '#include "intel-ipsec-mb.h"', 'int main(void){']
    for n in enum_names:
        lines.append('printf("E %s %%lld\\n", (long long)(%s));' % (n, n))
    for n in macro_list:
        # every exported macro must be a non-negative integer constant that fits 64 bits
        lines.append('printf("M %s %%llu %%d\\n", (unsigned long long)(%s), (int)((%s) >= 0));' % (n, n, n))
    for name, ex in EXTRA_EXPRS:
        lines.append('printf("X %s %%llu 1\\n", (unsigned long long)(%s));' % (name, ex))
    lines.append('return 0;}')
    with tempfile.TemporaryDirectory(prefix="t1-") as d:
        f = os.path.join(d, "t1b.c")
        open(f, "w").write("\n".join(lines))
        exe = os.path.join(d, "t1b")
        run([cc] + CFLAGS + ["-Wno-type-limits", "-o", exe, f])
        out = run([exe])
    ev, mv = {}, {}
    for l in out.splitlines():
        p = l.split()
        if p[0] == "E":
            ev[p[1]] = int(p[2])
        else:
            if p[3] != "1":
                raise T1Error("macro %s is negative" % p[1])
            mv[p[1]] = int(p[2])
    return ev, mv


def generate():
    a = route_a()
    groups = macro_names()
    macro_list = [n for _, g in groups for n in g] + MACRO_SINGLE
    enum_names = [n for t, _ in ENUMS for n, _ in a[t]]
    ev_gcc, mv_gcc = route_b(enum_names, macro_list, "gcc")
    ev_clang, mv_clang = route_b(enum_names, macro_list, "clang")
    for t, _ in ENUMS:
        for n, v in a[t]:
            if ev_gcc.get(n) != v or ev_clang.get(n) != v:
                raise T1Error("enumerator %s: AST says %d, gcc program %r, clang program %r" % (n, v, ev_gcc.get(n), ev_clang.get(n)))
            if v < 0:
                raise T1Error("negative enumerator %s" % n)
    if mv_gcc != mv_clang:
        bad = [k for k in mv_gcc if mv_gcc[k] != mv_clang.get(k)]
        raise T1Error("macro values differ between gcc and clang: %s" % bad)

    o = []
    o.append("(* GENERATED by translators/t1_enums.py from lib/intel-ipsec-mb.h -- DO NOT EDIT.")
    o.append("   Enumerators: clang JSON AST, cross-checked against a compiled C program (gcc and clang).")
    o.append("   Macros / sizeof: compiled C program (gcc, cross-checked with clang). *)")
    o.append("From Coq Require Import NArith List String.")
    o.append("Import ListNotations.")
    o.append("Local Open Scope N_scope.")
    o.append("Local Open Scope string_scope.")
    o.append("")
    defined = {}

    def define(n, v, comment=""):
        if n in defined:
            if defined[n] != v:
                raise T1Error("constant %s defined twice with different values" % n)
            return
        defined[n] = v
        o.append("Definition %s : N := %d.%s" % (n, v, ("  (* %s *)" % comment) if comment else ""))

    for t, lname in ENUMS:
        o.append("(* enum %s *)" % t)
        for n, v in a[t]:
            define(n, v)
        o.append("Definition %s : list (string * N) :=\n  [ %s ]." % (
            lname, ";\n    ".join('("%s", %s)' % (n, n) for n, _ in a[t])))
        o.append("")
    for lname, g in groups:
        o.append("(* macros %s *)" % lname)
        for n in g:
            define(n, mv_gcc[n], "0x%x" % mv_gcc[n])
        o.append("Definition %s : list (string * N) :=\n  [ %s ]." % (
            lname, ";\n    ".join('("%s", %s)' % (n, n) for n in g)))
        o.append("")
    o.append("(* single macros *)")
    for n in MACRO_SINGLE:
        define(n, mv_gcc[n])
    o.append("")
    o.append("(* sizeof / errno.h values used by the library *)")
    for n, ex in EXTRA_EXPRS:
        define(n, mv_gcc[n], ex)
    o.append("")
    o.append("(* unfold every generated constant (used by proof scripts before calling lia) *)")
    names = list(defined)
    body = "\n    ".join(" ".join(names[i:i + 6]) for i in range(0, len(names), 6))
    o.append("Ltac gen_enums_unfold :=\n  cbv delta [\n    %s ] in *." % body)
    o.append("Ltac gen_enums_unfold_goal :=\n  cbv delta [\n    %s ]." % body)
    o.append("")
    return "\n".join(o) + "\n", {"enumerators": len(enum_names), "macros": len(macro_list) + len(EXTRA_EXPRS)}


def write_if_changed(path, content):
    os.makedirs(os.path.dirname(path), exist_ok=True)
    if os.path.exists(path) and open(path).read() == content:
        return False
    tmp = path + ".tmp"
    open(tmp, "w").write(content)
    os.replace(tmp, path)
    return True


def main(argv=None):
    argv = sys.argv[1:] if argv is None else argv
    content, stats = generate()
    if "--check" in argv:
        same = os.path.exists(OUT) and open(OUT).read() == content
        print("t1_enums: %s (%d enumerators, %d macros)" % ("up to date" if same else "STALE", stats["enumerators"], stats["macros"]))
        return 0 if same else 1
    ch = write_if_changed(OUT, content)
    print("t1_enums: %s %s (%d enumerators, %d macros)" % (OUT, "rewritten" if ch else "unchanged", stats["enumerators"], stats["macros"]))
    return 0


if __name__ == "__main__":
    try:
        sys.exit(main())
    except T1Error as e:
        print("t1_enums: FATAL: %s" % e, file=sys.stderr)
        sys.exit(2)
